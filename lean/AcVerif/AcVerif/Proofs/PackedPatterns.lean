import AcVerif.Packed.Model
import AcVerif.Spec
/-!
# Packed searchers: the pattern collection (helpers for C06)

* `minLen` is a lower bound of every pattern length (and positive);
* `order` enumerates exactly the ids and is sorted by the semantic preference
  (`ordR`): ascending id for leftmost-first, descending length with ties by
  ascending id for leftmost-longest (stable insertion sort);
* `bestAt p hay pos` – the first pattern of `order` verified at offset `pos` –
  is the semantically best occurrence starting at `pos`;
* `isFind_of_scan`: a left-to-right scan that returns the first non-`none`
  `bestAt` is `IsFind`.
-/
namespace AcVerif

/-- `packed::MatchKind` as the crate-level `MatchKind` -/
def PKind.toMatchKind : PKind → MatchKind
  | .lf => .lf
  | .ll => .ll

namespace PackedP

/-! ## `minLen` -/

theorem foldl_min_le (l : List Nat) (a : Nat) :
    l.foldl min a ≤ a ∧ ∀ x ∈ l, l.foldl min a ≤ x := by
  induction l generalizing a with
  | nil => simp
  | cons y ys ih =>
    simp only [List.foldl_cons, List.mem_cons]
    have h := ih (min a y)
    refine ⟨by omega, ?_⟩
    rintro x (rfl | hx)
    · omega
    · exact h.2 x hx

theorem foldl_min_pos (l : List Nat) (a : Nat) (ha : 0 < a) (hl : ∀ x ∈ l, 0 < x) :
    0 < l.foldl min a := by
  induction l generalizing a with
  | nil => simpa
  | cons y ys ih =>
    simp only [List.foldl_cons]
    have hy := hl y (by simp)
    exact ih (min a y) (by omega) (fun x hx => hl x (by simp [hx]))

@[simp] theorem new_byId (kind : PKind) (pats : List PBytes) :
    (PPatterns.new kind pats).byId = pats := rfl

@[simp] theorem new_get (kind : PKind) (pats : List PBytes) (id : Nat) :
    (PPatterns.new kind pats).get id = pats.getD id [] := rfl

theorem new_minLen (kind : PKind) (pats : List PBytes) :
    (PPatterns.new kind pats).minLen = (pats.map List.length).foldl min 18446744073709551615 := rfl

theorem minLen_le (kind : PKind) (pats : List PBytes) (id : Nat) (h : id < pats.length) :
    (PPatterns.new kind pats).minLen ≤ (pats.getD id []).length := by
  rw [new_minLen]
  apply (foldl_min_le _ _).2
  rw [List.mem_map]
  refine ⟨pats[id], List.getElem_mem h, ?_⟩
  rw [List.getD_eq_getElem?_getD, List.getElem?_eq_getElem h]; rfl

theorem minLen_pos (kind : PKind) (pats : List PBytes) (hnz : ∀ p ∈ pats, p ≠ []) :
    0 < (PPatterns.new kind pats).minLen := by
  rw [new_minLen]
  apply foldl_min_pos _ _ (by decide)
  intro x hx
  rw [List.mem_map] at hx
  obtain ⟨p, hp, rfl⟩ := hx
  exact List.length_pos_iff.2 (hnz p hp)

theorem getD_ne_nil (pats : List PBytes) (hnz : ∀ p ∈ pats, p ≠ []) (id : Nat)
    (h : id < pats.length) : 0 < (pats.getD id []).length := by
  rw [List.getD_eq_getElem?_getD, List.getElem?_eq_getElem h]
  exact List.length_pos_iff.2 (hnz _ (List.getElem_mem h))

/-! ## `order` -/

/-- length of pattern `id` -/
def lenOf (pats : List PBytes) (id : Nat) : Nat := (pats.getD id []).length

/-- the semantic preference among patterns matching at one offset -/
def ordR : PKind → List PBytes → Nat → Nat → Prop
  | .lf, _, a, b => a < b
  | .ll, pats, a, b => lenOf pats b < lenOf pats a ∨ (lenOf pats a = lenOf pats b ∧ a < b)

theorem mem_insertByLenDesc (byId : List PBytes) (id : Nat) (l : List Nat) (x : Nat) :
    x ∈ insertByLenDesc byId id l ↔ x = id ∨ x ∈ l := by
  induction l with
  | nil => simp [insertByLenDesc]
  | cons y ys ih =>
    unfold insertByLenDesc
    split
    · simp
    · simp only [List.mem_cons, ih]
      constructor
      · rintro (h | h | h) <;> simp [h]
      · rintro (h | h | h) <;> simp [h]

theorem pairwise_insertByLenDesc (pats : List PBytes) (id : Nat) (l : List Nat)
    (hp : l.Pairwise (ordR .ll pats)) (hlt : ∀ x ∈ l, x < id) :
    (insertByLenDesc pats id l).Pairwise (ordR .ll pats) := by
  induction l with
  | nil => simp [insertByLenDesc]
  | cons y ys ih =>
    rw [List.pairwise_cons] at hp
    unfold insertByLenDesc
    split
    · rename_i hlen
      rw [List.pairwise_cons]
      refine ⟨?_, List.pairwise_cons.2 hp⟩
      intro z hz
      rcases List.mem_cons.1 hz with rfl | hz
      · exact Or.inl hlen
      · have := hp.1 z hz
        simp only [ordR, lenOf] at this ⊢
        omega
    · rename_i hlen
      rw [List.pairwise_cons]
      refine ⟨?_, ih hp.2 (fun x hx => hlt x (List.mem_cons_of_mem _ hx))⟩
      intro z hz
      rcases (mem_insertByLenDesc pats id ys z).1 hz with rfl | hz
      · have := hlt y (by simp)
        simp only [ordR, lenOf]
        omega
      · exact hp.1 z hz

theorem foldl_insert_spec (pats : List PBytes) (n : Nat) :
    ((List.range n).foldl (fun acc id => insertByLenDesc pats id acc) []).Pairwise (ordR .ll pats) ∧
    ∀ x, x ∈ (List.range n).foldl (fun acc id => insertByLenDesc pats id acc) [] ↔ x < n := by
  induction n with
  | zero => simp
  | succ n ih =>
    rw [List.range_succ, List.foldl_append]
    simp only [List.foldl_cons, List.foldl_nil]
    refine ⟨pairwise_insertByLenDesc pats n _ ih.1 (fun x hx => (ih.2 x).1 hx), ?_⟩
    intro x
    rw [mem_insertByLenDesc, ih.2]
    omega

theorem order_pairwise (kind : PKind) (pats : List PBytes) :
    (PPatterns.new kind pats).order.Pairwise (ordR kind pats) := by
  cases kind with
  | lf =>
    show (List.range pats.length).Pairwise (fun a b => a < b)
    exact List.pairwise_lt_range
  | ll => exact (foldl_insert_spec pats pats.length).1

theorem mem_order (kind : PKind) (pats : List PBytes) (x : Nat) :
    x ∈ (PPatterns.new kind pats).order ↔ x < pats.length := by
  cases kind with
  | lf => exact List.mem_range
  | ll => exact (foldl_insert_spec pats pats.length).2 x

/-! ## the first verified pattern at an offset -/

/-- verification of one pattern at one offset (the closure inside `RabinKarp.loop` / `Teddy.verify`) -/
def vf (p : PPatterns) (hay : PBytes) (pos pid : Nat) : Option Mat :=
  if isPrefixAt (p.get pid) hay pos then
    some ({ pid := pid, start := pos, stop := pos + (p.get pid).length } : Mat)
  else none

/-- the first pattern of `order` verified at offset `pos` -/
def bestAt (p : PPatterns) (hay : PBytes) (pos : Nat) : Option Mat :=
  p.order.findSome? (vf p hay pos)

theorem findSome?_pairwise {β : Type} {R : Nat → Nat → Prop} (f : Nat → Option β) (l : List Nat)
    (hp : l.Pairwise R) :
    (l.findSome? f = none ∧ ∀ x ∈ l, f x = none) ∨
    (∃ a ∈ l, l.findSome? f = f a ∧ (f a).isSome ∧ ∀ x ∈ l, (f x).isSome → x = a ∨ R a x) := by
  induction l with
  | nil => simp
  | cons y ys ih =>
    rw [List.pairwise_cons] at hp
    cases hy : f y with
    | some v =>
      right
      refine ⟨y, by simp, by simp [hy], by simp [hy], ?_⟩
      intro x hx _
      rcases List.mem_cons.1 hx with rfl | hx
      · exact Or.inl rfl
      · exact Or.inr (hp.1 x hx)
    | none =>
      rcases ih hp.2 with ⟨h1, h2⟩ | ⟨a, ha, h1, h2, h3⟩
      · left
        refine ⟨by simp [hy, h1], ?_⟩
        intro x hx
        rcases List.mem_cons.1 hx with rfl | hx
        · exact hy
        · exact h2 x hx
      · right
        refine ⟨a, List.mem_cons_of_mem _ ha, by simp [hy, h1], h2, ?_⟩
        intro x hx hsome
        rcases List.mem_cons.1 hx with rfl | hx
        · rw [hy] at hsome; cases hsome
        · exact h3 x hx hsome

theorem findSome?_eq_none_of_forall {α β : Type} (f : α → Option β) (l : List α)
    (h : ∀ x ∈ l, f x = none) : l.findSome? f = none := by
  rw [List.findSome?_eq_none_iff]; exact h

theorem findSome?_congr {α β : Type} (f g : α → Option β) (l : List α)
    (h : ∀ x ∈ l, f x = g x) : l.findSome? f = l.findSome? g := by
  induction l with
  | nil => rfl
  | cons y ys ih =>
    rw [List.findSome?_cons, List.findSome?_cons, h y (by simp),
      ih (fun x hx => h x (List.mem_cons_of_mem _ hx))]

theorem findSome?_filter' {α β : Type} (f : α → Option β) (q : α → Bool) (l : List α) :
    (l.filter q).findSome? f = l.findSome? (fun x => if q x then f x else none) := by
  induction l with
  | nil => rfl
  | cons y ys ih =>
    rw [List.filter_cons]
    cases hq : q y with
    | true => simp only [if_true, List.findSome?_cons, hq, ih]
    | false => simp [hq, ih]

/-! ## occurrences at an offset -/

theorem isPrefixAt_take_iff (pat hay : PBytes) (en pos : Nat) :
    isPrefixAt pat (hay.take en) pos = true ↔ pat <+: hay.drop pos ∧ pat.length ≤ en - pos := by
  unfold isPrefixAt
  rw [List.isPrefixOf_iff_prefix, List.drop_take, List.prefix_take_iff]

variable (kind : PKind) (pats : List PBytes)

/-- an occurrence is exactly a successful verification of its pattern at its start -/
theorem occ_iff_vf (hnz : ∀ p ∈ pats, p ≠ []) (hay : PBytes) (st en : Nat) (m : Mat) :
    IsOcc pats hay st en m ↔
      m.pid < pats.length ∧ st ≤ m.start ∧
        vf (PPatterns.new kind pats) (hay.take en) m.start m.pid = some m := by
  unfold IsOcc vf
  rw [new_get]
  constructor
  · rintro ⟨p, h1, h2, h3, h4, h5⟩
    have hlt : m.pid < pats.length := by
      rcases Nat.lt_or_ge m.pid pats.length with h | h
      · exact h
      · rw [List.getElem?_eq_none h] at h1; cases h1
    have hp : pats.getD m.pid [] = p := by
      rw [List.getD_eq_getElem?_getD, h1]; rfl
    refine ⟨hlt, h2, ?_⟩
    rw [hp, if_pos ((isPrefixAt_take_iff p hay en m.start).2 ⟨h5, by omega⟩)]
    cases m
    simp only [Option.some.injEq, Mat.mk.injEq, true_and] at h3 ⊢
    omega
  · rintro ⟨hlt, h2, h3⟩
    have hpos := getD_ne_nil pats hnz m.pid hlt
    split at h3
    · rename_i hpre
      rw [isPrefixAt_take_iff] at hpre
      refine ⟨pats.getD m.pid [], ?_, h2, ?_, ?_, hpre.1⟩
      · rw [List.getD_eq_getElem?_getD, List.getElem?_eq_getElem hlt]; rfl
      · cases m
        simp only [Option.some.injEq, Mat.mk.injEq, true_and] at h3 ⊢
        omega
      · cases m
        simp only [Option.some.injEq, Mat.mk.injEq, true_and] at h3 hpre hpos ⊢
        omega
    · cases h3

theorem vf_some_eq (p : PPatterns) (hay : PBytes) (pos pid : Nat) (m : Mat)
    (h : vf p hay pos pid = some m) :
    m = ⟨pid, pos, pos + (p.get pid).length⟩ := by
  unfold vf at h
  split at h
  · exact (Option.some.inj h).symm
  · cases h

/-- no verified pattern at `pos` ⇒ no occurrence starts at `pos` -/
theorem bestAt_none (hnz : ∀ p ∈ pats, p ≠ []) (hay : PBytes) (st en pos : Nat)
    (h : bestAt (PPatterns.new kind pats) (hay.take en) pos = none) (m : Mat)
    (hm : IsOcc pats hay st en m) : m.start ≠ pos := by
  rintro rfl
  obtain ⟨h1, _, h3⟩ := (occ_iff_vf kind pats hnz hay st en m).1 hm
  unfold bestAt at h
  rw [List.findSome?_eq_none_iff] at h
  rw [h m.pid ((mem_order kind pats _).2 h1)] at h3
  cases h3

/-- the first verified pattern at `pos` is the preferred occurrence among those starting at `pos` -/
theorem bestAt_some (hnz : ∀ p ∈ pats, p ≠ []) (hay : PBytes) (st en pos : Nat) (hst : st ≤ pos)
    (m : Mat) (h : bestAt (PPatterns.new kind pats) (hay.take en) pos = some m) :
    IsOcc pats hay st en m ∧ m.start = pos ∧
      ∀ m', IsOcc pats hay st en m' → m'.start = pos → better kind.toMatchKind m m' := by
  unfold bestAt at h
  rcases findSome?_pairwise (vf (PPatterns.new kind pats) (hay.take en) pos) _
    (order_pairwise kind pats) with ⟨h1, _⟩ | ⟨a, ha, h1, _, h3⟩
  · rw [h1] at h; cases h
  · rw [h1] at h
    have hm := vf_some_eq _ _ _ _ _ h
    rw [new_get] at hm
    have hstart : m.start = pos := by rw [hm]
    have hpid : m.pid = a := by rw [hm]
    refine ⟨?_, hstart, ?_⟩
    · rw [occ_iff_vf kind pats hnz]
      rw [hstart, hpid]
      exact ⟨(mem_order kind pats a).1 ha, hst, h⟩
    · intro m' hm' hs'
      obtain ⟨g1, _, g3⟩ := (occ_iff_vf kind pats hnz hay st en m').1 hm'
      rw [hs'] at g3
      have hm'' := vf_some_eq _ _ _ _ _ g3
      rw [new_get] at hm''
      have hr := h3 m'.pid ((mem_order kind pats _).2 g1) (by rw [g3]; rfl)
      rw [hm, hm'']
      cases kind with
      | lf =>
        simp only [PKind.toMatchKind, better, betterLF, ordR, true_and] at hr ⊢
        omega
      | ll =>
        rcases hr with hr | hr
        · rw [hr]
          simp [PKind.toMatchKind, better, betterLL]
        · simp only [PKind.toMatchKind, better, betterLL, ordR, lenOf, true_and] at hr ⊢
          omega

/-- A left-to-right scan returning the first non-`none` `bestAt` computes `IsFind`.
`k` is any lower bound of the pattern lengths (offsets where `k` bytes do not
fit need not be scanned). -/
theorem isFind_of_scan (hnz : ∀ p ∈ pats, p ≠ []) (hay : PBytes) (st en k : Nat)
    (hk : k ≤ (PPatterns.new kind pats).minLen) (r : Option Mat)
    (h : match r with
      | none => ∀ pos, st ≤ pos → pos + k ≤ en →
          bestAt (PPatterns.new kind pats) (hay.take en) pos = none
      | some m => st ≤ m.start ∧ bestAt (PPatterns.new kind pats) (hay.take en) m.start = some m ∧
          ∀ pos, st ≤ pos → pos < m.start →
            bestAt (PPatterns.new kind pats) (hay.take en) pos = none) :
    IsFind kind.toMatchKind pats hay st en false r := by
  cases r with
  | none =>
    simp only at h
    intro m hm
    have hocc := hm.1
    obtain ⟨p, h1, h2, h3, h4, _⟩ := hocc
    have hlt : m.pid < pats.length := by
      rcases Nat.lt_or_ge m.pid pats.length with h | h
      · exact h
      · rw [List.getElem?_eq_none h] at h1; cases h1
    have hlen := minLen_le kind pats m.pid hlt
    have hp : pats.getD m.pid [] = p := by
      rw [List.getD_eq_getElem?_getD, h1]; rfl
    rw [hp] at hlen
    exact bestAt_none kind pats hnz hay st en m.start (h m.start h2 (by omega)) m hm.1 rfl
  | some m =>
    simp only at h
    obtain ⟨h1, h2, h3⟩ := h
    obtain ⟨g1, _, g3⟩ := bestAt_some kind pats hnz hay st en m.start h1 m h2
    refine ⟨⟨g1, fun hh => by cases hh⟩, ?_⟩
    intro m' hm'
    have hst' : st ≤ m'.start := by
      obtain ⟨_, _, h2, _⟩ := hm'.1; exact h2
    rcases Nat.lt_trichotomy m'.start m.start with hlt | heq | hgt
    · exact absurd rfl (bestAt_none kind pats hnz hay st en m'.start (h3 _ hst' hlt) m' hm'.1)
    · exact g3 m' hm'.1 heq
    · cases kind with
      | lf => exact Or.inl hgt
      | ll => exact Or.inl hgt

end PackedP
end AcVerif
