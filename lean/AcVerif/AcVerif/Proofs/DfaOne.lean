import AcVerif.Proofs.DfaRow
/-!
# L1d proofs, part 3: `finish_build_one_start` (start kinds `Unanchored` and `Anchored`)

DFA ids are NFA ids; the row of a live state holds `next_state`; match lists are copied.  The run
of the DFA and of the NFA from the start state visit the *same* ids, and the flags agree on the
live states of the mode (`SA` is not live in an unanchored run, `SU` not in an anchored one).
-/
namespace AcVerif.L1dP
open AcVerif AcVerif.CNfa AcVerif.L1cP

theorem getD_map_range {β : Type} (n : Nat) (f : Nat → β) (i : Nat) (d : β) (h : i < n) :
    ((Array.range n).map f).getD i d = f i := by
  simp [Array.getD_eq_getD_getElem?, h]

theorem getD_map_range_ge {β : Type} (n : Nat) (f : Nat → β) (i : Nat) (d : β) (h : n ≤ i) :
    ((Array.range n).map f).getD i d = d := by
  simp [Array.getD_eq_getD_getElem?, h]

/-! ## the class map of `buildDfa` -/

def clsOf (N : CNfa) (bc : Bool) : UInt8 → Nat :=
  if bc then classOfMarks (marksOf (trieBytes N)) else fun b => b.toNat

def ncOf (N : CNfa) (bc : Bool) : Nat := clsOf N bc 255 + 1

theorem classOK_clsOf (N : CNfa) (bc : Bool) : ClassOK N (clsOf N bc) (ncOf N bc) := by
  cases bc
  · exact classOK_id N
  · exact classOK_marks N

theorem buildDfa_unanchored (N : CNfa) (bc : Bool) :
    buildDfa N .unanchored bc = buildOne N (clsOf N bc) (ncOf N bc) false := rfl

theorem buildDfa_anchored (N : CNfa) (bc : Bool) :
    buildDfa N .anchored bc = buildOne N (clsOf N bc) (ncOf N bc) true := rfl

theorem buildDfa_both (N : CNfa) (bc : Bool) :
    buildDfa N .both bc = buildBoth N (clsOf N bc) (ncOf N bc) := rfl

/-! ## `buildOne` -/

section
variable {k : MatchKind} {Q : PatSet UInt8} {L : List (List UInt8)} {N : CNfa}
variable {classOf : UInt8 → Nat} {nc : Nat}

theorem buildOne_mats (N : CNfa) (classOf : UInt8 → Nat) (nc : Nat) (anch : Bool) (q : Nat) :
    (buildOne N classOf nc anch).matches_.getD q [] = (N.getD q {}).matches_ := by
  show ((Array.range N.size).map fun sid => (N.getD sid {}).matches_).getD q [] = _
  by_cases h : q < N.size
  · rw [getD_map_range _ _ _ _ h]
  · rw [getD_map_range_ge _ _ _ _ (by omega), getD_of_size_le N (by omega)]

theorem buildOne_next (N : CNfa) (classOf : UInt8 → Nat) (nc : Nat) (anch : Bool)
    (P : List (List UInt8)) (hasPre a : Bool) {s : Nat} (hs : s < N.size) (b : UInt8) :
    ((buildOne N classOf nc anch).toAut k P hasPre).next a s b =
      (dfaRow N classOf nc anch s).getD (classOf b) 0 := by
  show (((Array.range N.size).map (dfaRow N classOf nc anch)).getD s #[]).getD (classOf b) 0 = _
  rw [getD_map_range _ _ _ _ hs]

/-- one step, unanchored -/
theorem buildOne_stepU (h : FS k Q L N) (hC : ClassOK N classOf nc) (P : List (List UInt8))
    (hasPre : Bool) {s : Nat} (hv : VU L s) (b : UInt8) :
    ((buildOne N classOf nc false).toAut k P hasPre).next false s b =
      (N.toAut k P hasPre).next false s b := by
  rw [buildOne_next N classOf nc false P hasPre false (hv.lt_size h) b, rowU_spec h hC hv b 0]
  rfl

/-- one step, anchored -/
theorem buildOne_stepA (h : FS k Q L N) (hC : ClassOK N classOf nc) (P : List (List UInt8))
    (hasPre : Bool) {s : Nat} (hv : VA L s) (b : UInt8) :
    ((buildOne N classOf nc true).toAut k P hasPre).next true s b =
      (N.toAut k P hasPre).next true s b := by
  rw [buildOne_next N classOf nc true P hasPre true (hv.lt_size h) b, rowA_spec h hC hv b 0]
  rfl

/-- observations agree on the live states of the unanchored mode -/
theorem buildOne_obsU (h : FS k Q L N) (P : List (List UInt8)) (hasPre : Bool) {s : Nat}
    (hv : VU L s) :
    ((buildOne N classOf nc false).toAut k P hasPre).obs false s =
      (N.toAut k P hasPre).obs false s := by
  have hm := buildOne_mats N classOf nc false s
  have hsa : (s == SA) = false := by simpa using (hv.ne_sa h).1
  show Obs.mk _ _ _ _ = Obs.mk _ _ _ _
  simp only [DfaM.toAut, CNfa.toAut, CNfa.isMatch, Bool.false_eq_true, if_false, hm]
  have e1 : (some s == (buildOne N classOf nc false).startU) = (s == SU) := by
    show (some s == some SU) = _
    simp
  have e2 : (some s == (buildOne N classOf nc false).startA) = false := by
    show (some s == none) = _
    simp
  rw [e1, e2, hsa]
  rfl

/-- observations agree on the live states of the anchored mode -/
theorem buildOne_obsA (h : FS k Q L N) (P : List (List UInt8)) (hasPre : Bool) {s : Nat}
    (hv : VA L s) :
    ((buildOne N classOf nc true).toAut k P hasPre).obs false s =
      (N.toAut k P hasPre).obs false s := by
  have hm := buildOne_mats N classOf nc true s
  have hsu : (s == SU) = false := by simpa using (hv.ne_su h).1
  show Obs.mk _ _ _ _ = Obs.mk _ _ _ _
  simp only [DfaM.toAut, CNfa.toAut, CNfa.isMatch, Bool.false_eq_true, if_false, hm]
  have e1 : (some s == (buildOne N classOf nc true).startU) = false := by
    show (some s == none) = _
    simp
  have e2 : (some s == (buildOne N classOf nc true).startA) = (s == SA) := by
    show (some s == some SA) = _
    simp
  rw [e1, e2, hsu]
  rfl

end

/-- the runs coincide state by state (unanchored) -/
theorem buildOne_runU (k : MatchKind) (P : List (List UInt8)) (hasPre : Bool)
    {L : List (List UInt8)} (hFS : FS k (patSet k P) L (CNfa.compile k false P))
    {classOf : UInt8 → Nat} {nc : Nat} (hC : ClassOK (CNfa.compile k false P) classOf nc) :
    ∀ (w : List UInt8) (s : Nat) (q : St UInt8), Rel L false s q →
      ∃ q', Rel L false (((CNfa.compile k false P).toAut k P hasPre).runFrom false s w) q' ∧
        ((buildOne (CNfa.compile k false P) classOf nc false).toAut k P hasPre).runFrom false s w =
          ((CNfa.compile k false P).toAut k P hasPre).runFrom false s w
  | [], _, q, hr => ⟨q, hr, rfl⟩
  | c :: w, s, _, hr => by
    have hstep := buildOne_stepU hFS hC P hasPre (VU_of_Rel hr) c
    obtain ⟨q', h1, h2⟩ := buildOne_runU k P hasPre hFS hC w _ _ (Rel_step hFS false hr c)
    refine ⟨q', h1, ?_⟩
    show Aut.runFrom _ false (Aut.next _ false s c) w = _
    rw [hstep]
    exact h2

/-- the runs coincide state by state (anchored) -/
theorem buildOne_runA (k : MatchKind) (P : List (List UInt8)) (hasPre : Bool)
    {L : List (List UInt8)} (hFS : FS k (patSet k P) L (CNfa.compile k false P))
    {classOf : UInt8 → Nat} {nc : Nat} (hC : ClassOK (CNfa.compile k false P) classOf nc) :
    ∀ (w : List UInt8) (s : Nat) (q : St UInt8), Rel L true s q →
      ∃ q', Rel L true (((CNfa.compile k false P).toAut k P hasPre).runFrom true s w) q' ∧
        ((buildOne (CNfa.compile k false P) classOf nc true).toAut k P hasPre).runFrom true s w =
          ((CNfa.compile k false P).toAut k P hasPre).runFrom true s w
  | [], _, q, hr => ⟨q, hr, rfl⟩
  | c :: w, s, _, hr => by
    have hstep := buildOne_stepA hFS hC P hasPre (VA_of_Rel hr) c
    obtain ⟨q', h1, h2⟩ := buildOne_runA k P hasPre hFS hC w _ _ (Rel_step hFS true hr c)
    refine ⟨q', h1, ?_⟩
    show Aut.runFrom _ true (Aut.next _ true s c) w = _
    rw [hstep]
    exact h2

theorem buildOne_obsEquivU (k : MatchKind) (P : List (List UInt8)) (hasPre : Bool)
    {classOf : UInt8 → Nat} {nc : Nat} (hC : ClassOK (CNfa.compile k false P) classOf nc) :
    ObsEquiv ((buildOne (CNfa.compile k false P) classOf nc false).toAut k P hasPre)
      ((CNfa.compile k false P).toAut k P hasPre) false false SU SU := by
  obtain ⟨L, hFS⟩ := compile_spec k P
  intro w
  have h0 : Rel L false SU (.at []) := by simp [Rel]
  obtain ⟨q', h1, h2⟩ := buildOne_runU k P hasPre hFS hC w _ _ h0
  rw [h2]
  exact buildOne_obsU hFS P hasPre (VU_of_Rel h1)

theorem buildOne_obsEquivA (k : MatchKind) (P : List (List UInt8)) (hasPre : Bool)
    {classOf : UInt8 → Nat} {nc : Nat} (hC : ClassOK (CNfa.compile k false P) classOf nc) :
    ObsEquiv ((buildOne (CNfa.compile k false P) classOf nc true).toAut k P hasPre)
      ((CNfa.compile k false P).toAut k P hasPre) false true SA SA := by
  obtain ⟨L, hFS⟩ := compile_spec k P
  intro w
  have h0 : Rel L true SA (.at []) := by simp [Rel]
  obtain ⟨q', h1, h2⟩ := buildOne_runA k P hasPre hFS hC w _ _ h0
  rw [h2]
  exact buildOne_obsA hFS P hasPre (VA_of_Rel h1)

end AcVerif.L1dP
