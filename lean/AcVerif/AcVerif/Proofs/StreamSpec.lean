import AcVerif.Proofs.StreamBase
/-!
# Stream search: the chunk-sequence specification and its consequences

`Spec F data err off r cs`: the chunk list `cs` continues a run that has
emitted `data[0..off)` so far and whose last match ended at `r`:
non-match chunks are the next non-empty slices of the stream, a match chunk is
*the* answer `F r` of the in-memory search restarted at `r`, begins exactly at
`off` and carries the matched bytes; the list may only stop early when an I/O
error was reported (`err`), otherwise it stops at the end of the stream with
`F r = none`.
-/
namespace AcVerif.StreamP
open AcVerif
variable {α : Type}

def Spec (F : Nat → Option Mat) (data : List α) (err : Bool) :
    Nat → Nat → List (Chunk α) → Prop
  | off, r, [] => err = true ∨ (off = data.length ∧ F r = none)
  | off, r, .nonMatch b :: cs =>
    ∃ off', off < off' ∧ off' ≤ data.length ∧ b = slice data off off' ∧ Spec F data err off' r cs
  | off, r, .mtch b m :: cs =>
    F r = some m ∧ m.start = off ∧ b = slice data m.start m.stop ∧
      Spec F data err m.stop m.stop cs

/-- what the stream theorems need to know about the in-memory search function -/
def FOK (F : Nat → Option Mat) (N : Nat) : Prop :=
  ∀ r m, r ≤ N → F r = some m → r ≤ m.start ∧ m.start < m.stop ∧ m.stop ≤ N

def chunkBytes : Chunk α → List α
  | .nonMatch b => b
  | .mtch b _ => b

def chunkMats (cs : List (Chunk α)) : List Mat :=
  cs.filterMap (fun c => match c with | .mtch _ m => some m | _ => none)

@[simp] theorem chunkMats_nil : chunkMats ([] : List (Chunk α)) = [] := rfl
@[simp] theorem chunkMats_nonMatch (b : List α) (cs : List (Chunk α)) :
    chunkMats (.nonMatch b :: cs) = chunkMats cs := rfl
@[simp] theorem chunkMats_mtch (b : List α) (m : Mat) (cs : List (Chunk α)) :
    chunkMats (.mtch b m :: cs) = m :: chunkMats cs := rfl

/-! ## the iterator with non-empty matches -/

theorem iter_unfold {F : Nat → Option Mat} {N : Nat} (hF : FOK F N) {r : Nat} (hr : r ≤ N)
    (f : Nat) (last : Option Nat) :
    iterSpecAux F (f + 1) r last =
      match F r with
      | none => []
      | some m => m :: iterSpecAux F f m.stop (some m.stop) := by
  rw [iterSpecAux]
  cases h : F r with
  | none => rfl
  | some m =>
    have := hF r m hr h
    have hne : ¬ (m.start = m.stop ∧ last = some m.stop) := by omega
    simp only [if_neg hne]

theorem iter_fuel {F : Nat → Option Mat} {N : Nat} (hF : FOK F N) (f g r : Nat)
    (last last' : Option Nat) (hr : r ≤ N) (hf : N + 1 - r ≤ f) (hg : N + 1 - r ≤ g) :
    iterSpecAux F f r last = iterSpecAux F g r last' := by
  induction f generalizing g r last last' with
  | zero => omega
  | succ f ih =>
    cases g with
    | zero => omega
    | succ g =>
      rw [iter_unfold hF hr, iter_unfold hF hr]
      cases h : F r with
      | none => rfl
      | some m =>
        have := hF r m hr h
        simp only
        rw [ih g m.stop _ (some m.stop) (by omega) (by omega) (by omega)]

/-- one step of the in-memory iterator at its canonical fuel -/
theorem iter_step {F : Nat → Option Mat} {N : Nat} (hF : FOK F N) {r : Nat} (hr : r ≤ N) :
    iterSpecAux F (N + 2 - r) r none =
      match F r with
      | none => []
      | some m => m :: iterSpecAux F (N + 2 - m.stop) m.stop none := by
  have e : N + 2 - r = (N + 1 - r) + 1 := by omega
  rw [e, iter_unfold hF hr]
  cases h : F r with
  | none => rfl
  | some m =>
    have := hF r m hr h
    simp only
    rw [iter_fuel hF (N + 1 - r) (N + 2 - m.stop) m.stop (some m.stop) none (by omega) (by omega)
      (by omega)]

/-- the iterator only consults the search function inside the span -/
theorem iter_congr {F G : Nat → Option Mat} {N : Nat} (hFG : ∀ r, r ≤ N → F r = G r)
    (hG : FOK G N) (f r : Nat) (last : Option Nat) (hr : r ≤ N) :
    iterSpecAux F f r last = iterSpecAux G f r last := by
  have hF : FOK F N := by
    intro r m hr h
    rw [hFG r hr] at h
    exact hG r m hr h
  induction f generalizing r last with
  | zero => rfl
  | succ f ih =>
    rw [iter_unfold hF hr, iter_unfold hG hr, hFG r hr]
    cases h : G r with
    | none => rfl
    | some m =>
      have := hG r m hr h
      simp only
      rw [ih m.stop _ (by omega)]

/-! ## consequences of `Spec` -/

theorem spec_mats {F : Nat → Option Mat} {data : List α} (hF : FOK F data.length) {err : Bool}
    {off r : Nat} {cs : List (Chunk α)} (h : Spec F data err off r cs) (hr : r ≤ data.length) :
    chunkMats cs <+: iterSpecAux F (data.length + 2 - r) r none ∧
      (err = false → chunkMats cs = iterSpecAux F (data.length + 2 - r) r none) := by
  induction cs generalizing off r with
  | nil =>
    refine ⟨List.nil_prefix, ?_⟩
    intro he
    rcases h with h | ⟨_, h⟩
    · rw [he] at h; cases h
    · rw [iter_step hF hr, h]; rfl
  | cons c cs ih =>
    cases c with
    | nonMatch b =>
      obtain ⟨off', _, _, _, h'⟩ := h
      exact ih h' hr
    | mtch b m =>
      obtain ⟨hfr, _, _, h'⟩ := h
      have := hF r m hr hfr
      have := ih h' (by omega)
      rw [iter_step hF hr, hfr]
      simp only [chunkMats_mtch]
      refine ⟨?_, ?_⟩
      · rw [List.cons_prefix_cons]; exact ⟨rfl, this.1⟩
      · intro he; rw [this.2 he]

theorem spec_concat {F : Nat → Option Mat} {data : List α} (hF : FOK F data.length)
    {off r : Nat} {cs : List (Chunk α)} (h : Spec F data false off r cs) (hr : r ≤ data.length) :
    cs.flatMap chunkBytes = data.drop off ∧
      ∀ b m, Chunk.mtch b m ∈ cs → b = slice data m.start m.stop := by
  induction cs generalizing off r with
  | nil =>
    rcases h with h | ⟨h, _⟩
    · cases h
    · subst h; simp
  | cons c cs ih =>
    cases c with
    | nonMatch b =>
      obtain ⟨off', h1, h2, h3, h'⟩ := h
      have := ih h' hr
      refine ⟨?_, ?_⟩
      · rw [List.flatMap_cons, this.1]
        simp only [chunkBytes]
        rw [h3, slice_append_drop _ (Nat.le_of_lt h1)]
      · intro b' m hm
        rcases List.mem_cons.1 hm with h | h
        · cases h
        · exact this.2 b' m h
    | mtch b m =>
      obtain ⟨hfr, h1, h2, h'⟩ := h
      have hm := hF r m hr hfr
      have := ih h' (by omega)
      refine ⟨?_, ?_⟩
      · rw [List.flatMap_cons, this.1]
        simp only [chunkBytes]
        rw [h2, slice_append_drop _ (by omega), h1]
      · intro b' m' hm'
        rcases List.mem_cons.1 hm' with h | h
        · cases h; exact h2
        · exact this.2 b' m' h

/-! ## the writer loop over a chunk list -/

/-- `try_stream_replace_all_with`'s loop as a function of the chunk sequence -/
def goPure (repl : Mat → List α) :
    List (Chunk α) → Bool → Writer α → List (Mat × List α) →
      Writer α × List (Mat × List α) × Bool
  | [], err, w, log => (w, log.reverse, !err)
  | .nonMatch b :: cs, err, w, log =>
    match w.writeAll b with
    | (w', true) => goPure repl cs err w' log
    | (w', false) => (w', log.reverse, false)
  | .mtch b m :: cs, err, w, log =>
    match w.writeAll (repl m) with
    | (w', true) => goPure repl cs err w' ((m, b) :: log)
    | (w', false) => (w', ((m, b) :: log).reverse, false)

theorem writeAll_none (o bytes : List α) :
    Writer.writeAll { out := o, limit := none } bytes = ({ out := o ++ bytes, limit := none }, true) :=
  rfl

theorem writeAll_some_fit (o bytes : List α) (l : Nat) (h : bytes.length ≤ l - o.length) :
    Writer.writeAll { out := o, limit := some l } bytes =
      ({ out := o ++ bytes, limit := some l }, true) := by
  simp [Writer.writeAll, h]

theorem writeAll_some_over (o bytes : List α) (l : Nat) (h : ¬ bytes.length ≤ l - o.length) :
    Writer.writeAll { out := o, limit := some l } bytes =
      ({ out := o ++ bytes.take (l - o.length), limit := some l }, false) := by
  simp [Writer.writeAll, h]

/-- stream replace over a complete chunk sequence is the in-memory replace -/
theorem spec_replace {F : Nat → Option Mat} {data : List α}
    (repl : Mat → List α) {off r : Nat} {cs : List (Chunk α)}
    (h : Spec F data false off r cs) (hr : r ≤ off) (k : Nat) (dst : List α)
    (log : List (Mat × List α)) :
    goPure repl cs false { out := dst ++ slice data r off, limit := none } log =
      ({ out := (spliceLoop data repl none (fun _ => true) k r (chunkMats cs) dst log).1,
         limit := none },
        (spliceLoop data repl none (fun _ => true) k r (chunkMats cs) dst log).2, true) := by
  induction cs generalizing off r k dst log with
  | nil =>
    rcases h with h | ⟨h, _⟩
    · cases h
    · subst h
      simp [goPure, spliceLoop, slice_to_length]
  | cons c cs ih =>
    cases c with
    | nonMatch b =>
      obtain ⟨off', h1, h2, h3, h'⟩ := h
      simp only [goPure, writeAll_none, chunkMats_nonMatch]
      rw [h3, List.append_assoc, slice_append _ hr (Nat.le_of_lt h1)]
      exact ih h' (by omega) k dst log
    | mtch b m =>
      obtain ⟨hfr, h1, h2, h'⟩ := h
      simp only [goPure, writeAll_none, chunkMats_mtch, spliceLoop]
      have e : (none == some k) = false := rfl
      simp only [e, Bool.not_true, Bool.false_eq_true, if_false]
      have := ih h' (Nat.le_refl _) (k + 1) (dst ++ slice data r m.start ++ repl m)
        ((m, slice data m.start m.stop) :: log)
      rw [slice_self, List.append_nil] at this
      rw [← h1, h2]
      exact this

theorem goPure_nolimit (repl : Mat → List α) (cs : List (Chunk α)) (err : Bool) (o : List α)
    (log : List (Mat × List α)) :
    o <+: (goPure repl cs err { out := o, limit := none } log).1.out ∧
      (goPure repl cs err { out := o, limit := none } log).2.2 = !err := by
  induction cs generalizing o log with
  | nil => simp [goPure]
  | cons c cs ih =>
    cases c with
    | nonMatch b =>
      simp only [goPure, writeAll_none]
      have := ih (o ++ b) log
      exact ⟨(List.prefix_append o b).trans this.1, this.2⟩
    | mtch b m =>
      simp only [goPure, writeAll_none]
      have := ih (o ++ repl m) ((m, b) :: log)
      exact ⟨(List.prefix_append o _).trans this.1, this.2⟩

/-- a writer that fails after `l` bytes accepts a prefix of the fault-free output -/
theorem goPure_limit (repl : Mat → List α) (cs : List (Chunk α)) (err : Bool) (l : Nat)
    (o : List α) (log : List (Mat × List α)) (ho : o.length ≤ l) :
    (goPure repl cs err { out := o, limit := some l } log).1.out <+:
        (goPure repl cs err { out := o, limit := none } log).1.out ∧
      (goPure repl cs err { out := o, limit := some l } log).1.out.length ≤ l ∧
      ((goPure repl cs err { out := o, limit := some l } log).2.2 = true →
        (goPure repl cs err { out := o, limit := some l } log).1.out =
          (goPure repl cs err { out := o, limit := none } log).1.out) := by
  induction cs generalizing o log with
  | nil => simp [goPure, ho]
  | cons c cs ih =>
    have key : ∀ (bytes : List α) (log1 log2 : List (Mat × List α)),
        (match Writer.writeAll { out := o, limit := some l } bytes with
          | (w', true) => goPure repl cs err w' log1
          | (w', false) => (w', log2, false)).1.out <+:
          (goPure repl cs err { out := o ++ bytes, limit := none } log1).1.out ∧
        (match Writer.writeAll { out := o, limit := some l } bytes with
          | (w', true) => goPure repl cs err w' log1
          | (w', false) => (w', log2, false)).1.out.length ≤ l ∧
        ((match Writer.writeAll { out := o, limit := some l } bytes with
          | (w', true) => goPure repl cs err w' log1
          | (w', false) => (w', log2, false)).2.2 = true →
          (match Writer.writeAll { out := o, limit := some l } bytes with
          | (w', true) => goPure repl cs err w' log1
          | (w', false) => (w', log2, false)).1.out =
            (goPure repl cs err { out := o ++ bytes, limit := none } log1).1.out) := by
      intro bytes log1 log2
      by_cases hfit : bytes.length ≤ l - o.length
      · rw [writeAll_some_fit _ _ _ hfit]
        exact ih (o ++ bytes) log1 (by simp only [List.length_append]; omega)
      · rw [writeAll_some_over _ _ _ hfit]
        simp only
        refine ⟨?_, ?_, ?_⟩
        · refine List.IsPrefix.trans ?_ (goPure_nolimit repl cs err (o ++ bytes) log1).1
          exact (List.prefix_append_right_inj o).2 (List.take_prefix _ _)
        · simp only [List.length_append, List.length_take]; omega
        · intro h; cases h
    cases c with
    | nonMatch b =>
      simp only [goPure, writeAll_none]
      exact key b log log.reverse
    | mtch b m =>
      simp only [goPure, writeAll_none]
      exact key (repl m) ((m, b) :: log) ((m, b) :: log).reverse

end AcVerif.StreamP
