import AcVerif.Packed.Vector
import AcVerif.Proofs.FoldFacts
import AcVerif.Proofs.PackedTeddy
/-!
# Finite facts about bytes and bit sets used by the vector-level Teddy proofs

Byte facts are proved by complete enumeration of the 256 values (`forall_uint8`),
the two-byte `srli_epi16` fact is derived algebraically from one-byte facts.
-/
namespace AcVerif.VecP
open AcVerif.MiscP

/-! ## bytes -/

theorem lo_nyb_lt : ∀ b : UInt8, (b &&& 0xF).toNat < 16 := by
  apply forall_uint8; decide +kernel

theorem hi_nyb_lt : ∀ b : UInt8, (b >>> 4).toNat < 16 := by
  apply forall_uint8; decide +kernel

theorem hi_nyb_and : ∀ b : UInt8, (b >>> 4) &&& (0xF : UInt8) = b >>> 4 := by
  apply forall_uint8; decide +kernel

theorem shl4_and : ∀ b : UInt8, (b <<< 4) &&& 0xF = 0 := by
  apply forall_uint8; decide +kernel

/-- a nybble (a byte `< 16`) has its top bit clear and is its own low nybble -/
theorem nyb_top_clear : ∀ x : UInt8, x.toNat < 16 → (x &&& 0x80 != 0) = false ∧ x &&& 0x0F = x := by
  apply forall_uint8; decide +kernel

theorem byte_beq_zero : ∀ b : UInt8, (b == 0) = (b.toNat == 0) := by
  apply forall_uint8; decide +kernel

theorem and_ff : ∀ b : UInt8, (0xFF : UInt8) &&& b = b := by
  apply forall_uint8; decide +kernel

theorem or_idem_right (a b : UInt8) : (a ||| b) ||| b = a ||| b := by
  apply UInt8.toNat_inj.1
  rw [UInt8.toNat_or, UInt8.toNat_or, Nat.or_assoc, Nat.or_self]

theorem or_zero_byte (a : UInt8) : a ||| 0 = a := by
  apply UInt8.toNat_inj.1
  rw [UInt8.toNat_or]; simp

/-- the byte formula of `_mm_srli_epi16::<4>` on an even byte, masked with `0xF` -/
theorem srli_even (b b' : UInt8) : ((b >>> 4) ||| (b' <<< 4)) &&& (0xF : UInt8) = b >>> 4 := by
  have h1 := hi_nyb_and b
  have h2 := shl4_and b'
  apply UInt8.toNat_inj.1
  have e1 := congrArg UInt8.toNat h1
  have e2 := congrArg UInt8.toNat h2
  rw [UInt8.toNat_and] at e1 e2
  rw [UInt8.toNat_and, UInt8.toNat_or, Nat.and_or_distrib_right, e1, e2]
  simp

/-- the bucket bit of the slim tables / of the low half of the fat tables -/
theorem bit_lo : ∀ k, k < 8 → ((1 : UInt8) <<< k.toUInt8).toNat = 1 <<< k := by decide

/-- bucket bits seen from the two halves of the fat tables -/
theorem bit_fat_lo : ∀ b, b < 8 → (1 <<< b) % 2 ^ 8 = 1 <<< b ∧ (1 <<< b) / 2 ^ 8 = 0 := by decide

theorem bit_fat_hi : ∀ b, b < 16 → ¬ b < 8 →
    (1 <<< b) % 2 ^ 8 = 0 ∧ (1 <<< b) / 2 ^ 8 = ((1 : UInt8) <<< (b % 8).toUInt8).toNat := by decide

/-! ## bit sets -/

theorem and_bit_ne_zero (x b : Nat) : (x &&& (1 <<< b) != 0) = x.testBit b := by
  rw [Nat.one_shiftLeft]
  cases h : x.testBit b with
  | true =>
    have h' := AcVerif.PackedP.bit_of_testBit x b h
    rwa [Nat.one_shiftLeft] at h'
  | false =>
    have : x &&& 2 ^ b = 0 := by
      apply Nat.eq_of_testBit_eq
      intro i
      rw [Nat.testBit_and, Nat.testBit_two_pow, Nat.zero_testBit]
      by_cases hi : b = i
      · subst hi; simp [h]
      · simp [hi]
    rw [this]; rfl

/-- `x + 256 * y` is the concatenation of the bit sets when `x < 256` -/
theorem split256 (n : Nat) : n % 2 ^ 8 + 256 * (n / 2 ^ 8) = n := Nat.mod_add_div n 256

theorem and_combine (x y x' y' : Nat) (hx : x < 256) (hx' : x' < 256) :
    (x + 256 * y) &&& (x' + 256 * y') = (x &&& x') + 256 * (y &&& y') := by
  have h := split256 ((x + 256 * y) &&& (x' + 256 * y'))
  rw [Nat.and_mod_two_pow, Nat.and_div_two_pow] at h
  have e1 : (x + 256 * y) % 2 ^ 8 = x := by omega
  have e2 : (x' + 256 * y') % 2 ^ 8 = x' := by omega
  have e3 : (x + 256 * y) / 2 ^ 8 = y := by omega
  have e4 : (x' + 256 * y') / 2 ^ 8 = y' := by omega
  rw [e1, e2, e3, e4] at h
  exact h.symm

end AcVerif.VecP
