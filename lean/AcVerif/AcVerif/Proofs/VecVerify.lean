import AcVerif.Proofs.VecOps
/-!
# `Teddy::verify` / `verify64` at the vector level is the lane model's `verify`

`verify64` walks the set bits of a 64-bit lane in increasing order; the bits
are grouped as `64 / BUCKETS` positions × `BUCKETS` buckets, so the walk is the
lane model's nested search (positions ascending, then buckets ascending).
-/
namespace AcVerif.VecP
open AcVerif.PackedP

/-! ## `findSome?` over ranges -/

theorem findSome?_congr {α β : Type} (l : List α) (f g : α → Option β)
    (h : ∀ x ∈ l, f x = g x) : l.findSome? f = l.findSome? g := by
  induction l with
  | nil => rfl
  | cons x xs ih =>
    rw [List.findSome?_cons, List.findSome?_cons, h x (List.mem_cons_self ..),
      ih (fun y hy => h y (List.mem_cons_of_mem _ hy))]

/-- reindexing: a search over `m * n` indices is a nested search -/
theorem findSome?_range_mul {β : Type} (f : Nat → Option β) (m n : Nat) :
    (List.range (m * n)).findSome? f =
      (List.range m).findSome? fun i => (List.range n).findSome? fun j => f (i * n + j) := by
  induction m with
  | zero => simp
  | succ m ih =>
    rw [Nat.succ_mul, List.range_add, List.findSome?_append, ih, List.range_succ,
      List.findSome?_append, List.findSome?_singleton, List.findSome?_map]
    rfl

/-! ## little-endian digits -/

theorem digits_testBit (s : Nat) (zs : List Nat) (hz : ∀ z ∈ zs, z < 2 ^ s) (q r : Nat)
    (hr : r < s) :
    (zs.foldr (fun z acc => z + 2 ^ s * acc) 0).testBit (q * s + r) = (zs.getD q 0).testBit r := by
  induction zs generalizing q with
  | nil => simp
  | cons z zs ih =>
    rw [List.foldr_cons, Nat.add_comm z,
      Nat.testBit_two_pow_mul_add _ (hz z (List.mem_cons_self ..))]
    cases q with
    | zero =>
      rw [if_pos (by omega)]
      simp
    | succ q =>
      have h1 : ¬ (q + 1) * s + r < s := by rw [Nat.succ_mul]; omega
      have h2 : (q + 1) * s + r - s = q * s + r := by rw [Nat.succ_mul]; omega
      rw [if_neg h1, h2, ih (fun z' hz' => hz z' (List.mem_cons_of_mem _ hz'))]
      simp

/-- `verify64` on the little-endian concatenation of `64 / BUCKETS` bucket bit sets -/
theorem verify64_digits (t : Teddy) (hay : PBytes) (base : Nat) (zs : List Nat)
    (hs : 0 < t.nBuckets) (hz : ∀ z ∈ zs, z < 2 ^ t.nBuckets) (hl : zs.length * t.nBuckets = 64) :
    verify64 t hay base (zs.foldr (fun z acc => z + 2 ^ t.nBuckets * acc) 0) =
      t.verify hay base zs := by
  unfold verify64 Teddy.verify
  rw [← hl, findSome?_range_mul]
  apply findSome?_congr
  intro j _
  apply findSome?_congr
  intro b hb
  have hb' : b < t.nBuckets := List.mem_range.1 hb
  have e1 : (j * t.nBuckets + b) / t.nBuckets = j := by
    rw [Nat.add_comm, Nat.add_mul_div_right _ _ hs, Nat.div_eq_of_lt hb', Nat.zero_add]
  have e2 : (j * t.nBuckets + b) % t.nBuckets = b := by
    rw [Nat.add_comm, Nat.add_mul_mod_self_right, Nat.mod_eq_of_lt hb']
  simp only
  rw [digits_testBit _ _ hz _ _ hb', and_bit_ne_zero, e1, e2]

/-- the lane model's `verify` by groups of `c` lanes -/
theorem verify_chunks (t : Teddy) (hay : PBytes) (base : Nat) (l : List Nat) (c m : Nat)
    (hl : l.length = m * c) :
    t.verify hay base l =
      (List.range m).findSome? fun i =>
        t.verify hay (base + c * i) ((l.drop (c * i)).take c) := by
  unfold Teddy.verify
  rw [hl, findSome?_range_mul]
  apply findSome?_congr
  intro i hi
  have hi' : i < m := List.mem_range.1 hi
  have hle : c * i + c ≤ l.length := by
    rw [hl]
    have := Nat.mul_le_mul_right c (Nat.succ_le_of_lt hi')
    rw [Nat.succ_mul, Nat.mul_comm i c] at this
    exact this
  have hlen : ((l.drop (c * i)).take c).length = c := by
    rw [List.length_take, List.length_drop]; omega
  rw [hlen]
  apply findSome?_congr
  intro r hr
  have hr' : r < c := List.mem_range.1 hr
  have e1 : ((l.drop (c * i)).take c).getD r 0 = l.getD (i * c + r) 0 := by
    rw [getD_take_of_lt _ _ _ _ hr', getD_drop, Nat.mul_comm]
  have e2 : base + c * i + r = base + (i * c + r) := by rw [Nat.mul_comm]; omega
  rw [e1, e2]

/-! ## slim -/

theorem lane64_eq (a : Vec8) (i : Nat) :
    V.lane64 a i =
      (((laneOfSlim a).drop (8 * i)).take 8).foldr (fun z acc => z + 2 ^ 8 * acc) 0 := by
  unfold V.lane64 laneOfSlim
  rw [← List.map_drop, ← List.map_take, List.foldr_map]

theorem verifyV_slim (t : Teddy) (hB : t.nBuckets = 8) (w : Nat) (hw : w = 16 ∨ w = 32)
    (hay : PBytes) (base : Nat) (cand : Vec8) (hc : cand.length = w) :
    verifyV t false w hay base cand = t.verify hay base (laneOfSlim cand) := by
  unfold verifyV
  simp only [Bool.not_false, if_true]
  have hl : (laneOfSlim cand).length = w / 8 * 8 := by
    unfold laneOfSlim; rw [List.length_map, hc]; omega
  rw [verify_chunks t hay base (laneOfSlim cand) 8 (w / 8) hl]
  apply findSome?_congr
  intro i hi
  have hi' : i < w / 8 := List.mem_range.1 hi
  rw [lane64_eq]
  have hlen : (((laneOfSlim cand).drop (8 * i)).take 8).length = 8 := by
    rw [List.length_take, List.length_drop, hl]; omega
  have := verify64_digits t hay (base + 8 * i) (((laneOfSlim cand).drop (8 * i)).take 8)
    (by omega)
    (by
      intro z hz
      have hz' := List.mem_of_mem_drop (List.mem_of_mem_take hz)
      unfold laneOfSlim at hz'
      obtain ⟨x, _, rfl⟩ := List.mem_map.1 hz'
      rw [hB]; exact x.toNat_lt)
    (by rw [hlen, hB])
  rw [hB] at this
  exact this

/-! ## fat -/

/-- a 32-byte vector, written out -/
theorem explicit32 (v : Vec8) (h : v.length = 32) :
    v = [v.getD 0 0, v.getD 1 0, v.getD 2 0, v.getD 3 0, v.getD 4 0, v.getD 5 0, v.getD 6 0,
      v.getD 7 0, v.getD 8 0, v.getD 9 0, v.getD 10 0, v.getD 11 0, v.getD 12 0, v.getD 13 0,
      v.getD 14 0, v.getD 15 0, v.getD 16 0, v.getD 17 0, v.getD 18 0, v.getD 19 0, v.getD 20 0,
      v.getD 21 0, v.getD 22 0, v.getD 23 0, v.getD 24 0, v.getD 25 0, v.getD 26 0, v.getD 27 0,
      v.getD 28 0, v.getD 29 0, v.getD 30 0, v.getD 31 0] := by
  have h1 : v = (List.range v.length).map (fun i => v.getD i 0) := by
    have := range_map_getD (fun x => x) v 0
    simpa using this.symm
  have h2 : List.range 32 = [0, 1, 2, 3, 4, 5, 6, 7, 8, 9, 10, 11, 12, 13, 14, 15, 16, 17, 18, 19,
      20, 21, 22, 23, 24, 25, 26, 27, 28, 29, 30, 31] := by decide
  rw [h, h2] at h1
  exact h1

theorem fat_lanes (x0 x1 x2 x3 x4 x5 x6 x7 x8 x9 x10 x11 x12 x13 x14 x15 x16 x17 x18 x19 x20 x21
    x22 x23 x24 x25 x26 x27 x28 x29 x30 x31 : UInt8) (t : Teddy) (hB : t.nBuckets = 16)
    (hay : PBytes) (base : Nat) (v : Vec8)
    (hv : v = [x0, x1, x2, x3, x4, x5, x6, x7, x8, x9, x10, x11, x12, x13, x14,
      x15, x16, x17, x18, x19, x20, x21, x22, x23, x24, x25, x26, x27, x28, x29, x30, x31]) :
    verifyV t true 32 hay base v = t.verify hay base (laneOfFat v) := by
  have hlt : ∀ x y : UInt8, x.toNat + 256 * y.toNat < 2 ^ t.nBuckets := by
    intro x y
    have := x.toNat_lt
    have := y.toNat_lt
    rw [hB]; omega
  have key : ∀ (b : Nat) (a0 a1 a2 a3 c0 c1 c2 c3 : UInt8),
      verify64 t hay b
        (a0.toNat + 256 * (c0.toNat + 256 * (a1.toNat + 256 * (c1.toNat + 256 * (a2.toNat +
          256 * (c2.toNat + 256 * (a3.toNat + 256 * (c3.toNat + 256 * 0)))))))) =
      t.verify hay b [a0.toNat + 256 * c0.toNat, a1.toNat + 256 * c1.toNat,
        a2.toNat + 256 * c2.toNat, a3.toNat + 256 * c3.toNat] := by
    intro b a0 a1 a2 a3 c0 c1 c2 c3
    have := verify64_digits t hay b [a0.toNat + 256 * c0.toNat, a1.toNat + 256 * c1.toNat,
        a2.toNat + 256 * c2.toNat, a3.toNat + 256 * c3.toNat] (by omega)
      (by
        intro z hz
        simp only [List.mem_cons, List.not_mem_nil, or_false] at hz
        rcases hz with rfl | rfl | rfl | rfl <;> exact hlt _ _)
      (by rw [hB]; rfl)
    rw [← this, hB]
    congr 1
    simp only [List.foldr_cons, List.foldr_nil]
    omega
  have e0 : verify64 t hay (base + 4 * 0) (V.lane64 (V.unpackLo v (V.swapHalves v)) 0) =
      t.verify hay (base + 4 * 0) (List.take 4 (List.drop (4 * 0) (laneOfFat v))) := by
    subst hv; exact key _ x0 x1 x2 x3 x16 x17 x18 x19
  have e1 : verify64 t hay (base + 4 * 1) (V.lane64 (V.unpackLo v (V.swapHalves v)) 1) =
      t.verify hay (base + 4 * 1) (List.take 4 (List.drop (4 * 1) (laneOfFat v))) := by
    subst hv; exact key _ x4 x5 x6 x7 x20 x21 x22 x23
  have e2 : verify64 t hay (base + 4 * 2) (V.lane64 (V.unpackHi v (V.swapHalves v)) 0) =
      t.verify hay (base + 4 * 2) (List.take 4 (List.drop (4 * 2) (laneOfFat v))) := by
    subst hv; exact key _ x8 x9 x10 x11 x24 x25 x26 x27
  have e3 : verify64 t hay (base + 4 * 3) (V.lane64 (V.unpackHi v (V.swapHalves v)) 1) =
      t.verify hay (base + 4 * 3) (List.take 4 (List.drop (4 * 3) (laneOfFat v))) := by
    subst hv; exact key _ x12 x13 x14 x15 x28 x29 x30 x31
  rw [verify_chunks t hay base _ 4 4 (by rw [laneOfFat_length])]
  have h4 : List.range 4 = [0, 1, 2, 3] := by decide
  rw [h4]
  unfold verifyV
  simp only [Bool.not_true, Bool.false_eq_true, if_false, List.findSome?_cons, List.findSome?_nil]
  rw [e0, e1, e2, e3]

theorem verifyV_fat (t : Teddy) (hB : t.nBuckets = 16) (hay : PBytes) (base : Nat) (cand : Vec8)
    (hc : cand.length = 32) :
    verifyV t true 32 hay base cand = t.verify hay base (laneOfFat cand) :=
  fat_lanes _ _ _ _ _ _ _ _ _ _ _ _ _ _ _ _ _ _ _ _ _ _ _ _ _ _ _ _ _ _ _ _ t hB hay base cand
    (explicit32 cand hc)

end AcVerif.VecP
