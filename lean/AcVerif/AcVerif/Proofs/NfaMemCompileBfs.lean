import AcVerif.Proofs.NfaMemCompileTrie
/-!
# L1c-mem assembly, part 5: `fill_failure_transitions` on the memory

* `forTrans_eq`: walking a transition list with `next_link` while the body leaves `nfa.sparse`
  alone visits the cells the list had when the loop started (this is what lets `Compiler.lean`
  take a snapshot of the list);
* `chase_sim`: the failure chase reads the same links in the memory and in the abstract automaton
  (it never looks at the failure link of a state `< 3`);
* `sim_fillStart`, `sim_fillState`, `sim_bfs`, `sim_fillFailure`: the two loops, the queue loop and
  the phase.
-/
namespace AcVerif.MemC
open AcVerif AcVerif.CNfa AcVerif.L1cP AcVerif.BuildP AcVerif.MemP

/-! ## the list walk -/

theorem tr_of_sparse {m m' : MemNfa} (h : m'.sparse = m.sparse) (i : Nat) : m'.tr i = m.tr i := by
  unfold MemNfa.tr; rw [h]

theorem forTrans_eq {σ : Type} (nfa : σ → MemNfa) (sid : Nat) (body : σ → MTrans → σ)
    (hbody : ∀ s t, (nfa (body s t)).sparse = (nfa s).sparse) :
    ∀ (l : List Nat) (fuel : Nat) (s : σ) (prev : Option Nat),
      IsChain (tlink (nfa s)) (curLink (nfa s) sid prev) l → l.length ≤ fuel →
      MemNfa.forTrans nfa sid body fuel s prev = (l.map (nfa s).tr).foldl body s := by
  intro l
  induction l with
  | nil =>
    intro fuel s prev hc _
    have hc0 : curLink (nfa s) sid prev = 0 := hc
    cases fuel with
    | zero => rfl
    | succ f => simp only [MemNfa.forTrans, nextLink_eq, hc0, if_true, List.map_nil, List.foldl_nil]
  | cons c rest ih =>
    intro fuel s prev hc hf
    obtain ⟨e, hc0, hrest⟩ := hc
    cases fuel with
    | zero => simp at hf
    | succ f =>
      simp only [MemNfa.forTrans, nextLink_eq, e, if_neg hc0, List.map_cons, List.foldl_cons]
      have hsp := hbody s ((nfa s).tr c)
      have htr : ∀ i, (nfa (body s ((nfa s).tr c))).tr i = (nfa s).tr i := tr_of_sparse hsp
      have htl : tlink (nfa (body s ((nfa s).tr c))) = tlink (nfa s) :=
        funext fun i => by unfold tlink; rw [htr]
      have hcur : curLink (nfa (body s ((nfa s).tr c))) sid (some c) = tlink (nfa s) c := by
        show ((nfa (body s ((nfa s).tr c))).tr c).link = _
        rw [htr]; rfl
      rw [ih f _ (some c) (by rw [hcur, htl]; exact hrest) (by simpa using hf)]
      congr 1
      exact List.map_congr_left fun i _ => htr i

/-- what `iter_trans` yields, from a cell -/
def bn (t : MTrans) : UInt8 × Nat := (t.byte, t.next)

/-- the walk over the list of `sid`, from the list head, as a fold over the cells -/
theorem forTrans_state {σ : Type} (nfa : σ → MemNfa) (sid : Nat) (body : σ → MTrans → σ)
    (hbody : ∀ s t, (nfa (body s t)).sparse = (nfa s).sparse) (s : σ) (hok : MemOK (nfa s)) :
    ∃ ts : List MTrans, ts.map bn = (nfa s).iterTrans sid ∧
      MemNfa.forTrans nfa sid body ((nfa s).sparse.size + 1) s none = ts.foldl body s := by
  obtain ⟨tc, mc, hw⟩ := hok
  refine ⟨(tc sid).map (nfa s).tr, ?_, ?_⟩
  · rw [iterTrans_eq hw, List.map_map]; rfl
  · exact forTrans_eq nfa sid body hbody (tc sid) _ s none (hw.tchain sid)
      (Nat.le_succ_of_le (hw.tlen sid))

/-! ## the failure chase -/

theorem chase_sim {m : MemNfa} {n : CNfa} {fold : Bool} {d : Nat → Nat} (h : Rel m n)
    (hP : FP fold n d) (hJ : J n d) (b : UInt8) :
    ∀ (fuel g : Nat), g ≠ 1 → g < n.size → m.chaseFail b fuel g = CNfa.chaseFail n b fuel g := by
  intro fuel
  induction fuel with
  | zero => intro g _ _; rfl
  | succ fuel ih =>
    intro g hg1 hgs
    rw [MemNfa.chaseFail, h.follow]
    by_cases hf : CNfa.follow n g b = FAIL
    · rw [chaseFail_go _ _ _ _ hf]
      have : (CNfa.follow n g b == MemNfa.FAIL) = true := by rw [hf]; rfl
      rw [if_pos this]
      have hg3 : 3 ≤ g := by
        have h0 : g ≠ 0 := fun e => hP.fullDead b (e ▸ hf)
        have h2 : g ≠ 2 := fun e => hP.fullSU b (e ▸ hf)
        omega
      rw [h.fail hg3 hgs]
      by_cases h4 : 4 ≤ g
      · obtain ⟨j1, j2, _⟩ := hJ.fl g h4 hgs
        exact ih _ j1 j2
      · have : g = 3 := by omega
        subst this
        rw [hJ.f3]
        exact ih 0 (by decide) (by have := hP.size4; omega)
    · rw [chaseFail_stop _ _ _ _ hf]
      have : ¬ (CNfa.follow n g b == MemNfa.FAIL) = true := by
        intro e
        exact hf (by simpa [MemNfa.FAIL, FAIL] using e)
      rw [if_neg this]

/-! ## one transition of a dequeued state -/

/-- lines 1368-1382 on the memory -/
def memChild (lm sim : Bool) (m : MemNfa) (id : Nat) (t : MTrans) : MemNfa :=
  if lm && (sim || m.isMatch t.next) then m.setFail t.next MemNfa.DEAD
  else
    let f := m.followTransitionSparse (m.chaseFail t.byte m.states.size (m.st id).fail) t.byte
    (m.setFail t.next f).copyMatches f t.next

theorem fillStateBody_eq (lm sim us : Bool) (id : Nat) (m : MemNfa) (q seen : List Nat) (t : MTrans) :
    MemNfa.fillStateBody lm sim us id (m, q, seen) t =
      if (us && seen.contains t.next) = true then (m, q, seen)
      else (memChild lm sim m id t, q ++ [t.next], if us then t.next :: seen else seen) := by
  unfold MemNfa.fillStateBody memChild
  by_cases h1 : (us && seen.contains t.next) = true
  · simp only [h1, if_true]
  · simp only [h1]
    by_cases h2 : (lm && (sim || m.isMatch t.next)) = true
    · simp only [h2, if_true]
    · simp only [h2]
      rfl

theorem setFail_sparse (m : MemNfa) (s f : Nat) : (m.setFail s f).sparse = m.sparse := rfl

theorem memChild_sparse (lm sim : Bool) (m : MemNfa) (id : Nat) (t : MTrans) :
    (memChild lm sim m id t).sparse = m.sparse := by
  unfold memChild
  split
  · rfl
  · simp only [Rel.copyMatches_sparse, setFail_sparse]

theorem rel_child {m : MemNfa} {n : CNfa} {fold : Bool} {d : Nat → Nat} (h : Rel m n)
    (hP : FP fold n d) (hJ : J n d) (lm sim : Bool) {id : Nat} (hid4 : 4 ≤ id) (hid : id < n.size)
    {t : MTrans} (hx : (t.byte, t.next) ∈ (n.getD id {}).trans) :
    Rel (memChild lm sim m id t) (procChild lm sim n id t.byte t.next) := by
  obtain ⟨c1, c2, c3, c4, _, c6⟩ := child_props hP hJ hid4 hid hx
  have hch : m.chaseFail t.byte m.states.size (m.st id).fail =
      CNfa.chaseFail n t.byte n.size (n.getD id {}).fail := by
    rw [h.size, h.fail (by omega) hid]
    exact chase_sim h hP hJ t.byte n.size _ c3 c4
  clear hid
  unfold memChild procChild
  rw [h.isMatch, hch, h.follow]
  split
  · exact h.setFail c2 (by omega) _
  · exact (h.setFail c2 (by omega) _).copyMatches (by rw [Array.size_modify]; exact c2) c6.2.2.1

/-- the inner loop of the second phase -/
theorem sim_fillState {fold : Bool} {d : Nat → Nat} (lm sim us : Bool) {id : Nat} (hid4 : 4 ≤ id) :
    ∀ (ts : List MTrans) (m : MemNfa) (n : CNfa) (q seen : List Nat),
      Rel m n → FP fold n d → J n d → id < n.size →
      (∀ t ∈ ts, (t.byte, t.next) ∈ (n.getD id {}).trans) →
      (∀ x ∈ q, 4 ≤ x ∧ x < n.size) →
      ∃ m' n' q' seen',
        ts.foldl (MemNfa.fillStateBody lm sim us id) (m, q, seen) = (m', q', seen') ∧
        fillState lm sim us id (ts.map bn) (n, q, seen) = (n', q', seen') ∧
        Rel m' n' ∧ FP fold n' d ∧ J n' d ∧ (∀ x ∈ q', 4 ≤ x ∧ x < n'.size) := by
  intro ts
  induction ts with
  | nil => intro m n q seen h hP hJ _ _ hq; exact ⟨m, n, q, seen, rfl, rfl, h, hP, hJ, hq⟩
  | cons t rest ih =>
    intro m n q seen h hP hJ hid hmem hq
    have hx := hmem t List.mem_cons_self
    rw [List.foldl_cons, List.map_cons, fillStateBody_eq]
    show ∃ m' n' q' seen', _ ∧ fillState lm sim us id ((t.byte, t.next) :: _) _ = _ ∧ _
    rw [fillState_cons']
    by_cases h1 : (us && seen.contains t.next) = true
    · rw [if_pos h1, if_pos h1]
      exact ih m n q seen h hP hJ hid (fun t' ht' => hmem t' (List.mem_cons_of_mem _ ht')) hq
    · rw [if_neg h1, if_neg h1]
      obtain ⟨p1, p2, p3⟩ := procChild_inv hP hJ lm sim hid4 hid hx
      obtain ⟨c1, c2, _⟩ := child_props hP hJ hid4 hid hx
      refine ih _ _ _ _ (rel_child h hP hJ lm sim hid4 hid hx) (hP.congr p1 p2) p3 (p1 ▸ hid) ?_ ?_
      · intro t' ht'
        rw [p2]; exact hmem t' (List.mem_cons_of_mem _ ht')
      · intro x hx'
        rw [p1]
        rcases List.mem_append.1 hx' with e | e
        · exact hq x e
        · have : x = t.next := by simpa using e
          subst this; exact ⟨c1, c2⟩

/-! ## one transition of the start state -/

/-- lines 1313-1327 on the memory -/
def memStart (lm sim : Bool) (m : MemNfa) (next : Nat) : MemNfa :=
  let m1 := if lm && (sim || m.isMatch next) then m.setFail next MemNfa.DEAD else m
  if !lm then m1.copyMatches 2 next else m1

theorem beq_two_comm (x : Nat) : ((2 : Nat) == x) = (x == SU) := by
  show ((2 : Nat) == x) = (x == 2)
  by_cases e : x = 2
  · subst e; rfl
  · have h1 : (x == 2) = false := by simpa using e
    have h2 : ((2 : Nat) == x) = false := by simpa using fun h : 2 = x => e h.symm
    rw [h1, h2]

theorem fillStartBody_eq (lm sim us : Bool) (m : MemNfa) (q seen : List Nat) (t : MTrans) :
    MemNfa.fillStartBody lm sim us 2 (m, q, seen) t =
      if (t.next == SU || (us && seen.contains t.next)) = true then (m, q, seen)
      else (memStart lm sim m t.next, q ++ [t.next], if us then t.next :: seen else seen) := by
  unfold MemNfa.fillStartBody memStart
  simp only [beq_two_comm]

theorem memStart_sparse (lm sim : Bool) (m : MemNfa) (next : Nat) :
    (memStart lm sim m next).sparse = m.sparse := by
  unfold memStart
  simp only
  split
  · rw [Rel.copyMatches_sparse]; split <;> rfl
  · split <;> rfl

theorem rel_start {m : MemNfa} {n : CNfa} (h : Rel m n) (lm sim : Bool) {next : Nat}
    (hn : next < n.size) (hn4 : 4 ≤ next) :
    Rel (memStart lm sim m next) (procStart lm sim n next) := by
  unfold memStart procStart
  rw [h.isMatch]
  have h1 : Rel (if (lm && (sim || CNfa.isMatch n next)) = true then m.setFail next MemNfa.DEAD else m)
      (if (lm && (sim || CNfa.isMatch n next)) = true
        then n.modify next fun st => { st with fail := DEAD } else n) := by
    split
    · exact h.setFail hn (by omega) _
    · exact h
  have hs : (if (lm && (sim || CNfa.isMatch n next)) = true
      then n.modify next fun st => { st with fail := DEAD } else n).size = n.size := by
    split
    · exact Array.size_modify ..
    · rfl
  simp only
  split
  · exact h1.copyMatches (hs ▸ hn) (by omega)
  · exact h1

/-- the first loop, against `fillStartU` -/
theorem sim_fillStart {fold : Bool} {d : Nat → Nat} (lm sim us : Bool) :
    ∀ (ts : List MTrans) (m : MemNfa) (n : CNfa) (q seen : List Nat),
      Rel m n → FP fold n d → J n d →
      (∀ t ∈ ts, (t.byte, t.next) ∈ (n.getD 2 {}).trans) →
      (∀ x ∈ q, 4 ≤ x ∧ x < n.size) →
      ∃ m' n' q' seen',
        ts.foldl (MemNfa.fillStartBody lm sim us 2) (m, q, seen) = (m', q', seen') ∧
        fillStartU us lm sim (ts.map bn) (n, q, seen) = (n', q', seen') ∧
        Rel m' n' ∧ FP fold n' d ∧ J n' d ∧ (∀ x ∈ q', 4 ≤ x ∧ x < n'.size) := by
  intro ts
  induction ts with
  | nil => intro m n q seen h hP hJ _ hq; exact ⟨m, n, q, seen, rfl, rfl, h, hP, hJ, hq⟩
  | cons t rest ih =>
    intro m n q seen h hP hJ hmem hq
    have hx := hmem t List.mem_cons_self
    rw [List.foldl_cons, List.map_cons, fillStartBody_eq]
    show ∃ m' n' q' seen', _ ∧ fillStartU us lm sim ((t.byte, t.next) :: _) _ = _ ∧ _
    rw [fillStartU]
    by_cases h1 : (t.next == SU || (us && seen.contains t.next)) = true
    · rw [if_pos h1, if_pos h1]
      exact ih m n q seen h hP hJ (fun t' ht' => hmem t' (List.mem_cons_of_mem _ ht')) hq
    · rw [if_neg h1, if_neg h1]
      obtain ⟨e1, _, _, e4⟩ := hP.edge 2 _ hx
      simp only at e1 e4
      have hne : t.next ≠ 2 := by
        intro e
        apply h1
        rw [e]; rfl
      have hn4 : 4 ≤ t.next := by
        rcases e4 trivial with e | e
        · exact absurd e hne
        · exact e
      obtain ⟨p1, p2, p3⟩ := procStart_inv hJ lm sim e1 hn4
      refine ih _ _ _ _ (rel_start h lm sim e1 hn4) (hP.congr p1 p2) p3 ?_ ?_
      · intro t' ht'
        rw [p2]; exact hmem t' (List.mem_cons_of_mem _ ht')
      · intro x hx'
        rw [p1]
        rcases List.mem_append.1 hx' with e | e
        · exact hq x e
        · have : x = t.next := by simpa using e
          subst this; exact ⟨hn4, e1⟩

/-! ## the queue loop and the phase -/

theorem fillStateBody_sparse (lm sim us : Bool) (id : Nat) (s : MemNfa × List Nat × List Nat)
    (t : MTrans) : (MemNfa.fillStateBody lm sim us id s t).1.sparse = s.1.sparse := by
  obtain ⟨m, q, seen⟩ := s
  rw [fillStateBody_eq]
  split
  · rfl
  · exact memChild_sparse ..

theorem fillStartBody_sparse (lm sim us : Bool) (s : MemNfa × List Nat × List Nat)
    (t : MTrans) : (MemNfa.fillStartBody lm sim us 2 s t).1.sparse = s.1.sparse := by
  obtain ⟨m, q, seen⟩ := s
  rw [fillStartBody_eq]
  split
  · rfl
  · exact memStart_sparse ..

theorem sim_bfs {fold : Bool} {d : Nat → Nat} (lm sim us : Bool) :
    ∀ (fuel : Nat) (m : MemNfa) (n : CNfa) (q seen : List Nat),
      Rel m n → FP fold n d → J n d → (∀ x ∈ q, 4 ≤ x ∧ x < n.size) →
      Rel (MemNfa.bfs lm sim us fuel (m, q, seen)) (bfs lm sim us fuel (n, q, seen)) ∧
      FP fold (bfs lm sim us fuel (n, q, seen)) d ∧ J (bfs lm sim us fuel (n, q, seen)) d := by
  intro fuel
  induction fuel with
  | zero => intro m n q seen h hP hJ _; exact ⟨h, hP, hJ⟩
  | succ fuel ih =>
    intro m n q seen h hP hJ hq
    cases q with
    | nil => exact ⟨h, hP, hJ⟩
    | cons id q =>
      obtain ⟨hid4, hid⟩ := hq id List.mem_cons_self
      rw [MemNfa.bfs, bfs]
      obtain ⟨ts, hts, hwalk⟩ := forTrans_state (σ := MemNfa × List Nat × List Nat) (·.1) id
        (MemNfa.fillStateBody lm sim us id) (fillStateBody_sparse lm sim us id) (m, q, seen) h.ok
      simp only at hts hwalk
      rw [hwalk]
      rw [h.iterTrans] at hts
      obtain ⟨m', n', q', seen', e1, e2, r1, r2, r3, r4⟩ :=
        sim_fillState (fold := fold) (d := d) lm sim us hid4 ts m n q seen h hP hJ hid
          (fun t ht => by rw [← hts]; exact List.mem_map.2 ⟨t, ht, rfl⟩)
          (fun x hx => hq x (List.mem_cons_of_mem _ hx))
      rw [e1, ← hts, e2]
      exact ih m' n' q' seen' r1 r2 r3 r4

/-- **`fill_failure_transitions`** -/
theorem sim_fillFailure {m : MemNfa} {n : CNfa} {fold : Bool} {d : Nat → Nat} (h : Rel m n)
    (hP : FP fold n d) (hJ : J n d) (k : MatchKind) :
    Rel (m.fillFailureTransitions k fold 2) (fillFailure k fold n) ∧
    FP fold (fillFailure k fold n) d ∧ J (fillFailure k fold n) d := by
  rw [fillFailure_eq_U k fold hP]
  unfold MemNfa.fillFailureTransitions
  obtain ⟨ts, hts, hwalk⟩ := forTrans_state (σ := MemNfa × List Nat × List Nat) (·.1) 2
    (MemNfa.fillStartBody k.isLeftmost (m.isMatch 2) fold 2)
    (fillStartBody_sparse k.isLeftmost (m.isMatch 2) fold) (m, [], []) h.ok
  simp only at hts hwalk ⊢
  rw [hwalk]
  rw [h.iterTrans] at hts
  obtain ⟨m', n', q', seen', e1, e2, r1, r2, r3, r4⟩ :=
    sim_fillStart (fold := fold) (d := d) k.isLeftmost (m.isMatch 2) fold ts m n [] [] h hP hJ
      (fun t ht => by rw [← hts]; exact List.mem_map.2 ⟨t, ht, rfl⟩)
      (fun x hx => by cases hx)
  rw [e1]
  rw [h.isMatch] at e2 ⊢
  have hts' : ts.map bn = (n.getD SU {}).trans := hts
  have e2' : fillStartU fold k.isLeftmost (CNfa.isMatch n SU) (List.map bn ts) (n, [], []) =
      (n', q', seen') := e2
  rw [← hts', e2']
  show Rel (MemNfa.bfs _ _ _ m'.states.size (m', q', seen')) (bfs _ _ _ n'.size (n', q', seen')) ∧ _
  rw [r1.size]
  exact sim_bfs k.isLeftmost (CNfa.isMatch n 2) fold n'.size m' n' q' seen' r1 r2 r3 r4

end AcVerif.MemC
