import AcVerif.Proofs.ContigSafeScan
import AcVerif.Proofs.ContigMatch
/-!
# L1eSafe proofs, part 2: the checked lookups on one written state

If the words of `repr` at `o` are `State::write` of a state `st` and lie inside `repr`
(`o + length ≤ repr.size`), then every read of the checked lookup `found?` is in range and it
returns what the totalised lookup `foundW` returns (`found?_written`); likewise for the failure
link (`fail?_written`) and the match words (`matchList?_written`).  No hypothesis on the
transition list is needed (only that classes are `< alphabet_len ≤ 256`).
-/
namespace AcVerif.L1eP
open AcVerif AcVerif.CNfa AcVerif.L1cP AcVerif.L1dP

section
variable {classOf : UInt8 → Nat} {al : Nat} {newId : Nat → Nat} {st : CState} {fd : Bool}
variable {m : ContigM} {o : Nat}

/-- the first two words of a written state are inside `repr` -/
theorem head_written
    (hin : o + (writeState classOf al st newId fd).length ≤ m.repr.size) :
    o + 1 < m.repr.size := by
  have := writeState_length_ge classOf al st newId fd
  omega

/-- the failure-link read `repr[o + 1]` is in range -/
theorem fail?_written
    (hin : o + (writeState classOf al st newId fd).length ≤ m.repr.size) :
    m.repr[o + 1]? = some (m.repr.getD (o + 1) 0) :=
  getElem?_getD_of_lt m.repr (head_written hin)

/-- every read of the transition lookup is in range -/
theorem found?_written (hcls : ∀ b, classOf b < al) (hal : al ≤ 256)
    (hrd : ∀ j, j < (writeState classOf al st newId fd).length →
      m.repr.getD (o + j) 0 = (writeState classOf al st newId fd).getD j 0)
    (hin : o + (writeState classOf al st newId fd).length ≤ m.repr.size) (b : UInt8) :
    m.found? (classOf b) o = some (foundW (fun i => m.repr.getD i 0) (classOf b) o) := by
  have h01 := head_written hin
  unfold ContigM.found?
  rw [getElem?_getD_of_lt m.repr (show o < m.repr.size by omega)]
  simp only []
  rcases writeState_cases st fd with hd | ⟨h1, _, b0, t0, h3, h4⟩ | ⟨h1, h2, h3⟩
  · -- dense
    rw [writeState_dense _ _ _ _ _ hd] at hrd hin
    have hsz := denseRow_size classOf al st newId
    have hc := hcls b
    have h0 : m.repr.getD o 0 = KIND_DENSE := by
      have := hrd 0 (by simp)
      simpa using this
    have hk : (KIND_DENSE % 256 == KIND_DENSE) = true := by decide
    have hlt : o + 2 + classOf b < m.repr.size := by
      simp only [List.length_append, List.length_cons, List.length_nil, Array.length_toList,
        hsz] at hin
      omega
    unfold foundW
    simp only [h0, hk, if_true]
    rw [getElem?_getD_of_lt m.repr hlt]
    generalize m.repr.getD (o + 2 + classOf b) 0 = x
    show (if (x != FAIL) = true then some (some x) else some none) =
      some (if (x != FAIL) = true then some x else none)
    split <;> rfl
  · -- one transition
    rw [writeState_one _ _ _ _ _ h1 b0 t0 h3 h4] at hrd hin
    have hc0 : classOf b0 < 256 := Nat.lt_of_lt_of_le (hcls b0) hal
    have h0 : m.repr.getD o 0 = KIND_ONE + classOf b0 * 256 := by
      have := hrd 0 (by simp)
      simpa using this
    have hk1 : ((KIND_ONE + classOf b0 * 256) % 256 == KIND_DENSE) = false := by
      simp only [KIND_ONE, KIND_DENSE, beq_eq_false_iff_ne, ne_eq]; omega
    have hk2 : ((KIND_ONE + classOf b0 * 256) % 256 == KIND_ONE) = true := by
      simp only [KIND_ONE, beq_iff_eq]; omega
    have hlt : o + 2 < m.repr.size := by
      simp only [List.length_cons, List.length_nil] at hin
      omega
    unfold foundW
    simp only [h0, hk1, hk2, Bool.false_eq_true, if_false, if_true]
    rw [getElem?_getD_of_lt m.repr hlt]
    split <;> rfl
  · -- sparse
    rw [writeState_sparse _ _ _ _ _ h1 h2 h3] at hrd hin
    have hcl_len : (st.trans.map fun x => classOf x.1).length = st.trans.length := List.length_map _
    have hch := chunks_length (st.trans.map fun x => classOf x.1) (st.trans.length + 1)
      (by rw [hcl_len]; omega)
    rw [hcl_len] at hch
    simp only [List.length_append, List.length_cons, List.length_nil, List.length_map, hch] at hin
    have h0 : m.repr.getD o 0 = st.trans.length := by
      have := hrd 0 (by simp)
      simpa using this
    have hchunk : ∀ i, i < u32Len st.trans.length → m.repr.getD (o + 2 + i) 0 =
        (writeState.chunks (st.trans.map fun x => classOf x.1) (st.trans.length + 1)).getD i 0 := by
      intro i hi
      have := hrd (2 + i) (by simp [hch]; omega)
      rw [← Nat.add_assoc] at this
      rw [this, getD_append_left' _ _ _ _ (by simp [hch]; omega),
        getD_append_left' _ _ _ _ (by simp [hch]; omega)]
      exact getD_append_right' [st.trans.length, newId st.fail] _ i 0
    have hkind : m.repr.getD o 0 % 256 = st.trans.length := by rw [h0]; omega
    have hk1 : (st.trans.length == KIND_DENSE) = false := by
      simp only [KIND_DENSE, beq_eq_false_iff_ne, ne_eq]; omega
    have hk2 : (st.trans.length == KIND_ONE) = false := by
      simp only [KIND_ONE, beq_eq_false_iff_ne, ne_eq]; omega
    unfold foundW
    simp only [hkind, hk1, hk2, Bool.false_eq_true, if_false]
    rw [if_pos (by omega)]
    rw [scanGo?_eq m (classOf b) (o + 2) (o + 2 + u32Len st.trans.length)
      (List.range (u32Len st.trans.length)) (fun i hi => by
        have := List.mem_range.1 hi
        omega)]
    rw [sparseScan_eq_idx]
    have hspec := sparseIdx_spec (fun i => m.repr.getD i 0) (classOf b) (o + 2)
      (st.trans.map fun x => classOf x.1) (st.trans.length + 1) (by rw [hcl_len]; omega)
      (by
        intro c hc
        obtain ⟨x, _, rfl⟩ := List.mem_map.1 hc
        exact Nat.lt_of_lt_of_le (hcls x.1) hal)
      (by rw [hcl_len]; exact hchunk)
    rw [hcl_len] at hspec
    show (match sparseIdx (fun i => m.repr.getD i 0) (classOf b) (o + 2) (u32Len st.trans.length) with
      | none => some none
      | some j => (m.repr[o + 2 + u32Len st.trans.length + j]?).map some) = _
    rw [hspec]
    cases hfi : (st.trans.map fun x => classOf x.1).findIdx? (· == classOf b) with
    | none => rfl
    | some j =>
      rw [List.findIdx?_eq_some_iff_getElem] at hfi
      obtain ⟨hj, _, _⟩ := hfi
      rw [hcl_len] at hj
      simp only [Option.map_some]
      rw [getElem?_getD_of_lt m.repr (show o + 2 + u32Len st.trans.length + j < m.repr.size by omega)]
      rfl

theorem mapM_all_some {α β : Type} (f : α → Option β) (g : α → β) (l : List α)
    (h : ∀ a ∈ l, f a = some (g a)) : l.mapM f = some (l.map g) := by
  induction l with
  | nil => rfl
  | cons a l ih =>
    rw [List.mapM_cons, h a (by simp), ih (fun x hx => h x (by simp [hx]))]
    rfl

/-- reading the match words, all reads checked, given where they start -/
theorem tail?_written {start : Nat}
    (hm : st.matches_ ≠ [])
    (hrd : ∀ j, j < (wTail st).length → m.repr.getD (start + j) 0 = (wTail st).getD j 0)
    (hin : start + (wTail st).length ≤ m.repr.size) :
    (match m.repr[start]? with
      | none => none
      | some packed =>
        if packed ≥ 2147483648 then some [packed - 2147483648]
        else (List.range packed).mapM fun i => m.repr[start + 1 + i]?) =
      some (if m.repr.getD start 0 ≥ 2147483648 then [m.repr.getD start 0 - 2147483648]
        else (List.range (m.repr.getD start 0)).map fun i => m.repr.getD (start + 1 + i) 0) := by
  have he : st.matches_.isEmpty = false := by
    cases h : st.matches_ with
    | nil => exact absurd h hm
    | cons a l => rfl
  have hpos : 0 < (wTail st).length := by
    rw [wTail_def, he]
    simp only [Bool.false_eq_true, if_false]
    split <;> simp
  rw [getElem?_getD_of_lt m.repr (show start < m.repr.size by omega)]
  simp only []
  by_cases hbig : m.repr.getD start 0 ≥ 2147483648
  · rw [if_pos hbig, if_pos hbig]
  · rw [if_neg hbig, if_neg hbig]
    -- the words are `length :: ids`
    have hlen : m.repr.getD start 0 + 1 ≤ (wTail st).length := by
      match hms : st.matches_ with
      | [] => exact absurd hms hm
      | [pid] =>
        have ht : wTail st = [2147483648 + pid] := by rw [wTail_def, he, hms]; rfl
        rw [ht] at hrd
        have h0 := hrd 0 (by simp)
        simp only [Nat.add_zero, List.getD_cons_zero] at h0
        omega
      | a :: c :: l =>
        have ht : wTail st = (a :: c :: l).length :: (a :: c :: l) := by
          rw [wTail_def, he, hms]; rfl
        rw [ht] at hrd ⊢
        have h0 := hrd 0 (by simp)
        simp only [Nat.add_zero, List.getD_cons_zero] at h0
        rw [h0]
        simp
    apply mapM_all_some
    intro i hi
    have := List.mem_range.1 hi
    exact getElem?_getD_of_lt m.repr (by omega)

/-- every read of `match_len` / `match_pattern` at a written match state is in range -/
theorem matchList?_written (hm : st.matches_ ≠ [])
    (hal : m.alphabetLen = al)
    (hrd : ∀ j, j < (writeState classOf al st newId fd).length →
      m.repr.getD (o + j) 0 = (writeState classOf al st newId fd).getD j 0)
    (hin : o + (writeState classOf al st newId fd).length ≤ m.repr.size) :
    m.matchList? o = some (m.matchList o) := by
  have h01 := head_written hin
  unfold ContigM.matchList?
  rw [if_pos (by omega), getElem?_getD_of_lt m.repr (show o < m.repr.size by omega)]
  simp only []
  rw [matchList_eq]
  unfold matchListW
  simp only [hal]
  rcases writeState_cases st fd with hd | ⟨h1, _, b0, t0, h3, h4⟩ | ⟨h1, h2, h3⟩
  · rw [writeState_dense _ _ _ _ _ hd] at hrd hin
    have hsz := denseRow_size classOf al st newId
    have h0 : m.repr.getD o 0 = KIND_DENSE := by
      have := hrd 0 (by simp)
      simpa using this
    have hk : (KIND_DENSE % 256 == KIND_DENSE) = true := by decide
    simp only [h0, hk, if_true]
    simp only [List.length_append, List.length_cons, List.length_nil, Array.length_toList,
      hsz] at hin
    apply tail?_written hm
    · intro j hj
      have := hrd (2 + al + j) (by simp [hsz]; omega)
      rw [← Nat.add_assoc, ← Nat.add_assoc] at this
      rw [this]
      have e := getD_append_right' ([KIND_DENSE, newId st.fail] ++ (denseRow classOf al st newId).toList)
        (wTail st) j 0
      simp only [List.length_append, List.length_cons, List.length_nil, Array.length_toList, hsz] at e
      rw [← e]
    · omega
  · exact absurd h4 hm
  · rw [writeState_sparse _ _ _ _ _ h1 h2 h3] at hrd hin
    have hcl_len : (st.trans.map fun x => classOf x.1).length = st.trans.length := List.length_map _
    have hch := chunks_length (st.trans.map fun x => classOf x.1) (st.trans.length + 1)
      (by rw [hcl_len]; omega)
    rw [hcl_len] at hch
    have h0 : m.repr.getD o 0 = st.trans.length := by
      have := hrd 0 (by simp)
      simpa using this
    have hkind : m.repr.getD o 0 % 256 = st.trans.length := by rw [h0]; omega
    have hk1 : (st.trans.length == KIND_DENSE) = false := by
      simp only [KIND_DENSE, beq_eq_false_iff_ne, ne_eq]; omega
    simp only [hkind, hk1, Bool.false_eq_true, if_false]
    simp only [List.length_append, List.length_cons, List.length_nil, List.length_map, hch] at hin
    apply tail?_written hm
    · intro j hj
      have := hrd (2 + u32Len st.trans.length + st.trans.length + j) (by simp [hch]; omega)
      rw [← Nat.add_assoc, ← Nat.add_assoc, ← Nat.add_assoc] at this
      rw [this]
      have e := getD_append_right' ([st.trans.length, newId st.fail] ++
        writeState.chunks (st.trans.map fun x => classOf x.1) (st.trans.length + 1) ++
        (st.trans.map fun x => newId x.2)) (wTail st) j 0
      simp only [List.length_append, List.length_cons, List.length_nil, List.length_map, hch] at e
      rw [← e]
    · omega

end

end AcVerif.L1eP
