import AcVerif.StreamResume
import AcVerif.Proofs.StreamRun
/-!
# Stream search: pulling on after a transient read error – reader, buffer, one `nextT` call

The invariant `Inv` of `StreamStep.lean` does not mention the reader's call
counter, so it is also the invariant of the resumable iterator: a failing
`nextT` call performs the roll / shift (`rollStep_inv`) and keeps the bytes the
earlier `read` calls of the same `fill` delivered (`fill_inv`) – both sub-steps
of a normal call.  The fault is one-shot: `Spent rd` (the call index `failAt`
is behind us) is established by the failing call and kept by every other call.
-/
namespace AcVerif.StreamP
open AcVerif
variable {σ α : Type}

/-- the failing call index (if any) is behind us -/
def Spent (rd : Reader α) : Prop := ∀ k, rd.failAt = some k → k < rd.calls

theorem spent_of_none {rd : Reader α} (h : rd.failAt = none) : Spent rd := by
  intro k hk; rw [h] at hk; cases hk

/-! ## the reader -/

/-- the number of bytes a successful call delivers -/
def readN (rd : Reader α) (room : Nat) : Nat :=
  min (min (match rd.sched[rd.calls]? with | some w => w | none => room) room)
    (rd.data.length - rd.pos)

/-- a call that is not the failing one: `readT` is `read` -/
theorem readT_ok (rd : Reader α) (room : Nat) (h : (rd.failAt == some rd.calls) = false) :
    ∃ x, rd.read room = .ok x ∧ rd.readT room = .ok x ∧ x.2.calls = rd.calls + 1 ∧
      x.2.failAt = rd.failAt := by
  refine ⟨((rd.data.drop rd.pos).take (readN rd room),
    { rd with pos := rd.pos + readN rd room, calls := rd.calls + 1,
              emptyReads := rd.emptyReads + (if room = 0 then 1 else 0) }), ?_, ?_, rfl, rfl⟩
  · simp only [Reader.read, h, Bool.false_eq_true, if_false]
    rfl
  · simp only [Reader.readT, h, Bool.false_eq_true, if_false]
    rfl

theorem readT_err (rd : Reader α) (room : Nat) (h : (rd.failAt == some rd.calls) = true) :
    rd.readT room =
      .error { rd with calls := rd.calls + 1,
                       emptyReads := rd.emptyReads + (if room = 0 then 1 else 0) } := by
  simp only [Reader.readT, h, if_true]

/-- what one `readT` call returns -/
def ReadPostT (data : List α) (sched : List Nat) (fa : Option Nat) (rd : Reader α) (room : Nat) :
    Except (Reader α) (List α × Reader α) → Prop
  | .error rd' => RInv data sched fa rd' ∧ rd'.pos = rd.pos ∧ ¬ Spent rd ∧ Spent rd'
  | .ok (bytes, rd') =>
    ReadPost data sched fa rd room (.ok (bytes, rd')) ∧ (Spent rd → Spent rd')

theorem read_specT {data : List α} {sched : List Nat} {fa : Option Nat}
    (hs : ∀ x ∈ sched, 1 ≤ x) {rd : Reader α} (h : RInv data sched fa rd) {room : Nat}
    (hroom : 1 ≤ room) : ReadPostT data sched fa rd room (rd.readT room) := by
  have hrs := read_spec hs h hroom
  cases hc : (rd.failAt == some rd.calls) with
  | true =>
    rw [readT_err rd room hc]
    have hfa : rd.failAt = some rd.calls := eq_of_beq hc
    obtain ⟨h1, h2, h3, h4, h5⟩ := h
    have hr0 : ¬ room = 0 := by omega
    refine ⟨⟨h1, h2, h3, ?_, h5⟩, rfl, ?_, ?_⟩
    · show rd.emptyReads + (if room = 0 then 1 else 0) = 0
      rw [if_neg hr0]; omega
    · intro hsp
      have := hsp _ hfa
      omega
    · intro k hk
      have hk' : rd.failAt = some k := hk
      rw [hfa] at hk'
      cases hk'
      show rd.calls < rd.calls + 1
      omega
  | false =>
    obtain ⟨x, hx1, hx2, hc1, hc2⟩ := readT_ok rd room hc
    rw [hx1] at hrs
    rw [hx2]
    obtain ⟨bytes, rd'⟩ := x
    refine ⟨hrs, ?_⟩
    intro hsp k hk
    have hc1' : rd'.calls = rd.calls + 1 := hc1
    have hc2' : rd'.failAt = rd.failAt := hc2
    have := hsp k (by rw [← hc2']; exact hk)
    omega

/-! ## the buffer -/

/-- what `fillT` returns: on an error the buffer still holds the last bytes
delivered, including those of the earlier iterations of this call -/
def FillPostT (data : List α) (sched : List Nat) (fa : Option Nat) (Lm C : Nat) (b : Buffer α)
    (rd : Reader α) (ra : Bool) :
    Except (Buffer α × Reader α) (Bool × Buffer α × Reader α) → Prop
  | .error (b', rd') =>
    RInv data sched fa rd' ∧ BInv data Lm C b' rd' ∧
      rd'.pos - b'.buf.length = rd.pos - b.buf.length ∧ rd.pos ≤ rd'.pos ∧
      ¬ Spent rd ∧ Spent rd'
  | .ok (ra', b', rd') =>
    FillPost data sched fa Lm C b rd ra (.ok (ra', b', rd')) ∧ (Spent rd → Spent rd')

theorem fill_specT {data : List α} {sched : List Nat} {fa : Option Nat} {Lm C : Nat}
    (hs : ∀ x ∈ sched, 1 ≤ x) (hC : Lm < C) (fuel : Nat) (b : Buffer α) (rd : Reader α)
    (ra : Bool) (hr : RInv data sched fa rd) (hb : BInv data Lm C b rd)
    (hl : b.buf.length ≤ Lm) (hf : data.length - rd.pos + 1 ≤ fuel) :
    FillPostT data sched fa Lm C b rd ra (b.fillT rd ra fuel) := by
  induction fuel generalizing b rd ra with
  | zero => omega
  | succ fuel ih =>
    obtain ⟨hb1, hb2, hb3, hb4⟩ := hb
    have hroom : 1 ≤ b.cap - b.buf.length := by omega
    have hrs := read_specT hs hr hroom
    rw [Buffer.fillT]
    generalize rd.readT (b.cap - b.buf.length) = rres at hrs
    match rres, hrs with
    | .error rd', hrs =>
      obtain ⟨hr', hp, hns, hsp⟩ := hrs
      refine ⟨hr', ⟨hb1, hb2, by omega, ?_⟩, by omega, by omega, hns, hsp⟩
      rw [hp]; exact hb4
    | .ok (bytes, rd'), hrs =>
      simp only
      obtain ⟨⟨hr', hp, hby, hle, hz⟩, hsp⟩ := hrs
      have hN := hr'.2.2.2.2
      by_cases h0 : bytes.length = 0
      · rw [if_pos h0]
        have := hz h0
        refine ⟨⟨hr', ⟨hb1, hb2, by omega, ?_⟩, by omega, by omega, ?_, ?_⟩, hsp⟩
        · have e : rd'.pos = rd.pos := by omega
          rw [e]; exact hb4
        · intro h; exact ⟨h, by omega, by omega⟩
        · intro h; exact Or.inl h
      · rw [if_neg h0]
        have hbuf : b.buf ++ bytes = slice data (rd'.pos - (b.buf ++ bytes).length) rd'.pos := by
          rw [hby]
          have e : rd'.pos - (b.buf ++ slice data rd.pos rd'.pos).length = rd.pos - b.buf.length := by
            rw [← hby]; simp only [List.length_append]; omega
          rw [e]
          conv => lhs; rw [hb4]
          exact slice_append _ (by omega) (by omega)
        have hb' : BInv data Lm C { b with buf := b.buf ++ bytes } rd' :=
          ⟨hb1, hb2, by simp only [List.length_append]; omega, hbuf⟩
        by_cases hge : (b.buf ++ bytes).length ≥ b.min
        · rw [if_pos hge]
          refine ⟨⟨hr', hb', ?_, by omega, ?_, ?_⟩, hsp⟩
          · simp only [List.length_append]; omega
          · intro h; cases h
          · intro _; right; omega
        · rw [if_neg hge]
          have hlt' : (b.buf ++ bytes).length < Lm := by
            simp only [ge_iff_le, Nat.not_le] at hge; rw [← hb1]; exact hge
          have := ih { b with buf := b.buf ++ bytes } rd' true hr' hb' (Nat.le_of_lt hlt')
            (by omega)
          generalize Buffer.fillT { b with buf := b.buf ++ bytes } rd' true fuel = fres at this
          match fres, this with
          | .error (b'', rd''), this =>
            obtain ⟨g1, g2, g3, g4, g5, g6⟩ := this
            refine ⟨g1, g2, ?_, by omega, fun h => g5 (hsp h), g6⟩
            rw [g3]; simp only [List.length_append]; omega
          | .ok (ra'', b'', rd''), this =>
            obtain ⟨⟨g1, g2, g3, g4, g5, g6⟩, g7⟩ := this
            refine ⟨⟨g1, g2, ?_, by omega, ?_, ?_⟩, fun h => g7 (hsp h)⟩
            · rw [g3]; simp only [List.length_append]; omega
            · intro h; have := (g5 h).1; cases this
            · intro _; right; omega

/-! ## one `nextT` call -/

theorem nextT_succ (A : Aut σ α) (it : ChunkIter σ α) (fuel : Nat) :
    ChunkIter.nextT A it (fuel + 1) =
      if A.isMatch it.sid then matchStep A it
      else if it.bufPos ≥ it.buf.buf.length then
        if it.reported < it.buf.buf.length - it.buf.min then preRollStep it
        else
          match (rollStep it).buf.fillT (rollStep it).rdr false
              ((rollStep it).rdr.data.length - (rollStep it).rdr.pos + 1) with
          | .error (b', r') => (.ioErr, { rollStep it with buf := b', rdr := r' })
          | .ok (false, b, r) => eofStep { rollStep it with buf := b, rdr := r }
          | .ok (true, b, r) =>
            ChunkIter.nextT A (scanStep A { rollStep it with buf := b, rdr := r }) fuel
      else ChunkIter.nextT A (scanStep A it) fuel := by
  rfl

/-- what a `nextT` call returns from a state satisfying the invariant; `sp`
says that the fault was already behind us before the call.  An error item
leaves a state satisfying the invariant at the same emitted-so-far position. -/
def PostT (A : Aut σ α) (st0 : σ) (data : List α) (sched : List Nat) (fa : Option Nat)
    (Lm C : Nat) (r o : Nat) (sp : Prop) : NextResult σ α × ChunkIter σ α → Prop
  | (.done, it') =>
    it'.rdr.emptyReads = 0 ∧ o = data.length ∧ firstMatch A st0 data r = none
  | (.ioErr, it') =>
    Inv A st0 data sched fa Lm C r it' ∧ off it' = o ∧ ¬ sp ∧ Spent it'.rdr
  | (.chunk (.nonMatch b), it') =>
    (Inv A st0 data sched fa Lm C r it' ∧ o < off it' ∧ b = slice data o (off it')) ∧
      (sp → Spent it'.rdr)
  | (.chunk (.mtch b m), it') =>
    (Inv A st0 data sched fa Lm C m.stop it' ∧ firstMatch A st0 data r = some m ∧
      m.start = o ∧ off it' = m.stop ∧ b = slice data m.start m.stop) ∧
      (sp → Spent it'.rdr)

section
variable {A : Aut σ α} {st0 : σ} {data : List α} {sched : List Nat} {fa : Option Nat}
  {Lm C : Nat}

theorem postT_of_post {r o : Nat} {sp : Prop} {res : NextResult σ α × ChunkIter σ α}
    (h : Post A st0 data sched fa Lm C r o res) (hne : ∀ it', res ≠ (.ioErr, it'))
    (hsp : sp → Spent res.2.rdr) : PostT A st0 data sched fa Lm C r o sp res := by
  match res, h, hne, hsp with
  | (.done, it'), h, _, _ => exact h
  | (.ioErr, it'), _, hne, _ => exact absurd rfl (hne it')
  | (.chunk (.nonMatch b), it'), h, _, hsp => exact ⟨h, hsp⟩
  | (.chunk (.mtch b m), it'), h, _, hsp => exact ⟨h, hsp⟩

theorem PostT.mono {r o : Nat} {sp sp' : Prop} {res : NextResult σ α × ChunkIter σ α}
    (h : PostT A st0 data sched fa Lm C r o sp' res) (hi : sp → sp') :
    PostT A st0 data sched fa Lm C r o sp res := by
  match res, h with
  | (.done, it'), h => exact h
  | (.ioErr, it'), h => exact ⟨h.1, h.2.1, fun hs => h.2.2.1 (hi hs), h.2.2.2⟩
  | (.chunk (.nonMatch b), it'), h => exact ⟨h.1, fun hs => h.2 (hi hs)⟩
  | (.chunk (.mtch b m), it'), h => exact ⟨h.1, fun hs => h.2 (hi hs)⟩

theorem matchStep_ne (A : Aut σ α) (it it' : ChunkIter σ α) : matchStep A it ≠ (.ioErr, it') := by
  simp only [matchStep]
  split <;> (intro h; cases h)

theorem matchStep_rdr (A : Aut σ α) (it : ChunkIter σ α) : (matchStep A it).2.rdr = it.rdr := by
  simp only [matchStep]
  split <;> rfl

theorem eofStep_ne (it it' : ChunkIter σ α) : eofStep it ≠ (.ioErr, it') := by
  unfold eofStep
  split <;> (intro h; cases h)

theorem eofStep_rdr (it : ChunkIter σ α) : (eofStep it).2.rdr = it.rdr := by
  unfold eofStep
  split <;> rfl

theorem next_postT (H : Hyp A st0 data sched Lm C) (fuel : Nat) (it : ChunkIter σ α) (r : Nat)
    (h : Inv A st0 data sched fa Lm C r it) (hf : need A data it ≤ fuel) :
    PostT A st0 data sched fa Lm C r (off it) (Spent it.rdr) (ChunkIter.nextT A it fuel) := by
  induction fuel generalizing it with
  | zero =>
    unfold need at hf
    split at hf <;> omega
  | succ fuel ih =>
    rw [nextT_succ]
    cases hm : A.isMatch it.sid with
    | true =>
      simp only [if_true]
      exact postT_of_post (matchStep_post H h hm) (matchStep_ne A it)
        (fun hsp => by rw [matchStep_rdr]; exact hsp)
    | false =>
      simp only [Bool.false_eq_true, if_false]
      have hN := h.rinv.2.2.2.2
      simp only [need, hm, Bool.false_eq_true, if_false] at hf
      by_cases hge : it.bufPos ≥ it.buf.buf.length
      · rw [if_pos hge]
        by_cases hlt : it.reported < it.buf.buf.length - it.buf.min
        · rw [if_pos hlt]
          exact postT_of_post (preRollStep_post H h hm hge hlt) (fun it' h => by cases h)
            (fun hsp => hsp)
        · rw [if_neg hlt]
          obtain ⟨hI, hoff, hl, hpl, hsid, hrdr⟩ := rollStep_inv H h hge hlt
          have hfill := fill_specT H.sch H.lmC
            ((rollStep it).rdr.data.length - (rollStep it).rdr.pos + 1) _ _ false hI.rinv hI.binv hl
            (by rw [hI.rinv.1]; omega)
          generalize Buffer.fillT (rollStep it).buf (rollStep it).rdr false
            ((rollStep it).rdr.data.length - (rollStep it).rdr.pos + 1) = fres at hfill
          match fres, hfill with
          | .error (b', rd'), hfill =>
            obtain ⟨g1, g2, g3, g4, g5, g6⟩ := hfill
            obtain ⟨hI', hoff'⟩ := fill_inv hI hpl g1 g2 g3 g4
            refine ⟨hI', by rw [hoff', hoff], ?_, g6⟩
            rw [← hrdr]; exact g5
          | .ok (false, b', rd'), hfill =>
            obtain ⟨⟨g1, g2, g3, g4, g5, g6⟩, gs⟩ := hfill
            obtain ⟨_, g7, g8⟩ := g5 rfl
            obtain ⟨hI', hoff'⟩ := fill_inv hI hpl g1 g2 g3 g4
            have hlen := hI.binv.2.2.1
            have hlen' := g2.2.2.1
            have := eofStep_post hI' (by show A.isMatch (rollStep it).sid = false; rw [hsid]; exact hm)
              (by show (rollStep it).bufPos = b'.buf.length; omega) g7
            rw [hoff', hoff] at this
            refine postT_of_post this (eofStep_ne _) ?_
            intro hsp
            rw [eofStep_rdr]
            show Spent rd'
            exact gs (by rw [hrdr]; exact hsp)
          | .ok (true, b', rd'), hfill =>
            obtain ⟨⟨g1, g2, g3, g4, g5, g6⟩, gs⟩ := hfill
            have g7 : (rollStep it).rdr.pos < rd'.pos := by
              rcases g6 rfl with h | h
              · cases h
              · exact h
            rw [hrdr] at g7
            obtain ⟨hI', hoff'⟩ := fill_inv hI hpl g1 g2 g3 g4
            have hm' : A.isMatch ({ rollStep it with buf := b', rdr := rd' } : ChunkIter σ α).sid
                = false := by
              show A.isMatch (rollStep it).sid = false; rw [hsid]; exact hm
            obtain ⟨hI2, hoff2, hrdr2, hbuf2, hcase⟩ := scanStep_inv hI' hm'
            have hN' := g1.2.2.2.2
            have := ih _ hI2 (by
              unfold need
              split
              · omega
              · rw [hrdr2]
                show data.length - rd'.pos + 2 + _ ≤ fuel
                rcases hcase with hc | hc
                · rename_i hnm; rw [hc] at hnm; exact absurd rfl hnm
                · rw [if_neg (by omega)]; omega)
            rw [hoff2, hoff', hoff, hrdr2] at this
            refine this.mono ?_
            intro hsp
            show Spent rd'
            exact gs (by rw [hrdr]; exact hsp)
      · rw [if_neg hge]
        rw [if_pos (by omega)] at hf
        obtain ⟨hI2, hoff2, hrdr2, hbuf2, hcase⟩ := scanStep_inv h hm
        have := ih _ hI2 (by
          unfold need
          split
          · omega
          · rw [hrdr2]
            rcases hcase with hc | hc
            · rename_i hnm; rw [hc] at hnm; exact absurd rfl hnm
            · rw [if_neg (by omega)]; omega)
        rw [hoff2, hrdr2] at this
        exact this

end

end AcVerif.StreamP
