import AcVerif.Engine.Stream
import AcVerif.Engine.Iter
import AcVerif.Engine.Replace
/-!
# Stream search: list slices, the scan loop, the chunk-sequence specification

Pure list-level material for the stream theorems (C07, C08, C18):

* `slice data i j = data[i..j)` and its algebra;
* `scanBytes` composition lemmas and `firstMatch` (the in-memory "search from
  `r`" expressed with the stream's own scan loop);
* `Spec`: what a well-formed chunk sequence looks like (contiguous slices of
  the stream, every match chunk being *the* next match after the previous
  one), and its consequences: the matches are the `iterSpec` list, the bytes
  concatenate to the stream, a writer fed with it computes `replaceBytes`.
-/
namespace AcVerif.StreamP
open AcVerif
variable {σ α : Type}

/-! ## slices -/

/-- `data[i..j)` -/
def slice (data : List α) (i j : Nat) : List α := (data.take j).drop i

theorem slice_length (data : List α) (i j : Nat) (h : j ≤ data.length) :
    (slice data i j).length = j - i := by
  simp only [slice, List.length_drop, List.length_take]; omega

theorem slice_self (data : List α) (i : Nat) : slice data i i = [] := by
  simp [slice]

theorem slice_nil_of_le (data : List α) {i j : Nat} (h : j ≤ i) : slice data i j = [] := by
  apply List.drop_eq_nil_of_le
  simp only [List.length_take]; omega

theorem slice_zero_length (data : List α) : slice data 0 data.length = data := by
  simp [slice]

theorem slice_to_length (data : List α) (i : Nat) : slice data i data.length = data.drop i := by
  simp [slice]

theorem slice_append (data : List α) {i j k : Nat} (h1 : i ≤ j) (h2 : j ≤ k) :
    slice data i j ++ slice data j k = slice data i k := by
  unfold slice
  have e1 : data.take j = (data.take k).take j := by
    rw [List.take_take]; congr 1; omega
  rw [e1]
  have e2 : ((data.take k).take j).drop i = ((data.take k).drop i).take (j - i) := by
    rw [List.drop_take]
  have e3 : (data.take k).drop j = ((data.take k).drop i).drop (j - i) := by
    rw [List.drop_drop]; congr 1; omega
  rw [e2, e3, List.take_append_drop]

theorem slice_append_drop (data : List α) {i j : Nat} (h1 : i ≤ j) :
    slice data i j ++ data.drop j = data.drop i := by
  unfold slice
  have e2 : (data.take j).drop i = (data.drop i).take (j - i) := by
    rw [List.drop_take]
  have e3 : data.drop j = (data.drop i).drop (j - i) := by
    rw [List.drop_drop]; congr 1; omega
  rw [e2, e3, List.take_append_drop]

/-- a sub-range of a slice -/
theorem slice_slice (data : List α) (i j a b : Nat) (h : i + b ≤ j) :
    slice (slice data i j) a b = slice data (i + a) (i + b) := by
  unfold slice
  rw [List.take_drop, List.drop_drop, List.take_take]
  congr 2
  omega

theorem drop_slice (data : List α) (i j a : Nat) :
    (slice data i j).drop a = slice data (i + a) j := by
  unfold slice
  rw [List.drop_drop]

theorem take_slice (data : List α) (i j a : Nat) (h : i + a ≤ j) :
    (slice data i j).take a = slice data i (i + a) := by
  unfold slice
  rw [List.take_drop, List.take_take]
  congr 2
  omega

theorem slice_drop (data : List α) (i a b : Nat) :
    slice (data.drop i) a b = slice data (i + a) (i + b) := by
  unfold slice
  rw [List.take_drop, List.drop_drop]

/-! ## the scan loop -/

theorem scan_shift (A : Aut σ α) (q : σ) (k : Nat) (w : List α) :
    scanBytes A q k w = ((scanBytes A q 0 w).1, k + (scanBytes A q 0 w).2) := by
  induction w generalizing q k with
  | nil => rfl
  | cons c w ih =>
    simp only [scanBytes]
    split
    · simp
    · rw [ih _ (k + 1), ih _ (0 + 1)]
      simp only [Prod.mk.injEq, true_and]; omega

theorem scan_le (A : Aut σ α) (q : σ) (w : List α) : (scanBytes A q 0 w).2 ≤ w.length := by
  induction w generalizing q with
  | nil => simp [scanBytes]
  | cons c w ih =>
    simp only [scanBytes]
    split
    · simp
    · rw [scan_shift]
      have := ih (A.next false q c)
      simp only [List.length_cons]; omega

/-- a scan that does not end in a match state consumed everything -/
theorem scan_end (A : Aut σ α) (q : σ) (w : List α)
    (h : A.isMatch (scanBytes A q 0 w).1 = false) : (scanBytes A q 0 w).2 = w.length := by
  induction w generalizing q with
  | nil => simp [scanBytes]
  | cons c w ih =>
    simp only [scanBytes] at h ⊢
    split
    · rename_i hm; rw [if_pos hm] at h; simp [hm] at h
    · rename_i hm
      rw [if_neg hm] at h
      rw [scan_shift] at h ⊢
      have := ih _ h
      simp only [List.length_cons]; omega

/-- a scan from a non-match state that ends in a match state consumed at least one byte -/
theorem scan_pos (A : Aut σ α) (q : σ) (w : List α) (hq : A.isMatch q = false)
    (h : A.isMatch (scanBytes A q 0 w).1 = true) : 0 < (scanBytes A q 0 w).2 := by
  cases w with
  | nil => simp [scanBytes, hq] at h
  | cons c w =>
    simp only [scanBytes]
    split
    · simp
    · rw [scan_shift]; simp only; omega

theorem scan_append_nm (A : Aut σ α) (q : σ) (u v : List α)
    (h : A.isMatch (scanBytes A q 0 u).1 = false) :
    scanBytes A q 0 (u ++ v) =
      ((scanBytes A (scanBytes A q 0 u).1 0 v).1,
        u.length + (scanBytes A (scanBytes A q 0 u).1 0 v).2) := by
  induction u generalizing q with
  | nil => simp [scanBytes]
  | cons c u ih =>
    simp only [scanBytes, List.cons_append] at h ⊢
    split
    · rename_i hm; rw [if_pos hm] at h; simp [hm] at h
    · rename_i hm
      rw [if_neg hm] at h
      rw [scan_shift] at h
      rw [scan_shift, ih _ h, scan_shift A _ (0 + 1) u]
      simp only [List.length_cons, Prod.mk.injEq, true_and]; omega

theorem scan_append_m (A : Aut σ α) (q : σ) (u v : List α) (hq : A.isMatch q = false)
    (h : A.isMatch (scanBytes A q 0 u).1 = true) :
    scanBytes A q 0 (u ++ v) = scanBytes A q 0 u := by
  induction u generalizing q with
  | nil => simp [scanBytes, hq] at h
  | cons c u ih =>
    simp only [scanBytes, List.cons_append] at h ⊢
    split
    · rfl
    · rename_i hm
      rw [if_neg hm] at h
      rw [scan_shift] at h
      rw [scan_shift, ih _ (by simpa using hm) h, scan_shift A _ (0 + 1) u]

theorem scan_take (A : Aut σ α) (q : σ) (w : List α) :
    scanBytes A q 0 (w.take (scanBytes A q 0 w).2) = scanBytes A q 0 w := by
  induction w generalizing q with
  | nil => simp [scanBytes]
  | cons c w ih =>
    simp only [scanBytes]
    split
    · rename_i hm; simp [scanBytes, hm]
    · rename_i hm
      rw [scan_shift A _ (0 + 1) w]
      simp only [Nat.zero_add, Nat.add_comm 1, List.take_succ_cons, scanBytes, if_neg hm]
      rw [scan_shift A _ (0 + 1), ih]
      simp only [Prod.mk.injEq, true_and]; omega

/-- the in-memory search from `r`, written with the stream's scan loop -/
def firstMatch (A : Aut σ α) (st0 : σ) (data : List α) (r : Nat) : Option Mat :=
  if A.isMatch (scanBytes A st0 0 (data.drop r)).1 then
    some (getMatch A (scanBytes A st0 0 (data.drop r)).1 0 (r + (scanBytes A st0 0 (data.drop r)).2))
  else none

/-- the state invariant of the stream scan: `sid` is where the scan from the
start state over `data[r..p)` stands, and it did not stop earlier -/
def ScanAt (A : Aut σ α) (st0 : σ) (data : List α) (r p : Nat) (sid : σ) : Prop :=
  r ≤ p ∧ p ≤ data.length ∧ scanBytes A st0 0 (slice data r p) = (sid, p - r)

theorem ScanAt.init (A : Aut σ α) (st0 : σ) (data : List α) {r : Nat} (h : r ≤ data.length) :
    ScanAt A st0 data r r st0 :=
  ⟨Nat.le_refl _, h, by simp [slice_self, scanBytes]⟩

/-- scanning on from a non-match state -/
theorem ScanAt.extend {A : Aut σ α} {st0 : σ} {data : List α} {r p : Nat} {sid : σ}
    (h : ScanAt A st0 data r p sid) (hm : A.isMatch sid = false) {n : Nat} (hn : p ≤ n)
    (hnN : n ≤ data.length) :
    ScanAt A st0 data r (p + (scanBytes A sid 0 (slice data p n)).2)
      (scanBytes A sid 0 (slice data p n)).1 := by
  obtain ⟨h1, h2, h3⟩ := h
  have hk := scan_le A sid (slice data p n)
  rw [slice_length _ _ _ hnN] at hk
  refine ⟨by omega, by omega, ?_⟩
  have hs : slice data r (p + (scanBytes A sid 0 (slice data p n)).2) =
      slice data r p ++ (slice data p n).take (scanBytes A sid 0 (slice data p n)).2 := by
    rw [take_slice _ _ _ _ (by omega), slice_append _ h1 (by omega)]
  have hm' : A.isMatch (scanBytes A st0 0 (slice data r p)).1 = false := by rw [h3]; exact hm
  rw [hs, scan_append_nm _ _ _ _ hm', h3]
  simp only
  rw [scan_take, slice_length _ _ _ h2]
  simp only [Prod.mk.injEq, true_and]; omega

/-- at a match state the in-memory search from `r` reports exactly this match -/
theorem ScanAt.firstMatch_of_match {A : Aut σ α} {st0 : σ} {data : List α} {r p : Nat} {sid : σ}
    (h : ScanAt A st0 data r p sid) (h0 : A.isMatch st0 = false) (hm : A.isMatch sid = true) :
    firstMatch A st0 data r = some (getMatch A sid 0 p) := by
  obtain ⟨h1, h2, h3⟩ := h
  have hd : data.drop r = slice data r p ++ data.drop p := (slice_append_drop data h1).symm
  have hm' : A.isMatch (scanBytes A st0 0 (slice data r p)).1 = true := by rw [h3]; exact hm
  unfold firstMatch
  rw [hd, scan_append_m _ _ _ _ h0 hm', h3]
  simp only [hm, if_true]
  congr 2; omega

/-- at a non-match state any match of the in-memory search from `r` ends later -/
theorem ScanAt.firstMatch_stop_gt {A : Aut σ α} {st0 : σ} {data : List α} {r p : Nat} {sid : σ}
    (h : ScanAt A st0 data r p sid) (hm : A.isMatch sid = false) {m : Mat}
    (hf : firstMatch A st0 data r = some m) : p < m.stop := by
  obtain ⟨h1, h2, h3⟩ := h
  have hd : data.drop r = slice data r p ++ data.drop p := (slice_append_drop data h1).symm
  have hm' : A.isMatch (scanBytes A st0 0 (slice data r p)).1 = false := by rw [h3]; exact hm
  unfold firstMatch at hf
  rw [hd, scan_append_nm _ _ _ _ hm', h3] at hf
  simp only at hf
  split at hf
  · rename_i hq
    have := scan_pos A sid (data.drop p) hm hq
    rw [slice_length _ _ _ h2] at hf
    cases hf
    simp only [getMatch]
    omega
  · cases hf

/-- at a non-match state at the end of the data the in-memory search from `r` finds nothing -/
theorem ScanAt.firstMatch_none {A : Aut σ α} {st0 : σ} {data : List α} {r : Nat} {sid : σ}
    (h : ScanAt A st0 data r data.length sid) (hm : A.isMatch sid = false) :
    firstMatch A st0 data r = none := by
  cases hf : firstMatch A st0 data r with
  | none => rfl
  | some m =>
    have h1 := h.firstMatch_stop_gt hm hf
    unfold firstMatch at hf
    split at hf
    · cases hf
      have := scan_le A st0 (data.drop r)
      simp only [getMatch, List.length_drop] at h1 this
      have := h.1
      omega
    · cases hf

theorem firstMatch_stop_le {A : Aut σ α} {st0 : σ} {data : List α} {r : Nat} {m : Mat}
    (hr : r ≤ data.length) (hf : firstMatch A st0 data r = some m) : m.stop ≤ data.length := by
  unfold firstMatch at hf
  split at hf
  · cases hf
    have := scan_le A st0 (data.drop r)
    simp only [getMatch, List.length_drop] at this ⊢
    omega
  · cases hf

end AcVerif.StreamP
