import AcVerif.Proofs.BuildCheckedContig
/-!
# C20 build proofs, part 4: the `densify` test
-/
namespace AcVerif.BuildP
open AcVerif AcVerif.CNfa

theorem denseRows_size (n : CNfa) (dd : Nat) : (denseRows n dd).size = n.size := by
  unfold denseRows
  simp

theorem denseCount_le (n : CNfa) (dd : Nat) : denseCount n dd ≤ n.size := by
  unfold denseCount
  have h1 := List.length_filter_le (fun r : Option (Array Nat) => r.isSome) (denseRows n dd).toList
  have h2 : (denseRows n dd).toList.length = n.size := by rw [Array.length_toList, denseRows_size]
  omega

/-- `dense_depth = 0`: `densify` allocates nothing -/
theorem denseCount_zero (n : CNfa) : denseCount n 0 = 0 := by
  unfold denseCount
  rw [List.length_eq_zero_iff, List.filter_eq_nil_iff]
  intro r hr
  unfold denseRows at hr
  simp only [Array.toList_map, List.mem_map] at hr
  obtain ⟨sid, _, rfl⟩ := hr
  split <;> simp

theorem nncAlphabetLen_le (n : CNfa) : nncAlphabetLen n ≤ 256 := by
  exact ncOf_le n true

end AcVerif.BuildP
