import AcVerif.Proofs.ContigDefs
import AcVerif.Proofs.CompilerRun
/-!
# L1e proofs: the compiled NFA meets `FS` and the list-level facts `FX`
-/
namespace AcVerif.L1eP
open AcVerif AcVerif.CNfa AcVerif.L1cP

/-- `FX` at the end of the failure phase -/
theorem FX_of_FI {k : MatchKind} {Q : PatSet UInt8} {L : List (List UInt8)} {nT n : CNfa}
    {pend : List (List UInt8)} (hT : TI nT L Q []) (h : FI k Q L (startPhase nT) n pend) :
    FX L n := by
  have hB := PB_startPhase hT
  have h4 : 4 ≤ nT.size := by rw [hT.size]; omega
  refine { sorted := ?_, nofail := ?_, fullSU := ?_, fullSA := ?_ }
  · intro sid; rw [h.trans]; exact hB.sorted sid
  · intro u hu x hx; rw [h.trans] at hx; exact hB.nofail u hu x hx
  · intro b; rw [h.trans]; exact hB.full b
  · intro b
    rw [h.trans, getD_startPhase nT h4, if_neg (by simp [SA, SU]), if_pos rfl]
    exact hT.full b

/-- `closeSU` keeps `FX` -/
theorem FX_closeSU {L : List (List UInt8)} {n : CNfa} (hSU : SU < n.size)
    (hnode : ∀ u, u ∈ L → nu L u ≠ SU) (h : FX L n) : FX L (closeSU n) := by
  have hget := getD_closeSU n hSU
  refine { sorted := ?_, nofail := ?_, fullSU := ?_, fullSA := ?_ }
  · intro sid
    rw [hget]
    by_cases e : sid = SU
    · rw [if_pos e]
      exact sorted_map (fun t => if t == SU then DEAD else t) (h.sorted SU)
    · rw [if_neg e]; exact h.sorted sid
  · intro u hu x hx
    rw [hget, if_neg (hnode u hu)] at hx
    exact h.nofail u hu x hx
  · intro b
    obtain ⟨t, ht⟩ := h.fullSU b
    rw [hget, if_pos rfl]
    exact ⟨if t == SU then DEAD else t, List.mem_map.2 ⟨(b, t), ht, rfl⟩⟩
  · intro b
    rw [hget, if_neg (by simp [SA, SU])]
    exact h.fullSA b

theorem FX_closeStartLoop {L : List (List UInt8)} {n : CNfa} (k : MatchKind) (hSU : SU < n.size)
    (hnode : ∀ u, u ∈ L → nu L u ≠ SU) (h : FX L n) : FX L (closeStartLoop k n) := by
  rw [closeStartLoop_eq]
  by_cases hc : (k.isLeftmost && isMatch n SU) = true
  · rw [if_pos hc]; exact FX_closeSU hSU hnode h
  · rw [if_neg hc]; exact h

/-- the compiled automaton meets `FS` and the list-level facts `FX`, for the same node list `L` -/
theorem compile_specX (k : MatchKind) (P : List (List UInt8)) :
    ∃ L, FS k (patSet k P) L (compile k false P) ∧ FX L (compile k false P) := by
  obtain ⟨L, hT⟩ := buildTrie_spec k P
  have hB := PB_startPhase hT
  obtain ⟨pend, hF, hall⟩ := fillFailure_spec (k := k) hB
  refine ⟨L, by rw [compile_eq]; exact FS_of_FI hB hF hall, ?_⟩
  rw [compile_eq]
  apply FX_closeStartLoop k
  · rw [hF.size, hB.size]; simp [SU]
  · intro u hu
    have := nu_ge (L := L) (hB.ne_nil hu)
    simp only [SU]; omega
  · exact FX_of_FI hT hF

/-! ## full lists are long -/

theorem length_of_keys : ∀ n, n ≤ 256 → ∀ l : List UInt8,
    (∀ i, i < n → UInt8.ofNat i ∈ l) → n ≤ l.length := by
  intro n
  induction n with
  | zero => intro _ l _; exact Nat.zero_le _
  | succ n ih =>
    intro hn l hl
    have hx : UInt8.ofNat n ∈ l := hl n (Nat.lt_succ_self n)
    have hlen := List.length_erase_of_mem hx
    have hpos : 0 < l.length := List.length_pos_of_mem hx
    have := ih (by omega) (l.erase (UInt8.ofNat n)) (by
      intro i hi
      refine (List.mem_erase_of_ne ?_).2 (hl i (by omega))
      intro e
      have := congrArg UInt8.toNat e
      simp only [UInt8.toNat_ofNat'] at this
      omega)
    omega

/-- a list containing every byte as a key has at least 256 entries -/
theorem length_of_full (l : List (UInt8 × Nat)) (h : ∀ b : UInt8, ∃ t, (b, t) ∈ l) :
    256 ≤ l.length := by
  have := length_of_keys 256 (Nat.le_refl _) (l.map Prod.fst) (by
    intro i _
    obtain ⟨t, ht⟩ := h (UInt8.ofNat i)
    exact List.mem_map.2 ⟨_, ht, rfl⟩)
  rwa [List.length_map] at this

/-! ## match flags of the special states -/

/-- under `FS`, the two start states have the same match list, and the dead state none -/
theorem FS_isMatch_SU_SA {k : MatchKind} {Q : PatSet UInt8} {L : List (List UInt8)} {N : CNfa}
    (h : FS k Q L N) : CNfa.isMatch N SU = CNfa.isMatch N SA := by
  have h1 := h.mats [] (Or.inl rfl)
  rw [nu_nil] at h1
  rw [isMatch_eq, isMatch_eq, h1, h.mats_sa]

theorem FS_isMatch_dead {k : MatchKind} {Q : PatSet UInt8} {L : List (List UInt8)} {N : CNfa}
    (h : FS k Q L N) : CNfa.isMatch N DEAD = false := by
  rw [isMatch_eq, h.mats_dead]; rfl

end AcVerif.L1eP
