import AcVerif.Proofs.DfaIdsFoldSim
/-!
# L1d-ids (fold) proofs, part 2: start kind `Both`, and all start kinds together

Port of the `FS`-dependent parts of `Proofs/DfaIdsBothSim.lean` and `Proofs/DfaIdsAll.lean` to
`FSf`.
-/
namespace AcVerif.L1dIdsFoldP
open AcVerif AcVerif.CNfa AcVerif.L1cP AcVerif.L1dP AcVerif.L1eP AcVerif.L1dIdsP
open AcVerif.L1cFoldP AcVerif.L1dFoldP AcVerif.L1eFoldP

/-! ## names for the pieces of `idsBoth` -/

/-! ## row entries -/

section
variable {k : MatchKind} {Q : PatSet UInt8} {L : List (List UInt8)} {N : CNfa}
variable {classOf : UInt8 → Nat} {nc : Nat}

theorem su_entryB_f (h : FSf k Q L N) (hC : ClassOK N classOf nc) (rem : Nat → Nat) (b : UInt8) :
    (idsStartRow N classOf nc rem 2).getD (classOf b) 0 =
      rem (nextState N false (N.size + 1) 2 b 0).1 := by
  rw [idsStartRow_eq]
  refine (row_fold N 2 classOf
    (fun r => some (if follow N 2 r == FAIL then 0 else rem (follow N 2 r)))
    ?_ _ ?_ _ b ?_ 0).trans ?_
  · intro b b' hc
    rw [follow_cong_VU_f h hC VU_su hc]
  · intro r; rfl
  · rw [Array.size_replicate]; exact hC.lt b
  · have hf : follow N 2 b ≠ FAIL := follow_su_ne_fail_f h b
    have : (follow N 2 b == FAIL) = false := by simpa using hf
    rw [nextState_stop N false N.size 2 b 0 hf]
    simp only [this, Bool.false_eq_true, if_false, Option.getD_some]

theorem sa_entryB_f (h : FSf k Q L N) (hC : ClassOK N classOf nc) (rem : Nat → Nat) (h0 : rem 0 = 0)
    (b : UInt8) :
    (idsStartRow N classOf nc rem 3).getD (classOf b) 0 =
      rem (nextState N true (N.size + 1) 3 b 0).1 := by
  rw [idsStartRow_eq]
  refine (row_fold N 3 classOf
    (fun r => some (if follow N 3 r == FAIL then 0 else rem (follow N 3 r)))
    ?_ _ ?_ _ b ?_ 0).trans ?_
  · intro b b' hc
    rw [follow_cong_VA_f h hC VA_sa hc]
  · intro r; rfl
  · rw [Array.size_replicate]; exact hC.lt b
  · rw [anch_entry]
    by_cases hf : follow N 3 b = FAIL
    · have : (follow N 3 b == FAIL) = true := by simpa using hf
      simp only [this, if_true, Option.getD_some]
      exact h0.symm
    · have : (follow N 3 b == FAIL) = false := by simpa using hf
      simp only [this, Bool.false_eq_true, if_false, Option.getD_some]

theorem node_entryAB_f (h : FSf k Q L N) (hC : ClassOK N classOf nc) (rem : Nat → Nat)
    (h0 : rem 0 = 0) {s : Nat} (hv : VA L s) (b : UInt8) :
    (idsARow N classOf nc rem s).getD (classOf b) 0 =
      rem (nextState N true (N.size + 1) s b 0).1 := by
  rw [idsARow_eq]
  refine (row_fold N s classOf
    (fun r => if follow N s r == FAIL then none else some (rem (follow N s r)))
    ?_ _ ?_ _ b ?_ 0).trans ?_
  · intro b b' hc
    rw [follow_cong_VA_f h hC hv hc]
  · intro r; rfl
  · rw [Array.size_replicate]; exact hC.lt b
  · rw [anch_entry]
    by_cases hf : follow N s b = FAIL
    · have : (follow N s b == FAIL) = true := by simpa using hf
      simp only [this, if_true, Option.getD_none]
      rw [getD_replicate' _ _ _ (hC.lt b)]
      exact h0.symm
    · have : (follow N s b == FAIL) = false := by simpa using hf
      simp only [this, Bool.false_eq_true, if_false, Option.getD_some]

theorem node_entryUB_f (h : FSf k Q L N) (hC : ClassOK N classOf nc) (rem : Nat → Nat) {s : Nat}
    (hv : VU L s) (b : UInt8) :
    (idsURow N classOf nc rem s).getD (classOf b) 0 =
      rem (nextState N false (N.size + 1) s b 0).1 := by
  unfold idsURow
  rw [getD_map' _ _ 0 0 (by rw [dfaRow_size]; exact hC.lt b), rowU_spec_f h hC hv b 0]

end

/-! ## where a state sits -/

/-! ## the common part: everything about an index in the slot of `pos s` -/

section
variable {k : MatchKind} {Q : PatSet UInt8} {L : List (List UInt8)} {N : CNfa}

theorem remUf_eq_f (h : FSf k Q L N) (bc : Bool) {s : Nat} (hs : s < N.size) :
    remUf N bc s = vU (cNa N) (stB N bc) (posOf N s) := by
  have hS := shufOK N h.four_le_size
  exact (remFoldB_spec hS.na_ge (stB N bc) N.size).valU _ (hS.pos_lt s hs)

theorem remAf_eq_f (h : FSf k Q L N) (bc : Bool) {s : Nat} (hs : s < N.size) :
    remAf N bc s = vA (cNa N) (stB N bc) (posOf N s) := by
  have hS := shufOK N h.four_le_size
  exact (remFoldB_spec hS.na_ge (stB N bc) N.size).valA _ (hS.pos_lt s hs)

theorem remAf_zero_f (h : FSf k Q L N) (bc : Bool) : remAf N bc 0 = 0 := by
  have hS := shufOK N h.four_le_size
  have h4 := hS.na_ge
  have h5 := hS.na_le
  rw [remAf_eq_f h bc (by omega)]
  unfold posOf
  rw [hS.pos0]
  unfold vA iA
  rw [if_neg (by omega), if_pos (Or.inl (by omega)), cntB_zero, Nat.zero_mul]

theorem remUf_zero_f (h : FSf k Q L N) (bc : Bool) : remUf N bc 0 = 0 := by
  have hS := shufOK N h.four_le_size
  have h4 := hS.na_ge
  have h5 := hS.na_le
  rw [remUf_eq_f h bc (by omega)]
  unfold posOf
  rw [hS.pos0]
  unfold vU
  rw [if_neg (by omega), cntB_zero, Nat.zero_mul]

theorem maxMatch_eq_f (h : FSf k Q L N) (bc hasPre : Bool) :
    (bothD N bc hasPre).maxMatchId = iA (cNa N) (nfaMaxMatch N (cNa N)) * stB N bc := by
  have hS := shufOK N h.four_le_size
  have h4 := hS.na_ge
  have h5 := hS.na_le
  have hlt := nfaMaxMatch_lt hS
  rw [bothD_maxMatch]
  show (remFoldB (cNa N) (stB N bc) N.size).2.1.getD _ 0 = _
  rw [(remFoldB_spec h4 (stB N bc) N.size).valA _ (by omega)]
  unfold vA
  rw [if_neg]
  unfold nfaMaxMatch
  split <;> omega

theorem maxSpecial_eq_f (h : FSf k Q L N) (bc hasPre : Bool) :
    (bothD N bc hasPre).maxSpecialId = iA (cNa N) (nfaMaxSpecial N (cNa N) hasPre) * stB N bc := by
  have hS := shufOK N h.four_le_size
  have h4 := hS.na_ge
  have h5 := hS.na_le
  have hlt := nfaMaxSpecial_lt hS hasPre
  rw [bothD_maxSpecial]
  show (remFoldB (cNa N) (stB N bc) N.size).2.1.getD _ 0 = _
  rw [(remFoldB_spec h4 (stB N bc) N.size).valA _ (by omega)]
  unfold vA
  rw [if_neg]
  unfold nfaMaxSpecial nfaMaxMatch
  split <;> (try split) <;> omega

/-- the table lookup at an index in the slot of a position -/
theorem both_lookup_f (h : FSf k Q L N) (bc hasPre : Bool) {p x : Nat} (hp : p < N.size)
    (hx2 : x < cntB (cNa N) (p + 1)) (b : UInt8) :
    (bothD N bc hasPre).next (x * stB N bc) b =
      ((rmB N bc).1.getD x #[]).getD (clsOf N bc b) 0 := by
  have hS := shufOK N h.four_le_size
  have h4 := hS.na_ge
  have h5 := hS.na_le
  have hx : x < 2 * N.size - 4 := by
    have := cntB_mono h4 (show p + 1 ≤ N.size by omega)
    rw [cntB_size h4 h5] at this
    omega
  show (bothD N bc hasPre).trans.getD (x * stB N bc + clsOf N bc b) 0 = _
  rw [bothD_trans, stB_eq, flatTable_getD _ _ _ hx (cls_lt_stride N bc b)]

/-- flags and match list at an index in the slot of `pos s` -/
theorem both_flags_f (h : FSf k Q L N) (bc hasPre : Bool) {s x : Nat} (hs : s < N.size) (h1 : s ≠ 1)
    (hx1 : cntB (cNa N) (posOf N s) ≤ x) (hx2 : x < cntB (cNa N) (posOf N s + 1))
    (hx0 : x = 0 ↔ posOf N s = 0) :
    (bothD N bc hasPre).isMatch (x * stB N bc) = (s != DEAD && CNfa.isMatch N s) ∧
    (bothD N bc hasPre).isSpecial (x * stB N bc) =
      (s == DEAD || CNfa.isMatch N s || (hasPre && (s == SU || s == SA))) ∧
    ((bothD N bc hasPre).isMatch (x * stB N bc) = true →
      (bothD N bc hasPre).matchList? (x * stB N bc) = some ((rmB N bc).2.getD x [])) := by
  have hS := shufOK N h.four_le_size
  have h4 := hS.na_ge
  have h5 := hS.na_le
  have hmm := FSf_isMatch_SU_SA h
  have hfm := posFlag_match hS hmm hs h1
  have hfs := posFlag_special hS hasPre hmm hs h1
  have hp1 := posOf_ne_one hS hs h1
  have eM : (bothD N bc hasPre).isMatch (x * stB N bc) = (s != DEAD && CNfa.isMatch N s) := by
    show (x * stB N bc != 0 && decide (x * stB N bc ≤ (bothD N bc hasPre).maxMatchId)) = _
    rw [Bool.eq_iff_iff]
    simp only [Bool.and_eq_true, bne_iff_ne, ne_eq, decide_eq_true_eq]
    rw [maxMatch_eq_f h, stB_eq, mul_pow_le_iff, mul_pow_eq_zero_iff, slot_le_iff h4 hx1 hx2, hx0]
    exact hfm
  refine ⟨eM, ?_, ?_⟩
  · show decide (x * stB N bc ≤ (bothD N bc hasPre).maxSpecialId) = _
    rw [Bool.eq_iff_iff]
    simp only [decide_eq_true_eq, Bool.or_eq_true, Bool.and_eq_true, beq_iff_eq]
    rw [maxSpecial_eq_f h, stB_eq, mul_pow_le_iff, slot_le_iff h4 hx1 hx2, hfs]
    constructor
    · rintro (e | e | e)
      · exact Or.inl (Or.inl e)
      · exact Or.inl (Or.inr e)
      · exact Or.inr e
    · rintro ((e | e) | e)
      · exact Or.inl e
      · exact Or.inr (Or.inl e)
      · exact Or.inr (Or.inr e)
  · intro hm
    rw [eM] at hm
    simp only [Bool.and_eq_true, bne_iff_ne, ne_eq] at hm
    obtain ⟨hp0, hple⟩ := hfm.2 hm
    have hp2 : 2 ≤ posOf N s := by omega
    have hx2' : 2 ≤ x := by have := cntB_ge_two h4 hp2; omega
    have hmm1 := nfaMaxMatch_ge_one hS
    have hxle : x < cntB (cNa N) (nfaMaxMatch N (cNa N) + 1) := by
      have := cntB_mono h4 (show posOf N s + 1 ≤ nfaMaxMatch N (cNa N) + 1 by omega)
      omega
    have hub := cntB_le_two_mul h4 (show 2 ≤ nfaMaxMatch N (cNa N) + 1 by omega)
    have hshr : (x * stB N bc) >>> s2Of N bc = x := by
      rw [stB_eq]; exact shr_mul _ N bc
    show (if (x * stB N bc) >>> s2Of N bc < 2 then none
      else (bothD N bc hasPre).matches_[(x * stB N bc) >>> s2Of N bc - 2]?) = _
    rw [hshr, if_neg (by omega), bothD_matches]
    have hj : x - 2 < (nfaMaxMatch N (cNa N) - 1) * 2 := by omega
    rw [getElem?_eq_some_getD _ [] (by rw [matchTable_size]; exact hj), matchTable_getD _ _ hj]
    have e2 : x - 2 + 2 = x := by omega
    rw [e2]

/-- the row / match list stored for position `p` -/
theorem both_rowAt_f (h : FSf k Q L N) (bc : Bool) {p : Nat} (hp : p < N.size) :
    RowAt N (clsOf N bc) (ncOf N bc) (cNa N) (cOrder N) (remUf N bc) (remAf N bc)
      (fun j => (rmB N bc).1.getD j #[]) (fun j => (rmB N bc).2.getD j []) p := by
  have hS := shufOK N h.four_le_size
  exact (rowsFoldB_spec N (clsOf N bc) (ncOf N bc) (cNa N) (cOrder N) (remUf N bc) (remAf N bc)
    hS.na_ge N.size).at_ p hp

/-! ## unanchored mode -/

theorem both_simU_f (h : FSf k Q L N) (bc hasPre : Bool) :
    Sim N L hasPre (bothD N bc hasPre) false (remUf N bc) := by
  have hS := shufOK N h.four_le_size
  have h4 := hS.na_ge
  have h5 := hS.na_le
  have hC := classOK_clsOf N bc
  -- a live state: its position, its index
  have live : ∀ s, LvA L false s → s < N.size ∧ s ≠ 1 ∧ s ≠ 3 ∧ posOf N s < N.size ∧
      remUf N bc s = cntB (cNa N) (posOf N s) * stB N bc ∧
      cntB (cNa N) (posOf N s) < cntB (cNa N) (posOf N s + 1) := by
    intro s hv
    have hs := hv.lv.lt_size_f h
    have h1 := hv.lv.ne_fail_f h
    have h3 : s ≠ 3 := (VU.ne_sa_f h hv).1
    have hp := hS.pos_lt s hs
    refine ⟨hs, h1, h3, hp, ?_, ?_⟩
    · rw [remUf_eq_f h bc hs]
      unfold vU
      rw [if_neg]
      intro e
      have e' : posOf N s = posOf N 3 := by
        have := hS.posSA; unfold posOf at e ⊢; omega
      exact h3 (posOf_inj hS hs (by omega) e')
    · have := cntB_succ h4 (posOf N s)
      split at this <;> omega
  refine ⟨?_, ?_, ?_, ?_, ?_, ?_, ?_, ?_, ?_, ?_⟩
  · -- step
    intro s hv b
    obtain ⟨hs, h1, h3, hp, hg, hlt⟩ := live s hv
    have hR := both_rowAt_f h bc hp
    have eo : (cOrder N).getD (posOf N s) 0 = s := hS.order_pos s hs
    rw [hg, both_lookup_f h bc hasPre hp hlt b]
    unfold RowAt at hR
    simp only at hR
    rcases posKind hS hs h1 with ⟨e, ep⟩ | ⟨e, ep⟩ | ⟨e, ep⟩ | ⟨e, ep, ens⟩
    · subst e
      rw [if_pos (by omega)] at hR
      rw [hR.1, getD_replicate' _ _ _ (hC.lt b)]
      show 0 = remUf N bc (nextState N false (N.size + 1) DEAD b 0).1
      rw [nextState_dead N false _ b 0 (h.goto_dead b)]
      exact (remUf_zero_f h bc).symm
    · subst e
      rw [if_neg (by omega), if_pos ep] at hR
      rw [hR.1, eo]
      exact su_entryB_f h hC _ b
    · exact absurd e h3
    · rw [if_neg (by omega), if_neg (by unfold sgl at ens; omega),
        if_neg (by unfold sgl at ens; omega)] at hR
      rw [hR.1, eo]
      exact node_entryUB_f h hC _ hv b
  · -- idx
    intro s hv
    obtain ⟨hs, h1, h3, hp, hg, hlt⟩ := live s hv
    refine ⟨cntB (cNa N) (posOf N s), ?_, ?_⟩
    · show _ < 2 * N.size - 4
      have := cntB_mono h4 (show posOf N s + 1 ≤ N.size by omega)
      rw [cntB_size h4 h5] at this
      omega
    · rw [hg, stB_eq]; rfl
  · intro b; exact cls_lt_stride N bc b
  · rw [bothD_trans, flatTable_size]; rfl
  · -- dead
    intro s hv
    obtain ⟨hs, h1, h3, hp, hg, hlt⟩ := live s hv
    rw [hg, stB_eq, mul_pow_eq_zero_iff, cntB_eq_zero_iff h4]
    exact posOf_zero_iff hS hs
  · intro s hv
    obtain ⟨hs, h1, h3, hp, hg, hlt⟩ := live s hv
    rw [hg]
    exact (both_flags_f h bc hasPre hs h1 (Nat.le_refl _) hlt (cntB_eq_zero_iff h4 _)).1
  · intro s hv
    obtain ⟨hs, h1, h3, hp, hg, hlt⟩ := live s hv
    rw [hg]
    exact (both_flags_f h bc hasPre hs h1 (Nat.le_refl _) hlt (cntB_eq_zero_iff h4 _)).2.1
  · -- mlist
    intro s hv hm
    obtain ⟨hs, h1, h3, hp, hg, hlt⟩ := live s hv
    rw [hg] at hm ⊢
    rw [(both_flags_f h bc hasPre hs h1 (Nat.le_refl _) hlt (cntB_eq_zero_iff h4 _)).2.2 hm]
    have hR := both_rowAt_f h bc hp
    have eo : (cOrder N).getD (posOf N s) 0 = s := hS.order_pos s hs
    unfold RowAt at hR
    simp only at hR
    rcases posKind hS hs h1 with ⟨e, ep⟩ | ⟨e, ep⟩ | ⟨e, ep⟩ | ⟨e, ep, ens⟩
    · subst e
      rw [if_pos (by omega)] at hR
      rw [hR.2]
      show some [] = some (N.getD DEAD {}).matches_
      rw [h.mats_dead]
    · rw [if_neg (by omega), if_pos ep] at hR
      rw [hR.2, eo]
    · exact absurd e h3
    · rw [if_neg (by omega), if_neg (by unfold sgl at ens; omega),
        if_neg (by unfold sgl at ens; omega)] at hR
      rw [hR.2.2.1, eo]
  · -- start
    show (bothD N bc hasPre).startU = remUf N bc 2
    rw [bothD_startU]
    unfold remUf
    rw [hS.posSU]
  · -- isStart
    intro s hv h0
    obtain ⟨hs, h1, h3, hp, hg, hlt⟩ := live s hv
    show ((remUf N bc s == (bothD N bc hasPre).startU) ||
      (remUf N bc s == (bothD N bc hasPre).startA)) = true ↔ s = 2
    have eU : (bothD N bc hasPre).startU = cntB (cNa N) (cNa N - 2) * stB N bc := by
      rw [bothD_startU]
      show (remFoldB (cNa N) (stB N bc) N.size).1.getD _ 0 = _
      rw [(remFoldB_spec h4 (stB N bc) N.size).valU _ (by omega)]
      unfold vU; rw [if_neg (by omega)]
    have eA : (bothD N bc hasPre).startA = cntB (cNa N) (cNa N - 1) * stB N bc := by
      rw [bothD_startA]
      show (remFoldB (cNa N) (stB N bc) N.size).2.1.getD _ 0 = _
      rw [(remFoldB_spec h4 (stB N bc) N.size).valA _ (by omega)]
      unfold vA iA; rw [if_neg (by omega), if_pos (Or.inr (Or.inr (by omega)))]
    rw [eU, eA, hg, stB_eq]
    simp only [Bool.or_eq_true, beq_iff_eq]
    constructor
    · rintro (e | e)
      · have := cntB_inj h4 (mul_pow_inj e)
        rw [← hS.posSU] at this
        exact posOf_inj hS hs (by omega) this
      · have := cntB_inj h4 (mul_pow_inj e)
        rw [← hS.posSA] at this
        exact absurd (posOf_inj hS hs (by omega) this) h3
    · intro e; subst e
      left; unfold posOf; rw [hS.posSU]

/-! ## anchored mode -/

theorem both_simA_f (h : FSf k Q L N) (bc hasPre : Bool) :
    Sim N L hasPre (bothD N bc hasPre) true (remAf N bc) := by
  have hS := shufOK N h.four_le_size
  have h4 := hS.na_ge
  have h5 := hS.na_le
  have hC := classOK_clsOf N bc
  have hz := remAf_zero_f h bc
  have live : ∀ s, LvA L true s → s < N.size ∧ s ≠ 1 ∧ s ≠ 2 ∧ posOf N s < N.size ∧
      remAf N bc s = iA (cNa N) (posOf N s) * stB N bc ∧
      cntB (cNa N) (posOf N s) ≤ iA (cNa N) (posOf N s) ∧
      iA (cNa N) (posOf N s) < cntB (cNa N) (posOf N s + 1) ∧
      (iA (cNa N) (posOf N s) = 0 ↔ posOf N s = 0) := by
    intro s hv
    have hs := hv.lv.lt_size_f h
    have h1 := hv.lv.ne_fail_f h
    have h2 : s ≠ 2 := (VA.ne_su_f h hv).1
    have hp := hS.pos_lt s hs
    refine ⟨hs, h1, h2, hp, ?_, iA_ge _ _, iA_lt h4 _, ?_⟩
    · rw [remAf_eq_f h bc hs]
      unfold vA
      rw [if_neg]
      intro e
      have e' : posOf N s = posOf N 2 := by
        have := hS.posSU; unfold posOf at e ⊢; omega
      exact h2 (posOf_inj hS hs (by omega) e')
    · constructor
      · intro e
        have := iA_ge (cNa N) (posOf N s)
        exact (cntB_eq_zero_iff h4 _).1 (by omega)
      · intro e
        rw [e]; unfold iA
        rw [if_pos (Or.inl (by omega)), cntB_zero]
  refine ⟨?_, ?_, ?_, ?_, ?_, ?_, ?_, ?_, ?_, ?_⟩
  · -- step
    intro s hv b
    obtain ⟨hs, h1, h2, hp, hg, hge, hlt, hz0⟩ := live s hv
    have hR := both_rowAt_f h bc hp
    have eo : (cOrder N).getD (posOf N s) 0 = s := hS.order_pos s hs
    rw [hg, both_lookup_f h bc hasPre hp hlt b]
    unfold RowAt at hR
    simp only at hR
    rcases posKind hS hs h1 with ⟨e, ep⟩ | ⟨e, ep⟩ | ⟨e, ep⟩ | ⟨e, ep, ens⟩
    · subst e
      rw [if_pos (by omega)] at hR
      have ei : iA (cNa N) (posOf N 0) = cntB (cNa N) (posOf N 0) := by
        unfold iA; rw [if_pos (Or.inl (by omega))]
      rw [ei, hR.1, getD_replicate' _ _ _ (hC.lt b)]
      show 0 = remAf N bc (nextState N true (N.size + 1) DEAD b 0).1
      rw [nextState_dead N true _ b 0 (h.goto_dead b)]
      exact hz.symm
    · exact absurd e h2
    · subst e
      rw [if_neg (by omega), if_neg (by omega), if_pos ep] at hR
      have ei : iA (cNa N) (posOf N 3) = cntB (cNa N) (posOf N 3) := by
        unfold iA; rw [if_pos (Or.inr (Or.inr ep))]
      rw [ei, hR.1, eo]
      exact sa_entryB_f h hC _ hz b
    · rw [if_neg (by omega), if_neg (by unfold sgl at ens; omega),
        if_neg (by unfold sgl at ens; omega)] at hR
      have ei : iA (cNa N) (posOf N s) = cntB (cNa N) (posOf N s) + 1 := by
        unfold iA; rw [if_neg ens]
      rw [ei, hR.2.1, eo]
      exact node_entryAB_f h hC _ hz hv b
  · -- idx
    intro s hv
    obtain ⟨hs, h1, h2, hp, hg, hge, hlt, hz0⟩ := live s hv
    refine ⟨iA (cNa N) (posOf N s), ?_, ?_⟩
    · show _ < 2 * N.size - 4
      have := cntB_mono h4 (show posOf N s + 1 ≤ N.size by omega)
      rw [cntB_size h4 h5] at this
      omega
    · rw [hg, stB_eq]; rfl
  · intro b; exact cls_lt_stride N bc b
  · rw [bothD_trans, flatTable_size]; rfl
  · -- dead
    intro s hv
    obtain ⟨hs, h1, h2, hp, hg, hge, hlt, hz0⟩ := live s hv
    rw [hg, stB_eq, mul_pow_eq_zero_iff, hz0]
    exact posOf_zero_iff hS hs
  · intro s hv
    obtain ⟨hs, h1, h2, hp, hg, hge, hlt, hz0⟩ := live s hv
    rw [hg]
    exact (both_flags_f h bc hasPre hs h1 hge hlt hz0).1
  · intro s hv
    obtain ⟨hs, h1, h2, hp, hg, hge, hlt, hz0⟩ := live s hv
    rw [hg]
    exact (both_flags_f h bc hasPre hs h1 hge hlt hz0).2.1
  · -- mlist
    intro s hv hm
    obtain ⟨hs, h1, h2, hp, hg, hge, hlt, hz0⟩ := live s hv
    rw [hg] at hm ⊢
    rw [(both_flags_f h bc hasPre hs h1 hge hlt hz0).2.2 hm]
    have hR := both_rowAt_f h bc hp
    have eo : (cOrder N).getD (posOf N s) 0 = s := hS.order_pos s hs
    unfold RowAt at hR
    simp only at hR
    rcases posKind hS hs h1 with ⟨e, ep⟩ | ⟨e, ep⟩ | ⟨e, ep⟩ | ⟨e, ep, ens⟩
    · subst e
      rw [if_pos (by omega)] at hR
      have ei : iA (cNa N) (posOf N 0) = cntB (cNa N) (posOf N 0) := by
        unfold iA; rw [if_pos (Or.inl (by omega))]
      rw [ei, hR.2]
      show some [] = some (N.getD DEAD {}).matches_
      rw [h.mats_dead]
    · exact absurd e h2
    · rw [if_neg (by omega), if_neg (by omega), if_pos ep] at hR
      have ei : iA (cNa N) (posOf N s) = cntB (cNa N) (posOf N s) := by
        unfold iA; rw [if_pos (Or.inr (Or.inr ep))]
      rw [ei, hR.2, eo]
    · rw [if_neg (by omega), if_neg (by unfold sgl at ens; omega),
        if_neg (by unfold sgl at ens; omega)] at hR
      have ei : iA (cNa N) (posOf N s) = cntB (cNa N) (posOf N s) + 1 := by
        unfold iA; rw [if_neg ens]
      rw [ei, hR.2.2.2, eo]
  · -- start
    show (bothD N bc hasPre).startA = remAf N bc 3
    rw [bothD_startA]
    unfold remAf
    rw [hS.posSA]
  · -- isStart
    intro s hv h0
    obtain ⟨hs, h1, h2, hp, hg, hge, hlt, hz0⟩ := live s hv
    show ((remAf N bc s == (bothD N bc hasPre).startU) ||
      (remAf N bc s == (bothD N bc hasPre).startA)) = true ↔ s = 3
    have eU : (bothD N bc hasPre).startU = cntB (cNa N) (cNa N - 2) * stB N bc := by
      rw [bothD_startU]
      show (remFoldB (cNa N) (stB N bc) N.size).1.getD _ 0 = _
      rw [(remFoldB_spec h4 (stB N bc) N.size).valU _ (by omega)]
      unfold vU; rw [if_neg (by omega)]
    have eA : (bothD N bc hasPre).startA = cntB (cNa N) (cNa N - 1) * stB N bc := by
      rw [bothD_startA]
      show (remFoldB (cNa N) (stB N bc) N.size).2.1.getD _ 0 = _
      rw [(remFoldB_spec h4 (stB N bc) N.size).valA _ (by omega)]
      unfold vA iA; rw [if_neg (by omega), if_pos (Or.inr (Or.inr (by omega)))]
    have hsu2 := cntB_succ h4 (cNa N - 2)
    rw [if_pos (Or.inr (Or.inl (by omega)))] at hsu2
    have hsa2 := cntB_succ h4 (cNa N - 1)
    rw [if_pos (Or.inr (Or.inr (by omega)))] at hsa2
    rw [eU, eA, hg, stB_eq]
    simp only [Bool.or_eq_true, beq_iff_eq]
    constructor
    · rintro (e | e)
      · have e' := mul_pow_inj e
        have := slot_inj h4 hge hlt (by omega : cntB (cNa N) (cNa N - 2) ≤ _) (by omega)
        rw [← hS.posSU] at this
        exact absurd (posOf_inj hS hs (by omega) this) h2
      · have e' := mul_pow_inj e
        have := slot_inj h4 hge hlt (by omega : cntB (cNa N) (cNa N - 1) ≤ _) (by omega)
        rw [← hS.posSA] at this
        exact posOf_inj hS hs (by omega) this
    · intro e; subst e
      right
      have ep : posOf N 3 = cNa N - 1 := hS.posSA
      rw [ep]
      unfold iA; rw [if_pos (Or.inr (Or.inr (by omega)))]

end


/-! ## all start kinds -/

theorem sim_of_FSf {k : MatchKind} {Q : PatSet UInt8} {L : List (List UInt8)} {N : CNfa}
    (h : FSf k Q L N) (sk : StartKind) (bc hasPre anch : Bool) (hs : supportsAnch sk anch) :
    Sim N L hasPre (buildDfaIds N sk bc hasPre) anch (gOf N sk bc anch) := by
  cases sk with
  | unanchored =>
    have := supportsAnch_unanchored hs
    subst this
    rw [buildDfaIds_unanchored]
    exact one_sim_f h bc false hasPre
  | anchored =>
    have := supportsAnch_anchored hs
    subst this
    rw [buildDfaIds_anchored]
    exact one_sim_f h bc true hasPre
  | both =>
    rw [buildDfaIds_both]
    cases anch
    · exact both_simU_f h bc hasPre
    · exact both_simA_f h bc hasPre


end AcVerif.L1dIdsFoldP
