import AcVerif.Proofs.Leftmost
/-!
# Leftmost semantics: anchored loop invariant, start state, kept-set facts
-/
namespace AcVerif.LmP
open AcVerif
set_option linter.unusedSectionVars false
variable {α : Type} [DecidableEq α]

/-! ## D: the anchored run -/

theorem anch_no_new {Q : PatSet α} {s : Nat} {w : List α} {c : α} {mat : Option Mat}
    (hn : ∀ q ∈ Q, q.1 ≠ w ++ [c]) (hb : BestIn Q s true w mat) :
    BestIn Q s true (w ++ [c]) mat := by
  have key : ∀ q st, st = 0 → OccIn Q (w ++ [c]) q st → OccIn Q w q st := by
    intro q st h0 ho
    rcases ho.old_or_new with h1 | h1
    · exact h1
    · have := ho.eq_drop h1
      subst h0
      exact absurd (by simpa using this) (hn q ho.1)
  cases mat with
  | none =>
    intro q st h0 ho
    exact hb q st h0 (key q st (h0 rfl) ho)
  | some m =>
    obtain ⟨q, st, h0, ho, hm, hbest⟩ := hb
    refine ⟨q, st, h0, ho.append _, hm, ?_⟩
    intro q' st' h0' ho'
    exact hbest q' st' h0' (key q' st' (h0' rfl) ho')

theorem anch_new {Q : PatSet α} {s : Nat} {w : List α} {q : List α × Nat} (hq : q ∈ Q)
    (hqw : q.1 = w) (hleast : ∀ q' ∈ Q, q'.1 = w → q.2 ≤ q'.2) :
    BestIn Q s true w (some (matOf s q 0)) := by
  have ho : OccIn Q w q 0 := ⟨hq, Nat.zero_le _, by rw [hqw]; exact List.prefix_refl _⟩
  refine ⟨q, 0, fun _ => rfl, ho, rfl, ?_⟩
  intro q' st' h0' ho'
  have h0 := h0' rfl
  subst h0
  right
  refine ⟨rfl, ?_⟩
  have hl := ho'.len_le
  have hl2 : q.1.length = w.length := by rw [hqw]
  by_cases hlt : q'.1.length < q.1.length
  · exact Or.inl hlt
  · right
    refine ⟨by omega, ?_⟩
    have := ho'.eq_drop (by omega)
    exact hleast q' ho'.1 (by simpa using this)

theorem anch_dead {Q : PatSet α} {s : Nat} {w : List α} {c : α} {rest : List α}
    {mat : Option Mat} (hd : isPref Q (w ++ [c]) = false) (hb : BestIn Q s true w mat) :
    BestIn Q s true (w ++ c :: rest) mat := by
  have key : ∀ q st, st = 0 → OccIn Q (w ++ c :: rest) q st → OccIn Q w q st := by
    intro q st h0 ho
    by_cases hl : st + q.1.length ≤ w.length
    · exact ho.of_append hl
    · exfalso
      subst h0
      have hp := ho.2.2
      rw [List.append_cons] at hp
      simp only [List.drop_zero] at hp
      have : w ++ [c] <+: q.1 :=
        List.prefix_of_prefix_length_le (List.prefix_append _ _) hp
          (by simp only [List.length_append, List.length_singleton]; omega)
      have := isPref_of_prefix this (isPref_of_mem ho.1)
      rw [hd] at this
      exact absurd this (by simp)
  cases mat with
  | none =>
    intro q st h0 ho
    exact hb q st h0 (key q st (h0 rfl) ho)
  | some m =>
    obtain ⟨q, st, h0, ho, hm, hbest⟩ := hb
    refine ⟨q, st, h0, ho.append _, hm, ?_⟩
    intro q' st' h0' ho'
    exact hbest q' st' h0' (key q' st' (h0' rfl) ho')

/-- the anchored loop invariant -/
theorem findQ_anch {Q : PatSet α} (hI : IdsInc Q) {plen : Nat → Nat}
    (hpl : ∀ q ∈ Q, plen q.2 = q.1.length) (s : Nat) (earliest : Bool) (rest : List α) :
    ∀ (w : List α) (mat : Option Mat), BestIn Q s true w mat →
      OccOrNone Q s true (w ++ rest)
        (findQ Q plen s true earliest w (s + w.length) mat rest) ∧
      (earliest = false → BestIn Q s true (w ++ rest)
        (findQ Q plen s true earliest w (s + w.length) mat rest)) := by
  induction rest with
  | nil =>
    intro w mat hb
    simp only [findQ, List.append_nil]
    exact ⟨hb.occOrNone, fun _ => hb⟩
  | cons c rest ih =>
    intro w mat hb
    have e1 : s + w.length + 1 = s + (w ++ [c]).length := by
      simp only [List.length_append, List.length_singleton]; omega
    simp only [findQ, stepQ, if_true, stepAnch, true_and]
    by_cases hp : isPref Q (w ++ [c]) = true
    · simp only [hp, if_true]
      cases ho : outLm Q (w ++ [c]) with
      | nil =>
        simp only
        have hn : ∀ q ∈ Q, q.1 ≠ w ++ [c] := by
          intro q hq he
          obtain ⟨st0, hst0, _⟩ := outLm_nil ho 0 (Nat.zero_le _) q hq (by simpa using he)
          omega
        rw [List.append_cons, e1]
        exact ih _ _ (anch_no_new hn hb)
      | cons pid t =>
        simp only
        obtain ⟨k, hk, q, hq, hqk, hqp, hleast, hmin, _⟩ := outLm_cons hI ho
        have hplen : plen pid = (w ++ [c]).length - k := by
          have := hpl q hq
          rw [hqp] at this
          rw [this, hqk, List.length_drop]
        by_cases hk0 : k = 0
        · subst hk0
          simp only [List.drop_zero] at hqk hleast
          have hcond : ¬ (s < s + w.length + 1 - plen pid) := by
            rw [hplen]; simp only [List.length_append, List.length_singleton]; omega
          have hm : (⟨pid, s + w.length + 1 - plen pid, s + w.length + 1⟩ : Mat) =
              matOf s q 0 := by
            simp only [matOf, hplen, hqp, hqk, List.length_append, List.length_singleton,
              Mat.mk.injEq, true_and]
            omega
          have hbn : BestIn Q s true (w ++ [c]) (some (matOf s q 0)) :=
            anch_new hq hqk (by intro q' hq' he; rw [hqp]; exact hleast q' hq' he)
          simp only [hcond, if_false, hm]
          cases earliest with
          | true =>
            simp only [if_true]
            rw [List.append_cons]
            exact ⟨hbn.occOrNone.append _, by simp⟩
          | false =>
            simp only [Bool.false_eq_true, if_false]
            rw [List.append_cons, e1]
            have := ih _ _ hbn
            exact ⟨this.1, fun _ => this.2 rfl⟩
        · have hcond : s < s + w.length + 1 - plen pid := by
            rw [hplen]; simp only [List.length_append, List.length_singleton] at hk ⊢; omega
          have hn : ∀ q ∈ Q, q.1 ≠ w ++ [c] := by
            intro q' hq' he
            exact hmin 0 (by omega) q' hq' (by simpa using he)
          simp only [hcond, if_true]
          rw [List.append_cons, e1]
          exact ih _ _ (anch_no_new hn hb)
    · have hp' : isPref Q (w ++ [c]) = false := by simpa using hp
      simp only [hp', Bool.false_eq_true, if_false]
      have := anch_dead (rest := rest) hp' hb
      exact ⟨this.occOrNone, fun _ => this⟩

/-! ## The start state -/

/-- the initial `mat` of `findImp` on the ideal leftmost automaton -/
def mat0Q (Q : PatSet α) (plen : Nat → Nat) (s : Nat) : Option Mat :=
  match outLm Q [] with
  | [] => none
  | pid :: _ => some ⟨pid, s - plen pid, s⟩

theorem best_init {Q : PatSet α} (hI : IdsInc Q) {plen : Nat → Nat}
    (hpl : ∀ q ∈ Q, plen q.2 = q.1.length) (s : Nat) (anch : Bool) :
    BestIn Q s anch [] (mat0Q Q plen s) := by
  unfold mat0Q
  cases ho : outLm Q [] with
  | nil =>
    simp only
    intro q st _ hoq
    have hl := hoq.len_le
    simp only [List.length_nil] at hl
    have hq0 : q.1 = [] := List.eq_nil_of_length_eq_zero (by omega)
    obtain ⟨st0, hst0, _⟩ := outLm_nil ho 0 (Nat.zero_le _) q hoq.1 (by simpa using hq0)
    omega
  | cons pid t =>
    simp only
    obtain ⟨k, hk, q, hq, hqk, hqp, hleast, _, _⟩ := outLm_cons hI ho
    simp only [List.drop_nil] at hqk hleast
    have hplen : plen pid = 0 := by
      have := hpl q hq
      rw [hqp] at this
      rw [this, hqk]; rfl
    have ho : OccIn Q [] q 0 := ⟨hq, Nat.zero_le _, by rw [hqk]; exact List.prefix_refl _⟩
    refine ⟨q, 0, fun _ => rfl, ho, ?_, ?_⟩
    · simp only [matOf, hplen, hqp, hqk, List.length_nil, Mat.mk.injEq, true_and]; omega
    · intro q' st' _ ho'
      have hl := ho'.len_le
      simp only [List.length_nil] at hl
      have hq0 : q'.1 = [] := List.eq_nil_of_length_eq_zero (by omega)
      right
      refine ⟨by omega, Or.inr ⟨by rw [hqk, hq0], ?_⟩⟩
      have := hleast q' ho'.1 hq0
      omega

/-! ## The kept sets -/

theorem idsInc_zipIdx (P : List (List α)) (n : Nat) : IdsInc (P.zipIdx n) := by
  induction P generalizing n with
  | nil => exact List.Pairwise.nil
  | cons x xs ih =>
    rw [List.zipIdx_cons]
    refine List.pairwise_cons.2 ⟨?_, ih (n + 1)⟩
    intro b hb
    have := (List.mem_zipIdx (x := b.1) (i := b.2) hb).1
    simp only; omega

theorem idsInc_patSet (k : MatchKind) (P : List (List α)) : IdsInc (patSet k P) := by
  cases k <;> simp only [patSet, enumPats]
  · exact idsInc_zipIdx P 0
  · exact List.Pairwise.filter _ (idsInc_zipIdx P 0)
  · exact idsInc_zipIdx P 0

theorem mem_patSet {k : MatchKind} {P : List (List α)} {q : List α × Nat} (h : q ∈ patSet k P) :
    P[q.2]? = some q.1 := by
  cases k <;> simp only [patSet, enumPats] at h
  · exact List.mem_zipIdx_iff_getElem?.1 h
  · exact List.mem_zipIdx_iff_getElem?.1 (List.mem_filter.1 h).1
  · exact List.mem_zipIdx_iff_getElem?.1 h

theorem plen_patSet {k : MatchKind} {P : List (List α)} :
    ∀ q ∈ patSet k P, (fun pid => (P.getD pid []).length) q.2 = q.1.length := by
  intro q hq
  have := mem_patSet hq
  simp [List.getD, this]

end AcVerif.LmP
