import AcVerif.Proofs.NfaIdsBase
/-!
# L1c-ids proofs, part 5: `Remapper::remap` computes the inverse of the swap permutation

`Remapper::swap` applies every swap of `shuffle` to its own `map` vector (initially the identity),
so before `Remapper::remap` that vector is `order` (`order[newpos] = old id`).  The loop of
`Remapper::remap` (`remapperMap`) replaces entry `i` – unless `order[i] = i` – by the *index* of
the entry that holds `i`, found by following `order` from `order[i]`.  Because `order` is a
permutation (`ShufOK`), the chain comes back to `i` within `state_len` steps (pigeonhole:
`List.Nodup.length_le_of_subset`), so the result is the inverse table `pos` (`shufflePos`), which
is what `buildNfaIds` maps every stored id through.
-/
namespace AcVerif.L1cIdsP
open AcVerif AcVerif.CNfa AcVerif.L1cP AcVerif.L1dP AcVerif.L1eP AcVerif.L1dIdsP

/-- `t`-fold application of `o` -/
def iter (o : Array Nat) : Nat → Nat → Nat
  | 0, x => x
  | t + 1, x => iter o t (o.getD x 0)

theorem iter_succ' (o : Array Nat) : ∀ (t x : Nat), iter o (t + 1) x = o.getD (iter o t x) 0
  | 0, _ => rfl
  | t + 1, x => by
    show iter o (t + 1) (o.getD x 0) = o.getD (iter o t (o.getD x 0)) 0
    exact iter_succ' o t _

theorem iter_add (o : Array Nat) : ∀ (a b x : Nat), iter o (a + b) x = iter o b (iter o a x)
  | 0, b, x => by rw [Nat.zero_add]; rfl
  | a + 1, b, x => by
    rw [show a + 1 + b = (a + b) + 1 by omega]
    show iter o (a + b) (o.getD x 0) = iter o b (iter o a (o.getD x 0))
    exact iter_add o a b _

/-! ## the chase -/

/-- if the chain from `x` meets an entry holding `i` within `fuel` steps, the chase returns the
index of such an entry -/
theorem chase_spec (o : Array Nat) (i : Nat) :
    ∀ (fuel x : Nat), (∃ t, t < fuel ∧ o.getD (iter o t x) 0 = i) →
      o.getD (remapperChase o i fuel x) 0 = i
  | 0, _, ⟨t, ht, _⟩ => absurd ht (Nat.not_lt_zero _)
  | fuel + 1, x, ⟨t, ht, e⟩ => by
    rw [remapperChase]
    by_cases hx : o.getD x 0 = i
    · have : (o.getD x 0 == i) = true := by simpa using hx
      simp only [this, if_true]
      exact hx
    · have : (o.getD x 0 == i) = false := by simpa using hx
      simp only [this, Bool.false_eq_true, if_false]
      cases t with
      | zero => exact absurd e hx
      | succ t => exact chase_spec o i fuel _ ⟨t, by omega, e⟩

theorem chase_lt (o : Array Nat) (i sz : Nat) (hlt : ∀ j, j < sz → o.getD j 0 < sz) :
    ∀ (fuel x : Nat), x < sz → remapperChase o i fuel x < sz
  | 0, _, hx => hx
  | fuel + 1, x, hx => by
    rw [remapperChase]
    by_cases h : (o.getD x 0 == i) = true
    · simp only [h, if_true]; exact hx
    · simp only [h, Bool.false_eq_true, if_false]
      exact chase_lt o i sz hlt fuel _ (hlt x hx)

/-! ## every orbit of a permutation closes within `sz` steps -/

section
variable {o : Array Nat} {sz : Nat} (hlt : ∀ j, j < sz → o.getD j 0 < sz)
  (hinj : ∀ j k, j < sz → k < sz → o.getD j 0 = o.getD k 0 → j = k)
include hlt

theorem iter_lt : ∀ (t x : Nat), x < sz → iter o t x < sz
  | 0, _, hx => hx
  | t + 1, x, hx => iter_lt t _ (hlt x hx)

include hinj

theorem iter_inj : ∀ (t x y : Nat), x < sz → y < sz → iter o t x = iter o t y → x = y
  | 0, _, _, _, _, e => e
  | t + 1, x, y, hx, hy, e =>
    hinj x y hx hy (iter_inj t _ _ (hlt x hx) (hlt y hy) e)

theorem orbit_closes {i : Nat} (hi : i < sz) : ∃ c, 1 ≤ c ∧ c ≤ sz ∧ iter o c i = i := by
  apply Classical.byContradiction
  intro hno
  have hne : ∀ a b, a < b → b ≤ sz → iter o a i ≠ iter o b i := by
    intro a b hab hb e
    have e' : iter o a i = iter o a (iter o (b - a) i) := by
      rw [← iter_add, Nat.sub_add_cancel (Nat.le_of_lt hab)]; exact e
    have := iter_inj hlt hinj a _ _ hi (iter_lt hlt _ _ hi) e'
    exact hno ⟨b - a, by omega, by omega, this.symm⟩
  have hnd : ((List.range (sz + 1)).map fun t => iter o t i).Nodup := by
    unfold List.Nodup
    rw [List.pairwise_map]
    refine List.Pairwise.imp_of_mem ?_ (List.pairwise_lt_range (n := sz + 1))
    intro a b _ hb hab
    exact hne a b hab (by have := List.mem_range.1 hb; omega)
  have hsub : ((List.range (sz + 1)).map fun t => iter o t i) ⊆ List.range sz := by
    intro x hx
    obtain ⟨t, _, rfl⟩ := List.mem_map.1 hx
    exact List.mem_range.2 (iter_lt hlt t i hi)
  have := hnd.length_le_of_subset hsub
  simp at this
  omega

end

/-! ## the fold -/

/-- one iteration of a loop that overwrites entry `i` unless `c i` -/
def condStep (c : Nat → Bool) (v : Nat → Nat) (m : Array Nat) (i : Nat) : Array Nat :=
  if c i = true then m else m.set! i (v i)

theorem condSet_fold (c : Nat → Bool) (v : Nat → Nat) (a : Array Nat) :
    ∀ k, Array.size ((List.range k).foldl (condStep c v) a) = a.size ∧
      ∀ j, Array.getD ((List.range k).foldl (condStep c v) a) j 0 =
        if j < k ∧ j < a.size ∧ c j = false then v j else a.getD j 0 := by
  intro k
  induction k with
  | zero => exact ⟨rfl, fun j => by simp⟩
  | succ k ih =>
    obtain ⟨ih1, ih2⟩ := ih
    rw [List.range_succ, List.foldl_append]
    generalize (List.range k).foldl (condStep c v) a = m at ih1 ih2
    show Array.size (condStep c v m k) = _ ∧ ∀ j, Array.getD (condStep c v m k) j 0 = _
    unfold condStep
    cases hc : c k
    · simp only [Bool.false_eq_true, if_false]
      refine ⟨by simpa [Array.set!] using ih1, ?_⟩
      intro j
      rw [getD_set!, ih1, ih2 j]
      by_cases e : k = j
      · subst e
        by_cases hk : k < a.size
        · rw [if_pos ⟨rfl, hk⟩, if_pos ⟨by omega, hk, hc⟩]
        · rw [if_neg (fun h => hk h.2), if_neg (fun h => hk h.2.1), if_neg (fun h => hk h.2.1)]
      · rw [if_neg (fun h => e h.1)]
        by_cases hj : j < k ∧ j < a.size ∧ c j = false
        · rw [if_pos hj, if_pos ⟨by omega, hj.2⟩]
        · rw [if_neg hj, if_neg]
          intro h
          exact hj ⟨by omega, h.2⟩
    · simp only [if_true]
      refine ⟨ih1, ?_⟩
      intro j
      rw [ih2 j]
      by_cases hj : j < k ∧ j < a.size ∧ c j = false
      · rw [if_pos hj, if_pos ⟨by omega, hj.2⟩]
      · rw [if_neg hj, if_neg]
        intro h
        by_cases e : j = k
        · subst e; rw [hc] at h; cases h.2.2
        · exact hj ⟨by omega, h.2⟩

theorem remapperMap_eq (o : Array Nat) :
    remapperMap o = (List.range o.size).foldl
      (condStep (fun i => o.getD i 0 == i) (fun i => remapperChase o i o.size (o.getD i 0))) o :=
  rfl

theorem remapperMap_size (o : Array Nat) : (remapperMap o).size = o.size := by
  rw [remapperMap_eq]
  exact (condSet_fold _ _ o o.size).1

theorem remapperMap_getD (o : Array Nat) {j : Nat} (hj : j < o.size) :
    (remapperMap o).getD j 0 =
      if o.getD j 0 = j then o.getD j 0 else remapperChase o j o.size (o.getD j 0) := by
  rw [remapperMap_eq, (condSet_fold _ _ o o.size).2 j]
  by_cases e : o.getD j 0 = j
  · rw [if_pos e, if_neg]
    intro h
    have : (o.getD j 0 == j) = true := by simpa using e
    rw [this] at h; cases h.2.2
  · rw [if_neg e, if_pos]
    exact ⟨hj, hj, by simpa using e⟩

/-! ## the result -/

/-- a permutation `o` of `0 .. sz-1` with left inverse table `p`: the loop turns `o` into `p` -/
theorem remapperMap_inv {o p : Array Nat} {sz : Nat} (hso : o.size = sz) (hsp : p.size = sz)
    (hlt : ∀ j, j < sz → o.getD j 0 < sz)
    (hpo : ∀ j, j < sz → p.getD (o.getD j 0) 0 = j) : remapperMap o = p := by
  have hinj : ∀ j k, j < sz → k < sz → o.getD j 0 = o.getD k 0 → j = k := by
    intro j k hj hk e
    have a := hpo j hj
    have b := hpo k hk
    rw [e, b] at a
    exact a.symm
  have hall : ∀ j, j < sz → (remapperMap o).getD j 0 = p.getD j 0 := by
    intro j hj
    rw [remapperMap_getD _ (by rw [hso]; exact hj)]
    by_cases e : o.getD j 0 = j
    · rw [if_pos e]
      have := hpo j hj
      rw [e] at this
      rw [e, this]
    · rw [if_neg e, hso]
      -- the orbit of `j` closes after `c ≥ 2` steps
      obtain ⟨c, hc1, hc2, hc⟩ := orbit_closes hlt hinj hj
      have hc' : 2 ≤ c := by
        cases c with
        | zero => omega
        | succ c =>
          cases c with
          | zero => exact absurd hc e
          | succ c => omega
      obtain ⟨t, rfl⟩ : ∃ t, c = t + 2 := ⟨c - 2, by omega⟩
      have hfound : o.getD (remapperChase o j sz (o.getD j 0)) 0 = j := by
        apply chase_spec
        refine ⟨t, by omega, ?_⟩
        rw [← iter_succ']
        exact hc
      have hr := chase_lt o j sz hlt sz _ (hlt j hj)
      have := hpo _ hr
      rw [hfound] at this
      exact this.symm
  have hsr : (remapperMap o).size = sz := by rw [remapperMap_size, hso]
  apply Array.ext
  · rw [hsr, hsp]
  · intro j h1 h2
    have hj : j < sz := by omega
    have := hall j hj
    simpa [Array.getD_eq_getD_getElem?, h1, h2] using this

/-- **`Remapper::remap` inverts the swap permutation**: after the cycle-chasing loop the map is the
inverse table `pos` -/
theorem remapperMap_order {N : CNfa} (hS : ShufOK N) : remapperMap (cOrder N) = cPos N :=
  remapperMap_inv hS.size_order hS.size_pos hS.order_lt hS.pos_order

/-- … so the map that `NFA::remap` is called with is the `pos` of `buildNfaIds` -/
theorem remapperMap_shuffle {N : CNfa} (h4 : 4 ≤ N.size) :
    remapperMap (shuffleOrder N).1 = shufflePos N (shuffleOrder N).1 :=
  remapperMap_order (shufOK N h4)

end AcVerif.L1cIdsP
