import AcVerif.Proofs.ContigWrite
/-!
# L1e proofs, part 2: generic fold lemmas (prefix sums, offsets table, concatenation)
-/
namespace AcVerif.L1eP
open AcVerif AcVerif.CNfa AcVerif.L1cP AcVerif.L1dP

/-- prefix sums -/
def psum (g : Nat → Nat) : Nat → Nat
  | 0 => 0
  | k + 1 => psum g k + g k

theorem psum_mono (g : Nat → Nat) {i k : Nat} (h : i ≤ k) : psum g i ≤ psum g k := by
  induction k with
  | zero =>
    have : i = 0 := by omega
    subst this; exact Nat.le_refl _
  | succ k ih =>
    by_cases e : i = k + 1
    · subst e; exact Nat.le_refl _
    · have := ih (by omega)
      simp only [psum]; omega

theorem psum_succ_le (g : Nat → Nat) {i k : Nat} (h : i < k) : psum g i + g i ≤ psum g k :=
  psum_mono g (show i + 1 ≤ k from h)

theorem psum_congr (g g' : Nat → Nat) (k : Nat) (h : ∀ i, i < k → g i = g' i) :
    psum g k = psum g' k := by
  induction k with
  | zero => rfl
  | succ k ih =>
    simp only [psum]
    rw [ih (fun i hi => h i (by omega)), h k (by omega)]

/-- strictly increasing where the summands are positive -/
theorem psum_lt (g : Nat → Nat) {i k : Nat} (h : i < k) (hpos : 0 < g i) : psum g i < psum g k := by
  have := psum_succ_le g h
  omega

theorem psum_ge (g : Nat → Nat) (k : Nat) (hpos : ∀ i, i < k → i ≠ 1 → 1 ≤ g i) :
    k ≤ psum g k + 1 := by
  induction k with
  | zero => omega
  | succ k ih =>
    have := ih (fun i hi h1 => hpos i (by omega) h1)
    simp only [psum]
    by_cases e : k = 1
    · subst e
      have := hpos 0 (by omega) (by omega)
      simp only [psum] at *
      omega
    · have := hpos k (by omega) e
      omega

/-! ## the offsets table -/

theorem offs_fold (g : Nat → Nat) (k : Nat) :
    ((List.range k).foldl (fun (acc : Array Nat × Nat) i =>
      if i == FAIL then (acc.1.push FAIL, acc.2) else (acc.1.push acc.2, acc.2 + g i)) (#[], 0)) =
    (((List.range k).map fun i => if i == FAIL then FAIL else psum (fun i => if i == FAIL then 0 else g i) i).toArray,
      psum (fun i => if i == FAIL then 0 else g i) k) := by
  induction k with
  | zero => rfl
  | succ k ih =>
    rw [List.range_succ, List.foldl_append, ih]
    simp only [List.foldl_cons, List.foldl_nil, List.map_append, List.map_cons, List.map_nil, psum]
    by_cases e : (k == FAIL) = true
    · simp only [e, if_true, Nat.add_zero]
      rw [← List.push_toArray]
    · simp only [e, Bool.false_eq_true, if_false]
      rw [← List.push_toArray]

theorem getD_map_range_list (f : Nat → Nat) (k i d : Nat) (h : i < k) :
    ((List.range k).map f).toArray.getD i d = f i := by
  simp [Array.getD_eq_getD_getElem?, h]

theorem getD_map_range_list_ge (f : Nat → Nat) (k i d : Nat) (h : k ≤ i) :
    ((List.range k).map f).toArray.getD i d = d := by
  simp [Array.getD_eq_getD_getElem?, h]

/-! ## the concatenation -/

theorem repr_fold (F : Nat → List Nat) (k : Nat) :
    (List.range k).foldl (fun (r : Array Nat) i => if i == FAIL then r else r ++ (F i).toArray) #[] =
      ((List.range k).flatMap fun i => if i == FAIL then [] else F i).toArray := by
  induction k with
  | zero => rfl
  | succ k ih =>
    rw [List.range_succ, List.foldl_append, ih]
    simp only [List.foldl_cons, List.foldl_nil, List.flatMap_append, List.flatMap_cons,
      List.flatMap_nil, List.append_nil]
    by_cases e : (k == FAIL) = true
    · simp only [e, if_true, List.append_nil]
    · simp only [e, Bool.false_eq_true, if_false]
      simp

theorem flat_length (F : Nat → List Nat) (k : Nat) :
    ((List.range k).flatMap F).length = psum (fun i => (F i).length) k := by
  induction k with
  | zero => rfl
  | succ k ih =>
    rw [List.range_succ, List.flatMap_append, List.length_append, ih]
    simp [psum]

theorem flat_getD (F : Nat → List Nat) (k : Nat) (d : Nat) :
    ∀ i j, i < k → j < (F i).length →
      ((List.range k).flatMap F).getD (psum (fun i => (F i).length) i + j) d = (F i).getD j d := by
  induction k with
  | zero => intro i j hi; omega
  | succ k ih =>
    intro i j hi hj
    rw [List.range_succ, List.flatMap_append]
    simp only [List.flatMap_cons, List.flatMap_nil, List.append_nil]
    by_cases e : i = k
    · subst e
      rw [List.getD_eq_getElem?_getD, List.getElem?_append_right (by rw [flat_length]; omega),
        flat_length, Nat.add_sub_cancel_left, ← List.getD_eq_getElem?_getD]
    · have hik : i < k := by omega
      have := psum_succ_le (fun i => (F i).length) hik
      rw [List.getD_eq_getElem?_getD, List.getElem?_append_left (by rw [flat_length]; omega),
        ← List.getD_eq_getElem?_getD]
      exact ih i j hik hj

end AcVerif.L1eP
