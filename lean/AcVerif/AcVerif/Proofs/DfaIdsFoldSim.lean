import AcVerif.Proofs.DfaIdsAll
import AcVerif.Proofs.ContigFoldSim
import AcVerif.Proofs.DfaFoldBothSim
/-!
# L1d-ids (fold) proofs: the stored DFA (`buildDfaIds`) built from the NFA compiled with
`ascii_case_insensitive`

Port of the `FS`-dependent parts of `Proofs/DfaIdsSim.lean`, `DfaIdsOne.lean`,
`DfaIdsBothSim.lean`, `DfaIdsAll.lean` to `FSf`.  The interface `Sim` (what an id map must
satisfy), the closed forms of the remap tables and rows, the flag lemmas `posFlag_*`, `ShufOK` do
not depend on the compiler and are re-used unchanged.
-/
namespace AcVerif.L1dIdsFoldP
open AcVerif AcVerif.CNfa AcVerif.L1cP AcVerif.L1dP AcVerif.L1eP AcVerif.L1dIdsP
open AcVerif.L1cFoldP AcVerif.L1dFoldP AcVerif.L1eFoldP

theorem _root_.AcVerif.L1eP.LvA.ne_other_f {k : MatchKind} {Q : PatSet UInt8} {L : List (List UInt8)} {N : CNfa}
    (h : FSf k Q L N) {anch : Bool} {s : Nat} (hv : LvA L anch s) :
    (s == SU || s == SA) = (s == startOf anch) := by
  cases anch
  · have := (VU.ne_sa_f h hv).1
    have e : (s == SA) = false := by simpa using this
    rw [e, Bool.or_false]; rfl
  · have := (VA.ne_su_f h hv).1
    have e : (s == SU) = false := by simpa using this
    rw [e, Bool.false_or]; rfl

section
variable {k : MatchKind} {Q : PatSet UInt8} {L : List (List UInt8)} {N : CNfa}
variable {hasPre : Bool} {D : DfaI} {anch : Bool} {g : Nat → Nat}

/-- observations agree at live states -/
theorem _root_.AcVerif.L1dIdsP.Sim.obs_f (hS : Sim N L hasPre D anch g) (h : FSf k Q L N) (P : List (List UInt8)) {s : Nat}
    (hv : LvA L anch s) :
    (D.toAut k P hasPre).obs false (g s) = (N.toAut k P hasPre).obs false s := by
  have e1 := hS.isSpecial s hv
  have e3 := hS.isMatch s hv
  have e2 : D.isDead (g s) = (s == DEAD) := by
    show (g s == 0) = (s == 0)
    rw [Bool.eq_iff_iff]
    simp only [beq_iff_eq]
    exact hS.dead s hv
  have e4 : (if D.isMatch (g s) = true then D.matchList (g s) else []) = (N.getD s {}).matches_ := by
    by_cases hc : D.isMatch (g s) = true
    · rw [if_pos hc, matchList_of_some (hS.mlist s hv hc)]
    · rw [if_neg hc]
      rw [e3] at hc
      simp only [Bool.and_eq_true, bne_iff_ne, ne_eq, not_and, Bool.not_eq_true] at hc
      by_cases e0 : s = DEAD
      · subst e0; rw [h.mats_dead]
      · exact (mats_eq_nil_of_not_match (hc e0)).symm
  show Obs.mk _ _ _ _ = Obs.mk _ _ _ _
  simp only [DfaI.toAut, CNfa.toAut, Bool.false_eq_true, if_false]
  rw [e1, e2, e3] at *
  rw [e4]

end

/-- the run of the stored DFA is the image of the NFA run -/
theorem Sim_run_f {k : MatchKind} {P : List (List UInt8)} {hasPre : Bool} {L : List (List UInt8)}
    (hFS : FSf k (patSet k (P.map (·.map foldByte))) L (CNfa.compile k true P)) {D : DfaI} {anch : Bool} {g : Nat → Nat}
    (hS : Sim (CNfa.compile k true P) L hasPre D anch g) :
    ∀ (w : List UInt8) (s : Nat) (q : St UInt8), Rel L anch s q →
      ∃ q', Rel L anch (((CNfa.compile k true P).toAut k P hasPre).runFrom anch s w) q' ∧
        (D.toAut k P hasPre).runFrom anch (g s) w =
          g (((CNfa.compile k true P).toAut k P hasPre).runFrom anch s w)
  | [], _, q, hr => ⟨q, hr, rfl⟩
  | c :: w, s, _, hr => by
    have hstep := hS.step s (LvA_of_Rel hr) c
    obtain ⟨q', h1, h2⟩ := Sim_run_f hFS hS w _ _ (Rel_step_f hFS anch hr c)
    refine ⟨q', h1, ?_⟩
    show Aut.runFrom _ anch (D.next (g s) c) w = _
    rw [hstep]
    exact h2


theorem _root_.AcVerif.L1dIdsP.Sim.run_f {k : MatchKind} {P : List (List UInt8)} {hasPre : Bool}
    {L : List (List UInt8)} {D : DfaI} {anch : Bool} {g : Nat → Nat}
    (hS : Sim (CNfa.compile k true P) L hasPre D anch g)
    (hFS : FSf k (patSet k (P.map (·.map foldByte))) L (CNfa.compile k true P))
    (w : List UInt8) (s : Nat) (q : St UInt8) (hr : Rel L anch s q) :
    ∃ q', Rel L anch (((CNfa.compile k true P).toAut k P hasPre).runFrom anch s w) q' ∧
      (D.toAut k P hasPre).runFrom anch (g s) w =
        g (((CNfa.compile k true P).toAut k P hasPre).runFrom anch s w) :=
  Sim_run_f hFS hS w s q hr

/-! ## one start kind -/

section
variable {k : MatchKind} {Q : PatSet UInt8} {L : List (List UInt8)} {N : CNfa}

theorem one_sim_f (h : FSf k Q L N) (bc anch hasPre : Bool) :
    Sim N L hasPre (oneD N bc anch hasPre) anch (gOne N bc) := by
  have hS := shufOK N h.four_le_size
  have h4 := hS.na_ge
  have h5 := hS.na_le
  have hmm := FSf_isMatch_SU_SA h
  have hC := classOK_clsOf N bc
  -- facts about a live state
  have live : ∀ s, LvA L anch s → s < N.size ∧ s ≠ 1 ∧ posOf N s < N.size ∧ posOf N s ≠ 1 := by
    intro s hv
    have hs := hv.lv.lt_size_f h
    have h1 := hv.lv.ne_fail_f h
    exact ⟨hs, h1, hS.pos_lt s hs, posOf_ne_one hS hs h1⟩
  refine ⟨?_, ?_, ?_, ?_, ?_, ?_, ?_, ?_, ?_, ?_⟩
  · -- step
    intro s hv b
    obtain ⟨hs, h1, hp, hp1⟩ := live s hv
    show (oneD N bc anch hasPre).trans.getD (gOne N bc s + clsOf N bc b) 0 = _
    rw [oneD_trans, gOne_eq, flatTable_getD _ _ _ hp (cls_lt_stride N bc b)]
    unfold oneRows
    rw [getD_map_range _ _ _ _ hp]
    have e1 : (posOf N s == FAIL) = false := by simpa [FAIL] using hp1
    simp only [e1, Bool.false_eq_true, if_false]
    have eo : (cOrder N).getD (posOf N s) 0 = s := hS.order_pos s hs
    rw [eo, getD_map' _ _ 0 0 (by rw [dfaRow_size]; exact hC.lt b)]
    cases anch
    · rw [rowU_spec_f h hC hv b 0]; rfl
    · rw [rowA_spec_f h hC hv b 0]; rfl
  · -- idx
    intro s hv
    obtain ⟨hs, h1, hp, hp1⟩ := live s hv
    exact ⟨posOf N s, hp, gOne_eq N bc s⟩
  · intro b; exact cls_lt_stride N bc b
  · rw [oneD_trans, flatTable_size]; rfl
  · -- dead
    intro s hv
    obtain ⟨hs, h1, hp, hp1⟩ := live s hv
    rw [gOne_eq, mul_pow_eq_zero_iff]
    exact posOf_zero_iff hS hs
  · -- isMatch
    intro s hv
    obtain ⟨hs, h1, hp, hp1⟩ := live s hv
    have hfm := posFlag_match hS hmm hs h1
    show (gOne N bc s != 0 && decide (gOne N bc s ≤ nfaMaxMatch N (cNa N) <<< s2Of N bc)) = _
    rw [Bool.eq_iff_iff]
    simp only [Bool.and_eq_true, bne_iff_ne, ne_eq, decide_eq_true_eq]
    rw [gOne_eq, Nat.shiftLeft_eq, mul_pow_le_iff, mul_pow_eq_zero_iff]
    exact hfm
  · -- isSpecial
    intro s hv
    obtain ⟨hs, h1, hp, hp1⟩ := live s hv
    have hfs := posFlag_special hS hasPre hmm hs h1
    show decide (gOne N bc s ≤ nfaMaxSpecial N (cNa N) hasPre <<< s2Of N bc) = _
    rw [Bool.eq_iff_iff]
    simp only [decide_eq_true_eq, Bool.or_eq_true, Bool.and_eq_true, beq_iff_eq]
    rw [gOne_eq, Nat.shiftLeft_eq, mul_pow_le_iff, hfs]
    constructor
    · rintro (e | e | e)
      · exact Or.inl (Or.inl e)
      · exact Or.inl (Or.inr e)
      · exact Or.inr e
    · rintro ((e | e) | e)
      · exact Or.inl e
      · exact Or.inr (Or.inl e)
      · exact Or.inr (Or.inr e)
  · -- mlist
    intro s hv hm
    obtain ⟨hs, h1, hp, hp1⟩ := live s hv
    have hfm := posFlag_match hS hmm hs h1
    have hm' : gOne N bc s ≠ 0 ∧ gOne N bc s ≤ nfaMaxMatch N (cNa N) <<< s2Of N bc := by
      have : (gOne N bc s != 0 && decide (gOne N bc s ≤ nfaMaxMatch N (cNa N) <<< s2Of N bc)) = true := hm
      simpa using this
    rw [gOne_eq, Nat.shiftLeft_eq, mul_pow_le_iff, Ne, mul_pow_eq_zero_iff] at hm'
    have hshr : gOne N bc s >>> s2Of N bc = posOf N s := by
      rw [gOne_eq]; exact shr_mul _ N bc
    show (if gOne N bc s >>> s2Of N bc < 2 then none
      else (oneD N bc anch hasPre).matches_[gOne N bc s >>> s2Of N bc - 2]?) = _
    rw [hshr, if_neg (by omega), oneD_matches]
    have hj : posOf N s - 2 < nfaMaxMatch N (cNa N) - 1 := by omega
    rw [getElem?_eq_some_getD _ [] (by rw [matchTable_size]; exact hj), matchTable_getD _ _ hj]
    have e2 : posOf N s - 2 + 2 = posOf N s := by omega
    rw [e2]
    unfold oneMs
    rw [getD_map_range _ _ _ _ hp]
    have eo : (cOrder N).getD (posOf N s) 0 = s := hS.order_pos s hs
    rw [eo]
  · -- start
    cases anch
    · show (cNa N - 2) <<< s2Of N bc = posOf N 2 <<< s2Of N bc
      unfold posOf; rw [hS.posSU]
    · show (cNa N - 1) <<< s2Of N bc = posOf N 3 <<< s2Of N bc
      unfold posOf; rw [hS.posSA]
  · -- isStart
    intro s hv h0
    obtain ⟨hs, h1, hp, hp1⟩ := live s hv
    have hg0 : gOne N bc s ≠ 0 := by
      rw [gOne_eq, Ne, mul_pow_eq_zero_iff]
      exact fun e => h0 ((posOf_zero_iff hS hs).1 e)
    cases anch
    · show (gOne N bc s == (cNa N - 2) <<< s2Of N bc || gOne N bc s == 0) = true ↔ s = 2
      simp only [Bool.or_eq_true, beq_iff_eq]
      rw [gOne_eq, Nat.shiftLeft_eq]
      constructor
      · rintro (e | e)
        · have := mul_pow_inj e
          rw [← hS.posSU] at this
          exact posOf_inj hS hs (by omega) this
        · rw [← gOne_eq] at e; exact absurd e hg0
      · intro e; subst e
        left; unfold posOf; rw [hS.posSU]
    · show (gOne N bc s == 0 || gOne N bc s == (cNa N - 1) <<< s2Of N bc) = true ↔ s = 3
      simp only [Bool.or_eq_true, beq_iff_eq]
      rw [gOne_eq, Nat.shiftLeft_eq]
      constructor
      · rintro (e | e)
        · rw [← gOne_eq] at e; exact absurd e hg0
        · have := mul_pow_inj e
          rw [← hS.posSA] at this
          exact posOf_inj hS hs (by omega) this
      · intro e; subst e
        right; unfold posOf; rw [hS.posSA]

end


end AcVerif.L1dIdsFoldP
