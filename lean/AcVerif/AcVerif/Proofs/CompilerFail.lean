import AcVerif.Proofs.CompilerStart
/-!
# L1c proofs, part 3: the failure phase, data side

`FI` says which trie nodes already carry their final failure link and match list (`pend` lists
the strings of the nodes not yet reached by the breadth-first traversal).
-/
namespace AcVerif.L1cP
open AcVerif AcVerif.CNfa AcVerif.LmP

/-- the failure link of the non-root node `u`, as a model state -/
def finalFail (k : MatchKind) (Q : PatSet UInt8) (u : List UInt8) : St UInt8 :=
  if (k != .std && blocked Q u (u.length - (failStd Q u).length)) = true then .dead
  else .at (failStd Q u)

/-! ## model-side unfolding of `Ideal.next` along a failure link -/

theorem next_goto (k : MatchKind) (Q : PatSet UInt8) (w : List UInt8) (b : UInt8)
    (hp : isPref Q (w ++ [b]) = true) : Ideal.next k Q false (.at w) b = .at (w ++ [b]) := by
  cases k <;> simp only [Ideal.next, Bool.false_eq_true, if_false, stepStd, stepLm, if_pos hp,
    lsp_of_isPref hp]

theorem next_root (k : MatchKind) (Q : PatSet UInt8) (b : UInt8) (hp : ¬ isPref Q [b] = true)
    (hk : k = .std ∨ idsOf Q [] = []) : Ideal.next k Q false (.at []) b = .at [] := by
  have hl : lsp Q ([] ++ [b]) = [] := by
    show lsp Q [b] = []
    simp only [lsp, if_neg hp]
  cases k with
  | std => simp only [Ideal.next, Bool.false_eq_true, if_false, stepStd, hl]
  | lf =>
    have h0 : idsOf Q [] = [] := by rcases hk with e | e; cases e; exact e
    simp only [Ideal.next, Bool.false_eq_true, if_false]
    rw [stepLm_root, if_neg hp, h0]; rfl
  | ll =>
    have h0 : idsOf Q [] = [] := by rcases hk with e | e; cases e; exact e
    simp only [Ideal.next, Bool.false_eq_true, if_false]
    rw [stepLm_root, if_neg hp, h0]; rfl

theorem next_unfold (k : MatchKind) (Q : PatSet UInt8) (a : UInt8) (t : List UInt8) (b : UInt8)
    (hp : ¬ isPref Q (a :: t ++ [b]) = true) :
    Ideal.next k Q false (.at (a :: t)) b =
      match finalFail k Q (a :: t) with
      | .dead => .dead
      | .at v => Ideal.next k Q false (.at v) b := by
  have h1 := (CostP.walk_fst k Q b (t.length + 1) (a :: t) (by simp)).symm
  rw [CostP.walk, if_neg hp, if_neg (List.cons_ne_nil _ _)] at h1
  have hv : failStd Q (a :: t) = lsp Q t := rfl
  have h2 := CostP.walk_fst k Q b t.length (lsp Q t) (lsp_length_le Q t)
  rw [h1]
  unfold finalFail
  simp only [hv]
  by_cases hb : (k != .std && blocked Q (a :: t) ((a :: t).length - (lsp Q t).length)) = true
  · rw [if_pos hb, if_pos hb]
  · rw [if_neg hb, if_neg hb]
    exact h2

theorem finalFail_len (k : MatchKind) (Q : PatSet UInt8) (a : UInt8) (t : List UInt8) :
    finalFail k Q (a :: t) = .dead ∨ finalFail k Q (a :: t) = .at (lsp Q t) := by
  unfold finalFail
  have hv : failStd Q (a :: t) = lsp Q t := rfl
  rw [hv]
  split
  · exact Or.inl rfl
  · exact Or.inr rfl

/-! ## the data invariant -/

structure FI (k : MatchKind) (Q : PatSet UInt8) (L : List (List UInt8)) (n0 n : CNfa)
    (pend : List (List UInt8)) : Prop where
  size : n.size = n0.size
  trans : ∀ sid, (n.getD sid {}).trans = (n0.getD sid {}).trans
  keep : ∀ sid, sid < 4 → n.getD sid {} = n0.getD sid {}
  todo : ∀ u, u ∈ L → u ∈ pend →
    (n.getD (nu L u) {}).fail = SU ∧ (n.getD (nu L u) {}).matches_ = idsOf Q u
  done : ∀ u, u ∈ L → u ∉ pend →
    (n.getD (nu L u) {}).fail = sidOf L (finalFail k Q u) ∧
      (n.getD (nu L u) {}).matches_ = Ideal.out k Q (.at u)

theorem out_nil (k : MatchKind) (Q : PatSet UInt8) : Ideal.out k Q (.at []) = idsOf Q [] := by
  cases k <;> simp only [Ideal.out]
  · exact outStd_nil Q
  · exact outLm_nil_eq Q
  · exact outLm_nil_eq Q

namespace FI
variable {k : MatchKind} {Q : PatSet UInt8} {L : List (List UInt8)} {n0 n : CNfa}
  {pend : List (List UInt8)}

theorem follow_eq0 (h : FI k Q L n0 n pend) (sid : Nat) (b : UInt8) :
    follow n sid b = follow n0 sid b := by
  rw [follow_eq, follow_eq, h.trans]

theorem init (hB : PB Q L n0) : FI k Q L n0 n0 L :=
  { size := rfl, trans := fun _ => rfl, keep := fun _ _ => rfl,
    todo := fun u hu _ => ⟨hB.fail u hu, hB.mats u (Or.inr hu)⟩,
    done := fun _ hu hn => absurd hu hn }

theorem mats_root (hB : PB Q L n0) (h : FI k Q L n0 n pend) :
    (n.getD SU {}).matches_ = Ideal.out k Q (.at []) := by
  rw [h.keep SU (by simp [SU]), out_nil]
  have := hB.mats [] (Or.inl rfl)
  rw [nu_nil] at this; exact this

theorem mats_dead (hB : PB Q L n0) (h : FI k Q L n0 n pend) : (n.getD DEAD {}).matches_ = [] := by
  rw [h.keep DEAD (by simp [DEAD])]; exact hB.mats_dead

/-- match list of a finished state, given as a model state -/
theorem mats_sidOf (hB : PB Q L n0) (h : FI k Q L n0 n pend) (q : St UInt8)
    (hq : match q with | .dead => True | .at v => v = [] ∨ (v ∈ L ∧ v ∉ pend)) :
    (n.getD (sidOf L q) {}).matches_ = Ideal.out k Q q := by
  cases q with
  | dead => exact h.mats_dead hB
  | «at» v =>
    rcases hq with h0 | ⟨hv, hvp⟩
    · subst h0; simp only [sidOf, nu_nil]; exact h.mats_root hB
    · exact (h.done v hv hvp).2

/-- finishing one pending node -/
theorem update (hB : PB Q L n0) (h : FI k Q L n0 n pend) (hnd : pend.Nodup) {c : List UInt8}
    (hc : c ∈ L) {n' : CNfa} (hsz : n'.size = n.size)
    (hoth : ∀ sid, sid ≠ nu L c → n'.getD sid {} = n.getD sid {})
    (htr : (n'.getD (nu L c) {}).trans = (n.getD (nu L c) {}).trans)
    (hf : (n'.getD (nu L c) {}).fail = sidOf L (finalFail k Q c))
    (hm : (n'.getD (nu L c) {}).matches_ = Ideal.out k Q (.at c)) :
    FI k Q L n0 n' (pend.erase c) := by
  have hc4 : 4 ≤ nu L c := nu_ge (hB.ne_nil hc)
  have hne : ∀ u, u ∈ L → u ≠ c → nu L u ≠ nu L c := fun u hu huc e =>
    huc (nu_inj (Or.inr hu) (Or.inr hc) e)
  refine { size := hsz.trans h.size, trans := ?_, keep := ?_, todo := ?_, done := ?_ }
  · intro sid
    by_cases e : sid = nu L c
    · rw [e, htr, h.trans]
    · rw [hoth sid e, h.trans]
  · intro sid hs
    rw [hoth sid (by omega)]; exact h.keep sid hs
  · intro u hu hup
    have huc : u ≠ c := fun e => by
      rw [e] at hup; exact absurd hup (by rw [hnd.mem_erase_iff]; simp)
    rw [hoth _ (hne u hu huc)]
    exact h.todo u hu ((List.mem_erase_of_ne huc).1 hup)
  · intro u hu hup
    by_cases huc : u = c
    · subst huc; exact ⟨hf, hm⟩
    · rw [hoth _ (hne u hu huc)]
      exact h.done u hu (fun hp => hup ((List.mem_erase_of_ne huc).2 hp))

end FI

/-! ## `chaseFail` -/

theorem sidOf_ne_fail (L : List (List UInt8)) (q : St UInt8) : sidOf L q ≠ FAIL := by
  cases q with
  | dead => simp [sidOf, DEAD, FAIL]
  | «at» u => exact nu_ne_fail L u

theorem chaseFail_stop (n : CNfa) (b : UInt8) (fuel s : Nat) (h : follow n s b ≠ FAIL) :
    chaseFail n b fuel s = s := by
  cases fuel with
  | zero => rfl
  | succ fuel =>
    rw [chaseFail]
    have : ¬ (follow n s b == FAIL) = true := by simpa using h
    rw [if_neg this]

theorem chaseFail_go (n : CNfa) (b : UInt8) (fuel s : Nat) (h : follow n s b = FAIL) :
    chaseFail n b (fuel + 1) s = chaseFail n b fuel (n.getD s {}).fail := by
  rw [chaseFail]
  have : (follow n s b == FAIL) = true := by simpa using h
  rw [if_pos this]

section
variable {k : MatchKind} {Q : PatSet UInt8} {L : List (List UInt8)} {n0 n : CNfa}
  {pend : List (List UInt8)}

/-- following failure links from a finished node until a transition on `b` exists computes the
model's transition -/
theorem chase_spec (hB : PB Q L n0) (h : FI k Q L n0 n pend) (hk : k = .std ∨ idsOf Q [] = [])
    (b : UInt8) :
    ∀ (m : Nat) (w : List UInt8), w.length ≤ m → (w = [] ∨ w ∈ L) →
      (∀ v, v ∈ L → v.length ≤ w.length → v ∉ pend) → ∀ fuel, w.length < fuel →
      follow n (chaseFail n b fuel (nu L w)) b = sidOf L (Ideal.next k Q false (.at w) b) := by
  intro m
  induction m with
  | zero =>
    intro w hw _ _ fuel _
    have : w = [] := List.eq_nil_of_length_eq_zero (by omega)
    subst this
    by_cases hp : isPref Q ([] ++ [b]) = true
    · have hin := (hB.isPref_iff_mem [] b).1 hp
      have hf := hB.goto_in [] b (Or.inl rfl) hin
      rw [← h.follow_eq0] at hf
      rw [chaseFail_stop _ _ _ _ (by rw [hf]; exact nu_ne_fail _ _), hf, next_goto k Q [] b hp]
      rfl
    · have hout : [b] ∉ L := fun hin => hp ((hB.isPref_iff_mem [] b).2 hin)
      have hf := hB.goto_root b hout
      rw [← h.follow_eq0] at hf
      rw [nu_nil, chaseFail_stop _ _ _ _ (by rw [hf]; simp [SU, FAIL]), hf,
        next_root k Q b hp hk]
      simp [sidOf]
  | succ m ih =>
    intro w hw hwL hlow fuel hfuel
    by_cases hp : isPref Q (w ++ [b]) = true
    · have hin := (hB.isPref_iff_mem w b).1 hp
      have hf := hB.goto_in w b hwL hin
      rw [← h.follow_eq0] at hf
      rw [chaseFail_stop _ _ _ _ (by rw [hf]; exact nu_ne_fail _ _), hf, next_goto k Q w b hp]
      rfl
    · cases w with
      | nil =>
        have hout : [b] ∉ L := fun hin => hp ((hB.isPref_iff_mem [] b).2 hin)
        have hf := hB.goto_root b hout
        rw [← h.follow_eq0] at hf
        rw [nu_nil, chaseFail_stop _ _ _ _ (by rw [hf]; simp [SU, FAIL]), hf,
          next_root k Q b hp hk]
        simp [sidOf]
      | cons a t =>
        have hwL' : a :: t ∈ L := hwL.resolve_left (List.cons_ne_nil _ _)
        have hout : a :: t ++ [b] ∉ L := fun hin => hp ((hB.isPref_iff_mem _ b).2 hin)
        have hf := hB.goto_out _ b hwL' hout
        rw [← h.follow_eq0] at hf
        obtain ⟨fuel', rfl⟩ : ∃ f', fuel = f' + 1 := ⟨fuel - 1, by omega⟩
        rw [chaseFail_go _ _ _ _ hf, (h.done _ hwL' (hlow _ hwL' (Nat.le_refl _))).1,
          next_unfold k Q a t b hp]
        rcases finalFail_len k Q a t with e | e
        · rw [e]
          have hd : follow n DEAD b = DEAD := by rw [h.follow_eq0]; exact hB.goto_dead b
          show follow n (chaseFail n b fuel' DEAD) b = DEAD
          rw [chaseFail_stop _ _ _ _ (by rw [hd]; simp [DEAD, FAIL]), hd]
        · rw [e]
          have hl := lsp_length_le Q t
          simp only [List.length_cons] at hw hfuel hlow
          exact ih (lsp Q t) (by omega) (hB.lsp_mem t)
            (fun v hv hvl => hlow v hv (by omega)) fuel' (by omega)

end

end AcVerif.L1cP
