import AcVerif.TopLevel
import AcVerif.Theorems.C01Iter
import AcVerif.Theorems.C02Iter
import AcVerif.Theorems.C03
import AcVerif.Theorems.C09
import AcVerif.Theorems.C11Leftmost
import AcVerif.Theorems.C14
import AcVerif.Theorems.C07Fold
/-!
# Capstone proofs, part 1: the reference automaton and what the engines compute on it

`refAut fold k P sk hp` is the ideal automaton of the patterns (`fold = false`) resp. the ideal
automaton of the lower-cased patterns reading the haystack through `foldByte` (`fold = true`,
C11).  The engine theorems C01 / C02 / C03 / C09 / C11 / C14 / C07, restated uniformly in `fold`
and the match kind, with occurrences read on `specPats fold P` and `specHay fold hay`.
-/
namespace AcVerif.TopP
open AcVerif AcVerif.MiscP

/-- the reference automaton -/
def refAut : Bool → MatchKind → List (List UInt8) → StartKind → Bool → Aut (St UInt8) UInt8
  | false, k, P, sk, hp => ideal k P sk hp
  | true, k, P, sk, hp => (ideal k (P.map (·.map foldByte)) sk hp).comap foldByte

theorem refAut_kind (f : Bool) (k : MatchKind) (P : List (List UInt8)) (sk : StartKind)
    (hp : Bool) : (refAut f k P sk hp).kind = k := by cases f <;> rfl

theorem refAut_patLen (f : Bool) (k : MatchKind) (P : List (List UInt8)) (sk : StartKind)
    (hp : Bool) (pid : Nat) : (refAut f k P sk hp).patLen pid = (P.getD pid []).length := by
  cases f
  · rfl
  · exact (C11_ids P pid).2

theorem refAut_minLen (f : Bool) (k : MatchKind) (P : List (List UInt8)) (sk : StartKind)
    (hp : Bool) :
    (refAut f k P sk hp).minLen = (P.map List.length).foldl min 18446744073709551615 := by
  cases f
  · rfl
  · show ((P.map (·.map foldByte)).map List.length).foldl min 18446744073709551615 = _
    rw [foldPats_lengths]

theorem refAut_maxLen (f : Bool) (k : MatchKind) (P : List (List UInt8)) (sk : StartKind)
    (hp : Bool) : (refAut f k P sk hp).maxLen = (P.map List.length).foldl max 0 := by
  cases f
  · rfl
  · show ((P.map (·.map foldByte)).map List.length).foldl max 0 = _
    rw [foldPats_lengths]

theorem refAut_start (f : Bool) (k : MatchKind) (P : List (List UInt8)) {sk : StartKind}
    (hp : Bool) {anch : Bool} (h : supportsAnch sk anch) :
    (refAut f k P sk hp).start anch = some (.at []) := by
  cases f <;>
  · rcases h with rfl | ⟨rfl, rfl⟩ | ⟨rfl, rfl⟩ <;> first | rfl | (cases anch <;> rfl)

theorem refAut_start_none (f : Bool) (k : MatchKind) (P : List (List UInt8)) {sk : StartKind}
    (hp : Bool) {anch : Bool} (h : ¬ supportsAnch sk anch) :
    (refAut f k P sk hp).start anch = none := by
  cases f <;> cases sk <;> cases anch <;> first | rfl | exact absurd (by simp [supportsAnch]) h

/-! ## non-overlapping search -/

/-- C01 / C02 / C09 / C11: the search returns THE answer -/
theorem ref_find (f : Bool) (k : MatchKind) (P : List (List UInt8)) (sk : StartKind)
    (i : Input UInt8) (h : supportsAnch sk i.anch) (he : k = .std ∨ i.earliest = false) :
    ∃ r, tryFindFwd (refAut f k P sk false) none i = .ok r ∧
      IsFind k (specPats f P) (specHay f i.hay) i.s i.e i.anch r := by
  cases f
  · cases k
    · exact C02_find P sk i h
    · exact LmP.find_lf P sk i (he.resolve_left (by simp)) h
    · exact LmP.find_ll P sk i (he.resolve_left (by simp)) h
  · cases k
    · exact C11_find_std P sk i h
    · exact C11_find_lf P sk i (he.resolve_left (by simp)) h
    · exact C11_find_ll P sk i (he.resolve_left (by simp)) h

/-- C01Iter / C02Iter (+ C11): the iterator is the specification's iterator -/
theorem ref_iter (f : Bool) (k : MatchKind) (P : List (List UInt8)) (sk : StartKind)
    (i : Input UInt8) (h : supportsAnch sk i.anch) (he : k = .std ∨ i.earliest = false) :
    ∃ F, (∀ st, st ≤ i.e + 1 →
        IsFind k (specPats f P) (specHay f i.hay) st i.e i.anch (F st)) ∧
      findIter (refAut f k P sk false) none i = .ok (iterSpec F i.s i.e) := by
  have key : ∀ (Q : List (List UInt8)) (j : Input UInt8), supportsAnch sk j.anch →
      (k = .std ∨ j.earliest = false) →
      ∃ F, (∀ st, st ≤ j.e + 1 → IsFind k Q j.hay st j.e j.anch (F st)) ∧
        findIter (ideal k Q sk false) none j = .ok (iterSpec F j.s j.e) := by
    intro Q j hj hje
    cases k
    · exact C02_iter Q sk j hj
    · exact C01_iter_lf Q sk j (hje.resolve_left (by simp)) hj
    · exact C01_iter_ll Q sk j (hje.resolve_left (by simp)) hj
  cases f
  · exact key P i h he
  · obtain ⟨F, hF, hl⟩ := key (P.map (·.map foldByte)) (i.mapHay foldByte) h he
    exact ⟨F, hF, (findIter_comap _ foldByte i).trans hl⟩

/-! ## overlapping search (standard kind) -/

/-- C03 / C09 (+ C11): the call history drains the overlapping enumeration, then `none` -/
theorem ref_overlap (f : Bool) (P : List (List UInt8)) (sk : StartKind) (i : Input UInt8)
    (h : supportsAnch sk i.anch) :
    ∃ l, IsOverlapList (specPats f P) (specHay f i.hay) i.s i.e i.anch l ∧
      ∀ n, ovlCalls (refAut f .std P sk false) none i n OState.start =
        (l.take n).map (fun m => Except.ok (some m)) ++
          List.replicate (n - l.length) (Except.ok none) := by
  cases f
  · exact C03_calls P sk i h
  · exact C11_overlap_std P sk i h

/-- C03: the overlapping iterator yields the enumeration -/
theorem ref_overlap_iter (f : Bool) (P : List (List UInt8)) (sk : StartKind) (i : Input UInt8)
    (h : supportsAnch sk i.anch) :
    ∃ l, IsOverlapList (specPats f P) (specHay f i.hay) i.s i.e i.anch l ∧
      ∀ fuel, l.length < fuel →
        ovlIterAux (refAut f .std P sk false) none i fuel OState.start = l := by
  cases f
  · exact C03_iter P sk i h
  · obtain ⟨l, hl, hn⟩ := C03_iter (P.map (·.map foldByte)) sk (i.mapHay foldByte) h
    exact ⟨l, hl, fun fuel hf => (ovlIterAux_comap _ foldByte i fuel _).trans (hn fuel hf)⟩

/-! ## `is_match` -/

/-- C14 (+ C11): the earliest-mode search finds something iff an admissible occurrence exists -/
theorem ref_is_match (f : Bool) (k : MatchKind) (P : List (List UInt8)) (sk : StartKind)
    (i : Input UInt8) (h : supportsAnch sk i.anch) :
    ∃ r, tryFindFwd (refAut f k P sk false) none { i with earliest := true } = .ok r ∧
      (r.isSome = true ↔ ∃ m, IsOccA (specPats f P) (specHay f i.hay) i.s i.e i.anch m) := by
  have key : ∀ (Q : List (List UInt8)) (j : Input UInt8), supportsAnch sk j.anch →
      ∃ r, tryFindFwd (ideal k Q sk false) none { j with earliest := true } = .ok r ∧
        (r.isSome = true ↔ ∃ m, IsOccA Q j.hay j.s j.e j.anch m) := by
    intro Q j hj
    cases k
    · exact C14_is_match_std Q sk j hj
    · exact C14_is_match_leftmost .lf (Or.inr rfl) Q sk j hj
    · exact C14_is_match_leftmost .ll (Or.inl rfl) Q sk j hj
  cases f
  · exact key P i h
  · obtain ⟨r, h1, h2⟩ := key (P.map (·.map foldByte)) (i.mapHay foldByte) h
    exact ⟨r, (tryFindFwd_comap _ foldByte { i with earliest := true }).trans h1, h2⟩

end AcVerif.TopP
