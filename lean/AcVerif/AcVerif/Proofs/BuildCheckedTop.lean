import AcVerif.Proofs.BuildCheckedFold
import AcVerif.Proofs.BuildCheckedDense
import AcVerif.Proofs.BuildCheckedMatches
/-!
# C20 build proofs, part 5: `compileChecked` exactly, and the other builders as `if`s
-/
namespace AcVerif.BuildP
open AcVerif AcVerif.CNfa

/-- the tests of `compile` after `build_trie` (`copy_matches`, `alloc_dense_state`) -/
def PostOk (L : Limits) (n : CNfa) (dd : Nat) : Prop :=
  matchesLen n ≤ L.stateIdLimit ∧ denseAllocOk L n dd = true

instance (L : Limits) (n : CNfa) (dd : Nat) : Decidable (PostOk L n dd) := by
  unfold PostOk; infer_instance

theorem foldl_zipIdx_take (k : MatchKind) (fold : Bool) (P : List (List UInt8)) (i : Nat) :
    (P.take i).zipIdx.foldl (trieStep k fold) init = buildTrie k fold (P.take i) := rfl

theorem take_succ_zipIdx (P : List (List UInt8)) (i : Nat) (h : i < P.length) :
    (P.take (i + 1)).zipIdx = (P.take i).zipIdx ++ [(P[i], i)] := by
  rw [List.take_succ_eq_append_getElem h, List.zipIdx_append]
  simp [List.length_take, Nat.min_eq_left (Nat.le_of_lt h)]

/-- adding pattern `i` to the trie of the first `i` patterns gives the trie of the first `i+1` -/
theorem buildTrie_take_succ (k : MatchKind) (fold : Bool) (P : List (List UInt8)) (i : Nat)
    (h : i < P.length) :
    trieStep k fold (buildTrie k fold (P.take i)) (P[i], i) = buildTrie k fold (P.take (i + 1)) := by
  rw [buildTrie_eq, buildTrie_eq, take_succ_zipIdx P i h, List.foldl_append]
  rfl

/-- the tries of the prefixes fit if the whole trie does -/
theorem TrieFits_take {L : Limits} {k : MatchKind} {fold : Bool} {P : List (List UInt8)}
    (i : Nat) (h : TrieFits L (buildTrie k fold P)) : TrieFits L (buildTrie k fold (P.take i)) := by
  by_cases hi : i < P.length
  · have hsplit := zipIdx_split P i hi
    rw [buildTrie_eq, hsplit, List.foldl_append] at h
    exact TrieFits_foldl _ _ h
  · rw [List.take_of_length_le (by omega)]; exact h

theorem compile_ok_iff (L : Limits) (k : MatchKind) (fold : Bool) (dd : Nat)
    (P : List (List UInt8)) (n : CNfa) :
    compileChecked L k fold dd P = .ok n ↔
      n = compile k fold P ∧ P.length ≤ L.patternIdLimit ∧
      (∀ p ∈ P, p.length ≤ L.smallIndexMax) ∧ TrieFits L (buildTrie k fold P) ∧
      PostOk L (compile k fold P) dd := by
  rw [compileChecked_eq]
  cases ht : trieAllChecked L k fold P.zipIdx with
  | error e =>
    simp only [reduceCtorEq, false_iff, not_and]
    intro _ h1 h2 h3
    have : trieAllChecked L k fold P.zipIdx = .ok (buildTrie k fold P) := by
      rw [trieAll_ok_iff, patOk_zipIdx_iff]
      exact ⟨rfl, ⟨h1, h2⟩, h3⟩
    rw [ht] at this; cases this
  | ok t =>
    obtain ⟨rfl, hp, hf⟩ := (trieAll_ok_iff L k fold P.zipIdx t).1 ht
    rw [patOk_zipIdx_iff] at hp
    simp only
    change (if PostOk L (compile k fold P) dd then Except.ok (compile k fold P)
      else Except.error BuildErr.stateIdOverflow) = Except.ok n ↔ _
    by_cases hpo : PostOk L (compile k fold P) dd
    · rw [if_pos hpo]
      constructor
      · intro h; cases h; exact ⟨rfl, hp.1, hp.2, hf, hpo⟩
      · rintro ⟨rfl, _⟩; rfl
    · rw [if_neg hpo]
      constructor
      · intro h; cases h
      · rintro ⟨_, _, _, _, h⟩; exact absurd h hpo

/-- `compileChecked` fails with `e` iff the preamble overflows, or the first failing iteration of
`build_trie` – pattern `i`, after `i` successful iterations – fails with `e`, or everything up to and
including `build_trie` succeeds and a later phase overflows -/
theorem compile_error_iff (L : Limits) (k : MatchKind) (fold : Bool) (dd : Nat)
    (P : List (List UInt8)) (e : BuildErr) :
    compileChecked L k fold dd P = .error e ↔
      (¬ TrieFits L init ∧ e = .stateIdOverflow) ∨
      (∃ i, ∃ h : i < P.length, i ≤ L.patternIdLimit ∧
        (∀ p ∈ P.take i, p.length ≤ L.smallIndexMax) ∧
        TrieFits L (buildTrie k fold (P.take i)) ∧
        trieStepChecked L k fold (buildTrie k fold (P.take i)) (P[i], i) = .error e) ∨
      (P.length ≤ L.patternIdLimit ∧ (∀ p ∈ P, p.length ≤ L.smallIndexMax) ∧
        TrieFits L (buildTrie k fold P) ∧ ¬ PostOk L (compile k fold P) dd ∧
        e = .stateIdOverflow) := by
  rw [compileChecked_eq]
  cases ht : trieAllChecked L k fold P.zipIdx with
  | error e' =>
    simp only
    have hte := (trieAll_error_iff L k fold P.zipIdx e').1 ht
    constructor
    · intro h; cases h
      rcases hte with h0 | ⟨ys, x, zs, hxs, hall, hfit, herr⟩
      · exact Or.inl h0
      · obtain ⟨hi, hys, hx⟩ := zipIdx_eq_split hxs
        refine Or.inr (Or.inl ⟨ys.length, hi, ?_, ?_, ?_, ?_⟩)
        · rw [hys] at hall
          have := ((patOk_zipIdx_iff L (P.take ys.length)).1 hall).1
          rw [List.length_take, Nat.min_eq_left (Nat.le_of_lt hi)] at this
          exact this
        · rw [hys] at hall
          exact ((patOk_zipIdx_iff L (P.take ys.length)).1 hall).2
        · rw [← foldl_zipIdx_take, ← hys]; exact hfit
        · rw [← foldl_zipIdx_take, ← hys, ← hx]; exact herr
    · intro h
      -- the error of the loop is determined
      have key : ∀ e'', trieAllChecked L k fold P.zipIdx = .error e'' → e'' = e' := by
        intro e'' h'; rw [ht] at h'; cases h'; rfl
      rcases h with ⟨h0, rfl⟩ | ⟨i, hi, hle, hlen, hfit, herr⟩ | ⟨h1, h2, h3, _, _⟩
      · have : trieAllChecked L k fold P.zipIdx = .error .stateIdOverflow :=
          (trieAll_error_iff L k fold P.zipIdx _).2 (Or.inl ⟨h0, rfl⟩)
        rw [key _ this]
      · have : trieAllChecked L k fold P.zipIdx = .error e := by
          rw [trieAll_error_iff]
          refine Or.inr ⟨(P.take i).zipIdx, (P[i], i), (P.drop (i + 1)).zipIdx (i + 1),
            zipIdx_split P i hi, ?_, ?_, ?_⟩
          · rw [patOk_zipIdx_iff]
            refine ⟨?_, hlen⟩
            rw [List.length_take, Nat.min_eq_left (Nat.le_of_lt hi)]; exact hle
          · rw [foldl_zipIdx_take]; exact hfit
          · rw [foldl_zipIdx_take]; exact herr
        rw [key _ this]
      · have : trieAllChecked L k fold P.zipIdx = .ok (buildTrie k fold P) := by
          rw [trieAll_ok_iff, patOk_zipIdx_iff]
          exact ⟨rfl, ⟨h1, h2⟩, h3⟩
        rw [ht] at this; cases this
  | ok t =>
    obtain ⟨rfl, hp, hf⟩ := (trieAll_ok_iff L k fold P.zipIdx t).1 ht
    rw [patOk_zipIdx_iff] at hp
    simp only
    change (if PostOk L (compile k fold P) dd then Except.ok (compile k fold P)
      else Except.error BuildErr.stateIdOverflow) = Except.error e ↔ _
    have hinit : TrieFits L init := TrieFits_foldl _ _ hf
    by_cases hpo : PostOk L (compile k fold P) dd
    · rw [if_pos hpo]
      constructor
      · intro h; cases h
      · rintro (⟨h0, _⟩ | ⟨i, hi, hle, hlen, hfit, herr⟩ | ⟨_, _, _, h, _⟩)
        · exact absurd hinit h0
        · -- the step for pattern `i` succeeds, because the whole loop does
          exfalso
          have hstep : trieStepChecked L k fold (buildTrie k fold (P.take i)) (P[i], i) =
              .ok (trieStep k fold (buildTrie k fold (P.take i)) (P[i], i)) := by
            rw [trieStepChecked_ok_iff]
            refine ⟨⟨?_, hp.2 _ (List.getElem_mem _)⟩, ?_, rfl⟩
            · show i < L.patternIdLimit
              have := hp.1; omega
            · rw [buildTrie_take_succ k fold P i hi]
              exact TrieFits_take (i + 1) hf
          rw [herr] at hstep; cases hstep
        · exact absurd hpo h
    · rw [if_neg hpo]
      constructor
      · intro h; cases h
        exact Or.inr (Or.inr ⟨hp.1, hp.2, hf, hpo, rfl⟩)
      · rintro (⟨h0, _⟩ | ⟨i, hi, hle, hlen, hfit, herr⟩ | ⟨_, _, _, _, rfl⟩)
        · exact absurd hinit h0
        · exfalso
          have hstep : trieStepChecked L k fold (buildTrie k fold (P.take i)) (P[i], i) =
              .ok (trieStep k fold (buildTrie k fold (P.take i)) (P[i], i)) := by
            rw [trieStepChecked_ok_iff]
            refine ⟨⟨?_, hp.2 _ (List.getElem_mem _)⟩, ?_, rfl⟩
            · show i < L.patternIdLimit
              have := hp.1; omega
            · rw [buildTrie_take_succ k fold P i hi]
              exact TrieFits_take (i + 1) hf
          rw [herr] at hstep; cases hstep
        · rfl

/-! ## the contiguous NFA and the DFA builder as `if`s -/

/-- the test of the DFA builder that can fail: the id of the last state fits -/
def DfaFits (L : Limits) (n : CNfa) (sk : StartKind) (bc hp : Bool) : Prop :=
  ((buildDfaIds n sk bc hp).stateLen <<< (buildDfaIds n sk bc hp).stride2) -
    (1 <<< (buildDfaIds n sk bc hp).stride2) < L.stateIdLimit

instance (L : Limits) (n : CNfa) (sk : StartKind) (bc hp : Bool) : Decidable (DfaFits L n sk bc hp) := by
  unfold DfaFits; infer_instance

theorem buildDfaChecked_eq (L : Limits) (n : CNfa) (sk : StartKind) (bc hp : Bool) :
    buildDfaChecked L n sk bc hp =
      if DfaFits L n sk bc hp then .ok (buildDfaIds n sk bc hp) else .error .stateIdOverflow := by
  unfold buildDfaChecked DfaFits usizeBits
  have h8 := buildDfaIds_stride2_le n sk bc hp
  simp only
  rw [if_neg (by omega)]

theorem buildContigChecked_eq (L : Limits) (n : CNfa) (dd : Nat) (bc hp : Bool) :
    buildContigChecked L n dd bc hp =
      if contigAllocOk L n dd bc = true then .ok (buildContig n dd bc hp)
      else .error .stateIdOverflow := rfl

/-- what `build_auto` returns -/
def autoChoice (L : Limits) (cfg : BuildCfg) (npats : Nat) (n : CNfa) : Built :=
  if tryDfa cfg npats = true ∧ DfaFits L n cfg.startKind cfg.byteClasses cfg.hasPre then
    .dfa (buildDfaIds n cfg.startKind cfg.byteClasses cfg.hasPre)
  else if contigAllocOk L n cfg.contigDenseDepth cfg.byteClasses = true then
    .contig (buildContig n cfg.contigDenseDepth cfg.byteClasses cfg.hasPre)
  else builtNnc cfg n

theorem buildAutoChecked_eq (L : Limits) (cfg : BuildCfg) (npats : Nat) (n : CNfa) :
    buildAutoChecked L cfg npats n = autoChoice L cfg npats n := by
  unfold buildAutoChecked autoChoice
  rw [buildDfaChecked_eq, buildContigChecked_eq]
  by_cases ht : tryDfa cfg npats = true
  · by_cases hd : DfaFits L n cfg.startKind cfg.byteClasses cfg.hasPre
    · simp only [ht, hd, if_true, and_self, Except.toOption]
    · simp only [ht, hd, if_true, if_false, and_false, Except.toOption]
      by_cases hc : contigAllocOk L n cfg.contigDenseDepth cfg.byteClasses = true
      · simp only [hc, if_true]
      · simp only [hc]; rfl
  · simp only [ht, if_false, false_and, Bool.false_eq_true]
    by_cases hc : contigAllocOk L n cfg.contigDenseDepth cfg.byteClasses = true
    · simp only [hc, if_true]
    · simp only [hc]; rfl

theorem buildChecked_eq (L : Limits) (cfg : BuildCfg) (P : List (List UInt8)) :
    buildChecked L cfg P =
      match compileChecked L cfg.matchKind cfg.fold cfg.nncDenseDepth P with
      | .error e => .error e
      | .ok n =>
        match cfg.kind with
        | none => .ok (autoChoice L cfg P.length n)
        | some .noncontiguous => .ok (builtNnc cfg n)
        | some .contiguous =>
          if contigAllocOk L n cfg.contigDenseDepth cfg.byteClasses = true then
            .ok (.contig (buildContig n cfg.contigDenseDepth cfg.byteClasses cfg.hasPre))
          else .error .stateIdOverflow
        | some .dfa =>
          if DfaFits L n cfg.startKind cfg.byteClasses cfg.hasPre then
            .ok (.dfa (buildDfaIds n cfg.startKind cfg.byteClasses cfg.hasPre))
          else .error .stateIdOverflow := by
  unfold buildChecked
  cases hc : compileChecked L cfg.matchKind cfg.fold cfg.nncDenseDepth P with
  | error e => rfl
  | ok n =>
    dsimp only [bind, Except.bind]
    cases hk : cfg.kind with
    | none => dsimp only; rw [buildAutoChecked_eq]; rfl
    | some kd =>
      cases kd with
      | noncontiguous => rfl
      | contiguous =>
        dsimp only
        rw [buildContigChecked_eq]
        by_cases h : contigAllocOk L n cfg.contigDenseDepth cfg.byteClasses = true
        · rw [if_pos h, if_pos h]; rfl
        · rw [if_neg h, if_neg h]
      | dfa =>
        dsimp only
        rw [buildDfaChecked_eq]
        by_cases h : DfaFits L n cfg.startKind cfg.byteClasses cfg.hasPre
        · rw [if_pos h, if_pos h]; rfl
        · rw [if_neg h, if_neg h]

end AcVerif.BuildP
