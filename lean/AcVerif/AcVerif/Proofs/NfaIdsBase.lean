import AcVerif.NfaIds
import AcVerif.Proofs.DfaIdsOne
/-!
# L1c-ids proofs, part 1: the stored states are the image of the compiled states under `pos`

For any `N` with `ShufOK N`: the state stored at `pos s` is `remapState pos (N[s])`, hence
`follow` commutes with `pos` (`FAIL` is fixed), and so does the whole `next_state` loop along any
set of states `V` that lies inside the automaton and is closed under the failure links the loop
follows.  The checked loop `next?` returns the same state whenever the hop counter shows that the
fuel was not exhausted.
-/
namespace AcVerif.L1cIdsP
open AcVerif AcVerif.CNfa AcVerif.L1cP AcVerif.L1dP AcVerif.L1eP AcVerif.L1dIdsP

/-- the stored states -/
def idStates (N : CNfa) : Array CState :=
  (Array.range N.size).map fun i =>
    remapState (fun t => (cPos N).getD t 0) (N.getD ((cOrder N).getD i 0) {})

theorem buildNfaIds_states (N : CNfa) (hasPre : Bool) :
    (buildNfaIds N hasPre).states = idStates N := rfl

theorem buildNfaIds_startU (N : CNfa) (hasPre : Bool) : (buildNfaIds N hasPre).startU = cNa N - 2 :=
  rfl

theorem buildNfaIds_startA (N : CNfa) (hasPre : Bool) : (buildNfaIds N hasPre).startA = cNa N - 1 :=
  rfl

theorem buildNfaIds_maxMatch (N : CNfa) (hasPre : Bool) :
    (buildNfaIds N hasPre).maxMatchId = nfaMaxMatch N (cNa N) := rfl

theorem buildNfaIds_maxSpecial (N : CNfa) (hasPre : Bool) :
    (buildNfaIds N hasPre).maxSpecialId = nfaMaxSpecial N (cNa N) hasPre := rfl

theorem idStates_size (N : CNfa) : (idStates N).size = N.size := by simp [idStates]

theorem remapState_posOf (N : CNfa) (st : CState) :
    remapState (fun t => (cPos N).getD t 0) st = remapState (posOf N) st := rfl

/-! ## `lookup` through a map of the targets that fixes `FAIL` -/

theorem lookup_map_fix (g : Nat → Nat) (hg : g FAIL = FAIL) (l : List (UInt8 × Nat)) (c : UInt8) :
    lookup (l.map fun x => (x.1, g x.2)) c = g (lookup l c) := by
  induction l with
  | nil => exact hg.symm
  | cons y rest ih =>
    obtain ⟨d, s⟩ := y
    rw [List.map_cons, lookup_cons, lookup_cons]
    by_cases e : d = c
    · rw [if_pos e, if_pos e]
    · rw [if_neg e, if_neg e, ih]

section
variable {N : CNfa} (hS : ShufOK N)
include hS

theorem posOf_fail : posOf N FAIL = FAIL := hS.pos1

theorem posOf_dead : posOf N DEAD = DEAD := hS.pos0

theorem posOf_big {t : Nat} (ht : N.size ≤ t) : posOf N t = 0 := by
  unfold posOf
  rw [Array.getD_eq_getD_getElem?, Array.getElem?_eq_none (by rw [hS.size_pos]; exact ht)]
  rfl

/-- no id other than `FAIL` is mapped to `FAIL` (ids out of range are mapped to `0`) -/
theorem posOf_eq_fail_iff (t : Nat) : posOf N t = FAIL ↔ t = FAIL := by
  constructor
  · intro e
    by_cases ht : t < N.size
    · by_cases h1 : t = 1
      · exact h1
      · exact absurd e (posOf_ne_one hS ht h1)
    · rw [posOf_big hS (by omega)] at e
      cases e
  · intro e; subst e; exact hS.pos1

/-- the state stored at `pos s` -/
theorem idStates_getD {s : Nat} (hs : s < N.size) :
    (idStates N).getD (posOf N s) {} = remapState (posOf N) (N.getD s {}) := by
  unfold idStates
  rw [getD_map_range _ _ _ _ (show posOf N s < N.size from hS.pos_lt s hs), remapState_posOf]
  have eo : (cOrder N).getD (posOf N s) 0 = s := hS.order_pos s hs
  rw [eo]

theorem idStates_getElem? {s : Nat} (hs : s < N.size) :
    (idStates N)[posOf N s]? = some (remapState (posOf N) (N.getD s {})) := by
  rw [← idStates_getD hS hs]
  exact getElem?_eq_some_getD _ _ (by rw [idStates_size]; exact hS.pos_lt s hs)

/-- `follow_transition` commutes with the renumbering -/
theorem follow_ids {s : Nat} (hs : s < N.size) (b : UInt8) :
    follow (idStates N) (posOf N s) b = posOf N (follow N s b) := by
  rw [follow_eq, follow_eq, idStates_getD hS hs]
  exact lookup_map_fix (posOf N) (posOf_fail hS) _ b

theorem follow_ids_fail_iff {s : Nat} (hs : s < N.size) (b : UInt8) :
    follow (idStates N) (posOf N s) b = FAIL ↔ follow N s b = FAIL := by
  rw [follow_ids hS hs]; exact posOf_eq_fail_iff hS _

theorem fail_ids {s : Nat} (hs : s < N.size) :
    ((idStates N).getD (posOf N s) {}).fail = posOf N (N.getD s {}).fail := by
  rw [idStates_getD hS hs]; rfl

theorem mats_ids {s : Nat} (hs : s < N.size) :
    ((idStates N).getD (posOf N s) {}).matches_ = (N.getD s {}).matches_ := by
  rw [idStates_getD hS hs]; rfl

/-- the `next_state` loop commutes with the renumbering along any set of in-range states closed
under the failure links that are followed, hop by hop and with the same fuel -/
theorem nextState_ids {V : Nat → Prop} (anch : Bool) (b : UInt8)
    (hlt : ∀ s, V s → s < N.size)
    (hfail : anch = false → ∀ s, V s → follow N s b = FAIL → V (N.getD s {}).fail) :
    ∀ (fuel s hp : Nat), V s →
      nextState (idStates N) anch fuel (posOf N s) b hp =
        (posOf N (nextState N anch fuel s b hp).1, (nextState N anch fuel s b hp).2) := by
  intro fuel
  induction fuel with
  | zero => intro s hp _; rfl
  | succ fuel ih =>
    intro s hp hv
    have hs := hlt s hv
    by_cases hf : follow N s b = FAIL
    · have hf' := (follow_ids_fail_iff hS hs b).2 hf
      cases anch with
      | true =>
        rw [nextState_anch_fail _ fuel _ b hp hf', nextState_anch_fail N fuel s b hp hf]
        show (DEAD, hp) = (posOf N DEAD, hp)
        rw [posOf_dead hS]
      | false =>
        rw [nextState_go _ fuel _ b hp hf', nextState_go N fuel s b hp hf, fail_ids hS hs]
        exact ih _ _ (hfail rfl s hv hf)
    · have hf' : follow (idStates N) (posOf N s) b ≠ FAIL :=
        fun e => hf ((follow_ids_fail_iff hS hs b).1 e)
      rw [nextState_stop _ anch fuel _ b hp hf', nextState_stop N anch fuel s b hp hf,
        follow_ids hS hs]

end

/-! ## the checked loop -/

theorem next?_succ (m : NfaI) (anch : Bool) (fuel sid : Nat) (b : UInt8) :
    m.next? anch (fuel + 1) sid b =
      match m.states[sid]? with
      | none => none
      | some st =>
        if (lookup st.trans b != FAIL) = true then some (lookup st.trans b)
        else if anch = true then some DEAD
        else m.next? anch fuel st.fail b := rfl

/-- the hop counter never exceeds the fuel -/
theorem nextState_hops_le (n : CNfa) (anch : Bool) (b : UInt8) :
    ∀ (fuel s hp : Nat), (nextState n anch fuel s b hp).2 ≤ hp + fuel := by
  intro fuel
  induction fuel with
  | zero => intro s hp; exact Nat.le_refl _
  | succ fuel ih =>
    intro s hp
    by_cases hf : follow n s b = FAIL
    · cases anch with
      | true => rw [nextState_anch_fail n fuel s b hp hf]; exact Nat.le_add_right _ _
      | false =>
        rw [nextState_go n fuel s b hp hf]
        have := ih (n.getD s {}).fail (hp + 1)
        omega
    · rw [nextState_stop n anch fuel s b hp hf]; exact Nat.le_add_right _ _

section
variable {N : CNfa} (hS : ShufOK N)
include hS

/-- if the unchecked loop on `N` returned before the fuel ran out, the checked loop on the stored
states returns the image of its result: every `states[·]` read along the way is in range -/
theorem next?_ids {V : Nat → Prop} (hasPre anch : Bool) (b : UInt8)
    (hlt : ∀ s, V s → s < N.size)
    (hfail : anch = false → ∀ s, V s → follow N s b = FAIL → V (N.getD s {}).fail) :
    ∀ (fuel s hp : Nat), V s → (nextState N anch fuel s b hp).2 < hp + fuel →
      (buildNfaIds N hasPre).next? anch fuel (posOf N s) b =
        some (posOf N (nextState N anch fuel s b hp).1) := by
  intro fuel
  induction fuel with
  | zero => intro s hp _ h; exact absurd h (Nat.lt_irrefl _)
  | succ fuel ih =>
    intro s hp hv hh
    have hs := hlt s hv
    rw [next?_succ, buildNfaIds_states, idStates_getElem? hS hs]
    have hl : lookup (remapState (posOf N) (N.getD s {})).trans b = posOf N (follow N s b) := by
      rw [← follow_ids hS hs, follow_eq, idStates_getD hS hs]
    show (if (lookup (remapState (posOf N) (N.getD s {})).trans b != FAIL) = true then _ else _) = _
    rw [hl]
    by_cases hf : follow N s b = FAIL
    · have e1 : ¬ (posOf N (follow N s b) != FAIL) = true := by
        rw [hf, posOf_fail hS]; simp
      rw [if_neg e1]
      cases anch with
      | true =>
        rw [if_pos rfl, nextState_anch_fail N fuel s b hp hf]
        show some DEAD = some (posOf N DEAD)
        rw [posOf_dead hS]
      | false =>
        rw [if_neg (by simp)]
        rw [nextState_go N fuel s b hp hf] at hh ⊢
        show (buildNfaIds N hasPre).next? false fuel (posOf N (N.getD s {}).fail) b = _
        exact ih _ (hp + 1) (hfail rfl s hv hf) (by omega)
    · have e1 : (posOf N (follow N s b) != FAIL) = true := by
        have : posOf N (follow N s b) ≠ FAIL := fun e => hf ((posOf_eq_fail_iff hS _).1 e)
        simpa using this
      rw [if_pos e1, nextState_stop N anch fuel s b hp hf]

end

end AcVerif.L1cIdsP
