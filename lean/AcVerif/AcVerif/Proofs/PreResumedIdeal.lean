import AcVerif.Proofs.PreResumed
import AcVerif.Theorems.SpecUnique
/-!
# C05 for the stepwise overlapping search, on the ideal standard automaton

What the prefilter-free run reports from the start state at position `a` is *the* overlapping
enumeration of the span `[a, e]` (`restart_overlapList`, an instance of
`StdP.isOverlapList_allMatches`).  Hence the verdict of a `PrefilterSoundOvl` prefilter about
the remaining span determines it: `None` makes it empty, `some j` makes it the enumeration of
`[j, e]` (`IsOverlapList_unique`).  These are the two hypotheses of `ovlLoop_pre`.

As in `PreTransparent.lean` everything is proved for the automaton `(ideal …).comap g` reading
the haystack through a byte map `g`, with the prefilter reading the raw haystack and sound
relative to the mapped one (`PrefilterSoundOvlAt`); `g = id` is the plain statement,
`g = foldByte` the case-insensitive searcher.
-/
namespace AcVerif.PreP2
open AcVerif AcVerif.PreP AcVerif.StdP
set_option linter.unusedSectionVars false

section Generic
variable {σ α : Type}

/-- the span start is only read by the anchored filter -/
theorem allRep_s_irrel (A : Aut σ α) (s s' : Nat) (rest : List α) :
    ∀ (q : σ) (at_ : Nat), allRep A s false q at_ rest = allRep A s' false q at_ rest := by
  induction rest with
  | nil => intros; rfl
  | cons c rest ih =>
    intro q at_
    have hok : okPid A s false (at_ + 1) = okPid A s' false (at_ + 1) := by
      funext pid; simp [okPid]
    simp only [allRep, repAt, hok, ih]

theorem repAt_comap (A : Aut σ α) (g : α → α) (s : Nat) (anch : Bool) (q : σ) (at_ : Nat) :
    repAt (A.comap g) s anch q at_ = repAt A s anch q at_ := rfl

theorem allRep_comap (A : Aut σ α) (g : α → α) (s : Nat) (anch : Bool) (rest : List α) :
    ∀ (q : σ) (at_ : Nat),
      allRep (A.comap g) s anch q at_ rest = allRep A s anch q at_ (rest.map g) := by
  induction rest with
  | nil => intros; rfl
  | cons c rest ih =>
    intro q at_
    simp only [allRep, List.map_cons, repAt_comap, ih]
    rfl

theorem stdLike_comap {A : Aut σ α} (h : StdLike A) (g : α → α) : StdLike (A.comap g) where
  special := h.special
  isMatch := h.isMatch
  dead_next := fun anch q c hq => h.dead_next anch q (g c) hq
  dead_out := h.dead_out
  kind := h.kind

end Generic

variable {α : Type} [DecidableEq α]

theorem mpats_start (P : List (List α)) (hne : ∀ p ∈ P, p ≠ []) (sk : StartKind) :
    (ideal .std P sk false).mpats (.at []) = [] :=
  out_nil .std (patSet_ne_nil (k := .std) hne)

/-- restart: from the start state at position `a` the prefilter-free run reports exactly the
overlapping enumeration of the span `[a, e]` -/
theorem restart_overlapList (P : List (List α)) (hne : ∀ p ∈ P, p ≠ []) (sk : StartKind)
    (hay : List α) (s a e : Nat) (he : e ≤ hay.length) (hae : a ≤ e) :
    IsOverlapList P hay a e false
      (allRep (ideal .std P sk false) s false (.at []) a ((hay.take e).drop a)) := by
  let i' : Input α := ⟨hay, a, e, false, false, ⟨he, by omega⟩⟩
  have hd : i'.isDone = false := by simp [Input.isDone, i']; omega
  have := isOverlapList_allMatches P sk i' hd
  simp only [allMatches, mpats_start P hne sk, List.map_nil, List.nil_append, i'] at this
  rw [allRep_s_irrel _ s a]
  exact this

/-- no occurrence in `[a, e]`: nothing more is reported from the start state at `a` -/
theorem restart_nil (P : List (List α)) (hne : ∀ p ∈ P, p ≠ []) (sk : StartKind)
    (hay : List α) (s a e : Nat) (he : e ≤ hay.length)
    (hno : ∀ m, ¬ IsOcc P hay a e m) :
    allRep (ideal .std P sk false) s false (.at []) a ((hay.take e).drop a) = [] := by
  by_cases hae : a ≤ e
  · have h := restart_overlapList P hne sk hay s a e he hae
    rw [List.eq_nil_iff_forall_not_mem]
    intro m hm
    exact hno m ((h.2 m).1 hm).1
  · rw [drop_take_nil (by omega)]; rfl

/-- no occurrence of `[a, e]` starts before `j`: restarting at `j` reports the same matches -/
theorem restart_jump (P : List (List α)) (hne : ∀ p ∈ P, p ≠ []) (sk : StartKind)
    (hay : List α) (s a j e : Nat) (he : e ≤ hay.length) (hae : a ≤ e) (haj : a ≤ j)
    (hlo : ∀ m, IsOcc P hay a e m → j ≤ m.start) :
    allRep (ideal .std P sk false) s false (.at []) a ((hay.take e).drop a) =
      allRep (ideal .std P sk false) s false (.at []) j ((hay.take e).drop j) := by
  by_cases hje : j ≤ e
  · have h1 := restart_overlapList P hne sk hay s a e he hae
    have h2 := restart_overlapList P hne sk hay s j e he hje
    refine IsOverlapList_unique P hay a e false _ _ h1 ⟨h2.1, fun m => ?_⟩
    rw [h2.2 m, isOccA_false, isOccA_false]
    exact ⟨fun hm => PreP.isOcc_mono hm haj, fun hm => isOcc_restrict hm (hlo m hm)⟩
  · rw [drop_take_nil (at_ := j) (by omega)]
    apply restart_nil P hne sk hay s a e he
    intro m hm
    have h1 := hlo m hm
    have h2 := (isOcc_start_le hm).2
    omega

/-- the loop with a `PrefilterSoundOvl` prefilter on the (mapped) ideal standard automaton -/
theorem ovlLoop_pre_ideal (P : List (List α)) (hne : ∀ p ∈ P, p ≠ []) (pre : Prefilter α)
    (sk : StartKind) (g : α → α) (i : Input α)
    (hs : PrefilterSoundOvlAt P (pre i.hay) (i.hay.map g)) (hanch : i.anch = false)
    (q0 : St α) (q : St α) (at_ : Nat) :
    (ovlLoop ((ideal .std P sk true).comap g) i.hay i.s i.e i.valid.1 (some pre) i.anch q at_).mat =
        (allRep ((ideal .std P sk false).comap g) i.s i.anch q at_
          ((i.hay.take i.e).drop at_)).head? ∧
      pending ((ideal .std P sk false).comap g) i q0
          (ovlLoop ((ideal .std P sk true).comap g) i.hay i.s i.e i.valid.1 (some pre) i.anch q
            at_) =
        (allRep ((ideal .std P sk false).comap g) i.s i.anch q at_
          ((i.hay.take i.e).drop at_)).tail := by
  have he' : i.e ≤ (i.hay.map g).length := by simpa using i.valid.1
  refine ovlLoop_pre (stdLike_comap (stdLike_ideal P sk) g) ((startFlagged_ideal .std P hne sk).comap g)
    i q0 pre ?_ ?_ (i.e - at_) q at_ rfl
  · intro a ha hc
    rw [hanch, allRep_comap, allRep_comap, ← MiscP.drop_take_map, ← MiscP.drop_take_map]
    have hno := hs.none_sound a i.e he' (by omega) hc
    exact ⟨restart_nil P hne sk (i.hay.map g) i.s (a + 1) i.e he'
        (fun m hm => hno m (PreP.isOcc_mono hm (by omega))),
      restart_nil P hne sk (i.hay.map g) i.s a i.e he' hno⟩
  · intro a j ha hc hj
    rw [hanch, allRep_comap, allRep_comap, ← MiscP.drop_take_map, ← MiscP.drop_take_map]
    have hlo := hs.some_sound a i.e j he' (by omega) hc
    exact restart_jump P hne sk (i.hay.map g) i.s (a + 1) j i.e he' (by omega) (by omega)
      (fun m hm => hlo m (PreP.isOcc_mono hm (by omega)))

/-- one call with the prefilter, from ANY state: it reports the head of the prefilter-free
`pending` list of that state and leaves a state whose `pending` list is the tail -/
theorem ovl_step_pre_ideal (P : List (List α)) (hne : ∀ p ∈ P, p ≠ []) (pre : Prefilter α)
    (sk : StartKind) (g : α → α) (i : Input α)
    (hs : PrefilterSoundOvlAt P (pre i.hay) (i.hay.map g)) (h : supportsAnch sk i.anch)
    (hd : i.isDone = false) (hanch : i.anch = false) (st : OState (St α)) :
    ∃ st', tryFindOverlappingFwd ((ideal .std P sk true).comap g) (some pre) i st = .ok st' ∧
      st'.mat = (pending ((ideal .std P sk false).comap g) i (.at []) st).head? ∧
      pending ((ideal .std P sk false).comap g) i (.at []) st' =
        (pending ((ideal .std P sk false).comap g) i (.at []) st).tail :=
  ovl_step_pre (stdLike_comap (stdLike_ideal P sk) g) ((sameButSpecial_ideal .std P sk).comap g) rfl i pre
    (ideal_start P h) hd hanch
    (fun q at_ => ovlLoop_pre_ideal P hne pre sk g i hs hanch (.at []) q at_) st

/-- every call history, from any state -/
theorem ovlCalls_transparent_comap (P : List (List α)) (hne : ∀ p ∈ P, p ≠ [])
    (pre : Prefilter α) (sk : StartKind) (g : α → α) (i : Input α)
    (hs : PrefilterSoundOvlAt P (pre i.hay) (i.hay.map g)) (h : supportsAnch sk i.anch)
    (n : Nat) (st : OState (St α)) :
    ovlCalls ((ideal .std P sk true).comap g) (some pre) i n st =
      ovlCalls ((ideal .std P sk false).comap g) none i n st := by
  by_cases hi : i.isDone = true ∨ i.anch = true
  · exact calls_of_tryEq _ _ _ _ i
      (tryOvl_noPre ((sameButSpecial_ideal .std P sk).comap g) rfl rfl (some pre) i hi) n st
  · have hd : i.isDone = false := by
      cases h' : i.isDone with
      | true => exact absurd (Or.inl h') hi
      | false => rfl
    have hanch : i.anch = false := by
      cases h' : i.anch with
      | true => exact absurd (Or.inr h') hi
      | false => rfl
    exact calls_of_step _ _ _ _ i _ _
      (ovl_step_pre_ideal P hne pre sk g i hs h hd hanch)
      (ovl_step (stdLike_comap (stdLike_ideal P sk) g) i (ideal_start P h) hd) n st st rfl

theorem ovlIterAux_transparent_comap (P : List (List α)) (hne : ∀ p ∈ P, p ≠ [])
    (pre : Prefilter α) (sk : StartKind) (g : α → α) (i : Input α)
    (hs : PrefilterSoundOvlAt P (pre i.hay) (i.hay.map g)) (h : supportsAnch sk i.anch)
    (fuel : Nat) (st : OState (St α)) :
    ovlIterAux ((ideal .std P sk true).comap g) (some pre) i fuel st =
      ovlIterAux ((ideal .std P sk false).comap g) none i fuel st := by
  by_cases hi : i.isDone = true ∨ i.anch = true
  · exact iter_of_tryEq _ _ _ _ i
      (tryOvl_noPre ((sameButSpecial_ideal .std P sk).comap g) rfl rfl (some pre) i hi) fuel st
  · have hd : i.isDone = false := by
      cases h' : i.isDone with
      | true => exact absurd (Or.inl h') hi
      | false => rfl
    have hanch : i.anch = false := by
      cases h' : i.anch with
      | true => exact absurd (Or.inr h') hi
      | false => rfl
    exact iter_of_step _ _ _ _ i _ _
      (ovl_step_pre_ideal P hne pre sk g i hs h hd hanch)
      (ovl_step (stdLike_comap (stdLike_ideal P sk) g) i (ideal_start P h) hd) fuel st st rfl

/-! ### `g = id` -/

theorem ovlCalls_transparent (P : List (List α)) (hne : ∀ p ∈ P, p ≠ []) (pre : Prefilter α)
    (hs : PrefilterSoundOvl P pre) (sk : StartKind) (i : Input α) (h : supportsAnch sk i.anch)
    (n : Nat) (st : OState (St α)) :
    ovlCalls (ideal .std P sk true) (some pre) i n st =
      ovlCalls (ideal .std P sk false) none i n st := by
  have hs' : PrefilterSoundOvlAt P (pre i.hay) (i.hay.map id) := by
    rw [List.map_id]; exact hs.at i.hay
  exact ovlCalls_transparent_comap P hne pre sk id i hs' h n st

theorem ovlIterAux_transparent (P : List (List α)) (hne : ∀ p ∈ P, p ≠ []) (pre : Prefilter α)
    (hs : PrefilterSoundOvl P pre) (sk : StartKind) (i : Input α) (h : supportsAnch sk i.anch)
    (fuel : Nat) (st : OState (St α)) :
    ovlIterAux (ideal .std P sk true) (some pre) i fuel st =
      ovlIterAux (ideal .std P sk false) none i fuel st := by
  have hs' : PrefilterSoundOvlAt P (pre i.hay) (i.hay.map id) := by
    rw [List.map_id]; exact hs.at i.hay
  exact ovlIterAux_transparent_comap P hne pre sk id i hs' h fuel st

/-! ### the iterator through a byte map -/

theorem findAt_transparent_comap (k : MatchKind) (P : List (List α)) (hne : ∀ p ∈ P, p ≠ [])
    (pre : Prefilter α) (sk : StartKind) (g : α → α) (i : Input α)
    (hs : PrefilterSoundAt k P (pre i.hay) (i.hay.map g))
    (he : k = .std ∨ i.earliest = false) (h : supportsAnch sk i.anch) :
    findAt ((ideal k P sk true).comap g) (some pre) i =
      findAt ((ideal k P sk false).comap g) none i := by
  funext st
  unfold findAt
  split
  · rename_i hst
    rw [transparent_comap k P hne pre sk g { i with s := st, valid := ⟨i.valid.1, hst⟩ } hs he h]
  · rfl

theorem findIter_transparent_comap (k : MatchKind) (P : List (List α)) (hne : ∀ p ∈ P, p ≠ [])
    (pre : Prefilter α) (sk : StartKind) (g : α → α) (i : Input α)
    (hs : PrefilterSoundAt k P (pre i.hay) (i.hay.map g))
    (he : k = .std ∨ i.earliest = false) (h : supportsAnch sk i.anch) :
    findIter ((ideal k P sk true).comap g) (some pre) i =
      findIter ((ideal k P sk false).comap g) none i := by
  unfold findIter
  rw [findAt_transparent_comap k P hne pre sk g i hs he h]
  rfl

end AcVerif.PreP2
