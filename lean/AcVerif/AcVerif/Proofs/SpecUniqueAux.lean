import AcVerif.Spec
/-!
# Helpers for the uniqueness of the specification's answers
-/
namespace AcVerif
namespace EngP
variable {α : Type}

/-- two occurrences of the same pattern at the same start have the same end -/
theorem occ_stop_eq {P : List (List α)} {hay : List α} {s e : Nat} {m m' : Mat}
    (h : IsOcc P hay s e m) (h' : IsOcc P hay s e m') (hp : m.pid = m'.pid)
    (hs : m.start = m'.start) : m.stop = m'.stop := by
  obtain ⟨p, h1, _, h3, _, _⟩ := h
  obtain ⟨p', h1', _, h3', _, _⟩ := h'
  rw [hp, h1'] at h1
  cases h1
  omega

theorem Mat.ext' {a b : Mat} (h1 : a.pid = b.pid) (h2 : a.start = b.start) (h3 : a.stop = b.stop) :
    a = b := by
  cases a; cases b; simp_all

/-- `better k` is antisymmetric on occurrences -/
theorem better_antisymm (k : MatchKind) {P : List (List α)} {hay : List α} {s e : Nat}
    {m m' : Mat} (h : IsOcc P hay s e m) (h' : IsOcc P hay s e m')
    (hb : better k m m') (hb' : better k m' m) : m = m' := by
  cases k
  · simp only [better, betterStd] at hb hb'
    exact Mat.ext' (by omega) (by omega) (by omega)
  · simp only [better, betterLF] at hb hb'
    have hp : m.pid = m'.pid := by omega
    have hs : m.start = m'.start := by omega
    exact Mat.ext' hp hs (occ_stop_eq h h' hp hs)
  · simp only [better, betterLL] at hb hb'
    exact Mat.ext' (by omega) (by omega) (by omega)

theorem ovlBefore_asymm (a b : Mat) (h : ovlBefore a b) (h' : ovlBefore b a) : False := by
  simp only [ovlBefore] at h h'; omega

/-- a list sorted by an asymmetric relation is determined by its member set -/
theorem sorted_unique {β : Type} (R : β → β → Prop) (asym : ∀ a b, R a b → R b a → False) :
    ∀ (l l' : List β), l.Pairwise R → l'.Pairwise R → (∀ m, m ∈ l ↔ m ∈ l') → l = l' := by
  intro l
  induction l with
  | nil =>
    intro l' _ _ hm
    cases l' with
    | nil => rfl
    | cons b t => exact absurd ((hm b).2 (List.mem_cons_self ..)) (by simp)
  | cons a t ih =>
    intro l' hl hl' hm
    cases l' with
    | nil => exact absurd ((hm a).1 (List.mem_cons_self ..)) (by simp)
    | cons b t' =>
      rw [List.pairwise_cons] at hl hl'
      have hab : a = b := by
        by_cases hab : a = b
        · exact hab
        · have h1 : a ∈ t' := by
            have := (hm a).1 (List.mem_cons_self ..)
            rw [List.mem_cons] at this
            exact this.resolve_left hab
          have h2 : b ∈ t := by
            have := (hm b).2 (List.mem_cons_self ..)
            rw [List.mem_cons] at this
            exact this.resolve_left (fun h => hab h.symm)
          exact (asym a b (hl.1 b h2) (hl'.1 a h1)).elim
      subst hab
      congr 1
      apply ih t' hl.2 hl'.2
      intro m
      constructor
      · intro hmt
        have := (hm m).1 (List.mem_cons_of_mem _ hmt)
        rw [List.mem_cons] at this
        rcases this with rfl | h
        · exact (asym _ _ (hl.1 _ hmt) (hl.1 _ hmt)).elim
        · exact h
      · intro hmt
        have := (hm m).2 (List.mem_cons_of_mem _ hmt)
        rw [List.mem_cons] at this
        rcases this with rfl | h
        · exact (asym _ _ (hl'.1 _ hmt) (hl'.1 _ hmt)).elim
        · exact h

end EngP
end AcVerif
