import AcVerif.Ideal
/-!
# Folding `min` / `max` over a list of lengths
-/
namespace AcVerif.MiscP

theorem foldl_min_le_init (l : List Nat) (a : Nat) : l.foldl min a ≤ a := by
  induction l generalizing a with
  | nil => exact Nat.le_refl _
  | cons x l ih => exact Nat.le_trans (ih (min a x)) (Nat.min_le_left _ _)

theorem foldl_min_le (l : List Nat) (a : Nat) : ∀ x ∈ l, l.foldl min a ≤ x := by
  induction l generalizing a with
  | nil => intro x hx; cases hx
  | cons y l ih =>
    intro x hx
    rcases List.mem_cons.mp hx with rfl | hx
    · exact Nat.le_trans (foldl_min_le_init l _) (Nat.min_le_right _ _)
    · exact ih _ x hx

theorem foldl_min_mem (l : List Nat) (a : Nat) : l.foldl min a = a ∨ l.foldl min a ∈ l := by
  induction l generalizing a with
  | nil => exact Or.inl rfl
  | cons y l ih =>
    rcases ih (min a y) with h | h
    · rcases Nat.le_total a y with hay | hay
      · left; rw [List.foldl_cons, h]; exact Nat.min_eq_left hay
      · right; rw [List.foldl_cons, h, Nat.min_eq_right hay]; exact List.mem_cons_self
    · exact Or.inr (List.mem_cons_of_mem _ h)

theorem le_foldl_max_init (l : List Nat) (a : Nat) : a ≤ l.foldl max a := by
  induction l generalizing a with
  | nil => exact Nat.le_refl _
  | cons x l ih => exact Nat.le_trans (Nat.le_max_left _ _) (ih (max a x))

theorem le_foldl_max (l : List Nat) (a : Nat) : ∀ x ∈ l, x ≤ l.foldl max a := by
  induction l generalizing a with
  | nil => intro x hx; cases hx
  | cons y l ih =>
    intro x hx
    rcases List.mem_cons.mp hx with rfl | hx
    · exact Nat.le_trans (Nat.le_max_right _ _) (le_foldl_max_init l _)
    · exact ih _ x hx

theorem foldl_max_mem (l : List Nat) (a : Nat) : l.foldl max a = a ∨ l.foldl max a ∈ l := by
  induction l generalizing a with
  | nil => exact Or.inl rfl
  | cons y l ih =>
    rcases ih (max a y) with h | h
    · rcases Nat.le_total a y with hay | hay
      · right; rw [List.foldl_cons, h, Nat.max_eq_right hay]; exact List.mem_cons_self
      · left; rw [List.foldl_cons, h]; exact Nat.max_eq_left hay
    · exact Or.inr (List.mem_cons_of_mem _ h)

end AcVerif.MiscP
