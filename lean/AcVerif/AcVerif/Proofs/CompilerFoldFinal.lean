import AcVerif.Proofs.CompilerFoldBfs
/-!
# L1c with `fold = true`, part 4: `close_start_state_loop_for_leftmost`, the specification of
`compile k true P`, and the run-time simulation
-/
namespace AcVerif.L1cFoldP
open AcVerif AcVerif.CNfa AcVerif.L1cP AcVerif.MiscP AcVerif.LmP

/-- everything the run-time needs to know about the automaton compiled with `fold = true`:
`L` lists the folded strings of the trie nodes, `Q` are the kept folded patterns -/
structure FSf (k : MatchKind) (Q : PatSet UInt8) (L : List (List UInt8)) (N : CNfa) : Prop where
  size : N.size = L.length + 4
  mem : ∀ v, v ∈ L ↔ v ≠ [] ∧ isPref Q v = true
  depth : ∀ u, u ∈ L → u.length + 3 ≤ nu L u
  goto_in : ∀ u b, (u = [] ∨ u ∈ L) → u ++ [foldByte b] ∈ L →
    follow N (nu L u) b = nu L (u ++ [foldByte b])
  goto_out : ∀ u b, u ∈ L → u ++ [foldByte b] ∉ L → follow N (nu L u) b = FAIL
  goto_root : ∀ b, [foldByte b] ∉ L →
    follow N SU b = sidOf L (Ideal.next k Q false (.at []) (foldByte b))
  goto_dead : ∀ b, follow N DEAD b = DEAD
  goto_sa : ∀ b, follow N SA b = if [foldByte b] ∈ L then nu L [foldByte b] else FAIL
  fail : ∀ u, u ∈ L → (N.getD (nu L u) {}).fail = sidOf L (finalFail k Q u)
  mats : ∀ u, (u = [] ∨ u ∈ L) → (N.getD (nu L u) {}).matches_ = Ideal.out k Q (.at u)
  mats_dead : (N.getD DEAD {}).matches_ = []
  mats_sa : (N.getD SA {}).matches_ = Ideal.out k Q (.at [])

theorem compile_eq_f (k : MatchKind) (P : List (List UInt8)) :
    compile k true P = closeStartLoop k (fillFailure k true (startPhase (buildTrie k true P))) :=
  rfl

theorem FSf_of_FI {k : MatchKind} {Q : PatSet UInt8} {L : List (List UInt8)} {n0 n : CNfa}
    {pend : List (List UInt8)} (hB : PBf Q L n0) (h : FI k Q L n0 n pend)
    (hall : ∀ v, v ∈ L → v ∉ pend) : FSf k Q L (closeStartLoop k n) := by
  have hmSU : (n.getD SU {}).matches_ = idsOf Q [] := by
    rw [FIf.mats_root hB h, out_nil]
  have him : isMatch n SU = !(idsOf Q []).isEmpty := by rw [isMatch_eq, hmSU]
  have hSUlt : SU < n.size := by rw [h.size, hB.size]; simp [SU]
  have hnode : ∀ u, u ∈ L → nu L u ≠ SU := by
    intro u hu
    have := nu_ge (L := L) (hB.ne_nil hu)
    simp only [SU]; omega
  rw [closeStartLoop_eq, him]
  by_cases hcond : (k.isLeftmost && !(idsOf Q []).isEmpty) = true
  · rw [if_pos hcond]
    simp only [Bool.and_eq_true, Bool.not_eq_true', List.isEmpty_eq_false_iff] at hcond
    obtain ⟨hlm, h0⟩ := hcond
    have hk : k ≠ .std := (isLeftmost_eq_true k).1 hlm
    have hget := getD_closeSU n hSUlt
    have hfull : ∀ b, ∃ t, (b, t) ∈ (n.getD SU {}).trans := by
      intro b; rw [h.trans]; exact hB.full b
    have hfolSU : ∀ b, follow (closeSU n) SU b =
        if follow n SU b = SU then DEAD else follow n SU b := by
      intro b
      rw [follow_eq, hget, if_pos rfl]
      show lookup ((n.getD SU {}).trans.map fun x => (x.1, if x.2 == SU then DEAD else x.2)) b = _
      rw [lookup_map (fun t => if t == SU then DEAD else t) _ b (hfull b), ← follow_eq]
      by_cases e : follow n SU b = SU
      · simp [e]
      · simp [e]
    have hfol : ∀ sid b, sid ≠ SU → follow (closeSU n) sid b = follow n0 sid b := by
      intro sid b hs
      rw [follow_eq, hget, if_neg hs, ← follow_eq, h.follow_eq0]
    refine
      { size := by unfold closeSU; rw [Array.size_modify, h.size]; exact hB.size, mem := hB.mem,
        depth := hB.depth, goto_in := ?_, goto_out := ?_, goto_root := ?_, goto_dead := ?_,
        goto_sa := ?_, fail := ?_, mats := ?_, mats_dead := ?_, mats_sa := ?_ }
    · intro u b hu hin
      rcases hu with e | hm
      · subst e
        have := hB.goto_in [] b (Or.inl rfl) hin
        rw [nu_nil, ← h.follow_eq0] at this
        rw [nu_nil, hfolSU, this, if_neg]
        have := nu_ge (L := L) (u := [] ++ [foldByte b]) (by simp)
        simp only [SU]; omega
      · rw [hfol _ _ (hnode u hm)]; exact hB.goto_in u b (Or.inr hm) hin
    · intro u b hu hout
      rw [hfol _ _ (hnode u hu)]; exact hB.goto_out u b hu hout
    · intro b hout
      have := hB.goto_root b hout
      rw [← h.follow_eq0] at this
      rw [hfolSU, this, if_pos rfl]
      have hp : ¬ isPref Q [foldByte b] = true := fun hp => hout ((hB.isPref_iff_mem [] _).1 hp)
      have hn : Ideal.next k Q false (.at []) (foldByte b) = .dead := by
        have : Ideal.next k Q false (.at []) (foldByte b) = stepLm Q [] (foldByte b) := by
          cases k with
          | std => exact absurd rfl hk
          | lf => rfl
          | ll => rfl
        rw [this, stepLm_root, if_neg hp, if_neg (by simpa using h0)]
      rw [hn]; rfl
    · intro b
      rw [hfol _ _ (by simp [DEAD, SU])]; exact hB.goto_dead b
    · intro b
      rw [hfol _ _ (by simp [SA, SU])]; exact hB.goto_sa b
    · intro u hu
      rw [hget, if_neg (hnode u hu)]; exact (h.done u hu (hall u hu)).1
    · intro u hu
      rcases hu with e | hm
      · subst e; rw [nu_nil, hget, if_pos rfl]; exact FIf.mats_root hB h
      · rw [hget, if_neg (hnode u hm)]; exact (h.done u hm (hall u hm)).2
    · rw [hget, if_neg (by simp [DEAD, SU])]; exact FIf.mats_dead hB h
    · rw [hget, if_neg (by simp [SA, SU]), h.keep SA (by simp [SA]), hB.mats_sa, out_nil]
  · rw [if_neg hcond]
    have hk : k = .std ∨ idsOf Q [] = [] := by
      by_cases hstd : k = .std
      · exact Or.inl hstd
      · right
        rw [(isLeftmost_eq_true k).2 hstd] at hcond
        simpa using hcond
    refine
      { size := by rw [h.size]; exact hB.size, mem := hB.mem,
        depth := hB.depth, goto_in := ?_, goto_out := ?_, goto_root := ?_, goto_dead := ?_,
        goto_sa := ?_, fail := ?_, mats := ?_, mats_dead := FIf.mats_dead hB h, mats_sa := ?_ }
    · intro u b hu hin; rw [h.follow_eq0]; exact hB.goto_in u b hu hin
    · intro u b hu hout; rw [h.follow_eq0]; exact hB.goto_out u b hu hout
    · intro b hout
      have hp : ¬ isPref Q [foldByte b] = true := fun hp => hout ((hB.isPref_iff_mem [] _).1 hp)
      rw [h.follow_eq0, hB.goto_root b hout, next_root k Q _ hp hk]
      simp [sidOf]
    · intro b; rw [h.follow_eq0]; exact hB.goto_dead b
    · intro b; rw [h.follow_eq0]; exact hB.goto_sa b
    · intro u hu; exact (h.done u hu (hall u hu)).1
    · intro u hu
      rcases hu with e | hm
      · subst e; rw [nu_nil]; exact FIf.mats_root hB h
      · exact (h.done u hm (hall u hm)).2
    · rw [h.keep SA (by simp [SA]), hB.mats_sa, out_nil]

/-- the automaton compiled with `fold = true` meets the final specification, over the folded
patterns -/
theorem compile_spec_f (k : MatchKind) (P : List (List UInt8)) :
    ∃ L, FSf k (patSet k (foldPats P)) L (compile k true P) := by
  obtain ⟨L, hT⟩ := buildTrie_fold_spec k P
  have hB := PBf_startPhase hT
  obtain ⟨pend, hF, hall⟩ := fillFailure_spec_f (k := k) hB
  exact ⟨L, by rw [compile_eq_f]; exact FSf_of_FI hB hF hall⟩

/-! ## `next_state` on the compiled automaton simulates the ideal automaton fed folded bytes -/

section
variable {k : MatchKind} {Q : PatSet UInt8} {L : List (List UInt8)} {N : CNfa}

theorem FSf.isPref_iff_mem (h : FSf k Q L N) (u : List UInt8) (b : UInt8) :
    isPref Q (u ++ [b]) = true ↔ u ++ [b] ∈ L := by
  rw [h.mem]; simp

theorem FSf.lsp_mem (h : FSf k Q L N) (w : List UInt8) : lsp Q w = [] ∨ lsp Q w ∈ L := by
  by_cases h0 : lsp Q w = []
  · exact Or.inl h0
  · exact Or.inr ((h.mem _).2 ⟨h0, lsp_isPref h0⟩)

theorem FSf.len_lt_size (h : FSf k Q L N) {u : List UInt8} (hu : u = [] ∨ u ∈ L) :
    u.length + 3 < N.size := by
  rcases hu with h0 | hm
  · subst h0; rw [h.size]; simp
  · have h1 := h.depth u hm
    have h2 : nu L u < L.length + 4 := nu_lt hm (fun e => ((h.mem u).1 hm).1 e)
    rw [h.size]; omega

/-- one unanchored `next_state` call on byte `b` from the node `w`: the failure chain ends in the
model's next state on `foldByte b` after exactly `hops` links -/
theorem run_step_f (h : FSf k Q L N) (b : UInt8) :
    ∀ (m : Nat) (w : List UInt8), w.length ≤ m → (w = [] ∨ w ∈ L) → ∀ fuel hp, w.length < fuel →
      nextState N false fuel (nu L w) b hp =
        (sidOf L (Ideal.next k Q false (.at w) (foldByte b)),
          hp + hops k Q (foldByte b) w.length w) := by
  intro m
  induction m with
  | zero =>
    intro w hw _ fuel hp hfuel
    have : w = [] := List.eq_nil_of_length_eq_zero (by omega)
    subst this
    obtain ⟨fuel', rfl⟩ : ∃ f', fuel = f' + 1 := ⟨fuel - 1, by omega⟩
    rw [hops_nil, Nat.add_zero]
    by_cases hp' : isPref Q ([] ++ [foldByte b]) = true
    · have hin := (h.isPref_iff_mem [] _).1 hp'
      have hf := h.goto_in [] b (Or.inl rfl) hin
      rw [nextState_stop _ _ _ _ _ _ (by rw [hf]; exact nu_ne_fail _ _), hf,
        next_goto k Q [] _ hp']
      rfl
    · have hout : [foldByte b] ∉ L := fun hin => hp' ((h.isPref_iff_mem [] _).2 hin)
      have hf := h.goto_root b hout
      rw [nu_nil, nextState_stop _ _ _ _ _ _ (by rw [hf]; exact sidOf_ne_fail _ _), hf]
      rfl
  | succ m ih =>
    intro w hw hwL fuel hp hfuel
    obtain ⟨fuel', rfl⟩ : ∃ f', fuel = f' + 1 := ⟨fuel - 1, by omega⟩
    by_cases hp' : isPref Q (w ++ [foldByte b]) = true
    · have hin := (h.isPref_iff_mem w _).1 hp'
      have hf := h.goto_in w b hwL hin
      rw [nextState_stop _ _ _ _ _ _ (by rw [hf]; exact nu_ne_fail _ _), hf,
        next_goto k Q w _ hp', hops_goto k Q _ _ w hp']
      rfl
    · cases w with
      | nil =>
        have hout : [foldByte b] ∉ L := fun hin => hp' ((h.isPref_iff_mem [] _).2 hin)
        have hf := h.goto_root b hout
        rw [nu_nil, nextState_stop _ _ _ _ _ _ (by rw [hf]; exact sidOf_ne_fail _ _), hf,
          hops_nil]
        rfl
      | cons a t =>
        have hwL' : a :: t ∈ L := hwL.resolve_left (List.cons_ne_nil _ _)
        have hout : a :: t ++ [foldByte b] ∉ L := fun hin => hp' ((h.isPref_iff_mem _ _).2 hin)
        have hf := h.goto_out _ b hwL' hout
        rw [nextState_go _ _ _ _ _ hf, h.fail _ hwL', next_unfold k Q a t _ hp']
        have hl := lsp_length_le Q t
        have hh : hops k Q (foldByte b) (a :: t).length (a :: t) =
            hops k Q (foldByte b) (t.length + 1) (a :: t) := rfl
        rw [hh, hops, if_neg hp', if_neg (List.cons_ne_nil _ _)]
        unfold finalFail
        simp only [failStd_cons]
        by_cases hb : (k != .std && blocked Q (a :: t) ((a :: t).length - (lsp Q t).length)) = true
        · simp only [hb, if_true]
          show nextState N false fuel' DEAD b (hp + 1) = (DEAD, hp + 1)
          exact nextState_dead N false fuel' b _ (h.goto_dead b)
        · simp only [hb, Bool.false_eq_true, if_false]
          simp only [List.length_cons] at hw hfuel
          show nextState N false fuel' (nu L (lsp Q t)) b (hp + 1) = _
          rw [ih (lsp Q t) (by omega) (h.lsp_mem t) fuel' (hp + 1) (by omega),
            CostP.hops_fuel k Q (foldByte b) t.length (lsp Q t).length (lsp Q t) hl (Nat.le_refl _)]
          simp only [Nat.add_assoc]

theorem next_valid_f (h : FSf k Q L N) (anch : Bool) (w : List UInt8) (b : UInt8) :
    match Ideal.next k Q anch (.at w) b with
    | .dead => True
    | .at v => v = [] ∨ v ∈ L := by
  have hpre : ∀ v, isPref Q v = true → v = [] ∨ v ∈ L := by
    intro v hv
    by_cases h0 : v = []
    · exact Or.inl h0
    · exact Or.inr ((h.mem v).2 ⟨h0, hv⟩)
  have hanch : match stepAnch Q w b with | .dead => True | .at v => v = [] ∨ v ∈ L := by
    unfold stepAnch
    by_cases hp : isPref Q (w ++ [b]) = true
    · rw [if_pos hp]; exact hpre _ hp
    · rw [if_neg hp]; trivial
  have hlm : match stepLm Q w b with | .dead => True | .at v => v = [] ∨ v ∈ L := by
    unfold stepLm
    by_cases hp : isPref Q (w ++ [b]) = true
    · rw [if_pos hp]; exact hpre _ hp
    · rw [if_neg hp]
      simp only []
      by_cases hb : blocked Q w (w.length + 1 - (lsp Q (w ++ [b])).length) = true
      · rw [if_pos hb]; trivial
      · rw [if_neg hb]; exact h.lsp_mem _
  cases anch with
  | true => simpa [Ideal.next] using hanch
  | false =>
    cases k with
    | std => simp only [Ideal.next, Bool.false_eq_true, if_false, stepStd]; exact h.lsp_mem _
    | lf => simpa [Ideal.next] using hlm
    | ll => simpa [Ideal.next] using hlm

theorem Rel_sidOf_f (q : St UInt8)
    (hq : match q with | .dead => True | .at v => v = [] ∨ v ∈ L) : Rel L false (sidOf L q) q := by
  cases q with
  | dead => rfl
  | «at» v =>
    by_cases h0 : v = []
    · subst h0; simp [Rel, sidOf]
    · exact Rel_of_node (hq.resolve_left h0) h0

theorem step_unanch_f (h : FSf k Q L N) {sid : Nat} {q : St UInt8} (hr : Rel L false sid q)
    (b : UInt8) :
    nextState N false (N.size + 1) sid b 0 =
      (sidOf L (Ideal.next k Q false q (foldByte b)), Ideal.hops k Q false q (foldByte b)) := by
  cases q with
  | dead =>
    have : sid = DEAD := hr
    subst this
    rw [nextState_dead N false _ b 0 (h.goto_dead b)]
    rfl
  | «at» u =>
    have hu : (u = [] ∨ u ∈ L) ∧ sid = nu L u := by
      by_cases h0 : u = []
      · subst h0
        simp only [Rel, if_true, Bool.false_eq_true, if_false] at hr
        exact ⟨Or.inl rfl, by rw [hr, nu_nil]⟩
      · simp only [Rel, if_neg h0] at hr
        exact ⟨Or.inr hr.1, hr.2⟩
    rw [hu.2, run_step_f h b u.length u (Nat.le_refl _) hu.1 (N.size + 1) 0
      (by have := h.len_lt_size hu.1; omega), Nat.zero_add]
    simp only [Ideal.hops, Bool.false_eq_true, if_false]

theorem step_anch_f (h : FSf k Q L N) {sid : Nat} {q : St UInt8} (hr : Rel L true sid q)
    (b : UInt8) :
    Rel L true (nextState N true (N.size + 1) sid b 0).1 (Ideal.next k Q true q (foldByte b)) := by
  cases q with
  | dead =>
    have : sid = DEAD := hr
    subst this
    rw [nextState_dead N true _ b 0 (h.goto_dead b)]
    rfl
  | «at» u =>
    have hnext : Ideal.next k Q true (.at u) (foldByte b) = stepAnch Q u (foldByte b) := by
      simp only [Ideal.next, if_true]
    rw [hnext]
    have hsnoc : u ++ [foldByte b] ≠ [] := by simp
    -- in both cases the transition on `b` is the trie edge or `FAIL`
    have hfol : follow N sid b =
        if u ++ [foldByte b] ∈ L then nu L (u ++ [foldByte b]) else FAIL := by
      by_cases h0 : u = []
      · subst h0
        simp only [Rel, if_true] at hr
        rw [hr]; exact h.goto_sa b
      · simp only [Rel, if_neg h0] at hr
        rw [hr.2]
        by_cases hin : u ++ [foldByte b] ∈ L
        · rw [if_pos hin]; exact h.goto_in u b (Or.inr hr.1) hin
        · rw [if_neg hin]; exact h.goto_out u b hr.1 hin
    unfold stepAnch
    by_cases hin : u ++ [foldByte b] ∈ L
    · rw [if_pos hin] at hfol
      rw [if_pos ((h.isPref_iff_mem u _).2 hin),
        nextState_stop N true _ sid b 0 (by rw [hfol]; exact nu_ne_fail _ _), hfol]
      exact Rel_of_node hin hsnoc
    · rw [if_neg hin] at hfol
      rw [if_neg (fun hp => hin ((h.isPref_iff_mem u _).1 hp)), nextState_anch_fail N _ sid b 0 hfol]
      rfl

/-- one step preserves the relation, in either mode: the compiled automaton reads `b`, the ideal
automaton of the folded patterns reads `foldByte b` -/
theorem Rel_step_f (h : FSf k Q L N) (anch : Bool) {sid : Nat} {q : St UInt8}
    (hr : Rel L anch sid q) (b : UInt8) :
    Rel L anch (nextState N anch (N.size + 1) sid b 0).1 (Ideal.next k Q anch q (foldByte b)) := by
  cases anch with
  | true => exact step_anch_f h hr b
  | false =>
    rw [step_unanch_f h hr b]
    apply Rel_sidOf_f
    cases q with
    | dead => simp [Ideal.next]
    | «at» u => exact next_valid_f h false u (foldByte b)

/-- related states carry the same match list and flags -/
theorem Rel_mats_f (h : FSf k Q L N) {anch : Bool} {sid : Nat} {q : St UInt8}
    (hr : Rel L anch sid q) : (N.getD sid {}).matches_ = Ideal.out k Q q := by
  cases q with
  | dead =>
    have : sid = DEAD := hr
    subst this
    rw [h.mats_dead]; cases k <;> rfl
  | «at» u =>
    by_cases h0 : u = []
    · subst h0
      simp only [Rel, if_true] at hr
      cases anch with
      | true => simp only [if_true] at hr; rw [hr]; exact h.mats_sa
      | false =>
        simp only [Bool.false_eq_true, if_false] at hr
        rw [hr]
        have := h.mats [] (Or.inl rfl)
        rw [nu_nil] at this; exact this
    · simp only [Rel, if_neg h0] at hr
      rw [hr.2]; exact h.mats u (Or.inr hr.1)

end

end AcVerif.L1cFoldP
