import AcVerif.Proofs.NfaMemCompileRel
/-!
# L1c-mem assembly, part 4: the preamble, `build_trie` and the two start-state phases
-/
namespace AcVerif.MemC
open AcVerif AcVerif.CNfa AcVerif.L1cP AcVerif.BuildP AcVerif.MemP

/-! ## the preamble -/

theorem initFull_sizes (prev next : Nat) :
    ∀ (l : List Nat) (m : MemNfa) (pl : Nat),
      (l.foldl (MemNfa.initFullStep prev next) (m, pl)).1.sparse.size = m.sparse.size + l.length ∧
      (l.foldl (MemNfa.initFullStep prev next) (m, pl)).1.matches_ = m.matches_
  | [], _, _ => ⟨rfl, rfl⟩
  | x :: l, m, pl => by
    rw [List.foldl_cons, initFullStep_eq]
    obtain ⟨h1, h2⟩ := initFull_sizes prev next l (insCell m prev pl 0 x.toUInt8 next) m.sparse.size
    rw [h1, h2, sparse_size_insCell, matches_insCell]
    exact ⟨by simp only [List.length_cons]; omega, rfl⟩

theorem initFullState_sizes (m : MemNfa) (prev next : Nat) :
    (m.initFullState prev next).sparse.size = m.sparse.size + 256 ∧
    (m.initFullState prev next).matches_ = m.matches_ := by
  unfold MemNfa.initFullState
  generalize hl : List.range 256 = l
  have hlen : l.length = 256 := by rw [← hl, List.length_range]
  have := initFull_sizes prev next l m 0
  rw [hlen] at this
  exact this

theorem failEq_init : FailEq (absNfa MemNfa.init) CNfa.init := by
  refine ⟨by rw [absNfa_init]; rfl, fun s => ?_⟩
  obtain ⟨h1, h2⟩ := absNfa_init_trans s
  refine ⟨h1, h2, fun h3 => ?_⟩
  by_cases e : s = 3
  · subst e; rw [absNfa_init]; rfl
  · have hs : 4 ≤ s := by omega
    rw [getD_of_size_le _ (by rw [absNfa_init]; exact hs), getD_of_size_le _ hs]

theorem st_fail_eq (m : MemNfa) {s : Nat} (hs : s < m.states.size) :
    (m.st s).fail = ((absNfa m).getD s {}).fail := by
  rw [getD_absNfa_lt m hs]; rfl

theorem init_low (s : Nat) (hs : s < 3) : (MemNfa.init.st s).fail = 0 := by
  have hsz : MemNfa.init.states.size = 4 := by
    have := size_absNfa MemNfa.init
    rw [absNfa_init] at this
    exact this.symm
  rw [st_fail_eq _ (by rw [hsz]; omega), absNfa_init]
  have : s = 0 ∨ s = 1 ∨ s = 2 := by omega
  rcases this with e | e | e <;> subst e <;> rfl

/-- the memory after the preamble of `compile` refines `CNfa.init`; `nfa.sparse` has `1 + 3·256`
entries and `nfa.matches` the dummy entry -/
theorem rel_init : Rel MemNfa.init CNfa.init := by
  refine ⟨memOK_init, ?_, failEq_init, init_low⟩
  unfold Tight
  rw [failEq_init.sparseLen, failEq_init.matchesLen, sparseLen_eq, matchesLen_eq, wsum_gT_init,
    wsum_gM_init, init_eq]
  obtain ⟨a1, a2⟩ := initFullState_sizes ((init4.initFullState 2 MemNfa.FAIL).initFullState 3
    MemNfa.FAIL) 0 0
  obtain ⟨b1, b2⟩ := initFullState_sizes (init4.initFullState 2 MemNfa.FAIL) 3 MemNfa.FAIL
  obtain ⟨c1, c2⟩ := initFullState_sizes init4 2 MemNfa.FAIL
  rw [a1, a2, b1, b2, c1, c2]
  exact ⟨rfl, rfl⟩

/-! ## `build_trie` -/

/-- lines 1138-1143 on the memory -/
def memAllocChild (fold : Bool) (m : MemNfa) (prev : Nat) (b : UInt8) (depth : Nat) : MemNfa :=
  let m2 := (m.allocState depth 2).1.addTransition prev b m.states.size
  if fold then m2.addTransition prev (oppositeAsciiCase b) m.states.size else m2

theorem memAddPattern_cons (lf fold : Bool) (m : MemNfa) (prev : Nat) (saw : Bool) (depth : Nat)
    (b : UInt8) (rest : List UInt8) :
    MemNfa.addPattern lf fold 2 m prev saw depth (b :: rest) =
      if (lf && (saw || m.isMatch prev)) = true then (m, none)
      else if m.followTransitionSparse prev b ≠ MemNfa.FAIL then
        MemNfa.addPattern lf fold 2 m (m.followTransitionSparse prev b) (saw || m.isMatch prev)
          (depth + 1) rest
      else MemNfa.addPattern lf fold 2 (memAllocChild fold m prev b depth) m.states.size
        (saw || m.isMatch prev) (depth + 1) rest := by
  rw [MemNfa.addPattern]
  simp only [bne_iff_ne, ne_eq, ite_not]
  split
  · rfl
  · split
    · rfl
    · rfl

theorem rel_allocChild {m : MemNfa} {n : CNfa} (h : Rel m n) (h3 : 3 ≤ n.size) (fold : Bool)
    {prev : Nat} (hp : prev < n.size) (b : UInt8) (depth : Nat) :
    Rel (memAllocChild fold m prev b depth) (allocChild fold n prev b) := by
  obtain ⟨h1, _⟩ := h.allocState h3 depth
  have hp1 : prev < (n.push ({ fail := SU } : CState)).size := by rw [Array.size_push]; omega
  have h2 := h1.addTransition hp1 b n.size
  unfold memAllocChild allocChild
  rw [h.size]
  cases fold
  · exact h2
  · refine h2.addTransition ?_ (oppositeAsciiCase b) n.size
    unfold CNfa.addTransition
    rw [Array.size_modify]; exact hp1

/-- the pattern loop of `build_trie` on the memory refines `addPatternK` -/
theorem sim_addPattern (lf fold : Bool) (pat : List UInt8) :
    ∀ (m : MemNfa) (n : CNfa) (d : Nat → Nat) (prev : Nat) (saw : Bool) (depth : Nat),
      Rel m n → TI fold n d → prev < n.size → (prev = 2 ∨ 4 ≤ prev) →
      Rel (MemNfa.addPattern lf fold 2 m prev saw depth pat).1
        (addPatternK lf fold n prev saw pat).1 ∧
      (MemNfa.addPattern lf fold 2 m prev saw depth pat).2 =
        (addPatternK lf fold n prev saw pat).2 := by
  induction pat with
  | nil => intro m n d prev saw depth h _ _ _; exact ⟨h, rfl⟩
  | cons b rest ih =>
    intro m n d prev saw depth h hT hp hp2
    have hF : MemNfa.FAIL = CNfa.FAIL := rfl
    rw [memAddPattern_cons, addPatternK_cons, h.isMatch, h.follow, hF]
    split
    · exact ⟨h, rfl⟩
    · split
      · rename_i hf
        have hm := mem_of_lookup (l := (n.getD prev {}).trans) (b := b) rfl
          (by rw [← follow_eq]; exact hf)
        rw [← follow_eq] at hm
        obtain ⟨a1, _, a3, a4⟩ := hT.edge prev _ hm
        refine ih m n d _ _ _ h hT a1 ?_
        rcases hp2 with e | e
        · rcases a4 e with e' | e'
          · exact absurd e' hf
          · exact Or.inr e'
        · exact Or.inr (a3 e)
      · rw [h.size]
        exact ih _ _ _ _ _ _ (rel_allocChild h (by have := hT.size4; omega) fold hp b depth) (hT.alloc hp hp2 b)
          (by rw [size_allocChild]; omega) (Or.inr hT.size4)

/-- the body of the `'PATTERNS` loop on the memory (the function folded by `MemNfa.buildTrie`) -/
def memTrieStep (k : MatchKind) (fold : Bool) (m : MemNfa) (x : List UInt8 × Nat) : MemNfa :=
  match MemNfa.addPattern (k == .lf) fold 2 m 2 false 0 x.1 with
  | (m, none) => m
  | (m, some last) => m.addMatch last x.2

theorem memBuildTrie_eq (k : MatchKind) (fold : Bool) (m : MemNfa) (P : List (List UInt8)) :
    m.buildTrie k fold 2 P = P.zipIdx.foldl (memTrieStep k fold) m := rfl

/-- **one pattern of `build_trie`**: the memory step refines `trieStep` (the step whose sizes
`trieStepChecked` tests) -/
theorem sim_trieStep (k : MatchKind) (fold : Bool) {m : MemNfa} {n : CNfa} {d : Nat → Nat}
    (h : Rel m n) (hT : TI fold n d) (x : List UInt8 × Nat) :
    Rel (memTrieStep k fold m x) (trieStep k fold n x) := by
  rw [trieStep_eq_K k fold n x hT]
  have hsu : SU < n.size := by have := hT.size4; simp only [SU]; omega
  obtain ⟨h1, h2⟩ := sim_addPattern (k == .lf) fold x.1 m n d SU false 0 h hT hsu (Or.inl rfl)
  obtain ⟨_, _, h3⟩ := addPatternK_TI (k == .lf) fold x.1 n d SU false hT hsu (Or.inl rfl)
  unfold memTrieStep
  show Rel (match MemNfa.addPattern (k == .lf) fold 2 m SU false 0 x.1 with
    | (m, none) => m
    | (m, some last) => m.addMatch last x.2) _
  generalize MemNfa.addPattern (k == .lf) fold 2 m SU false 0 x.1 = r at h1 h2
  generalize addPatternK (k == .lf) fold n SU false x.1 = r' at h1 h2 h3
  obtain ⟨m', o⟩ := r
  obtain ⟨n', o'⟩ := r'
  simp only at h1 h2 h3
  subst h2
  cases o with
  | none => exact h1
  | some last => exact h1.addMatch (h3 last rfl) x.2

theorem sim_foldl_trieStep (k : MatchKind) (fold : Bool) (xs : List (List UInt8 × Nat)) :
    ∀ (m : MemNfa) (n : CNfa) (d : Nat → Nat), Rel m n → TI fold n d →
      Rel (xs.foldl (memTrieStep k fold) m) (xs.foldl (trieStep k fold) n) := by
  induction xs with
  | nil => intro m n d h _; exact h
  | cons x xs ih =>
    intro m n d h hT
    obtain ⟨d', hT'⟩ := hT.trieStep k x
    exact ih _ _ d' (sim_trieStep k fold h hT x) hT'

/-- **`build_trie`** -/
theorem sim_buildTrie (k : MatchKind) (fold : Bool) (P : List (List UInt8)) :
    Rel (MemNfa.init.buildTrie k fold 2 P) (buildTrie k fold P) := by
  rw [memBuildTrie_eq, buildTrie_eq]
  exact sim_foldl_trieStep k fold _ _ _ _ rel_init (TI_init fold)

/-! ## the in-place rewrites: sizes -/

theorem replaceNextGo_sizes (sid old new : Nat) :
    ∀ (fuel : Nat) (m : MemNfa) (prev : Option Nat),
      (MemNfa.replaceNextGo sid old new fuel m prev).sparse.size = m.sparse.size ∧
      (MemNfa.replaceNextGo sid old new fuel m prev).matches_ = m.matches_
  | 0, _, _ => ⟨rfl, rfl⟩
  | fuel + 1, m, prev => by
    rw [MemNfa.replaceNextGo]
    split
    · exact ⟨rfl, rfl⟩
    · rename_i link _
      obtain ⟨h1, h2⟩ := replaceNextGo_sizes sid old new fuel
        (if (m.tr link).next = old then m.setTr link { m.tr link with next := new } else m)
        (some link)
      rw [h1, h2]
      split
      · exact ⟨sparse_size_setTr .., rfl⟩
      · exact ⟨rfl, rfl⟩

theorem copyNextGo_sizes (su sa : Nat) :
    ∀ (fuel : Nat) (m : MemNfa) (up ap : Option Nat) (r : MemNfa),
      MemNfa.copyNextGo su sa fuel m up ap = some r →
      r.sparse.size = m.sparse.size ∧ r.matches_ = m.matches_
  | 0, m, _, _, r, h => by
    have : m = r := by simpa [MemNfa.copyNextGo] using h
    subst this; exact ⟨rfl, rfl⟩
  | fuel + 1, m, up, ap, r, h => by
    rw [MemNfa.copyNextGo] at h
    split at h
    · rename_i ulink alink _ _
      obtain ⟨h1, h2⟩ := copyNextGo_sizes su sa fuel _ _ _ r h
      rw [h1, h2]
      exact ⟨sparse_size_setTr .., rfl⟩
    · have : m = r := by simpa using h
      subst this; exact ⟨rfl, rfl⟩
    · simp at h

/-! ## the two start-state phases -/

theorem rel_addLoop {m : MemNfa} {n : CNfa} (h : Rel m n) (h3 : 3 ≤ n.size) :
    Rel (m.addUnanchoredStartStateLoop 2) (addStartLoop n) := by
  obtain ⟨hok, habs⟩ := absNfa_addUnanchoredStartStateLoop h.ok
  have hok : MemOK (m.addUnanchoredStartStateLoop 2) := hok
  have habs : absNfa (m.addUnanchoredStartStateLoop 2) = addStartLoop (absNfa m) := habs
  obtain ⟨s1, s2⟩ := replaceNextGo_sizes 2 MemNfa.FAIL 2 (m.sparse.size + 1) m none
  refine ⟨hok, ?_, ?_, fun s hs => by
    rw [show m.addUnanchoredStartStateLoop 2 =
      MemNfa.replaceNextGo 2 MemNfa.FAIL 2 (m.sparse.size + 1) m none from rfl,
      (replaceNext_spec h.ok 2 MemNfa.FAIL 2).2.2.2.2.1 s]
    exact h.low s hs⟩
  · unfold addStartLoop at habs
    refine tight_modify h.tight (i := SU) (by rw [h.size]; simp only [SU]; omega) habs ?_ ?_
    · show (MemNfa.replaceNextGo ..).sparse.size + _ = _
      rw [s1]
      unfold gT
      simp only [List.length_map]
    · show (MemNfa.replaceNextGo ..).matches_.size + _ = _
      rw [s2]; rfl
  · rw [habs]
    unfold addStartLoop
    refine h.eq.modify SU ?_
    intro x y hxy
    exact ⟨by show List.map _ x.trans = List.map _ y.trans; rw [hxy.1], hxy.2.1, hxy.2.2⟩

theorem rel_closeLoop {m : MemNfa} {n : CNfa} (h : Rel m n) (h3 : 3 ≤ n.size) (k : MatchKind) :
    Rel (m.closeStartStateLoopForLeftmost 2 k.isLeftmost) (closeStartLoop k n) := by
  obtain ⟨hok, habs⟩ := absNfa_closeStartStateLoopForLeftmost h.ok k
  have hok : MemOK (m.closeStartStateLoopForLeftmost 2 k.isLeftmost) := hok
  have habs : absNfa (m.closeStartStateLoopForLeftmost 2 k.isLeftmost) =
      closeStartLoop k (absNfa m) := habs
  have hdef : m.closeStartStateLoopForLeftmost 2 k.isLeftmost =
      if (k.isLeftmost && m.isMatch 2) = true then
        MemNfa.replaceNextGo 2 2 MemNfa.DEAD (m.sparse.size + 1) m none else m := rfl
  refine ⟨hok, ?_, ?_, fun s hs => by
    rw [hdef]
    split
    · rw [(replaceNext_spec h.ok 2 2 MemNfa.DEAD).2.2.2.2.1 s]; exact h.low s hs
    · exact h.low s hs⟩
  · by_cases hc : (k.isLeftmost && CNfa.isMatch (absNfa m) SU) = true
    · have hc' : (k.isLeftmost && m.isMatch 2) = true := by rw [isMatch_eq h.ok]; exact hc
      unfold closeStartLoop at habs
      rw [if_pos hc] at habs
      obtain ⟨s1, s2⟩ := replaceNextGo_sizes 2 2 MemNfa.DEAD (m.sparse.size + 1) m none
      refine tight_modify h.tight (i := SU) (by rw [h.size]; simp only [SU]; omega) habs ?_ ?_
      · rw [hdef, if_pos hc', s1]
        unfold gT
        simp only [List.length_map]
      · rw [hdef, if_pos hc', s2]; rfl
    · have hc' : ¬ (k.isLeftmost && m.isMatch 2) = true := by rw [isMatch_eq h.ok]; exact hc
      rw [hdef, if_neg hc']; exact h.tight
  · rw [habs]
    unfold closeStartLoop
    rw [h.eq.isMatch]
    split
    · refine h.eq.modify SU ?_
      intro x y hxy
      exact ⟨by show List.map _ x.trans = List.map _ y.trans; rw [hxy.1], hxy.2.1, hxy.2.2⟩
    · exact h.eq

theorem rel_setAnchored {m : MemNfa} {n : CNfa} {fold : Bool} {d : Nat → Nat} (h : Rel m n)
    (hT : TI fold n d) :
    ∃ r, m.setAnchoredStartState 2 3 = some r ∧ Rel r (setAnchoredStart n) := by
  have hsz : SA < m.states.size := by rw [h.size]; have := hT.size4; simp only [SA]; omega
  have hbytes : (m.iterTrans SA).map Prod.fst = (m.iterTrans SU).map Prod.fst := by
    rw [h.iterTrans, h.iterTrans]
    show List.map (·.1) (n.getD 3 {}).trans = List.map (·.1) (n.getD 2 {}).trans
    rw [hT.keysSU, hT.sa]
    simp [fullTrans]
  obtain ⟨r, hr, hok, habs⟩ := absNfa_setAnchoredStartState h.ok hsz hbytes
  have hne : SU ≠ SA := by decide
  obtain ⟨r1, a1, a2, _, _, a5, a6, a7⟩ := copyNext_spec h.ok hne hbytes
  obtain ⟨s1, s2⟩ := copyNextGo_sizes SU SA _ _ _ _ r1 a1
  have hr' : r = (r1.copyMatches SU SA).setFail SA MemNfa.DEAD := by
    unfold MemNfa.setAnchoredStartState at hr
    rw [a1] at hr
    exact (Option.some.inj hr).symm
  refine ⟨r, hr, hok, ?_, ?_, ?_⟩
  rotate_left 2
  · intro s hs
    have hb := copyMatches_spec a2 (a7 ▸ hsz) hne
    rw [hr', (setFail_spec hb.1 SA MemNfa.DEAD).2.2.2.1 s,
      if_neg (fun e => by have := e.1; simp only [SA] at this; omega), hb.2.2.2.2.1 s, a6 s]
    exact h.low s hs
  · -- the lengths of the vectors
    rw [setAnchoredStart_eq] at habs
    refine tight_modify h.tight hsz habs ?_ ?_
    · rw [hr']
      show (r1.copyMatches SU SA).sparse.size + _ = _
      rw [Rel.copyMatches_sparse, s1]
      unfold gT
      show _ + (m.iterTrans SA).length = _ + ((absNfa m).getD SU {}).trans.length
      rw [getD_absNfa_lt m (Nat.lt_trans (by decide) hsz)]
      show _ + (m.iterTrans SA).length = _ + (m.iterTrans SU).length
      have := congrArg List.length hbytes
      simp only [List.length_map] at this
      rw [this]
    · rw [hr']
      have e1 : ((r1.copyMatches SU SA).setFail SA MemNfa.DEAD).matches_.size =
          m.matches_.size + (m.iterMatches SU).length := by
        show (r1.copyMatches SU SA).matches_.size = _
        rw [Rel.copyMatches_size a2 (a7 ▸ hsz) hne, a5 SU, s2]
      have e2 : gM (absState m SA) = (m.iterMatches SA).length := rfl
      have e3 : ((absNfa m).getD SU {}).matches_ = m.iterMatches SU := by
        rw [getD_absNfa_lt m (Nat.lt_trans (by decide) hsz)]; rfl
      rw [e1, e2]
      show _ = _ + ((absState m SA).matches_ ++ ((absNfa m).getD SU {}).matches_).length
      rw [e3, List.length_append]
      show _ = _ + ((m.iterMatches SA).length + _)
      omega
  · rw [habs, setAnchoredStart_eq, setAnchoredStart_eq, (h.eq.2 SU).1, (h.eq.2 SU).2.1]
    refine h.eq.modify SA ?_
    intro x y hxy
    exact ⟨rfl, by show x.matches_ ++ _ = y.matches_ ++ _; rw [hxy.2.1], fun _ => rfl⟩

end AcVerif.MemC
