import AcVerif.Proofs.VecMask
/-!
# `Mask::members1..4` at the vector level is `Teddy.member` lane by lane
-/
namespace AcVerif.VecP
open AcVerif.PackedP

/-- one mask index of `membersV` -/
def memV (t : Teddy) (fat : Bool) (w : Nat) (chunk : Vec8) (i : Nat) : Vec8 :=
  V.and (V.shuffleBytes ((maskTables t fat i).1.take w) (V.and chunk (V.splat w 0xF)))
    (V.shuffleBytes ((maskTables t fat i).2.take w)
      (V.and (V.shift8bitLaneRight4 chunk) (V.splat w 0xF)))

theorem membersV_eq (t : Teddy) (fat : Bool) (w : Nat) (chunk : Vec8) :
    membersV t fat w chunk = (List.range t.maskLen).map (memV t fat w chunk) := rfl

theorem membersV_getD (t : Teddy) (fat : Bool) (w : Nat) (chunk : Vec8) (i : Nat)
    (hi : i < t.maskLen) : (membersV t fat w chunk).getD i [] = memV t fat w chunk i := by
  rw [membersV_eq, List.getD_eq_getElem?_getD, List.getElem?_map, List.getElem?_range hi]
  rfl

theorem membersV_length (t : Teddy) (fat : Bool) (w : Nat) (chunk : Vec8) :
    (membersV t fat w chunk).length = t.maskLen := by
  rw [membersV_eq, List.length_map, List.length_range]

theorem memV_eq (t : Teddy) (fat : Bool) (w : Nat) (chunk : Vec8) (i : Nat) (hc : chunk.length = w) :
    memV t fat w chunk i =
      V.and (V.shuffleBytes ((tblOf t fat i (fun c => c &&& 0xF)).take w) (chunk.map (· &&& 0xF)))
        (V.shuffleBytes ((tblOf t fat i (fun c => c >>> 4)).take w)
          (chunk.map (fun b : UInt8 => b >>> 4))) := by
  unfold memV
  rw [maskTables_eq, hlo_eq _ _ hc, hhi_eq _ _ hc]

/-- a shuffle through a table whose 16-entry blocks all agree with `f` -/
theorem shuffle_mirror (tbl idx : Vec8) (f : Nat → UInt8) (hn : ∀ x ∈ idx, x.toNat < 16)
    (hm : ∀ j, j < idx.length → ∀ x, x < 16 → tbl.getD (j / 16 * 16 + x) 0 = f x) :
    V.shuffleBytes tbl idx = idx.map fun x => f x.toNat := by
  unfold V.shuffleBytes
  rw [← range_map_getD (fun x => f x.toNat) idx 0]
  apply List.map_congr_left
  intro j hj
  have hj' : j < idx.length := List.mem_range.1 hj
  have hlt := hn _ (getD_mem_or idx j 0 hj')
  have hx := nyb_top_clear _ hlt
  simp only
  rw [hx.1, hx.2]
  simp only [Bool.false_eq_true, if_false]
  exact hm j hj' _ hlt

theorem mem_map_lo (chunk : Vec8) : ∀ x ∈ chunk.map (· &&& (0xF : UInt8)), x.toNat < 16 := by
  intro x hx
  obtain ⟨c, _, rfl⟩ := List.mem_map.1 hx
  exact lo_nyb_lt c

theorem mem_map_hi (chunk : Vec8) : ∀ x ∈ chunk.map (fun b : UInt8 => b >>> 4), x.toNat < 16 := by
  intro x hx
  obtain ⟨c, _, rfl⟩ := List.mem_map.1 hx
  exact hi_nyb_lt c

/-- slim tables: entry `16 + x` equals entry `x` -/
theorem tbl_slim_mirror (t : Teddy) (hB : t.nBuckets = 8) (i : Nat) (nybF : UInt8 → UInt8)
    (hF : ∀ c, (nybF c).toNat < 16) (w : Nat) (hw : w = 16 ∨ w = 32) (j : Nat) (hj : j < w)
    (x : Nat) (hx : x < 16) :
    ((tblOf t false i nybF).take w).getD (j / 16 * 16 + x) 0 = (tblOf t false i nybF).getD x 0 := by
  rw [getD_take_of_lt _ _ _ _ (by omega)]
  apply UInt8.toNat_inj.1
  have hxn : (UInt8.ofNat x).toNat = x := by
    rw [UInt8.toNat_ofNat']; omega
  have h0 := tbl_slim t hB i nybF hF (UInt8.ofNat x) (by omega) 0 (Or.inl rfl)
  rw [hxn] at h0
  rw [Nat.add_zero] at h0
  rw [h0]
  rcases (by omega : j / 16 * 16 = 0 ∨ j / 16 * 16 = 16) with h | h
  · rw [h, Nat.zero_add, h0]
  · have h1 := tbl_slim t hB i nybF hF (UInt8.ofNat x) (by omega) 16 (Or.inr rfl)
    rw [hxn] at h1
    rw [h, Nat.add_comm, h1]

theorem memV_slim (t : Teddy) (hB : t.nBuckets = 8) (w : Nat) (hw : w = 16 ∨ w = 32)
    (chunk : Vec8) (hc : chunk.length = w) (i : Nat) :
    memV t false w chunk i = chunk.map fun c : UInt8 =>
      (tblOf t false i (fun c => c &&& 0xF)).getD (c &&& 0xF).toNat 0 &&&
      (tblOf t false i (fun c => c >>> 4)).getD (c >>> 4).toNat 0 := by
  rw [memV_eq _ _ _ _ _ hc,
    shuffle_mirror _ _ (fun x => (tblOf t false i (fun c => c &&& 0xF)).getD x 0) (mem_map_lo chunk)
      (fun j hj x hx => tbl_slim_mirror t hB i _ lo_nyb_lt w hw j (by simpa [hc] using hj) x hx),
    shuffle_mirror _ _ (fun x => (tblOf t false i (fun c => c >>> 4)).getD x 0) (mem_map_hi chunk)
      (fun j hj x hx => tbl_slim_mirror t hB i _ hi_nyb_lt w hw j (by simpa [hc] using hj) x hx),
    List.map_map, List.map_map]
  exact zipWith_map_same _ _ _ chunk

theorem memV_slim_length (t : Teddy) (hB : t.nBuckets = 8) (w : Nat) (hw : w = 16 ∨ w = 32)
    (chunk : Vec8) (hc : chunk.length = w) (i : Nat) : (memV t false w chunk i).length = w := by
  rw [memV_slim t hB w hw chunk hc, List.length_map, hc]

/-- slim: the member vector encodes the lane model's member lanes -/
theorem memV_slim_lane (t : Teddy) (hB : t.nBuckets = 8) (w : Nat) (hw : w = 16 ∨ w = 32)
    (chunk : Vec8) (hc : chunk.length = w) (i : Nat) :
    laneOfSlim (memV t false w chunk i) = chunk.map (t.member i) := by
  rw [memV_slim t hB w hw chunk hc]
  unfold laneOfSlim
  rw [List.map_map]
  apply List.map_congr_left
  intro c _
  simp only [Function.comp]
  have h1 := tbl_slim t hB i (fun c => c &&& 0xF) lo_nyb_lt (c &&& 0xF) (lo_nyb_lt c) 0 (Or.inl rfl)
  have h2 := tbl_slim t hB i (fun c => c >>> 4) hi_nyb_lt (c >>> 4) (hi_nyb_lt c) 0 (Or.inl rfl)
  rw [Nat.add_zero] at h1 h2
  rw [UInt8.toNat_and, h1, h2]
  rfl

/-! ## fat -/

theorem tblOf_length (t : Teddy) (fat : Bool) (i : Nat) (nybF : UInt8 → UInt8) :
    (tblOf t fat i nybF).length = 32 := by
  unfold tblOf
  generalize List.range t.nBuckets = bs
  have : ∀ (tbl : Vec8), (bs.foldl (fun tbl b => (t.buckets.getD b []).foldl (fun tbl pid =>
      stepT fat b tbl (nybF ((t.pats.get pid).getD i 0)).toNat) tbl) tbl).length = tbl.length := by
    induction bs with
    | nil => intro tbl; rfl
    | cons b bs ih =>
      intro tbl
      rw [List.foldl_cons, ih,
        inner_length fat b (fun pid => (nybF ((t.pats.get pid).getD i 0)).toNat)]
  rw [this]; simp

theorem memV_fat (t : Teddy) (chunk : Vec8) (hc : chunk.length = 16) (i : Nat) :
    memV t true 32 (V.loadHalf chunk) i =
      (chunk.map fun c : UInt8 =>
        (tblOf t true i (fun c => c &&& 0xF)).getD (c &&& 0xF).toNat 0 &&&
        (tblOf t true i (fun c => c >>> 4)).getD (c >>> 4).toNat 0) ++
      (chunk.map fun c : UInt8 =>
        (tblOf t true i (fun c => c &&& 0xF)).getD (16 + (c &&& 0xF).toNat) 0 &&&
        (tblOf t true i (fun c => c >>> 4)).getD (16 + (c >>> 4).toNat) 0) := by
  have hl : (V.loadHalf chunk).length = 32 := by unfold V.loadHalf; rw [List.length_append]; omega
  rw [memV_eq _ _ _ _ _ hl]
  unfold V.loadHalf
  rw [List.map_append, List.map_append,
    List.take_of_length_le (by rw [tblOf_length]; omega),
    List.take_of_length_le (by rw [tblOf_length]; omega),
    shuffle32 _ _ _ (by simpa using hc) (by simp [hc]) (mem_map_lo chunk) (mem_map_lo chunk),
    shuffle32 _ _ _ (by simpa using hc) (by simp [hc]) (mem_map_hi chunk) (mem_map_hi chunk)]
  unfold V.and
  rw [List.zipWith_append (by simp), List.map_map, List.map_map, List.map_map, List.map_map]
  congr 1
  · exact zipWith_map_same _ _ _ chunk
  · exact zipWith_map_same _ _ _ chunk

theorem memV_fat_length (t : Teddy) (chunk : Vec8) (hc : chunk.length = 16) (i : Nat) :
    (memV t true 32 (V.loadHalf chunk) i).length = 32 := by
  rw [memV_fat t chunk hc]; simp [hc]

/-- fat: the two halves of the member vector recombine to the lane model's member lanes -/
theorem memV_fat_lane (t : Teddy) (hB : t.nBuckets = 16) (chunk : Vec8) (hc : chunk.length = 16)
    (i : Nat) :
    laneOfFat (memV t true 32 (V.loadHalf chunk) i) = chunk.map (t.member i) := by
  rw [memV_fat t chunk hc, laneOfFat_append _ _ (by simpa using hc) (by simpa using hc),
    zipWith_map_same]
  apply List.map_congr_left
  intro c _
  rw [fatPair_and]
  have h1 := tbl_fat_lo t hB i (fun c => c &&& 0xF) lo_nyb_lt (c &&& 0xF) (lo_nyb_lt c)
  have h2 := tbl_fat_hi t hB i (fun c => c &&& 0xF) lo_nyb_lt (c &&& 0xF) (lo_nyb_lt c)
  have h3 := tbl_fat_lo t hB i (fun c => c >>> 4) hi_nyb_lt (c >>> 4) (hi_nyb_lt c)
  have h4 := tbl_fat_hi t hB i (fun c => c >>> 4) hi_nyb_lt (c >>> 4) (hi_nyb_lt c)
  unfold fatPair
  rw [h1, h2, h3, h4, split256, split256]
  rfl

end AcVerif.VecP
