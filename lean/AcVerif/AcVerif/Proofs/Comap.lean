import AcVerif.Fold
import AcVerif.Proofs.Struct
import AcVerif.Engine.Iter
/-!
# Feeding every input symbol through a map = searching the mapped haystack

The case-insensitive searcher is modelled as the automaton of the folded
patterns whose `next` folds the input byte first (`Aut.comap`).  Searching a
haystack with it is the same as searching the folded haystack with the plain
automaton (prefilter-free engine).  Everything here holds for EVERY automaton
record `A` and EVERY map `g`.
-/
namespace AcVerif
variable {σ α : Type}

/-- the input with its haystack mapped through `g` -/
def Input.mapHay (i : Input α) (g : α → α) : Input α :=
  { i with hay := i.hay.map g, valid := by simpa using i.valid }

namespace MiscP

@[simp] theorem comap_start (A : Aut σ α) (g : α → α) : (A.comap g).start = A.start := rfl
@[simp] theorem comap_next (A : Aut σ α) (g : α → α) (anch : Bool) (q : σ) (c : α) :
    (A.comap g).next anch q c = A.next anch q (g c) := rfl
@[simp] theorem comap_isSpecial (A : Aut σ α) (g : α → α) :
    (A.comap g).isSpecial = A.isSpecial := rfl
@[simp] theorem comap_isDead (A : Aut σ α) (g : α → α) : (A.comap g).isDead = A.isDead := rfl
@[simp] theorem comap_isMatch (A : Aut σ α) (g : α → α) : (A.comap g).isMatch = A.isMatch := rfl
@[simp] theorem comap_mpats (A : Aut σ α) (g : α → α) : (A.comap g).mpats = A.mpats := rfl
@[simp] theorem comap_kind (A : Aut σ α) (g : α → α) : (A.comap g).kind = A.kind := rfl
@[simp] theorem getMatch_comap (A : Aut σ α) (g : α → α) (sid : σ) (idx at_ : Nat) :
    getMatch (A.comap g) sid idx at_ = getMatch A sid idx at_ := rfl

@[simp] theorem mapHay_hay (i : Input α) (g : α → α) : (i.mapHay g).hay = i.hay.map g := rfl
@[simp] theorem mapHay_s (i : Input α) (g : α → α) : (i.mapHay g).s = i.s := rfl
@[simp] theorem mapHay_e (i : Input α) (g : α → α) : (i.mapHay g).e = i.e := rfl
@[simp] theorem mapHay_anch (i : Input α) (g : α → α) : (i.mapHay g).anch = i.anch := rfl
@[simp] theorem mapHay_earliest (i : Input α) (g : α → α) :
    (i.mapHay g).earliest = i.earliest := rfl
@[simp] theorem mapHay_isDone (i : Input α) (g : α → α) : (i.mapHay g).isDone = i.isDone := rfl

theorem findS_comap (A : Aut σ α) (g : α → α) (s : Nat) (anch earliest : Bool) (sid : σ)
    (at_ : Nat) (mat : Option Mat) (rest : List α) :
    findS (A.comap g) s anch earliest sid at_ mat rest =
      findS A s anch earliest sid at_ mat (rest.map g) := by
  induction rest generalizing sid at_ mat with
  | nil => rfl
  | cons c rest ih =>
    simp only [List.map_cons, findS, comap_next, comap_isSpecial, comap_isDead, comap_isMatch,
      getMatch_comap, ih]
    rfl

theorem ovlS_comap (A : Aut σ α) (g : α → α) (s : Nat) (anch : Bool) (sid : σ)
    (at_ : Nat) (rest : List α) :
    ovlS (A.comap g) s anch sid at_ rest = ovlS A s anch sid at_ (rest.map g) := by
  induction rest generalizing sid at_ with
  | nil => rfl
  | cons c rest ih =>
    simp only [List.map_cons, ovlS, comap_next, comap_isSpecial, comap_isDead, comap_isMatch,
      getMatch_comap, ih]
    rfl

theorem drop_take_map (hay : List α) (g : α → α) (e at_ : Nat) :
    ((hay.map g).take e).drop at_ = ((hay.take e).drop at_).map g := by
  simp [List.map_take, List.map_drop]

theorem findLoop_comap (A : Aut σ α) (g : α → α) (hay : List α) (s e : Nat)
    (he : e ≤ hay.length) (he' : e ≤ (hay.map g).length) (anch earliest : Bool) (sid : σ)
    (at_ : Nat) (mat : Option Mat) :
    findLoop (A.comap g) hay s e he Option.none anch earliest sid at_ mat =
      findLoop A (hay.map g) s e he' Option.none anch earliest sid at_ mat := by
  rw [findLoop_eq_findS, findLoop_eq_findS, drop_take_map, findS_comap]

theorem ovlLoop_comap (A : Aut σ α) (g : α → α) (hay : List α) (s e : Nat)
    (he : e ≤ hay.length) (he' : e ≤ (hay.map g).length) (anch : Bool) (sid : σ) (at_ : Nat) :
    ovlLoop (A.comap g) hay s e he Option.none anch sid at_ =
      ovlLoop A (hay.map g) s e he' Option.none anch sid at_ := by
  rw [ovlLoop_eq_ovlS, ovlLoop_eq_ovlS, drop_take_map, ovlS_comap]

theorem findImp_comap (A : Aut σ α) (g : α → α) (i : Input α) (anch earliest : Bool) :
    findImp (A.comap g) i Option.none anch earliest =
      findImp A (i.mapHay g) Option.none anch earliest := by
  simp only [findImp, comap_start, comap_isMatch, getMatch_comap, mapHay_anch, mapHay_s,
    mapHay_e, mapHay_hay]
  cases A.start i.anch with
  | none => rfl
  | some sid =>
    simp only []
    rw [findLoop_comap A g i.hay i.s i.e i.valid.1 (i.mapHay g).valid.1]
    rfl

/-- **Case-insensitive search = search of the folded haystack** (non-overlapping) -/
theorem tryFindFwd_comap (A : Aut σ α) (g : α → α) (i : Input α) :
    tryFindFwd (A.comap g) Option.none i = tryFindFwd A Option.none (i.mapHay g) := by
  simp only [tryFindFwd, mapHay_isDone, mapHay_anch, mapHay_earliest, comap_kind,
    findImp_comap]
  rfl

theorem ovlImp_comap (A : Aut σ α) (g : α → α) (i : Input α) (st : OState σ) :
    ovlImp (A.comap g) i Option.none st = ovlImp A (i.mapHay g) Option.none st := by
  simp only [ovlImp, comap_start, comap_isMatch, comap_mpats, getMatch_comap, mapHay_anch,
    mapHay_s, mapHay_e, mapHay_hay,
    ovlLoop_comap A g i.hay i.s i.e i.valid.1 (i.mapHay g).valid.1]
  rfl

theorem tryFindOverlappingFwd_comap (A : Aut σ α) (g : α → α) (i : Input α) (st : OState σ) :
    tryFindOverlappingFwd (A.comap g) Option.none i st =
      tryFindOverlappingFwd A Option.none (i.mapHay g) st := by
  simp only [tryFindOverlappingFwd, comap_kind, mapHay_isDone, mapHay_anch, ovlImp_comap]
  rfl

/-- successive overlapping calls, from an arbitrary `OverlappingState` -/
theorem ovlCalls_comap_gen (A : Aut σ α) (g : α → α) (i : Input α) (n : Nat) (st : OState σ) :
    ovlCalls (A.comap g) Option.none i n st = ovlCalls A Option.none (i.mapHay g) n st := by
  induction n generalizing st with
  | zero => rfl
  | succ n ih =>
    simp only [ovlCalls, tryFindOverlappingFwd_comap, ih]

/-- **Case-insensitive overlapping search = overlapping search of the folded haystack** -/
theorem ovlCalls_comap (A : Aut σ α) (g : α → α) (i : Input α) (n : Nat) :
    ovlCalls (A.comap g) Option.none i n OState.start =
      ovlCalls A Option.none (i.mapHay g) n OState.start :=
  ovlCalls_comap_gen A g i n _

theorem ovlIterAux_comap (A : Aut σ α) (g : α → α) (i : Input α) (n : Nat) (st : OState σ) :
    ovlIterAux (A.comap g) Option.none i n st = ovlIterAux A Option.none (i.mapHay g) n st := by
  induction n generalizing st with
  | zero => rfl
  | succ n ih =>
    simp only [ovlIterAux, tryFindOverlappingFwd_comap, ih]

theorem findAt_comap (A : Aut σ α) (g : α → α) (i : Input α) :
    findAt (A.comap g) Option.none i = findAt A Option.none (i.mapHay g) := by
  funext start
  unfold findAt
  by_cases h : start ≤ i.e + 1
  · rw [dif_pos h, dif_pos (show start ≤ (i.mapHay g).e + 1 from h), tryFindFwd_comap]; rfl
  · rw [dif_neg h, dif_neg (show ¬ start ≤ (i.mapHay g).e + 1 from h)]

/-- **Case-insensitive iterator = iterator over the folded haystack** -/
theorem findIter_comap (A : Aut σ α) (g : α → α) (i : Input α) :
    findIter (A.comap g) Option.none i = findIter A Option.none (i.mapHay g) := by
  simp only [findIter, comap_start, mapHay_anch, mapHay_s, mapHay_e, findAt_comap]
  rfl

end MiscP
end AcVerif
