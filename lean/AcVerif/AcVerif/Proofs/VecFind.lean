import AcVerif.Proofs.VecMembers
import AcVerif.Proofs.VecVerify
/-!
# The vector-level candidate computation, main loop and `find` equal the lane model's

Generic in the encoding (`EncOK`): slim 128-bit, slim 256-bit and fat 256-bit
are three instances.
-/
namespace AcVerif.VecP
open AcVerif.PackedP

/-- the `shift_in_k_bytes` flavour chosen by `candidateV` -/
def shiftV (fat : Bool) (w k : Nat) (cur prev : Vec8) : Vec8 :=
  if fat then V.halfShiftIn k cur prev
  else if w == 16 then V.shiftIn128 k cur prev else V.shiftIn256 k cur prev

/-- the load of a window: fat broadcasts the 16 bytes to both halves -/
def loadV (fat : Bool) (chunk : Vec8) : Vec8 := if fat then V.loadHalf chunk else chunk

/-- what the generic proof needs of an encoding of `w`-byte vectors as `stride` lanes -/
structure EncOK (t : Teddy) (fat : Bool) (w stride : Nat) (enc : Vec8 → List Nat) : Prop where
  and_enc : ∀ a b : Vec8, a.length = w → b.length = w →
    enc (V.and a b) = List.zipWith (· &&& ·) (enc a) (enc b)
  shift_enc : ∀ (k : Nat) (a b : Vec8), k ≤ 3 → a.length = w → b.length = w →
    enc (shiftV fat w k a b) = shiftIn k (enc a) (enc b)
  shift_len : ∀ (k : Nat) (a b : Vec8), k ≤ 3 → a.length = w → b.length = w →
    (shiftV fat w k a b).length = w
  splat_enc : enc (V.splat w 0xFF) = allOnes t.nBuckets stride
  mem_enc : ∀ chunk : Vec8, chunk.length = stride → ∀ i,
    enc (memV t fat w (loadV fat chunk) i) = chunk.map (t.member i)
  mem_len : ∀ chunk : Vec8, chunk.length = stride → ∀ i,
    (memV t fat w (loadV fat chunk) i).length = w
  zero_enc : ∀ v : Vec8, v.length = w → V.isZero v = (enc v).all (· == 0)
  verify_enc : ∀ (hay : PBytes) (base : Nat) (v : Vec8), v.length = w →
    verifyV t fat w hay base v = t.verify hay base (enc v)

/-! ## the three instances -/

theorem encOK_slim (t : Teddy) (hB : t.nBuckets = 8) (w : Nat) (hw : w = 16 ∨ w = 32) :
    EncOK t false w w laneOfSlim where
  and_enc := fun a b _ _ => and_slim a b
  shift_enc := by
    intro k a b hk ha hb
    unfold shiftV
    rcases hw with rfl | rfl
    · exact shiftIn128_slim k a b ha hb (by omega)
    · exact shiftIn256_slim k a b ha hb (by omega)
  shift_len := by
    intro k a b hk ha hb
    unfold shiftV
    rcases hw with rfl | rfl
    · exact shiftIn128_length k a b ha hb (by omega)
    · exact shiftIn256_length k a b ha hb (by omega)
  splat_enc := by rw [hB]; exact splat_slim w
  mem_enc := fun chunk hc i => memV_slim_lane t hB w hw chunk hc i
  mem_len := fun chunk hc i => memV_slim_length t hB w hw chunk hc i
  zero_enc := fun v _ => isZero_slim v
  verify_enc := fun hay base v hv => verifyV_slim t hB w hw hay base v hv

theorem encOK_fat (t : Teddy) (hB : t.nBuckets = 16) : EncOK t true 32 16 laneOfFat where
  and_enc := fun a b ha hb => and_fat a b ha hb
  shift_enc := fun k a b hk ha hb => halfShiftIn_fat k a b ha hb (by omega)
  shift_len := fun k a b hk ha hb => halfShiftIn_length k a b ha hb (by omega)
  splat_enc := by rw [hB]; exact splat_fat
  mem_enc := fun chunk hc i => memV_fat_lane t hB chunk hc i
  mem_len := fun chunk hc i => memV_fat_length t chunk hc i
  zero_enc := fun v hv => isZero_fat v hv
  verify_enc := fun hay base v hv => verifyV_fat t hB hay base v hv

/-! ## `candidate` -/

theorem foldl_and_enc (enc : Vec8 → List Nat) (w : Nat)
    (hand : ∀ a b : Vec8, a.length = w → b.length = w →
      enc (V.and a b) = List.zipWith (· &&& ·) (enc a) (enc b))
    (vs : List Vec8) (acc : Vec8) (hacc : acc.length = w) (hvs : ∀ v ∈ vs, v.length = w) :
    enc (vs.foldl V.and acc) =
        (vs.map enc).foldl (fun a v => List.zipWith (· &&& ·) a v) (enc acc) ∧
      (vs.foldl V.and acc).length = w := by
  induction vs generalizing acc with
  | nil => exact ⟨rfl, hacc⟩
  | cons v vs ih =>
    have hv := hvs v (List.mem_cons_self ..)
    rw [List.foldl_cons, List.map_cons, List.foldl_cons, ← hand acc v hacc hv]
    exact ih _ (and_length acc v w hacc hv) (fun v' hv' => hvs v' (List.mem_cons_of_mem _ hv'))

def shiftedV (t : Teddy) (fat : Bool) (w : Nat) (cv : Vec8) (prevs : List Vec8) : List Vec8 :=
  (List.range t.maskLen).map fun i =>
    if i + 1 < t.maskLen then
      shiftV fat w (t.maskLen - 1 - i) ((membersV t fat w cv).getD i []) (prevs.getD i [])
    else (membersV t fat w cv).getD i []

theorem candidateV_eq (t : Teddy) (fat : Bool) (w : Nat) (cv : Vec8) (prevs : List Vec8) :
    candidateV t fat w cv prevs =
      ((shiftedV t fat w cv prevs).foldl V.and (V.splat w 0xFF),
        (membersV t fat w cv).take (t.maskLen - 1)) := rfl

theorem getD_map_enc (enc : Vec8 → List Nat) (l : List Vec8) (i : Nat) (h : i < l.length) :
    (l.map enc).getD i [] = enc (l.getD i []) := by
  rw [getD_of_lt _ _ _ (by simpa using h), getD_of_lt _ _ _ h, List.getElem_map]

section generic
variable {t : Teddy} {fat : Bool} {w stride : Nat} {enc : Vec8 → List Nat}

theorem shiftedV_spec (E : EncOK t fat w stride enc) (hN : 1 ≤ t.maskLen ∧ t.maskLen ≤ 4)
    (chunk : Vec8) (hc : chunk.length = stride) (prevs : List Vec8)
    (hp : prevs.length = t.maskLen - 1) (hpw : ∀ p ∈ prevs, p.length = w) :
    (shiftedV t fat w (loadV fat chunk) prevs).map enc = shiftedOf t chunk (prevs.map enc) ∧
      ∀ v ∈ shiftedV t fat w (loadV fat chunk) prevs, v.length = w := by
  constructor
  · unfold shiftedV shiftedOf
    rw [List.map_map]
    apply List.map_congr_left
    intro i hi
    have hi' : i < t.maskLen := List.mem_range.1 hi
    simp only [Function.comp]
    rw [membersV_getD _ _ _ _ _ hi', resOf_getD _ _ _ hi']
    split
    · rename_i h1
      have hpi : i < prevs.length := by omega
      rw [E.shift_enc _ _ _ (by omega) (E.mem_len chunk hc i)
        (hpw _ (getD_mem_or prevs i [] hpi)), E.mem_enc chunk hc i, getD_map_enc enc prevs i hpi]
    · exact E.mem_enc chunk hc i
  · intro v hv
    unfold shiftedV at hv
    obtain ⟨i, hi, rfl⟩ := List.mem_map.1 hv
    have hi' : i < t.maskLen := List.mem_range.1 hi
    rw [membersV_getD _ _ _ _ _ hi']
    split
    · rename_i h1
      have hpi : i < prevs.length := by omega
      exact E.shift_len _ _ _ (by omega) (E.mem_len chunk hc i)
        (hpw _ (getD_mem_or prevs i [] hpi))
    · exact E.mem_len chunk hc i

theorem candidateV_enc (E : EncOK t fat w stride enc) (hN : 1 ≤ t.maskLen ∧ t.maskLen ≤ 4)
    (chunk : Vec8) (hc : chunk.length = stride) (prevs : List Vec8)
    (hp : prevs.length = t.maskLen - 1) (hpw : ∀ p ∈ prevs, p.length = w) :
    enc (candidateV t fat w (loadV fat chunk) prevs).1 = (t.candidate chunk (prevs.map enc)).1 ∧
    (candidateV t fat w (loadV fat chunk) prevs).2.map enc = (t.candidate chunk (prevs.map enc)).2 ∧
    (candidateV t fat w (loadV fat chunk) prevs).1.length = w ∧
    (candidateV t fat w (loadV fat chunk) prevs).2.length = t.maskLen - 1 ∧
    ∀ p ∈ (candidateV t fat w (loadV fat chunk) prevs).2, p.length = w := by
  obtain ⟨hs1, hs2⟩ := shiftedV_spec E hN chunk hc prevs hp hpw
  obtain ⟨hf1, hf2⟩ := foldl_and_enc enc w E.and_enc _ (V.splat w 0xFF)
    (by unfold V.splat; rw [List.length_replicate]) hs2
  rw [candidateV_eq]
  refine ⟨?_, ?_, hf2, ?_, ?_⟩
  · rw [candidate_fst, hf1, hs1, E.splat_enc, hc]
  · rw [candidate_snd]
    show ((membersV t fat w (loadV fat chunk)).take (t.maskLen - 1)).map enc = _
    rw [List.map_take, membersV_eq, List.map_map]
    unfold resOf
    congr 1
    apply List.map_congr_left
    intro i _
    exact E.mem_enc chunk hc i
  · show ((membersV t fat w (loadV fat chunk)).take (t.maskLen - 1)).length = _
    rw [List.length_take, membersV_length]; omega
  · intro p hp'
    have hp'' : p ∈ membersV t fat w (loadV fat chunk) := List.mem_of_mem_take hp'
    rw [membersV_eq] at hp''
    obtain ⟨i, _, rfl⟩ := List.mem_map.1 hp''
    exact E.mem_len chunk hc i

/-! ## the main loop and `find` -/

theorem mainLoopV_succ (t : Teddy) (fat : Bool) (w stride : Nat) (hay : PBytes) (fuel cur : Nat)
    (prevs : List Vec8) :
    mainLoopV t fat w stride hay (fuel + 1) cur prevs =
      if cur + stride ≤ hay.length then
        match (if V.isZero (candidateV t fat w (loadV fat ((hay.drop cur).take stride)) prevs).1
            then none
          else verifyV t fat w hay (cur - (t.maskLen - 1))
            (candidateV t fat w (loadV fat ((hay.drop cur).take stride)) prevs).1) with
        | some m => (some m, cur)
        | none => mainLoopV t fat w stride hay fuel (cur + stride)
            (candidateV t fat w (loadV fat ((hay.drop cur).take stride)) prevs).2
      else (none, cur) := rfl

theorem mainLoopV_enc (E : EncOK t fat w stride enc) (hN : 1 ≤ t.maskLen ∧ t.maskLen ≤ 4)
    (hay : PBytes) (fuel cur : Nat) (prevs : List Vec8) (loads : List Nat)
    (hp : prevs.length = t.maskLen - 1) (hpw : ∀ p ∈ prevs, p.length = w) :
    mainLoopV t fat w stride hay fuel cur prevs =
      ((t.mainLoop hay stride fuel cur (prevs.map enc) loads).1,
       (t.mainLoop hay stride fuel cur (prevs.map enc) loads).2.1) := by
  induction fuel generalizing cur prevs loads with
  | zero => rfl
  | succ fuel ih =>
    rw [mainLoopV_succ, mainLoop_succ]
    by_cases hfit : cur + stride ≤ hay.length
    · rw [if_pos hfit, if_pos hfit]
      obtain ⟨h1, h2, h3, h4, h5⟩ := candidateV_enc E hN ((hay.drop cur).take stride)
        (chunk_length hay cur stride hfit) prevs hp hpw
      rw [E.zero_enc _ h3, E.verify_enc _ _ _ h3, h1]
      cases hres : (if (t.candidate ((hay.drop cur).take stride) (prevs.map enc)).1.all (· == 0)
          then none
          else t.verify hay (cur - (t.maskLen - 1))
            (t.candidate ((hay.drop cur).take stride) (prevs.map enc)).1) with
      | some m => rfl
      | none =>
        simp only
        rw [ih (cur + stride) _ (loads ++ [cur]) h4 h5, h2]
    · rw [if_neg hfit, if_neg hfit]

theorem findV_eq (t : Teddy) (fat : Bool) (w : Nat) (hay : PBytes) (start : Nat) :
    findV t fat w hay start =
      match mainLoopV t fat w (if fat then 16 else w) hay
          (hay.length / (if fat then 16 else w) + 2) (start + (t.maskLen - 1))
          (List.replicate (t.maskLen - 1) (V.splat w 0xFF)) with
      | (some m, _) => some m
      | (none, cur) =>
        if cur < hay.length then
          if V.isZero (candidateV t fat w
              (loadV fat ((hay.drop (hay.length - (if fat then 16 else w))).take
                (if fat then 16 else w)))
              (List.replicate (t.maskLen - 1) (V.splat w 0xFF))).1 then none
          else verifyV t fat w hay (hay.length - (if fat then 16 else w) - (t.maskLen - 1))
            (candidateV t fat w
              (loadV fat ((hay.drop (hay.length - (if fat then 16 else w))).take
                (if fat then 16 else w)))
              (List.replicate (t.maskLen - 1) (V.splat w 0xFF))).1
        else none := rfl

theorem findV_enc (E : EncOK t fat w stride enc) (hN : 1 ≤ t.maskLen ∧ t.maskLen ≤ 4)
    (hstride : stride = if fat then 16 else w) (hay : PBytes) (start : Nat)
    (hlen : stride ≤ hay.length) :
    findV t fat w hay start = t.find hay start stride := by
  subst hstride
  have hinit : (List.replicate (t.maskLen - 1) (V.splat w 0xFF)).map enc =
      List.replicate (t.maskLen - 1) (allOnes t.nBuckets (if fat then 16 else w)) := by
    rw [List.map_replicate, E.splat_enc]
  have hil : (List.replicate (t.maskLen - 1) (V.splat w 0xFF)).length = t.maskLen - 1 :=
    List.length_replicate ..
  have hiw : ∀ p ∈ List.replicate (t.maskLen - 1) (V.splat w 0xFF), p.length = w := by
    intro p hp
    rw [List.eq_of_mem_replicate hp]
    unfold V.splat; rw [List.length_replicate]
  unfold Teddy.find
  rw [findV_eq, findT_eq, mainLoopV_enc E hN hay _ _ _ [] hil hiw, hinit]
  rcases hml : t.mainLoop hay (if fat then 16 else w) (hay.length / (if fat then 16 else w) + 2)
      (start + (t.maskLen - 1))
      (List.replicate (t.maskLen - 1) (allOnes t.nBuckets (if fat then 16 else w))) []
    with ⟨r, cur, loads⟩
  cases r with
  | some m => rfl
  | none =>
    simp only
    by_cases hcur : cur < hay.length
    · rw [if_pos hcur, if_pos hcur]
      obtain ⟨h1, _, h3, _, _⟩ := candidateV_enc E hN
        ((hay.drop (hay.length - (if fat then 16 else w))).take (if fat then 16 else w))
        (chunk_length hay _ _ (by omega)) _ hil hiw
      rw [E.zero_enc _ h3, E.verify_enc _ _ _ h3, h1, hinit]
    · rw [if_neg hcur, if_neg hcur]

end generic

end AcVerif.VecP
