import AcVerif.Proofs.NfaMemChain
import AcVerif.Proofs.CompilerBase
/-!
# L1c-mem proofs, part 1: the representation invariant and the read operations
-/
namespace AcVerif.MemP
open AcVerif MemNfa
open AcVerif.L1cP (lookup lookup_cons lookup_nil Sorted)

/-- the `link` field of `self.sparse[i]` -/
def tlink (m : MemNfa) (i : Nat) : Nat := (m.tr i).link
/-- the `link` field of `self.matches[i]` -/
def mlink (m : MemNfa) (i : Nat) : Nat := (m.mt i).link
/-- what `iter_trans` yields at cell `i` -/
def kv (m : MemNfa) (i : Nat) : UInt8 × Nat := ((m.tr i).byte, (m.tr i).next)
/-- what `iter_matches` yields at cell `i` -/
def pidOf (m : MemNfa) (i : Nat) : Nat := (m.mt i).pid

/-- The representation invariant, relative to witnesses `tc s` / `mc s`: the cells of the
transition list / match list of state `s`, in list order. -/
structure MemOKW (m : MemNfa) (tc mc : Nat → List Nat) : Prop where
  /-- the dummy entries at index 0 exist and are untouched -/
  tpos : 0 < m.sparse.size
  mpos : 0 < m.matches_.size
  tsent : m.tr 0 = {}
  msent : m.mt 0 = {}
  /-- following the links from the head of `s` visits `tc s` and ends (finite, acyclic) -/
  tchain : ∀ s, IsChain (tlink m) (m.st s).sparse (tc s)
  /-- inside the vector -/
  tlt : ∀ s, ∀ i ∈ tc s, i < m.sparse.size
  /-- strictly increasing in `byte` -/
  tsorted : ∀ s, (tc s).Pairwise fun i j => (m.tr i).byte < (m.tr j).byte
  /-- lists of different states share no cell -/
  tdisj : ∀ s s', s ≠ s' → ∀ i ∈ tc s, i ∉ tc s'
  mchain : ∀ s, IsChain (mlink m) (m.st s).matches_ (mc s)
  mlt : ∀ s, ∀ i ∈ mc s, i < m.matches_.size
  mnodup : ∀ s, (mc s).Nodup
  mdisj : ∀ s s', s ≠ s' → ∀ i ∈ mc s, i ∉ mc s'

/-- the representation invariant -/
def MemOK (m : MemNfa) : Prop := ∃ tc mc, MemOKW m tc mc

/-- pointwise update of a witness -/
def upd (f : Nat → List Nat) (s : Nat) (l : List Nat) : Nat → List Nat :=
  fun x => if x = s then l else f x

@[simp] theorem upd_self (f : Nat → List Nat) (s : Nat) (l : List Nat) : upd f s l s = l := by
  simp [upd]

theorem upd_ne (f : Nat → List Nat) {s x : Nat} (l : List Nat) (h : x ≠ s) : upd f s l x = f x := by
  simp [upd, h]

namespace MemOKW
variable {m : MemNfa} {tc mc : Nat → List Nat}

theorem tnodup (h : MemOKW m tc mc) (s : Nat) : (tc s).Nodup := by
  refine (h.tsorted s).imp ?_
  intro a b hab e
  subst e
  exact absurd hab (UInt8.lt_irrefl _)

theorem tlen (h : MemOKW m tc mc) (s : Nat) : (tc s).length ≤ m.sparse.size :=
  length_le_of_nodup_lt (h.tnodup s) (h.tlt s)

theorem mlen (h : MemOKW m tc mc) (s : Nat) : (mc s).length ≤ m.matches_.size :=
  length_le_of_nodup_lt (h.mnodup s) (h.mlt s)

theorem tne0 (h : MemOKW m tc mc) (s : Nat) : ∀ i ∈ tc s, i ≠ 0 := (h.tchain s).ne_zero
theorem mne0 (h : MemOKW m tc mc) (s : Nat) : ∀ i ∈ mc s, i ≠ 0 := (h.mchain s).ne_zero

/-- the witnesses are determined by the memory -/
theorem unique (h : MemOKW m tc mc) {tc' mc' : Nat → List Nat} (h' : MemOKW m tc' mc') :
    tc' = tc ∧ mc' = mc :=
  ⟨funext fun s => (h'.tchain s).unique (h.tchain s),
   funext fun s => (h'.mchain s).unique (h.mchain s)⟩

end MemOKW

/-! ## the initial value -/

theorem st_oob (m : MemNfa) {s : Nat} (h : m.states.size ≤ s) : m.st s = {} :=
  arr_getD_oob _ _ h

theorem memOKW_empty : MemOKW MemNfa.empty (fun _ => []) (fun _ => []) where
  tpos := by decide
  mpos := by decide
  tsent := rfl
  msent := rfl
  tchain := fun _ => rfl
  tlt := fun _ i hi => by cases hi
  tsorted := fun _ => List.Pairwise.nil
  tdisj := fun _ _ _ i hi => by cases hi
  mchain := fun _ => rfl
  mlt := fun _ i hi => by cases hi
  mnodup := fun _ => List.Pairwise.nil
  mdisj := fun _ _ _ i hi => by cases hi

/-! ## iteration -/

theorem iterTransGo_eq (m : MemNfa) {h : Nat} {l : List Nat} (hc : IsChain (tlink m) h l)
    {fuel : Nat} (hf : l.length ≤ fuel) : iterTransGo m fuel h = l.map (kv m) := by
  induction l generalizing h fuel with
  | nil =>
    have : h = 0 := hc
    subst this
    cases fuel <;> simp [iterTransGo]
  | cons i is ih =>
    obtain ⟨e, hi0, hrest⟩ := hc
    subst e
    cases fuel with
    | zero => simp at hf
    | succ f =>
      simp only [iterTransGo, if_neg hi0, List.map_cons]
      exact congrArg (kv m h :: ·) (ih hrest (by simpa using hf))

theorem iterMatchesGo_eq (m : MemNfa) {h : Nat} {l : List Nat} (hc : IsChain (mlink m) h l)
    {fuel : Nat} (hf : l.length ≤ fuel) : iterMatchesGo m fuel h = l.map (pidOf m) := by
  induction l generalizing h fuel with
  | nil =>
    have : h = 0 := hc
    subst this
    cases fuel <;> simp [iterMatchesGo]
  | cons i is ih =>
    obtain ⟨e, hi0, hrest⟩ := hc
    subst e
    cases fuel with
    | zero => simp at hf
    | succ f =>
      simp only [iterMatchesGo, if_neg hi0, List.map_cons]
      exact congrArg (pidOf m h :: ·) (ih hrest (by simpa using hf))

theorem iterTrans_eq {m : MemNfa} {tc mc : Nat → List Nat} (h : MemOKW m tc mc) (s : Nat) :
    m.iterTrans s = (tc s).map (kv m) :=
  iterTransGo_eq m (h.tchain s) (Nat.le_succ_of_le (h.tlen s))

theorem iterMatches_eq {m : MemNfa} {tc mc : Nat → List Nat} (h : MemOKW m tc mc) (s : Nat) :
    m.iterMatches s = (mc s).map (pidOf m) :=
  iterMatchesGo_eq m (h.mchain s) (Nat.le_succ_of_le (h.mlen s))

theorem sorted_iterTrans {m : MemNfa} {tc mc : Nat → List Nat} (h : MemOKW m tc mc) (s : Nat) :
    Sorted (m.iterTrans s) := by
  rw [iterTrans_eq h]
  unfold Sorted
  rw [List.pairwise_map]
  exact h.tsorted s

/-! ## `follow_transition_sparse` -/

theorem lookup_eq_FAIL {l : List (UInt8 × Nat)} {b : UInt8} (h : ∀ x ∈ l, x.1 ≠ b) :
    lookup l b = CNfa.FAIL := by
  induction l with
  | nil => rfl
  | cons x rest ih =>
    obtain ⟨c, t⟩ := x
    rw [lookup_cons, if_neg (h (c, t) List.mem_cons_self)]
    exact ih fun y hy => h y (List.mem_cons_of_mem _ hy)

/-- the early exit at the first `byte <= t.byte` loses nothing on a sorted list -/
theorem followGo_eq (m : MemNfa) (b : UInt8) {h : Nat} {l : List Nat}
    (hc : IsChain (tlink m) h l)
    (hs : l.Pairwise fun i j => (m.tr i).byte < (m.tr j).byte)
    {fuel : Nat} (hf : l.length ≤ fuel) : followGo m b fuel h = lookup (l.map (kv m)) b := by
  induction l generalizing h fuel with
  | nil =>
    have : h = 0 := hc
    subst this
    cases fuel <;> simp [followGo, lookup_nil, MemNfa.FAIL, CNfa.FAIL]
  | cons i is ih =>
    obtain ⟨e, hi0, hrest⟩ := hc
    subst e
    have hs' := List.pairwise_cons.1 hs
    cases fuel with
    | zero => simp at hf
    | succ f =>
      simp only [followGo, if_neg hi0, List.map_cons]
      show _ = lookup (((m.tr h).byte, (m.tr h).next) :: _) b
      rw [lookup_cons]
      by_cases hle : b ≤ (m.tr h).byte
      · rw [if_pos hle]
        by_cases hbe : b = (m.tr h).byte
        · rw [if_pos hbe, if_pos hbe.symm]
        · rw [if_neg hbe, if_neg (fun e => hbe e.symm)]
          symm
          apply lookup_eq_FAIL
          intro x hx
          obtain ⟨j, hj, rfl⟩ := List.mem_map.1 hx
          have h1 := hs'.1 j hj
          show (m.tr j).byte ≠ b
          intro e
          rw [UInt8.lt_iff_toNat_lt] at h1
          rw [UInt8.le_iff_toNat_le] at hle
          rw [← e] at hle
          omega
      · rw [if_neg hle]
        have : ¬ (m.tr h).byte = b := by
          intro e; subst e; exact hle (UInt8.le_refl _)
        rw [if_neg this]
        exact ih hrest hs'.2 (by simpa using hf)

theorem follow_eq_lookup {m : MemNfa} {tc mc : Nat → List Nat} (h : MemOKW m tc mc)
    (s : Nat) (b : UInt8) : m.followTransitionSparse s b = lookup (m.iterTrans s) b := by
  rw [iterTrans_eq h]
  exact followGo_eq m b (h.tchain s) (h.tsorted s) (Nat.le_succ_of_le (h.tlen s))

/-! ## the tail walk of `add_match` / `copy_matches` -/

theorem tailWalk_eq (m : MemNfa) (hs : (m.mt 0).link = 0) {h : Nat} {l : List Nat}
    (hc : IsChain (mlink m) h l) {fuel : Nat} (hf : l.length ≤ fuel) :
    tailWalk m fuel h = l.getLast?.getD 0 := by
  induction l generalizing h fuel with
  | nil =>
    have : h = 0 := hc
    subst this
    cases fuel with
    | zero => rfl
    | succ f => simp [tailWalk, hs]
  | cons i is ih =>
    obtain ⟨e, hi0, hrest⟩ := hc
    subst e
    cases fuel with
    | zero => simp at hf
    | succ f =>
      simp only [tailWalk]
      by_cases hl : (m.mt h).link ≠ 0
      · rw [if_pos hl]
        have hne : is ≠ [] := hrest.ne_nil hl
        rw [show m.tailWalk f (m.mt h).link = _ from ih hrest (by simpa using hf)]
        cases is with
        | nil => exact absurd rfl hne
        | cons j js => rw [List.getLast?_cons_cons]
      · rw [if_neg hl]
        have hl0 : mlink m h = 0 := by simpa [mlink] using hl
        rw [hl0] at hrest
        rw [hrest.eq_nil]
        rfl

/-! ## frame lemmas for the iterators (no invariant needed) -/

theorem iterMatchesGo_congr {m m' : MemNfa} (h : ∀ i, m'.mt i = m.mt i) (fuel link : Nat) :
    iterMatchesGo m' fuel link = iterMatchesGo m fuel link := by
  induction fuel generalizing link with
  | zero => rfl
  | succ f ih => simp only [iterMatchesGo, h, ih]

/-- an operation that does not touch `nfa.matches` nor the `matches` head of `s` -/
theorem iterMatches_congr {m m' : MemNfa} (h : m'.matches_ = m.matches_) {s : Nat}
    (hs : (m'.st s).matches_ = (m.st s).matches_) : m'.iterMatches s = m.iterMatches s := by
  unfold iterMatches
  rw [hs, h]
  exact iterMatchesGo_congr (fun i => by simp [MemNfa.mt, h]) _ _

theorem iterTransGo_congr {m m' : MemNfa} (h : ∀ i, m'.tr i = m.tr i) (fuel link : Nat) :
    iterTransGo m' fuel link = iterTransGo m fuel link := by
  induction fuel generalizing link with
  | zero => rfl
  | succ f ih => simp only [iterTransGo, h, ih]

/-- an operation that does not touch `nfa.sparse` nor the `sparse` head of `s` -/
theorem iterTrans_congr {m m' : MemNfa} (h : m'.sparse = m.sparse) {s : Nat}
    (hs : (m'.st s).sparse = (m.st s).sparse) : m'.iterTrans s = m.iterTrans s := by
  unfold iterTrans
  rw [hs, h]
  exact iterTransGo_congr (fun i => by simp [MemNfa.tr, h]) _ _

end AcVerif.MemP
