import AcVerif.Proofs.PreResumedIdeal
/-!
# C05, overlapping search: `PrefilterSound .std` alone is not enough

A prefilter may confirm a match (`Candidate::Match`).  For the non-overlapping standard search
the confirmed match must be THE answer, i.e. the occurrence that ENDS first
(`PrefilterSound.mtch_sound`).  The overlapping loop, however, reads a confirmed match `m` as
"nothing starts before `m.start`" and jumps there.  With patterns `[1,2,3]` and `[2]` on the
haystack `[0,1,2,3]` the occurrence `[2]` at `2..3` ends first, but `[1,2,3]` at `1..4` starts
earlier: after the jump it is lost.  (The crate is not affected: under standard semantics its
builder never attaches a confirming prefilter to more than one pattern, see
`C05_builder_sound_ovl`.)
-/
namespace AcVerif.PreP2
open AcVerif

def cexP : List (List Nat) := [[1, 2, 3], [2]]
def cexHay : List Nat := [0, 1, 2, 3]
/-- confirms the earliest-ending occurrence on one span, otherwise answers "possible start at `s`" -/
def cexPre : Prefilter Nat := fun hay s e =>
  if hay = cexHay ∧ s = 0 ∧ e = 4 then .mtch ⟨1, 2, 3⟩ else .pos s
def cexI : Input Nat := ⟨cexHay, 0, 4, false, false, by decide⟩

theorem cexPre_sound : PrefilterSound .std cexP cexPre where
  none_sound := by
    intro hay s e _ _ h
    unfold cexPre at h
    split at h <;> cases h
  pos_sound := by
    intro hay s e i _ _ h
    unfold cexPre at h
    split at h
    · cases h
    · injection h with h
      subst h
      exact ⟨Nat.le_refl _, fun m hm => (PreP.isOcc_start_le hm).1⟩
  mtch_sound := by
    intro hay s e m _ _ h
    unfold cexPre at h
    split at h
    · rename_i hc
      obtain ⟨rfl, rfl, rfl⟩ := hc
      injection h with h
      subst h
      refine ⟨⟨⟨[2], rfl, by decide, rfl, by decide, by decide⟩, fun h => by cases h⟩, ?_⟩
      rintro ⟨pid, st, sp⟩ ⟨⟨p, hp, h2, h3, h4, h5⟩, _⟩
      simp only at hp h2 h3 h4 h5
      simp only [better, betterStd]
      match pid, hp with
      | 0, hp =>
        have : p = [1, 2, 3] := by simpa [cexP] using hp.symm
        subst this
        simp only [List.length_cons, List.length_nil] at h3
        have hst : st = 0 ∨ st = 1 := by omega
        rcases hst with rfl | rfl
        · exact absurd h5 (by decide)
        · left; omega
      | 1, hp =>
        have : p = [2] := by simpa [cexP] using hp.symm
        subst this
        simp only [List.length_cons, List.length_nil] at h3
        have hst : st = 0 ∨ st = 1 ∨ st = 2 ∨ st = 3 := by omega
        rcases hst with rfl | rfl | rfl | rfl
        · exact absurd h5 (by decide)
        · exact absurd h5 (by decide)
        · right; omega
        · exact absurd h5 (by decide)
      | n + 2, hp => simp [cexP] at hp
    · cases h

@[instance_reducible] private def excDec : DecidableEq (Except MatchErr (Option Mat)) := fun a b =>
  match a, b with
  | .ok x, .ok y => if h : x = y then isTrue (h ▸ rfl) else isFalse (fun e => h (Except.ok.inj e))
  | .error x, .error y =>
    if h : x = y then isTrue (h ▸ rfl) else isFalse (fun e => h (Except.error.inj e))
  | .ok _, .error _ => isFalse (fun e => by cases e)
  | .error _, .ok _ => isFalse (fun e => by cases e)

attribute [local instance] excDec

theorem cex_calls_pre :
    ovlCalls (ideal .std cexP .both true) (some cexPre) cexI 3 OState.start =
      [.ok (some ⟨1, 2, 3⟩), .ok none, .ok none] := by
  decide +kernel

theorem cex_calls_nopre :
    ovlCalls (ideal .std cexP .both false) none cexI 3 OState.start =
      [.ok (some ⟨1, 2, 3⟩), .ok (some ⟨0, 1, 4⟩), .ok none] := by
  decide +kernel

theorem cex_iter_pre :
    ovlIterAux (ideal .std cexP .both true) (some cexPre) cexI 5 OState.start = [⟨1, 2, 3⟩] := by
  decide +kernel

theorem cex_iter_nopre :
    ovlIterAux (ideal .std cexP .both false) none cexI 5 OState.start =
      [⟨1, 2, 3⟩, ⟨0, 1, 4⟩] := by
  decide +kernel

end AcVerif.PreP2
