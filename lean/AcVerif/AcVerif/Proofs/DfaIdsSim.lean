import AcVerif.Proofs.DfaIdsBase
/-!
# L1d-ids proofs, part 2: what an id map must satisfy (`Sim`), and what follows from it

`Sim … D anch g`: `g` maps the live NFA states of the anchoring mode `anch` to DFA ids such that
the table lookup commutes with `next_state`, ids are premultiplied indices `< state_len`, the
id-range flags are the NFA flags, and the match list read through `(sid >> stride2) - 2` is the
NFA's.  From this: the run of the stored DFA is the image of the NFA run, observations agree, all
reads are in bounds, and the `is_special` contract holds at every reachable state.
-/
namespace AcVerif.L1dIdsP
open AcVerif AcVerif.CNfa AcVerif.L1cP AcVerif.L1dP AcVerif.L1eP

/-- the start state of the NFA for a mode -/
def startOf (anch : Bool) : Nat := if anch then SA else SU

structure Sim (N : CNfa) (L : List (List UInt8)) (hasPre : Bool) (D : DfaI) (anch : Bool)
    (g : Nat → Nat) : Prop where
  step : ∀ s, LvA L anch s → ∀ b, D.next (g s) b = g (nextState N anch (N.size + 1) s b 0).1
  idx : ∀ s, LvA L anch s → ∃ i, i < D.stateLen ∧ g s = i * 2 ^ D.stride2
  cls : ∀ b, D.classOf b < 2 ^ D.stride2
  size : D.trans.size = D.stateLen * 2 ^ D.stride2
  dead : ∀ s, LvA L anch s → (g s = 0 ↔ s = 0)
  isMatch : ∀ s, LvA L anch s → D.isMatch (g s) = (s != DEAD && CNfa.isMatch N s)
  isSpecial : ∀ s, LvA L anch s →
    D.isSpecial (g s) = (s == DEAD || CNfa.isMatch N s || (hasPre && (s == SU || s == SA)))
  mlist : ∀ s, LvA L anch s → D.isMatch (g s) = true →
    D.matchList? (g s) = some (N.getD s {}).matches_
  start : (if anch then D.startA else D.startU) = g (startOf anch)
  isStart : ∀ s, LvA L anch s → s ≠ 0 → (D.isStart (g s) = true ↔ s = startOf anch)

theorem matchList_of_some {D : DfaI} {q : Nat} {l : List Nat} (h : D.matchList? q = some l) :
    D.matchList q = l := by
  unfold DfaI.matchList? at h
  unfold DfaI.matchList
  split at h
  · cases h
  · rw [Array.getD_eq_getD_getElem?, h]; rfl

theorem LvA_start (L : List (List UInt8)) (anch : Bool) : LvA L anch (startOf anch) := by
  cases anch
  · exact VU_su
  · exact VA_sa

theorem LvA.ne_other {k : MatchKind} {Q : PatSet UInt8} {L : List (List UInt8)} {N : CNfa}
    (h : FS k Q L N) {anch : Bool} {s : Nat} (hv : LvA L anch s) :
    (s == SU || s == SA) = (s == startOf anch) := by
  cases anch
  · have := (VU.ne_sa h hv).1
    have e : (s == SA) = false := by simpa using this
    rw [e, Bool.or_false]; rfl
  · have := (VA.ne_su h hv).1
    have e : (s == SU) = false := by simpa using this
    rw [e, Bool.false_or]; rfl

section
variable {k : MatchKind} {Q : PatSet UInt8} {L : List (List UInt8)} {N : CNfa}
variable {hasPre : Bool} {D : DfaI} {anch : Bool} {g : Nat → Nat}

theorem Sim.start_ne_zero (hS : Sim N L hasPre D anch g) : g (startOf anch) ≠ 0 := by
  intro e
  have := (hS.dead _ (LvA_start L anch)).1 e
  cases anch <;> cases this

theorem Sim.toAut_start (hS : Sim N L hasPre D anch g) (P : List (List UInt8)) :
    (D.toAut k P hasPre).start anch = some (g (startOf anch)) := by
  show (if ((if anch then D.startA else D.startU) == 0) = true then none
    else some (if anch then D.startA else D.startU)) = _
  rw [hS.start]
  have : (g (startOf anch) == 0) = false := by simpa using hS.start_ne_zero
  rw [this]; rfl

/-- observations agree at live states -/
theorem Sim.obs (hS : Sim N L hasPre D anch g) (h : FS k Q L N) (P : List (List UInt8)) {s : Nat}
    (hv : LvA L anch s) :
    (D.toAut k P hasPre).obs false (g s) = (N.toAut k P hasPre).obs false s := by
  have e1 := hS.isSpecial s hv
  have e3 := hS.isMatch s hv
  have e2 : D.isDead (g s) = (s == DEAD) := by
    show (g s == 0) = (s == 0)
    rw [Bool.eq_iff_iff]
    simp only [beq_iff_eq]
    exact hS.dead s hv
  have e4 : (if D.isMatch (g s) = true then D.matchList (g s) else []) = (N.getD s {}).matches_ := by
    by_cases hc : D.isMatch (g s) = true
    · rw [if_pos hc, matchList_of_some (hS.mlist s hv hc)]
    · rw [if_neg hc]
      rw [e3] at hc
      simp only [Bool.and_eq_true, bne_iff_ne, ne_eq, not_and, Bool.not_eq_true] at hc
      by_cases e0 : s = DEAD
      · subst e0; rw [h.mats_dead]
      · exact (mats_eq_nil_of_not_match (hc e0)).symm
  show Obs.mk _ _ _ _ = Obs.mk _ _ _ _
  simp only [DfaI.toAut, CNfa.toAut, Bool.false_eq_true, if_false]
  rw [e1, e2, e3] at *
  rw [e4]

end

/-- the run of the stored DFA is the image of the NFA run -/
theorem Sim.run {k : MatchKind} {P : List (List UInt8)} {hasPre : Bool} {L : List (List UInt8)}
    (hFS : FS k (patSet k P) L (CNfa.compile k false P)) {D : DfaI} {anch : Bool} {g : Nat → Nat}
    (hS : Sim (CNfa.compile k false P) L hasPre D anch g) :
    ∀ (w : List UInt8) (s : Nat) (q : St UInt8), Rel L anch s q →
      ∃ q', Rel L anch (((CNfa.compile k false P).toAut k P hasPre).runFrom anch s w) q' ∧
        (D.toAut k P hasPre).runFrom anch (g s) w =
          g (((CNfa.compile k false P).toAut k P hasPre).runFrom anch s w)
  | [], _, q, hr => ⟨q, hr, rfl⟩
  | c :: w, s, _, hr => by
    have hstep := hS.step s (LvA_of_Rel hr) c
    obtain ⟨q', h1, h2⟩ := Sim.run hFS hS w _ _ (Rel_step hFS anch hr c)
    refine ⟨q', h1, ?_⟩
    show Aut.runFrom _ anch (D.next (g s) c) w = _
    rw [hstep]
    exact h2

theorem Rel_start (L : List (List UInt8)) (anch : Bool) : Rel L anch (startOf anch) (.at []) := by
  simp only [Rel, if_true]; rfl

end AcVerif.L1dIdsP
