import AcVerif.Engine.Find
import AcVerif.Engine.Overlap
/-!
# Structural forms of the prefilter-free loops

`findLoop` / `ovlLoop` recurse on `e - at`.  Without a prefilter the position
only ever advances by one, so they equal structural recursions over the
remaining slice `(hay.take e).drop at`.  These forms are what the correctness
proofs reason about.
-/
namespace AcVerif
variable {σ α : Type}

/-- structural form of `findLoop` with `pre = none` -/
def findS (A : Aut σ α) (s : Nat) (anch earliest : Bool) (sid : σ) (at_ : Nat)
    (mat : Option Mat) : List α → Option Mat
  | [] => mat
  | c :: rest =>
    let sid := A.next anch sid c
    if A.isSpecial sid then
      if A.isDead sid then mat
      else if A.isMatch sid then
        let m := getMatch A sid 0 (at_ + 1)
        if !(anch && decide (m.start > s)) then
          if earliest then some m else findS A s anch earliest sid (at_ + 1) (some m) rest
        else findS A s anch earliest sid (at_ + 1) mat rest
      else findS A s anch earliest sid (at_ + 1) mat rest
    else findS A s anch earliest sid (at_ + 1) mat rest

theorem drop_take_cons {hay : List α} {at_ e : Nat} (h : at_ < e) (he : e ≤ hay.length) :
    (hay.take e).drop at_ = hay[at_]'(Nat.lt_of_lt_of_le h he) :: (hay.take e).drop (at_ + 1) := by
  have h1 : at_ < (hay.take e).length := by simp [List.length_take]; omega
  rw [List.drop_eq_getElem_cons h1]
  simp [List.getElem_take]

theorem drop_take_nil {hay : List α} {at_ e : Nat} (h : ¬ at_ < e) :
    (hay.take e).drop at_ = [] := by
  apply List.drop_eq_nil_of_le
  simp [List.length_take]; omega

theorem findLoop_eq_findS (A : Aut σ α) (hay : List α) (s e : Nat) (he : e ≤ hay.length)
    (anch earliest : Bool) (sid : σ) (at_ : Nat) (mat : Option Mat) :
    findLoop A hay s e he Option.none anch earliest sid at_ mat =
      findS A s anch earliest sid at_ mat ((hay.take e).drop at_) := by
  generalize hn : e - at_ = n
  induction n generalizing sid at_ mat with
  | zero =>
    have h : ¬ at_ < e := by omega
    rw [findLoop, dif_neg h, drop_take_nil h]; rfl
  | succ n ih =>
    have h : at_ < e := by omega
    rw [findLoop, dif_pos h, drop_take_cons h he]
    simp only [findS]
    have hn' : e - (at_ + 1) = n := by omega
    split
    · split
      · rfl
      · split
        · split
          · split
            · rfl
            · exact ih _ _ _ hn'
          · exact ih _ _ _ hn'
        · exact ih _ _ _ hn'
    · exact ih _ _ _ hn'

/-- structural form of `ovlLoop` with `pre = none` -/
def ovlS (A : Aut σ α) (s : Nat) (anch : Bool) (sid : σ) (at_ : Nat) : List α → OState σ
  | [] => { mat := Option.none, id := some sid, at_ := at_, nextIdx := Option.none }
  | c :: rest =>
    let sid := A.next anch sid c
    if A.isSpecial sid then
      if A.isDead sid then { mat := Option.none, id := some sid, at_ := at_, nextIdx := Option.none }
      else if A.isMatch sid then
        let m := getMatch A sid 0 (at_ + 1)
        if !(anch && decide (m.start > s)) then
          { mat := some m, id := some sid, at_ := at_, nextIdx := some 1 }
        else ovlS A s anch sid (at_ + 1) rest
      else ovlS A s anch sid (at_ + 1) rest
    else ovlS A s anch sid (at_ + 1) rest

theorem ovlLoop_eq_ovlS (A : Aut σ α) (hay : List α) (s e : Nat) (he : e ≤ hay.length)
    (anch : Bool) (sid : σ) (at_ : Nat) :
    ovlLoop A hay s e he Option.none anch sid at_ =
      ovlS A s anch sid at_ ((hay.take e).drop at_) := by
  generalize hn : e - at_ = n
  induction n generalizing sid at_ with
  | zero =>
    have h : ¬ at_ < e := by omega
    rw [ovlLoop, dif_neg h, drop_take_nil h]; rfl
  | succ n ih =>
    have h : at_ < e := by omega
    rw [ovlLoop, dif_pos h, drop_take_cons h he]
    simp only [ovlS]
    have hn' : e - (at_ + 1) = n := by omega
    split
    · split
      · rfl
      · split
        · split
          · rfl
          · exact ih _ _ hn'
        · exact ih _ _ hn'
    · exact ih _ _ hn'

end AcVerif
