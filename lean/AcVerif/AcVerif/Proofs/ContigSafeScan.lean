import AcVerif.ContigChecked
import AcVerif.Proofs.ContigScan
/-!
# L1eSafe proofs, part 1: the slot found by the class scan of a sparse state

`sparseIdx` is the slot number `i * 4 + j` at which the scan of `next_state` stops.  On the class
words written by `State::write` it is the index of the FIRST transition with that class
(`sparseIdx_spec`, derived from `sparseScan_spec` by reading back a table that holds its own
indices) – in particular it is `< trans_len`, never a padding slot.  `scanGo?_eq`: the checked
loop reads exactly `repr[toff + slot]`.
-/
namespace AcVerif.L1eP
open AcVerif AcVerif.CNfa

/-- which of the four lanes of the class word number `i` holds `cls` -/
def slotOf (cls chunk i : Nat) : Option Nat :=
  if chunk % 256 == cls then some (i * 4)
  else if (chunk / 256) % 256 == cls then some (i * 4 + 1)
  else if (chunk / 65536) % 256 == cls then some (i * 4 + 2)
  else if (chunk / 16777216) % 256 == cls then some (i * 4 + 3)
  else none

/-- the slot at which the scan stops -/
def sparseIdx (w : Nat → Nat) (cls base m : Nat) : Option Nat :=
  (List.range m).findSome? fun i => slotOf cls (w (base + i)) i

theorem findSome?_omap {α β γ : Type} (l : List α) (g : α → Option β) (f : β → γ) :
    (l.findSome? g).map f = l.findSome? fun a => (g a).map f := by
  induction l with
  | nil => rfl
  | cons a l ih =>
    rw [List.findSome?_cons, List.findSome?_cons]
    cases g a with
    | none => exact ih
    | some b => rfl

theorem findSome?_congr' {α β : Type} (l : List α) (g g' : α → Option β) (h : ∀ a ∈ l, g a = g' a) :
    l.findSome? g = l.findSome? g' := by
  induction l with
  | nil => rfl
  | cons a l ih =>
    rw [List.findSome?_cons, List.findSome?_cons, h a (by simp),
      ih (fun x hx => h x (by simp [hx]))]

/-- the scan returns the word at the slot it stops at -/
theorem sparseScan_eq_idx (w : Nat → Nat) (cls base toff m : Nat) :
    sparseScan w cls base toff m = (sparseIdx w cls base m).map fun j => w (toff + j) := by
  unfold sparseScan sparseIdx
  rw [findSome?_omap]
  apply findSome?_congr'
  intro i _
  unfold slotOf
  simp only []
  split
  · rfl
  · split
    · simp only [Option.map_some, Nat.add_assoc]
    · split
      · simp only [Option.map_some, Nat.add_assoc]
      · split
        · simp only [Option.map_some, Nat.add_assoc]
        · rfl

theorem sparseIdx_congr (w w' : Nat → Nat) (cls base m : Nat)
    (h : ∀ i, i < m → w (base + i) = w' (base + i)) :
    sparseIdx w cls base m = sparseIdx w' cls base m := by
  unfold sparseIdx
  apply findSome?_congr'
  intro i hi
  rw [h i (List.mem_range.1 hi)]

/-- on written class words the scan stops at the first transition with class `cls` -/
theorem sparseIdx_spec (w : Nat → Nat) (cls base : Nat) (cl : List Nat) (fuel : Nat)
    (hf : cl.length < fuel) (hcl : ∀ c ∈ cl, c < 256)
    (hw : ∀ i, i < u32Len cl.length → w (base + i) = (writeState.chunks cl fuel).getD i 0) :
    sparseIdx w cls base (u32Len cl.length) = cl.findIdx? (· == cls) := by
  -- a reader that agrees with `w` on the class words and holds `j` at `base + m + j`
  let m := u32Len cl.length
  let w' : Nat → Nat := fun i => if i < base + m then w i else i - (base + m)
  have hagree : ∀ i, i < m → w (base + i) = w' (base + i) := by
    intro i hi
    show _ = if base + i < base + m then w (base + i) else _
    rw [if_pos (by omega)]
  have hback : ∀ j, w' (base + m + j) = j := by
    intro j
    show (if base + m + j < base + m then w (base + m + j) else base + m + j - (base + m)) = j
    rw [if_neg (by omega)]; omega
  have h1 := sparseScan_spec w' cls base (base + m) cl fuel hf hcl
    (fun i hi => by rw [← hagree i hi]; exact hw i hi)
  rw [sparseScan_eq_idx] at h1
  have hid : (fun j => w' (base + m + j)) = id := funext hback
  rw [hid, Option.map_id] at h1
  rw [sparseIdx_congr w w' cls base m hagree]
  exact h1

theorem getElem?_getD_of_lt (a : Array Nat) {j : Nat} (h : j < a.size) :
    a[j]? = some (a.getD j 0) := by
  simp [Array.getD_eq_getD_getElem?, h]

/-- the checked loop: with the class words in range, it reads exactly the word at the slot -/
theorem scanGo?_eq (m : ContigM) (cls base toff : Nat) (l : List Nat)
    (hin : ∀ i ∈ l, base + i < m.repr.size) :
    m.scanGo? cls base toff l =
      match l.findSome? (fun i => slotOf cls (m.repr.getD (base + i) 0) i) with
      | none => some none
      | some j => (m.repr[toff + j]?).map some := by
  induction l with
  | nil => rfl
  | cons i rest ih =>
    rw [ContigM.scanGo?, getElem?_getD_of_lt m.repr (hin i (by simp)), List.findSome?_cons]
    simp only []
    unfold slotOf
    split
    · rfl
    · split
      · simp only [Nat.add_assoc]
      · split
        · simp only [Nat.add_assoc]
        · split
          · simp only [Nat.add_assoc]
          · exact ih (fun x hx => hin x (by simp [hx]))

end AcVerif.L1eP
