import AcVerif.Ideal
/-!
# L1e proofs: a match list of the ideal automaton has at most `P.length` entries
(the suffixes of a node are pairwise different, so every kept pattern is listed at most once)
-/
namespace AcVerif.L1eP
open AcVerif

theorem sum_map_add {β : Type} (l : List β) (g h : β → Nat) :
    (l.map fun a => g a + h a).sum = (l.map g).sum + (l.map h).sum := by
  induction l with
  | nil => simp
  | cons a l ih => simp only [List.map_cons, List.sum_cons, ih]; omega

theorem sum_map_zero {β : Type} (l : List β) : (l.map fun _ => 0).sum = 0 := by
  induction l with
  | nil => rfl
  | cons a l ih => simp only [List.map_cons, List.sum_cons, ih]

theorem sum_ind_zero {α : Type} [DecidableEq α] (f : Nat → List α) (v : List α) (ks : List Nat)
    (h : ∀ k ∈ ks, v ≠ f k) : (ks.map fun k => if v = f k then 1 else 0).sum = 0 := by
  induction ks with
  | nil => simp
  | cons k ks ih =>
    have h1 : v ≠ f k := h k (by simp)
    have h2 := ih (fun k' hk' => h k' (by simp [hk']))
    simp only [List.map_cons, List.sum_cons, h2, if_neg h1]

theorem sum_ind_le_one {α : Type} [DecidableEq α] (f : Nat → List α) (v : List α) (ks : List Nat)
    (h : ks.Pairwise (fun a b => f a ≠ f b)) :
    (ks.map fun k => if v = f k then 1 else 0).sum ≤ 1 := by
  induction ks with
  | nil => simp
  | cons k ks ih =>
    rw [List.pairwise_cons] at h
    simp only [List.map_cons, List.sum_cons]
    by_cases hv : v = f k
    · have h0 := sum_ind_zero f v ks (fun k' hk' => by rw [hv]; exact h.1 k' hk')
      rw [h0, if_pos hv]; omega
    · have := ih h.2
      rw [if_neg hv]; omega

theorem idsOf_length {α : Type} [DecidableEq α] (Q : PatSet α) (v : List α) :
    (idsOf Q v).length = Q.countP (fun q => q.1 = v) := by
  simp [idsOf, List.countP_eq_length_filter]

theorem sum_countP_le {α : Type} [DecidableEq α] (f : Nat → List α) (ks : List Nat)
    (h : ks.Pairwise (fun a b => f a ≠ f b)) (Q : PatSet α) :
    (ks.map fun k => Q.countP (fun q => q.1 = f k)).sum ≤ Q.length := by
  induction Q with
  | nil =>
    simp only [List.countP_nil, List.length_nil]
    exact Nat.le_of_eq (sum_map_zero ks)
  | cons q Q ih =>
    have e : (ks.map fun k => (q :: Q).countP (fun q => q.1 = f k)) =
        ks.map fun k => Q.countP (fun q => q.1 = f k) + (if q.1 = f k then 1 else 0) := by
      apply List.map_congr_left
      intro k _
      rw [List.countP_cons]
      simp
    rw [e, sum_map_add]
    have := sum_ind_le_one f q.1 ks h
    simp only [List.length_cons]
    omega

theorem drop_pairwise {α : Type} (u : List α) :
    (List.range (u.length + 1)).Pairwise (fun a b => u.drop a ≠ u.drop b) := by
  have hp : (List.range (u.length + 1)).Pairwise (fun a b => a < b) := List.pairwise_lt_range
  have hm : ∀ a ∈ List.range (u.length + 1), a ≤ u.length := by
    intro a ha; have := List.mem_range.1 ha; omega
  refine List.Pairwise.imp_of_mem ?_ hp
  intro a b ha hb hab heq
  have := congrArg List.length heq
  have := hm a ha
  have := hm b hb
  simp only [List.length_drop] at *
  omega

theorem outStd_length_le {α : Type} [DecidableEq α] (Q : PatSet α) (u : List α) :
    (outStd Q u).length ≤ Q.length := by
  unfold outStd
  rw [List.length_flatMap]
  have e : (List.map (fun k => (idsOf Q (List.drop k u)).length) (List.range (u.length + 1))) =
      (List.range (u.length + 1)).map fun k => Q.countP (fun q => q.1 = u.drop k) := by
    apply List.map_congr_left
    intro k _
    exact idsOf_length Q _
  rw [e]
  exact sum_countP_le (fun k => u.drop k) _ (drop_pairwise u) Q

theorem idsOf_length_le {α : Type} [DecidableEq α] (Q : PatSet α) (v : List α) :
    (idsOf Q v).length ≤ Q.length := by
  rw [idsOf_length]; exact List.countP_le_length

theorem outLm_length_le {α : Type} [DecidableEq α] (Q : PatSet α) (u : List α) :
    (outLm Q u).length ≤ Q.length := by
  unfold outLm
  split
  · simp
  · split
    · simp
    · exact idsOf_length_le Q _

theorem patSet_length_le {α : Type} [DecidableEq α] (k : MatchKind) (P : List (List α)) :
    (patSet k P).length ≤ P.length := by
  unfold patSet enumPats
  split
  · exact Nat.le_trans (List.length_filter_le _ _) (by simp)
  · simp

/-- a match list never has more entries than there are patterns -/
theorem out_length_le (k : MatchKind) (P : List (List UInt8)) (q : St UInt8) :
    (Ideal.out k (patSet k P) q).length ≤ P.length := by
  refine Nat.le_trans ?_ (patSet_length_le k P)
  cases q with
  | dead => simp [Ideal.out]
  | «at» u =>
    cases k with
    | std => exact outStd_length_le _ u
    | lf => exact outLm_length_le _ u
    | ll => exact outLm_length_le _ u

end AcVerif.L1eP

