import AcVerif.Proofs.OvlScanBounds
import AcVerif.Ideal
/-!
# One pattern and a confirming prefilter: at most one confirmed match per call

For an ARBITRARY automaton record a confirming prefilter consulted inside the overlapping loop
may account for overlapping stretches (`Theorems/C19OvlScan.lean`, `C19_ovl_prescan_mtch_exceeds`).
For the automaton of a single pattern `p` and a prefilter that confirms occurrences of `p`
(`MemLike`: what `memmem` does) this cannot happen: the loop consults the prefilter only in the
start state, the confirmed occurrence starts after the current position, the loop resumes at its
start and walks `p` through non-special states to the match state at its last byte, where the
call returns.  So a call contains at most one confirmed match (or one `.none` answer), and the
extent of the call is at most the rest of the span.
-/
namespace AcVerif
namespace ScanP
variable {α : Type} [DecidableEq α]

/-- in-loop answers of a `memmem`-like prefilter for `p`: never a candidate; a confirmed match
is an occurrence of `p` inside the span it was given -/
def MemLike (p : List α) (pre : Prefilter α) (hay : List α) (e : Nat) : Prop :=
  ∀ a, a ≤ e →
    match pre hay a e with
    | .none => True
    | .pos _ => False
    | .mtch m => a ≤ m.start ∧ m.stop = m.start + p.length ∧ m.stop ≤ e ∧ p <+: hay.drop m.start

theorem patSet_single (p : List α) : patSet .std [p] = [(p, 0)] := by
  simp [patSet, enumPats]

theorem isPref_single (p u : List α) : isPref [(p, 0)] u = u.isPrefixOf p := by
  simp [isPref]

theorem lsp_of_isPref (Q : PatSet α) (w : List α) (h : isPref Q w = true) : lsp Q w = w := by
  cases w with
  | nil => rfl
  | cons c t => simp [lsp, h]

/-- a word ending in the first byte of a pattern does not fall back to the root -/
theorem lsp_snoc_ne_nil (Q : PatSet α) (c : α) (h : isPref Q [c] = true) :
    ∀ u : List α, lsp Q (u ++ [c]) ≠ []
  | [] => by
    simp [lsp, h]
  | a :: t => by
    simp only [List.cons_append, lsp]
    split
    · exact List.cons_ne_nil _ _
    · exact lsp_snoc_ne_nil Q c h t

theorem idsOf_single (p v : List α) : idsOf [(p, 0)] v = if p = v then [0] else [] := by
  simp only [idsOf, List.filter]
  by_cases h : p = v
  · simp [h]
  · simp [h]

theorem outStd_single_short (p u : List α) (h : u.length < p.length) :
    outStd [(p, 0)] u = [] := by
  unfold outStd
  rw [List.flatMap_eq_nil_iff]
  intro k _
  rw [idsOf_single, if_neg]
  intro hp
  have := congrArg List.length hp
  simp only [List.length_drop] at this
  omega

theorem outStd_single_self (p : List α) : outStd [(p, 0)] p ≠ [] := by
  intro h
  unfold outStd at h
  rw [List.flatMap_eq_nil_iff] at h
  have := h 0 (by simp)
  rw [idsOf_single] at this
  simp at this

omit [DecidableEq α] in
theorem hay_at_of_prefix {p hay : List α} {ms j : Nat} (hpre : p <+: hay.drop ms)
    (hj : j < p.length) (h : ms + j < hay.length) : hay[ms + j] = p[j] := by
  obtain ⟨t, ht⟩ := hpre
  have h1 : (hay.drop ms)[j]? = (p ++ t)[j]? := by rw [ht]
  rw [List.getElem?_drop, List.getElem?_append_left hj, List.getElem?_eq_getElem h,
    List.getElem?_eq_getElem hj] at h1
  exact Option.some.inj h1

/-- from the start of a confirmed occurrence the loop walks the pattern and returns at its last
byte, without consulting the prefilter -/
theorem ovlScanLoop_walk (p : List α) (sk : StartKind) (hp : Bool) (hay : List α) (s e : Nat)
    (he : e ≤ hay.length) (pre : Option (Prefilter α)) (ms : Nat) (hpre : p <+: hay.drop ms)
    (hme : ms + p.length ≤ e) :
    ∀ (k j : Nat), p.length - j = k → j < p.length → ∀ acc,
      ovlScanLoop (ideal .std [p] sk hp) hay s e he pre false (.at (p.take j)) (ms + j) acc =
        acc := by
  intro k
  induction k with
  | zero => intro j hk hj; omega
  | succ k ih =>
    intro j hk hj acc
    have hlt : ms + j < e := by omega
    rw [ovlScanLoop, dif_pos hlt]
    have hc : hay[ms + j]'(Nat.lt_of_lt_of_le hlt he) = p[j] :=
      hay_at_of_prefix hpre hj (Nat.lt_of_lt_of_le hlt he)
    have hnext : (ideal .std [p] sk hp).next false (.at (p.take j))
        (hay[ms + j]'(Nat.lt_of_lt_of_le hlt he)) = .at (p.take (j + 1)) := by
      rw [hc]
      show Ideal.next .std (patSet .std [p]) false (.at (p.take j)) p[j] = _
      simp only [Ideal.next, Bool.false_eq_true, if_false, stepStd,
        ← List.take_succ_eq_append_getElem hj]
      rw [lsp_of_isPref]
      rw [patSet_single, isPref_single, List.isPrefixOf_iff_prefix]
      exact List.take_prefix _ _
    simp only [hnext]
    have hlen : (p.take (j + 1)).length = j + 1 := by
      rw [List.length_take]; omega
    have hne : (St.at (p.take (j + 1)) == St.at []) = false := by
      rw [beq_eq_false_iff_ne]
      intro h
      injection h with h
      rw [h] at hlen
      cases hlen
    have hnd : (St.at (p.take (j + 1)) == (St.dead : St α)) = false := by
      rw [beq_eq_false_iff_ne]
      intro h
      cases h
    rcases Nat.lt_or_ge (j + 1) p.length with hj' | hj'
    · -- an inner node of the pattern: not special
      have hout : Ideal.out .std (patSet .std [p]) (.at (p.take (j + 1))) = [] := by
        simp only [Ideal.out, patSet_single]
        exact outStd_single_short p _ (by omega)
      have hsp : (ideal .std [p] sk hp).isSpecial (.at (p.take (j + 1))) = false := by
        show (_ == _ || !(Ideal.out .std (patSet .std [p]) _).isEmpty || (hp && _ == _)) = false
        rw [hout, hne, hnd]
        simp
      rw [hsp]
      simp only [Bool.false_eq_true, if_false]
      exact ih (j + 1) (by omega) hj' acc
    · -- the last byte: the match state
      have hfull : p.take (j + 1) = p := by
        rw [show j + 1 = p.length by omega, List.take_length]
      have hout : (Ideal.out .std (patSet .std [p]) (.at (p.take (j + 1)))).isEmpty = false := by
        simp only [Ideal.out, patSet_single, hfull]
        cases h : outStd [(p, 0)] p with
        | nil => exact absurd h (outStd_single_self p)
        | cons _ _ => rfl
      have hsp : (ideal .std [p] sk hp).isSpecial (.at (p.take (j + 1))) = true := by
        show (_ == _ || !(Ideal.out .std (patSet .std [p]) _).isEmpty || (hp && _ == _)) = true
        rw [hout]
        simp
      have hdd : (ideal .std [p] sk hp).isDead (.at (p.take (j + 1))) = false := hnd
      have hmm : (ideal .std [p] sk hp).isMatch (.at (p.take (j + 1))) = true := by
        show (!(Ideal.out .std (patSet .std [p]) _).isEmpty) = true
        rw [hout]
        rfl
      rw [hsp, hdd, hmm]
      simp

/-- **one call, one pattern, confirming prefilter**: the extents of the loop started anywhere,
in any state, sum to at most the rest of the span -/
theorem ovlScanLoop_single_le (p : List α) (hne : p ≠ []) (sk : StartKind) (hp : Bool)
    (hay : List α) (s e : Nat) (he : e ≤ hay.length) (pre : Prefilter α)
    (hpre : MemLike p pre hay e) :
    ∀ (n : Nat) (sid : St α) (at_ acc : Nat), e - at_ = n →
      ovlScanLoop (ideal .std [p] sk hp) hay s e he (some pre) false sid at_ acc ≤
        acc + (e - at_) := by
  intro n
  induction n using Nat.strongRecOn with
  | _ n ih =>
    intro sid at_ acc hn
    have step : ∀ (sid' : St α), at_ < e →
        ovlScanLoop (ideal .std [p] sk hp) hay s e he (some pre) false sid' (at_ + 1) acc ≤
          acc + (e - at_) := by
      intro sid' hlt
      have := ih (e - (at_ + 1)) (by omega) sid' (at_ + 1) acc rfl
      omega
    rw [ovlScanLoop]
    split
    · rename_i hlt
      simp only
      generalize hsid' : (ideal .std [p] sk hp).next false sid
        (hay[at_]'(Nat.lt_of_lt_of_le hlt he)) = sid'
      split
      · rename_i hsp
        split
        · exact Nat.le_add_right _ _
        · rename_i hnd
          split
          · split
            · exact Nat.le_add_right _ _
            · exact step _ hlt
          · rename_i hnm
            have hq := hpre at_ (Nat.le_of_lt hlt)
            cases hc : pre hay at_ e with
            | none =>
              simp only [Cand.intoOption, Cand.extent]
              exact Nat.le_refl _
            | pos j => rw [hc] at hq; exact hq.elim
            | mtch m =>
              rw [hc] at hq
              obtain ⟨hq1, hq2, hq3, hq4⟩ := hq
              -- the state is the root
              have hroot : sid' = .at [] := by
                have h1 : (sid' == St.dead || !(Ideal.out .std (patSet .std [p]) sid').isEmpty ||
                    (hp && sid' == .at [])) = true := hsp
                have h2 : ¬ (sid' == St.dead) = true := hnd
                have h3 : ¬ (!(Ideal.out .std (patSet .std [p]) sid').isEmpty) = true := hnm
                simp only [Bool.or_eq_true, Bool.and_eq_true] at h1
                rcases h1 with (h1 | h1) | h1
                · exact absurd h1 h2
                · exact absurd h1 h3
                · exact eq_of_beq h1.2
              have hpl : 0 < p.length := List.length_pos_iff.2 hne
              simp only [Cand.intoOption, Cand.extent]
              split
              · -- resume at the start of the confirmed occurrence: walk it, return
                have hw := ovlScanLoop_walk p sk hp hay s e he (some pre) m.start hq4
                  (by omega) p.length 0 rfl hpl (acc + (m.stop - at_))
                rw [hroot]
                simp only [List.take_zero, Nat.add_zero] at hw
                rw [hw]
                omega
              · -- the occurrence would start at `at_`: then the state is not the root
                rename_i hle
                exfalso
                have hms : m.start = at_ := by omega
                have hc0 : hay[at_]'(Nat.lt_of_lt_of_le hlt he) = p[0] := by
                  have := hay_at_of_prefix (ms := m.start) (j := 0) hq4 hpl
                    (by rw [hms]; exact Nat.lt_of_lt_of_le hlt he)
                  simpa [hms] using this
                rw [hroot, hc0] at hsid'
                cases sid with
                | dead => cases hsid'
                | «at» u =>
                  have hsid'' : Ideal.next .std (patSet .std [p]) false (.at u) p[0] =
                    .at [] := hsid'
                  simp only [Ideal.next, Bool.false_eq_true, if_false, stepStd] at hsid''
                  injection hsid'' with hsid''
                  refine lsp_snoc_ne_nil _ p[0] ?_ u hsid''
                  rw [patSet_single, isPref_single, List.isPrefixOf_iff_prefix]
                  have : [p[0]] = p.take 1 := by
                    cases p with
                    | nil => exact absurd rfl hne
                    | cons a t => rfl
                  rw [this]
                  exact List.take_prefix _ _
      · exact step _ hlt
    · exact Nat.le_add_right _ _

end ScanP
end AcVerif
