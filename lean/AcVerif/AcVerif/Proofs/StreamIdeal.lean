import AcVerif.Proofs.StreamRun
import AcVerif.Theorems.C02
/-!
# Stream search on the ideal standard automaton

Instantiates the generic stream invariant: the in-memory search `findAt` is
`firstMatch` (the stream's own scan loop run over the whole stream), its
answers are non-empty occurrences no longer than the buffer's `min`
(`C02_find`), `ChunkIter.new` succeeds and its state satisfies the invariant.
-/
namespace AcVerif.StreamP
open AcVerif AcVerif.StdP
variable {σ α : Type}

/-! ## generic: `findS` (earliest, unanchored) is the scan loop -/

theorem isMatch_of_dead {A : Aut σ α} (hA : StdLike A) {q : σ} (hq : A.isDead q = true) :
    A.isMatch q = false := by
  rw [hA.isMatch, hA.dead_out q hq]; rfl

theorem scan_dead {A : Aut σ α} (hA : StdLike A) {q : σ} (hq : A.isDead q = true) (k : Nat)
    (w : List α) : A.isMatch (scanBytes A q k w).1 = false := by
  induction w generalizing q k with
  | nil => exact isMatch_of_dead hA hq
  | cons c w ih =>
    have hd := hA.dead_next false q c hq
    simp only [scanBytes, isMatch_of_dead hA hd, Bool.false_eq_true, if_false]
    exact ih hd _

theorem findS_scan {A : Aut σ α} (hA : StdLike A) (s : Nat) (q : σ) (at_ : Nat) (rest : List α)
    (hq : A.isMatch q = false) :
    findS A s false true q at_ none rest =
      if A.isMatch (scanBytes A q 0 rest).1 then
        some (getMatch A (scanBytes A q 0 rest).1 0 (at_ + (scanBytes A q 0 rest).2))
      else none := by
  induction rest generalizing q at_ with
  | nil => simp [findS, scanBytes, hq]
  | cons c rest ih =>
    simp only [findS, scanBytes]
    rw [hA.special]
    rcases Bool.eq_false_or_eq_true (A.isMatch (A.next false q c)) with hm | hm
    · have hd : A.isDead (A.next false q c) = false := by
        rcases Bool.eq_false_or_eq_true (A.isDead (A.next false q c)) with hd | hd
        · rw [isMatch_of_dead hA hd] at hm; cases hm
        · exact hd
      simp [hd, hm]
    · rcases Bool.eq_false_or_eq_true (A.isDead (A.next false q c)) with hd | hd
      · have := scan_dead hA hd (0 + 1) rest
        simp [this, hd, hm]
      · simp only [hd, hm, Bool.or_self, Bool.false_eq_true, if_false]
        rw [ih _ _ hm, scan_shift A _ (0 + 1) rest]
        simp only [Nat.zero_add, Nat.add_assoc]

/-! ## list helpers -/

theorem foldl_max_ge (l : List Nat) (a : Nat) :
    a ≤ l.foldl max a ∧ ∀ x ∈ l, x ≤ l.foldl max a := by
  induction l generalizing a with
  | nil => simp
  | cons y l ih =>
    have := ih (max a y)
    simp only [List.foldl_cons, List.mem_cons]
    refine ⟨by omega, ?_⟩
    rintro x (rfl | hx)
    · omega
    · exact this.2 x hx

theorem foldl_min_pos (l : List Nat) (a : Nat) (ha : 0 < a) (hl : ∀ x ∈ l, 0 < x) :
    0 < l.foldl min a := by
  induction l generalizing a with
  | nil => simpa
  | cons y l ih =>
    simp only [List.foldl_cons]
    have := hl y (by simp)
    exact ih (min a y) (by omega) (fun x hx => hl x (by simp [hx]))

/-! ## the only fact about the capacity: one byte of room beyond `min` -/

/-- explicit spare room: `min < min + max 1 sp`, whatever the constants -/
theorem hcap_spare (n sp minFactor defaultCap : Nat) :
    (Buffer.new (α := α) n (some sp) minFactor defaultCap).min <
      (Buffer.new (α := α) n (some sp) minFactor defaultCap).cap := by
  show max 1 n < max 1 n + max 1 sp; omega

/-- production shape `max (min * minFactor) defaultCap` with `minFactor ≥ 2` -/
theorem hcap_factor (n minFactor defaultCap : Nat) (hf : 2 ≤ minFactor) :
    (Buffer.new (α := α) n none minFactor defaultCap).min <
      (Buffer.new (α := α) n none minFactor defaultCap).cap := by
  show max 1 n < max (max 1 n * minFactor) defaultCap
  have := Nat.mul_le_mul_left (max 1 n) hf
  omega

/-- the default constants (factor 8, 64 KiB) -/
theorem hcap_default (n : Nat) (spare : Option Nat) :
    (Buffer.new (α := α) n spare).min < (Buffer.new (α := α) n spare).cap := by
  cases spare with
  | none => show max 1 n < max (max 1 n * 8) (64 * 1024); omega
  | some sp => show max 1 n < max 1 n + max 1 sp; omega

/-! ## the ideal standard automaton -/
section Ideal
variable {α : Type} [DecidableEq α]

/-- the whole stream as an in-memory search input -/
abbrev whole (data : List α) : Input α :=
  { hay := data, s := 0, e := data.length, anch := false, earliest := false,
    valid := ⟨Nat.le_refl _, Nat.zero_le _⟩ }

/-- the stream with the search start moved to `r` -/
abbrev wholeAt (data : List α) (r : Nat) (hr : r ≤ data.length + 1) : Input α :=
  { hay := data, s := r, e := data.length, anch := false, earliest := false,
    valid := ⟨Nat.le_refl _, hr⟩ }

theorem start_not_match (P : List (List α)) (sk : StartKind) (hne : ∀ p ∈ P, p ≠ []) :
    (ideal .std P sk false).isMatch (.at []) = false := by
  have : outStd (enumPats P) ([] : List α) = [] := by
    rw [List.eq_nil_iff_forall_not_mem]
    intro pid hpid
    obtain ⟨p, hp, hs⟩ := mem_outStd.1 hpid
    have : p = [] := by simpa using hs
    exact hne p (List.mem_of_getElem? hp) this
  show (!(outStd (enumPats P) ([] : List α)).isEmpty) = false
  rw [this]; rfl

theorem findAt_isFind (P : List (List α)) (sk : StartKind) (hsk : supportsAnch sk false)
    (data : List α) (r : Nat) (hr : r ≤ data.length + 1) :
    IsFind .std P data r data.length false
      (findAt (ideal .std P sk false) none (whole data) r) := by
  obtain ⟨res, h1, h2⟩ := C02_find P sk (wholeAt data r hr) hsk
  have : findAt (ideal .std P sk false) none (whole data) r = res := by
    unfold findAt
    rw [dif_pos hr]
    simp only [h1]
  rw [this]
  exact h2

theorem findAt_eq_firstMatch (P : List (List α)) (sk : StartKind) (hsk : supportsAnch sk false)
    (hne : ∀ p ∈ P, p ≠ []) (data : List α) (r : Nat) (hr : r ≤ data.length) :
    findAt (ideal .std P sk false) none (whole data) r =
      firstMatch (ideal .std P sk false) (.at []) data r := by
  have hr' : r ≤ data.length + 1 := by omega
  have hm0 := start_not_match P sk hne
  have hmp : (ideal .std P sk false).mpats (.at []) = [] := by
    have := (stdLike_ideal P sk).isMatch (.at [])
    rw [hm0] at this
    simpa using this.symm
  have hd : Input.isDone (wholeAt data r hr') = false := by
    simp only [Input.isDone, decide_eq_false_iff_not]; omega
  have h1 := tryFindFwd_eq (stdLike_ideal P sk) (wholeAt data r hr') (ideal_start P hsk) hd
  have : findAt (ideal .std P sk false) none (whole data) r =
      (allMatches (ideal .std P sk false) r false (.at [])
        ((data.take data.length).drop r)).head? := by
    unfold findAt
    rw [dif_pos hr']
    simp only [h1]
  rw [this]
  simp only [allMatches, hmp, List.map_nil, List.nil_append, List.take_length]
  rw [← findS_eq (stdLike_ideal P sk), findS_scan (stdLike_ideal P sk) _ _ _ _ hm0]
  rfl

theorem len_le_maxLen (P : List (List α)) (sk : StartKind) {p : List α} (hp : p ∈ P) :
    p.length ≤ (ideal .std P sk false).maxLen := by
  show p.length ≤ (P.map List.length).foldl max 0
  exact (foldl_max_ge _ 0).2 _ (List.mem_map_of_mem hp)

/-- the standing assumptions hold for the ideal standard automaton, for any
buffer constants leaving one byte of room beyond `min` -/
theorem hyp_ideal (P : List (List α)) (sk : StartKind) (hsk : supportsAnch sk false)
    (hne : ∀ p ∈ P, p ≠ []) (data : List α) (sched : List Nat) (hs : ∀ x ∈ sched, 1 ≤ x)
    (spare : Option Nat) (minFactor defaultCap : Nat)
    (hcap : (Buffer.new (α := α) (ideal .std P sk false).maxLen spare minFactor defaultCap).min <
        (Buffer.new (α := α) (ideal .std P sk false).maxLen spare minFactor defaultCap).cap) :
    Hyp (ideal .std P sk false) (.at []) data sched
      (Buffer.new (α := α) (ideal .std P sk false).maxLen spare minFactor defaultCap).min
      (Buffer.new (α := α) (ideal .std P sk false).maxLen spare minFactor defaultCap).cap where
  m0 := start_not_match P sk hne
  fok := by
    intro r m hr hf
    rw [← findAt_eq_firstMatch P sk hsk hne data r hr] at hf
    have := findAt_isFind P sk hsk data r (by omega)
    rw [hf] at this
    obtain ⟨⟨⟨p, hp, h1, h2, h3, _⟩, _⟩, _⟩ := this
    have hmem := List.mem_of_getElem? hp
    have h4 : 0 < p.length := List.length_pos_iff.2 (hne p hmem)
    have h5 := len_le_maxLen P sk hmem
    refine ⟨h1, by omega, ?_⟩
    show m.stop ≤ m.start + max 1 (ideal .std P sk false).maxLen
    omega
  lm1 := by show 1 ≤ max 1 _; omega
  lmC := hcap
  sch := hs

theorem new_ok (P : List (List α)) (sk : StartKind) (hsk : supportsAnch sk false)
    (hne : ∀ p ∈ P, p ≠ []) (rdr : Reader α) (spare : Option Nat) (minFactor defaultCap : Nat) :
    ChunkIter.new (ideal .std P sk false) rdr spare minFactor defaultCap =
      .ok { rdr := rdr,
            buf := Buffer.new (ideal .std P sk false).maxLen spare minFactor defaultCap,
            start := .at [], sid := .at [] } := by
  have h1 : ((ideal .std P sk false).kind != .std) = false := rfl
  have h2 : ((ideal .std P sk false).minLen == 0) = false := by
    have : 0 < (ideal .std P sk false).minLen := by
      show 0 < (P.map List.length).foldl min 18446744073709551615
      apply foldl_min_pos _ _ (by omega)
      intro x hx
      obtain ⟨p, hp, rfl⟩ := List.mem_map.1 hx
      exact List.length_pos_iff.2 (hne p hp)
    simp only [beq_eq_false_iff_ne, ne_eq]; omega
  simp only [ChunkIter.new, h1, h2, ideal_start P hsk, Bool.false_eq_true, if_false]

/-- the state `ChunkIter.new` returns -/
abbrev it0 (P : List (List α)) (sk : StartKind) (data : List α) (sched : List Nat)
    (fa : Option Nat) (spare : Option Nat) (minFactor defaultCap : Nat) : ChunkIter (St α) α :=
  { rdr := { data := data, sched := sched, failAt := fa },
    buf := Buffer.new (ideal .std P sk false).maxLen spare minFactor defaultCap,
    start := .at [], sid := .at [] }

/-- the initial state satisfies the invariant -/
theorem inv_init (P : List (List α)) (sk : StartKind) (data : List α) (sched : List Nat)
    (fa : Option Nat) (spare : Option Nat) (minFactor defaultCap : Nat) :
    Inv (ideal .std P sk false) (.at []) data sched fa
      (Buffer.new (α := α) (ideal .std P sk false).maxLen spare minFactor defaultCap).min
      (Buffer.new (α := α) (ideal .std P sk false).maxLen spare minFactor defaultCap).cap 0
      (it0 P sk data sched fa spare minFactor defaultCap) where
  rinv := ⟨rfl, rfl, rfl, rfl, Nat.zero_le _⟩
  binv := ⟨rfl, rfl, Nat.le_refl _, by show ([] : List α) = slice data (0 - 0) 0; simp [slice]⟩
  start := rfl
  bp := Nat.le_refl _
  rep := Nat.le_refl _
  abs := rfl
  scan := ScanAt.init _ _ _ (Nat.zero_le _)
  sem := by intro m _; show 0 - 0 + 0 ≤ m.start; omega

/-- everything the property theorems need, for a reader with or without a fault:
`new` succeeds, draining yields a chunk list meeting `Spec` with `emptyReads = 0`
(and no error if the reader has no fault), and the replace loop is `goPure` over it -/
theorem stream_master (P : List (List α)) (sk : StartKind) (hsk : supportsAnch sk false)
    (hne : ∀ p ∈ P, p ≠ []) (data : List α) (sched : List Nat) (hs : ∀ x ∈ sched, 1 ≤ x)
    (spare : Option Nat) (minFactor defaultCap : Nat)
    (hcap : (Buffer.new (α := α) (ideal .std P sk false).maxLen spare minFactor defaultCap).min <
        (Buffer.new (α := α) (ideal .std P sk false).maxLen spare minFactor defaultCap).cap)
    (fa : Option Nat) :
    ∃ it cs err,
      ChunkIter.new (ideal .std P sk false) { data := data, sched := sched, failAt := fa } spare
        minFactor defaultCap = .ok it ∧
      ChunkIter.drain (ideal .std P sk false) (drainFuel data) it = (cs, err, 0) ∧
      Spec (firstMatch (ideal .std P sk false) (.at []) data) data err 0 0 cs ∧
      (fa = none → err = false) ∧
      ∀ (repl : Mat → List α) (w : Writer α),
        streamReplaceWith.go (ideal .std P sk false) repl (drainFuel data) it w [] =
          ((goPure repl cs err w []).1, (goPure repl cs err w []).2.1,
            (goPure repl cs err w []).2.2, 0) := by
  have H := hyp_ideal P sk hsk hne data sched hs spare minFactor defaultCap hcap
  have hI := inv_init P sk data sched fa spare minFactor defaultCap
  have hn : data.length - off (it0 P sk data sched fa spare minFactor defaultCap) + 1 ≤
      drainFuel data := by
    unfold drainFuel; omega
  obtain ⟨cs, err, hd, hsp, he⟩ := drain_spec H (drainFuel data) _ 0 hI hn
  refine ⟨_, cs, err, new_ok P sk hsk hne _ spare minFactor defaultCap, hd, hsp, he, ?_⟩
  intro repl w
  rw [go_eq H repl (drainFuel data) _ 0 w [] hI hn, hd]

/-- the in-memory iterator over `findAt` is the iterator over `firstMatch`
(no buffer is involved: the statement does not mention the capacity) -/
theorem iter_findAt (P : List (List α)) (sk : StartKind) (hsk : supportsAnch sk false)
    (hne : ∀ p ∈ P, p ≠ []) (data : List α) :
    iterSpec (findAt (ideal .std P sk false) none (whole data)) 0 data.length =
      iterSpecAux (firstMatch (ideal .std P sk false) (.at []) data) (data.length + 2 - 0) 0 none :=
  iter_congr (fun r hr => findAt_eq_firstMatch P sk hsk hne data r hr)
    (hyp_ideal P sk hsk hne data [] (fun _ h => nomatch h) none 8 (64 * 1024)
      (hcap_default _ none)).FOK _ 0 none (Nat.zero_le _)

theorem findIter_eq (P : List (List α)) (sk : StartKind) (hsk : supportsAnch sk false)
    (data : List α) :
    findIter (ideal .std P sk false) none (whole data) =
      .ok (iterSpec (findAt (ideal .std P sk false) none (whole data)) 0 data.length) := by
  simp only [findIter, ideal_start P hsk]

end Ideal

end AcVerif.StreamP
