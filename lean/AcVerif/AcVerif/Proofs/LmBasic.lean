import AcVerif.Ideal
/-!
# Leftmost semantics: facts about `isPref`, `lsp`, `blocked`, `idsOf`, `outLm`
-/
namespace AcVerif.LmP
open AcVerif
set_option linter.unusedSectionVars false
variable {α : Type} [DecidableEq α]

theorem suffix_append_right {a b : List α} (h : a <:+ b) (t : List α) : a ++ t <:+ b ++ t := by
  obtain ⟨x, hx⟩ := h
  exact ⟨x, by rw [← List.append_assoc, hx]⟩

/-! ## `isPref` -/

theorem isPref_iff {Q : PatSet α} {u : List α} :
    isPref Q u = true ↔ ∃ q ∈ Q, u <+: q.1 := by
  simp [isPref, List.any_eq_true]

theorem isPref_of_append {Q : PatSet α} {a b : List α} (h : isPref Q (a ++ b) = true) :
    isPref Q a = true := by
  rw [isPref_iff] at *
  obtain ⟨q, hq, hp⟩ := h
  exact ⟨q, hq, (List.prefix_append a b).trans hp⟩

theorem isPref_of_prefix {Q : PatSet α} {a b : List α} (hab : a <+: b) (h : isPref Q b = true) :
    isPref Q a = true := by
  obtain ⟨t, rfl⟩ := hab
  exact isPref_of_append h

theorem isPref_of_mem {Q : PatSet α} {q : List α × Nat} (h : q ∈ Q) : isPref Q q.1 = true :=
  isPref_iff.2 ⟨q, h, List.prefix_refl _⟩

/-! ## `lsp` -/

theorem lsp_suffix (Q : PatSet α) (w : List α) : lsp Q w <:+ w := by
  induction w with
  | nil => exact List.suffix_refl _
  | cons c t ih =>
    simp only [lsp]
    split
    · exact List.suffix_refl _
    · exact ih.trans (List.suffix_cons c t)

theorem lsp_of_isPref {Q : PatSet α} {w : List α} (h : isPref Q w = true) : lsp Q w = w := by
  cases w with
  | nil => rfl
  | cons c t => simp [lsp, h]

theorem lsp_isPref {Q : PatSet α} {w : List α} (h : lsp Q w ≠ []) : isPref Q (lsp Q w) = true := by
  induction w with
  | nil => simp [lsp] at h
  | cons c t ih =>
    simp only [lsp] at h ⊢
    split
    · assumption
    · rename_i hc
      simp only [hc] at h
      exact ih (by simpa using h)

theorem lsp_max {Q : PatSet α} {v w : List α} (hs : v <:+ w) (hp : isPref Q v = true) :
    v <:+ lsp Q w := by
  induction w with
  | nil =>
    have : v = [] := List.suffix_nil.1 hs
    subst this; exact List.suffix_refl _
  | cons c t ih =>
    simp only [lsp]
    split
    · exact hs
    · rename_i hc
      rcases List.suffix_cons_iff.1 hs with h | h
      · subst h; exact absurd hp hc
      · exact ih h

theorem lsp_length_le (Q : PatSet α) (w : List α) : (lsp Q w).length ≤ w.length :=
  (lsp_suffix Q w).length_le

/-- the key step lemma: the failure computation only needs the current node -/
theorem lsp_step (Q : PatSet α) (w : List α) (c : α) :
    lsp Q (w ++ [c]) = lsp Q (lsp Q w ++ [c]) := by
  have h1 : lsp Q (lsp Q w ++ [c]) <:+ lsp Q (w ++ [c]) := by
    by_cases hn : lsp Q (lsp Q w ++ [c]) = []
    · rw [hn]; exact List.nil_suffix
    · apply lsp_max _ (lsp_isPref hn)
      exact (lsp_suffix Q _).trans (suffix_append_right (lsp_suffix Q w) _)
  have h2 : lsp Q (w ++ [c]) <:+ lsp Q (lsp Q w ++ [c]) := by
    by_cases hn : lsp Q (w ++ [c]) = []
    · rw [hn]; exact List.nil_suffix
    · have hp := lsp_isPref hn
      rcases List.suffix_concat_iff.1 (lsp_suffix Q (w ++ [c])) with h | ⟨t, ht, hts⟩
      · exact absurd h hn
      · rw [ht] at hp ⊢
        have : t <:+ lsp Q w := lsp_max hts (isPref_of_append hp)
        exact lsp_max (suffix_append_right this _) hp
  exact h2.eq_of_length_le h1.length_le

/-! ## Occurrences relative to a text -/

/-- the kept pattern `q` occurs in the text `w` at offset `st` -/
def OccIn (Q : PatSet α) (w : List α) (q : List α × Nat) (st : Nat) : Prop :=
  q ∈ Q ∧ st ≤ w.length ∧ q.1 <+: w.drop st

theorem OccIn.len_le {Q : PatSet α} {w : List α} {q : List α × Nat} {st : Nat}
    (h : OccIn Q w q st) : st + q.1.length ≤ w.length := by
  have := h.2.2.length_le
  have := h.2.1
  simp only [List.length_drop] at *
  omega

theorem OccIn.append {Q : PatSet α} {w : List α} {q : List α × Nat} {st : Nat}
    (h : OccIn Q w q st) (r : List α) : OccIn Q (w ++ r) q st := by
  refine ⟨h.1, ?_, ?_⟩
  · have := h.2.1; simp only [List.length_append]; omega
  · rw [List.drop_append_of_le_length h.2.1]
    exact h.2.2.trans (List.prefix_append _ _)

theorem OccIn.of_append {Q : PatSet α} {w r : List α} {q : List α × Nat} {st : Nat}
    (h : OccIn Q (w ++ r) q st) (hl : st + q.1.length ≤ w.length) : OccIn Q w q st := by
  have hst : st ≤ w.length := by omega
  refine ⟨h.1, hst, ?_⟩
  have h2 := h.2.2
  rw [List.drop_append_of_le_length hst] at h2
  exact List.prefix_of_prefix_length_le h2 (List.prefix_append _ _)
    (by simp only [List.length_drop]; omega)

theorem OccIn.eq_drop {Q : PatSet α} {w : List α} {q : List α × Nat} {st : Nat}
    (h : OccIn Q w q st) (hl : w.length ≤ st + q.1.length) : q.1 = w.drop st :=
  h.2.2.eq_of_length_le (by simp only [List.length_drop]; omega)

theorem drop_of_suffix {u w : List α} (h : u <:+ w) (st : Nat) :
    w.drop (st + (w.length - u.length)) = u.drop st := by
  obtain ⟨a, rfl⟩ := h
  have : st + ((a ++ u).length - u.length) = a.length + st := by
    simp only [List.length_append]; omega
  rw [this, ← List.drop_drop, List.drop_append_length]

theorem OccIn.shift {Q : PatSet α} {u w : List α} {q : List α × Nat} {st : Nat}
    (hs : u <:+ w) (h : OccIn Q u q st) : OccIn Q w q (st + (w.length - u.length)) := by
  refine ⟨h.1, ?_, ?_⟩
  · have := h.2.1; have := hs.length_le; omega
  · rw [drop_of_suffix hs]; exact h.2.2

theorem OccIn.unshift {Q : PatSet α} {u w : List α} {q : List α × Nat} {st : Nat}
    (hs : u <:+ w) (h : OccIn Q w q st) (hl : w.length - u.length ≤ st) :
    OccIn Q u q (st - (w.length - u.length)) := by
  refine ⟨h.1, ?_, ?_⟩
  · have := h.2.1; have := hs.length_le; omega
  · rw [← drop_of_suffix hs]
    have : st - (w.length - u.length) + (w.length - u.length) = st := by omega
    rw [this]; exact h.2.2

/-- an occurrence reaching position `|w|` (or beyond, in a longer text) starts inside the
window of `lsp Q w` -/
theorem OccIn.ge_of_reach {Q : PatSet α} {w r : List α} {q : List α × Nat} {st : Nat}
    (h : OccIn Q (w ++ r) q st) (hst : st ≤ w.length) (hl : w.length ≤ st + q.1.length) :
    w.length - (lsp Q w).length ≤ st := by
  have h2 := h.2.2
  rw [List.drop_append_of_le_length hst] at h2
  have hp : w.drop st <+: q.1 :=
    List.prefix_of_prefix_length_le (List.prefix_append _ _) h2
      (by simp only [List.length_drop]; omega)
  have hpre : isPref Q (w.drop st) = true := isPref_of_prefix hp (isPref_of_mem h.1)
  have := (lsp_max (List.drop_suffix st w) hpre).length_le
  simp only [List.length_drop] at this
  omega

theorem OccIn.ge_of_end {Q : PatSet α} {w : List α} {q : List α × Nat} {st : Nat}
    (h : OccIn Q w q st) (hl : w.length ≤ st + q.1.length) :
    w.length - (lsp Q w).length ≤ st := by
  have h' : OccIn Q (w ++ []) q st := by simpa using h
  exact h'.ge_of_reach h.2.1 hl

/-! ## `blocked`, `idsOf`, `outLm` -/

theorem blocked_iff {Q : PatSet α} {u : List α} {k : Nat} :
    blocked Q u k = true ↔ ∃ st, st < k ∧ ∃ q ∈ Q, q.1 <+: u.drop st := by
  simp [blocked, List.any_eq_true, List.mem_range]

theorem blocked_eq_false {Q : PatSet α} {u : List α} {k : Nat} (h : blocked Q u k = false) :
    ∀ st, st < k → ∀ q ∈ Q, ¬ q.1 <+: u.drop st := by
  intro st hst q hq hp
  have : blocked Q u k = true := blocked_iff.2 ⟨st, hst, q, hq, hp⟩
  simp [h] at this

/-- ids are strictly increasing along the kept list -/
def IdsInc (Q : PatSet α) : Prop := Q.Pairwise fun a b => a.2 < b.2

theorem idsOf_eq_nil {Q : PatSet α} {v : List α} (h : idsOf Q v = []) : ∀ q ∈ Q, q.1 ≠ v := by
  intro q hq hv
  have : q ∈ Q.filter fun q => q.1 = v := by simp [hq, hv]
  simp only [idsOf, List.map_eq_nil_iff] at h
  rw [h] at this
  simp at this

theorem idsOf_head {Q : PatSet α} (hI : IdsInc Q) {v : List α} {pid : Nat} {rest : List Nat}
    (h : idsOf Q v = pid :: rest) :
    ∃ q ∈ Q, q.1 = v ∧ q.2 = pid ∧ ∀ q' ∈ Q, q'.1 = v → pid ≤ q'.2 := by
  induction Q with
  | nil => simp [idsOf] at h
  | cons x Q' ih =>
    have hI' : IdsInc Q' := (List.pairwise_cons.1 hI).2
    have hx := (List.pairwise_cons.1 hI).1
    by_cases hxv : x.1 = v
    · have : idsOf (x :: Q') v = x.2 :: idsOf Q' v := by simp [idsOf, hxv]
      rw [this] at h
      injection h with h1 h2
      refine ⟨x, List.mem_cons_self, hxv, h1, ?_⟩
      intro q' hq' _
      rcases List.mem_cons.1 hq' with e | e
      · subst e; omega
      · have := hx q' e; omega
    · have : idsOf (x :: Q') v = idsOf Q' v := by simp [idsOf, hxv]
      rw [this] at h
      obtain ⟨q, hq, h1, h2, h3⟩ := ih hI' h
      refine ⟨q, List.mem_cons_of_mem _ hq, h1, h2, ?_⟩
      intro q' hq' hv
      rcases List.mem_cons.1 hq' with e | e
      · subst e; exact absurd hv hxv
      · exact h3 q' e hv

theorem outLm_cons {Q : PatSet α} (hI : IdsInc Q) {u : List α} {pid : Nat} {rest : List Nat}
    (h : outLm Q u = pid :: rest) :
    ∃ k, k ≤ u.length ∧ ∃ q ∈ Q, q.1 = u.drop k ∧ q.2 = pid ∧
      (∀ q' ∈ Q, q'.1 = u.drop k → pid ≤ q'.2) ∧
      (∀ j, j < k → ∀ q' ∈ Q, q'.1 ≠ u.drop j) ∧ blocked Q u k = false := by
  unfold outLm at h
  split at h
  · simp at h
  · rename_i k hk
    rw [List.find?_range_eq_some] at hk
    obtain ⟨_, hk2, hk3⟩ := hk
    split at h
    · simp at h
    · rename_i hb
      obtain ⟨q, hq, h1, h2, h3⟩ := idsOf_head hI h
      refine ⟨k, ?_, q, hq, h1, h2, h3, ?_, by simpa using hb⟩
      · have := List.mem_range.1 hk2; omega
      · intro j hj q' hq' he
        have := hk3 j hj
        simp only [Bool.not_eq_eq_eq_not, Bool.not_true, List.any_eq_false] at this
        exact this q' hq' (by simpa using he)

theorem outLm_nil {Q : PatSet α} {u : List α} (h : outLm Q u = []) :
    ∀ j, j ≤ u.length → ∀ q ∈ Q, q.1 = u.drop j →
      ∃ st0, st0 < j ∧ ∃ q0 ∈ Q, q0.1 <+: u.drop st0 ∧ st0 + q0.1.length < u.length := by
  intro j hj q hq hqj
  unfold outLm at h
  split at h
  · rename_i hn
    rw [List.find?_range_eq_none] at hn
    have := hn j (by omega)
    simp only [Bool.not_eq_eq_eq_not, Bool.not_true, List.any_eq_false] at this
    exact absurd (by simpa using hqj) (this q hq)
  · rename_i k hk
    rw [List.find?_range_eq_some] at hk
    obtain ⟨hk1, hk2, hk3⟩ := hk
    have hkl : k ≤ u.length := by have := List.mem_range.1 hk2; omega
    have hkj : k ≤ j := by
      apply Nat.le_of_not_lt
      intro hlt
      have := hk3 j hlt
      simp only [Bool.not_eq_eq_eq_not, Bool.not_true, List.any_eq_false] at this
      exact absurd (by simpa using hqj) (this q hq)
    split at h
    · rename_i hb
      obtain ⟨st0, hst0, q0, hq0, hp0⟩ := blocked_iff.1 hb
      refine ⟨st0, by omega, q0, hq0, hp0, ?_⟩
      have hle := hp0.length_le
      simp only [List.length_drop] at hle
      apply Nat.lt_of_le_of_ne (by omega)
      intro heq
      have : q0.1 = u.drop st0 := hp0.eq_of_length_le (by simp only [List.length_drop]; omega)
      have hh := hk3 st0 hst0
      simp only [Bool.not_eq_eq_eq_not, Bool.not_true, List.any_eq_false] at hh
      exact absurd (by simpa using this) (hh q0 hq0)
    · simp only [List.any_eq_true] at hk1
      obtain ⟨q1, hq1, he⟩ := hk1
      exact absurd (by simpa using he) (idsOf_eq_nil h q1 hq1)

end AcVerif.LmP
