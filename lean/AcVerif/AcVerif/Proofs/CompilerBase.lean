import AcVerif.Compiler
import AcVerif.Ideal
/-!
# L1c proofs, part 0: arrays, sparse transition lists, node numbering
-/
namespace AcVerif.L1cP
open AcVerif AcVerif.CNfa

/-! ## arrays through `getD` -/

theorem getD_modify_eq (n : CNfa) {i : Nat} (f : CState → CState) (h : i < n.size) :
    (n.modify i f).getD i {} = f (n.getD i {}) := by
  simp only [Array.getD_eq_getD_getElem?, Array.getElem?_modify, if_true,
    Array.getElem?_eq_getElem h, Option.map_some, Option.getD_some]

theorem getD_modify_ne (n : CNfa) {i j : Nat} (f : CState → CState) (h : i ≠ j) :
    (n.modify i f).getD j {} = n.getD j {} := by
  simp only [Array.getD_eq_getD_getElem?, Array.getElem?_modify, if_neg h]

theorem getD_push_eq (n : CNfa) (x : CState) : (n.push x).getD n.size {} = x := by
  simp only [Array.getD_eq_getD_getElem?, Array.getElem?_push, if_true, Option.getD_some]

theorem getD_push_ne (n : CNfa) (x : CState) {j : Nat} (h : j ≠ n.size) :
    (n.push x).getD j {} = n.getD j {} := by
  simp only [Array.getD_eq_getD_getElem?, Array.getElem?_push, if_neg h]

theorem getD_of_size_le (n : CNfa) {i : Nat} (h : n.size ≤ i) : n.getD i {} = {} := by
  simp only [Array.getD_eq_getD_getElem?, Array.getElem?_eq_none h, Option.getD_none]

/-- a modification at any index changes only that index -/
theorem getD_modify (n : CNfa) (i j : Nat) (f : CState → CState) :
    (n.modify i f).getD j {} = if i = j ∧ j < n.size then f (n.getD j {}) else n.getD j {} := by
  by_cases h : i = j
  · subst h
    by_cases hs : i < n.size
    · rw [if_pos ⟨rfl, hs⟩]; exact getD_modify_eq n f hs
    · rw [if_neg (fun h => hs h.2)]
      rw [getD_of_size_le _ (by rw [Array.size_modify]; omega), getD_of_size_le _ (by omega)]
  · rw [if_neg (fun hh => h hh.1)]; exact getD_modify_ne n f h

/-! ## sparse transition lists -/

/-- the target of byte `b` in a transition list (`FAIL` if absent) -/
def lookup (l : List (UInt8 × Nat)) (b : UInt8) : Nat :=
  match l.find? (·.1 == b) with
  | some t => t.2
  | none => FAIL

theorem follow_eq (n : CNfa) (sid : Nat) (b : UInt8) :
    follow n sid b = lookup (n.getD sid {}).trans b := rfl

theorem lookup_nil (b : UInt8) : lookup [] b = FAIL := rfl

theorem lookup_cons (c : UInt8) (t : Nat) (l : List (UInt8 × Nat)) (b : UInt8) :
    lookup ((c, t) :: l) b = if c = b then t else lookup l b := by
  unfold lookup
  by_cases h : c = b
  · simp [h]
  · simp [h]

theorem lookup_insertTrans (b : UInt8) (t : Nat) (l : List (UInt8 × Nat)) (c : UInt8) :
    lookup (insertTrans b t l) c = if c = b then t else lookup l c := by
  induction l with
  | nil =>
    simp only [insertTrans, lookup_cons, lookup_nil]
    by_cases h : c = b
    · simp [h]
    · have : ¬ b = c := fun e => h e.symm
      simp [h, this]
  | cons x rest ih =>
    obtain ⟨d, s⟩ := x
    simp only [insertTrans]
    split
    · rw [lookup_cons]
      by_cases h : c = b
      · simp [h]
      · have : ¬ b = c := fun e => h e.symm
        simp [h, this]
    · split
      · rename_i hbd
        have hbd : b = d := by simpa using hbd
        subst hbd
        rw [lookup_cons, lookup_cons]
        by_cases h : c = b
        · simp [h]
        · have : ¬ b = c := fun e => h e.symm
          simp [h, this]
      · rename_i hbd
        have hbd : ¬ b = d := by simpa using hbd
        rw [lookup_cons, lookup_cons, ih]
        by_cases h : c = b
        · subst h
          have : ¬ d = c := fun e => hbd e.symm
          simp [this]
        · simp [h]

theorem mem_of_lookup {l : List (UInt8 × Nat)} {b : UInt8} {t : Nat} (h : lookup l b = t)
    (ht : t ≠ FAIL) : (b, t) ∈ l := by
  unfold lookup at h
  split at h
  · rename_i x hx
    have h1 := List.mem_of_find?_eq_some hx
    have h2 := List.find?_some hx
    have h2 : x.1 = b := by simpa using h2
    obtain ⟨x1, x2⟩ := x
    simp only at h h2
    subst h; subst h2; exact h1
  · exact absurd h.symm ht

/-- sorted by byte -/
def Sorted (l : List (UInt8 × Nat)) : Prop := l.Pairwise fun x y => x.1 < y.1

theorem sorted_nil : Sorted [] := List.Pairwise.nil

theorem lookup_of_mem {l : List (UInt8 × Nat)} (hs : Sorted l) {b : UInt8} {t : Nat}
    (h : (b, t) ∈ l) : lookup l b = t := by
  induction l with
  | nil => simp at h
  | cons x rest ih =>
    obtain ⟨d, s⟩ := x
    have hs' := List.pairwise_cons.1 hs
    rw [lookup_cons]
    rcases List.mem_cons.1 h with e | e
    · injection e with e1 e2
      subst e1; subst e2; simp
    · have hlt : d < b := hs'.1 _ e
      have : ¬ d = b := by
        intro e'; subst e'; exact absurd hlt (UInt8.lt_irrefl _)
      rw [if_neg this]; exact ih hs'.2 e

theorem mem_insertTrans {b : UInt8} {t : Nat} {l : List (UInt8 × Nat)} {x : UInt8 × Nat}
    (h : x ∈ insertTrans b t l) : x = (b, t) ∨ x ∈ l := by
  induction l with
  | nil => simp only [insertTrans, List.mem_singleton] at h; exact Or.inl h
  | cons y rest ih =>
    obtain ⟨d, s⟩ := y
    simp only [insertTrans] at h
    split at h
    · rcases List.mem_cons.1 h with e | e
      · exact Or.inl e
      · exact Or.inr e
    · split at h
      · rcases List.mem_cons.1 h with e | e
        · exact Or.inl e
        · exact Or.inr (List.mem_cons_of_mem _ e)
      · rcases List.mem_cons.1 h with e | e
        · exact Or.inr (e ▸ List.mem_cons_self)
        · rcases ih e with e' | e'
          · exact Or.inl e'
          · exact Or.inr (List.mem_cons_of_mem _ e')

theorem mem_insertTrans_self (b : UInt8) (t : Nat) (l : List (UInt8 × Nat)) :
    (b, t) ∈ insertTrans b t l := by
  induction l with
  | nil => simp [insertTrans]
  | cons y rest ih =>
    obtain ⟨d, s⟩ := y
    simp only [insertTrans]
    split
    · exact List.mem_cons_self
    · split
      · exact List.mem_cons_self
      · exact List.mem_cons_of_mem _ ih

theorem key_mem_insertTrans {b : UInt8} {t : Nat} {l : List (UInt8 × Nat)} {c : UInt8}
    (h : ∃ s, (c, s) ∈ l) : ∃ s, (c, s) ∈ insertTrans b t l := by
  induction l with
  | nil => obtain ⟨s, hs⟩ := h; simp at hs
  | cons y rest ih =>
    obtain ⟨d, s0⟩ := y
    obtain ⟨s, hs⟩ := h
    simp only [insertTrans]
    split
    · exact ⟨s, List.mem_cons_of_mem _ hs⟩
    · split
      · rename_i hbd
        have hbd : b = d := by simpa using hbd
        rcases List.mem_cons.1 hs with e | e
        · injection e with e1 e2
          exact ⟨t, by rw [e1, ← hbd]; exact List.mem_cons_self⟩
        · exact ⟨s, List.mem_cons_of_mem _ e⟩
      · rcases List.mem_cons.1 hs with e | e
        · exact ⟨s, e ▸ List.mem_cons_self⟩
        · obtain ⟨s', hs'⟩ := ih ⟨s, e⟩
          exact ⟨s', List.mem_cons_of_mem _ hs'⟩

theorem sorted_insertTrans {b : UInt8} {t : Nat} {l : List (UInt8 × Nat)} (hs : Sorted l) :
    Sorted (insertTrans b t l) := by
  induction l with
  | nil => exact List.pairwise_singleton _ _
  | cons y rest ih =>
    obtain ⟨d, s⟩ := y
    have hs' := List.pairwise_cons.1 hs
    simp only [insertTrans]
    split
    · rename_i hbd
      refine List.pairwise_cons.2 ⟨?_, hs⟩
      intro x hx
      rcases List.mem_cons.1 hx with e | e
      · subst e; exact hbd
      · exact UInt8.lt_trans hbd (hs'.1 x e)
    · split
      · rename_i hbd
        have hbd : b = d := by simpa using hbd
        subst hbd
        exact List.pairwise_cons.2 ⟨hs'.1, hs'.2⟩
      · rename_i hlt hbd
        have hbd : ¬ b = d := by simpa using hbd
        have hdb : d < b := by
          rw [UInt8.lt_iff_toNat_lt] at hlt ⊢
          have : ¬ b.toNat = d.toNat := fun e => hbd (UInt8.toNat_inj.1 e)
          omega
        refine List.pairwise_cons.2 ⟨?_, ih hs'.2⟩
        intro x hx
        rcases mem_insertTrans hx with e | e
        · subst e; exact hdb
        · exact hs'.1 x e

/-! ### `fullTrans` -/

theorem mem_fullTrans (t : Nat) (b : UInt8) : (b, t) ∈ fullTrans t := by
  simp only [fullTrans, List.mem_map, List.mem_range]
  refine ⟨b.toNat, UInt8.toNat_lt b, ?_⟩
  simp

theorem snd_of_mem_fullTrans {t : Nat} {x : UInt8 × Nat} (h : x ∈ fullTrans t) : x.2 = t := by
  simp only [fullTrans, List.mem_map] at h
  obtain ⟨i, _, rfl⟩ := h; rfl

theorem sorted_fullTrans (t : Nat) : Sorted (fullTrans t) := by
  unfold Sorted fullTrans
  rw [List.pairwise_map]
  refine List.Pairwise.imp_of_mem ?_ (@List.pairwise_lt_range 256)
  intro a b ha hb hab
  have h2 := List.mem_range.1 ha
  have h3 := List.mem_range.1 hb
  rw [UInt8.lt_iff_toNat_lt]
  simp only [Nat.toUInt8, UInt8.toNat_ofNat']
  omega

theorem lookup_fullTrans (t : Nat) (b : UInt8) : lookup (fullTrans t) b = t :=
  lookup_of_mem (sorted_fullTrans t) (mem_fullTrans t b)

/-! ## node numbering -/

/-- the state id of the trie node with string `u`, given the list `L` of the strings of the
states `4, 5, …` in allocation order -/
def nu (L : List (List UInt8)) (u : List UInt8) : Nat := if u = [] then SU else L.idxOf u + 4

/-- state id of a model state -/
def sidOf (L : List (List UInt8)) : St UInt8 → Nat
  | .dead => DEAD
  | .at u => nu L u

@[simp] theorem nu_nil (L : List (List UInt8)) : nu L [] = SU := by simp [nu]

theorem nu_of_ne {L : List (List UInt8)} {u : List UInt8} (h : u ≠ []) : nu L u = L.idxOf u + 4 := by
  simp [nu, h]

theorem nu_ge {L : List (List UInt8)} {u : List UInt8} (h : u ≠ []) : 4 ≤ nu L u := by
  rw [nu_of_ne h]; omega

theorem nu_lt {L : List (List UInt8)} {u : List UInt8} (h : u ∈ L) (hne : u ≠ []) :
    nu L u < L.length + 4 := by
  rw [nu_of_ne hne]
  have := List.idxOf_lt_length_iff.2 h
  omega

theorem nu_ge_two (L : List (List UInt8)) (u : List UInt8) : 2 ≤ nu L u := by
  unfold nu; split
  · simp [SU]
  · omega

theorem nu_inj {L : List (List UInt8)} {u v : List UInt8} (hu : u = [] ∨ u ∈ L) (hv : v = [] ∨ v ∈ L)
    (h : nu L u = nu L v) : u = v := by
  by_cases hu0 : u = []
  · subst hu0
    by_cases hv0 : v = []
    · exact hv0.symm
    · have := nu_ge (L := L) hv0
      simp [SU] at h; omega
  · by_cases hv0 : v = []
    · subst hv0
      have := nu_ge (L := L) hu0
      simp [SU] at h; omega
    · have hu' : u ∈ L := hu.resolve_left hu0
      have hv' : v ∈ L := hv.resolve_left hv0
      rw [nu_of_ne hu0, nu_of_ne hv0] at h
      have h' : L.idxOf u = L.idxOf v := by omega
      have h1 := List.getElem_idxOf (List.idxOf_lt_length_iff.2 hu')
      have h2 := List.getElem_idxOf (List.idxOf_lt_length_iff.2 hv')
      rw [← h1, ← h2]
      simp only [h']

theorem nu_append {L : List (List UInt8)} (L2 : List (List UInt8)) {u : List UInt8}
    (h : u = [] ∨ u ∈ L) : nu (L ++ L2) u = nu L u := by
  by_cases h0 : u = []
  · subst h0; simp
  · rw [nu_of_ne h0, nu_of_ne h0, List.idxOf_append, if_pos (h.resolve_left h0)]

theorem nu_new {L : List (List UInt8)} {u : List UInt8} (h : u ∉ L) (h0 : u ≠ []) :
    nu (L ++ [u]) u = L.length + 4 := by
  rw [nu_of_ne h0, List.idxOf_append, if_neg h]
  simp

theorem nu_ne_fail (L : List (List UInt8)) (u : List UInt8) : nu L u ≠ FAIL := by
  have := nu_ge_two L u
  simp only [FAIL]; omega

theorem nu_ne_dead (L : List (List UInt8)) (u : List UInt8) : nu L u ≠ DEAD := by
  have := nu_ge_two L u
  simp only [DEAD]; omega

end AcVerif.L1cP
