import AcVerif.Proofs.CostBounds
import AcVerif.Proofs.StdLsp
/-!
# Model-side lemmas used by the noncontiguous-compiler transcription (L1c)
-/
namespace AcVerif.L1cP
open AcVerif AcVerif.LmP AcVerif.CostP
set_option linter.unusedSectionVars false
variable {α : Type} [DecidableEq α]

/-! ## `idsOf`, `isPref` -/

theorem idsOf_ne_nil_iff {Q : PatSet α} {v : List α} : idsOf Q v ≠ [] ↔ ∃ q ∈ Q, q.1 = v := by
  constructor
  · intro h
    cases hf : Q.filter (fun q => decide (q.1 = v)) with
    | nil => exact absurd (by simp [idsOf, hf]) h
    | cons q r =>
      have : q ∈ Q.filter (fun q => decide (q.1 = v)) := by rw [hf]; exact List.mem_cons_self
      rw [List.mem_filter] at this
      exact ⟨q, this.1, by simpa using this.2⟩
  · rintro ⟨q, hq, hv⟩ h
    exact idsOf_eq_nil h q hq hv

theorem idsOf_eq_nil_iff {Q : PatSet α} {v : List α} : idsOf Q v = [] ↔ ∀ q ∈ Q, q.1 ≠ v := by
  constructor
  · exact idsOf_eq_nil
  · intro h
    apply Classical.byContradiction
    intro hne
    obtain ⟨q, hq, hv⟩ := idsOf_ne_nil_iff.1 hne
    exact h q hq hv

theorem isPref_of_idsOf_ne_nil {Q : PatSet α} {v : List α} (h : idsOf Q v ≠ []) :
    isPref Q v = true := by
  obtain ⟨q, hq, hv⟩ := idsOf_ne_nil_iff.1 h
  subst hv
  exact isPref_of_mem hq

theorem idsOf_nil_of_not_isPref {Q : PatSet α} {v : List α} (h : isPref Q v = false) :
    idsOf Q v = [] := by
  apply Classical.byContradiction
  intro hne
  rw [isPref_of_idsOf_ne_nil hne] at h
  cases h

theorem isPref_append_single (Q : PatSet α) (p : List α) (i : Nat) (v : List α) :
    isPref (Q ++ [(p, i)]) v = (isPref Q v || v.isPrefixOf p) := by
  simp [isPref, List.any_append]

theorem idsOf_append_single (Q : PatSet α) (p : List α) (i : Nat) (v : List α) :
    idsOf (Q ++ [(p, i)]) v = idsOf Q v ++ (if p = v then [i] else []) := by
  simp only [idsOf, List.filter_append, List.map_append]
  congr 1
  by_cases h : p = v <;> simp [h]

/-! ## `outStd` -/

theorem outStd_nil (Q : PatSet α) : outStd Q [] = idsOf Q [] := by
  simp [outStd]

theorem outStd_cons (Q : PatSet α) (c : α) (t : List α) :
    outStd Q (c :: t) = idsOf Q (c :: t) ++ outStd Q t := by
  unfold outStd
  rw [List.length_cons, List.range_succ_eq_map, List.flatMap_cons, List.flatMap_map]
  rfl

theorem outStd_lsp (Q : PatSet α) (w : List α) : outStd Q (lsp Q w) = outStd Q w := by
  induction w with
  | nil => rfl
  | cons c t ih =>
    rw [lsp]
    split
    · rfl
    · rename_i h
      rw [ih, outStd_cons, idsOf_nil_of_not_isPref (by simpa using h), List.nil_append]

theorem outStd_step (Q : PatSet α) (c : α) (t : List α) :
    outStd Q (c :: t) = idsOf Q (c :: t) ++ outStd Q (lsp Q t) := by
  rw [outStd_cons, outStd_lsp]

/-! ## small `blocked` facts -/

theorem blocked_zero (Q : PatSet α) (u : List α) : blocked Q u 0 = false := by
  simp [blocked]

theorem blocked_of_emptyPat {Q : PatSet α} {u : List α} {j : Nat} (h0 : idsOf Q [] ≠ [])
    (hj : 0 < j) : blocked Q u j = true := by
  obtain ⟨q, hq, hv⟩ := idsOf_ne_nil_iff.1 h0
  exact blocked_iff.2 ⟨0, hj, q, hq, by rw [hv]; exact List.nil_prefix⟩

theorem blocked_of_ids {Q : PatSet α} {u : List α} {j : Nat} (h : idsOf Q u ≠ []) (hj : 0 < j) :
    blocked Q u j = true := by
  obtain ⟨q, hq, hv⟩ := idsOf_ne_nil_iff.1 h
  exact blocked_iff.2 ⟨0, hj, q, hq, by rw [hv]; exact List.prefix_refl _⟩

theorem isEmpty_not_eq_true {l : List Nat} : (!l.isEmpty) = true ↔ l ≠ [] := by
  cases l <;> simp

theorem blocked_single {Q : PatSet α} {b : α} :
    blocked Q [b] 1 = (!(idsOf Q []).isEmpty || !(idsOf Q [b]).isEmpty) := by
  rw [Bool.eq_iff_iff, blocked_iff, Bool.or_eq_true, isEmpty_not_eq_true, isEmpty_not_eq_true,
    idsOf_ne_nil_iff, idsOf_ne_nil_iff]
  constructor
  · rintro ⟨st, hst, q, hq, hp⟩
    have : st = 0 := by omega
    subst this
    rw [List.drop_zero] at hp
    cases hq1 : q.1 with
    | nil => exact Or.inl ⟨q, hq, hq1⟩
    | cons x r =>
      right
      refine ⟨q, hq, ?_⟩
      rw [hq1] at hp ⊢
      exact hp.eq_of_length_le (by simp)
  · rintro (⟨q, hq, hv⟩ | ⟨q, hq, hv⟩)
    · exact ⟨0, by omega, q, hq, by rw [hv]; exact List.nil_prefix⟩
    · exact ⟨0, by omega, q, hq, by rw [hv]; exact List.prefix_refl _⟩

/-! ## `stepLm` at the root -/

theorem blocked_nil_one (Q : PatSet α) : blocked Q [] 1 = !(idsOf Q []).isEmpty := by
  rw [Bool.eq_iff_iff, blocked_iff, isEmpty_not_eq_true, idsOf_ne_nil_iff]
  constructor
  · rintro ⟨st, _, q, hq, hp⟩
    refine ⟨q, hq, ?_⟩
    rw [List.drop_nil] at hp
    exact List.prefix_nil.1 hp
  · rintro ⟨q, hq, hv⟩
    exact ⟨0, by omega, q, hq, by rw [hv]; exact List.nil_prefix⟩

theorem stepLm_root (Q : PatSet α) (c : α) :
    stepLm Q [] c =
      if isPref Q [c] then .at [c] else if (idsOf Q []).isEmpty then .at [] else .dead := by
  unfold stepLm
  simp only [List.nil_append]
  split
  · rfl
  · rename_i h
    have hl : lsp Q [c] = [] := by simp [lsp, h]
    simp only [hl, List.length_nil, Nat.zero_add, Nat.sub_zero, blocked_nil_one]
    cases (idsOf Q []).isEmpty <;> simp

/-! ## `outLm` -/

/-- `k` is the first offset at which a kept pattern equals the rest of `u` -/
def FirstK (Q : PatSet α) (u : List α) (k : Nat) : Prop :=
  k ≤ u.length ∧ idsOf Q (u.drop k) ≠ [] ∧ ∀ j, j < k → idsOf Q (u.drop j) = []

theorem any_eq_iff_ids {Q : PatSet α} {v : List α} :
    (Q.any fun q => decide (q.1 = v)) = true ↔ idsOf Q v ≠ [] := by
  rw [idsOf_ne_nil_iff, List.any_eq_true]
  simp

theorem not_any_eq_iff_ids {Q : PatSet α} {v : List α} :
    (!(Q.any fun q => decide (q.1 = v))) = true ↔ idsOf Q v = [] := by
  rw [Bool.not_eq_true', ← Bool.not_eq_true, any_eq_iff_ids]
  exact Decidable.not_not

theorem outLm_cases (Q : PatSet α) (u : List α) :
    (∃ k, FirstK Q u k ∧ outLm Q u = if blocked Q u k then [] else idsOf Q (u.drop k)) ∨
    ((∀ j, j ≤ u.length → idsOf Q (u.drop j) = []) ∧ outLm Q u = []) := by
  unfold outLm
  split
  · rename_i hn
    right
    rw [List.find?_range_eq_none] at hn
    refine ⟨?_, rfl⟩
    intro j hj
    exact not_any_eq_iff_ids.1 (hn j (by omega))
  · rename_i k hk
    left
    rw [List.find?_range_eq_some] at hk
    obtain ⟨h1, h2, h3⟩ := hk
    refine ⟨k, ⟨?_, any_eq_iff_ids.1 h1, ?_⟩, rfl⟩
    · have := List.mem_range.1 h2; omega
    · intro j hj
      exact not_any_eq_iff_ids.1 (h3 j hj)

theorem FirstK.unique {Q : PatSet α} {u : List α} {k k' : Nat} (h : FirstK Q u k)
    (h' : FirstK Q u k') : k = k' := by
  apply Nat.le_antisymm
  · apply Nat.le_of_not_lt
    intro hlt
    exact h'.2.1 (h.2.2 k' hlt)
  · apply Nat.le_of_not_lt
    intro hlt
    exact h.2.1 (h'.2.2 k hlt)

theorem outLm_of_first {Q : PatSet α} {u : List α} {k : Nat} (h : FirstK Q u k) :
    outLm Q u = if blocked Q u k then [] else idsOf Q (u.drop k) := by
  rcases outLm_cases Q u with ⟨k', hk', he⟩ | ⟨hn, _⟩
  · rw [h.unique hk']; exact he
  · exact absurd (hn k h.1) h.2.1

theorem outLm_of_none {Q : PatSet α} {u : List α}
    (h : ∀ j, j ≤ u.length → idsOf Q (u.drop j) = []) : outLm Q u = [] := by
  rcases outLm_cases Q u with ⟨k', hk', _⟩ | ⟨_, he⟩
  · exact absurd (h k' hk'.1) hk'.2.1
  · exact he

theorem outLm_of_ids {Q : PatSet α} {u : List α} (h : idsOf Q u ≠ []) : outLm Q u = idsOf Q u := by
  have hf : FirstK Q u 0 := ⟨Nat.zero_le _, by simpa using h, fun j hj => absurd hj (Nat.not_lt_zero j)⟩
  rw [outLm_of_first hf, blocked_zero]
  simp

theorem outLm_nil_eq (Q : PatSet α) : outLm Q [] = idsOf Q [] := by
  by_cases h : idsOf Q [] = []
  · rw [h]
    apply outLm_of_none
    intro j _
    simpa using h
  · exact outLm_of_ids h

theorem outLm_of_emptyPat {Q : PatSet α} {u : List α} (h0 : idsOf Q [] ≠ [])
    (hu : idsOf Q u = []) : outLm Q u = [] := by
  rcases outLm_cases Q u with ⟨k, hk, he⟩ | ⟨_, he⟩
  · have hk0 : 0 < k := by
      apply Nat.pos_of_ne_zero
      intro h
      subst h
      exact hk.2.1 (by simpa using hu)
    rw [he, blocked_of_emptyPat h0 hk0]
    rfl
  · exact he

theorem outLm_step {Q : PatSet α} {c : α} {t : List α} (h : idsOf Q (c :: t) = []) :
    outLm Q (c :: t) =
      if blocked Q (c :: t) ((c :: t).length - (lsp Q t).length) then []
      else outLm Q (lsp Q t) := by
  have hs : lsp Q t <:+ c :: t := (lsp_suffix Q t).trans (List.suffix_cons c t)
  have hwl : (lsp Q t).length ≤ t.length := lsp_length_le Q t
  have hlen : (c :: t).length = t.length + 1 := List.length_cons
  -- (A) offsets `1 ≤ j < d` carry no pattern
  have hA : ∀ j, 0 < j → j < (c :: t).length - (lsp Q t).length →
      idsOf Q ((c :: t).drop j) = [] := by
    intro j hj0 hjd
    apply Classical.byContradiction
    intro hne
    have hp := isPref_of_idsOf_ne_nil hne
    obtain ⟨j', rfl⟩ : ∃ j', j = j' + 1 := ⟨j - 1, by omega⟩
    rw [List.drop_succ_cons] at hp
    have := (lsp_max (List.drop_suffix j' t) hp).length_le
    simp only [List.length_drop] at this
    omega
  -- (B) offsets `≥ d` are offsets in `lsp Q t`
  have hB : ∀ j, (c :: t).drop (j + ((c :: t).length - (lsp Q t).length)) = (lsp Q t).drop j :=
    fun j => drop_of_suffix hs j
  have hlow : ∀ j, j < (c :: t).length - (lsp Q t).length → idsOf Q ((c :: t).drop j) = [] := by
    intro j hj
    rcases Nat.eq_zero_or_pos j with h0 | h0
    · subst h0; simpa using h
    · exact hA j h0 hj
  rcases outLm_cases Q (lsp Q t) with ⟨k', hk', he⟩ | ⟨hn, he⟩
  · have hf : FirstK Q (c :: t) (k' + ((c :: t).length - (lsp Q t).length)) := by
      refine ⟨?_, ?_, ?_⟩
      · have := hk'.1; omega
      · rw [hB]; exact hk'.2.1
      · intro j hj
        by_cases hjd : j < (c :: t).length - (lsp Q t).length
        · exact hlow j hjd
        · have : j = (j - ((c :: t).length - (lsp Q t).length)) +
              ((c :: t).length - (lsp Q t).length) := by omega
          rw [this, hB]
          exact hk'.2.2 _ (by omega)
    rw [outLm_of_first hf, he, hB]
    by_cases hb : blocked Q (c :: t) ((c :: t).length - (lsp Q t).length) = true
    · rw [blocked_mono (Nat.le_add_left _ _) hb, hb]; rfl
    · have hb' : blocked Q (c :: t) ((c :: t).length - (lsp Q t).length) = false := by
        simpa using hb
      rw [Nat.add_comm k', blocked_suffix hs k' hb', hb']
      simp
  · have : outLm Q (c :: t) = [] := by
      apply outLm_of_none
      intro j hj
      by_cases hjd : j < (c :: t).length - (lsp Q t).length
      · exact hlow j hjd
      · have : j = (j - ((c :: t).length - (lsp Q t).length)) +
            ((c :: t).length - (lsp Q t).length) := by omega
        rw [this, hB]
        exact hn _ (by omega)
    rw [this, he]
    simp

/-! ## the leftmost failure link of a child -/

theorem blocked_append {Q : PatSet α} {u : List α} {k : Nat} (r : List α)
    (h : blocked Q u k = true) : blocked Q (u ++ r) k = true := by
  rw [blocked_iff] at h ⊢
  obtain ⟨st, hst, q, hq, hp⟩ := h
  refine ⟨st, hst, q, hq, ?_⟩
  rw [List.drop_append]
  exact hp.trans (List.prefix_append _ _)

/-- `stepLm` in a single formula -/
theorem stepLm_eq (Q : PatSet α) (v : List α) (b : α) :
    stepLm Q v b =
      if blocked Q v (v.length + 1 - (lsp Q (v ++ [b])).length) then St.dead
      else St.at (lsp Q (v ++ [b])) := by
  unfold stepLm
  split
  · rename_i hp
    rw [lsp_of_isPref hp]
    have : v.length + 1 - (v ++ [b]).length = 0 := by simp
    rw [this, blocked_zero]
    simp
  · rfl

theorem blocked_child {Q : PatSet α} {a : α} {t : List α} {b : α}
    (h : idsOf Q (a :: t ++ [b]) = []) :
    blocked Q (a :: t ++ [b]) ((a :: t ++ [b]).length - (lsp Q (t ++ [b])).length) =
      (blocked Q (a :: t) ((a :: t).length - (lsp Q t).length) ||
        blocked Q (lsp Q t) ((lsp Q t).length + 1 - (lsp Q (t ++ [b])).length)) := by
  have hs : lsp Q t <:+ a :: t := (lsp_suffix Q t).trans (List.suffix_cons a t)
  have hvl : (lsp Q t).length ≤ t.length := lsp_length_le Q t
  have hwl : (lsp Q (t ++ [b])).length ≤ (lsp Q t).length + 1 := by
    rw [lsp_step]
    have := lsp_length_le Q (lsp Q t ++ [b]); simpa using this
  have hlen : (a :: t).length = t.length + 1 := List.length_cons
  have hlen' : (a :: t ++ [b]).length = t.length + 2 := by simp
  have hD : (a :: t ++ [b]).length - (lsp Q (t ++ [b])).length =
      (a :: t).length - (lsp Q t).length +
        ((lsp Q t).length + 1 - (lsp Q (t ++ [b])).length) := by omega
  rw [Bool.eq_iff_iff, Bool.or_eq_true]
  constructor
  · intro hb
    by_cases hb1 : blocked Q (a :: t) ((a :: t).length - (lsp Q t).length) = true
    · exact Or.inl hb1
    · right
      have hb1' : blocked Q (a :: t) ((a :: t).length - (lsp Q t).length) = false := by
        simpa using hb1
      rw [← blocked_suffix hs _ hb1', ← hD]
      obtain ⟨st, hst, q, hq, hp⟩ := blocked_iff.1 hb
      have hstl : st ≤ (a :: t).length := by omega
      rw [show a :: t ++ [b] = (a :: t) ++ [b] from rfl,
        List.drop_append_of_le_length hstl] at hp
      rcases List.prefix_concat_iff.1 hp with he | hp'
      · exfalso
        rcases Nat.eq_zero_or_pos st with h0 | h0
        · subst h0
          rw [List.drop_zero] at he
          exact idsOf_eq_nil h q hq he
        · obtain ⟨st', rfl⟩ : ∃ st', st = st' + 1 := ⟨st - 1, by omega⟩
          have hst'l : st' ≤ t.length := by omega
          rw [List.drop_succ_cons, ← List.drop_append_of_le_length hst'l] at he
          have hpre : isPref Q ((t ++ [b]).drop st') = true := by
            rw [← he]; exact isPref_of_mem hq
          have := (lsp_max (List.drop_suffix st' (t ++ [b])) hpre).length_le
          simp only [List.length_drop, List.length_append, List.length_cons,
            List.length_nil] at this
          omega
      · exact blocked_iff.2 ⟨st, hst, q, hq, hp'⟩
  · intro hb
    rw [hD]
    show blocked Q ((a :: t) ++ [b]) _ = true
    apply blocked_append
    rcases hb with hb1 | hb2
    · exact blocked_mono (Nat.le_add_right _ _) hb1
    · by_cases hb1 : blocked Q (a :: t) ((a :: t).length - (lsp Q t).length) = true
      · exact blocked_mono (Nat.le_add_right _ _) hb1
      · have hb1' : blocked Q (a :: t) ((a :: t).length - (lsp Q t).length) = false := by
          simpa using hb1
        rw [blocked_suffix hs _ hb1']
        exact hb2

/-- the leftmost failure link of a child, from the failure link of its parent -/
theorem lmFail_step {Q : PatSet α} {a : α} {t : List α} {b : α}
    (h : idsOf Q (a :: t ++ [b]) = []) :
    (if blocked Q (a :: t) ((a :: t).length - (lsp Q t).length) then St.dead
      else stepLm Q (lsp Q t) b)
      = if blocked Q (a :: t ++ [b]) ((a :: t ++ [b]).length - (lsp Q (t ++ [b])).length)
        then St.dead
        else St.at (lsp Q (t ++ [b])) := by
  rw [blocked_child h, stepLm_eq, ← lsp_step]
  cases blocked Q (a :: t) ((a :: t).length - (lsp Q t).length) <;> simp

/-! ## `patSet` of a pattern list extended by one pattern -/

theorem keepLF_eq_false_iff {P : List (List α)} {q : List α × Nat} :
    keepLF P q = false ↔
      ∃ i, i < q.2 ∧ ∃ p', P[i]? = some p' ∧ p' <+: q.1 ∧ p'.length < q.1.length := by
  unfold keepLF
  rw [Bool.not_eq_false', List.any_eq_true]
  constructor
  · rintro ⟨i, hi, hc⟩
    refine ⟨i, List.mem_range.1 hi, ?_⟩
    cases hp : P[i]? with
    | none => rw [hp] at hc; cases hc
    | some p' =>
      rw [hp] at hc
      simp only [Bool.and_eq_true, decide_eq_true_eq] at hc
      exact ⟨p', rfl, List.isPrefixOf_iff_prefix.1 hc.1, hc.2⟩
  · rintro ⟨i, hi, p', hp, hpre, hl⟩
    refine ⟨i, List.mem_range.2 hi, ?_⟩
    rw [hp]
    simp only [Bool.and_eq_true, decide_eq_true_eq]
    exact ⟨List.isPrefixOf_iff_prefix.2 hpre, hl⟩

theorem keepLF_append {P' : List (List α)} (r : List (List α)) {q : List α × Nat}
    (hq : q.2 ≤ P'.length) : keepLF (P' ++ r) q = keepLF P' q := by
  have key : ∀ P'' : List (List α), (∀ i, i < q.2 → P''[i]? = P'[i]?) →
      (keepLF P'' q = false ↔ keepLF P' q = false) := by
    intro P'' hP
    rw [keepLF_eq_false_iff, keepLF_eq_false_iff]
    constructor
    · rintro ⟨i, hi, p', hp, hr⟩
      exact ⟨i, hi, p', by rw [← hP i hi]; exact hp, hr⟩
    · rintro ⟨i, hi, p', hp, hr⟩
      exact ⟨i, hi, p', by rw [hP i hi]; exact hp, hr⟩
  have := key (P' ++ r) (fun i hi => List.getElem?_append_left (by omega))
  cases h1 : keepLF (P' ++ r) q <;> cases h2 : keepLF P' q <;> simp_all

theorem enumPats_concat (P' : List (List α)) (p : List α) :
    enumPats (P' ++ [p]) = enumPats P' ++ [(p, P'.length)] := by
  simp [enumPats, List.zipIdx_append]

theorem patSet_concat (k : MatchKind) (P' : List (List α)) (p : List α) :
    patSet k (P' ++ [p]) = patSet k P' ++
      (if k = .lf ∧ keepLF (P' ++ [p]) (p, P'.length) = false then [] else [(p, P'.length)]) := by
  cases k with
  | std => simp [patSet, enumPats_concat]
  | ll => simp [patSet, enumPats_concat]
  | lf =>
    simp only [patSet, enumPats_concat, List.filter_append, true_and]
    congr 1
    · apply List.filter_congr
      intro q hq
      apply keepLF_append
      have := List.mem_zipIdx_iff_getElem?.1 hq
      have hlt : q.2 < P'.length := by
        apply Classical.byContradiction
        intro hn
        rw [List.getElem?_eq_none (by omega)] at this
        cases this
      omega
    · cases hk : keepLF (P' ++ [p]) (p, P'.length) <;> simp [hk]

theorem exists_least {P : Nat → Prop} (h : ∃ n, P n) : ∃ n, P n ∧ ∀ m, m < n → ¬ P m := by
  obtain ⟨n, hn⟩ := h
  induction n using Nat.strongRecOn with
  | _ n ih =>
    by_cases hm : ∃ m, m < n ∧ P m
    · obtain ⟨m, hmn, hPm⟩ := hm
      exact ih m hmn hPm
    · exact ⟨n, hn, fun m hmn hPm => hm ⟨m, hmn, hPm⟩⟩

theorem keepLF_concat_false_iff (P' : List (List α)) (p : List α) :
    keepLF (P' ++ [p]) (p, P'.length) = false ↔
      ∃ j, j < p.length ∧ idsOf (patSet .lf P') (p.take j) ≠ [] := by
  rw [keepLF_append [p] (Nat.le_refl _), keepLF_eq_false_iff]
  constructor
  · intro hex
    obtain ⟨i, ⟨hi, p', hp, hpre, hl⟩, hmin⟩ := exists_least hex
    refine ⟨p'.length, hl, ?_⟩
    rw [← List.prefix_iff_eq_take.1 hpre, idsOf_ne_nil_iff]
    refine ⟨(p', i), ?_, rfl⟩
    simp only [patSet, enumPats, List.mem_filter]
    refine ⟨List.mem_zipIdx_iff_getElem?.2 hp, ?_⟩
    cases hk : keepLF P' (p', i) with
    | true => rfl
    | false =>
      exfalso
      obtain ⟨i', hi', p'', hp'', hpre', hl'⟩ := keepLF_eq_false_iff.1 hk
      exact hmin i' hi' ⟨Nat.lt_trans hi' hi, p'', hp'', hpre'.trans hpre, Nat.lt_trans hl' hl⟩
  · rintro ⟨j, hj, hne⟩
    obtain ⟨q, hq, hv⟩ := idsOf_ne_nil_iff.1 hne
    simp only [patSet, enumPats, List.mem_filter] at hq
    have hget := List.mem_zipIdx_iff_getElem?.1 hq.1
    have hlt : q.2 < P'.length := by
      apply Classical.byContradiction
      intro hn
      rw [List.getElem?_eq_none (by omega)] at hget
      cases hget
    refine ⟨q.2, hlt, q.1, hget, ?_, ?_⟩
    · rw [hv]; exact List.take_prefix _ _
    · show q.1.length < p.length
      rw [hv, List.length_take]; omega

end AcVerif.L1cP
