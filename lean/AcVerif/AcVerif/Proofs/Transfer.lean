import AcVerif.Cert
import AcVerif.Table
import AcVerif.Engine.Find
import AcVerif.Engine.Overlap
import AcVerif.Engine.Iter
/-!
# Transfer of every search result along observational equivalence

If two automaton records make the same observations after every input word
(which is what a passing certificate establishes, `certOk_sound`), then every
generic search loop computes the same result on both, for every prefilter
function and every input.
-/
namespace AcVerif
variable {σ τ α : Type}

/-- two states are observationally equivalent: equal observations after every input word -/
def ObsEquiv (A : Aut σ α) (B : Aut τ α) (first anch : Bool) (a : σ) (b : τ) : Prop :=
  ∀ w, A.obs first (A.runFrom anch a w) = B.obs first (B.runFrom anch b w)

/-- the two automata have equivalent start states for this anchoring mode, or both reject it -/
def StartEquiv (A : Aut σ α) (B : Aut τ α) (first anch : Bool) : Prop :=
  match A.start anch, B.start anch with
  | some a, some b => ObsEquiv A B first anch a b
  | none, none => True
  | _, _ => False

theorem ObsEquiv.next {A : Aut σ α} {B : Aut τ α} {first anch : Bool} {a : σ} {b : τ}
    (h : ObsEquiv A B first anch a b) (c : α) :
    ObsEquiv A B first anch (A.next anch a c) (B.next anch b c) :=
  fun w => h (c :: w)

theorem ObsEquiv.obs {A : Aut σ α} {B : Aut τ α} {first anch : Bool} {a : σ} {b : τ}
    (h : ObsEquiv A B first anch a b) : A.obs first a = B.obs first b := h []

theorem ObsEquiv.special {A : Aut σ α} {B : Aut τ α} {first anch : Bool} {a : σ} {b : τ}
    (h : ObsEquiv A B first anch a b) : A.isSpecial a = B.isSpecial b :=
  congrArg Obs.special h.obs

theorem ObsEquiv.dead {A : Aut σ α} {B : Aut τ α} {first anch : Bool} {a : σ} {b : τ}
    (h : ObsEquiv A B first anch a b) : A.isDead a = B.isDead b :=
  congrArg Obs.dead h.obs

theorem ObsEquiv.isMatch {A : Aut σ α} {B : Aut τ α} {first anch : Bool} {a : σ} {b : τ}
    (h : ObsEquiv A B first anch a b) : A.isMatch a = B.isMatch b :=
  congrArg Obs.isMatch h.obs

theorem ObsEquiv.mpats {A : Aut σ α} {B : Aut τ α} {anch : Bool} {a : σ} {b : τ}
    (h : ObsEquiv A B false anch a b) : A.mpats a = B.mpats b := by
  have := congrArg Obs.pats h.obs
  simpa [Aut.obs] using this

theorem ObsEquiv.take1 {A : Aut σ α} {B : Aut τ α} {first anch : Bool} {a : σ} {b : τ}
    (h : ObsEquiv A B first anch a b) : (A.mpats a).take 1 = (B.mpats b).take 1 := by
  have := congrArg Obs.pats h.obs
  cases first
  · simp only [Aut.obs, Bool.false_eq_true, if_false] at this
    rw [this]
  · simpa [Aut.obs] using this

/-- whole-list equivalence implies first-pattern equivalence -/
theorem ObsEquiv.toFirst {A : Aut σ α} {B : Aut τ α} {first anch : Bool} {a : σ} {b : τ}
    (h : ObsEquiv A B false anch a b) : ObsEquiv A B first anch a b := by
  cases first
  · exact h
  · intro w
    have hw : ObsEquiv A B false anch (A.runFrom anch a w) (B.runFrom anch b w) := by
      intro v
      rw [← Aut.runFrom_append, ← Aut.runFrom_append]
      exact h (w ++ v)
    simp only [Aut.obs, if_true]
    rw [hw.special, hw.dead, hw.isMatch, hw.mpats]

theorem StartEquiv.cases {A : Aut σ α} {B : Aut τ α} {first anch : Bool}
    (h : StartEquiv A B first anch) :
    (A.start anch = none ∧ B.start anch = none) ∨
      ∃ a b, A.start anch = some a ∧ B.start anch = some b ∧ ObsEquiv A B first anch a b := by
  unfold StartEquiv at h
  cases hA : A.start anch <;> cases hB : B.start anch <;> simp only [hA, hB] at h
  · exact Or.inl ⟨rfl, rfl⟩
  · exact Or.inr ⟨_, _, rfl, rfl, h⟩

namespace EngP

theorem getD_zero_of_take1 {l l' : List Nat} (h : l.take 1 = l'.take 1) :
    l.getD 0 0 = l'.getD 0 0 := by
  cases l <;> cases l' <;> simp_all

theorem getMatch_zero_transfer {A : Aut σ α} {B : Aut τ α} {first anch : Bool} {a : σ} {b : τ}
    (hl : ∀ pid, A.patLen pid = B.patLen pid)
    (h : ObsEquiv A B first anch a b) (at_ : Nat) : getMatch A a 0 at_ = getMatch B b 0 at_ := by
  simp only [getMatch]
  rw [getD_zero_of_take1 h.take1, hl]

theorem getMatch_transfer {A : Aut σ α} {B : Aut τ α} {anch : Bool} {a : σ} {b : τ}
    (hl : ∀ pid, A.patLen pid = B.patLen pid)
    (h : ObsEquiv A B false anch a b) (idx at_ : Nat) :
    getMatch A a idx at_ = getMatch B b idx at_ := by
  simp only [getMatch]
  rw [h.mpats, hl]

theorem StartEquiv_toFirst {A : Aut σ α} {B : Aut τ α} {first anch : Bool}
    (h : StartEquiv A B false anch) : StartEquiv A B first anch := by
  rcases h.cases with ⟨hA, hB⟩ | ⟨a, b, hA, hB, h⟩ <;> unfold StartEquiv <;> rw [hA, hB]
  · trivial
  · exact h.toFirst

/-! ## the non-overlapping loop -/

theorem findLoop_transfer (A : Aut σ α) (B : Aut τ α) (hl : ∀ pid, A.patLen pid = B.patLen pid)
    (hay : List α) (s e : Nat) (he : e ≤ hay.length) (pre : Option (Prefilter α))
    (first anch earliest : Bool) (n : Nat) :
    ∀ (a : σ) (b : τ) (at_ : Nat) (mat : Option Mat), e - at_ ≤ n →
      ObsEquiv A B first anch a b →
      findLoop A hay s e he pre anch earliest a at_ mat =
        findLoop B hay s e he pre anch earliest b at_ mat := by
  induction n with
  | zero =>
    intro a b at_ mat hn _
    have h : ¬ at_ < e := by omega
    rw [findLoop.eq_1 A, findLoop.eq_1 B, dif_neg h, dif_neg h]
  | succ n ih =>
    intro a b at_ mat hn hab
    rw [findLoop.eq_1 A, findLoop.eq_1 B]
    by_cases h : at_ < e
    · simp only [dif_pos h]
      have hab' := hab.next (hay[at_]'(Nat.lt_of_lt_of_le h he))
      rw [hab'.special, hab'.dead, hab'.isMatch, getMatch_zero_transfer hl hab']
      have ih1 : ∀ mat, findLoop A hay s e he pre anch earliest
            (A.next anch a (hay[at_]'(Nat.lt_of_lt_of_le h he))) (at_ + 1) mat =
          findLoop B hay s e he pre anch earliest
            (B.next anch b (hay[at_]'(Nat.lt_of_lt_of_le h he))) (at_ + 1) mat :=
        fun mat => ih _ _ _ _ (by omega) hab'
      split
      · split
        · rfl
        · split
          · split
            · split
              · rfl
              · exact ih1 _
            · exact ih1 _
          · split
            · split
              · rfl
              · split
                · exact ih _ _ _ _ (by omega) hab'
                · exact ih1 _
            · exact ih1 _
      · exact ih1 _
    · rw [dif_neg h, dif_neg h]

theorem findImp_transfer (A : Aut σ α) (B : Aut τ α) (pre : Option (Prefilter α)) (i : Input α)
    (hl : ∀ pid, A.patLen pid = B.patLen pid) (first anch earliest : Bool) (hanch : anch = i.anch)
    (h : StartEquiv A B first i.anch) :
    findImp A i pre anch earliest = findImp B i pre anch earliest := by
  unfold findImp
  rcases h.cases with ⟨hA, hB⟩ | ⟨a, b, hA, hB, h⟩ <;> rw [hA, hB]
  · simp only
    subst hanch
    rw [h.isMatch, getMatch_zero_transfer hl h]
    split
    · rfl
    · split
      · split
        · rfl
        · rfl
        · rw [findLoop_transfer A B hl _ _ _ _ _ first _ _ _ _ _ _ _ (Nat.le_refl _) h]
      · rw [findLoop_transfer A B hl _ _ _ _ _ first _ _ _ _ _ _ _ (Nat.le_refl _) h]

theorem tryFindFwd_transfer (A : Aut σ α) (B : Aut τ α) (pre : Option (Prefilter α)) (i : Input α)
    (first : Bool)
    (hk : A.kind = B.kind) (hl : ∀ pid, A.patLen pid = B.patLen pid)
    (h : StartEquiv A B first i.anch) :
    tryFindFwd A pre i = tryFindFwd B pre i := by
  unfold tryFindFwd
  rw [hk]
  split
  · rcases h.cases with ⟨hA, hB⟩ | ⟨a, b, hA, hB, _⟩ <;> rw [hA, hB]
  · simp only
    split
    · rename_i ha
      exact findImp_transfer A B _ i hl first true _ ha.symm h
    · rename_i ha
      exact findImp_transfer A B _ i hl first false _ (by simpa using ha) h

/-! ## the overlapping loop -/

/-- corresponding overlapping-search states -/
def ORel (A : Aut σ α) (B : Aut τ α) (anch : Bool) (x : OState σ) (y : OState τ) : Prop :=
  x.mat = y.mat ∧ x.at_ = y.at_ ∧ x.nextIdx = y.nextIdx ∧
    match x.id, y.id with
    | some a, some b => ObsEquiv A B false anch a b
    | none, none => True
    | _, _ => False

/-- corresponding call results -/
def ExRel (A : Aut σ α) (B : Aut τ α) (anch : Bool) :
    Except MatchErr (OState σ) → Except MatchErr (OState τ) → Prop
  | .ok x, .ok y => ORel A B anch x y
  | .error e, .error e' => e = e'
  | _, _ => False

theorem ORel.mk' {A : Aut σ α} {B : Aut τ α} {anch : Bool} {a : σ} {b : τ}
    (h : ObsEquiv A B false anch a b) (mat : Option Mat) (at_ : Nat) (ni : Option Nat) :
    ORel A B anch { mat := mat, id := some a, at_ := at_, nextIdx := ni }
      { mat := mat, id := some b, at_ := at_, nextIdx := ni } :=
  ⟨rfl, rfl, rfl, h⟩

theorem ovlLoop_transfer (A : Aut σ α) (B : Aut τ α) (hl : ∀ pid, A.patLen pid = B.patLen pid)
    (hay : List α) (s e : Nat) (he : e ≤ hay.length) (pre : Option (Prefilter α))
    (anch : Bool) (n : Nat) :
    ∀ (a : σ) (b : τ) (at_ : Nat), e - at_ ≤ n →
      ObsEquiv A B false anch a b →
      ORel A B anch (ovlLoop A hay s e he pre anch a at_) (ovlLoop B hay s e he pre anch b at_) := by
  induction n with
  | zero =>
    intro a b at_ hn hab
    have h : ¬ at_ < e := by omega
    rw [ovlLoop.eq_1 A, ovlLoop.eq_1 B, dif_neg h, dif_neg h]
    exact ORel.mk' hab _ _ _
  | succ n ih =>
    intro a b at_ hn hab
    rw [ovlLoop.eq_1 A, ovlLoop.eq_1 B]
    by_cases h : at_ < e
    · simp only [dif_pos h]
      have hab' := hab.next (hay[at_]'(Nat.lt_of_lt_of_le h he))
      rw [hab'.special, hab'.dead, hab'.isMatch, getMatch_zero_transfer hl hab']
      have ih1 : ORel A B anch (ovlLoop A hay s e he pre anch
            (A.next anch a (hay[at_]'(Nat.lt_of_lt_of_le h he))) (at_ + 1))
          (ovlLoop B hay s e he pre anch
            (B.next anch b (hay[at_]'(Nat.lt_of_lt_of_le h he))) (at_ + 1)) :=
        ih _ _ _ (by omega) hab'
      split
      · split
        · exact ORel.mk' hab' _ _ _
        · split
          · split
            · exact ORel.mk' hab' _ _ _
            · exact ih1
          · split
            · split
              · exact ORel.mk' hab' _ _ _
              · split
                · exact ih _ _ _ (by omega) hab'
                · exact ih1
            · exact ih1
      · exact ih1
    · rw [dif_neg h, dif_neg h]
      exact ORel.mk' hab _ _ _

theorem ovlImp_transfer (A : Aut σ α) (B : Aut τ α) (pre : Option (Prefilter α)) (i : Input α)
    (hl : ∀ pid, A.patLen pid = B.patLen pid)
    (h : StartEquiv A B false i.anch) (x : OState σ) (y : OState τ) (hxy : ORel A B i.anch x y) :
    ExRel A B i.anch (ovlImp A i pre x) (ovlImp B i pre y) := by
  obtain ⟨xm, xi, xa, xn⟩ := x
  obtain ⟨ym, yi, ya, yn⟩ := y
  obtain ⟨h1, h2, h3, h4⟩ := hxy
  simp only at h1 h2 h3 h4
  subst h1 h2 h3
  unfold ovlImp
  cases xi <;> cases yi <;> simp only at h4
  · -- both `none`
    simp only
    rcases h.cases with ⟨hA, hB⟩ | ⟨a, b, hA, hB, h⟩ <;> rw [hA, hB]
    · simp only [ExRel]
    · simp only
      rw [h.isMatch, h.mpats, getMatch_transfer hl h]
      split
      · exact ⟨rfl, rfl, rfl, trivial⟩
      · exact ovlLoop_transfer A B hl _ _ _ _ _ _ _ _ _ _ (Nat.le_refl _) h
  · rename_i a b
    simp only
    cases xn
    · simp only
      exact ovlLoop_transfer A B hl _ _ _ _ _ _ _ _ _ _ (Nat.le_refl _) h4
    · simp only
      rw [h4.mpats, getMatch_transfer hl h4]
      split
      · exact ⟨rfl, rfl, rfl, h4⟩
      · exact ovlLoop_transfer A B hl _ _ _ _ _ _ _ _ _ _ (Nat.le_refl _) h4

theorem tryFindOverlappingFwd_transfer (A : Aut σ α) (B : Aut τ α) (pre : Option (Prefilter α))
    (i : Input α) (hk : A.kind = B.kind) (hl : ∀ pid, A.patLen pid = B.patLen pid)
    (h : StartEquiv A B false i.anch) (x : OState σ) (y : OState τ) (hxy : ORel A B i.anch x y) :
    ExRel A B i.anch (tryFindOverlappingFwd A pre i x) (tryFindOverlappingFwd B pre i y) := by
  unfold tryFindOverlappingFwd
  rw [hk]
  have hxy' : ORel A B i.anch { x with mat := Option.none } { y with mat := Option.none } :=
    ⟨rfl, hxy.2.1, hxy.2.2.1, hxy.2.2.2⟩
  simp only
  split
  · simp only [ExRel]
  · split
    · rcases h.cases with ⟨hA, hB⟩ | ⟨a, b, hA, hB, _⟩ <;> rw [hA, hB]
      · simp only [ExRel]
      · exact hxy'
    · split
      · exact ovlImp_transfer A B _ i hl h _ _ hxy'
      · exact ovlImp_transfer A B _ i hl h _ _ hxy'

theorem ORel.start (A : Aut σ α) (B : Aut τ α) (anch : Bool) :
    ORel A B anch OState.start OState.start := ⟨rfl, rfl, rfl, trivial⟩

theorem ovlCalls_transfer (A : Aut σ α) (B : Aut τ α) (pre : Option (Prefilter α))
    (i : Input α) (hk : A.kind = B.kind) (hl : ∀ pid, A.patLen pid = B.patLen pid)
    (h : StartEquiv A B false i.anch) (n : Nat) :
    ∀ (x : OState σ) (y : OState τ), ORel A B i.anch x y →
      ovlCalls A pre i n x = ovlCalls B pre i n y := by
  induction n with
  | zero => intro x y _; rfl
  | succ n ih =>
    intro x y hxy
    have := tryFindOverlappingFwd_transfer A B pre i hk hl h x y hxy
    simp only [ovlCalls]
    cases hA : tryFindOverlappingFwd A pre i x <;> cases hB : tryFindOverlappingFwd B pre i y <;>
      rw [hA, hB] at this <;> simp only [ExRel] at this
    · rw [this]
    · simp only
      rw [this.1, ih _ _ this]

theorem ovlIterAux_transfer (A : Aut σ α) (B : Aut τ α) (pre : Option (Prefilter α))
    (i : Input α) (hk : A.kind = B.kind) (hl : ∀ pid, A.patLen pid = B.patLen pid)
    (h : StartEquiv A B false i.anch) (n : Nat) :
    ∀ (x : OState σ) (y : OState τ), ORel A B i.anch x y →
      ovlIterAux A pre i n x = ovlIterAux B pre i n y := by
  induction n with
  | zero => intro x y _; rfl
  | succ n ih =>
    intro x y hxy
    have := tryFindOverlappingFwd_transfer A B pre i hk hl h x y hxy
    simp only [ovlIterAux]
    cases hA : tryFindOverlappingFwd A pre i x <;> cases hB : tryFindOverlappingFwd B pre i y <;>
      rw [hA, hB] at this <;> simp only [ExRel] at this
    · simp only
      rw [this.1]
      split
      · rfl
      · rw [ih _ _ this]

/-! ## the non-overlapping iterator -/

theorem findAt_transfer (A : Aut σ α) (B : Aut τ α) (pre : Option (Prefilter α)) (i : Input α)
    (hk : A.kind = B.kind) (hl : ∀ pid, A.patLen pid = B.patLen pid)
    (h : StartEquiv A B true i.anch) (start : Nat) :
    findAt A pre i start = findAt B pre i start := by
  unfold findAt
  split
  · rename_i hs
    rw [tryFindFwd_transfer A B pre { i with s := start, valid := ⟨i.valid.1, hs⟩ } true hk hl h]
  · rfl

theorem findIter_transfer (A : Aut σ α) (B : Aut τ α) (pre : Option (Prefilter α)) (i : Input α)
    (hk : A.kind = B.kind) (hl : ∀ pid, A.patLen pid = B.patLen pid)
    (h : StartEquiv A B true i.anch) :
    findIter A pre i = findIter B pre i := by
  have hf : findAt A pre i = findAt B pre i := funext (findAt_transfer A B pre i hk hl h)
  unfold findIter
  rcases h.cases with ⟨hA, hB⟩ | ⟨a, b, hA, hB, h⟩ <;> rw [hA, hB]
  simp only [hf]

/-! ## from the certificate -/

theorem cert_gives_StartEquiv [DecidableEq σ] (A : Aut σ UInt8) (B : Aut Nat UInt8) (n : Nat)
    (anch first : Bool) (f : Array (Option σ)) (h : certOk A B n anch first f allBytes = true) :
    StartEquiv A B first anch := by
  have hs := certOk_start h
  unfold StartEquiv
  cases hA : A.start anch <;> cases hB : B.start anch <;> rw [hA, hB] at hs <;> simp only
  · simp at hs
  · simp at hs
  · exact fun w => certOk_sound hA hB h mem_allBytes w

end EngP
end AcVerif
