import AcVerif.Proofs.BuildCheckedBase
import AcVerif.Proofs.CompilerBase
/-!
# L1c-mem assembly, part 1: structural invariants of the abstract compiler

The memory model needs three facts about the *abstract* compiler (`AcVerif/Compiler.lean`) that
its own correctness proof gets from the semantic invariants of L1c (for `fold = false`) and
L1cFold; here they are proved directly from the shape of the trie, for every match kind and both
values of `fold`:

* every transition target and every pattern-loop state is in range (the memory operations are
  only specified in range);
* `copy_matches(fail, next)` is never called with `fail == next`: there is a depth function `d`
  on the states (`TI.edge`: a transition into a trie node increases the depth by one), failure
  links of trie nodes lead to a state `< 4` or strictly decrease the depth (`J`), so the failure
  target of a node of depth `δ + 1` has depth `≤ δ`;
* the failure chase never reads the failure link of `DEAD`, `FAIL` or the unanchored start (the
  three links in which the crate differs from `CNfa.init`) and does not run out of fuel.

It also shows that the two short-cuts of `Compiler.lean` are sound: a pattern skipped under
leftmost-first has not allocated anything (`addPatternK_none`), and the inert `QueuedSet` of the
first loop of `fill_failure_transitions` behaves like a real one when `fold = false`
(`fillStartU_inert`).
-/
namespace AcVerif.MemC
open AcVerif AcVerif.CNfa AcVerif.L1cP AcVerif.BuildP

/-! ## `addPattern` with the automaton at the time of `continue 'PATTERNS` -/

/-- `CNfa.addPattern`, but a skipped pattern returns the automaton as it is at that point -/
def addPatternK (lf fold : Bool) : CNfa → Nat → Bool → List UInt8 → CNfa × Option Nat
  | n, prev, _, [] => (n, some prev)
  | n, prev, sawMatch, b :: rest =>
    let sawMatch := sawMatch || isMatch n prev
    if lf && sawMatch then (n, none)
    else
      let next := follow n prev b
      if next != FAIL then addPatternK lf fold n next sawMatch rest
      else
        let next := n.size
        let n := n.push { fail := SU }
        let n := addTransition n prev b next
        let n := if fold then addTransition n prev (oppositeAsciiCase b) next else n
        addPatternK lf fold n next sawMatch rest

theorem addPattern_eq_K (lf fold : Bool) (pat : List UInt8) :
    ∀ (n : CNfa) (prev : Nat) (saw : Bool),
      addPattern lf fold n prev saw pat =
        match addPatternK lf fold n prev saw pat with
        | (n', some l) => some (n', l)
        | (_, none) => none := by
  induction pat with
  | nil => intro n prev saw; rfl
  | cons b rest ih =>
    intro n prev saw
    simp only [addPattern, addPatternK]
    split
    · rfl
    · split
      · exact ih _ _ _
      · exact ih _ _ _

/-- the automaton after allocating the child `n.size` of `prev` on byte `b` (lines 1138-1143) -/
def allocChild (fold : Bool) (n : CNfa) (prev : Nat) (b : UInt8) : CNfa :=
  let n1 := addTransition (n.push { fail := SU }) prev b n.size
  if fold then addTransition n1 prev (oppositeAsciiCase b) n.size else n1

/-- the transition list of `prev` after `allocChild` -/
def ins2 (fold : Bool) (b : UInt8) (t : Nat) (l : List (UInt8 × Nat)) : List (UInt8 × Nat) :=
  if fold then insertTrans (oppositeAsciiCase b) t (insertTrans b t l) else insertTrans b t l

theorem size_allocChild (fold : Bool) (n : CNfa) (prev : Nat) (b : UInt8) :
    (allocChild fold n prev b).size = n.size + 1 := by
  unfold allocChild
  cases fold <;> simp [addTransition]

theorem getD_allocChild (fold : Bool) (n : CNfa) {prev : Nat} (hp : prev < n.size) (b : UInt8)
    (s : Nat) :
    (allocChild fold n prev b).getD s {} =
      if s = prev then { n.getD prev {} with trans := ins2 fold b n.size (n.getD prev {}).trans }
      else if s = n.size then { fail := SU } else n.getD s {} := by
  have hne : prev ≠ n.size := Nat.ne_of_lt hp
  have hp1 : prev < (n.push ({ fail := SU } : CState)).size := by rw [Array.size_push]; omega
  have h1 : ∀ s, (addTransition (n.push { fail := SU }) prev b n.size).getD s {} =
      if s = prev then { n.getD prev {} with trans := insertTrans b n.size (n.getD prev {}).trans }
      else if s = n.size then { fail := SU } else n.getD s {} := by
    intro s
    unfold addTransition
    rw [getD_modify]
    by_cases e : s = prev
    · subst e
      rw [if_pos ⟨rfl, hp1⟩, if_pos rfl, getD_push_ne _ _ hne]
    · rw [if_neg (fun h => e h.1.symm), if_neg e]
      by_cases e2 : s = n.size
      · subst e2; rw [if_pos rfl, getD_push_eq]
      · rw [if_neg e2, getD_push_ne _ _ e2]
  unfold allocChild ins2
  cases fold
  · simp only [Bool.false_eq_true, if_false]; exact h1 s
  · simp only [if_true]
    have hp2 : prev < (addTransition (n.push { fail := SU }) prev b n.size).size := by
      unfold addTransition; rw [Array.size_modify]; exact hp1
    unfold addTransition at hp2 ⊢
    rw [getD_modify]
    by_cases e : s = prev
    · subst e
      rw [if_pos ⟨rfl, hp2⟩, if_pos rfl]
      have := h1 s
      unfold addTransition at this
      rw [this, if_pos rfl]
    · rw [if_neg (fun h => e h.1.symm), if_neg e]
      have := h1 s
      unfold addTransition at this
      rw [this, if_neg e]

theorem mem_ins2 {fold : Bool} {b : UInt8} {t : Nat} {l : List (UInt8 × Nat)} {x : UInt8 × Nat}
    (h : x ∈ ins2 fold b t l) : x.2 = t ∨ x ∈ l := by
  unfold ins2 at h
  cases fold
  · simp only [Bool.false_eq_true, if_false] at h
    rcases mem_insertTrans h with e | e
    · exact Or.inl (by rw [e])
    · exact Or.inr e
  · simp only [if_true] at h
    rcases mem_insertTrans h with e | e
    · exact Or.inl (by rw [e])
    · rcases mem_insertTrans e with e' | e'
      · exact Or.inl (by rw [e'])
      · exact Or.inr e'

/-! ## keys of a transition list -/

theorem keys_insertTrans {b : UInt8} {t : Nat} {l : List (UInt8 × Nat)} (hs : Sorted l)
    (hb : b ∈ l.map (·.1)) : (insertTrans b t l).map (·.1) = l.map (·.1) := by
  induction l with
  | nil => simp at hb
  | cons y rest ih =>
    obtain ⟨c, s⟩ := y
    have hs' := List.pairwise_cons.1 hs
    simp only [insertTrans]
    split
    · rename_i hbc
      exfalso
      simp only [List.map_cons, List.mem_cons] at hb
      rcases hb with e | e
      · subst e; exact UInt8.lt_irrefl _ hbc
      · obtain ⟨x, hx, hx1⟩ := List.mem_map.1 e
        have := hs'.1 x hx
        simp only at this hx1
        rw [hx1] at this
        exact UInt8.lt_irrefl _ (UInt8.lt_trans hbc this)
    · split
      · rename_i hbc
        have hbc : b = c := by simpa using hbc
        subst hbc; rfl
      · rename_i hbc
        have hbc : ¬ b = c := by simpa using hbc
        simp only [List.map_cons, List.mem_cons] at hb
        rcases hb with e | e
        · exact absurd e hbc
        · simp only [List.map_cons]
          rw [ih hs'.2 e]

theorem keys_ins2 {fold : Bool} {b : UInt8} {t : Nat} {l : List (UInt8 × Nat)} (hs : Sorted l)
    (hall : ∀ c : UInt8, c ∈ l.map (·.1)) : (ins2 fold b t l).map (·.1) = l.map (·.1) ∧
      Sorted (ins2 fold b t l) := by
  unfold ins2
  cases fold
  · simp only [Bool.false_eq_true, if_false]
    exact ⟨keys_insertTrans hs (hall b), sorted_insertTrans hs⟩
  · simp only [if_true]
    have h1 := keys_insertTrans (t := t) hs (hall b)
    have hs1 : Sorted (insertTrans b t l) := sorted_insertTrans hs
    refine ⟨?_, sorted_insertTrans hs1⟩
    rw [keys_insertTrans hs1 (by rw [h1]; exact hall _), h1]

theorem mem_keys_fullTrans (t : Nat) (c : UInt8) : c ∈ (fullTrans t).map (·.1) :=
  List.mem_map.2 ⟨(c, t), mem_fullTrans t c, rfl⟩

/-- with the key present, the lookup finds an entry of the list -/
theorem lookup_mem_of_key {l : List (UInt8 × Nat)} {b : UInt8} (hb : b ∈ l.map (·.1)) :
    (b, lookup l b) ∈ l := by
  induction l with
  | nil => simp at hb
  | cons y rest ih =>
    obtain ⟨c, s⟩ := y
    rw [lookup_cons]
    by_cases e : c = b
    · subst e; rw [if_pos rfl]; exact List.mem_cons_self
    · rw [if_neg e]
      simp only [List.map_cons, List.mem_cons] at hb
      rcases hb with e' | e'
      · exact absurd e'.symm e
      · exact List.mem_cons_of_mem _ (ih e')

/-! ## distinct targets (no case folding) -/

/-- two entries with the same target have a target below 4 -/
def Distinct (l : List (UInt8 × Nat)) : Prop := l.Pairwise fun x y => x.2 = y.2 → x.2 < 4

theorem distinct_insertTrans {b : UInt8} {t : Nat} {l : List (UInt8 × Nat)} (hd : Distinct l)
    (hfresh : ∀ x ∈ l, x.2 ≠ t) : Distinct (insertTrans b t l) := by
  induction l with
  | nil => exact List.pairwise_singleton _ _
  | cons y rest ih =>
    obtain ⟨c, s⟩ := y
    have hd' := List.pairwise_cons.1 hd
    simp only [insertTrans]
    split
    · refine List.pairwise_cons.2 ⟨?_, hd⟩
      intro x hx e
      exact absurd e.symm (hfresh x hx)
    · split
      · refine List.pairwise_cons.2 ⟨?_, hd'.2⟩
        intro x hx e
        exact absurd e.symm (hfresh x (List.mem_cons_of_mem _ hx))
      · refine List.pairwise_cons.2 ⟨?_, ih hd'.2 fun x hx => hfresh x (List.mem_cons_of_mem _ hx)⟩
        intro x hx e
        rcases mem_insertTrans hx with e' | e'
        · subst e'
          exact absurd e (hfresh (c, s) List.mem_cons_self)
        · exact hd'.1 x e' e

/-! ## the trie invariant -/

/-- the shape of the automaton during `build_trie`; `d` is the depth of a state (0 for the four
special states) -/
structure TI (fold : Bool) (n : CNfa) (d : Nat → Nat) : Prop where
  size4 : 4 ≤ n.size
  d0 : ∀ s, s < 4 → d s = 0
  dpos : ∀ s, 4 ≤ s → s < n.size → 1 ≤ d s ∧ d s + 3 ≤ s
  /-- every transition: target in range; into a trie node the depth grows by one; trie nodes lead
  to trie nodes; the unanchored start leads to `FAIL` or to trie nodes -/
  edge : ∀ s x, x ∈ (n.getD s {}).trans →
    x.2 < n.size ∧ (4 ≤ x.2 → d x.2 = d s + 1) ∧ (4 ≤ s → 4 ≤ x.2) ∧ (s = 2 → x.2 = 1 ∨ 4 ≤ x.2)
  sortedSU : Sorted (n.getD 2 {}).trans
  keysSU : (n.getD 2 {}).trans.map (·.1) = (fullTrans 0).map (·.1)
  dead : (n.getD 0 {}).trans = fullTrans 0
  sa : (n.getD 3 {}).trans = fullTrans 1
  fails : ∀ s, 3 ≤ s → s < n.size → (n.getD s {}).fail = 2
  distinct : fold = false → Distinct (n.getD 2 {}).trans

/-- `TI` only looks at the sizes, the transitions and the failure links -/
theorem TI.congr {fold : Bool} {n n' : CNfa} {d : Nat → Nat} (h : TI fold n d)
    (hsz : n'.size = n.size)
    (hst : ∀ s, (n'.getD s {}).trans = (n.getD s {}).trans ∧ (n'.getD s {}).fail = (n.getD s {}).fail) :
    TI fold n' d where
  size4 := hsz ▸ h.size4
  d0 := h.d0
  dpos := fun s h4 hs => h.dpos s h4 (hsz ▸ hs)
  edge := fun s x hx => by rw [hsz]; exact h.edge s x ((hst s).1 ▸ hx)
  sortedSU := by rw [(hst 2).1]; exact h.sortedSU
  keysSU := by rw [(hst 2).1]; exact h.keysSU
  dead := by rw [(hst 0).1]; exact h.dead
  sa := by rw [(hst 3).1]; exact h.sa
  fails := fun s h3 hs => by rw [(hst s).2]; exact h.fails s h3 (hsz ▸ hs)
  distinct := fun hf => by rw [(hst 2).1]; exact h.distinct hf

theorem TI_init (fold : Bool) : TI fold init (fun _ => 0) where
  size4 := by decide
  d0 := fun _ _ => rfl
  dpos := fun s h4 hs => by
    have : init.size = 4 := rfl
    omega
  edge := by
    intro s x hx
    have hsz : init.size = 4 := rfl
    match s with
    | 0 =>
      have : x.2 = 0 := snd_of_mem_fullTrans (t := 0) hx
      rw [this, hsz]; refine ⟨by omega, by omega, by omega, by omega⟩
    | 1 => exact absurd hx (by simp [init])
    | 2 =>
      have : x.2 = 1 := snd_of_mem_fullTrans (t := 1) hx
      rw [this, hsz]; refine ⟨by omega, by omega, by omega, fun _ => Or.inl rfl⟩
    | 3 =>
      have : x.2 = 1 := snd_of_mem_fullTrans (t := 1) hx
      rw [this, hsz]; refine ⟨by omega, by omega, by omega, by omega⟩
    | s + 4 =>
      have : init.getD (s + 4) {} = {} := getD_of_size_le _ (by rw [hsz]; omega)
      rw [this] at hx
      exact absurd hx (by simp)
  sortedSU := sorted_fullTrans 1
  keysSU := by
    show (fullTrans 1).map (·.1) = (fullTrans 0).map (·.1)
    simp [fullTrans]
  dead := rfl
  sa := rfl
  fails := by
    intro s h3 hs
    have hsz : init.size = 4 := rfl
    have : s = 3 := by omega
    subst this; rfl
  distinct := by
    intro _
    show Distinct (fullTrans 1)
    unfold Distinct
    refine List.Pairwise.imp_of_mem ?_ (sorted_fullTrans 1)
    intro x y hx _ _ _
    rw [snd_of_mem_fullTrans hx]; decide

/-- allocating a child keeps the invariant (with the depth of the child set) -/
theorem TI.alloc {fold : Bool} {n : CNfa} {d : Nat → Nat} (h : TI fold n d) {prev : Nat}
    (hp : prev < n.size) (hp2 : prev = 2 ∨ 4 ≤ prev) (b : UInt8) :
    TI fold (allocChild fold n prev b) (fun s => if s = n.size then d prev + 1 else d s) := by
  have hg := getD_allocChild fold n hp b
  have h4 := h.size4
  have hne : prev ≠ n.size := Nat.ne_of_lt hp
  have hother : ∀ s, s ≠ prev → s ≠ n.size → (allocChild fold n prev b).getD s {} = n.getD s {} := by
    intro s h1 h2; rw [hg, if_neg h1, if_neg h2]
  have hall : ∀ c : UInt8, c ∈ (n.getD 2 {}).trans.map (·.1) := by
    intro c; rw [h.keysSU]; exact mem_keys_fullTrans 0 c
  refine {
    size4 := by rw [size_allocChild]; omega
    d0 := fun s hs => by rw [if_neg (by omega)]; exact h.d0 s hs
    dpos := ?_, edge := ?_, sortedSU := ?_, keysSU := ?_, dead := ?_, sa := ?_, fails := ?_,
    distinct := ?_ }
  · intro s hs4 hs
    rw [size_allocChild] at hs
    by_cases e : s = n.size
    · rw [if_pos e, e]
      rcases hp2 with e2 | e2
      · rw [e2, h.d0 2 (by omega)]; omega
      · have := h.dpos prev e2 hp; omega
    · rw [if_neg e]; exact h.dpos s hs4 (by omega)
  · intro s x hx
    rw [size_allocChild]
    by_cases e : s = prev
    · rw [hg, if_pos e] at hx
      simp only at hx
      rw [e, if_neg hne]
      rcases mem_ins2 hx with e1 | e1
      · rw [e1, if_pos rfl]
        exact ⟨by omega, fun _ => rfl, fun _ => h4, fun _ => Or.inr h4⟩
      · obtain ⟨a1, a2, a3, a4⟩ := h.edge prev x e1
        rw [if_neg (by omega)]
        exact ⟨by omega, a2, a3, a4⟩
    · by_cases e2 : s = n.size
      · rw [hg, if_neg e, if_pos e2] at hx
        exact absurd hx (by simp)
      · rw [hother s e e2] at hx
        obtain ⟨a1, a2, a3, a4⟩ := h.edge s x hx
        rw [if_neg (by omega), if_neg e2]
        exact ⟨by omega, a2, a3, a4⟩
  · by_cases e : prev = 2
    · rw [hg, if_pos e.symm, e]
      exact (keys_ins2 h.sortedSU hall).2
    · rw [hother 2 (Ne.symm e) (by omega)]; exact h.sortedSU
  · by_cases e : prev = 2
    · rw [hg, if_pos e.symm, e]
      show (ins2 fold b n.size _).map (·.1) = _
      rw [(keys_ins2 h.sortedSU hall).1]; exact h.keysSU
    · rw [hother 2 (Ne.symm e) (by omega)]; exact h.keysSU
  · rw [hother 0 (by omega) (by omega)]; exact h.dead
  · rw [hother 3 (by omega) (by omega)]; exact h.sa
  · intro s h3 hs
    rw [size_allocChild] at hs
    rw [hg]
    by_cases e : s = prev
    · rw [if_pos e]; exact e ▸ h.fails s h3 (e ▸ hp)
    · rw [if_neg e]
      by_cases e2 : s = n.size
      · rw [if_pos e2]; rfl
      · rw [if_neg e2]; exact h.fails s h3 (by omega)
  · intro hf
    by_cases e : prev = 2
    · rw [hg, if_pos e.symm, e]
      show Distinct (ins2 fold b n.size _)
      unfold ins2
      rw [hf]
      simp only [Bool.false_eq_true, if_false]
      refine distinct_insertTrans (h.distinct hf) ?_
      intro x hx
      exact Nat.ne_of_lt (h.edge 2 x hx).1
    · rw [hother 2 (Ne.symm e) (by omega)]; exact h.distinct hf

/-! ## `addPatternK` keeps the invariant -/

theorem bne_FAIL_false {x : Nat} : (x != FAIL) = false ↔ x = FAIL := by simp

theorem addPatternK_cons (lf fold : Bool) (n : CNfa) (prev : Nat) (saw : Bool) (b : UInt8)
    (rest : List UInt8) :
    addPatternK lf fold n prev saw (b :: rest) =
      if (lf && (saw || isMatch n prev)) = true then (n, none)
      else if follow n prev b ≠ FAIL then
        addPatternK lf fold n (follow n prev b) (saw || isMatch n prev) rest
      else addPatternK lf fold (allocChild fold n prev b) n.size (saw || isMatch n prev) rest := by
  rw [addPatternK]
  simp only [bne_iff_ne, ne_eq, ite_not]
  split
  · rfl
  · split
    · rfl
    · rfl

/-- the loop state of `addPatternK`: `prev` is the unanchored start or a trie node -/
theorem addPatternK_TI (lf fold : Bool) (pat : List UInt8) :
    ∀ (n : CNfa) (d : Nat → Nat) (prev : Nat) (saw : Bool), TI fold n d → prev < n.size →
      (prev = 2 ∨ 4 ≤ prev) →
      ∃ d', TI fold (addPatternK lf fold n prev saw pat).1 d' ∧
        ∀ last, (addPatternK lf fold n prev saw pat).2 = some last →
          last < (addPatternK lf fold n prev saw pat).1.size := by
  induction pat with
  | nil =>
    intro n d prev saw h hp _
    exact ⟨d, h, fun last e => by
      have : prev = last := by simpa [addPatternK] using e
      subst this; exact hp⟩
  | cons b rest ih =>
    intro n d prev saw h hp hp2
    rw [addPatternK_cons]
    split
    · exact ⟨d, h, fun last e => by simp at e⟩
    · split
      · rename_i hf
        have hm := mem_of_lookup (l := (n.getD prev {}).trans) (b := b) rfl
          (by rw [← follow_eq]; exact hf)
        rw [← follow_eq] at hm
        obtain ⟨a1, _, a3, a4⟩ := h.edge prev _ hm
        refine ih n d _ _ h a1 ?_
        rcases hp2 with e | e
        · rcases a4 e with e' | e'
          · exact absurd e' hf
          · exact Or.inr e'
        · exact Or.inr (a3 e)
      · exact ih _ _ _ _ (h.alloc hp hp2 b) (by rw [size_allocChild]; omega)
          (Or.inr h.size4)

/-- a state without transitions and matches -/
def Fresh (n : CNfa) (s : Nat) : Prop := (n.getD s {}).trans = [] ∧ (n.getD s {}).matches_ = []

/-- from a fresh state the pattern loop never leaves with `continue 'PATTERNS` -/
theorem addPatternK_fresh (lf fold : Bool) (pat : List UInt8) :
    ∀ (n : CNfa) (prev : Nat) (saw : Bool), Fresh n prev → prev < n.size → (lf && saw) = false →
      (addPatternK lf fold n prev saw pat).2 ≠ none := by
  induction pat with
  | nil => intro n prev saw _ _ _; simp [addPatternK]
  | cons b rest ih =>
    intro n prev saw hf hp hs
    have him : isMatch n prev = false := by
      unfold isMatch; rw [hf.2]; rfl
    have hfo : follow n prev b = FAIL := by
      rw [follow_eq, hf.1]; rfl
    rw [addPatternK_cons, him, Bool.or_false, if_neg (by rw [hs]; simp), if_neg (by simp [hfo])]
    refine ih _ _ _ ?_ (by rw [size_allocChild]; omega) hs
    unfold Fresh
    rw [getD_allocChild fold n hp, if_neg (Ne.symm (Nat.ne_of_lt hp)), if_pos rfl]
    exact ⟨rfl, rfl⟩

/-- **a skipped pattern has not changed the automaton** (nothing is allocated before the
`continue 'PATTERNS`: new states are not match states) -/
theorem addPatternK_none (lf fold : Bool) (pat : List UInt8) :
    ∀ (n : CNfa) (d : Nat → Nat) (prev : Nat) (saw : Bool), TI fold n d → prev < n.size →
      (prev = 2 ∨ 4 ≤ prev) → (addPatternK lf fold n prev saw pat).2 = none →
      (addPatternK lf fold n prev saw pat).1 = n := by
  induction pat with
  | nil => intro n d prev saw _ _ _ e; simp [addPatternK] at e
  | cons b rest ih =>
    intro n d prev saw h hp hp2
    rw [addPatternK_cons]
    split
    · intro _; rfl
    · rename_i hskip
      split
      · rename_i hf
        have hm := mem_of_lookup (l := (n.getD prev {}).trans) (b := b) rfl
          (by rw [← follow_eq]; exact hf)
        rw [← follow_eq] at hm
        obtain ⟨a1, _, a3, a4⟩ := h.edge prev _ hm
        refine ih n d _ _ h a1 ?_
        rcases hp2 with e | e
        · rcases a4 e with e' | e'
          · exact absurd e' hf
          · exact Or.inr e'
        · exact Or.inr (a3 e)
      · intro e
        exfalso
        refine addPatternK_fresh lf fold rest _ n.size _ ?_ (by rw [size_allocChild]; omega)
          (by simpa using hskip) e
        unfold Fresh
        rw [getD_allocChild fold n hp, if_neg (Ne.symm (Nat.ne_of_lt hp)), if_pos rfl]
        exact ⟨rfl, rfl⟩

/-- `trieStep` through `addPatternK` -/
theorem trieStep_eq_K (k : MatchKind) (fold : Bool) (n : CNfa) (x : List UInt8 × Nat) {d : Nat → Nat}
    (h : TI fold n d) :
    trieStep k fold n x =
      match addPatternK (k == .lf) fold n SU false x.1 with
      | (n', some last) => n'.modify last fun st => { st with matches_ := st.matches_ ++ [x.2] }
      | (n', none) => n' := by
  unfold trieStep
  rw [addPattern_eq_K]
  have hn := addPatternK_none (k == .lf) fold x.1 n d SU false h
    (by have := h.size4; simp only [SU]; omega) (Or.inl rfl)
  generalize addPatternK (k == .lf) fold n SU false x.1 = r at hn ⊢
  obtain ⟨n', o⟩ := r
  cases o with
  | none => simp only at hn ⊢; exact (hn trivial).symm
  | some last => rfl

theorem TI.trieStep {fold : Bool} {n : CNfa} {d : Nat → Nat} (h : TI fold n d) (k : MatchKind)
    (x : List UInt8 × Nat) : ∃ d', TI fold (trieStep k fold n x) d' := by
  rw [trieStep_eq_K k fold n x h]
  obtain ⟨d', h', _⟩ := addPatternK_TI (k == .lf) fold x.1 n d SU false h
    (by have := h.size4; simp only [SU]; omega) (Or.inl rfl)
  generalize addPatternK (k == .lf) fold n SU false x.1 = r at h' ⊢
  obtain ⟨n', o⟩ := r
  cases o with
  | none => exact ⟨d', h'⟩
  | some last =>
    refine ⟨d', h'.congr (Array.size_modify ..) ?_⟩
    intro s
    rw [getD_modify]
    split <;> exact ⟨rfl, rfl⟩

theorem TI_foldl_trieStep (k : MatchKind) (fold : Bool) (xs : List (List UInt8 × Nat)) :
    ∀ (n : CNfa) (d : Nat → Nat), TI fold n d → ∃ d', TI fold (xs.foldl (trieStep k fold) n) d' := by
  induction xs with
  | nil => intro n d h; exact ⟨d, h⟩
  | cons x xs ih =>
    intro n d h
    obtain ⟨d', h'⟩ := h.trieStep k x
    exact ih _ d' h'

theorem TI_buildTrie (k : MatchKind) (fold : Bool) (P : List (List UInt8)) :
    ∃ d, TI fold (buildTrie k fold P) d := by
  rw [buildTrie_eq]
  exact TI_foldl_trieStep k fold _ _ _ (TI_init fold)

end AcVerif.MemC
