import AcVerif.Proofs.NfaMemCompileAbs
import AcVerif.Proofs.CompilerBfs
import AcVerif.Theorems.L1cMem
/-!
# L1c-mem assembly, part 2: structural invariants of the failure phase (abstract side)

`FP` is the static shape of the automaton when `fill_failure_transitions` starts (it only depends
on the transitions, which that phase does not change), `J` the invariant of the failure links
while they are being computed.  `chase_props` is the failure chase: it ends at a state with a
transition on the byte, within the fuel, without ever reading the failure link of a state
`< 3`, and at a depth not above the one it started from.  `child_props` derives what the memory
operations need at every `(byte, next)` of a dequeued state.
-/
namespace AcVerif.MemC
open AcVerif AcVerif.CNfa AcVerif.L1cP AcVerif.BuildP

/-- the static shape during `fill_failure_transitions` -/
structure FP (fold : Bool) (n : CNfa) (d : Nat → Nat) : Prop where
  size4 : 4 ≤ n.size
  d0 : ∀ s, s < 4 → d s = 0
  dpos : ∀ s, 4 ≤ s → s < n.size → 1 ≤ d s ∧ d s + 3 ≤ s
  edge : ∀ s x, x ∈ (n.getD s {}).trans →
    x.2 < n.size ∧ (4 ≤ x.2 → d x.2 = d s + 1) ∧ (4 ≤ s → 4 ≤ x.2) ∧ (s = 2 → x.2 = 2 ∨ 4 ≤ x.2)
  /-- the unanchored start and the dead state have a transition on every byte -/
  fullSU : ∀ b, follow n 2 b ≠ FAIL
  fullDead : ∀ b, follow n 0 b ≠ FAIL
  distinct : fold = false → Distinct (n.getD 2 {}).trans

theorem FP.congr {fold : Bool} {n n' : CNfa} {d : Nat → Nat} (h : FP fold n d)
    (hsz : n'.size = n.size) (hst : ∀ s, (n'.getD s {}).trans = (n.getD s {}).trans) :
    FP fold n' d where
  size4 := hsz ▸ h.size4
  d0 := h.d0
  dpos := fun s h4 hs => h.dpos s h4 (hsz ▸ hs)
  edge := fun s x hx => by rw [hsz]; exact h.edge s x (hst s ▸ hx)
  fullSU := fun b => by rw [follow_eq, hst]; exact h.fullSU b
  fullDead := fun b => by rw [follow_eq, hst]; exact h.fullDead b
  distinct := fun hf => by rw [hst]; exact h.distinct hf

/-- the failure links while the breadth-first traversal runs: the anchored start fails to `DEAD`;
a trie node never fails to `FAIL`, and to a trie node only at a smaller depth -/
structure J (n : CNfa) (d : Nat → Nat) : Prop where
  f3 : (n.getD 3 {}).fail = 0
  fl : ∀ s, 4 ≤ s → s < n.size →
    (n.getD s {}).fail ≠ 1 ∧ (n.getD s {}).fail < n.size ∧
      (4 ≤ (n.getD s {}).fail → d (n.getD s {}).fail < d s)

/-! ## the two start-state phases -/

/-- the rewrite of `add_unanchored_start_state_loop` -/
def loopT (l : List (UInt8 × Nat)) : List (UInt8 × Nat) :=
  l.map fun (b, t) => (b, if t == FAIL then SU else t)

/-- … on the state -/
def loopSt (st : CState) : CState := { st with trans := loopT st.trans }

/-- `addStartLoop (setAnchoredStart n)`, state by state -/
theorem getD_startPhase (n : CNfa) (h4 : 4 ≤ n.size) (s : Nat) :
    (addStartLoop (setAnchoredStart n)).getD s {} =
      if s = 2 then loopSt (n.getD 2 {})
      else if s = 3 then
        { trans := (n.getD 2 {}).trans, fail := DEAD,
          matches_ := (n.getD 3 {}).matches_ ++ (n.getD 2 {}).matches_ }
      else n.getD s {} := by
  have h3 : ∀ s, (setAnchoredStart n).getD s {} =
      if s = 3 then
        { trans := (n.getD 2 {}).trans, fail := DEAD,
          matches_ := (n.getD 3 {}).matches_ ++ (n.getD 2 {}).matches_ }
      else n.getD s {} := by
    intro s
    rw [setAnchoredStart_eq, getD_modify]
    by_cases e : s = 3
    · subst e; rw [if_pos ⟨rfl, by omega⟩, if_pos rfl]; rfl
    · rw [if_neg (fun h => e h.1.symm), if_neg e]
  unfold addStartLoop
  rw [getD_modify]
  have hsz : (setAnchoredStart n).size = n.size := by rw [setAnchoredStart_eq, Array.size_modify]
  by_cases e : s = 2
  · subst e
    rw [if_pos ⟨rfl, by rw [hsz]; omega⟩, if_pos rfl, h3, if_neg (by decide)]
    rfl
  · rw [if_neg (fun h => e h.1.symm), if_neg e, h3]

theorem size_startPhase (n : CNfa) : (addStartLoop (setAnchoredStart n)).size = n.size := by
  unfold addStartLoop
  rw [Array.size_modify, setAnchoredStart_eq, Array.size_modify]

/-- the shape and the failure links when `fill_failure_transitions` starts -/
theorem FP_start {fold : Bool} {n : CNfa} {d : Nat → Nat} (h : TI fold n d) :
    FP fold (addStartLoop (setAnchoredStart n)) d ∧ J (addStartLoop (setAnchoredStart n)) d := by
  have hg := getD_startPhase n h.size4
  have hsz := size_startPhase n
  have h4 := h.size4
  -- the new list of the unanchored start
  have hmem2 : ∀ x, x ∈ ((addStartLoop (setAnchoredStart n)).getD 2 {}).trans →
      ∃ y, y ∈ (n.getD 2 {}).trans ∧ x = (y.1, if y.2 == FAIL then SU else y.2) := by
    intro x hx
    rw [hg, if_pos rfl] at hx
    obtain ⟨⟨y1, y2⟩, hy, e⟩ := List.mem_map.1 (show x ∈ List.map _ _ from hx)
    exact ⟨(y1, y2), hy, e.symm⟩
  have htgt2 : ∀ x, x ∈ ((addStartLoop (setAnchoredStart n)).getD 2 {}).trans →
      (x.2 = 2 ∨ 4 ≤ x.2) ∧ ∃ y, y ∈ (n.getD 2 {}).trans ∧ (4 ≤ x.2 → x.2 = y.2) := by
    intro x hx
    obtain ⟨⟨y1, y2⟩, hy, e⟩ := hmem2 x hx
    obtain ⟨_, _, _, a4⟩ := h.edge 2 (y1, y2) hy
    subst e
    simp only at a4 ⊢
    rcases a4 trivial with e1 | e1
    · subst e1
      refine ⟨Or.inl rfl, (y1, 1), hy, fun hh => ?_⟩
      exact absurd hh (by decide)
    · have hne : ¬ (y2 == FAIL) = true := by
        have : y2 ≠ 1 := by omega
        simpa [FAIL] using this
      rw [if_neg hne]
      exact ⟨Or.inr e1, (y1, y2), hy, fun _ => rfl⟩
  constructor
  · refine {
      size4 := by rw [hsz]; exact h4
      d0 := h.d0
      dpos := fun s hs4 hs => h.dpos s hs4 (hsz ▸ hs)
      edge := ?_, fullSU := ?_, fullDead := ?_, distinct := ?_ }
    · intro s x hx
      rw [hsz]
      by_cases e2 : s = 2
      · subst e2
        obtain ⟨a, y, hy, e⟩ := htgt2 x hx
        refine ⟨?_, ?_, by omega, fun _ => a⟩
        · rcases a with a | a
          · omega
          · rw [e a]; exact (h.edge 2 y hy).1
        · intro hx4
          rw [e hx4]
          exact (h.edge 2 y hy).2.1 (e hx4 ▸ hx4)
      · by_cases e3 : s = 3
        · subst e3
          rw [hg, if_neg (by decide), if_pos rfl] at hx
          obtain ⟨a1, a2, _, _⟩ := h.edge 2 x hx
          refine ⟨a1, ?_, by omega, by omega⟩
          intro hx4
          rw [a2 hx4, h.d0 2 (by omega), h.d0 3 (by omega)]
        · rw [hg, if_neg e2, if_neg e3] at hx
          obtain ⟨a1, a2, a3, _⟩ := h.edge s x hx
          exact ⟨a1, a2, a3, fun e => absurd e e2⟩
    · intro b
      have hkey : b ∈ ((addStartLoop (setAnchoredStart n)).getD 2 {}).trans.map (·.1) := by
        rw [hg, if_pos rfl]
        show b ∈ List.map _ (List.map _ _)
        rw [List.map_map]
        have : ((fun x : UInt8 × Nat => x.1) ∘ fun ((b, t) : UInt8 × Nat) =>
            (b, if t == FAIL then SU else t)) = fun x => x.1 := by
          funext x; obtain ⟨x1, x2⟩ := x; rfl
        rw [this, h.keysSU]
        exact mem_keys_fullTrans 0 b
      have hm := lookup_mem_of_key hkey
      rw [follow_eq]
      intro e
      rw [e] at hm
      rcases (htgt2 _ hm).1 with a | a
      · simp [FAIL] at a
      · simp [FAIL] at a
    · intro b
      rw [follow_eq, hg, if_neg (by decide), if_neg (by decide), h.dead, lookup_fullTrans]
      decide
    · intro hf
      rw [hg, if_pos rfl]
      show Distinct (List.map _ _)
      unfold Distinct
      rw [List.pairwise_map]
      refine (h.distinct hf).imp ?_
      intro x y hxy e
      obtain ⟨x1, x2⟩ := x
      obtain ⟨y1, y2⟩ := y
      simp only at e hxy ⊢
      by_cases hx1 : x2 = FAIL
      · simp only [hx1, BEq.rfl, if_true, SU]; omega
      · have hx1' : ¬ (x2 == FAIL) = true := by simpa using hx1
        simp only [hx1', Bool.false_eq_true, if_false] at e ⊢
        by_cases hy1 : y2 = FAIL
        · simp only [hy1, BEq.rfl, if_true, SU] at e; omega
        · have hy1' : ¬ (y2 == FAIL) = true := by simpa using hy1
          simp only [hy1', Bool.false_eq_true, if_false] at e
          exact hxy e
  · refine { f3 := ?_, fl := ?_ }
    · rw [hg, if_neg (by decide), if_pos rfl]; rfl
    · intro s hs4 hs
      rw [hsz] at hs ⊢
      rw [hg, if_neg (show ¬ s = 2 by omega), if_neg (show ¬ s = 3 by omega),
        h.fails s (by omega) hs]
      exact ⟨by decide, by omega, by omega⟩

/-! ## the failure chase -/

/-- the number of failure links that can still be followed from `g` -/
def rho (d : Nat → Nat) (g : Nat) : Nat := if 4 ≤ g then d g + 2 else if g = 3 then 1 else 0

theorem chase_props {fold : Bool} {n : CNfa} {d : Nat → Nat} (hP : FP fold n d) (hJ : J n d)
    (b : UInt8) :
    ∀ (fuel g : Nat), g ≠ 1 → g < n.size → rho d g ≤ fuel →
      follow n (chaseFail n b fuel g) b ≠ FAIL ∧ chaseFail n b fuel g < n.size ∧
      chaseFail n b fuel g ≠ 1 ∧
      (4 ≤ chaseFail n b fuel g → 4 ≤ g ∧ d (chaseFail n b fuel g) ≤ d g) := by
  intro fuel
  induction fuel with
  | zero =>
    intro g hg1 hgs hr
    have hg : g = 0 ∨ g = 2 := by
      unfold rho at hr
      by_cases h4 : 4 ≤ g
      · rw [if_pos h4] at hr; omega
      · rw [if_neg h4] at hr
        by_cases h3 : g = 3
        · rw [if_pos h3] at hr; omega
        · omega
    show follow n g b ≠ FAIL ∧ g < n.size ∧ g ≠ 1 ∧ (4 ≤ g → 4 ≤ g ∧ d g ≤ d g)
    refine ⟨?_, hgs, hg1, fun h => ⟨h, Nat.le_refl _⟩⟩
    rcases hg with e | e
    · rw [e]; exact hP.fullDead b
    · rw [e]; exact hP.fullSU b
  | succ fuel ih =>
    intro g hg1 hgs hr
    by_cases hf : follow n g b = FAIL
    · rw [chaseFail_go _ _ _ _ hf]
      have hg02 : g ≠ 0 ∧ g ≠ 2 := by
        constructor
        · intro e; rw [e] at hf; exact hP.fullDead b hf
        · intro e; rw [e] at hf; exact hP.fullSU b hf
      by_cases h4 : 4 ≤ g
      · obtain ⟨j1, j2, j3⟩ := hJ.fl g h4 hgs
        have hr' : rho d (n.getD g {}).fail ≤ fuel := by
          unfold rho at hr ⊢
          rw [if_pos h4] at hr
          generalize (n.getD g {}).fail = fg at j3 ⊢
          by_cases h4' : 4 ≤ fg
          · rw [if_pos h4']; have := j3 h4'; omega
          · rw [if_neg h4']
            by_cases h3' : fg = 3
            · rw [if_pos h3']; omega
            · rw [if_neg h3']; omega
        obtain ⟨i1, i2, i3, i4⟩ := ih _ j1 j2 hr'
        refine ⟨i1, i2, i3, fun hc => ⟨h4, ?_⟩⟩
        obtain ⟨k1, k2⟩ := i4 hc
        have := j3 k1
        omega
      · have h3 : g = 3 := by omega
        subst h3
        rw [hJ.f3]
        obtain ⟨i1, i2, i3, i4⟩ := ih 0 (by decide) (by have := hP.size4; omega)
          (by unfold rho; simp)
        exact ⟨i1, i2, i3, fun hc => absurd (i4 hc).1 (by decide)⟩
    · rw [chaseFail_stop _ _ _ _ hf]
      exact ⟨hf, hgs, hg1, fun h => ⟨h, Nat.le_refl _⟩⟩

/-- what the memory operations need at a transition `(b, next)` of a dequeued trie node `id`:
the failure target `f` is in range, is not `FAIL`, lies strictly above `next` in the trie
(in particular `f ≠ next`), and the chase started at a state other than `FAIL` -/
theorem child_props {fold : Bool} {n : CNfa} {d : Nat → Nat} (hP : FP fold n d) (hJ : J n d)
    {id : Nat} (hid4 : 4 ≤ id) (hid : id < n.size) {b : UInt8} {next : Nat}
    (hx : (b, next) ∈ (n.getD id {}).trans) :
    4 ≤ next ∧ next < n.size ∧ (n.getD id {}).fail ≠ 1 ∧ (n.getD id {}).fail < n.size ∧
    rho d (n.getD id {}).fail ≤ n.size ∧
    let f := follow n (chaseFail n b n.size (n.getD id {}).fail) b
    f ≠ 1 ∧ f < n.size ∧ f ≠ next ∧ (4 ≤ f → d f < d next) := by
  obtain ⟨e1, e2, e3, _⟩ := hP.edge id (b, next) hx
  simp only at e1 e2 e3
  have hn4 := e3 hid4
  obtain ⟨j1, j2, j3⟩ := hJ.fl id hid4 hid
  have hdid := hP.dpos id hid4 hid
  have hr : rho d (n.getD id {}).fail ≤ n.size := by
    unfold rho
    generalize (n.getD id {}).fail = fg at j3 ⊢
    by_cases h4' : 4 ≤ fg
    · rw [if_pos h4']; have := j3 h4'; omega
    · rw [if_neg h4']
      have := hP.size4
      by_cases h3' : fg = 3
      · rw [if_pos h3']; omega
      · rw [if_neg h3']; omega
  obtain ⟨c1, c2, c3, c4⟩ := chase_props hP hJ b n.size _ j1 j2 hr
  refine ⟨hn4, e1, j1, j2, hr, ?_⟩
  intro f
  have hfm : (b, f) ∈ (n.getD (chaseFail n b n.size (n.getD id {}).fail) {}).trans :=
    mem_of_lookup rfl c1
  obtain ⟨g1, g2, _, _⟩ := hP.edge _ _ hfm
  have hdf : 4 ≤ f → d f < d next := by
    intro hf4
    have hg2 : d f = d (chaseFail n b n.size (n.getD id {}).fail) + 1 := g2 hf4
    rw [hg2, e2 hn4]
    by_cases hc4 : 4 ≤ chaseFail n b n.size (n.getD id {}).fail
    · obtain ⟨k1, k2⟩ := c4 hc4
      have := j3 k1
      omega
    · rw [hP.d0 _ (by omega)]; omega
  refine ⟨c1, g1, ?_, hdf⟩
  intro e
  have := hdf (e ▸ hn4)
  rw [e] at this
  exact Nat.lt_irrefl _ this

/-! ## the invariants along the two loops -/

theorem J.setFail {n : CNfa} {d : Nat → Nat} (hJ : J n d) {next f : Nat} (hn : next < n.size)
    (h3 : next = 3 → f = 0)
    (hf : 4 ≤ next → f ≠ 1 ∧ f < n.size ∧ (4 ≤ f → d f < d next)) :
    J (n.modify next fun st => { st with fail := f }) d := by
  have hg := getD_setFail n next f hn
  refine { f3 := ?_, fl := ?_ }
  · rw [hg]
    by_cases e : 3 = next
    · rw [if_pos e]; exact h3 e.symm
    · rw [if_neg e]; exact hJ.f3
  · intro s hs4 hs
    rw [Array.size_modify] at hs ⊢
    rw [hg]
    by_cases e : s = next
    · rw [if_pos e]; exact e ▸ hf (e ▸ hs4)
    · rw [if_neg e]; exact hJ.fl s hs4 hs

theorem J.congr {n n' : CNfa} {d : Nat → Nat} (hJ : J n d) (hsz : n'.size = n.size)
    (hf : ∀ s, (n'.getD s {}).fail = (n.getD s {}).fail) : J n' d where
  f3 := by rw [hf]; exact hJ.f3
  fl := fun s h4 hs => by rw [hf, hsz]; exact hJ.fl s h4 (hsz ▸ hs)

theorem getD_copyMatches_tf (n : CNfa) (src dst s : Nat) :
    ((copyMatches n src dst).getD s {}).trans = (n.getD s {}).trans ∧
    ((copyMatches n src dst).getD s {}).fail = (n.getD s {}).fail := by
  unfold copyMatches
  rw [getD_modify]
  split
  · exact ⟨rfl, rfl⟩
  · exact ⟨rfl, rfl⟩

theorem size_copyMatches (n : CNfa) (src dst : Nat) : (copyMatches n src dst).size = n.size := by
  unfold copyMatches; rw [Array.size_modify]

theorem getD_setFail_trans (n : CNfa) (next f s : Nat) :
    ((n.modify next fun st => { st with fail := f }).getD s {}).trans = (n.getD s {}).trans := by
  rw [getD_modify]; split <;> rfl

/-- one processed child keeps size, transitions and both invariants -/
theorem procChild_inv {fold : Bool} {n : CNfa} {d : Nat → Nat} (hP : FP fold n d) (hJ : J n d)
    (lm sim : Bool) {id : Nat} (hid4 : 4 ≤ id) (hid : id < n.size) {b : UInt8} {next : Nat}
    (hx : (b, next) ∈ (n.getD id {}).trans) :
    (procChild lm sim n id b next).size = n.size ∧
    (∀ s, ((procChild lm sim n id b next).getD s {}).trans = (n.getD s {}).trans) ∧
    J (procChild lm sim n id b next) d := by
  obtain ⟨c1, c2, _, _, _, c3⟩ := child_props hP hJ hid4 hid hx
  clear hid
  unfold procChild
  split
  · refine ⟨Array.size_modify .., fun s => getD_setFail_trans n next DEAD s, ?_⟩
    exact hJ.setFail c2 (fun _ => rfl) (fun _ => ⟨by decide, by have := hP.size4; simp only [DEAD]; omega,
      fun h => absurd h (by decide)⟩)
  · refine ⟨size_setFail_copy .., ?_, ?_⟩
    · intro s
      show ((copyMatches _ _ _).getD s {}).trans = _
      rw [(getD_copyMatches_tf _ _ _ s).1, getD_setFail_trans]
    · have hJ' := hJ.setFail (f := follow n (chaseFail n b n.size (n.getD id {}).fail) b) c2
        (fun e => absurd e (by omega)) (fun _ => ⟨c3.1, c3.2.1, c3.2.2.2⟩)
      show J (copyMatches _ _ _) d
      exact hJ'.congr (size_copyMatches ..) (fun s => (getD_copyMatches_tf _ _ _ s).2)

/-- one processed child of the start state -/
theorem procStart_inv {n : CNfa} {d : Nat → Nat} (hJ : J n d) (lm sim : Bool) {next : Nat}
    (hn : next < n.size) (h4 : 4 ≤ next) :
    (procStart lm sim n next).size = n.size ∧
    (∀ s, ((procStart lm sim n next).getD s {}).trans = (n.getD s {}).trans) ∧
    J (procStart lm sim n next) d := by
  unfold procStart
  have hJ1 : J (if (lm && (sim || isMatch n next)) = true
      then n.modify next fun st => { st with fail := DEAD } else n) d := by
    split
    · exact hJ.setFail hn (fun _ => rfl) (fun _ => ⟨by decide, by simp only [DEAD]; omega,
        fun h => absurd h (by decide)⟩)
    · exact hJ
  have hs1 : (if (lm && (sim || isMatch n next)) = true
      then n.modify next fun st => { st with fail := DEAD } else n).size = n.size := by
    split
    · exact Array.size_modify ..
    · rfl
  have ht1 : ∀ s, ((if (lm && (sim || isMatch n next)) = true
      then n.modify next fun st => { st with fail := DEAD } else n).getD s {}).trans =
        (n.getD s {}).trans := by
    intro s
    split
    · exact getD_setFail_trans n next DEAD s
    · rfl
  simp only
  split
  · refine ⟨by rw [size_copyMatches, hs1], fun s => by rw [(getD_copyMatches_tf _ _ _ s).1, ht1], ?_⟩
    exact hJ1.congr (size_copyMatches ..) (fun s => (getD_copyMatches_tf _ _ _ s).2)
  · exact ⟨hs1, ht1, hJ1⟩

/-! ## the loops with an explicit `QueuedSet` mode -/

/-- `CNfa.fillStart` with the `QueuedSet` switched on or off (`fillStart` has it always on) -/
def fillStartU (useSeen lm sim : Bool) :
    List (UInt8 × Nat) → CNfa × List Nat × List Nat → CNfa × List Nat × List Nat
  | [], acc => acc
  | (_, next) :: rest, (n, queue, seen) =>
    if next == SU || (useSeen && seen.contains next) then
      fillStartU useSeen lm sim rest (n, queue, seen)
    else
      fillStartU useSeen lm sim rest
        (procStart lm sim n next, queue ++ [next], if useSeen then next :: seen else seen)

theorem fillStartU_true (lm sim : Bool) (l : List (UInt8 × Nat)) :
    ∀ acc, fillStartU true lm sim l acc = fillStart lm sim l acc := by
  induction l with
  | nil => intro acc; rfl
  | cons x rest ih =>
    intro acc
    obtain ⟨b, next⟩ := x
    obtain ⟨n, queue, seen⟩ := acc
    rw [fillStart_cons, fillStartU]
    simp only [Bool.true_and, if_true]
    split
    · exact ih _
    · exact ih _

/-- **the inert set of the first loop is as good as a real one** when the non-start targets of
the start state are pairwise different (no case folding) -/
theorem fillStartU_inert (lm sim : Bool) (l : List (UInt8 × Nat)) :
    ∀ (n : CNfa) (queue seen : List Nat), Distinct l → (∀ x ∈ l, x.2 = 2 ∨ 4 ≤ x.2) →
      (∀ s ∈ seen, 4 ≤ s ∧ ∀ x ∈ l, x.2 ≠ s) →
      (fillStartU false lm sim l (n, queue, [])).1 = (fillStart lm sim l (n, queue, seen)).1 ∧
      (fillStartU false lm sim l (n, queue, [])).2.1 = (fillStart lm sim l (n, queue, seen)).2.1 ∧
      (fillStartU false lm sim l (n, queue, [])).2.2 = [] := by
  induction l with
  | nil => intro n queue seen _ _ _; exact ⟨rfl, rfl, rfl⟩
  | cons x rest ih =>
    intro n queue seen hd ht hs
    obtain ⟨b, next⟩ := x
    have hd' := List.pairwise_cons.1 hd
    have ht' : ∀ x ∈ rest, x.2 = 2 ∨ 4 ≤ x.2 := fun x hx => ht x (List.mem_cons_of_mem _ hx)
    have hs' : ∀ s ∈ seen, 4 ≤ s ∧ ∀ x ∈ rest, x.2 ≠ s :=
      fun s hs0 => ⟨(hs s hs0).1, fun x hx => (hs s hs0).2 x (List.mem_cons_of_mem _ hx)⟩
    rw [fillStart_cons, fillStartU]
    simp only [Bool.false_and, Bool.or_false, Bool.false_eq_true, if_false]
    have hnc : seen.contains next = false := by
      rw [Bool.eq_false_iff]
      intro hc
      have hm : next ∈ seen := by simpa using hc
      exact (hs next hm).2 (b, next) List.mem_cons_self rfl
    rw [hnc, Bool.or_false]
    by_cases e : (next == SU) = true
    · rw [if_pos e, if_pos e]
      exact ih n queue seen hd'.2 ht' hs'
    · rw [if_neg e, if_neg e]
      have hn4 : 4 ≤ next := by
        rcases ht (b, next) List.mem_cons_self with h2 | h4
        · exact absurd (by simpa [SU] using h2) e
        · exact h4
      refine ih _ _ (next :: seen) hd'.2 ht' ?_
      intro s hs0
      rcases List.mem_cons.1 hs0 with e' | e'
      · subst e'
        refine ⟨hn4, fun x hx exs => ?_⟩
        have := hd'.1 x hx exs.symm
        simp only at this
        omega
      · exact hs' s e'

theorem fillState_cons' (lm sim us : Bool) (id : Nat) (b : UInt8) (next : Nat)
    (rest : List (UInt8 × Nat)) (n : CNfa) (queue seen : List Nat) :
    fillState lm sim us id ((b, next) :: rest) (n, queue, seen) =
      if (us && seen.contains next) = true then fillState lm sim us id rest (n, queue, seen)
      else fillState lm sim us id rest
        (procChild lm sim n id b next, queue ++ [next], if us then next :: seen else seen) := by
  rw [fillState]
  by_cases h1 : (us && seen.contains next) = true
  · rw [if_pos h1, if_pos h1]
  · rw [if_neg h1, if_neg h1]
    unfold procChild
    by_cases h2 : (lm && (sim || isMatch n next)) = true
    · simp only [h2, if_true]
    · simp only [h2]
      rfl

/-- `fillFailure` through `fillStartU` -/
theorem fillFailure_eq_U (k : MatchKind) (fold : Bool) {n : CNfa} {d : Nat → Nat}
    (hP : FP fold n d) :
    fillFailure k fold n =
      bfs k.isLeftmost (isMatch n SU) fold
        (fillStartU fold k.isLeftmost (isMatch n SU) (n.getD SU {}).trans (n, [], [])).1.size
        (fillStartU fold k.isLeftmost (isMatch n SU) (n.getD SU {}).trans (n, [], [])) := by
  unfold fillFailure
  cases fold with
  | true =>
    simp only [if_true]
    rw [fillStartU_true]
  | false =>
    simp only [Bool.false_eq_true, if_false]
    obtain ⟨h1, h2, h3⟩ := fillStartU_inert k.isLeftmost (isMatch n SU) (n.getD SU {}).trans n [] []
      (hP.distinct rfl) (fun x hx => (hP.edge 2 x hx).2.2.2 rfl) (fun s hs => by cases hs)
    generalize fillStartU false k.isLeftmost (isMatch n SU) (n.getD SU {}).trans (n, [], []) = r
      at h1 h2 h3
    generalize fillStart k.isLeftmost (isMatch n SU) (n.getD SU {}).trans (n, [], []) = r'
      at h1 h2
    obtain ⟨r1, r2, r3⟩ := r
    obtain ⟨r1', r2', r3'⟩ := r'
    simp only at h1 h2 h3 ⊢
    subst h1; subst h2; subst h3
    rfl

end AcVerif.MemC
