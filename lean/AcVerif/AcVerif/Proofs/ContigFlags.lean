import AcVerif.Proofs.ContigIds
/-!
# L1e proofs, part 5: the flags by id range (`is_match`, `is_special`), the start ids
-/
namespace AcVerif.L1eP
open AcVerif AcVerif.CNfa AcVerif.L1cP AcVerif.L1dP

section
variable {n : CNfa} (hS : ShufOK n) (dd : Nat) (bc hasPre : Bool)
include hS

theorem offs_na1 : (cOffsets n dd bc).getD (cNa n - 1) 0 = offAt n dd bc (cNa n - 1) := by
  have h4 := hS.na_ge
  have h5 := hS.na_le
  rw [cOffsets_getD n dd bc (by omega), if_neg (by omega)]

theorem offs_na2 : (cOffsets n dd bc).getD (cNa n - 2) 0 = offAt n dd bc (cNa n - 2) := by
  have h4 := hS.na_ge
  have h5 := hS.na_le
  rw [cOffsets_getD n dd bc (by omega), if_neg (by omega)]

theorem offs_na3 : (cOffsets n dd bc).getD (cNa n - 3) 0 =
    if cNa n = 4 then 1 else offAt n dd bc (cNa n - 3) := by
  have h4 := hS.na_ge
  have h5 := hS.na_le
  rw [cOffsets_getD n dd bc (by omega)]
  by_cases e : cNa n = 4
  · rw [if_pos e, if_pos (by omega)]
  · rw [if_neg e, if_neg (by omega)]

theorem startU_eq : (cBuild n dd bc hasPre).startU = cNewId n dd bc SU := by
  have h4 := hS.na_ge
  have h5 := hS.na_le
  show (cOffsets n dd bc).getD (cNa n - 2) 0 = _
  rw [offs_na2 hS, cNewId_eq hS dd bc (show SU < n.size by simp only [SU]; omega) (by simp [SU])]
  unfold posOf
  rw [show SU = 2 from rfl, hS.posSU]

theorem startA_eq : (cBuild n dd bc hasPre).startA = cNewId n dd bc SA := by
  have h4 := hS.na_ge
  have h5 := hS.na_le
  show (cOffsets n dd bc).getD (cNa n - 1) 0 = _
  rw [offs_na1 hS, cNewId_eq hS dd bc (show SA < n.size by simp only [SA]; omega) (by simp [SA])]
  unfold posOf
  rw [show SA = 3 from rfl, hS.posSA]

/-- where an old id sits -/
theorem pos_class {s : Nat} (hs : s < n.size) (h1 : s ≠ 1) :
    posOf n s < n.size ∧ posOf n s ≠ 1 ∧ (s = 0 → posOf n s = 0) ∧ (s = 2 → posOf n s = cNa n - 2) ∧
      (s = 3 → posOf n s = cNa n - 1) ∧
      (4 ≤ s → CNfa.isMatch n s = true → 2 ≤ posOf n s ∧ posOf n s + 3 ≤ cNa n) ∧
      (4 ≤ s → CNfa.isMatch n s = false → cNa n ≤ posOf n s) := by
  refine ⟨hS.pos_lt s hs, posOf_ne_one hS hs h1, ?_, ?_, ?_, ?_, ?_⟩
  · intro e; subst e; exact hS.pos0
  · intro e; subst e; exact hS.posSU
  · intro e; subst e; exact hS.posSA
  · intro h4 hm; exact hS.pos_match s h4 hs hm
  · intro h4 hm; exact hS.pos_nomatch s h4 hs hm

/-- `is_match` by id range -/
theorem flag_match (hm : CNfa.isMatch n SU = CNfa.isMatch n SA) (_hd : CNfa.isMatch n DEAD = false)
    {s : Nat} (hs : s < n.size) (h1 : s ≠ 1) :
    (cNewId n dd bc s ≠ 0 ∧ cNewId n dd bc s ≤ (cBuild n dd bc hasPre).maxMatchId) ↔
      (s ≠ 0 ∧ CNfa.isMatch n s = true) := by
  have h4 := hS.na_ge
  have h5 := hS.na_le
  obtain ⟨p1, p2, p3, p4, p5, p6, p7⟩ := pos_class hS hs h1
  have hz := cNewId_zero_iff hS dd bc hs h1
  have hid := cNewId_eq hS dd bc hs h1
  show (_ ∧ cNewId n dd bc s ≤ if CNfa.isMatch n SA then (cOffsets n dd bc).getD (cNa n - 1) 0
      else (cOffsets n dd bc).getD (cNa n - 3) 0) ↔ _
  rw [offs_na1 hS, offs_na3 hS, hid]
  rw [hid] at hz
  have hle1 := offAt_le_iff n dd bc (i := posOf n s) (j := cNa n - 1) p2 (by omega)
  have hsu : SU = 2 := rfl
  have hsa : SA = 3 := rfl
  rw [hsu, hsa] at hm
  cases hA : CNfa.isMatch n 3
  · -- the start states do not match
    rw [hsa, hA]
    rw [hA] at hm
    simp only [Bool.false_eq_true, if_false]
    by_cases e4 : cNa n = 4
    · rw [if_pos e4]
      have hne : offAt n dd bc (posOf n s) ≠ 1 := by
        have := cNewId_ne_one hS dd bc h1
        rw [hid] at this; exact this
      constructor
      · intro h; omega
      · rintro ⟨h0, hms⟩
        exfalso
        by_cases es : s = 2
        · subst es; rw [hm] at hms; cases hms
        · by_cases es3 : s = 3
          · subst es3; rw [hA] at hms; cases hms
          · have := p6 (by omega) hms
            omega
    · rw [if_neg e4]
      have hle3 := offAt_le_iff n dd bc (i := posOf n s) (j := cNa n - 3) p2 (by omega)
      rw [hle3]
      constructor
      · rintro ⟨h0, hle⟩
        have hs0 : s ≠ 0 := fun e => h0 (hz.2 e)
        refine ⟨hs0, ?_⟩
        by_cases es : s = 2
        · have := p4 es; omega
        · by_cases es3 : s = 3
          · have := p5 es3; omega
          · cases hms : CNfa.isMatch n s
            · have := p7 (by omega) hms; omega
            · rfl
      · rintro ⟨h0, hms⟩
        have hs0 : ¬ offAt n dd bc (posOf n s) = 0 := fun e => h0 (hz.1 e)
        refine ⟨hs0, ?_⟩
        by_cases es : s = 2
        · subst es; rw [hm] at hms; cases hms
        · by_cases es3 : s = 3
          · subst es3; rw [hA] at hms; cases hms
          · have := p6 (by omega) hms
            omega
  · -- the start states match
    rw [hsa, hA]
    rw [hA] at hm
    simp only [if_true]
    rw [hle1]
    constructor
    · rintro ⟨h0, hle⟩
      have hs0 : s ≠ 0 := fun e => h0 (hz.2 e)
      refine ⟨hs0, ?_⟩
      by_cases es : s = 2
      · subst es; exact hm
      · by_cases es3 : s = 3
        · subst es3; exact hA
        · cases hms : CNfa.isMatch n s
          · have := p7 (by omega) hms; omega
          · rfl
    · rintro ⟨h0, hms⟩
      have hs0 : ¬ offAt n dd bc (posOf n s) = 0 := fun e => h0 (hz.1 e)
      refine ⟨hs0, ?_⟩
      by_cases es : s = 2
      · have := p4 es; omega
      · by_cases es3 : s = 3
        · have := p5 es3; omega
        · have := p6 (by omega) hms
          omega

/-- `is_special` by id range -/
theorem flag_special (hm : CNfa.isMatch n SU = CNfa.isMatch n SA) (hd : CNfa.isMatch n DEAD = false)
    {s : Nat} (hs : s < n.size) (h1 : s ≠ 1) :
    cNewId n dd bc s ≤ (cBuild n dd bc hasPre).maxSpecialId ↔
      (s = 0 ∨ CNfa.isMatch n s = true ∨ (hasPre = true ∧ (s = 2 ∨ s = 3))) := by
  have h4 := hS.na_ge
  have h5 := hS.na_le
  have hfm := flag_match hS dd bc hasPre hm hd hs h1
  have hz := cNewId_zero_iff hS dd bc hs h1
  have hsp : (cBuild n dd bc hasPre).maxSpecialId =
      if hasPre then (cOffsets n dd bc).getD (cNa n - 1) 0 else (cBuild n dd bc hasPre).maxMatchId := rfl
  rw [hsp]
  cases hasPre
  · simp only [Bool.false_eq_true, if_false, false_and, or_false]
    constructor
    · intro hle
      by_cases e0 : s = 0
      · exact Or.inl e0
      · exact Or.inr (hfm.1 ⟨fun e => e0 (hz.1 e), hle⟩).2
    · rintro (e0 | hms)
      · rw [hz.2 e0]; exact Nat.zero_le _
      · by_cases e0 : s = 0
        · rw [hz.2 e0]; exact Nat.zero_le _
        · exact (hfm.2 ⟨e0, hms⟩).2
  · simp only [if_true, true_and]
    obtain ⟨p1, p2, p3, p4, p5, p6, p7⟩ := pos_class hS hs h1
    rw [offs_na1 hS, cNewId_eq hS dd bc hs h1,
      offAt_le_iff n dd bc (i := posOf n s) (j := cNa n - 1) p2 (by omega)]
    constructor
    · intro hle
      by_cases e0 : s = 0
      · exact Or.inl e0
      · by_cases es : s = 2
        · exact Or.inr (Or.inr (Or.inl es))
        · by_cases es3 : s = 3
          · exact Or.inr (Or.inr (Or.inr es3))
          · cases hms : CNfa.isMatch n s
            · have := p7 (by omega) hms; omega
            · exact Or.inr (Or.inl rfl)
    · rintro (e0 | hms | es | es)
      · have := p3 e0; omega
      · by_cases e0 : s = 0
        · have := p3 e0; omega
        · by_cases es : s = 2
          · have := p4 es; omega
          · by_cases es3 : s = 3
            · have := p5 es3; omega
            · have := p6 (by omega) hms; omega
      · have := p4 es; omega
      · have := p5 es; omega

end

end AcVerif.L1eP
