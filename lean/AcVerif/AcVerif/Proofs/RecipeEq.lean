import AcVerif.Proofs.Struct
import AcVerif.Engine.Recipe
/-!
# The documented caller-written loop equals the built-in loop (helpers for C16)
-/
namespace AcVerif
namespace EngP
variable {σ α : Type}

theorem findS_eq_recipeLoop (A : Aut σ α) (s : Nat) (std : Bool) (rest : List α) :
    ∀ (sid : σ) (at_ : Nat) (mat : Option Mat),
      findS A s false std sid at_ mat rest = recipeLoop A std sid at_ mat rest := by
  induction rest with
  | nil => intro sid at_ mat; rfl
  | cons c rest ih =>
    intro sid at_ mat
    simp only [findS, recipeLoop, Bool.false_and, Bool.not_false, if_true, ih]

theorem recipe_eq_find (A : Aut σ α) (hay : List α) :
    recipe A hay = tryFindFwd A none
      { hay := hay, s := 0, e := hay.length, anch := false, earliest := false,
        valid := ⟨Nat.le_refl _, Nat.zero_le _⟩ } := by
  unfold recipe tryFindFwd findImp
  simp only [Input.isDone, gt_iff_lt, Nat.not_lt_zero, decide_false, Bool.false_eq_true, if_false,
    Bool.or_false]
  cases hs : A.start false with
  | none => rfl
  | some sid =>
    simp only [findLoop_eq_findS, List.take_length, List.drop_zero, findS_eq_recipeLoop]
    cases hm : A.isMatch sid <;> cases hk : (A.kind == MatchKind.std) <;> simp
end EngP
end AcVerif
