import AcVerif.Proofs.StdLsp
import AcVerif.Proofs.StdEngine
import AcVerif.Spec
/-!
# The ideal standard automaton: runs, outputs, and the list of all matches
-/
namespace AcVerif.StdP
open AcVerif

/-! ## list helpers -/
section Lists
variable {β : Type}

theorem takeWhile_eq_self {p : β → Bool} {l : List β} (h : ∀ x ∈ l, p x = true) :
    l.takeWhile p = l := by
  induction l with
  | nil => rfl
  | cons a l ih =>
    rw [List.takeWhile_cons_of_pos (h a (by simp)), ih (fun x hx => h x (by simp [hx]))]

/-- on a list sorted so that passing the test is inherited upwards, `takeWhile` is `filter` -/
theorem takeWhile_eq_filter_of_pairwise {R : β → β → Prop} {p : β → Bool} {l : List β}
    (hl : l.Pairwise R) (hR : ∀ a b, R a b → p b = true → p a = true) :
    l.takeWhile p = l.filter p := by
  induction l with
  | nil => rfl
  | cons a l ih =>
    rw [List.pairwise_cons] at hl
    by_cases ha : p a = true
    · rw [List.takeWhile_cons_of_pos ha, List.filter_cons_of_pos ha, ih hl.2]
    · rw [List.takeWhile_cons_of_neg ha, List.filter_cons_of_neg ha]
      symm
      rw [List.filter_eq_nil_iff]
      intro b hb hpb
      exact ha (hR a b (hl.1 b hb) hpb)

end Lists

/-! ## generic: the list of all matches, position by position -/
section Generic
variable {σ α : Type}

theorem repAt_start (A : Aut σ α) (s : Nat) (anch : Bool) (q : σ) :
    repAt A s anch q s = (A.mpats q).map (mk A s) := by
  unfold repAt
  rw [takeWhile_eq_self]
  intro pid _
  simp [okPid, mk]

theorem allRep_eq_flatMap (A : Aut σ α) (s : Nat) (anch : Bool) (q : σ) (at_ : Nat)
    (rest : List α) :
    allRep A s anch q at_ rest =
      (List.range rest.length).flatMap
        (fun t => repAt A s anch (A.runFrom anch q (rest.take (t + 1))) (at_ + (t + 1))) := by
  induction rest generalizing q at_ with
  | nil => rfl
  | cons c rest ih =>
    simp only [allRep, List.length_cons, List.range_succ_eq_map, List.flatMap_cons,
      List.flatMap_map, ih]
    congr 2
    funext t
    simp only [Nat.succ_eq_add_one, List.take_succ_cons, Aut.runFrom]
    congr 1
    omega

theorem allMatches_eq_flatMap (A : Aut σ α) (s : Nat) (anch : Bool) (q0 : σ) (T : List α) :
    allMatches A s anch q0 T =
      (List.range (T.length + 1)).flatMap
        (fun t => repAt A s anch (A.runFrom anch q0 (T.take t)) (s + t)) := by
  rw [allMatches, allRep_eq_flatMap, List.range_succ_eq_map, List.flatMap_cons, List.flatMap_map,
    ← repAt_start A s anch q0]
  rfl

end Generic

/-! ## the ideal standard automaton -/
section Ideal
variable {α : Type} [DecidableEq α]

theorem stdLike_ideal (P : List (List α)) (sk : StartKind) :
    StdLike (ideal .std P sk false) where
  special := by intro q; simp [ideal]
  isMatch := by intro q; rfl
  dead_next := by
    intro anch q c h
    have hq : q = .dead := by simpa [ideal] using h
    subst hq
    simp [ideal, Ideal.next]
  dead_out := by
    intro q h
    have hq : q = .dead := by simpa [ideal] using h
    subst hq
    simp [ideal, Ideal.out]
  kind := rfl

theorem ideal_start (P : List (List α)) {sk : StartKind} {anch : Bool}
    (h : sk = .both ∨ (sk = .unanchored ∧ anch = false) ∨ (sk = .anchored ∧ anch = true)) :
    (ideal .std P sk false).start anch = some (.at []) := by
  rcases h with h | ⟨h, h'⟩ | ⟨h, h'⟩
  · subst h; cases anch <;> rfl
  · subst h; subst h'; rfl
  · subst h; subst h'; rfl

/-- length of pattern `pid` as the automaton reports it -/
abbrev lenOf (P : List (List α)) (pid : Nat) : Nat := (P.getD pid []).length

omit [DecidableEq α] in
theorem lenOf_eq {P : List (List α)} {pid : Nat} {p : List α} (h : P[pid]? = some p) :
    lenOf P pid = p.length := by
  simp [lenOf, List.getD_eq_getElem?_getD, h]

omit [DecidableEq α] in
theorem mem_enumPats {P : List (List α)} {p : List α} {pid : Nat} :
    (p, pid) ∈ enumPats P ↔ P[pid]? = some p := by
  unfold enumPats; rw [List.mem_zipIdx_iff_getElem?]

theorem mem_idsOf {P : List (List α)} {v : List α} {pid : Nat} :
    pid ∈ idsOf (enumPats P) v ↔ P[pid]? = some v := by
  simp only [idsOf, List.mem_map, List.mem_filter, decide_eq_true_eq]
  constructor
  · rintro ⟨⟨p, j⟩, ⟨hm, hv⟩, rfl⟩
    simp only at hv; subst hv; exact mem_enumPats.1 hm
  · intro h; exact ⟨(v, pid), ⟨mem_enumPats.2 h, rfl⟩, rfl⟩

theorem mem_outStd {P : List (List α)} {u : List α} {pid : Nat} :
    pid ∈ outStd (enumPats P) u ↔ ∃ p, P[pid]? = some p ∧ p <:+ u := by
  simp only [outStd, List.mem_flatMap, List.mem_range, mem_idsOf]
  constructor
  · rintro ⟨k, _, h⟩; exact ⟨_, h, List.drop_suffix k u⟩
  · rintro ⟨p, hp, hs⟩
    have := hs.length_le
    refine ⟨u.length - p.length, by omega, ?_⟩
    rw [← List.suffix_iff_eq_drop.1 hs]; exact hp

/-- the order of a state's match list: longer first, then by id -/
def outOrd (P : List (List α)) (a b : Nat) : Prop :=
  lenOf P b < lenOf P a ∨ (lenOf P a = lenOf P b ∧ a < b)

omit [DecidableEq α] in
theorem pairwise_enumPats (P : List (List α)) :
    (enumPats P).Pairwise (fun a b => a.2 < b.2) := by
  have h : ((enumPats P).map Prod.snd).Pairwise (· < ·) := by
    unfold enumPats
    rw [List.zipIdx_map_snd]
    exact List.pairwise_lt_range'
  exact List.pairwise_map.1 h

theorem pairwise_idsOf (P : List (List α)) (v : List α) :
    (idsOf (enumPats P) v).Pairwise (· < ·) := by
  unfold idsOf
  rw [List.pairwise_map]
  exact (pairwise_enumPats P).filter _

theorem pairwise_outStd (P : List (List α)) (u : List α) :
    (outStd (enumPats P) u).Pairwise (outOrd P) := by
  unfold outStd
  rw [List.pairwise_flatMap]
  constructor
  · intro k _
    refine (pairwise_idsOf P (u.drop k)).imp_of_mem ?_
    intro a b ha hb hab
    right
    exact ⟨by rw [lenOf_eq (mem_idsOf.1 ha), lenOf_eq (mem_idsOf.1 hb)], hab⟩
  · refine List.pairwise_lt_range.imp_of_mem ?_
    intro k1 k2 h1 h2 hlt x hx y hy
    left
    rw [lenOf_eq (mem_idsOf.1 hx), lenOf_eq (mem_idsOf.1 hy)]
    simp only [List.mem_range] at h1 h2
    simp only [List.length_drop]
    omega

theorem pairwise_out (P : List (List α)) (q : St α) :
    (Ideal.out .std (enumPats P) q).Pairwise (outOrd P) := by
  cases q with
  | dead => simp [Ideal.out]
  | «at» u => exact pairwise_outStd P u

/-! ### runs -/

theorem run_dead (P : List (List α)) (sk : StartKind) (anch : Bool) (w : List α) :
    (ideal .std P sk false).runFrom anch .dead w = .dead := by
  induction w with
  | nil => rfl
  | cons c w ih => simpa [Aut.runFrom, ideal, Ideal.next] using ih

theorem run_unanch (P : List (List α)) (sk : StartKind) (x w : List α) :
    (ideal .std P sk false).runFrom false (.at (lsp (enumPats P) x)) w =
      .at (lsp (enumPats P) (x ++ w)) := by
  induction w generalizing x with
  | nil => simp [Aut.runFrom]
  | cons c w ih =>
    have hstep : (ideal .std P sk false).next false (.at (lsp (enumPats P) x)) c =
        .at (lsp (enumPats P) (x ++ [c])) := by
      show stepStd (enumPats P) (lsp (enumPats P) x) c = _
      rw [stepStd, lsp_step]
    rw [Aut.runFrom, hstep, ih (x ++ [c])]
    simp

theorem run_unanch' (P : List (List α)) (sk : StartKind) (w : List α) :
    (ideal .std P sk false).runFrom false (.at []) w = .at (lsp (enumPats P) w) := by
  have := run_unanch P sk [] w
  simpa [lsp] using this

theorem run_anch_cases (P : List (List α)) (sk : StartKind) (u w : List α) :
    (ideal .std P sk false).runFrom true (.at u) w = .dead ∨
    (ideal .std P sk false).runFrom true (.at u) w = .at (u ++ w) := by
  induction w generalizing u with
  | nil => right; simp [Aut.runFrom]
  | cons c w ih =>
    rw [Aut.runFrom]
    have hstep : (ideal .std P sk false).next true (.at u) c = stepAnch (enumPats P) u c := rfl
    rw [hstep, stepAnch]
    split
    · have := ih (u ++ [c])
      simpa using this
    · left; exact run_dead P sk true w

theorem run_anch_ok (P : List (List α)) (sk : StartKind) (u w : List α)
    (h : isPref (enumPats P) (u ++ w) = true) :
    (ideal .std P sk false).runFrom true (.at u) w = .at (u ++ w) := by
  induction w generalizing u with
  | nil => simp [Aut.runFrom]
  | cons c w ih =>
    rw [Aut.runFrom]
    have hstep : (ideal .std P sk false).next true (.at u) c = stepAnch (enumPats P) u c := rfl
    have hp : isPref (enumPats P) (u ++ [c]) = true :=
      isPref_of_prefix (by simp) h
    rw [hstep, stepAnch, if_pos hp, ih (u ++ [c]) (by simpa using h)]
    simp

/-! ### the match list after consuming `w` -/

theorem mem_mpats_run {P : List (List α)} {sk : StartKind} {anch : Bool} {w : List α} {pid : Nat}
    (h : pid ∈ (ideal .std P sk false).mpats ((ideal .std P sk false).runFrom anch (.at []) w)) :
    ∃ p, P[pid]? = some p ∧ p <:+ w := by
  cases anch with
  | false =>
    rw [run_unanch'] at h
    obtain ⟨p, hp, hs⟩ := mem_outStd.1 h
    exact ⟨p, hp, hs.trans (lsp_suffix _ w)⟩
  | true =>
    rcases run_anch_cases P sk [] w with h' | h'
    · rw [h'] at h; simp [ideal, Ideal.out] at h
    · rw [h'] at h
      obtain ⟨p, hp, hs⟩ := mem_outStd.1 h
      exact ⟨p, hp, by simpa using hs⟩

theorem mem_mpats_run_unanch {P : List (List α)} {sk : StartKind} {w p : List α} {pid : Nat}
    (hp : P[pid]? = some p) (hs : p <:+ w) :
    pid ∈ (ideal .std P sk false).mpats ((ideal .std P sk false).runFrom false (.at []) w) := by
  rw [run_unanch']
  refine mem_outStd.2 ⟨p, hp, lsp_max _ hs ?_⟩
  exact isPref_iff.2 ⟨(p, pid), mem_enumPats.2 hp, List.prefix_rfl⟩

theorem mem_mpats_run_anch {P : List (List α)} {sk : StartKind} {w : List α} {pid : Nat}
    (hp : P[pid]? = some w) :
    pid ∈ (ideal .std P sk false).mpats ((ideal .std P sk false).runFrom true (.at []) w) := by
  have hpre : isPref (enumPats P) ([] ++ w) = true :=
    isPref_iff.2 ⟨(w, pid), mem_enumPats.2 hp, by simp⟩
  rw [run_anch_ok P sk [] w hpre]
  exact mem_outStd.2 ⟨w, hp, by simp⟩

end Ideal

end AcVerif.StdP
