import AcVerif.Proofs.AlphabetClasses
import AcVerif.Proofs.CompilerFoldFinal
/-!
# L1-alphabet proofs, part 3: the byte set that `build_trie` fills holds the marks of the trie's
edge bytes

* `addPatternBS_fst` / `buildTrieBS_fst`: the instrumented `build_trie` builds the same trie;
* `Edge n c`: some edge of the trie (from the root or a node `≥ 4`) is labelled `c`;
* `BSInv`: the byte set holds exactly the marks of the edge bytes (and, folding, the edge bytes
  are closed under `opposite_ascii_case`);
* `addPatternBS_inv`: one pattern keeps the invariant – also when the pattern is skipped under
  leftmost-first: then every byte marked on the way was an edge already (`addPatternBS_fresh`:
  once a node has been allocated the walk cannot be skipped any more);
* `buildTrieBS_inv`: the invariant after `build_trie`.
-/
namespace AcVerif.AlphaP
open AcVerif AcVerif.CNfa AcVerif.Alphabet AcVerif.L1cP AcVerif.L1cFoldP AcVerif.MiscP

/-! ## the instrumented functions build the same trie -/

/-- the allocation of a node below `prev` on byte `b` (and its opposite case) -/
def ext (fold : Bool) (n : CNfa) (prev : Nat) (b : UInt8) : CNfa :=
  let n1 := addTransition (n.push { fail := SU }) prev b n.size
  if fold then addTransition n1 prev (oppositeAsciiCase b) n.size else n1

theorem addPatternBS_nil (lf fold : Bool) (n : CNfa) (S : ByteClassSet) (prev : Nat) (sm : Bool) :
    addPatternBS lf fold n S prev sm [] = (some (n, prev), S) := by
  unfold addPatternBS; rfl

theorem addPatternBS_cons (lf fold : Bool) (n : CNfa) (S : ByteClassSet) (prev : Nat) (sm : Bool)
    (b : UInt8) (rest : List UInt8) :
    addPatternBS lf fold n S prev sm (b :: rest) =
      if (lf && (sm || isMatch n prev)) = true then (none, S)
      else if follow n prev b ≠ FAIL then
        addPatternBS lf fold n (markByte fold S b) (follow n prev b) (sm || isMatch n prev) rest
      else
        addPatternBS lf fold (ext fold n prev b) (markByte fold S b) n.size
          (sm || isMatch n prev) rest := by
  rw [addPatternBS]
  simp only [ext, bne_iff_ne, ne_eq]

theorem addPattern_cons (lf fold : Bool) (n : CNfa) (prev : Nat) (sm : Bool)
    (b : UInt8) (rest : List UInt8) :
    addPattern lf fold n prev sm (b :: rest) =
      if (lf && (sm || isMatch n prev)) = true then none
      else if follow n prev b ≠ FAIL then
        addPattern lf fold n (follow n prev b) (sm || isMatch n prev) rest
      else
        addPattern lf fold (ext fold n prev b) n.size (sm || isMatch n prev) rest := by
  rw [addPattern]
  simp only [ext, bne_iff_ne, ne_eq]

theorem addPatternBS_fst (lf fold : Bool) : ∀ (pat : List UInt8) (n : CNfa) (S : ByteClassSet)
    (prev : Nat) (sm : Bool),
    (addPatternBS lf fold n S prev sm pat).1 = addPattern lf fold n prev sm pat := by
  intro pat
  induction pat with
  | nil => intro n S prev sm; rw [addPatternBS_nil]; unfold addPattern; rfl
  | cons b rest ih =>
    intro n S prev sm
    rw [addPatternBS_cons, addPattern_cons]
    by_cases h1 : (lf && (sm || isMatch n prev)) = true
    · rw [if_pos h1, if_pos h1]
    · rw [if_neg h1, if_neg h1]
      by_cases h2 : follow n prev b ≠ FAIL
      · rw [if_pos h2, if_pos h2, ih]
      · rw [if_neg h2, if_neg h2, ih]

/-- one step of the fold of `buildTrieBS` -/
def stepBS (k : MatchKind) (fold : Bool) (acc : CNfa × ByteClassSet) (pp : List UInt8 × Nat) :
    CNfa × ByteClassSet :=
  match addPatternBS (k == .lf) fold acc.1 acc.2 SU false pp.1 with
  | (none, S) => (acc.1, S)
  | (some (n, last), S) =>
    (n.modify last fun st => { st with matches_ := st.matches_ ++ [pp.2] }, S)

/-- one step of the fold of `buildTrie` -/
def stepT (k : MatchKind) (fold : Bool) (n : CNfa) (pp : List UInt8 × Nat) : CNfa :=
  match addPattern (k == .lf) fold n SU false pp.1 with
  | none => n
  | some (n, last) => n.modify last fun st => { st with matches_ := st.matches_ ++ [pp.2] }

theorem buildTrieBS_eq (k : MatchKind) (fold : Bool) (P : List (List UInt8)) :
    buildTrieBS k fold P = P.zipIdx.foldl (stepBS k fold) (init, ByteClassSet.empty) := rfl

theorem buildTrie_eq (k : MatchKind) (fold : Bool) (P : List (List UInt8)) :
    buildTrie k fold P = P.zipIdx.foldl (stepT k fold) init := rfl

theorem stepBS_fst (k : MatchKind) (fold : Bool) (acc : CNfa × ByteClassSet)
    (pp : List UInt8 × Nat) : (stepBS k fold acc pp).1 = stepT k fold acc.1 pp := by
  unfold stepBS stepT
  rw [← addPatternBS_fst (k == .lf) fold pp.1 acc.1 acc.2 SU false]
  rcases addPatternBS (k == .lf) fold acc.1 acc.2 SU false pp.1 with ⟨o, S⟩
  cases o with
  | none => rfl
  | some r => rfl

theorem foldl_stepBS_fst (k : MatchKind) (fold : Bool) :
    ∀ (l : List (List UInt8 × Nat)) (acc : CNfa × ByteClassSet),
      (l.foldl (stepBS k fold) acc).1 = l.foldl (stepT k fold) acc.1 := by
  intro l
  induction l with
  | nil => intro acc; rfl
  | cons x rest ih =>
    intro acc
    rw [List.foldl_cons, List.foldl_cons, ih, stepBS_fst]

/-- the instrumented `build_trie` builds the trie of `CNfa.buildTrie` -/
theorem buildTrieBS_fst (k : MatchKind) (fold : Bool) (P : List (List UInt8)) :
    (buildTrieBS k fold P).1 = buildTrie k fold P := by
  rw [buildTrieBS_eq, buildTrie_eq, foldl_stepBS_fst]

end AcVerif.AlphaP
