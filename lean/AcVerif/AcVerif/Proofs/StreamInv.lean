import AcVerif.Proofs.StreamSpec
/-!
# Stream search: the state invariant of `StreamChunkIter`

Generic in the automaton: all that is used is that the start state is not a
match state and that every answer of the in-memory search (`firstMatch`, the
scan loop run on the whole stream) is a non-empty match no longer than the
buffer's `min`.  The invariant (`Inv`) says:

* the reader has delivered `data[0..pos)`, never been called with an empty
  buffer, and the buffer holds the last `len` bytes delivered;
* `absPos = pos - len + bufPos`, `reported ≤ bufPos ≤ len`;
* the automaton state is where the scan restarted at the end `r` of the last
  emitted match stands after `data[r..absPos)`, not having passed a match state;
* nothing beyond the start of the next match has been reported.
-/
namespace AcVerif.StreamP
open AcVerif
variable {σ α : Type}

/-- the standing assumptions -/
structure Hyp (A : Aut σ α) (st0 : σ) (data : List α) (sched : List Nat) (Lm C : Nat) : Prop where
  m0 : A.isMatch st0 = false
  fok : ∀ r m, r ≤ data.length → firstMatch A st0 data r = some m →
    r ≤ m.start ∧ m.start < m.stop ∧ m.stop ≤ m.start + Lm
  lm1 : 1 ≤ Lm
  lmC : Lm < C
  sch : ∀ x ∈ sched, 1 ≤ x

theorem Hyp.FOK {A : Aut σ α} {st0 : σ} {data : List α} {sched : List Nat} {Lm C : Nat}
    (H : Hyp A st0 data sched Lm C) : FOK (firstMatch A st0 data) data.length := by
  intro r m hr hf
  have := H.fok r m hr hf
  exact ⟨this.1, this.2.1, firstMatch_stop_le hr hf⟩

/-! ## the reader -/

/-- reader invariant -/
def RInv (data : List α) (sched : List Nat) (fa : Option Nat) (rd : Reader α) : Prop :=
  rd.data = data ∧ rd.sched = sched ∧ rd.failAt = fa ∧ rd.emptyReads = 0 ∧ rd.pos ≤ data.length

theorem read_unfold (rd : Reader α) (room want : Nat)
    (h : (rd.failAt == some rd.calls) = false)
    (hwant : (match rd.sched[rd.calls]? with | some w => w | none => room) = want) :
    rd.read room =
      .ok ((rd.data.drop rd.pos).take (min (min want room) (rd.data.length - rd.pos)),
        { rd with pos := rd.pos + min (min want room) (rd.data.length - rd.pos),
                  calls := rd.calls + 1,
                  emptyReads := rd.emptyReads + (if room = 0 then 1 else 0) }) := by
  subst hwant
  simp only [Reader.read, h, Bool.false_eq_true, if_false]
  rfl

/-- what one `read` call returns -/
def ReadPost (data : List α) (sched : List Nat) (fa : Option Nat) (rd : Reader α) (room : Nat) :
    Except Unit (List α × Reader α) → Prop
  | .error () => fa ≠ none
  | .ok (bytes, rd') =>
    RInv data sched fa rd' ∧ rd'.pos = rd.pos + bytes.length ∧
      bytes = slice data rd.pos rd'.pos ∧ bytes.length ≤ room ∧
      (bytes.length = 0 → rd.pos = data.length)

theorem read_spec {data : List α} {sched : List Nat} {fa : Option Nat}
    (hs : ∀ x ∈ sched, 1 ≤ x) {rd : Reader α} (h : RInv data sched fa rd) {room : Nat}
    (hroom : 1 ≤ room) : ReadPost data sched fa rd room (rd.read room) := by
  obtain ⟨h1, h2, h3, h4, h5⟩ := h
  cases hc : (rd.failAt == some rd.calls) with
  | true =>
    have : rd.read room = .error () := by simp [Reader.read, hc]
    rw [this]
    simp only [ReadPost]
    rw [h3] at hc
    intro hn; rw [hn] at hc; simp at hc
  | false =>
    have hw : 1 ≤ (match rd.sched[rd.calls]? with | some w => w | none => room) := by
      split
      · rename_i w hw
        rw [h2] at hw
        exact hs w (List.mem_of_getElem? hw)
      · exact hroom
    obtain ⟨want, hwant, hw⟩ : ∃ want,
        (match rd.sched[rd.calls]? with | some w => w | none => room) = want ∧ 1 ≤ want :=
      ⟨_, rfl, hw⟩
    rw [read_unfold rd room want hc hwant]
    have hr0 : ¬ room = 0 := by omega
    simp only [ReadPost, hr0, if_false, Nat.add_zero]
    rw [h1]
    have hlen : (List.take (min (min want room) (data.length - rd.pos)) (List.drop rd.pos data)).length
        = min (min want room) (data.length - rd.pos) := by
      simp only [List.length_take, List.length_drop]; omega
    refine ⟨⟨rfl, h2, h3, h4, by simp only; omega⟩, ?_, ?_, ?_, ?_⟩
    · rw [hlen]
    · simp only [slice]
      rw [List.drop_take]
      congr 1; omega
    · rw [hlen]; omega
    · rw [hlen]; omega

/-! ## the buffer -/

/-- buffer invariant: the buffer holds the last `len` bytes read -/
def BInv (data : List α) (Lm C : Nat) (b : Buffer α) (rd : Reader α) : Prop :=
  b.min = Lm ∧ b.cap = C ∧ b.buf.length ≤ rd.pos ∧
    b.buf = slice data (rd.pos - b.buf.length) rd.pos

/-- what `Buffer::fill` returns -/
def FillPost (data : List α) (sched : List Nat) (fa : Option Nat) (Lm C : Nat) (b : Buffer α)
    (rd : Reader α) (ra : Bool) : Except Unit (Bool × Buffer α × Reader α) → Prop
  | .error () => fa ≠ none
  | .ok (ra', b', rd') =>
    RInv data sched fa rd' ∧ BInv data Lm C b' rd' ∧
      rd'.pos - b'.buf.length = rd.pos - b.buf.length ∧ rd.pos ≤ rd'.pos ∧
      (ra' = false → ra = false ∧ rd'.pos = data.length ∧ rd'.pos = rd.pos) ∧
      (ra' = true → ra = true ∨ rd.pos < rd'.pos)

theorem fill_spec {data : List α} {sched : List Nat} {fa : Option Nat} {Lm C : Nat}
    (hs : ∀ x ∈ sched, 1 ≤ x) (hC : Lm < C) (fuel : Nat) (b : Buffer α) (rd : Reader α)
    (ra : Bool) (hr : RInv data sched fa rd) (hb : BInv data Lm C b rd)
    (hl : b.buf.length ≤ Lm) (hf : data.length - rd.pos + 1 ≤ fuel) :
    FillPost data sched fa Lm C b rd ra (b.fill rd ra fuel) := by
  induction fuel generalizing b rd ra with
  | zero => omega
  | succ fuel ih =>
    obtain ⟨hb1, hb2, hb3, hb4⟩ := hb
    have hroom : 1 ≤ b.cap - b.buf.length := by omega
    have hrs := read_spec hs hr hroom
    rw [Buffer.fill]
    generalize rd.read (b.cap - b.buf.length) = rres at hrs
    match rres, hrs with
    | .error (), hrs => exact hrs
    | .ok (bytes, rd'), hrs =>
      simp only
      obtain ⟨hr', hp, hby, hle, hz⟩ := hrs
      have hN := hr'.2.2.2.2
      by_cases h0 : bytes.length = 0
      · rw [if_pos h0]
        have := hz h0
        refine ⟨hr', ⟨hb1, hb2, by omega, ?_⟩, by omega, by omega, ?_, ?_⟩
        · have e : rd'.pos = rd.pos := by omega
          rw [e]; exact hb4
        · intro h; exact ⟨h, by omega, by omega⟩
        · intro h; exact Or.inl h
      · rw [if_neg h0]
        have hbuf : b.buf ++ bytes = slice data (rd'.pos - (b.buf ++ bytes).length) rd'.pos := by
          rw [hby]
          have e : rd'.pos - (b.buf ++ slice data rd.pos rd'.pos).length = rd.pos - b.buf.length := by
            rw [← hby]; simp only [List.length_append]; omega
          rw [e]
          conv => lhs; rw [hb4]
          exact slice_append _ (by omega) (by omega)
        have hb' : BInv data Lm C { b with buf := b.buf ++ bytes } rd' :=
          ⟨hb1, hb2, by simp only [List.length_append]; omega, hbuf⟩
        by_cases hge : (b.buf ++ bytes).length ≥ b.min
        · rw [if_pos hge]
          refine ⟨hr', hb', ?_, by omega, ?_, ?_⟩
          · simp only [List.length_append]; omega
          · intro h; cases h
          · intro _; right; omega
        · rw [if_neg hge]
          have hlt' : (b.buf ++ bytes).length < Lm := by
            simp only [ge_iff_le, Nat.not_le] at hge; rw [← hb1]; exact hge
          have := ih { b with buf := b.buf ++ bytes } rd' true hr' hb' (Nat.le_of_lt hlt')
            (by omega)
          generalize Buffer.fill { b with buf := b.buf ++ bytes } rd' true fuel = fres at this
          match fres, this with
          | .error (), this => exact this
          | .ok (ra'', b'', rd''), this =>
            obtain ⟨g1, g2, g3, g4, g5, g6⟩ := this
            refine ⟨g1, g2, ?_, by omega, ?_, ?_⟩
            · rw [g3]; simp only [List.length_append]; omega
            · intro h; have := (g5 h).1; cases this
            · intro _; right; omega

theorem BInv.slice_eq {data : List α} {Lm C : Nat} {b : Buffer α} {rd : Reader α}
    (h : BInv data Lm C b rd) (y x : Nat) (hx : x ≤ b.buf.length) :
    slice b.buf y x = slice data (rd.pos - b.buf.length + y) (rd.pos - b.buf.length + x) := by
  obtain ⟨_, _, h3, h4⟩ := h
  conv => lhs; rw [h4]
  exact slice_slice _ _ _ _ _ (by omega)

theorem BInv.drop_eq {data : List α} {Lm C : Nat} {b : Buffer α} {rd : Reader α}
    (h : BInv data Lm C b rd) (y : Nat) :
    b.buf.drop y = slice data (rd.pos - b.buf.length + y) rd.pos := by
  obtain ⟨_, _, h3, h4⟩ := h
  conv => lhs; rw [h4]
  exact drop_slice _ _ _ _

/-! ## the pieces of `StreamChunkIter::next` -/

/-- the match-state branch: `get_non_match_chunk` / the match chunk -/
def matchStep (A : Aut σ α) (it : ChunkIter σ α) : NextResult σ α × ChunkIter σ α :=
  let mat := getMatch A it.sid 0 it.absPos
  let len := mat.stop - mat.start
  let bufMatStart := it.bufPos - len
  if bufMatStart > it.reported then
    let bytes := (it.buf.buf.take bufMatStart).drop it.reported
    (.chunk (.nonMatch bytes), { it with reported := it.reported + (bufMatStart - it.reported) })
  else
    let bytes := (it.buf.buf.take it.bufPos).drop bufMatStart
    (.chunk (.mtch bytes mat),
      { it with sid := it.start, reported := it.reported + (it.bufPos - bufMatStart) })

/-- `get_pre_roll_non_match_chunk` -/
def preRollStep (it : ChunkIter σ α) : NextResult σ α × ChunkIter σ α :=
  let preEnd := it.buf.buf.length - it.buf.min
  let bytes := (it.buf.buf.take preEnd).drop it.reported
  (.chunk (.nonMatch bytes), { it with reported := it.reported + (preEnd - it.reported) })

/-- the conditional `roll` -/
def rollStep (it : ChunkIter σ α) : ChunkIter σ α :=
  if it.buf.buf.length ≥ it.buf.min then
    { it with bufPos := it.buf.min,
              reported := it.reported - (it.buf.buf.length - it.buf.min),
              buf := it.buf.roll }
  else it

/-- end of stream: the final non-match chunk, or done -/
def eofStep (it : ChunkIter σ α) : NextResult σ α × ChunkIter σ α :=
  if it.reported < it.buf.buf.length then
    (.chunk (.nonMatch (it.buf.buf.drop it.reported)), { it with reported := it.buf.buf.length })
  else (.done, it)

/-- scan the unread part of the buffer -/
def scanStep (A : Aut σ α) (it : ChunkIter σ α) : ChunkIter σ α :=
  { it with sid := (scanBytes A it.sid 0 (it.buf.buf.drop it.bufPos)).1,
            absPos := it.absPos + (scanBytes A it.sid 0 (it.buf.buf.drop it.bufPos)).2,
            bufPos := it.bufPos + (scanBytes A it.sid 0 (it.buf.buf.drop it.bufPos)).2 }

theorem next_succ (A : Aut σ α) (it : ChunkIter σ α) (fuel : Nat) :
    ChunkIter.next A it (fuel + 1) =
      if A.isMatch it.sid then matchStep A it
      else if it.bufPos ≥ it.buf.buf.length then
        if it.reported < it.buf.buf.length - it.buf.min then preRollStep it
        else
          match (rollStep it).buf.fill (rollStep it).rdr false
              ((rollStep it).rdr.data.length - (rollStep it).rdr.pos + 1) with
          | .error () => (.ioErr, rollStep it)
          | .ok (false, b, r) => eofStep { rollStep it with buf := b, rdr := r }
          | .ok (true, b, r) =>
            ChunkIter.next A (scanStep A { rollStep it with buf := b, rdr := r }) fuel
      else ChunkIter.next A (scanStep A it) fuel := by
  rfl

end AcVerif.StreamP
