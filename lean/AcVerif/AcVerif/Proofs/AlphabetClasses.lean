import AcVerif.Proofs.AlphabetBits
import AcVerif.DfaModel
/-!
# L1-alphabet proofs, part 2: `set_range` makes the marks of `marksOf`; the `byte_classes` loop
computes `classOfMarks`
-/
namespace AcVerif.AlphaP
open AcVerif AcVerif.Alphabet

/-! ## `set_range` -/

/-- `m` is a boundary mark of `set_range(c, c)`: `c` itself, and `c - 1` when `c > 0` -/
def Mark (c m : UInt8) : Prop := m = c ∨ (0 < c ∧ m = c - 1)

/-- `set_range(start, end)` adds `end` and, when `start > 0`, `start - 1`; nothing else -/
theorem contains_setRange_gen (s : ByteClassSet) (st en m : UInt8) :
    (s.setRange st en).set.contains m = true ↔
      s.set.contains m = true ∨ m = en ∨ (0 < st ∧ m = st - 1) := by
  unfold ByteClassSet.setRange
  simp only
  rw [contains_add]
  by_cases h : st > 0
  · rw [if_pos h, contains_add]
    constructor
    · rintro (e | e | e)
      · exact Or.inr (Or.inl e)
      · exact Or.inr (Or.inr ⟨h, e⟩)
      · exact Or.inl e
    · rintro (e | e | ⟨_, e⟩)
      · exact Or.inr (Or.inr e)
      · exact Or.inl e
      · exact Or.inr (Or.inl e)
  · rw [if_neg h]
    constructor
    · rintro (e | e)
      · exact Or.inr (Or.inl e)
      · exact Or.inl e
    · rintro (e | e | ⟨h', _⟩)
      · exact Or.inr e
      · exact Or.inl e
      · exact absurd h' h

theorem contains_setRange (s : ByteClassSet) (b m : UInt8) :
    (s.setRange b b).set.contains m = true ↔ s.set.contains m = true ∨ Mark b m :=
  contains_setRange_gen s b b m

theorem mem_marksOf (bytes : List UInt8) (m : UInt8) :
    m ∈ marksOf bytes ↔ ∃ c, c ∈ bytes ∧ Mark c m := by
  unfold marksOf
  rw [List.mem_flatMap]
  constructor
  · rintro ⟨c, hc, hm⟩
    refine ⟨c, hc, ?_⟩
    by_cases h : c > 0
    · rw [if_pos h] at hm
      simp only [List.mem_cons, List.not_mem_nil, or_false] at hm
      rcases hm with e | e
      · exact Or.inr ⟨h, e⟩
      · exact Or.inl e
    · rw [if_neg h] at hm
      exact Or.inl (List.mem_singleton.1 hm)
  · rintro ⟨c, hc, hm⟩
    refine ⟨c, hc, ?_⟩
    rcases hm with e | ⟨h, e⟩
    · subst e
      by_cases h : m > 0
      · rw [if_pos h]; simp
      · rw [if_neg h]; simp
    · have h' : c > 0 := h
      rw [if_pos h', e]; simp

theorem contains_feed (bytes : List UInt8) : ∀ (s : ByteClassSet) (m : UInt8),
    (s.feed bytes).set.contains m = true ↔ s.set.contains m = true ∨ m ∈ marksOf bytes := by
  induction bytes with
  | nil => intro s m; simp [ByteClassSet.feed, marksOf]
  | cons b rest ih =>
    intro s m
    have e : s.feed (b :: rest) = (s.setRange b b).feed rest := rfl
    rw [e, ih, contains_setRange, mem_marksOf, mem_marksOf]
    constructor
    · rintro ((h | h) | ⟨c, hc, hm⟩)
      · exact Or.inl h
      · exact Or.inr ⟨b, List.mem_cons_self, h⟩
      · exact Or.inr ⟨c, List.mem_cons_of_mem _ hc, hm⟩
    · rintro (h | ⟨c, hc, hm⟩)
      · exact Or.inl (Or.inl h)
      · rcases List.mem_cons.1 hc with e' | e'
        · subst e'; exact Or.inl (Or.inr hm)
        · exact Or.inr ⟨c, e', hm⟩

/-! ## counting marks -/

/-- the number of `i < n` with `p i` -/
def cnt (p : Nat → Bool) (n : Nat) : Nat := ((List.range n).filter p).length

theorem cnt_zero (p : Nat → Bool) : cnt p 0 = 0 := rfl

theorem cnt_succ (p : Nat → Bool) (n : Nat) : cnt p (n + 1) = cnt p n + if p n = true then 1 else 0 := by
  unfold cnt
  rw [List.range_succ, List.filter_append, List.length_append]
  by_cases h : p n = true
  · simp [h]
  · simp [h]

theorem cnt_le (p : Nat → Bool) (n : Nat) : cnt p n ≤ n := by
  unfold cnt
  have := List.length_filter_le p (List.range n)
  rw [List.length_range] at this
  exact this

theorem classOfMarks_eq_cnt (marks : List UInt8) (b : UInt8) :
    classOfMarks marks b = cnt (fun m => marks.contains m.toUInt8) b.toNat := rfl

/-! ## the loop -/

theorem toNat_succ (a : UInt8) (h : a.toNat + 1 < 256) : (a + 1).toNat = a.toNat + 1 := by
  rw [UInt8.toNat_add]
  have e : (1 : UInt8).toNat = 1 := rfl
  rw [e]
  exact Nat.mod_eq_of_lt h

theorem checkedAdd_one (a : UInt8) (h : a.toNat + 1 < 256) : checkedAdd a 1 = some (a + 1) := by
  unfold checkedAdd
  have e : (1 : UInt8).toNat = 1 := rfl
  rw [e, if_pos h]

theorem getD_set (c : ByteClasses) (b cls : UInt8) (hs : c.arr.size = 256) (j : Nat) :
    (c.set b cls).arr.getD j 0 = if j = b.toNat then cls else c.arr.getD j 0 := by
  unfold ByteClasses.set
  simp only [Array.set!_eq_setIfInBounds]
  rw [Array.getD_eq_getD_getElem?, Array.getD_eq_getD_getElem?, Array.getElem?_setIfInBounds]
  have hb : b.toNat < c.arr.size := by rw [hs]; exact b.toNat_lt
  by_cases h : j = b.toNat
  · subst h; rw [if_pos rfl, if_pos hb, if_pos rfl]; rfl
  · rw [if_neg (fun e => h e.symm), if_neg h]

theorem size_set (c : ByteClasses) (b cls : UInt8) : (c.set b cls).arr.size = c.arr.size := by
  unfold ByteClasses.set
  simp only [Array.set!_eq_setIfInBounds, Array.size_setIfInBounds]

/-- the loop invariant: at the head of the iteration for byte `i`, `class` is the number of marks
below `i` and the entries below `i` are final -/
theorem loop_spec (s : ByteSet) (p : Nat → Bool)
    (hp : ∀ b : UInt8, s.contains b = p b.toNat) :
    ∀ (fuel i : Nat) (classes : ByteClasses) (cls b : UInt8), i + fuel = 256 → 1 ≤ fuel →
      b.toNat = i → cls.toNat = cnt p i → classes.arr.size = 256 →
      (∀ j, j < i → (classes.arr.getD j 0).toNat = cnt p j) →
      ∃ r, byteClassesLoop s fuel classes cls b = some r ∧ r.arr.size = 256 ∧
        ∀ j, j < 256 → (r.arr.getD j 0).toNat = cnt p j := by
  intro fuel
  induction fuel with
  | zero => intro i classes cls b _ h1; omega
  | succ fuel ih =>
    intro i classes cls b hif _ hb hcls hsz hinv
    have hsz' : (classes.set b cls).arr.size = 256 := by rw [size_set]; exact hsz
    have hinv' : ∀ j, j < i + 1 → ((classes.set b cls).arr.getD j 0).toNat = cnt p j := by
      intro j hj
      rw [getD_set _ _ _ hsz]
      by_cases e : j = b.toNat
      · rw [if_pos e, hcls, e, hb]
      · rw [if_neg e]; exact hinv j (by omega)
    unfold byteClassesLoop
    simp only
    by_cases h255 : b = 255
    · have hi : i = 255 := by rw [← hb, h255]; rfl
      rw [if_pos (by simpa using h255)]
      exact ⟨_, rfl, hsz', fun j hj => hinv' j (by omega)⟩
    · rw [if_neg (by simpa using h255)]
      have hi : i < 255 := by
        have h1 : b.toNat ≠ 255 := fun e => h255 (UInt8.toNat_inj.1 e)
        have h2 := b.toNat_lt
        omega
      have hle := cnt_le p i
      have hb1 : checkedAdd b 1 = some (b + 1) := checkedAdd_one b (by omega)
      have hbn : (b + 1).toNat = i + 1 := by rw [toNat_succ b (by omega), hb]
      rw [hb1]
      have hpi : s.contains b = p i := by rw [hp b, hb]
      by_cases hc : p i = true
      · rw [hpi, if_pos hc, checkedAdd_one cls (by omega)]
        simp only
        refine ih (i + 1) _ _ _ (by omega) (by omega) hbn ?_ hsz' hinv'
        rw [toNat_succ cls (by omega), hcls, cnt_succ, if_pos hc]
      · rw [hpi, if_neg hc]
        simp only
        refine ih (i + 1) _ _ _ (by omega) (by omega) hbn ?_ hsz' hinv'
        rw [hcls, cnt_succ, if_neg hc, Nat.add_zero]

theorem size_empty : ByteClasses.empty.arr.size = 256 := by
  unfold ByteClasses.empty; simp

/-- `byte_classes()` neither panics nor runs out of fuel, and class `b` is the number of marks
below `b` -/
theorem byteClasses_spec (s : ByteClassSet) (marks : List UInt8)
    (h : ∀ m, s.set.contains m = true ↔ m ∈ marks) :
    ∃ bc, s.byteClasses = some bc ∧ bc.arr.size = 256 ∧
      ∀ b : UInt8, (bc.get b).toNat = classOfMarks marks b := by
  have hp : ∀ b : UInt8, s.set.contains b = (fun m : Nat => marks.contains m.toUInt8) b.toNat := by
    intro b
    simp only
    have e : b.toNat.toUInt8 = b := by simp
    rw [e]
    cases hc : s.set.contains b with
    | true => exact (List.contains_iff_mem.2 ((h b).1 hc)).symm
    | false =>
      cases hm : marks.contains b with
      | false => rfl
      | true => rw [(h b).2 (List.contains_iff_mem.1 hm)] at hc; exact absurd hc (by simp)
  obtain ⟨r, hr, hsz, hall⟩ := loop_spec s.set (fun m : Nat => marks.contains m.toUInt8) hp 256 0 ByteClasses.empty 0 0 rfl (by omega) rfl rfl
    size_empty (fun j hj => by omega)
  exact ⟨r, hr, hsz, fun b => by
    rw [classOfMarks_eq_cnt]; exact hall b.toNat b.toNat_lt⟩

end AcVerif.AlphaP
