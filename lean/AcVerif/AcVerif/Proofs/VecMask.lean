import AcVerif.Proofs.VecOps
/-!
# The Slim / Fat mask tables are the lane model's bucket bit sets

`maskTables t fat i` is decomposed into its two tables, each a fold over buckets
and their patterns that ORs a bucket bit into one (fat) or two (slim) entries.
Entry `x` of the table is related to `Teddy.maskLo/maskHi i x`:
slim – both halves hold the 8-bit set; fat – the low half holds bits 0–7 and the
high half bits 8–15.
-/
namespace AcVerif.VecP
open AcVerif.PackedP

/-! ## decomposition of `maskTables` into two single-table folds -/

def updT (tbl : Vec8) (idx : Nat) (bit : UInt8) : Vec8 := tbl.set idx ((tbl.getD idx 0) ||| bit)

/-- the inner step of `maskTables`, literally -/
def stepP (t : Teddy) (fat : Bool) (i b : Nat) (acc : Vec8 × Vec8) (pid : Nat) : Vec8 × Vec8 :=
  let byte := (t.pats.get pid).getD i 0
  let lo := (byte &&& 0xF).toNat
  let hi := ((byte >>> 4) &&& 0xF).toNat
  let (l, h) := acc
  if !fat then
    let bit : UInt8 := (1 : UInt8) <<< b.toUInt8
    (updT (updT l lo bit) (lo + 16) bit, updT (updT h hi bit) (hi + 16) bit)
  else if b < 8 then
    let bit : UInt8 := (1 : UInt8) <<< b.toUInt8
    (updT l lo bit, updT h hi bit)
  else
    let bit : UInt8 := (1 : UInt8) <<< (b % 8).toUInt8
    (updT l (lo + 16) bit, updT h (hi + 16) bit)

theorem maskTables_unfold (t : Teddy) (fat : Bool) (i : Nat) :
    maskTables t fat i =
      (List.range t.nBuckets).foldl (fun acc b =>
        (t.buckets.getD b []).foldl (stepP t fat i b) acc)
        (List.replicate 32 0, List.replicate 32 0) := rfl

/-- the bit a bucket contributes -/
def bitB (fat : Bool) (b : Nat) : UInt8 :=
  if !fat then (1 : UInt8) <<< b.toUInt8
  else if b < 8 then (1 : UInt8) <<< b.toUInt8 else (1 : UInt8) <<< (b % 8).toUInt8

/-- one pattern's update of a single table; `x` is the pattern byte's nybble -/
def stepT (fat : Bool) (b : Nat) (tbl : Vec8) (x : Nat) : Vec8 :=
  if !fat then updT (updT tbl x (bitB fat b)) (x + 16) (bitB fat b)
  else if b < 8 then updT tbl x (bitB fat b) else updT tbl (x + 16) (bitB fat b)

theorem stepP_eq (t : Teddy) (fat : Bool) (i b : Nat) (l h : Vec8) (pid : Nat) :
    stepP t fat i b (l, h) pid =
      (stepT fat b l (((t.pats.get pid).getD i 0) &&& 0xF).toNat,
       stepT fat b h (((t.pats.get pid).getD i 0) >>> 4).toNat) := by
  unfold stepP stepT bitB
  simp only [hi_nyb_and]
  cases fat with
  | false => rfl
  | true =>
    by_cases hb : b < 8
    · simp [hb]
    · simp [hb]

/-- a single table: `nybF` extracts the nybble of a pattern byte -/
def tblOf (t : Teddy) (fat : Bool) (i : Nat) (nybF : UInt8 → UInt8) : Vec8 :=
  (List.range t.nBuckets).foldl (fun tbl b =>
    (t.buckets.getD b []).foldl (fun tbl pid =>
      stepT fat b tbl (nybF ((t.pats.get pid).getD i 0)).toNat) tbl) (List.replicate 32 0)

theorem inner_pair (t : Teddy) (fat : Bool) (i b : Nat) (pids : List Nat) (l h : Vec8) :
    pids.foldl (stepP t fat i b) (l, h) =
      (pids.foldl (fun tbl pid => stepT fat b tbl (((t.pats.get pid).getD i 0) &&& 0xF).toNat) l,
       pids.foldl (fun tbl pid => stepT fat b tbl (((t.pats.get pid).getD i 0) >>> 4).toNat) h) := by
  induction pids generalizing l h with
  | nil => rfl
  | cons pid pids ih => rw [List.foldl_cons, stepP_eq, ih]; rfl

theorem outer_pair (t : Teddy) (fat : Bool) (i : Nat) (bs : List Nat) (l h : Vec8) :
    bs.foldl (fun acc b => (t.buckets.getD b []).foldl (stepP t fat i b) acc) (l, h) =
      (bs.foldl (fun tbl b => (t.buckets.getD b []).foldl (fun tbl pid =>
          stepT fat b tbl (((t.pats.get pid).getD i 0) &&& 0xF).toNat) tbl) l,
       bs.foldl (fun tbl b => (t.buckets.getD b []).foldl (fun tbl pid =>
          stepT fat b tbl (((t.pats.get pid).getD i 0) >>> 4).toNat) tbl) h) := by
  induction bs generalizing l h with
  | nil => rfl
  | cons b bs ih => rw [List.foldl_cons, inner_pair, ih]; rfl

theorem maskTables_eq (t : Teddy) (fat : Bool) (i : Nat) :
    maskTables t fat i =
      (tblOf t fat i (fun c => c &&& 0xF), tblOf t fat i (fun c => c >>> 4)) := by
  rw [maskTables_unfold, outer_pair]; rfl

/-! ## entries of a single table -/

theorem updT_length (tbl : Vec8) (idx : Nat) (bit : UInt8) : (updT tbl idx bit).length = tbl.length := by
  unfold updT; rw [List.length_set]

theorem updT_getD (tbl : Vec8) (idx : Nat) (bit : UInt8) (j : Nat) (hj : j < tbl.length) :
    (updT tbl idx bit).getD j 0 = if idx = j then tbl.getD j 0 ||| bit else tbl.getD j 0 := by
  unfold updT
  rw [List.getD_eq_getElem?_getD, List.getElem?_set]
  by_cases h : idx = j
  · subst h; rw [if_pos rfl, if_pos hj, if_pos rfl]; rfl
  · rw [if_neg h, if_neg h, List.getD_eq_getElem?_getD]

/-- does the update of a pattern with nybble `x` in bucket `b` touch entry `j`? -/
def hit (fat : Bool) (b x j : Nat) : Bool :=
  if !fat then (x == j || x + 16 == j) else if b < 8 then x == j else x + 16 == j

theorem stepT_length (fat : Bool) (b : Nat) (tbl : Vec8) (x : Nat) :
    (stepT fat b tbl x).length = tbl.length := by
  unfold stepT
  split
  · rw [updT_length, updT_length]
  · split <;> rw [updT_length]

theorem hit_false (b x j : Nat) : hit false b x j = (x == j || x + 16 == j) := rfl
theorem hit_true_lo (b x j : Nat) (hb : b < 8) : hit true b x j = (x == j) := by
  unfold hit; simp [hb]
theorem hit_true_hi (b x j : Nat) (hb : ¬ b < 8) : hit true b x j = (x + 16 == j) := by
  unfold hit; simp [hb]

theorem stepT_getD (fat : Bool) (b : Nat) (tbl : Vec8) (x j : Nat) (hj : j < tbl.length) :
    (stepT fat b tbl x).getD j 0 =
      if hit fat b x j then tbl.getD j 0 ||| bitB fat b else tbl.getD j 0 := by
  cases fat with
  | false =>
    rw [hit_false]
    show (updT (updT tbl x (bitB false b)) (x + 16) (bitB false b)).getD j 0 = _
    rw [updT_getD _ _ _ _ (by rw [updT_length]; exact hj), updT_getD _ _ _ _ hj]
    by_cases h1 : x = j
    · have h2 : ¬ x + 16 = j := by omega
      rw [if_neg h2, if_pos h1]; simp [h1]
    · by_cases h2 : x + 16 = j
      · rw [if_pos h2, if_neg h1]; simp [h2]
      · rw [if_neg h2, if_neg h1]; simp [h1, h2]
  | true =>
    by_cases hb : b < 8
    · rw [hit_true_lo _ _ _ hb]
      have : stepT true b tbl x = updT tbl x (bitB true b) := by unfold stepT; simp [hb]
      rw [this, updT_getD _ _ _ _ hj]
      by_cases h1 : x = j <;> simp [h1]
    · rw [hit_true_hi _ _ _ hb]
      have : stepT true b tbl x = updT tbl (x + 16) (bitB true b) := by unfold stepT; simp [hb]
      rw [this, updT_getD _ _ _ _ hj]
      by_cases h1 : x + 16 = j <;> simp [h1]

theorem inner_length (fat : Bool) (b : Nat) (xs : Nat → Nat) (pids : List Nat) (tbl : Vec8) :
    (pids.foldl (fun tbl pid => stepT fat b tbl (xs pid)) tbl).length = tbl.length := by
  induction pids generalizing tbl with
  | nil => rfl
  | cons pid pids ih => rw [List.foldl_cons, ih, stepT_length]

theorem inner_getD (fat : Bool) (b : Nat) (xs : Nat → Nat) (pids : List Nat) (tbl : Vec8) (j : Nat)
    (hj : j < tbl.length) :
    (pids.foldl (fun tbl pid => stepT fat b tbl (xs pid)) tbl).getD j 0 =
      if pids.any (fun pid => hit fat b (xs pid) j) then tbl.getD j 0 ||| bitB fat b
      else tbl.getD j 0 := by
  induction pids generalizing tbl with
  | nil => rfl
  | cons pid pids ih =>
    rw [List.foldl_cons, ih _ (by rw [stepT_length]; exact hj), stepT_getD _ _ _ _ _ hj,
      List.any_cons]
    cases hit fat b (xs pid) j <;> cases pids.any (fun pid => hit fat b (xs pid) j) <;>
      simp [or_idem_right]

/-- Lemma A: an entry after all buckets, as a fold over the buckets -/
theorem outer_getD (t : Teddy) (fat : Bool) (xs : Nat → Nat) (bs : List Nat) (tbl : Vec8) (j : Nat)
    (hj : j < tbl.length) :
    ((bs.foldl (fun tbl b => (t.buckets.getD b []).foldl (fun tbl pid =>
        stepT fat b tbl (xs pid)) tbl) tbl).getD j 0).toNat =
      bs.foldl (fun a b =>
        if (t.buckets.getD b []).any (fun pid => hit fat b (xs pid) j)
        then a ||| (bitB fat b).toNat else a) (tbl.getD j 0).toNat := by
  induction bs generalizing tbl with
  | nil => rfl
  | cons b bs ih =>
    rw [List.foldl_cons, List.foldl_cons, ih _ (by rw [inner_length]; exact hj),
      inner_getD _ _ _ _ _ _ hj]
    congr 1
    split
    · exact UInt8.toNat_or _ _
    · rfl

/-- Lemma B: a projection of the lane model's mask fold -/
theorem fold_part (part : Nat → Nat) (c c' : Nat → Bool) (v : Nat → Nat) (bs : List Nat)
    (h : ∀ b ∈ bs, ∀ A, part (if c b then A ||| 1 <<< b else A) =
      (if c' b then part A ||| v b else part A)) (A0 : Nat) :
    part (bs.foldl (fun a b => if c b then a ||| 1 <<< b else a) A0) =
      bs.foldl (fun a b => if c' b then a ||| v b else a) (part A0) := by
  induction bs generalizing A0 with
  | nil => rfl
  | cons b bs ih =>
    rw [List.foldl_cons, List.foldl_cons, ih (fun b' hb' => h b' (List.mem_cons_of_mem _ hb')),
      h b (List.mem_cons_self ..)]

/-- the lane model's masks with a generic nybble extraction -/
def maskG (t : Teddy) (i : Nat) (nybF : UInt8 → UInt8) (nyb : UInt8) : Nat :=
  (List.range t.nBuckets).foldl (fun acc b =>
    if (t.buckets.getD b []).any (fun id => nybF ((t.pats.get id).getD i 0) == nyb)
    then acc ||| (1 <<< b) else acc) 0

theorem maskLo_eq (t : Teddy) (i : Nat) : t.maskLo i = maskG t i (fun c => c &&& 0xF) := rfl
theorem maskHi_eq (t : Teddy) (i : Nat) : t.maskHi i = maskG t i (fun c => c >>> 4) := rfl

theorem toNat_beq (a b : UInt8) : (a.toNat == b.toNat) = (a == b) := by
  rw [Bool.eq_iff_iff]
  simp only [beq_iff_eq]
  exact UInt8.toNat_inj

theorem tbl_entry (t : Teddy) (fat : Bool) (i : Nat) (nybF : UInt8 → UInt8) (j : Nat) (hj : j < 32) :
    ((tblOf t fat i nybF).getD j 0).toNat =
      (List.range t.nBuckets).foldl (fun a b =>
        if (t.buckets.getD b []).any (fun pid =>
          hit fat b (nybF ((t.pats.get pid).getD i 0)).toNat j)
        then a ||| (bitB fat b).toNat else a) 0 := by
  unfold tblOf
  rw [outer_getD t fat (fun pid => (nybF ((t.pats.get pid).getD i 0)).toNat) _ _ j (by simpa using hj)]
  congr 1
  rw [List.getD_eq_getElem?_getD, List.getElem?_replicate, if_pos hj]
  rfl

/-- slim: both halves of the table hold the bucket bit set -/
theorem tbl_slim (t : Teddy) (hB : t.nBuckets = 8) (i : Nat) (nybF : UInt8 → UInt8)
    (hF : ∀ c, (nybF c).toNat < 16) (nyb : UInt8) (hn : nyb.toNat < 16) (h : Nat)
    (hh : h = 0 ∨ h = 16) :
    ((tblOf t false i nybF).getD (nyb.toNat + h) 0).toNat = maskG t i nybF nyb := by
  rw [tbl_entry _ _ _ _ _ (by omega)]
  unfold maskG
  symm
  refine fold_part id _ _ _ _ ?_ 0
  intro b hb A
  have hb8 : b < 8 := by rw [hB] at hb; exact List.mem_range.1 hb
  have hc : (t.buckets.getD b []).any (fun id => nybF ((t.pats.get id).getD i 0) == nyb) =
      (t.buckets.getD b []).any (fun pid =>
        hit false b (nybF ((t.pats.get pid).getD i 0)).toNat (nyb.toNat + h)) := by
    congr 1
    funext pid
    have := hF ((t.pats.get pid).getD i 0)
    rw [← toNat_beq, hit_false, Bool.eq_iff_iff]
    simp only [Bool.or_eq_true, beq_iff_eq]
    omega
  rw [← hc]
  have hbit : (bitB false b).toNat = 1 <<< b := bit_lo b hb8
  rw [hbit]
  split <;> rfl

/-- fat: the low half holds bits 0–7 -/
theorem tbl_fat_lo (t : Teddy) (hB : t.nBuckets = 16) (i : Nat) (nybF : UInt8 → UInt8)
    (hF : ∀ c, (nybF c).toNat < 16) (nyb : UInt8) (hn : nyb.toNat < 16) :
    ((tblOf t true i nybF).getD nyb.toNat 0).toNat = maskG t i nybF nyb % 2 ^ 8 := by
  rw [tbl_entry _ _ _ _ _ (by omega)]
  unfold maskG
  symm
  refine fold_part (· % 2 ^ 8) _ _ _ _ ?_ 0
  intro b hb A
  have hb16 : b < 16 := by rw [hB] at hb; exact List.mem_range.1 hb
  by_cases hb8 : b < 8
  · have hc : (t.buckets.getD b []).any (fun id => nybF ((t.pats.get id).getD i 0) == nyb) =
        (t.buckets.getD b []).any (fun pid =>
          hit true b (nybF ((t.pats.get pid).getD i 0)).toNat nyb.toNat) := by
      congr 1
      funext pid
      rw [← toNat_beq, hit_true_lo _ _ _ hb8]
    rw [← hc]
    have hbit : (bitB true b).toNat = 1 <<< b := by
      unfold bitB; simp only [Bool.not_true, hb8, if_true]; exact bit_lo b hb8
    rw [hbit]
    split
    · rw [Nat.or_mod_two_pow, (bit_fat_lo b hb8).1]
    · rfl
  · have hc : (t.buckets.getD b []).any (fun pid =>
          hit true b (nybF ((t.pats.get pid).getD i 0)).toNat nyb.toNat) = false := by
      rw [List.any_eq_false]
      intro pid _
      have := hF ((t.pats.get pid).getD i 0)
      rw [hit_true_hi _ _ _ hb8]
      simp only [beq_iff_eq]
      omega
    rw [hc]
    simp only [Bool.false_eq_true, if_false]
    split
    · rw [Nat.or_mod_two_pow, (bit_fat_hi b hb16 hb8).1, Nat.or_zero]
    · rfl

/-- fat: the high half holds bits 8–15 -/
theorem tbl_fat_hi (t : Teddy) (hB : t.nBuckets = 16) (i : Nat) (nybF : UInt8 → UInt8)
    (hF : ∀ c, (nybF c).toNat < 16) (nyb : UInt8) (hn : nyb.toNat < 16) :
    ((tblOf t true i nybF).getD (16 + nyb.toNat) 0).toNat = maskG t i nybF nyb / 2 ^ 8 := by
  rw [tbl_entry _ _ _ _ _ (by omega)]
  unfold maskG
  symm
  refine fold_part (· / 2 ^ 8) _ _ _ _ ?_ 0
  intro b hb A
  have hb16 : b < 16 := by rw [hB] at hb; exact List.mem_range.1 hb
  by_cases hb8 : b < 8
  · have hc : (t.buckets.getD b []).any (fun pid =>
          hit true b (nybF ((t.pats.get pid).getD i 0)).toNat (16 + nyb.toNat)) = false := by
      rw [List.any_eq_false]
      intro pid _
      have := hF ((t.pats.get pid).getD i 0)
      rw [hit_true_lo _ _ _ hb8]
      simp only [beq_iff_eq]
      omega
    rw [hc]
    simp only [Bool.false_eq_true, if_false]
    split
    · rw [Nat.or_div_two_pow, (bit_fat_lo b hb8).2, Nat.or_zero]
    · rfl
  · have hc : (t.buckets.getD b []).any (fun id => nybF ((t.pats.get id).getD i 0) == nyb) =
        (t.buckets.getD b []).any (fun pid =>
          hit true b (nybF ((t.pats.get pid).getD i 0)).toNat (16 + nyb.toNat)) := by
      congr 1
      funext pid
      rw [← toNat_beq, hit_true_hi _ _ _ hb8, Bool.eq_iff_iff]
      simp only [beq_iff_eq]
      omega
    rw [← hc]
    have hbit : (bitB true b).toNat = (1 <<< b) / 2 ^ 8 := by
      unfold bitB; simp only [Bool.not_true, hb8, if_false]; exact (bit_fat_hi b hb16 hb8).2.symm
    rw [hbit]
    split
    · rw [Nat.or_div_two_pow]
    · rfl

end AcVerif.VecP
