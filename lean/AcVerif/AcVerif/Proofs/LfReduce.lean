import AcVerif.Proofs.LeftmostAnch
import AcVerif.Spec
/-!
# From "best kept occurrence in the span text" to the specification `IsFind`

* bridge between relative occurrences in `(hay.take e).drop s` and `IsOcc`;
* `.ll`: the kept set is everything;
* `.lf`: leftmost-first is leftmost-longest on the pruned set (section E of the plan).
-/
namespace AcVerif.LmP
open AcVerif
set_option linter.unusedSectionVars false
variable {α : Type} [DecidableEq α]

/-- occurrence of a kept pattern in the span, absolute offsets -/
def IsOccQ (Q : PatSet α) (hay : List α) (s e : Nat) (m : Mat) : Prop :=
  ∃ q ∈ Q, q.2 = m.pid ∧ s ≤ m.start ∧ m.stop = m.start + q.1.length ∧ m.stop ≤ e ∧
    q.1 <+: hay.drop m.start

def AdmQ (Q : PatSet α) (hay : List α) (s e : Nat) (anch : Bool) (m : Mat) : Prop :=
  IsOccQ Q hay s e m ∧ (anch = true → m.start = s)

def IsBestQ (Q : PatSet α) (hay : List α) (s e : Nat) (anch : Bool) : Option Mat → Prop
  | none => ∀ m, ¬ AdmQ Q hay s e anch m
  | some m => AdmQ Q hay s e anch m ∧ ∀ m', AdmQ Q hay s e anch m' → betterLL m m'

theorem span_drop (hay : List α) (s e st : Nat) :
    ((hay.take e).drop s).drop st = (hay.drop (s + st)).take (e - (s + st)) := by
  rw [List.drop_drop, List.drop_take]

theorem span_length {hay : List α} {s e : Nat} (he : e ≤ hay.length) :
    ((hay.take e).drop s).length = e - s := by
  simp only [List.length_drop, List.length_take]; omega

theorem isOccQ_of_occIn {Q : PatSet α} {hay : List α} {s e : Nat} (he : e ≤ hay.length)
    (hse : s ≤ e)
    {q : List α × Nat} {st : Nat} (h : OccIn Q ((hay.take e).drop s) q st) :
    IsOccQ Q hay s e (matOf s q st) := by
  obtain ⟨hq, hst, hp⟩ := h
  rw [span_length he] at hst
  rw [span_drop, List.prefix_take_iff] at hp
  refine ⟨q, hq, rfl, by simp only [matOf]; omega, rfl, by simp only [matOf]; omega, hp.1⟩

theorem occIn_of_isOccQ {Q : PatSet α} {hay : List α} {s e : Nat} (he : e ≤ hay.length)
    {m : Mat} (h : IsOccQ Q hay s e m) :
    ∃ q st, OccIn Q ((hay.take e).drop s) q st ∧ m = matOf s q st ∧ st = m.start - s := by
  obtain ⟨q, hq, hpid, hs, hstop, hle, hp⟩ := h
  refine ⟨q, m.start - s, ⟨hq, ?_, ?_⟩, ?_, rfl⟩
  · rw [span_length he]; omega
  · rw [span_drop, List.prefix_take_iff]
    have : s + (m.start - s) = m.start := by omega
    rw [this]
    exact ⟨hp, by omega⟩
  · cases m
    simp only [matOf, Mat.mk.injEq] at *
    omega

theorem betterLL_of_prefLL {s : Nat} {q q' : List α × Nat} {st st' : Nat}
    (h : prefLL q st q' st') : betterLL (matOf s q st) (matOf s q' st') := by
  simp only [betterLL, matOf]
  rcases h with h | ⟨h1, h2 | ⟨h2, h3⟩⟩
  · left; omega
  · right; exact ⟨by omega, Or.inl (by omega)⟩
  · right; exact ⟨by omega, Or.inr ⟨by omega, h3⟩⟩

theorem isBestQ_of_bestIn {Q : PatSet α} {hay : List α} {s e : Nat} (he : e ≤ hay.length)
    (hse : s ≤ e)
    {anch : Bool} {r : Option Mat} (h : BestIn Q s anch ((hay.take e).drop s) r) :
    IsBestQ Q hay s e anch r := by
  cases r with
  | none =>
    intro m ⟨hm, ha⟩
    obtain ⟨q, st, ho, _, hst⟩ := occIn_of_isOccQ he hm
    exact h q st (fun h1 => by have := ha h1; omega) ho
  | some m =>
    obtain ⟨q, st, h0, ho, hm, hbest⟩ := h
    subst hm
    refine ⟨⟨isOccQ_of_occIn he hse ho, fun h1 => by simp only [matOf]; have := h0 h1; omega⟩, ?_⟩
    intro m' ⟨hm', ha'⟩
    obtain ⟨q', st', ho', hm'e, hst'⟩ := occIn_of_isOccQ he hm'
    subst hm'e
    exact betterLL_of_prefLL (hbest q' st' (fun h1 => by have := ha' h1; omega) ho')

theorem occOrNone_adm {Q : PatSet α} {hay : List α} {s e : Nat} (he : e ≤ hay.length)
    (hse : s ≤ e)
    {anch : Bool} {r : Option Mat} (h : OccOrNone Q s anch ((hay.take e).drop s) r) :
    ∀ m, r = some m → AdmQ Q hay s e anch m := by
  intro m hm
  obtain ⟨q, st, h0, ho, rfl⟩ := h m hm
  exact ⟨isOccQ_of_occIn he hse ho, fun h1 => by simp only [matOf]; have := h0 h1; omega⟩

/-! ## `.ll` -/

theorem isOccQ_ll_iff {P : List (List α)} {hay : List α} {s e : Nat} {m : Mat} :
    IsOccQ (patSet .ll P) hay s e m ↔ IsOcc P hay s e m := by
  constructor
  · rintro ⟨q, hq, hpid, h⟩
    refine ⟨q.1, ?_, h⟩
    rw [← hpid]; exact mem_patSet hq
  · rintro ⟨p, hp, h⟩
    exact ⟨(p, m.pid), List.mem_zipIdx_iff_getElem?.2 hp, rfl, h⟩

theorem isFind_ll_of_best {P : List (List α)} {hay : List α} {s e : Nat} {anch : Bool}
    {r : Option Mat} (h : IsBestQ (patSet .ll P) hay s e anch r) :
    IsFind .ll P hay s e anch r := by
  cases r with
  | none =>
    intro m ⟨hm, ha⟩
    exact h m ⟨isOccQ_ll_iff.2 hm, ha⟩
  | some m =>
    refine ⟨⟨isOccQ_ll_iff.1 h.1.1, h.1.2⟩, ?_⟩
    intro m' ⟨hm', ha'⟩
    exact h.2 m' ⟨isOccQ_ll_iff.2 hm', ha'⟩

/-! ## `.lf` -/

theorem keepLF_true {P : List (List α)} {q : List α × Nat} (h : keepLF P q = true) :
    ∀ i, i < q.2 → ∀ p', P[i]? = some p' → p' <+: q.1 → q.1.length ≤ p'.length := by
  intro i hi p' hp' hpre
  unfold keepLF at h
  simp only [Bool.not_eq_eq_eq_not, Bool.not_true, List.any_eq_false, List.mem_range] at h
  have := h i hi
  rw [hp'] at this
  apply Nat.le_of_not_lt
  intro hlt
  apply this
  rw [Bool.and_eq_true]
  exact ⟨List.isPrefixOf_iff_prefix.2 hpre, decide_eq_true hlt⟩

theorem keepLF_false {P : List (List α)} {q : List α × Nat} (h : keepLF P q = false) :
    ∃ i, i < q.2 ∧ ∃ p', P[i]? = some p' ∧ p' <+: q.1 ∧ p'.length < q.1.length := by
  unfold keepLF at h
  simp only [Bool.not_eq_eq_eq_not, Bool.not_false, List.any_eq_true, List.mem_range] at h
  obtain ⟨i, hi, hm⟩ := h
  refine ⟨i, hi, ?_⟩
  cases hp : P[i]? with
  | none => simp [hp] at hm
  | some p' =>
    simp only [hp, Bool.and_eq_true, List.isPrefixOf_iff_prefix, decide_eq_true_eq] at hm
    exact ⟨p', rfl, hm.1, hm.2⟩

/-- every pattern has a kept prefix with no larger id -/
theorem kept_prefix (P : List (List α)) (j : Nat) : ∀ p, P[j]? = some p →
    ∃ i p', i ≤ j ∧ P[i]? = some p' ∧ p' <+: p ∧ keepLF P (p', i) = true := by
  induction j using Nat.strongRecOn with
  | _ j ih =>
    intro p hp
    by_cases hk : keepLF P (p, j) = true
    · exact ⟨j, p, Nat.le_refl _, hp, List.prefix_refl _, hk⟩
    · obtain ⟨i, hi, p', hp', hpre, _⟩ := keepLF_false (by simpa using hk)
      obtain ⟨i', p'', hi', hp'', hpre', hk'⟩ := ih i hi p' hp'
      exact ⟨i', p'', by simp only at hi; omega, hp'', hpre'.trans hpre, hk'⟩

theorem mem_patSet_lf {P : List (List α)} {q : List α × Nat} :
    q ∈ patSet .lf P ↔ P[q.2]? = some q.1 ∧ keepLF P q = true := by
  simp only [patSet, enumPats, List.mem_filter, List.mem_zipIdx_iff_getElem?]

/-- every admissible occurrence has a kept admissible occurrence at the same start, ending no
later, with no larger id -/
theorem kept_occ {P : List (List α)} {hay : List α} {s e : Nat} {anch : Bool} {m : Mat}
    (h : IsOccA P hay s e anch m) :
    ∃ m', AdmQ (patSet .lf P) hay s e anch m' ∧ m'.start = m.start ∧ m'.stop ≤ m.stop ∧
      m'.pid ≤ m.pid := by
  obtain ⟨⟨p, hp, hs, hstop, hle, hpre⟩, ha⟩ := h
  obtain ⟨i, p', hi, hp', hpre', hk⟩ := kept_prefix P m.pid p hp
  have hl := hpre'.length_le
  refine ⟨⟨i, m.start, m.start + p'.length⟩, ⟨⟨(p', i), mem_patSet_lf.2 ⟨hp', hk⟩, rfl, hs, rfl,
    by simp only; omega, hpre'.trans hpre⟩, ha⟩, rfl, by simp only; omega, hi⟩

theorem isFind_lf_of_best {P : List (List α)} {hay : List α} {s e : Nat} {anch : Bool}
    {r : Option Mat} (h : IsBestQ (patSet .lf P) hay s e anch r) :
    IsFind .lf P hay s e anch r := by
  cases r with
  | none =>
    intro m hm
    obtain ⟨m', hm', _⟩ := kept_occ hm
    exact h m' hm'
  | some m =>
    obtain ⟨⟨⟨q, hq, hpid, hs, hstop, hle, hpre⟩, ha⟩, hbest⟩ := h
    have hq' := mem_patSet_lf.1 hq
    refine ⟨⟨⟨q.1, by rw [← hpid]; exact hq'.1, hs, hstop, hle, hpre⟩, ha⟩, ?_⟩
    intro m' hm'
    obtain ⟨m'', hm'', hst, hstop'', hpid''⟩ := kept_occ hm'
    have hb := hbest m'' hm''
    obtain ⟨⟨q2, hq2, hpid2, hs2, hstop2, hle2, hpre2⟩, _⟩ := hm''
    rcases hb with hb | ⟨hb1, hb2 | ⟨_, hb3⟩⟩
    · left; omega
    · right
      refine ⟨by omega, ?_⟩
      -- `m''` is strictly shorter than `m` at the same start: its pattern is a proper prefix
      apply Nat.le_trans _ hpid''
      apply Nat.le_of_not_lt
      intro hlt
      have hpp : q2.1 <+: q.1 := by
        rw [← hb1] at hpre2
        exact List.prefix_of_prefix_length_le hpre2 hpre (by omega)
      have := keepLF_true hq'.2 q2.2 (by omega) q2.1 (mem_patSet hq2) hpp
      omega
    · right; exact ⟨by omega, by omega⟩

end AcVerif.LmP
