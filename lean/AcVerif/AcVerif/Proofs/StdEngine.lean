import AcVerif.Proofs.Struct
/-!
# The prefilter-free search loops on a "standard-like" automaton

For an automaton whose special states are exactly the dead and the match
states, the `earliest` non-overlapping search and the stepwise overlapping
search are both read off one explicit list `allMatches`: per position, the
longest prefix of the state's match list that passes the anchored filter.
-/
namespace AcVerif.StdP
open AcVerif
variable {σ α : Type}

/-- what the generic loops need to know about the automaton -/
structure StdLike (A : Aut σ α) : Prop where
  special : ∀ q, A.isSpecial q = (A.isDead q || A.isMatch q)
  isMatch : ∀ q, A.isMatch q = !(A.mpats q).isEmpty
  dead_next : ∀ anch q c, A.isDead q = true → A.isDead (A.next anch q c) = true
  dead_out : ∀ q, A.isDead q = true → A.mpats q = []
  kind : A.kind = .std

/-- the match reported for pattern `pid` ending at `at_` -/
def mk (A : Aut σ α) (at_ : Nat) (pid : Nat) : Mat :=
  { pid := pid, start := at_ - A.patLen pid, stop := at_ }

/-- the anchored filter `!(anch && m.start > s)` -/
def okPid (A : Aut σ α) (s : Nat) (anch : Bool) (at_ : Nat) (pid : Nat) : Bool :=
  !(anch && decide ((mk A at_ pid).start > s))

theorem getMatch_eq (A : Aut σ α) (q : σ) (idx at_ : Nat) :
    getMatch A q idx at_ = mk A at_ ((A.mpats q).getD idx 0) := rfl

/-- matches reported while sitting in state `q` at position `at_` -/
def repAt (A : Aut σ α) (s : Nat) (anch : Bool) (q : σ) (at_ : Nat) : List Mat :=
  ((A.mpats q).takeWhile (okPid A s anch at_)).map (mk A at_)

/-- matches reported strictly after position `at_`, from state `q`, on the remaining text -/
def allRep (A : Aut σ α) (s : Nat) (anch : Bool) (q : σ) (at_ : Nat) : List α → List Mat
  | [] => []
  | c :: rest =>
    repAt A s anch (A.next anch q c) (at_ + 1) ++ allRep A s anch (A.next anch q c) (at_ + 1) rest

/-- every match of the search, in report order -/
def allMatches (A : Aut σ α) (s : Nat) (anch : Bool) (q0 : σ) (T : List α) : List Mat :=
  (A.mpats q0).map (mk A s) ++ allRep A s anch q0 s T

theorem repAt_dead {A : Aut σ α} (hA : StdLike A) (s : Nat) (anch : Bool) {q : σ}
    (hq : A.isDead q = true) (at_ : Nat) : repAt A s anch q at_ = [] := by
  simp [repAt, hA.dead_out q hq]

theorem allRep_dead {A : Aut σ α} (hA : StdLike A) (s : Nat) (anch : Bool) {q : σ}
    (hq : A.isDead q = true) (at_ : Nat) (rest : List α) : allRep A s anch q at_ rest = [] := by
  induction rest generalizing q at_ with
  | nil => rfl
  | cons c rest ih =>
    have h' := hA.dead_next anch q c hq
    simp [allRep, repAt_dead hA s anch h', ih h']

theorem repAt_nomatch {A : Aut σ α} (hA : StdLike A) (s : Nat) (anch : Bool) {q : σ}
    (hq : A.isMatch q = false) (at_ : Nat) : repAt A s anch q at_ = [] := by
  have := hA.isMatch q
  rw [hq] at this
  have h : A.mpats q = [] := by simpa using this.symm
  simp [repAt, h]

theorem mpats_cons_of_match {A : Aut σ α} (hA : StdLike A) {q : σ}
    (hq : A.isMatch q = true) : ∃ pid tl, A.mpats q = pid :: tl := by
  have := hA.isMatch q
  rw [hq] at this
  cases h : A.mpats q with
  | nil => simp [h] at this
  | cons pid tl => exact ⟨pid, tl, rfl⟩

/-! ## non-overlapping search -/

theorem findS_eq {A : Aut σ α} (hA : StdLike A) (s : Nat) (anch : Bool) (q : σ) (at_ : Nat)
    (rest : List α) :
    findS A s anch true q at_ none rest = (allRep A s anch q at_ rest).head? := by
  induction rest generalizing q at_ with
  | nil => rfl
  | cons c rest ih =>
    simp only [findS, allRep]
    rw [hA.special]
    cases hd : A.isDead (A.next anch q c) with
    | true =>
      simp [repAt_dead hA s anch hd, allRep_dead hA s anch hd]
    | false =>
      cases hm : A.isMatch (A.next anch q c) with
      | false =>
        simp [repAt_nomatch hA s anch hm, ih]
      | true =>
        obtain ⟨pid, tl, hp⟩ := mpats_cons_of_match hA hm
        simp only [Bool.false_or, if_true, Bool.false_eq_true, if_false, getMatch_eq, hp,
          List.getD_cons_zero]
        cases hok : okPid A s anch (at_ + 1) pid with
        | true =>
          have : (!(anch && decide ((mk A (at_ + 1) pid).start > s))) = true := hok
          simp [this, repAt, hp, hok]
        | false =>
          have : (!(anch && decide ((mk A (at_ + 1) pid).start > s))) = false := hok
          simp [this, repAt, hp, hok, ih]

theorem tryFindFwd_eq {A : Aut σ α} (hA : StdLike A) (i : Input α) {q0 : σ}
    (hq0 : A.start i.anch = some q0) (hd : i.isDone = false) :
    tryFindFwd A none i =
      .ok (allMatches A i.s i.anch q0 ((i.hay.take i.e).drop i.s)).head? := by
  have hk : (A.kind == MatchKind.std || i.earliest) = true := by simp [hA.kind]
  have key : findImp A i none i.anch true =
      .ok (allMatches A i.s i.anch q0 ((i.hay.take i.e).drop i.s)).head? := by
    simp only [findImp, hq0, Bool.and_true]
    cases hm : A.isMatch q0 with
    | true =>
      obtain ⟨pid, tl, hp⟩ := mpats_cons_of_match hA hm
      simp [allMatches, hp, getMatch_eq]
    | false =>
      have := hA.isMatch q0
      rw [hm] at this
      have h : A.mpats q0 = [] := by simpa using this.symm
      simp [allMatches, h, findLoop_eq_findS, findS_eq hA]
  simp only [tryFindFwd, hd, hk, Bool.false_eq_true, if_false]
  cases ha : i.anch with
  | true => simp only [if_true]; rw [ha] at key; exact key
  | false => simp only [Bool.false_eq_true, if_false]; rw [ha] at key; exact key

/-! ## overlapping search -/

/-- the matches that the calls following state `st` will report, in order -/
def pending (A : Aut σ α) (i : Input α) (q0 : σ) (st : OState σ) : List Mat :=
  match st.id with
  | Option.none =>
    ((A.mpats q0).drop (st.nextIdx.getD 0)).map (mk A i.s) ++
      allRep A i.s i.anch q0 i.s ((i.hay.take i.e).drop i.s)
  | some q =>
    match st.nextIdx with
    | some k =>
      (((A.mpats q).drop k).takeWhile (okPid A i.s i.anch (st.at_ + 1))).map (mk A (st.at_ + 1)) ++
        allRep A i.s i.anch q (st.at_ + 1) ((i.hay.take i.e).drop (st.at_ + 1))
    | Option.none => allRep A i.s i.anch q st.at_ ((i.hay.take i.e).drop st.at_)

theorem pending_start (A : Aut σ α) (i : Input α) (q0 : σ) :
    pending A i q0 OState.start = allMatches A i.s i.anch q0 ((i.hay.take i.e).drop i.s) := by
  simp [pending, OState.start, allMatches]

theorem ovlS_step {A : Aut σ α} (hA : StdLike A) (i : Input α) (q0 : σ) (q : σ) (at_ : Nat)
    (rest : List α) (hrest : rest = (i.hay.take i.e).drop at_) :
    (ovlS A i.s i.anch q at_ rest).mat = (allRep A i.s i.anch q at_ rest).head? ∧
    pending A i q0 (ovlS A i.s i.anch q at_ rest) = (allRep A i.s i.anch q at_ rest).tail := by
  induction rest generalizing q at_ with
  | nil =>
    simp only [ovlS, allRep, pending, ← hrest]
    simp
  | cons c rest ih =>
    have hrest' : rest = (i.hay.take i.e).drop (at_ + 1) := by
      rw [← List.tail_drop, ← hrest]; rfl
    simp only [ovlS, allRep]
    rw [hA.special]
    cases hd : A.isDead (A.next i.anch q c) with
    | true =>
      simp only [Bool.true_or, if_true, pending, ← hrest, allRep]
      have h' := hA.dead_next i.anch _ c hd
      simp [repAt_dead hA i.s i.anch hd, allRep_dead hA i.s i.anch hd,
        repAt_dead hA i.s i.anch h', allRep_dead hA i.s i.anch h']
    | false =>
      cases hm : A.isMatch (A.next i.anch q c) with
      | false =>
        simp only [Bool.or_self, Bool.false_eq_true, if_false, repAt_nomatch hA i.s i.anch hm,
          List.nil_append]
        exact ih _ _ hrest'
      | true =>
        obtain ⟨pid, tl, hp⟩ := mpats_cons_of_match hA hm
        simp only [Bool.false_or, if_true, Bool.false_eq_true, if_false, getMatch_eq, hp,
          List.getD_cons_zero]
        cases hok : okPid A i.s i.anch (at_ + 1) pid with
        | true =>
          have : (!(i.anch && decide ((mk A (at_ + 1) pid).start > i.s))) = true := hok
          simp [this, repAt, hp, hok, pending, ← hrest']
        | false =>
          have : (!(i.anch && decide ((mk A (at_ + 1) pid).start > i.s))) = false := hok
          simp only [this, Bool.false_eq_true, if_false, repAt, hp, hok,
            List.takeWhile_cons_of_neg, List.map_nil, List.nil_append, not_false_eq_true]
          exact ih _ _ hrest'

theorem ovl_step {A : Aut σ α} (hA : StdLike A) (i : Input α) {q0 : σ}
    (hq0 : A.start i.anch = some q0) (hd : i.isDone = false) (st : OState σ) :
    ∃ st', tryFindOverlappingFwd A none i st = .ok st' ∧
      st'.mat = (pending A i q0 st).head? ∧ pending A i q0 st' = (pending A i q0 st).tail := by
  have hk : (A.kind != MatchKind.std) = false := by simp [hA.kind]
  have h1 : tryFindOverlappingFwd A none i st = ovlImp A i none { st with mat := Option.none } := by
    simp only [tryFindOverlappingFwd, hk, hd, Bool.false_eq_true, if_false]
    split <;> rfl
  rw [h1]
  obtain ⟨mat, id, at_, nextIdx⟩ := st
  cases id with
  | none =>
    simp only [ovlImp, hq0]
    split
    · rename_i hc
      simp only [Bool.and_eq_true, decide_eq_true_eq] at hc
      have hdrop := List.drop_eq_getElem_cons hc.2
      have hget : (A.mpats q0).getD (nextIdx.getD 0) 0 = (A.mpats q0)[nextIdx.getD 0] := by
        rw [List.getD_eq_getElem?_getD, List.getElem?_eq_getElem hc.2]; rfl
      refine ⟨_, rfl, ?_, ?_⟩
      · simp only [pending, getMatch_eq, hget]
        rw [hdrop]; rfl
      · simp only [pending, Option.getD_some]
        rw [hdrop]; rfl
    · rename_i hc
      have hnil : (A.mpats q0).drop (nextIdx.getD 0) = [] := by
        cases hm : A.isMatch q0 with
        | false =>
          have := hA.isMatch q0
          rw [hm] at this
          have h : A.mpats q0 = [] := by simpa using this.symm
          simp [h]
        | true =>
          simp only [hm, Bool.true_and, decide_eq_true_eq] at hc
          exact List.drop_eq_nil_of_le (by omega)
      refine ⟨_, rfl, ?_⟩
      rw [ovlLoop_eq_ovlS]
      have := ovlS_step hA i q0 q0 i.s _ rfl
      simpa [pending, hnil] using this
  | some q =>
    cases nextIdx with
    | none =>
      simp only [ovlImp]
      refine ⟨_, rfl, ?_⟩
      rw [ovlLoop_eq_ovlS]
      have := ovlS_step hA i q0 q at_ _ rfl
      simpa [pending] using this
    | some k =>
      simp only [ovlImp]
      split
      · rename_i hc
        simp only [Bool.and_eq_true, decide_eq_true_eq] at hc
        have hdrop := List.drop_eq_getElem_cons hc.1
        have hget : (A.mpats q).getD k 0 = (A.mpats q)[k] := by
          rw [List.getD_eq_getElem?_getD, List.getElem?_eq_getElem hc.1]; rfl
        have hok : okPid A i.s i.anch (at_ + 1) (A.mpats q)[k] = true := by
          have := hc.2
          rw [getMatch_eq, hget] at this
          exact this
        refine ⟨_, rfl, ?_, ?_⟩
        · simp only [pending, getMatch_eq, hget]
          rw [hdrop, List.takeWhile_cons_of_pos hok]; rfl
        · simp only [pending]
          rw [hdrop, List.takeWhile_cons_of_pos hok]; rfl
      · rename_i hc
        have hnil : (((A.mpats q).drop k).takeWhile (okPid A i.s i.anch (at_ + 1))) = [] := by
          by_cases hlt : k < (A.mpats q).length
          · have hget : (A.mpats q).getD k 0 = (A.mpats q)[k] := by
              rw [List.getD_eq_getElem?_getD, List.getElem?_eq_getElem hlt]; rfl
            have hok : okPid A i.s i.anch (at_ + 1) (A.mpats q)[k] = false := by
              simp only [hlt, decide_true, Bool.true_and, getMatch_eq, hget] at hc
              simpa [okPid] using hc
            rw [List.drop_eq_getElem_cons hlt, List.takeWhile_cons_of_neg (by simp [hok])]
          · simp [List.drop_eq_nil_of_le (Nat.le_of_not_lt hlt)]
        refine ⟨_, rfl, ?_⟩
        rw [ovlLoop_eq_ovlS]
        have := ovlS_step hA i q0 q (at_ + 1) _ rfl
        simpa [pending, hnil] using this

theorem ovlCalls_eq {A : Aut σ α} (hA : StdLike A) (i : Input α) {q0 : σ}
    (hq0 : A.start i.anch = some q0) (hd : i.isDone = false) (n : Nat) (st : OState σ) :
    ovlCalls A none i n st =
      ((pending A i q0 st).take n).map (fun m => Except.ok (some m)) ++
        List.replicate (n - (pending A i q0 st).length) (Except.ok Option.none) := by
  induction n generalizing st with
  | zero => simp [ovlCalls]
  | succ n ih =>
    obtain ⟨st', h1, h2, h3⟩ := ovl_step hA i hq0 hd st
    simp only [ovlCalls, h1]
    rw [ih st', h2, h3]
    cases pending A i q0 st with
    | nil => simp [List.replicate_succ]
    | cons m r => simp

theorem ovlIterAux_eq {A : Aut σ α} (hA : StdLike A) (i : Input α) {q0 : σ}
    (hq0 : A.start i.anch = some q0) (hd : i.isDone = false) (fuel : Nat) (st : OState σ)
    (hf : (pending A i q0 st).length < fuel) :
    ovlIterAux A none i fuel st = pending A i q0 st := by
  induction fuel generalizing st with
  | zero => omega
  | succ n ih =>
    obtain ⟨st', h1, h2, h3⟩ := ovl_step hA i hq0 hd st
    simp only [ovlIterAux, h1]
    cases hp : pending A i q0 st with
    | nil => simp [hp] at h2; simp [h2]
    | cons m r =>
      rw [hp] at h2 h3 hf
      simp only [List.head?_cons] at h2
      simp only [List.tail_cons] at h3
      simp only [h2]
      rw [ih st' (by rw [h3]; simpa using hf), h3]

/-! ## the `is_done` early return -/

theorem ovlCalls_done {A : Aut σ α} (hA : StdLike A) (i : Input α) {q0 : σ}
    (hq0 : A.start i.anch = some q0) (hd : i.isDone = true)
    (n : Nat) (st : OState σ) :
    ovlCalls A none i n st = List.replicate n (Except.ok Option.none) := by
  have hk : (A.kind != MatchKind.std) = false := by simp [hA.kind]
  induction n generalizing st with
  | zero => rfl
  | succ n ih =>
    simp [ovlCalls, tryFindOverlappingFwd, hk, hd, hq0, ih, List.replicate_succ]

theorem ovlIterAux_done {A : Aut σ α} (hA : StdLike A) (i : Input α) {q0 : σ}
    (hq0 : A.start i.anch = some q0) (hd : i.isDone = true)
    (n : Nat) (st : OState σ) : ovlIterAux A none i n st = [] := by
  have hk : (A.kind != MatchKind.std) = false := by simp [hA.kind]
  cases n with
  | zero => rfl
  | succ n => simp [ovlIterAux, tryFindOverlappingFwd, hk, hd, hq0]

end AcVerif.StdP
