import AcVerif.Proofs.CompilerFoldStart
/-!
# L1c with `fold = true`, part 3: `fill_failure_transitions` with its `seen` set

The transition list of a node lists each child once or twice (on a letter and on its opposite
case), in byte order; the second visit is skipped because the child is in `seen`.  The order in
which the children are enqueued may differ from the byte order of the folded trie; the
specification-level invariants (`FI`, `QI`, `QI'`) do not depend on it.
-/
namespace AcVerif.L1cFoldP
open AcVerif AcVerif.CNfa AcVerif.L1cP AcVerif.MiscP AcVerif.LmP

/-! ## queue lemmas over `PBf` -/

section
variable {Q : PatSet UInt8} {L : List (List UInt8)} {n0 : CNfa}

theorem QI_low (hB : PBf Q L n0) {Us pend : List (List UInt8)} {u : List UInt8}
    (h : QI L (u :: Us) pend) : ∀ (m : Nat) (v : List UInt8), v.length ≤ m → v ∈ L →
      v.length ≤ u.length → v ∉ pend := by
  intro m
  induction m with
  | zero =>
    intro v hv hvL _
    have : v = [] := List.eq_nil_of_length_eq_zero (by omega)
    exact absurd (this ▸ hvL) hB.nil_not_mem
  | succ m ih =>
    intro v hv hvL hvu
    rcases List.eq_nil_or_concat v with e | ⟨p, b, e⟩
    · exact absurd (e ▸ hvL) hB.nil_not_mem
    · rw [List.concat_eq_append] at e
      subst e
      simp only [List.length_append, List.length_singleton] at hv hvu
      rcases hB.closed hvL with h0 | hp
      · subst h0; exact h.d1 b hvL
      · rw [h.step p b hp hvL]
        refine ⟨ih p (by omega) hp (by omega), ?_⟩
        intro hm
        have hsort := List.pairwise_cons.1 h.sorted
        rcases List.mem_cons.1 hm with e | e
        · subst e; omega
        · have := hsort.1 p e; omega

theorem QI_pop (hB : PBf Q L n0) {Us pend : List (List UInt8)} {u : List UInt8}
    (h : QI L (u :: Us) pend) (keys : List UInt8) (hkeys : ∀ b, u ++ [b] ∈ L → b ∈ keys) :
    QI' L Us pend u keys := by
  have hsort := List.pairwise_cons.1 h.sorted
  have hnd := List.nodup_cons.1 h.nodup
  have hu := h.q1 u List.mem_cons_self
  refine
    { q1 := fun x hx => h.q1 x (List.mem_cons_of_mem _ hx), sorted := hsort.2, nodup := hnd.2,
      range := ?_, pnodup := h.pnodup, d1 := h.d1, step := ?_, cur := ⟨hu.1, hu.2, hnd.1⟩,
      low := fun v hv hvl => QI_low hB h v.length v (Nat.le_refl _) hv hvl }
  · intro x hx
    exact ⟨hsort.1 x hx, h.range u List.mem_cons_self x (List.mem_cons_of_mem _ hx)⟩
  · intro p b hp hpb
    rw [h.step p b hp hpb]
    by_cases e : p = u
    · subst e
      constructor
      · intro hh; exact absurd List.mem_cons_self hh.2
      · intro hh; exact absurd ⟨rfl, hkeys b hpb⟩ hh.2.2
    · constructor
      · rintro ⟨h1, h2⟩
        exact ⟨h1, fun hm => h2 (List.mem_cons_of_mem _ hm), fun hh => e hh.1⟩
      · rintro ⟨h1, h2, _⟩
        refine ⟨h1, fun hm => ?_⟩
        rcases List.mem_cons.1 hm with e' | e'
        · exact e e'
        · exact h2 e'

theorem QI_done_all (hB : PBf Q L n0) {pend : List (List UInt8)} (h : QI L [] pend) :
    ∀ (m : Nat) (v : List UInt8), v.length ≤ m → v ∈ L → v ∉ pend := by
  intro m
  induction m with
  | zero =>
    intro v hv hvL
    have : v = [] := List.eq_nil_of_length_eq_zero (by omega)
    exact absurd (this ▸ hvL) hB.nil_not_mem
  | succ m ih =>
    intro v hv hvL
    rcases List.eq_nil_or_concat v with e | ⟨p, b, e⟩
    · exact absurd (e ▸ hvL) hB.nil_not_mem
    · rw [List.concat_eq_append] at e
      subst e
      simp only [List.length_append, List.length_singleton] at hv
      rcases hB.closed hvL with h0 | hp
      · subst h0; exact h.d1 b hvL
      · rw [h.step p b hp hvL]
        exact ⟨ih p (by omega) hp, by simp⟩

end

/-- `QI'` depends on the list of bytes still to come only through membership -/
theorem QI'_congr {L Us pend : List (List UInt8)} {u : List UInt8} {K K' : List UInt8}
    (h : QI' L Us pend u K) (hK : ∀ b, b ∈ K ↔ b ∈ K') : QI' L Us pend u K' :=
  { q1 := h.q1, sorted := h.sorted, nodup := h.nodup, range := h.range, pnodup := h.pnodup,
    d1 := h.d1, cur := h.cur, low := h.low,
    step := fun p b hp hpb => by rw [h.step p b hp hpb, hK] }

/-- the `seen` set holds exactly the ids of the nodes that are no longer pending -/
def SeenI (L pend : List (List UInt8)) (seen : List Nat) : Prop :=
  ∀ s, s ∈ seen ↔ ∃ x, x ∈ L ∧ x ∉ pend ∧ s = nu L x

theorem SeenI.erase {L pend : List (List UInt8)} {seen : List Nat} (h : SeenI L pend seen)
    (hnd : pend.Nodup) {c : List UInt8} (hc : c ∈ L) :
    SeenI L (pend.erase c) (nu L c :: seen) := by
  intro s
  rw [List.mem_cons, h s]
  constructor
  · rintro (e | ⟨x, hx, hxp, e⟩)
    · exact ⟨c, hc, fun hm => (hnd.mem_erase_iff.1 hm).1 rfl, e⟩
    · exact ⟨x, hx, fun hm => hxp (hnd.mem_erase_iff.1 hm).2, e⟩
  · rintro ⟨x, hx, hxp, e⟩
    by_cases exc : x = c
    · left; rw [e, exc]
    · right; exact ⟨x, hx, fun hm => hxp (hnd.mem_erase_iff.2 ⟨exc, hm⟩), e⟩

theorem SeenI.contains {Q : PatSet UInt8} {L pend : List (List UInt8)} {n0 : CNfa}
    {seen : List Nat} (_hB : PBf Q L n0)
    (h : SeenI L pend seen) {c : List UInt8} (hc : c ∈ L) :
    seen.contains (nu L c) = !decide (c ∈ pend) := by
  by_cases hp : c ∈ pend
  · have : seen.contains (nu L c) = false := by
      cases hh : seen.contains (nu L c)
      · rfl
      · exfalso
        rw [List.contains_iff_mem] at hh
        obtain ⟨x, hx, hxp, e⟩ := (h _).1 hh
        have := nu_inj (Or.inr hc) (Or.inr hx) e
        subst this; exact hxp hp
    rw [this]; simp [hp]
  · have : seen.contains (nu L c) = true := by
      rw [List.contains_iff_mem]
      exact (h _).2 ⟨c, hc, hp, rfl⟩
    rw [this]; simp [hp]

/-! ## one child in the second loop -/

theorem fillState_cons_t (lm sim : Bool) (id : Nat) (b : UInt8) (next : Nat)
    (rest : List (UInt8 × Nat)) (n : CNfa) (queue seen : List Nat) :
    fillState lm sim true id ((b, next) :: rest) (n, queue, seen) =
      if seen.contains next = true then fillState lm sim true id rest (n, queue, seen)
      else fillState lm sim true id rest
        (procChild lm sim n id b next, queue ++ [next], next :: seen) := by
  rw [fillState]
  simp only [Bool.true_and, if_true]
  unfold procChild
  split
  · rfl
  · split <;> rfl

section
variable {k : MatchKind} {Q : PatSet UInt8} {L : List (List UInt8)} {n0 n : CNfa}
  {pend Us : List (List UInt8)}

theorem procChild_FI_f (hB : PBf Q L n0) (h : FI k Q L n0 n pend) {u : List UInt8} {c b : UInt8}
    (hcb : foldByte c = b)
    {rest : List UInt8} (hq : QI' L Us pend u (b :: rest)) (hc : u ++ [b] ∈ L) :
    FI k Q L n0
      (procChild k.isLeftmost (!(idsOf Q []).isEmpty) n (nu L u) c (nu L (u ++ [b])))
      (pend.erase (u ++ [b])) := by
  have hcp := hq.pending hc
  have htodo := h.todo _ hc hcp
  have hlt : nu L (u ++ [b]) < n.size := by rw [h.size]; exact hB.nu_lt_size (Or.inr hc)
  have hu := hq.cur
  obtain ⟨a, t, rfl⟩ : ∃ a t, u = a :: t := by
    cases u with
    | nil => exact absurd hu.1 hB.nil_not_mem
    | cons a t => exact ⟨a, t, rfl⟩
  have him : isMatch n (nu L (a :: t ++ [b])) = !(idsOf Q (a :: t ++ [b])).isEmpty := by
    rw [isMatch_eq, htodo.2]
  unfold procChild
  rw [him]
  by_cases hcond : (k.isLeftmost &&
      (!(idsOf Q []).isEmpty || !(idsOf Q (a :: t ++ [b])).isEmpty)) = true
  · rw [if_pos hcond]
    simp only [Bool.and_eq_true, Bool.or_eq_true, Bool.not_eq_true', List.isEmpty_eq_false_iff]
      at hcond
    obtain ⟨hlm, hids⟩ := hcond
    have hk : k ≠ .std := (isLeftmost_eq_true k).1 hlm
    have hget := getD_setFail n _ DEAD hlt
    apply FIf.update hB h hq.pnodup hc (by rw [Array.size_modify])
    · intro sid hs; rw [hget, if_neg hs]
    · rw [hget, if_pos rfl]
    · rw [hget, if_pos rfl]
      have e : (a :: t ++ [b]) = a :: (t ++ [b]) := rfl
      rw [e, finalFail_dead k Q a (t ++ [b]) hk hids]; rfl
    · rw [hget, if_pos rfl]
      show (n.getD (nu L (a :: t ++ [b])) {}).matches_ = _
      rw [htodo.2, out_self k Q _ hk hids]
  · rw [if_neg hcond]
    have hk : k = .std ∨ (idsOf Q [] = [] ∧ idsOf Q (a :: t ++ [b]) = []) := by
      by_cases hstd : k = .std
      · exact Or.inl hstd
      · right
        have hlm := (isLeftmost_eq_true k).2 hstd
        rw [hlm] at hcond
        simp only [Bool.true_and, Bool.or_eq_true, Bool.not_eq_true', List.isEmpty_eq_false_iff,
          not_or, Decidable.not_not] at hcond
        exact hcond
    have hk1 : k = .std ∨ idsOf Q [] = [] := hk.imp id And.left
    have hk2 : k = .std ∨ idsOf Q (a :: t ++ [b]) = [] := hk.imp id And.right
    -- the failure target
    have hudone := h.done _ hu.1 hu.2.1
    have hlen := hB.len_lt_size (Or.inr hu.1)
    have hl := lsp_length_le Q t
    have hf : follow n (chaseFail n c n.size (n.getD (nu L (a :: t)) {}).fail) c =
        sidOf L (finalFail k Q (a :: t ++ [b])) := by
      rw [hudone.1, ← fail_child k Q a t b hk2]
      rcases finalFail_len k Q a t with e | e
      · rw [e]
        have hd : follow n DEAD c = DEAD := by rw [h.follow_eq0]; exact hB.goto_dead c
        show follow n (chaseFail n c n.size DEAD) c = DEAD
        rw [chaseFail_stop _ _ _ _ (by rw [hd]; simp [DEAD, FAIL]), hd]
      · rw [e]
        simp only [List.length_cons] at hlen
        have := chase_spec_f hB h hk1 c (lsp Q t).length (lsp Q t) (Nat.le_refl _) (hB.lsp_mem t)
          (fun v hv hvl => hq.low v hv (by simp only [List.length_cons]; omega)) n.size
          (by rw [h.size]; omega)
        rw [hcb] at this
        exact this
    -- its match list
    have hfm : (n.getD (sidOf L (finalFail k Q (a :: t ++ [b]))) {}).matches_ =
        Ideal.out k Q (finalFail k Q (a :: t ++ [b])) := by
      apply FIf.mats_sidOf hB h
      have e : (a :: t ++ [b]) = a :: (t ++ [b]) := rfl
      rcases finalFail_len k Q a (t ++ [b]) with e' | e'
      · rw [e, e']; trivial
      · rw [e, e']
        show lsp Q (t ++ [b]) = [] ∨ _
        rcases hB.lsp_mem (t ++ [b]) with h0 | hm
        · exact Or.inl h0
        · right
          refine ⟨hm, hq.low _ hm ?_⟩
          have := lsp_length_le Q (t ++ [b])
          simp only [List.length_append, List.length_cons] at this ⊢
          exact this
    simp only []
    rw [hf]
    have hget := getD_setFail_copy n (nu L (a :: t ++ [b]))
      (sidOf L (finalFail k Q (a :: t ++ [b]))) hlt
    apply FIf.update hB h hq.pnodup hc (size_setFail_copy _ _ _)
    · intro sid hs; rw [hget, if_neg hs]
    · rw [hget, if_pos rfl]
    · rw [hget, if_pos rfl]
    · rw [hget, if_pos rfl]
      show (n.getD (nu L (a :: t ++ [b])) {}).matches_ ++ _ = _
      rw [htodo.2, hfm]
      exact out_child k Q a (t ++ [b]) hk2

/-- the inner loop of the second phase, with the `seen` set: `K` lists (once each) the folded
bytes of the children that are still to be enqueued -/
theorem fillState_spec_f (hB : PBf Q L n0) (u : List UInt8) :
    ∀ (rest : List (UInt8 × Nat)) (n : CNfa) (Us pend : List (List UInt8)) (seen : List Nat)
      (K : List UInt8),
      FI k Q L n0 n pend → QI' L Us pend u K → K.Nodup →
      (∀ b, b ∈ K → ∃ x, x ∈ rest ∧ foldByte x.1 = b) →
      (∀ x, x ∈ rest → x ∈ (n0.getD (nu L u) {}).trans) → SeenI L pend seen →
      ∃ n' Us' pend' seen',
        fillState k.isLeftmost (!(idsOf Q []).isEmpty) true (nu L u) rest
            (n, Us.map (nu L), seen) = (n', Us'.map (nu L), seen') ∧
          FI k Q L n0 n' pend' ∧ QI' L Us' pend' u [] ∧ SeenI L pend' seen' ∧
          Us'.length + pend'.length = Us.length + pend.length
  | [], n, Us, pend, seen, K, h, hq, _, hK, _, hseen => by
    have hK0 : ∀ b, b ∈ K ↔ b ∈ ([] : List UInt8) := by
      intro b
      constructor
      · intro hb; obtain ⟨x, hx, _⟩ := hK b hb; simp at hx
      · intro hb; simp at hb
    exact ⟨n, Us, pend, seen, by rw [fillState], h, QI'_congr hq hK0, hseen, rfl⟩
  | (c, next) :: rest, n, Us, pend, seen, K, h, hq, hnd, hK, hsub, hseen => by
    have hx := hB.child_of_mem hq.cur.1 (hsub _ List.mem_cons_self)
    obtain ⟨hc, hnext⟩ := hx
    simp only at hc hnext
    rw [fillState_cons_t, hnext, hseen.contains hB hc]
    by_cases hcp : u ++ [foldByte c] ∈ pend
    · -- first visit of this child
      have hcK : foldByte c ∈ K := by
        apply Classical.byContradiction
        intro hn
        have := (hq.step u (foldByte c) hq.cur.1 hc).2
          ⟨hq.cur.2.1, hq.cur.2.2, fun hh => hn hh.2⟩
        exact this hcp
      have hq1 : QI' L Us pend u (foldByte c :: K.erase (foldByte c)) := by
        apply QI'_congr hq
        intro b
        rw [List.mem_cons, hnd.mem_erase_iff]
        constructor
        · intro hb
          by_cases e : b = foldByte c
          · exact Or.inl e
          · exact Or.inr ⟨e, hb⟩
        · rintro (e | ⟨_, hb⟩)
          · rw [e]; exact hcK
          · exact hb
      have hnotin : foldByte c ∉ K.erase (foldByte c) := by
        rw [hnd.mem_erase_iff]; exact fun hh => hh.1 rfl
      have h' := procChild_FI_f hB h rfl hq1 hc
      have hq' := hq1.push hnotin hc
      have hseen' := hseen.erase hq.pnodup hc
      obtain ⟨n', Us', pend', seen', e, hF, hQ, hS, hcount⟩ :=
        fillState_spec_f hB u rest _ _ _ _ (K.erase (foldByte c)) h' hq' (hnd.erase _)
          (by
            intro b hb
            rw [hnd.mem_erase_iff] at hb
            obtain ⟨x, hx, hxb⟩ := hK b hb.2
            rcases List.mem_cons.1 hx with e | e
            · rw [e] at hxb; exact absurd hxb.symm hb.1
            · exact ⟨x, e, hxb⟩)
          (fun x hx => hsub x (List.mem_cons_of_mem _ hx)) hseen'
      refine ⟨n', Us', pend', seen', ?_, hF, hQ, hS, ?_⟩
      · simp only [hcp, decide_true, Bool.not_true, Bool.false_eq_true, if_false]
        rw [← e, List.map_append]; rfl
      · rw [hcount, List.length_append, List.length_singleton, List.length_erase_of_mem hcp]
        have := List.length_pos_of_mem hcp
        omega
    · -- the child was reached through its other edge already
      simp only [hcp, decide_false, Bool.not_false, if_true]
      apply fillState_spec_f hB u rest n Us pend seen K h hq hnd _
        (fun x hx => hsub x (List.mem_cons_of_mem _ hx)) hseen
      intro b hb
      obtain ⟨x, hx, hxb⟩ := hK b hb
      rcases List.mem_cons.1 hx with e | e
      · exfalso
        rw [e] at hxb
        simp only at hxb
        have := (hq.step u (foldByte c) hq.cur.1 hc).1 hcp
        exact this.2.2 ⟨rfl, by rw [hxb]; exact hb⟩
      · exact ⟨x, e, hxb⟩

/-- the breadth-first loop -/
theorem bfs_spec_f (hB : PBf Q L n0) :
    ∀ (fuel : Nat) (n : CNfa) (Us pend : List (List UInt8)) (seen : List Nat),
      FI k Q L n0 n pend → QI L Us pend → SeenI L pend seen → Us.length + pend.length < fuel →
      ∃ pend', FI k Q L n0
          (bfs k.isLeftmost (!(idsOf Q []).isEmpty) true fuel (n, Us.map (nu L), seen)) pend' ∧
        ∀ v, v ∈ L → v ∉ pend'
  | 0, _, _, _, _, _, _, _, hf => absurd hf (Nat.not_lt_zero _)
  | fuel + 1, n, [], pend, seen, h, hq, _, _ => by
    refine ⟨pend, ?_, fun v hv => QI_done_all hB hq v.length v (Nat.le_refl _) hv⟩
    simp only [List.map_nil, bfs]; exact h
  | fuel + 1, n, u :: Us, pend, seen, h, hq, hseen, hf => by
    have hu := hq.q1 u List.mem_cons_self
    simp only [List.map_cons, bfs]
    rw [h.trans]
    have hKnd : (((n0.getD (nu L u) {}).trans.map (·.1)).filter
        (fun b => foldByte b == b)).Nodup := (sorted_keys_nodup (hB.sorted _)).filter _
    have hq' := QI_pop hB hq (((n0.getD (nu L u) {}).trans.map (·.1)).filter
        (fun b => foldByte b == b)) (by
      intro b hb
      rw [List.mem_filter]
      refine ⟨List.mem_map.2 ⟨_, hB.mem_of_child (Or.inr hu.1) hb, rfl⟩, ?_⟩
      simpa using hB.last_folded hb)
    obtain ⟨n', Us', pend', seen', e, hF, hQ, hS, hcount⟩ :=
      fillState_spec_f hB u _ n Us pend seen _ h hq' hKnd (by
          intro b hb
          rw [List.mem_filter] at hb
          obtain ⟨x, hx, hxb⟩ := List.mem_map.1 hb.1
          refine ⟨x, hx, ?_⟩
          rw [hxb]; simpa using hb.2)
        (fun x hx => hx) hseen
    rw [e]
    exact bfs_spec_f hB fuel n' Us' pend' seen' hF hQ.finish hS (by
      simp only [List.length_cons] at hf; omega)

/-! ## the first loop (children of the start state) -/

/-- bookkeeping of the first loop -/
structure SIf (L Us pend : List (List UInt8)) : Prop where
  pnodup : pend.Nodup
  us : ∀ x, x ∈ Us → ∃ b : UInt8, x = [b] ∧ [b] ∈ L
  pd : ∀ v, v ∈ L → (v ∉ pend ↔ v ∈ Us)
  nodup : Us.Nodup
  count : Us.length + pend.length = L.length

theorem procStart_FI_f (hB : PBf Q L n0) (h : FI k Q L n0 n pend) (hnd : pend.Nodup) {b : UInt8}
    (hc : [b] ∈ L) (hcp : [b] ∈ pend) :
    FI k Q L n0 (procStart k.isLeftmost (!(idsOf Q []).isEmpty) n (nu L [b]))
      (pend.erase [b]) := by
  have htodo := h.todo _ hc hcp
  have hlt : nu L [b] < n.size := by rw [h.size]; exact hB.nu_lt_size (Or.inr hc)
  have him : isMatch n (nu L [b]) = !(idsOf Q [b]).isEmpty := by rw [isMatch_eq, htodo.2]
  have hSU : (n.getD SU {}).matches_ = idsOf Q [] := by
    rw [h.keep SU (by simp [SU])]
    have := hB.mats [] (Or.inl rfl)
    rw [nu_nil] at this; exact this
  unfold procStart
  rw [him]
  by_cases hstd : k = .std
  · subst hstd
    simp only [MatchKind.isLeftmost, Bool.false_and, Bool.false_eq_true, if_false, Bool.not_false,
      if_true]
    have hget := getD_copyMatches n SU (nu L [b]) hlt
    apply FIf.update hB h hnd hc (by unfold copyMatches; rw [Array.size_modify])
    · intro sid hs; rw [hget, if_neg hs]
    · rw [hget, if_pos rfl]
    · rw [hget, if_pos rfl, finalFail_single]
      simp only [MatchKind.isLeftmost, Bool.false_and, Bool.false_eq_true, if_false, sidOf, nu_nil]
      exact htodo.1
    · rw [hget, if_pos rfl, out_single]
      simp only [MatchKind.isLeftmost, Bool.false_eq_true, if_false]
      show (n.getD (nu L [b]) {}).matches_ ++ (n.getD SU {}).matches_ = _
      rw [htodo.2, hSU]
  · have hlm := (isLeftmost_eq_true k).2 hstd
    simp only [hlm, Bool.true_and, Bool.not_true, Bool.false_eq_true, if_false]
    by_cases hcond : (!(idsOf Q []).isEmpty || !(idsOf Q [b]).isEmpty) = true
    · rw [if_pos hcond]
      have hget := getD_setFail n (nu L [b]) DEAD hlt
      apply FIf.update hB h hnd hc (by rw [Array.size_modify])
      · intro sid hs; rw [hget, if_neg hs]
      · rw [hget, if_pos rfl]
      · rw [hget, if_pos rfl, finalFail_single, hlm, Bool.true_and, if_pos hcond]; rfl
      · rw [hget, if_pos rfl, out_single, if_pos hlm]
        exact htodo.2
    · rw [if_neg hcond]
      apply FIf.update hB h hnd hc rfl
      · intro sid _; rfl
      · rfl
      · rw [finalFail_single, hlm, Bool.true_and, if_neg hcond]
        simp only [sidOf, nu_nil]; exact htodo.1
      · rw [out_single, if_pos hlm]; exact htodo.2

theorem fillStart_spec_f (hB : PBf Q L n0) :
    ∀ (rest : List (UInt8 × Nat)) (n : CNfa) (Us pend : List (List UInt8)) (seen : List Nat),
      FI k Q L n0 n pend → SIf L Us pend → SeenI L pend seen →
      (∀ x, x ∈ rest → x ∈ (n0.getD SU {}).trans) →
      ∃ n' Us' pend' seen',
        fillStart k.isLeftmost (!(idsOf Q []).isEmpty) rest (n, Us.map (nu L), seen) =
            (n', Us'.map (nu L), seen') ∧
          FI k Q L n0 n' pend' ∧ SIf L Us' pend' ∧ SeenI L pend' seen' ∧
          (∀ v, v ∉ pend → v ∉ pend') ∧
          (∀ x, x ∈ rest → [foldByte x.1] ∈ L → [foldByte x.1] ∉ pend')
  | [], n, Us, pend, seen, h, hs, hseen, _ =>
    ⟨n, Us, pend, seen, by rw [fillStart], h, hs, hseen, fun _ hv => hv, fun x hx => by simp at hx⟩
  | (c, next) :: rest, n, Us, pend, seen, h, hs, hseen, hsub => by
    rw [fillStart_cons]
    rcases hB.root_of_mem (hsub _ List.mem_cons_self) with ⟨hc, hnext⟩ | ⟨hc, hnext⟩
    · simp only at hc hnext
      subst hnext
      have hn1 : (nu L [foldByte c] == SU) = false := by
        have := nu_ge (L := L) (u := [foldByte c]) (by simp)
        simp only [SU, beq_eq_false_iff_ne, ne_eq]; omega
      rw [hn1, hseen.contains hB hc]
      by_cases hcp : [foldByte c] ∈ pend
      · -- first visit of this child of the start state
        simp only [hcp, decide_true, Bool.not_true, Bool.or_self, Bool.false_eq_true, if_false]
        have hcU : [foldByte c] ∉ Us := fun hm => (hs.pd _ hc).2 hm hcp
        have h' := procStart_FI_f hB h hs.pnodup hc hcp
        have hmem : ∀ x, x ∈ pend.erase [foldByte c] ↔ x ≠ [foldByte c] ∧ x ∈ pend := fun x =>
          hs.pnodup.mem_erase_iff
        have hs' : SIf L (Us ++ [[foldByte c]]) (pend.erase [foldByte c]) := by
          refine { pnodup := hs.pnodup.erase _, us := ?_, pd := ?_, nodup := ?_, count := ?_ }
          · intro x hx
            rcases List.mem_append.1 hx with hx | hx
            · exact hs.us x hx
            · rw [List.mem_singleton] at hx
              exact ⟨foldByte c, hx, hc⟩
          · intro v hv
            rw [List.mem_append, List.mem_singleton, hmem]
            by_cases ev : v = [foldByte c]
            · constructor
              · intro _; exact Or.inr ev
              · intro _ hh; exact hh.1 ev
            · constructor
              · intro hh
                left; exact (hs.pd v hv).1 (fun hp => hh ⟨ev, hp⟩)
              · intro hh hp
                rcases hh with hh | hh
                · exact (hs.pd v hv).2 hh hp.2
                · exact ev hh
          · rw [List.nodup_append]
            refine ⟨hs.nodup, by simp, ?_⟩
            intro x hx y hy
            rw [List.mem_singleton] at hy
            subst hy
            intro e; subst e; exact hcU hx
          · rw [List.length_append, List.length_singleton, List.length_erase_of_mem hcp]
            have := List.length_pos_of_mem hcp
            have := hs.count
            omega
        obtain ⟨n', Us', pend', seen', e, hF, hS, hSe, hmono, hdone⟩ :=
          fillStart_spec_f hB rest _ (Us ++ [[foldByte c]]) _ (nu L [foldByte c] :: seen) h' hs'
            (hseen.erase hs.pnodup hc) (fun x hx => hsub x (List.mem_cons_of_mem _ hx))
        refine ⟨n', Us', pend', seen', ?_, hF, hS, hSe, ?_, ?_⟩
        · rw [← e, List.map_append]; rfl
        · intro v hv
          exact hmono v (fun hm => hv ((hmem v).1 hm).2)
        · intro x hx hxL
          rcases List.mem_cons.1 hx with e' | e'
          · rw [e']
            exact hmono _ (fun hm => ((hmem _).1 hm).1 rfl)
          · exact hdone x e' hxL
      · -- reached through its other edge already
        simp only [hcp, decide_false, Bool.not_false, Bool.or_true, if_true]
        obtain ⟨n', Us', pend', seen', e, hF, hS, hSe, hmono, hdone⟩ :=
          fillStart_spec_f hB rest n Us pend seen h hs hseen
            (fun x hx => hsub x (List.mem_cons_of_mem _ hx))
        refine ⟨n', Us', pend', seen', e, hF, hS, hSe, hmono, ?_⟩
        intro x hx hxL
        rcases List.mem_cons.1 hx with e' | e'
        · rw [e']; exact hmono _ hcp
        · exact hdone x e' hxL
    · simp only at hc hnext
      -- no child on this byte: the transition is the start state's self loop
      have hn1 : (next == SU) = true := by rw [hnext]; simp
      rw [hn1]
      simp only [Bool.true_or, if_true]
      obtain ⟨n', Us', pend', seen', e, hF, hS, hSe, hmono, hdone⟩ :=
        fillStart_spec_f hB rest n Us pend seen h hs hseen
          (fun x hx => hsub x (List.mem_cons_of_mem _ hx))
      refine ⟨n', Us', pend', seen', e, hF, hS, hSe, hmono, ?_⟩
      intro x hx hxL
      rcases List.mem_cons.1 hx with e' | e'
      · rw [e'] at hxL; exact absurd hxL hc
      · exact hdone x e' hxL

/-- after the first loop the queue holds exactly the nodes of depth one -/
theorem SIf.toQI (hB : PBf Q L n0) (hs : SIf L Us pend) (hall : ∀ b : UInt8, [b] ∈ L → [b] ∉ pend) :
    QI L Us pend := by
  have hlen : ∀ x, x ∈ Us → x.length = 1 := by
    intro x hx
    obtain ⟨b, e, _⟩ := hs.us x hx
    rw [e]; rfl
  have hUL : ∀ x, x ∈ Us → x ∈ L := by
    intro x hx
    obtain ⟨b, e, hb⟩ := hs.us x hx
    rw [e]; exact hb
  refine
    { q1 := fun x hx => ⟨hUL x hx, (hs.pd x (hUL x hx)).2 hx⟩, sorted := ?_, nodup := hs.nodup,
      range := ?_, pnodup := hs.pnodup, d1 := hall, step := ?_ }
  · apply List.pairwise_of_forall_mem_list
    intro x hx y hy
    rw [hlen x hx, hlen y hy]; exact Nat.le_refl _
  · intro x hx y hy
    rw [hlen x hx, hlen y hy]; omega
  · intro p b hp hpb
    have hp0 := hB.ne_nil hp
    have h2 : p ++ [b] ∉ Us := by
      intro hm
      have := hlen _ hm
      simp only [List.length_append, List.length_singleton] at this
      exact hp0 (List.eq_nil_of_length_eq_zero (by omega))
    constructor
    · intro hh; exact absurd ((hs.pd _ hpb).1 hh) h2
    · rintro ⟨h1, h3⟩; exact absurd ((hs.pd _ hp).1 h1) h3

/-- (b) the failure phase with `fold = true`: every trie node gets its final failure link and
match list -/
theorem fillFailure_spec_f (hB : PBf Q L n0) :
    ∃ pend, FI k Q L n0 (fillFailure k true n0) pend ∧ ∀ v, v ∈ L → v ∉ pend := by
  have hsim : isMatch n0 SU = !(idsOf Q []).isEmpty := by
    have := hB.mats [] (Or.inl rfl)
    rw [nu_nil] at this
    rw [isMatch_eq, this]
  have hs0 : SIf L [] L := by
    refine { pnodup := hB.nodup, us := ?_, pd := ?_, nodup := List.nodup_nil, count := by simp }
    · intro x hx; simp at hx
    · intro v hv
      constructor
      · intro hh; exact absurd hv hh
      · intro hh; simp at hh
  have hseen0 : SeenI L L [] := by
    intro s
    constructor
    · intro hh; simp at hh
    · rintro ⟨x, hx, hxp, _⟩; exact absurd hx hxp
  obtain ⟨n', Us', pend', seen', e, hF, hS, hSe, _, hdone⟩ :=
    fillStart_spec_f (k := k) hB (n0.getD SU {}).trans n0 [] L [] (FIf.init hB) hs0 hseen0
      (fun x hx => hx)
  unfold fillFailure
  simp only [hsim]
  simp only [List.map_nil] at e
  rw [e]
  simp only [if_true]
  apply bfs_spec_f hB n'.size n' Us' pend' seen' hF
    (hS.toQI hB (by
      intro b hb
      obtain ⟨t, ht⟩ := hB.full b
      have hfb := hB.last_folded (u := []) (b := b) hb
      have := hdone _ ht (by simp only [hfb]; exact hb)
      simp only [hfb] at this
      exact this)) hSe
  rw [hS.count, hF.size, hB.size]; omega

end

end AcVerif.L1cFoldP
