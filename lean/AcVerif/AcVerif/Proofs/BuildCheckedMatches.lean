import AcVerif.BuildChecked
import AcVerif.Proofs.CompilerFinal
import AcVerif.Proofs.CompilerFoldFinal
/-!
# C20 support: an explicit bound on `matchesLen` of the compiled noncontiguous NFA

Every state of `CNfa.compile k fold P` lists at most `P.length` pattern ids (a kept pattern is a
suffix of the state's string in at most one way), and the states `DEAD` and `FAIL` list none.  Hence
`matchesLen (compile k fold P) ≤ 1 + P.length * (size - 2)`.
-/
namespace AcVerif.BuildP
open AcVerif AcVerif.CNfa AcVerif.L1cP AcVerif.L1cFoldP AcVerif.LmP

/-! ## pure list facts about the ideal output -/

theorem idsOf_cons (q : List UInt8 × Nat) (Q : PatSet UInt8) (v : List UInt8) :
    idsOf (q :: Q) v = if q.1 = v then q.2 :: idsOf Q v else idsOf Q v := by
  unfold idsOf
  by_cases h : q.1 = v
  · rw [if_pos h, List.filter_cons_of_pos (by simpa using h), List.map_cons]
  · rw [if_neg h, List.filter_cons_of_neg (by simpa using h)]

theorem idsOf_length_le (Q : PatSet UInt8) (v : List UInt8) : (idsOf Q v).length ≤ Q.length := by
  unfold idsOf
  rw [List.length_map]
  exact List.length_filter_le _ _

/-- the ids collected from the first `m` suffixes of `u` -/
def outUpTo (Q : PatSet UInt8) (u : List UInt8) (m : Nat) : List Nat :=
  (List.range m).flatMap fun k => idsOf Q (u.drop k)

theorem outUpTo_succ (Q : PatSet UInt8) (u : List UInt8) (m : Nat) :
    outUpTo Q u (m + 1) = outUpTo Q u m ++ idsOf Q (u.drop m) := by
  unfold outUpTo
  rw [List.range_succ, List.flatMap_append, List.flatMap_singleton]

theorem outUpTo_nil (u : List UInt8) (m : Nat) : outUpTo [] u m = [] := by
  induction m with
  | zero => rfl
  | succ m ih => rw [outUpTo_succ, ih]; rfl

/-- one more pattern adds at most one id, and none while the suffixes are still longer than it -/
theorem outUpTo_cons (q : List UInt8 × Nat) (Q : PatSet UInt8) (u : List UInt8) :
    ∀ m, m ≤ u.length + 1 →
      (outUpTo (q :: Q) u m).length ≤ (outUpTo Q u m).length + 1 ∧
        (q.1.length + m ≤ u.length → (outUpTo (q :: Q) u m).length = (outUpTo Q u m).length) := by
  intro m
  induction m with
  | zero => intro _; exact ⟨Nat.le_succ _, fun _ => rfl⟩
  | succ m ih =>
    intro hm
    obtain ⟨ih1, ih2⟩ := ih (by omega)
    rw [outUpTo_succ, outUpTo_succ, List.length_append, List.length_append, idsOf_cons]
    by_cases e : q.1 = u.drop m
    · rw [if_pos e, List.length_cons]
      have hl : q.1.length = u.length - m := by rw [e, List.length_drop]
      have := ih2 (by omega)
      constructor
      · omega
      · intro h; omega
    · rw [if_neg e]
      constructor
      · omega
      · intro h
        have := ih2 (by omega)
        omega

theorem outUpTo_length_le (Q : PatSet UInt8) (u : List UInt8) (m : Nat) (hm : m ≤ u.length + 1) :
    (outUpTo Q u m).length ≤ Q.length := by
  induction Q with
  | nil => rw [outUpTo_nil]; exact Nat.le_refl _
  | cons q Q ih =>
    have := (outUpTo_cons q Q u m hm).1
    rw [List.length_cons]
    omega

theorem outStd_length_le (Q : PatSet UInt8) (u : List UInt8) : (outStd Q u).length ≤ Q.length :=
  outUpTo_length_le Q u (u.length + 1) (Nat.le_refl _)

theorem outLm_length_le (Q : PatSet UInt8) (u : List UInt8) : (outLm Q u).length ≤ Q.length := by
  unfold outLm
  split
  · exact Nat.zero_le _
  · split
    · exact Nat.zero_le _
    · exact idsOf_length_le _ _

theorem out_length_le (k : MatchKind) (Q : PatSet UInt8) (q : St UInt8) :
    (Ideal.out k Q q).length ≤ Q.length := by
  cases q with
  | dead => exact Nat.zero_le _
  | «at» u =>
    cases k with
    | std => exact outStd_length_le Q u
    | lf => exact outLm_length_le Q u
    | ll => exact outLm_length_le Q u

theorem patSet_length_le (k : MatchKind) (P : List (List UInt8)) :
    (patSet k P).length ≤ P.length := by
  have he : (enumPats P).length = P.length := by unfold enumPats; exact List.length_zipIdx
  cases k with
  | std => exact Nat.le_of_eq he
  | lf => exact Nat.le_trans (List.length_filter_le _ _) (Nat.le_of_eq he)
  | ll => exact Nat.le_of_eq he

theorem patSet_fold_length_le (k : MatchKind) (P : List (List UInt8)) :
    (patSet k (foldPats P)).length ≤ P.length := by
  have := patSet_length_le k (foldPats P)
  have hl : (foldPats P).length = P.length := by simp [foldPats]
  omega

/-! ## the `FAIL` state keeps an empty match list through all phases -/

theorem fail_state_mats (k : MatchKind) {n0 n : CNfa} (h4 : 4 ≤ n0.size)
    (h1 : n0.getD 1 {} = { fail := SU }) (hsz : n.size = n0.size)
    (hkeep : n.getD 1 {} = (startPhase n0).getD 1 {}) :
    ((closeStartLoop k n).getD 1 {}).matches_ = [] := by
  have hbase : (n.getD 1 {}).matches_ = [] := by
    rw [hkeep, getD_startPhase n0 h4, if_neg (by simp [SU]), if_neg (by simp [SA]), h1]
  rw [closeStartLoop_eq]
  split
  · rw [getD_closeSU n (by rw [hsz]; simp only [SU]; omega), if_neg (by simp [SU])]
    exact hbase
  · exact hbase

/-- `compile_spec`, keeping two more facts -/
theorem compile_spec' (k : MatchKind) (P : List (List UInt8)) :
    ∃ L, FS k (patSet k P) L (compile k false P) ∧ L.Nodup ∧
      ((compile k false P).getD 1 {}).matches_ = [] := by
  obtain ⟨L, hT⟩ := buildTrie_spec k P
  have hB := PB_startPhase hT
  obtain ⟨pend, hF, hall⟩ := fillFailure_spec (k := k) hB
  refine ⟨L, by rw [compile_eq]; exact FS_of_FI hB hF hall, hB.nodup, ?_⟩
  rw [compile_eq]
  exact fail_state_mats k (by rw [hT.size]; omega) hT.s1
    (by rw [hF.size, size_startPhase]) (hF.keep 1 (by decide))

theorem compile_spec_f' (k : MatchKind) (P : List (List UInt8)) :
    ∃ L, FSf k (patSet k (foldPats P)) L (compile k true P) ∧ L.Nodup ∧
      ((compile k true P).getD 1 {}).matches_ = [] := by
  obtain ⟨L, hT⟩ := buildTrie_fold_spec k P
  have hB := PBf_startPhase hT
  obtain ⟨pend, hF, hall⟩ := fillFailure_spec_f (k := k) hB
  refine ⟨L, by rw [compile_eq_f]; exact FSf_of_FI hB hF hall, hB.nodup, ?_⟩
  rw [compile_eq_f]
  exact fail_state_mats k (by rw [hT.size]; omega) hT.s1
    (by rw [hF.size, size_startPhase]) (hF.keep 1 (by decide))

/-! ## every state -/

theorem per_state {N : CNfa} {L : List (List UInt8)} {c : Nat} (hsize : N.size = L.length + 4)
    (hnd : L.Nodup) (hnil : [] ∉ L)
    (hm : ∀ u, (u = [] ∨ u ∈ L) → (N.getD (nu L u) {}).matches_.length ≤ c)
    (h0 : (N.getD 0 {}).matches_ = []) (h1 : (N.getD 1 {}).matches_ = [])
    (h3 : (N.getD 3 {}).matches_.length ≤ c) (sid : Nat) :
    (N.getD sid {}).matches_.length ≤ c := by
  by_cases hs : sid < N.size
  · by_cases e0 : sid = 0
    · subst e0; rw [h0]; exact Nat.zero_le _
    by_cases e1 : sid = 1
    · subst e1; rw [h1]; exact Nat.zero_le _
    by_cases e2 : sid = 2
    · subst e2
      have := hm [] (Or.inl rfl)
      rw [nu_nil] at this
      exact this
    by_cases e3 : sid = 3
    · subst e3; exact h3
    have hj : sid - 4 < L.length := by omega
    have hmem : L[sid - 4] ∈ L := List.getElem_mem hj
    have hne : L[sid - 4] ≠ [] := fun e => hnil (e ▸ hmem)
    have hnu : nu L L[sid - 4] = sid := by
      rw [nu_of_ne hne, hnd.idxOf_getElem (sid - 4) hj]; omega
    have := hm _ (Or.inr hmem)
    rw [hnu] at this
    exact this
  · rw [getD_of_size_le N (by omega)]
    exact Nat.zero_le _

/-- what the sum needs: a size, two empty lists, and the bound `c` everywhere -/
structure Bd (N : CNfa) (c : Nat) : Prop where
  all : ∀ sid, (N.getD sid {}).matches_.length ≤ c
  s0 : (N.getD 0 {}).matches_ = []
  s1 : (N.getD 1 {}).matches_ = []

theorem Bd_compile (k : MatchKind) (fold : Bool) (P : List (List UInt8)) :
    Bd (compile k fold P) P.length := by
  cases fold with
  | false =>
    obtain ⟨L, hS, hnd, h1⟩ := compile_spec' k P
    have hQ := patSet_length_le k P
    have hnil : [] ∉ L := fun hm => ((hS.mem []).1 hm).1 rfl
    refine ⟨per_state hS.size hnd hnil ?_ hS.mats_dead h1 ?_, hS.mats_dead, h1⟩
    · intro u hu
      rw [hS.mats u hu]
      exact Nat.le_trans (out_length_le _ _ _) hQ
    · show ((compile k false P).getD SA {}).matches_.length ≤ _
      rw [hS.mats_sa]
      exact Nat.le_trans (out_length_le _ _ _) hQ
  | true =>
    obtain ⟨L, hS, hnd, h1⟩ := compile_spec_f' k P
    have hQ := patSet_fold_length_le k P
    have hnil : [] ∉ L := fun hm => ((hS.mem []).1 hm).1 rfl
    refine ⟨per_state hS.size hnd hnil ?_ hS.mats_dead h1 ?_, hS.mats_dead, h1⟩
    · intro u hu
      rw [hS.mats u hu]
      exact Nat.le_trans (out_length_le _ _ _) hQ
    · show ((compile k true P).getD SA {}).matches_.length ≤ _
      rw [hS.mats_sa]
      exact Nat.le_trans (out_length_le _ _ _) hQ

/-- no state of the compiled automaton lists more ids than there are patterns -/
theorem matches_length_le (k : MatchKind) (fold : Bool) (P : List (List UInt8)) (sid : Nat) :
    ((CNfa.compile k fold P).getD sid {}).matches_.length ≤ P.length :=
  (Bd_compile k fold P).all sid

/-! ## the sum -/

theorem sum_map_le (g : CState → Nat) (c : Nat) (l : List CState)
    (h : ∀ i : Nat, g (l[i]?.getD ({} : CState)) ≤ c) : (l.map g).sum ≤ c * l.length := by
  induction l with
  | nil => exact Nat.zero_le _
  | cons a t ih =>
    rw [List.map_cons, List.sum_cons, List.length_cons, Nat.mul_succ]
    have ha : g a ≤ c := by simpa using h 0
    have ht := ih (fun i => by simpa using h (i + 1))
    omega

theorem sum_skip_two (c : Nat) (l : List CState)
    (h : ∀ i : Nat, (l[i]?.getD ({} : CState)).matches_.length ≤ c)
    (h0 : (l[0]?.getD ({} : CState)).matches_ = [])
    (h1 : (l[1]?.getD ({} : CState)).matches_ = []) :
    (l.map fun st => st.matches_.length).sum ≤ c * (l.length - 2) := by
  match l, h, h0, h1 with
  | [], _, _, _ => exact Nat.zero_le _
  | [a], _, h0, _ =>
    have : a.matches_ = [] := by simpa using h0
    simp [this]
  | a :: b :: t, h, h0, h1 =>
    have ha : a.matches_ = [] := by simpa using h0
    have hb : b.matches_ = [] := by simpa using h1
    have ht := sum_map_le (fun st => st.matches_.length) c t (fun i => by simpa using h (i + 2))
    simp only [List.map_cons, List.sum_cons, ha, hb, List.length_nil, List.length_cons]
    have : t.length + 1 + 1 - 2 = t.length := by omega
    rw [this]
    omega

theorem matchesLen_le_of_Bd {N : CNfa} {c : Nat} (h : Bd N c) :
    matchesLen N ≤ 1 + c * (N.size - 2) := by
  have hget : ∀ i : Nat, N.toList[i]?.getD ({} : CState) = N.getD i {} := by
    intro i; rw [Array.getElem?_toList, Array.getD_eq_getD_getElem?]
  have := sum_skip_two c N.toList (fun i => by rw [hget]; exact h.all i)
    (by rw [hget]; exact h.s0) (by rw [hget]; exact h.s1)
  rw [Array.length_toList] at this
  unfold matchesLen
  omega

/-- `matches.len()` of the compiled noncontiguous NFA: the initial sentinel plus at most one entry
per pattern and state other than `DEAD` and `FAIL` -/
theorem matchesLen_compile_le (k : MatchKind) (fold : Bool) (P : List (List UInt8)) :
    matchesLen (CNfa.compile k fold P) ≤ 1 + P.length * ((CNfa.compile k fold P).size - 2) :=
  matchesLen_le_of_Bd (Bd_compile k fold P)

end AcVerif.BuildP
