import AcVerif.Proofs.CompilerTrie
/-!
# L1c proofs, part 2: `set_anchored_start_state`, `add_unanchored_start_state_loop`
-/
namespace AcVerif.L1cP
open AcVerif AcVerif.CNfa

/-- what is known of the automaton when the failure phase begins; transitions and the states
`DEAD`, `FAIL`, `SA` do not change afterwards -/
structure PB (Q : PatSet UInt8) (L : List (List UInt8)) (n : CNfa) : Prop where
  size : n.size = L.length + 4
  nodup : L.Nodup
  mem : ∀ v, v ∈ L ↔ v ≠ [] ∧ isPref Q v = true
  goto_in : ∀ u b, (u = [] ∨ u ∈ L) → u ++ [b] ∈ L → follow n (nu L u) b = nu L (u ++ [b])
  goto_out : ∀ u b, u ∈ L → u ++ [b] ∉ L → follow n (nu L u) b = FAIL
  goto_root : ∀ b, [b] ∉ L → follow n SU b = SU
  goto_dead : ∀ b, follow n DEAD b = DEAD
  goto_sa : ∀ b, follow n SA b = if [b] ∈ L then nu L [b] else FAIL
  sorted : ∀ sid, Sorted (n.getD sid {}).trans
  nofail : ∀ u, u ∈ L → ∀ x ∈ (n.getD (nu L u) {}).trans, x.2 ≠ FAIL
  full : ∀ b, ∃ t, (b, t) ∈ (n.getD SU {}).trans
  mats : ∀ u, (u = [] ∨ u ∈ L) → (n.getD (nu L u) {}).matches_ = idsOf Q u
  mats_dead : (n.getD DEAD {}).matches_ = []
  mats_sa : (n.getD SA {}).matches_ = idsOf Q []
  fail : ∀ u, u ∈ L → (n.getD (nu L u) {}).fail = SU
  depth : ∀ u, u ∈ L → u.length + 3 ≤ nu L u

namespace PB
variable {Q : PatSet UInt8} {L : List (List UInt8)} {n : CNfa}

theorem nil_not_mem (h : PB Q L n) : [] ∉ L := fun hm => ((h.mem []).1 hm).1 rfl

theorem closed (h : PB Q L n) {v : List UInt8} {b : UInt8} (hm : v ++ [b] ∈ L) :
    v = [] ∨ v ∈ L := by
  by_cases h0 : v = []
  · exact Or.inl h0
  · right
    rw [h.mem] at hm ⊢
    exact ⟨h0, LmP.isPref_of_append hm.2⟩

theorem ne_nil (h : PB Q L n) {u : List UInt8} (hu : u ∈ L) : u ≠ [] :=
  fun e => h.nil_not_mem (e ▸ hu)

theorem nu_lt_size (h : PB Q L n) {u : List UInt8} (hu : u = [] ∨ u ∈ L) : nu L u < n.size := by
  rw [h.size]
  rcases hu with h0 | hm
  · subst h0; simp [SU]
  · exact nu_lt hm (h.ne_nil hm)

theorem len_lt_size (h : PB Q L n) {u : List UInt8} (hu : u = [] ∨ u ∈ L) :
    u.length + 3 < n.size := by
  rcases hu with h0 | hm
  · subst h0; rw [h.size]; simp
  · have h1 := h.depth u hm
    have h2 := h.nu_lt_size (Or.inr hm)
    omega

theorem mem_of_isPref (h : PB Q L n) {v : List UInt8} (hv : isPref Q v = true) :
    v = [] ∨ v ∈ L := by
  by_cases h0 : v = []
  · exact Or.inl h0
  · exact Or.inr ((h.mem v).2 ⟨h0, hv⟩)

theorem lsp_mem (h : PB Q L n) (w : List UInt8) : lsp Q w = [] ∨ lsp Q w ∈ L := by
  by_cases h0 : lsp Q w = []
  · exact Or.inl h0
  · exact Or.inr ((h.mem _).2 ⟨h0, LmP.lsp_isPref h0⟩)

theorem isPref_iff_mem (h : PB Q L n) (u : List UInt8) (b : UInt8) :
    isPref Q (u ++ [b]) = true ↔ u ++ [b] ∈ L := by
  rw [h.mem]; simp

/-- entries of the transition list of a trie node are its children -/
theorem child_of_mem (h : PB Q L n) {u : List UInt8} (hu : u ∈ L) {x : UInt8 × Nat}
    (hx : x ∈ (n.getD (nu L u) {}).trans) : u ++ [x.1] ∈ L ∧ x.2 = nu L (u ++ [x.1]) := by
  obtain ⟨b, t⟩ := x
  have h1 : follow n (nu L u) b = t := by rw [follow_eq]; exact lookup_of_mem (h.sorted _) hx
  have h2 : t ≠ FAIL := h.nofail u hu _ hx
  by_cases hin : u ++ [b] ∈ L
  · refine ⟨hin, ?_⟩
    rw [← h1]; exact h.goto_in u b (Or.inr hu) hin
  · rw [h.goto_out u b hu hin] at h1
    exact absurd h1.symm h2

/-- every child is in the transition list -/
theorem mem_of_child (h : PB Q L n) {u : List UInt8} (hu : u = [] ∨ u ∈ L) {b : UInt8}
    (hin : u ++ [b] ∈ L) : (b, nu L (u ++ [b])) ∈ (n.getD (nu L u) {}).trans :=
  mem_of_lookup (h.goto_in u b hu hin) (nu_ne_fail _ _)

/-- entries of the start state's transition list -/
theorem root_of_mem (h : PB Q L n) {x : UInt8 × Nat} (hx : x ∈ (n.getD SU {}).trans) :
    ([x.1] ∈ L ∧ x.2 = nu L [x.1]) ∨ ([x.1] ∉ L ∧ x.2 = SU) := by
  obtain ⟨b, t⟩ := x
  have h1 : follow n SU b = t := by rw [follow_eq]; exact lookup_of_mem (h.sorted _) hx
  by_cases hin : [b] ∈ L
  · left
    refine ⟨hin, ?_⟩
    have := h.goto_in [] b (Or.inl rfl) hin
    rw [nu_nil] at this
    rw [← h1]; exact this
  · right; exact ⟨hin, by rw [← h1]; exact h.goto_root b hin⟩

end PB

/-! ## lookups in mapped lists -/

theorem lookup_map (g : Nat → Nat) (l : List (UInt8 × Nat)) (c : UInt8) (h : ∃ t, (c, t) ∈ l) :
    lookup (l.map fun x => (x.1, g x.2)) c = g (lookup l c) := by
  induction l with
  | nil => obtain ⟨t, ht⟩ := h; simp at ht
  | cons y rest ih =>
    obtain ⟨d, s⟩ := y
    rw [List.map_cons, lookup_cons, lookup_cons]
    by_cases e : d = c
    · rw [if_pos e, if_pos e]
    · rw [if_neg e, if_neg e]
      apply ih
      obtain ⟨t, ht⟩ := h
      rcases List.mem_cons.1 ht with e' | e'
      · injection e' with e1 e2; exact absurd e1.symm e
      · exact ⟨t, e'⟩

theorem sorted_map (g : Nat → Nat) {l : List (UInt8 × Nat)} (h : Sorted l) :
    Sorted (l.map fun x => (x.1, g x.2)) := by
  unfold Sorted at *
  rw [List.pairwise_map]; exact h

theorem mapTrans_eq (g : Nat → Nat) (l : List (UInt8 × Nat)) :
    (l.map fun (b, t) => (b, g t)) = l.map fun x => (x.1, g x.2) := rfl

/-! ## the two start-state steps -/

/-- the automaton after `set_anchored_start_state` and `add_unanchored_start_state_loop` -/
def startPhase (n : CNfa) : CNfa := addStartLoop (setAnchoredStart n)

theorem getD_startPhase (n : CNfa) (h4 : 4 ≤ n.size) (sid : Nat) :
    (startPhase n).getD sid {} =
      if sid = SU then
        { n.getD SU {} with
          trans := (n.getD SU {}).trans.map fun x => (x.1, if x.2 == FAIL then SU else x.2) }
      else if sid = SA then
        { trans := (n.getD SU {}).trans, fail := DEAD,
          matches_ := (n.getD SA {}).matches_ ++ (n.getD SU {}).matches_ }
      else n.getD sid {} := by
  have hSA : SA < n.size := by simp only [SA]; omega
  have hSU : SU < n.size := by simp only [SU]; omega
  have hne : SA ≠ SU := by simp [SA, SU]
  have h1 : ∀ j, (setAnchoredStart n).getD j {} =
      if j = SA then
        { trans := (n.getD SU {}).trans, fail := DEAD,
          matches_ := (n.getD SA {}).matches_ ++ (n.getD SU {}).matches_ }
      else n.getD j {} := by
    intro j
    unfold setAnchoredStart copyMatches
    rw [getD_modify]
    by_cases e : j = SA
    · subst e
      rw [if_pos ⟨rfl, by rw [Array.size_modify]; exact hSA⟩, if_pos rfl,
        getD_modify_eq _ _ hSA, getD_modify_ne _ _ hne]
    · rw [if_neg (fun hh => e hh.1.symm), if_neg e, getD_modify_ne _ _ (fun e' => e e'.symm)]
  unfold startPhase addStartLoop
  rw [getD_modify]
  have hsz : (setAnchoredStart n).size = n.size := by
    unfold setAnchoredStart copyMatches
    rw [Array.size_modify, Array.size_modify]
  by_cases e : sid = SU
  · subst e
    rw [if_pos ⟨rfl, by rw [hsz]; exact hSU⟩, if_pos rfl, h1, if_neg hne.symm]
  · rw [if_neg (fun hh => e hh.1.symm), if_neg e, h1]

theorem size_startPhase (n : CNfa) : (startPhase n).size = n.size := by
  unfold startPhase addStartLoop setAnchoredStart copyMatches
  rw [Array.size_modify, Array.size_modify, Array.size_modify]

theorem PB_startPhase {n : CNfa} {L : List (List UInt8)} {Q : PatSet UInt8} (h : TI n L Q []) :
    PB Q L (startPhase n) := by
  have h4 : 4 ≤ n.size := by rw [h.size]; omega
  have hget := getD_startPhase n h4
  have hnu : ∀ u, u ∈ L → nu L u ≠ SU ∧ nu L u ≠ SA := by
    intro u hu
    have := nu_ge (L := L) (fun e => h.nil_not_mem (e ▸ hu))
    simp only [SU, SA]; omega
  have hnode : ∀ u, u ∈ L → (startPhase n).getD (nu L u) {} = n.getD (nu L u) {} := by
    intro u hu
    rw [hget, if_neg (hnu u hu).1, if_neg (hnu u hu).2]
  have hmemL : ∀ v, v ∈ L ↔ v ≠ [] ∧ isPref Q v = true := by
    intro v
    rw [h.mem v]
    constructor
    · rintro ⟨h0, hp | hp⟩
      · exact ⟨h0, hp⟩
      · exact absurd (List.prefix_nil.1 hp) h0
    · rintro ⟨h0, hp⟩; exact ⟨h0, Or.inl hp⟩
  have hSU : (startPhase n).getD SU {} = { n.getD SU {} with
      trans := (n.getD SU {}).trans.map fun x => (x.1, if x.2 == FAIL then SU else x.2) } := by
    rw [hget, if_pos rfl]
  have hSA : (startPhase n).getD SA {} =
      { trans := (n.getD SU {}).trans, fail := DEAD,
        matches_ := (n.getD SA {}).matches_ ++ (n.getD SU {}).matches_ } := by
    rw [hget, if_neg (by simp [SA, SU]), if_pos rfl]
  have hfolSU : ∀ b, follow (startPhase n) SU b =
      if follow n SU b = FAIL then SU else follow n SU b := by
    intro b
    rw [follow_eq, hSU]
    show lookup ((n.getD SU {}).trans.map fun x => (x.1, if x.2 == FAIL then SU else x.2)) b = _
    rw [lookup_map (fun t => if t == FAIL then SU else t) _ b (h.full b), ← follow_eq]
    by_cases e : follow n SU b = FAIL
    · simp [e]
    · simp [e]
  have hmSU := h.mats [] (Or.inl rfl)
  rw [nu_nil] at hmSU
  refine
    { size := by rw [size_startPhase]; exact h.size, nodup := h.nodup, mem := hmemL,
      goto_in := ?_, goto_out := ?_, goto_root := ?_, goto_dead := ?_, goto_sa := ?_,
      sorted := ?_, nofail := ?_, full := ?_, mats := ?_, mats_dead := ?_, mats_sa := ?_,
      fail := ?_, depth := h.depth }
  · intro u b hu hin
    rcases hu with h0 | hm
    · subst h0
      have := h.goto_in [] b (Or.inl rfl) hin
      rw [nu_nil] at this ⊢
      rw [hfolSU, this, if_neg (nu_ne_fail _ _)]
    · rw [follow_eq, hnode u hm, ← follow_eq]; exact h.goto_in u b (Or.inr hm) hin
  · intro u b hu hout
    rw [follow_eq, hnode u hu, ← follow_eq]; exact h.goto_out u b (Or.inr hu) hout
  · intro b hout
    have := h.goto_out [] b (Or.inl rfl) hout
    rw [nu_nil] at this
    rw [hfolSU, this, if_pos rfl]
  · intro b
    rw [follow_eq]
    have : (startPhase n).getD DEAD {} = n.getD 0 {} := by
      rw [hget, if_neg (by simp [DEAD, SU]), if_neg (by simp [DEAD, SA])]; rfl
    rw [this, h.s0]; exact lookup_fullTrans DEAD b
  · intro b
    rw [follow_eq, hSA]
    show lookup (n.getD SU {}).trans b = _
    rw [← follow_eq]
    by_cases hin : [b] ∈ L
    · have := h.goto_in [] b (Or.inl rfl) hin
      rw [nu_nil] at this
      rw [if_pos hin, this]; rfl
    · have := h.goto_out [] b (Or.inl rfl) hin
      rw [nu_nil] at this
      rw [if_neg hin, this]
  · intro sid
    rw [hget]
    by_cases e : sid = SU
    · rw [if_pos e]
      exact sorted_map (fun t => if t == FAIL then SU else t) (h.sorted SU)
    · rw [if_neg e]
      by_cases e' : sid = SA
      · rw [if_pos e']; exact h.sorted SU
      · rw [if_neg e']; exact h.sorted sid
  · intro u hu x hx
    rw [hnode u hu] at hx; exact h.nofail u hu x hx
  · intro b
    obtain ⟨t, ht⟩ := h.full b
    rw [hSU]
    exact ⟨if t == FAIL then SU else t, List.mem_map.2 ⟨(b, t), ht, rfl⟩⟩
  · intro u hu
    rcases hu with h0 | hm
    · subst h0; rw [nu_nil, hSU]; exact hmSU
    · rw [hnode u hm]; exact h.mats u (Or.inr hm)
  · have : (startPhase n).getD DEAD {} = n.getD 0 {} := by
      rw [hget, if_neg (by simp [DEAD, SU]), if_neg (by simp [DEAD, SA])]; rfl
    rw [this, h.s0]
  · rw [hSA]
    show (n.getD SA {}).matches_ ++ (n.getD SU {}).matches_ = _
    have : n.getD SA {} = n.getD 3 {} := rfl
    rw [this, h.s3, hmSU]; rfl
  · intro u hu
    rw [hnode u hu]; exact h.fail _

end AcVerif.L1cP
