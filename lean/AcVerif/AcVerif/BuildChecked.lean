import AcVerif.NfaIds
/-!
# C20, "every pattern collection builds": the builders with their error paths

The transcribed builders (`CNfa.compile`, `buildNfaIds`, `buildContig`, `buildDfaIds`) are total
functions.  The real builders can fail: every index that is stored as a `StateID` / `PatternID` /
`SmallIndex` is range-checked when it is created (`util/primitives.rs`), and the failure is reported
as a `BuildError` (`util/error.rs`: `StateIDOverflow`, `PatternIDOverflow`, `PatternTooLong`).  This
file adds the checks.

## The limits (`util/primitives.rs`, 32- and 64-bit targets)

* `SmallIndex::MAX = i32::MAX - 1 = 2147483646` (primitives.rs:100-103),
  `SmallIndex::LIMIT = MAX + 1 = 2147483647` (:111);
* `SmallIndex::new(n)` (:124) = `try_from(usize)`: error iff `n > SmallIndex::MAX` (:322-330);
* `StateID::new` / `PatternID::new`: the same test (`index_type_impls!`, :404-406), so they succeed
  iff `n < LIMIT`; `StateID::LIMIT = PatternID::LIMIT = SmallIndex::LIMIT` (:391);
* `StateID::iter(len)` (:518) / `with_state_ids()` / `with_pattern_ids()` (:744-756) *panic* when
  `len > LIMIT` (the `assert!` of `$iter::new`, :643-650).

`Limits` carries the three numbers so that the error paths can be exercised with small artificial
values; the defaults are the real constants.

## How the checks are placed

The real code checks *before every push* onto `states`, `sparse`, `matches`, `dense` (noncontiguous
NFA) resp. before every state written to `repr` (contiguous NFA), and once for the whole table (DFA).
The checked builders below compute the unchecked transcription of a phase and then compare the
lengths the vectors have reached with the limit.  This is equivalent, for success/failure *and* for
the kind of the first error, because

* a vector that is only pushed to one element at a time passes every `StateID::new(len_before)`
  test iff its final length is `≤ LIMIT` (the lengths tested are `len_0, …, len_final - 1`);
* all the tests of one phase produce the *same* error kind (`StateIDOverflow`), so it does not matter
  which of them fires first *within* the phase;
* where two different kinds can occur – only in `build_trie`, whose loop tests the pattern id, then
  the pattern length, then allocates – the phase is one iteration of that loop, and the order of the
  tests is kept (`trieStepChecked`).

`dense` grows by `alphabet_len` per allocation and is tested before it grows; `denseAllocOk` is the
exact condition for that.  (The error *payloads* `max` / `requested_max` of the two overflow kinds
are not modelled; `PatternTooLong` carries its pattern id and length.)
-/
namespace AcVerif
open CNfa

/-- `ErrorKind` of `BuildError` (`util/error.rs:23-50`) -/
inductive BuildErr where
  | stateIdOverflow
  | patternIdOverflow
  | patternTooLong (pid len : Nat)
deriving DecidableEq, Repr, Inhabited

/-- the range limits of `util/primitives.rs` -/
structure Limits where
  /-- `StateID::LIMIT`: `StateID::new(n)` succeeds iff `n < stateIdLimit` -/
  stateIdLimit : Nat := 2147483647
  /-- `PatternID::LIMIT`: `PatternID::new(n)` succeeds iff `n < patternIdLimit` -/
  patternIdLimit : Nat := 2147483647
  /-- `SmallIndex::MAX`: `SmallIndex::new(n)` succeeds iff `n ≤ smallIndexMax` -/
  smallIndexMax : Nat := 2147483646
deriving DecidableEq, Repr, Inhabited

/-- `AhoCorasickKind` -/
inductive AcKind where
  | noncontiguous | contiguous | dfa
deriving DecidableEq, Repr, Inhabited

/-- the settings of `AhoCorasickBuilder` that influence construction (`ahocorasick.rs:2138-2144` and
the three sub-builders; defaults as in their `Default` impls) -/
structure BuildCfg where
  matchKind : MatchKind := .std
  /-- `ascii_case_insensitive` -/
  fold : Bool := false
  startKind : StartKind := .unanchored
  /-- `kind(None)` = choose automatically -/
  kind : Option AcKind := none
  /-- `noncontiguous::Builder::dense_depth` (default 3, noncontiguous.rs:857) -/
  nncDenseDepth : Nat := 3
  /-- `contiguous::Builder::dense_depth` (default 2, contiguous.rs:906) -/
  contigDenseDepth : Nat := 2
  /-- `byte_classes` of the contiguous NFA and the DFA -/
  byteClasses : Bool := true
  /-- whether `prefilter::Builder::build` returned a prefilter (its decision is modelled in `Pre/`) -/
  hasPre : Bool := false
  /-- `nfa.patterns_len() <= 100` in `build_auto` (ahocorasick.rs:2225) -/
  autoDfaLimit : Nat := 100
deriving Repr, Inhabited

/-! ## the lengths of the side vectors of `noncontiguous::NFA`, read off the transcription -/

/-- `nfa.sparse.len()`: the dummy entry pushed by `compile` (noncontiguous.rs:972) plus one entry
per stored transition.  `add_transition` (:381-424) allocates exactly when the byte is not yet in the
sorted chain – exactly when `insertTrans` lengthens the list – and `init_full_state` (:435-463)
allocates 256 entries. -/
def sparseLen (n : CNfa) : Nat := 1 + (n.toList.map fun st => st.trans.length).sum

/-- `nfa.matches.len()`: the dummy entry (noncontiguous.rs:973) plus one entry per element of a match
list (`add_match` :466-485 pushes one – `alloc_match`, :476 –, `copy_matches` :490-523 one per copied
element, :503-513) -/
def matchesLen (n : CNfa) : Nat := 1 + (n.toList.map fun st => st.matches_.length).sum

/-- `byte_classes.alphabet_len()` of the noncontiguous NFA (classes of the trie bytes) -/
def nncAlphabetLen (n : CNfa) : Nat := classOfMarks (marksOf (trieBytes n)) 255 + 1

/-- number of states `densify` gives a dense row (noncontiguous.rs:1511-1523: every state except
`DEAD` / `FAIL` whose stored depth is `< dense_depth`) -/
def denseCount (n : CNfa) (denseDepth : Nat) : Nat :=
  ((denseRows n denseDepth).toList.filter fun r => r.isSome).length

/-- `densify`: `alloc_dense_state` (noncontiguous.rs:551-564) tests `StateID::new(self.dense.len())`
*before* extending `dense` by `alphabet_len`; `dense` starts with one dummy entry (:977).  The
lengths tested are `1, 1 + alen, …, 1 + (d-1)·alen`; they increase, so all pass iff the last does. -/
def denseAllocOk (L : Limits) (n : CNfa) (denseDepth : Nat) : Bool :=
  let d := denseCount n denseDepth
  d == 0 || decide (1 + (d - 1) * nncAlphabetLen n < L.stateIdLimit)

/-! ## `noncontiguous::Compiler::compile` -/

/-- The preamble of `compile` (noncontiguous.rs:972-993): four `alloc_state` (:568-588, test
`StateID::new(states.len())`, :574) and three `init_full_state` = 768 `alloc_transition` (:527-533,
test `StateID::new(sparse.len())`, :528).  All errors are `StateIDOverflow`.  (The three dummy
pushes :972-977 are unchecked; if the limit is `0` the first `alloc_state` already fails.) -/
def initChecked (L : Limits) : Except BuildErr CNfa :=
  if init.size ≤ L.stateIdLimit ∧ sparseLen init ≤ L.stateIdLimit then .ok init
  else .error .stateIdOverflow

/-- the body of the `'PATTERNS` loop of `build_trie` without its checks (the function folded by
`CNfa.buildTrie`) -/
def trieStep (k : MatchKind) (fold : Bool) (n : CNfa) (x : List UInt8 × Nat) : CNfa :=
  match addPattern (k == .lf) fold n SU false x.1 with
  | none => n
  | some (n, last) => n.modify last fun st => { st with matches_ := st.matches_ ++ [x.2] }

/-- One iteration of the `'PATTERNS` loop of `build_trie` (noncontiguous.rs:1064-1150), in the order
of the code:
1. `PatternID::new(i)` (:1065) → `PatternIDOverflow`;
2. `SmallIndex::new(pat.len())` (:1072) → `PatternTooLong(pid, len)`;
3. per byte `alloc_state` (:1138, test :574), `add_transition` once or twice (:1139-1143, test
   :528 via `alloc_transition` at :395 / :415), and finally `add_match` (:1149, `alloc_match`
   :537-543, test :538) → `StateIDOverflow`.
Within 3. every vector only grows, one element at a time, so the tests pass iff the lengths reached
at the end of the iteration are within the limit. -/
def trieStepChecked (L : Limits) (k : MatchKind) (fold : Bool) (n : CNfa) (x : List UInt8 × Nat) :
    Except BuildErr CNfa :=
  if ¬ x.2 < L.patternIdLimit then .error .patternIdOverflow
  else if ¬ x.1.length ≤ L.smallIndexMax then .error (.patternTooLong x.2 x.1.length)
  else
    let n' := trieStep k fold n x
    if n'.size ≤ L.stateIdLimit ∧ sparseLen n' ≤ L.stateIdLimit ∧ matchesLen n' ≤ L.stateIdLimit
    then .ok n' else .error .stateIdOverflow

/-- `build_trie` with its checks, from a given automaton -/
def trieFromChecked (L : Limits) (k : MatchKind) (fold : Bool) (n : CNfa)
    (xs : List (List UInt8 × Nat)) : Except BuildErr CNfa :=
  xs.foldlM (trieStepChecked L k fold) n

/-- the phases of `compile` after `build_trie` (`set_anchored_start_state`,
`add_unanchored_start_state_loop`, `fill_failure_transitions`,
`close_start_state_loop_for_leftmost`) -/
def finishCompile (k : MatchKind) (fold : Bool) (t : CNfa) : CNfa :=
  closeStartLoop k (fillFailure k fold (addStartLoop (setAnchoredStart t)))

/-- `Compiler::new(builder)?.compile(patterns)?` (noncontiguous.rs:878, :965-1053) with its checks.
`Compiler::new` (:942-963) cannot fail.  After `build_trie` no entry is added to `states` or
`sparse` (`set_anchored_start_state` :1572-1596 only overwrites `next` fields); `matches` grows in
`set_anchored_start_state` (`copy_matches`, :1588) and in `fill_failure_transitions`
(`copy_matches`, :1326 and :1381; test :503) and `dense` in `densify` (:1524); every error there is a
`StateIDOverflow`.  `shuffle` (:1410-1487) and `densify` (:1513) have `unwrap`s only (proved
unreachable: `C20_shuffle_unwraps_safe`), and `prefilter.build()` returns an `Option`.  Panics that
are not modelled because they cannot fire: `SmallIndex::new(depth).expect(..)` in `alloc_state`
(:572; `depth < pat.len()`, which passed the test at :1072) and the `unreachable!()` of
`set_anchored_start_state` (:1582; both start states always hold exactly 256 transitions). -/
def compileChecked (L : Limits) (k : MatchKind) (fold : Bool) (denseDepth : Nat)
    (P : List (List UInt8)) : Except BuildErr CNfa := do
  let n0 ← initChecked L
  let t ← trieFromChecked L k fold n0 P.zipIdx
  let n := finishCompile k fold t
  if matchesLen n ≤ L.stateIdLimit ∧ denseAllocOk L n denseDepth = true then pure n
  else throw .stateIdOverflow

/-! ## `contiguous::Builder::build_from_noncontiguous` -/

/-- `index_to_state_id` (contiguous.rs:950, :963-981), indexed by shuffled position: the offset in
`repr` at which `State::write` starts the state (`FAIL` for the `FAIL` state, which is not written).
The same computation as inside `buildContig` (`Proofs/BuildCheckedContig.lean`:
`contigOffsets_eq`). -/
def contigOffsets (n : CNfa) (denseDepth : Nat) (byteClasses : Bool) : Array Nat :=
  let marks := marksOf (trieBytes n)
  let classOf : UInt8 → Nat := if byteClasses then classOfMarks marks else fun b => b.toNat
  let alphabetLen := classOf 255 + 1
  let order := (shuffleOrder n).1
  let depths := storedDepths n
  let sizes := (List.range n.size).map fun i =>
    let old := order.getD i 0
    if i == FAIL then 0
    else (writeState classOf alphabetLen (n.getD old {}) (fun t => t) (depths.getD old 0 < denseDepth)).length
  ((List.range n.size).foldl (fun (acc : Array Nat × Nat) i =>
    let (o, cur) := acc
    if i == FAIL then (o.push FAIL, cur) else (o.push cur, cur + sizes.getD i 0)) (#[], 0)).1

/-- every `StateID::new(dst.len())` of `State::write` (contiguous.rs:696) succeeds: one test per
state other than `FAIL`, on the offset at which the state starts -/
def contigAllocOk (L : Limits) (n : CNfa) (denseDepth : Nat) (byteClasses : Bool) : Bool :=
  (List.range n.size).all fun i =>
    i == FAIL || decide ((contigOffsets n denseDepth byteClasses).getD i 0 < L.stateIdLimit)

/-- `contiguous::Builder::build_from_noncontiguous` (contiguous.rs:939-1012).  The only error is the
`StateIDOverflow` of `State::write` (:696-698); `write_sparse_trans`, `write_dense_trans` and
`State::remap` return `Ok` unconditionally (:751-787, :795-822, :488-512).  `with_state_ids()` (:963)
panics only if the noncontiguous NFA has more than `LIMIT` states, which its own build excludes
(`C20_compile_sizes`). -/
def buildContigChecked (L : Limits) (n : CNfa) (denseDepth : Nat) (byteClasses hasPre : Bool) :
    Except BuildErr ContigM :=
  if contigAllocOk L n denseDepth byteClasses = true then .ok (buildContig n denseDepth byteClasses hasPre)
  else .error .stateIdOverflow

/-! ## `dfa::Builder::build_from_noncontiguous` -/

/-- `usize::BITS` on the 64-bit targets the limits above are taken from -/
def usizeBits : Nat := 64

/-- `dfa::Builder::build_from_noncontiguous` (dfa.rs:431-539).  Two tests, both `StateIDOverflow`:
* `state_len.checked_shl(stride2)` (:463) – `checked_shl` is `None` iff the *shift amount* is
  `≥ usize::BITS` (it does not detect lost bits); `stride2 ≤ 8`, so this never fires
  (`C20_dfa_shl_never_fails`); with at most `2·LIMIT < 2^32` states and `stride2 ≤ 8` no bit is lost
  on a 64-bit target either (`C20_dfa_shl_no_wrap`), so `trans_len = state_len · 2^stride2`;
* `StateID::new(trans_len.checked_sub(stride).unwrap())` (:472): the id of the last state.
`state_len` (:441-460) is `states.len()` resp. `2·states.len() - 4` and `stride2`
(`util/alphabet.rs:59-62`) are the fields of the transcribed `DfaI`.  The `unwrap`s of `checked_mul`
/ `checked_sub` (:454-459, :472, :481-490) need `4 ≤ states.len() < 2^62` and `1 ≤ max_match_id`. -/
def buildDfaChecked (L : Limits) (n : CNfa) (sk : StartKind) (byteClasses hasPre : Bool) :
    Except BuildErr DfaI :=
  let d := buildDfaIds n sk byteClasses hasPre
  if d.stride2 ≥ usizeBits then .error .stateIdOverflow
  else if (d.stateLen <<< d.stride2) - (1 <<< d.stride2) < L.stateIdLimit then .ok d
  else .error .stateIdOverflow

/-! ## `AhoCorasickBuilder::build` -/

/-- the searcher behind `Arc<dyn AcAutomaton>` -/
inductive Built where
  /-- the noncontiguous NFA as stored (shuffled ids, `Special`) and its dense rows -/
  | nnc (m : NfaI) (rows : Array (Option (Array Nat)))
  | contig (m : ContigM)
  | dfa (d : DfaI)

def Built.kind : Built → AcKind
  | .nnc .. => .noncontiguous
  | .contig .. => .contiguous
  | .dfa .. => .dfa

/-- the noncontiguous NFA handed on by `AhoCorasickBuilder::build` -/
def builtNnc (cfg : BuildCfg) (n : CNfa) : Built :=
  .nnc (buildNfaIds n cfg.hasPre) (buildDenseIds n cfg.nncDenseDepth)

/-- `try_dfa` (ahocorasick.rs:2224-2225) -/
def tryDfa (cfg : BuildCfg) (npats : Nat) : Bool :=
  cfg.startKind != StartKind.both && decide (npats ≤ cfg.autoDfaLimit)

/-- `AhoCorasickBuilder::build_auto` (ahocorasick.rs:2216-2264): infallible; an `Err` of the DFA
builder falls through to the contiguous NFA (:2227-2239), an `Err` of the contiguous builder to the
noncontiguous NFA (:2248-2263) -/
def buildAutoChecked (L : Limits) (cfg : BuildCfg) (npats : Nat) (n : CNfa) : Built :=
  let dfa? : Option DfaI :=
    if tryDfa cfg npats then (buildDfaChecked L n cfg.startKind cfg.byteClasses cfg.hasPre).toOption
    else none
  match dfa? with
  | some d => .dfa d
  | none =>
    match buildContigChecked L n cfg.contigDenseDepth cfg.byteClasses cfg.hasPre with
    | .ok c => .contig c
    | .error _ => builtNnc cfg n

/-- `AhoCorasickBuilder::build` (ahocorasick.rs:2174-2210): the noncontiguous NFA is always built
first and its error returned (`?`, :2179); with an explicit kind the error of the requested builder is
returned (`?`, :2200, :2205) -/
def buildChecked (L : Limits) (cfg : BuildCfg) (P : List (List UInt8)) : Except BuildErr Built := do
  let n ← compileChecked L cfg.matchKind cfg.fold cfg.nncDenseDepth P
  match cfg.kind with
  | none => pure (buildAutoChecked L cfg P.length n)
  | some .noncontiguous => pure (builtNnc cfg n)
  | some .contiguous =>
    let c ← buildContigChecked L n cfg.contigDenseDepth cfg.byteClasses cfg.hasPre
    pure (.contig c)
  | some .dfa =>
    let d ← buildDfaChecked L n cfg.startKind cfg.byteClasses cfg.hasPre
    pure (.dfa d)

/-- the unchecked transcription of `AhoCorasickBuilder::build` for a given final kind -/
def buildUnchecked (cfg : BuildCfg) (P : List (List UInt8)) (kind : AcKind) : Built :=
  let n := compile cfg.matchKind cfg.fold P
  match kind with
  | .noncontiguous => builtNnc cfg n
  | .contiguous => .contig (buildContig n cfg.contigDenseDepth cfg.byteClasses cfg.hasPre)
  | .dfa => .dfa (buildDfaIds n cfg.startKind cfg.byteClasses cfg.hasPre)

/-- the error of a result, if any -/
def errOf {α : Type} : Except BuildErr α → Option BuildErr
  | .error e => some e
  | .ok _ => none

end AcVerif
