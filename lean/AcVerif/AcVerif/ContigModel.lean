import AcVerif.DfaModel
/-!
# L1e: the contiguous NFA (`nfa/contiguous.rs`), transcribed down to its `u32` words

`noncontiguous::Compiler::shuffle` (match states first, then the two start
states: a sequence of swaps), `contiguous::Builder::build_from_noncontiguous`
(`State::write`: dense / one-transition / sparse states, classes packed four to
a word with the last class repeated as padding, the match list packed inline
or with a length prefix; `State::remap`), and the `Automaton` methods of the
contiguous NFA (`next_state` with its three state kinds, `is_match` /
`is_special` by id range, `match_len`, `match_pattern`).
-/
namespace AcVerif
open CNfa

/-- depth stored by `alloc_state`: 0 for the special states, prefix length − 1 for trie nodes -/
def storedDepths (n : CNfa) : Array Nat :=
  -- breadth-first from the unanchored start over trie edges
  let init : Array Nat := Array.replicate n.size 0
  let rec go (fuel : Nat) (frontier : List (Nat × Nat)) (d : Array Nat) : Array Nat :=
    match fuel, frontier with
    | 0, _ => d
    | _, [] => d
    | fuel + 1, (sid, depth) :: rest =>
      let kids := ((n.getD sid {}).trans.filter fun t => t.2 ≥ 4 && t.2 != sid).map (·.2)
      let kids := kids.eraseDups
      let d := kids.foldl (fun d k => d.set! k depth) d
      go fuel (rest ++ kids.map fun k => (k, depth + 1)) d
  go (n.size + 1) [(SU, 0)] init

/-- `shuffle`: `order[newpos] = old id`.  Match states (old ids ≥ 4, in increasing position) are
swapped to positions 4, 5, …; then old position 3 (anchored start) is swapped with the last of
them and old position 2 with the one before. -/
def shuffleOrder (n : CNfa) : Array Nat × Nat :=
  let swap := fun (o : Array Nat) (i j : Nat) =>
    let a := o.getD i 0
    let b := o.getD j 0
    (o.set! i b).set! j a
  let init := Array.range n.size
  let (o, nextAvail) := (List.range n.size).foldl (fun (acc : Array Nat × Nat) i =>
    if i < 4 then acc
    else
      let (o, na) := acc
      if CNfa.isMatch n (o.getD i 0) then (swap o i na, na + 1) else acc) (init, 4)
  let o := swap o 3 (nextAvail - 1)
  let o := swap o 2 (nextAvail - 2)
  (o, nextAvail)

def u32Len (ntrans : Nat) : Nat := if ntrans % 4 == 0 then ntrans / 4 else ntrans / 4 + 1

/-- four class bytes packed into a word (`u32::from_ne_bytes`, little endian) -/
def packChunk (c : List Nat) : Nat :=
  c.getD 0 0 + 256 * c.getD 1 0 + 65536 * c.getD 2 0 + 16777216 * c.getD 3 0

structure ContigM where
  repr : Array Nat
  alphabetLen : Nat
  classOf : UInt8 → Nat
  startU : Nat
  startA : Nat
  maxMatchId : Nat
  maxSpecialId : Nat

def KIND_DENSE : Nat := 0xFF
def KIND_ONE : Nat := 0xFE

/-- `State::write` for one state; transitions still carry (shuffled) noncontiguous ids -/
def writeState (classOf : UInt8 → Nat) (alphabetLen : Nat) (st : CState) (newId : Nat → Nat)
    (forceDense : Bool) : List Nat :=
  let trans := st.trans.map fun (b, t) => (classOf b, newId t)
  let oldLen := trans.length
  let isMatch := !st.matches_.isEmpty
  let fail := newId st.fail
  let head : List Nat :=
    if forceDense || oldLen > 127 then
      let dense := trans.foldl (fun (row : Array Nat) (c, t) => row.set! c t) (Array.replicate alphabetLen FAIL)
      [KIND_DENSE, fail] ++ dense.toList
    else if oldLen == 1 && !isMatch then
      match trans with
      | [(c, t)] => [KIND_ONE + c * 256, fail, t]
      | _ => []
    else
      let classes := trans.map (·.1)
      let rec chunks (l : List Nat) (fuel : Nat) : List Nat :=
        match fuel, l with
        | 0, _ => []
        | _, [] => []
        | fuel + 1, l =>
          let c := l.take 4
          let padded := c ++ List.replicate (4 - c.length) (c.getLastD 0)
          packChunk padded :: chunks (l.drop 4) fuel
      [oldLen, fail] ++ chunks classes (oldLen + 1) ++ trans.map (·.2)
  let tail : List Nat :=
    if !isMatch then []
    else match st.matches_ with
      | [pid] => [2147483648 + pid]
      | ms => ms.length :: ms
  head ++ tail

/-- `contiguous::Builder::build_from_noncontiguous` applied to the shuffled noncontiguous NFA -/
def buildContig (n : CNfa) (denseDepth : Nat) (byteClasses hasPre : Bool) : ContigM :=
  let marks := marksOf (trieBytes n)
  let classOf : UInt8 → Nat := if byteClasses then classOfMarks marks else fun b => b.toNat
  let alphabetLen := classOf 255 + 1
  let (order, nextAvail) := shuffleOrder n
  let depths := storedDepths n
  -- old id -> shuffled position
  let pos : Array Nat := (List.range n.size).foldl (fun (p : Array Nat) i => p.set! (order.getD i 0) i)
    (Array.replicate n.size 0)
  -- first pass: sizes, to know every state's offset (`index_to_state_id`)
  let sizes := (List.range n.size).map fun i =>
    let old := order.getD i 0
    if i == FAIL then 0
    else (writeState classOf alphabetLen (n.getD old {}) (fun t => t) (depths.getD old 0 < denseDepth)).length
  let offsets : Array Nat := ((List.range n.size).foldl (fun (acc : Array Nat × Nat) i =>
    let (o, cur) := acc
    if i == FAIL then (o.push FAIL, cur) else (o.push cur, cur + sizes.getD i 0)) (#[], 0)).1
  let newId := fun (oldId : Nat) => offsets.getD (pos.getD oldId 0) 0
  let repr := (List.range n.size).foldl (fun (r : Array Nat) i =>
    let old := order.getD i 0
    if i == FAIL then r
    else r ++ (writeState classOf alphabetLen (n.getD old {}) newId (depths.getD old 0 < denseDepth)).toArray) #[]
  let startA := offsets.getD (nextAvail - 1) 0
  let startU := offsets.getD (nextAvail - 2) 0
  let maxMatch0 := offsets.getD (nextAvail - 3) 0
  let maxMatch := if CNfa.isMatch n SA then startA else maxMatch0
  { repr := repr, alphabetLen := alphabetLen, classOf := classOf, startU := startU, startA := startA,
    maxMatchId := maxMatch, maxSpecialId := if hasPre then startA else maxMatch }

/-- `NFA::next_state` of the contiguous NFA -/
def ContigM.nextState (m : ContigM) (anch : Bool) : Nat → Nat → UInt8 → Nat × Nat → Nat × Nat
  | 0, sid, _, acc => (sid, acc.2)
  | fuel + 1, sid, byte, acc =>
    let cls := m.classOf byte
    let w := fun (i : Nat) => m.repr.getD i 0
    let kind := w sid % 256
    let found : Option Nat :=
      if kind == KIND_DENSE then
        let next := w (sid + 2 + cls)
        if next != FAIL then some next else none
      else if kind == KIND_ONE then
        if cls == (w sid / 256) % 256 then some (w (sid + 2)) else none
      else
        let transLen := kind
        let classesLen := u32Len transLen
        let transOffset := sid + 2 + classesLen
        (List.range classesLen).findSome? fun i =>
          let chunk := w (sid + 2 + i)
          if chunk % 256 == cls then some (w (transOffset + i * 4))
          else if (chunk / 256) % 256 == cls then some (w (transOffset + i * 4 + 1))
          else if (chunk / 65536) % 256 == cls then some (w (transOffset + i * 4 + 2))
          else if (chunk / 16777216) % 256 == cls then some (w (transOffset + i * 4 + 3))
          else none
    match found with
    | some next => (next, acc.2)
    | none =>
      if anch then (DEAD, acc.2)
      else m.nextState anch fuel (w (sid + 1)) byte (0, acc.2 + 1)

/-- offset of the match words of the state at `sid` -/
def ContigM.matchStart (m : ContigM) (sid : Nat) : Nat :=
  let kind := m.repr.getD sid 0 % 256
  if kind == KIND_DENSE then sid + 2 + m.alphabetLen
  else sid + 2 + u32Len kind + kind

def ContigM.matchList (m : ContigM) (sid : Nat) : List Nat :=
  let start := m.matchStart sid
  let packed := m.repr.getD start 0
  if packed ≥ 2147483648 then [packed - 2147483648]
  else (List.range packed).map fun i => m.repr.getD (start + 1 + i) 0

def ContigM.toAut (m : ContigM) (k : MatchKind) (P : List (List UInt8)) (hasPre : Bool) : Aut Nat UInt8 where
  start := fun anch => some (if anch then m.startA else m.startU)
  next := fun anch sid b => (m.nextState anch (m.repr.size + 1) sid b (0, 0)).1
  isDead := fun q => q == 0
  isMatch := fun q => q != 0 && q ≤ m.maxMatchId
  isStart := fun q => q == m.startU || q == m.startA
  isSpecial := fun q => q ≤ m.maxSpecialId
  mpats := fun q => if q != 0 && q ≤ m.maxMatchId then m.matchList q else []
  patLen := fun pid => (P.getD pid []).length
  patternsLen := P.length
  minLen := (P.map List.length).foldl min 18446744073709551615
  maxLen := (P.map List.length).foldl max 0
  kind := k
  hasPre := hasPre

end AcVerif
