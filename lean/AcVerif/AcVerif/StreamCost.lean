import AcVerif.Engine.Stream
/-!
# Work of a stream search (C19)

`StreamChunkIter` feeds every byte it scans to the automaton and advances `absolute_pos` by the
number of bytes scanned, so the number of automaton transitions of a whole stream search is the
final `absPos` of the drained iterator.  `streamTransitions` returns it; the instrumented real
code counts its `next_state` calls in `StreamChunkIter::next`, and the two are compared exactly.
A roll never moves `absPos` back, so no byte is fed twice however the reader splits the stream
(`C19_stream_transitions`).
-/
namespace AcVerif
variable {σ α : Type}

/-- `ChunkIter.drain`, returning the iterator it stops in -/
def ChunkIter.drainEnd (A : Aut σ α) : Nat → ChunkIter σ α → ChunkIter σ α
  | 0, it => it
  | n + 1, it =>
    match ChunkIter.next A it (nextFuel it) with
    | (.done, it') => it'
    | (.ioErr, it') => it'
    | (.chunk _, it') => ChunkIter.drainEnd A n it'

/-- number of `next_state` calls of a whole stream search -/
def streamTransitions (A : Aut σ α) (rdr : Reader α) (spare : Option Nat)
    (minFactor : Nat := 8) (defaultCap : Nat := 64 * 1024) : Except MatchErr Nat :=
  match ChunkIter.new A rdr spare minFactor defaultCap with
  | .error e => .error e
  | .ok it => .ok (ChunkIter.drainEnd A (drainFuel rdr.data) it).absPos

end AcVerif
