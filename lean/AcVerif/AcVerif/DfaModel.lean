import AcVerif.Compiler
/-!
# L1d: the DFA builder (`dfa.rs`, `Builder::build_from_noncontiguous`), transcribed

From the compiled noncontiguous NFA (`CNfa`, pre-shuffle ids) the builder
fills one row per NFA state and byte *class*: `sparse_iter` walks the sorted
sparse transitions of the NFA state, calling back once per class with the
class representative and either the explicit target or `FAIL`; a `FAIL` is
resolved to the dead state (anchored row, or failure link is the dead state)
or by `nnfa.next_state(Anchored::No, state.fail(), byte)`.  With
`StartKind::Both` every NFA state (except dead / fail / the two start
states) gets two rows, an unanchored and an anchored one, interleaved, and
targets are remapped afterwards.  Byte classes are those of the NFA
(`ByteClassSet::byte_classes`: a boundary after `b-1` and after `b` for every
byte `b` inserted in the trie) or singletons.

Not modelled: premultiplied state ids (`<< stride2`), the id-range encoding of
the special flags (`Special`), which renumber / re-encode; flags are taken
from the NFA states.
-/
namespace AcVerif
open CNfa

/-- bytes marked in the `ByteClassSet` by `build_trie`: `set_range(b, b)` for every
byte that `build_trie` looks at (it marks the byte before following or creating the
edge), i.e. every edge byte of the trie, plus the opposite case when folding -/
def trieBytes (n : CNfa) : List UInt8 :=
  (List.range n.size).flatMap fun sid =>
    if sid == DEAD || sid == FAIL || sid == SU || sid == SA then
      -- the start states hold all 256 entries; only those leading to trie nodes were inserted
      if sid == SU then ((n.getD sid {}).trans.filter fun t => t.2 != FAIL && t.2 != SU && t.2 != DEAD).map (·.1) else []
    else (n.getD sid {}).trans.map (·.1)

/-- `ByteClassSet::byte_classes`: the class of `b` is the number of boundary marks below `b` -/
def classOfMarks (marks : List UInt8) (b : UInt8) : Nat :=
  ((List.range b.toNat).filter fun m => marks.contains m.toUInt8).length

/-- the boundary marks of `set_range(b, b)`: `b - 1` (if `b > 0`) and `b` -/
def marksOf (bytes : List UInt8) : List UInt8 :=
  bytes.flatMap fun b => if b > 0 then [b - 1, b] else [b]

/-- `sparse_iter`: one callback per class, in ascending order, with the class
representative (the first byte of the class that the walk meets) -/
def sparseIter (trans : List (UInt8 × Nat)) (classOf : UInt8 → Nat) : List (UInt8 × Nat × Nat) :=
  let step := fun (acc : List (UInt8 × Nat × Nat) × Option Nat) (rep : UInt8) (next : Nat) =>
    let cls := classOf rep
    if acc.2 != some cls then (acc.1 ++ [(rep, cls, next)], some cls) else acc
  -- walk bytes 0..255 in order; a byte with an explicit transition reports it, others report FAIL
  ((List.range 256).foldl (fun acc i =>
    let b := i.toUInt8
    match trans.find? (·.1 == b) with
    | some t => step acc b t.2
    | none => step acc b FAIL) ([], none)).1

structure DfaM where
  /-- one row per DFA state: target per class -/
  rows : Array (Array Nat)
  classOf : UInt8 → Nat
  matches_ : Array (List Nat)
  startU : Option Nat
  startA : Option Nat
  dead : Nat := 0

/-- resolution of a `FAIL` entry for an unanchored row -/
def resolveFail (n : CNfa) (sid : Nat) (byte : UInt8) : Nat :=
  let f := (n.getD sid {}).fail
  if f == DEAD then DEAD else (nextState n false (n.size + 1) f byte 0).1

/-- the row of NFA state `sid` (targets are NFA ids) -/
def dfaRow (n : CNfa) (classOf : UInt8 → Nat) (nclasses : Nat) (anch : Bool) (sid : Nat) : Array Nat :=
  (sparseIter (n.getD sid {}).trans classOf).foldl (fun row (byte, cls, next) =>
    let next := if next == FAIL then (if anch then DEAD else resolveFail n sid byte) else next
    row.set! cls next) (Array.replicate nclasses DEAD)

/-- `finish_build_one_start` -/
def buildOne (n : CNfa) (classOf : UInt8 → Nat) (nclasses : Nat) (anch : Bool) : DfaM :=
  { rows := (Array.range n.size).map (dfaRow n classOf nclasses anch)
    classOf := classOf
    matches_ := (Array.range n.size).map fun sid => (n.getD sid {}).matches_
    startU := if anch then none else some SU
    startA := if anch then some SA else none }

/-- `finish_build_both_starts`: DFA ids are assigned in NFA id order, one id for
dead / fail / each start state, two (unanchored, anchored) for every other state -/
def buildBoth (n : CNfa) (classOf : UInt8 → Nat) (nclasses : Nat) : DfaM :=
  let single := fun (sid : Nat) => sid == DEAD || sid == FAIL || sid == SU || sid == SA
  -- remap tables
  let (remU, remA, _) := (List.range n.size).foldl (fun (acc : Array Nat × Array Nat × Nat) sid =>
    let (ru, ra, next) := acc
    if sid == DEAD || sid == FAIL then (ru.push next, ra.push next, next + 1)
    else if sid == SU then (ru.push next, ra.push 0, next + 1)
    else if sid == SA then (ru.push 0, ra.push next, next + 1)
    else (ru.push next, ra.push (next + 1), next + 2)) (#[], #[], 0)
  let rowsAndMatches := (List.range n.size).foldl (fun (acc : Array (Array Nat) × Array (List Nat)) sid =>
    let (rows, ms) := acc
    let m := (n.getD sid {}).matches_
    if sid == DEAD || sid == FAIL then (rows.push (Array.replicate nclasses 0), ms.push [])
    else if sid == SU || sid == SA then
      -- start states: explicit targets, FAIL becomes dead; remapped by the table of the state's own kind
      let rem := if sid == SU then remU else remA
      let row := (sparseIter (n.getD sid {}).trans classOf).foldl (fun row (_, cls, next) =>
        row.set! cls (if next == FAIL then 0 else rem.getD next 0)) (Array.replicate nclasses 0)
      (rows.push row, ms.push m)
    else
      let urow := (dfaRow n classOf nclasses false sid).map fun t => remU.getD t 0
      -- anchored row: only explicit transitions, everything else stays dead
      let arow := (sparseIter (n.getD sid {}).trans classOf).foldl (fun row (_, cls, next) =>
        if next == FAIL then row else row.set! cls (remA.getD next 0)) (Array.replicate nclasses 0)
      ((rows.push urow).push arow, (ms.push m).push m)) (#[], #[])
  let _ := single
  { rows := rowsAndMatches.1, classOf := classOf, matches_ := rowsAndMatches.2,
    startU := some (remU.getD SU 0), startA := some (remA.getD SA 0) }

/-- `dfa::Builder::build_from_noncontiguous` for the given start kind -/
def buildDfa (n : CNfa) (sk : StartKind) (byteClasses : Bool) : DfaM :=
  let marks := marksOf (trieBytes n)
  let classOf : UInt8 → Nat := if byteClasses then classOfMarks marks else fun b => b.toNat
  let nclasses := classOf 255 + 1
  match sk with
  | .unanchored => buildOne n classOf nclasses false
  | .anchored => buildOne n classOf nclasses true
  | .both => buildBoth n classOf nclasses

def DfaM.toAut (d : DfaM) (k : MatchKind) (P : List (List UInt8)) (hasPre : Bool) : Aut Nat UInt8 where
  start := fun anch => if anch then d.startA else d.startU
  next := fun _ sid b => (d.rows.getD sid #[]).getD (d.classOf b) d.dead
  isDead := fun q => q == d.dead
  isMatch := fun q => q != d.dead && !(d.matches_.getD q []).isEmpty
  isStart := fun q => some q == d.startU || some q == d.startA
  isSpecial := fun q => q == d.dead || !(d.matches_.getD q []).isEmpty ||
    (hasPre && (some q == d.startU || some q == d.startA))
  mpats := fun q => d.matches_.getD q []
  patLen := fun pid => (P.getD pid []).length
  patternsLen := P.length
  minLen := (P.map List.length).foldl min 18446744073709551615
  maxLen := (P.map List.length).foldl max 0
  kind := k
  hasPre := hasPre

end AcVerif
