import AcVerif.TopLevel
/-!
# The top level, part 2: the stream replace methods, sub-slice inputs, error projection

Additions to `TopLevel.lean` (same conventions):

* `topStreamReplaceAllWith` (`AhoCorasick::try_stream_replace_all_with`, ahocorasick.rs:1832-1847):
  `enforce_anchored_consistency(self.start_kind, Anchored::No)?` followed by
  `Automaton::try_stream_replace_all_with` (automaton.rs:608-637, model `streamReplaceWith`,
  `Engine/Stream.lean`).  Both the gate's `MatchError` and the one of `StreamChunkIter::new` are
  wrapped into an `io::Error` of kind `Other` by the real code; the model keeps the `MatchErr`
  (`.error e`) apart from genuine I/O failures (the `Bool` of the result).
* `topStreamReplaceAll` (`AhoCorasick::try_stream_replace_all`, ahocorasick.rs:1754-1768): the gate,
  then `Automaton::try_stream_replace_all` (automaton.rs:578-600): `assert_eq!(replace_with.len(),
  self.patterns_len())` – a panic, `OrPanic.panic` – then `try_stream_replace_all_with` with the
  closure `wtr.write_all(replace_with[mat.pattern()])`.
* `Input.slice`: the input that searches the whole sub-slice `haystack[start..end]` with the same
  anchoring and `earliest` flag (the other side of C10).
* `matchErrOf`: the error of a result, if any (to state C13 as one equation per method).
-/
namespace AcVerif

/-- a result that may instead be a panic of the real method (a failed `assert!`) -/
inductive OrPanic (β : Type) where
  | panic
  | ret (b : β)

/-- the `MatchError` a method returned, if any -/
def matchErrOf {β : Type} : Except MatchErr β → Option MatchErr
  | .error e => some e
  | .ok _ => none

/-- "the pattern list contains the empty pattern" (`min_pattern_len() == 0`) -/
abbrev hasEmptyPat (P : List (List UInt8)) : Bool := decide ([] ∈ P)

/-- `Input::new(&haystack[i.start()..i.end()])` with the anchoring and `earliest` flag of `i`:
the search of the whole sub-slice -/
def Input.slice {α : Type} (i : Input α) : Input α :=
  { hay := (i.hay.take i.e).drop i.s, s := 0, e := i.e - i.s, anch := i.anch,
    earliest := i.earliest,
    valid := ⟨by
      have := i.valid.1
      simp only [List.length_drop, List.length_take]
      omega, Nat.zero_le _⟩ }

/-- `AhoCorasick::try_stream_replace_all_with(rdr, wtr, replace_with)`: the closure writes `repl m`
to the writer (and is logged with the bytes it was handed).  Result: the writer, the closure log,
`true` iff no I/O error ended the loop, and the number of `read` calls made with an empty buffer. -/
def topStreamReplaceAllWith (s : Searcher) (rdr : Reader UInt8) (spare : Option Nat)
    (w : Writer UInt8) (repl : Mat → List UInt8)
    (minFactor : Nat := 8) (defaultCap : Nat := 64 * 1024) :
    Except MatchErr (Writer UInt8 × List (Mat × List UInt8) × Bool × Nat) :=
  match anchoredGate s.cfg.startKind false with
  | some e => .error e
  | none => streamReplaceWith s.aut rdr spare w repl minFactor defaultCap

/-- `AhoCorasick::try_stream_replace_all(rdr, wtr, replace_with)`: after the gate, the assertion
`replace_with.len() == patterns_len()` (a panic when it fails, before `StreamChunkIter::new` is
reached), then the loop with the closure `wtr.write_all(replace_with[mat.pattern()])`.  Result: the
writer, `true` iff no I/O error, the number of `read` calls made with an empty buffer. -/
def topStreamReplaceAll (s : Searcher) (rdr : Reader UInt8) (spare : Option Nat)
    (w : Writer UInt8) (replaceWith : List (List UInt8))
    (minFactor : Nat := 8) (defaultCap : Nat := 64 * 1024) :
    Except MatchErr (OrPanic (Writer UInt8 × Bool × Nat)) :=
  match anchoredGate s.cfg.startKind false with
  | some e => .error e
  | none =>
    if replaceWith.length ≠ s.aut.patternsLen then .ok .panic
    else
      match streamReplaceWith s.aut rdr spare w (fun m => replaceWith.getD m.pid []) minFactor
          defaultCap with
      | .error e => .error e
      | .ok r => .ok (.ret (r.1, r.2.2.1, r.2.2.2))

end AcVerif
