import AcVerif.Engine.Stream
/-!
# L2: stream search – pulling on after a read error (transient fault)

`Engine/Stream.lean` models a read error as the END of the search.  The real
`StreamFindIter` only *yields* `Some(Err(e))`; the caller may keep pulling.  In
`StreamChunkIter::next` the refill step is

    if buf.len() >= min { buffer_pos = min; buffer_reported_pos -= ..; buf.roll(); }
    match self.buf.fill(&mut self.rdr) { Err(err) => return Some(Err(err)), .. }

and `Buffer::fill` loops `rdr.read(free_buffer)?` having already advanced
`self.end` for the earlier iterations, so on an error

* the iterator is the ALREADY rolled / shifted one,
* the bytes read by earlier iterations of the same `fill` call STAY in the buffer,
* the failed `read` call counts as a call (the schedule entry of that index is
  skipped), and the reader works again afterwards (a transient, one-shot fault).

The `…T` definitions below transcribe exactly that; they are the originals with
the error case changed, so that lemmas transfer.
-/
namespace AcVerif
variable {σ α : Type}

/-- one `read(buf)` call with `room = buf.len()`; the call whose index is
`failAt` fails ONCE: it is counted, delivers nothing, and the reader goes on -/
def Reader.readT (r : Reader α) (room : Nat) : Except (Reader α) (List α × Reader α) :=
  if r.failAt == some r.calls then
    .error { r with calls := r.calls + 1,
                    emptyReads := r.emptyReads + (if room = 0 then 1 else 0) }
  else
    let want := match r.sched[r.calls]? with | some w => w | none => room
    let n := min (min want room) (r.data.length - r.pos)
    .ok ((r.data.drop r.pos).take n,
      { r with pos := r.pos + n, calls := r.calls + 1,
               emptyReads := r.emptyReads + (if room = 0 then 1 else 0) })

/-- `Buffer::fill` over `readT`: on an error the buffer (with the bytes the
earlier iterations of this call appended) and the reader are returned as they
are at that moment -/
def Buffer.fillT (b : Buffer α) (r : Reader α) (readany : Bool) :
    Nat → Except (Buffer α × Reader α) (Bool × Buffer α × Reader α)
  | 0 => .ok (readany, b, r)
  | fuel + 1 =>
    match r.readT (b.cap - b.buf.length) with
    | .error r' => .error (b, r')
    | .ok (bytes, r') =>
      if bytes.length = 0 then .ok (readany, b, r')
      else
        let b' := { b with buf := b.buf ++ bytes }
        if b'.buf.length ≥ b'.min then .ok (true, b', r')
        else Buffer.fillT b' r' true fuel

/-- `StreamChunkIter::next` (one call) over `fillT`: on an error the iterator
keeps the roll / shift already done and the partially filled buffer -/
def ChunkIter.nextT (A : Aut σ α) (it : ChunkIter σ α) : Nat → NextResult σ α × ChunkIter σ α
  | 0 => (.done, it)
  | fuel + 1 =>
    if A.isMatch it.sid then
      let mat := getMatch A it.sid 0 it.absPos
      let len := mat.stop - mat.start
      let bufMatStart := it.bufPos - len
      if bufMatStart > it.reported then
        -- get_non_match_chunk
        let bytes := (it.buf.buf.take bufMatStart).drop it.reported
        (.chunk (.nonMatch bytes), { it with reported := it.reported + (bufMatStart - it.reported) })
      else
        let bytes := (it.buf.buf.take it.bufPos).drop bufMatStart
        (.chunk (.mtch bytes mat),
          { it with sid := it.start, reported := it.reported + (it.bufPos - bufMatStart) })
    else if it.bufPos ≥ it.buf.buf.length then
      let preEnd := it.buf.buf.length - it.buf.min
      if it.reported < preEnd then
        -- get_pre_roll_non_match_chunk
        let bytes := (it.buf.buf.take preEnd).drop it.reported
        (.chunk (.nonMatch bytes), { it with reported := it.reported + (preEnd - it.reported) })
      else
        let it :=
          if it.buf.buf.length ≥ it.buf.min then
            { it with bufPos := it.buf.min,
                      reported := it.reported - (it.buf.buf.length - it.buf.min),
                      buf := it.buf.roll }
          else it
        match it.buf.fillT it.rdr false (it.rdr.data.length - it.rdr.pos + 1) with
        | .error (b', r') => (.ioErr, { it with buf := b', rdr := r' })
        | .ok (false, b, r) =>
          let it := { it with buf := b, rdr := r }
          if it.reported < it.buf.buf.length then
            let bytes := it.buf.buf.drop it.reported
            (.chunk (.nonMatch bytes), { it with reported := it.buf.buf.length })
          else (.done, it)
        | .ok (true, b, r) =>
          let it := { it with buf := b, rdr := r }
          let (sid, n) := scanBytes A it.sid 0 (it.buf.buf.drop it.bufPos)
          ChunkIter.nextT A { it with sid := sid, absPos := it.absPos + n, bufPos := it.bufPos + n } fuel
    else
      let (sid, n) := scanBytes A it.sid 0 (it.buf.buf.drop it.bufPos)
      ChunkIter.nextT A { it with sid := sid, absPos := it.absPos + n, bufPos := it.bufPos + n } fuel

/-- the caller keeps pulling: every item until `None`, `none` standing for an
`Err` item; also the reader's `emptyReads` at the end -/
def ChunkIter.drainT (A : Aut σ α) : Nat → ChunkIter σ α → List (Option (Chunk α)) × Nat
  | 0, it => ([], it.rdr.emptyReads)
  | n + 1, it =>
    match ChunkIter.nextT A it (nextFuel it) with
    | (.done, it') => ([], it'.rdr.emptyReads)
    | (.ioErr, it') =>
      let (cs, er) := ChunkIter.drainT A n it'
      (none :: cs, er)
    | (.chunk c, it') =>
      let (cs, er) := ChunkIter.drainT A n it'
      (some c :: cs, er)

/-- `drainFuel` plus the pull that yields the error item (and one to spare) -/
def drainFuelT (data : List α) : Nat := 2 * data.length + 6

/-- what `StreamFindIter` shows of a chunk-level item: non-match chunks are
skipped, an error item is passed on -/
def findItem : Option (Chunk α) → Option (Option Mat)
  | none => some none
  | some (.mtch _ m) => some (some m)
  | some (.nonMatch _) => none

/-- `StreamFindIter` pulled until `None`: `some m` for `Some(Ok(m))`, `none`
for `Some(Err(_))`; then `emptyReads` -/
def streamFindT (A : Aut σ α) (rdr : Reader α) (spare : Option Nat)
    (minFactor : Nat := 8) (defaultCap : Nat := 64 * 1024) :
    Except MatchErr (List (Option Mat) × Nat) :=
  match ChunkIter.new A rdr spare minFactor defaultCap with
  | .error e => .error e
  | .ok it =>
    let (cs, er) := ChunkIter.drainT A (drainFuelT rdr.data) it
    .ok (cs.filterMap findItem, er)

end AcVerif
