import AcVerif.Codec
import AcVerif.Spec
import AcVerif.Ideal
import AcVerif.Fold
import AcVerif.Table
import AcVerif.Cert
import AcVerif.Engine.Find
import AcVerif.Engine.Overlap
import AcVerif.Engine.Iter
import AcVerif.Engine.Recipe
import AcVerif.Engine.Gates
import AcVerif.Engine.Replace
import AcVerif.Engine.Stream
import AcVerif.Packed.Model
import AcVerif.Packed.Vector
import AcVerif.Pre.Builder
import AcVerif.Cost
import AcVerif.CostOverlap
import AcVerif.PreScan
import AcVerif.StreamCost
import AcVerif.MemUsage
import AcVerif.NfaMemCompile
import AcVerif.TopLevel
import AcVerif.TopLevel2
import AcVerif.StreamResume
import AcVerif.Compiler
import AcVerif.DfaModel
import AcVerif.DfaIds
import AcVerif.NfaIds
import AcVerif.ContigModel
import AcVerif.DenseModel
/-!
# Line-protocol driver: the model's answer to each request
-/
namespace AcVerif

/-- decision constants from the request (Tie C), defaults = pinned tree -/
def constsOf (r : Req) : Consts :=
  let d : Consts := {}
  { patternLimit := r.natD "K_PATTERN_LIMIT" d.patternLimit
    teddyPatternLimit := r.natD "K_TEDDY_PATTERN_LIMIT" d.teddyPatternLimit
    teddyMask1Limit := r.natD "K_TEDDY_MASK1_LIMIT" d.teddyMask1Limit
    teddyBeefy := r.natD "K_TEDDY_BEEFY" d.teddyBeefy
    prePackedPatlen := r.natD "K_PREFILTER_PACKED_PATLEN" d.prePackedPatlen
    preRankSlack := r.natD "K_PREFILTER_RANK_SLACK" d.preRankSlack
    bufferDefaultCap := r.natD "K_DEFAULT_BUFFER_CAPACITY_KB" 64 * 1024
    bufferMinFactor := r.natD "K_BUFFER_MIN_FACTOR" d.bufferMinFactor
    autoDfaLimit := r.natD "K_AUTO_DFA_LIMIT" d.autoDfaLimit }

/-- the searcher model for a request + configuration -/
structure Model where
  A : Aut (St UInt8) UInt8
  P : List Bytes          -- patterns as matched (folded when case-insensitive)
  fold : Bool
  kind : MatchKind

def mkModel (r : Req) (sk : StartKind) : Option Model := do
  let P ← r.list? "pats"
  let k ← MatchKind.parse (r.getD "mk" "std")
  let fold := r.flag "fold"
  let P' := if fold then P.map (·.map foldByte) else P
  let A := ideal k P' sk false
  pure { A := if fold then A.comap foldByte else A, P := P', fold := fold, kind := k }

def mkInput (r : Req) (hay : Bytes) : Option (Input UInt8) :=
  let s := r.natD "s" 0
  let e := r.natD "e" hay.length
  if h : e ≤ hay.length ∧ s ≤ e + 1 then
    some { hay := hay, s := s, e := e, anch := r.flag "anch", earliest := r.flag "earliest", valid := h }
  else none

/-- `enforce_anchored_consistency` -/
def enforceAnchored (have_ : StartKind) (want : Bool) : Except MatchErr Unit :=
  match have_, want with
  | .both, _ => .ok ()
  | .unanchored, false => .ok ()
  | .unanchored, true => .error .invalidInputAnchored
  | .anchored, true => .ok ()
  | .anchored, false => .error .invalidInputUnanchored

def fmtExcept {β : Type} (f : β → String) : Except MatchErr β → String
  | .ok b => f b
  | .error e => e.name

def drvSpecHay (m : Model) (hay : Bytes) : Bytes := if m.fold then hay.map foldByte else hay

/-- answer of one op for one configuration -/
def answer (r : Req) (c : Cfg) : String :=
  match mkModel r c.autStartKind with
  | none => "bad-request:model"
  | some m =>
    let gate : Bool → Except MatchErr Unit := fun anch =>
      if c.isTop then enforceAnchored c.sk anch else .ok ()
    match r.op with
    | "find" | "ismatch" =>
      match (r.bytes? "hay").bind (mkInput r) with
      | none => "bad-request:input"
      | some i0 =>
        let i := if r.op == "ismatch" then { i0 with earliest := true } else i0
        let res : Except MatchErr (Option Mat) := do
          gate i.anch
          tryFindFwd m.A none i
        -- cross-check the model against the executable specification
        let spec := findSpec m.kind m.P (drvSpecHay m i.hay) i.s i.e i.anch
        let chk := match res with
          | .ok got =>
            if i.earliest && m.kind != .std then
              -- earliest mode on leftmost kinds: existence must agree (C14)
              if got.isSome == spec.isSome then "" else s!" MODEL-SPEC-MISMATCH spec={fmtOpt spec}"
            else if got == spec then "" else s!" MODEL-SPEC-MISMATCH spec={fmtOpt spec}"
          | .error _ => ""
        if r.op == "ismatch" then
          fmtExcept (fun o => toString o.isSome) res ++ chk
        else fmtExcept fmtOpt res ++ chk
    | "iter" =>
      match (r.bytes? "hay").bind (mkInput r) with
      | none => "bad-request:input"
      | some i =>
        let res : Except MatchErr (List Mat) := do
          gate i.anch
          findIter m.A none i
        let spec := iterSpec (fun st => findSpec m.kind m.P (drvSpecHay m i.hay) st i.e i.anch) i.s i.e
        let chk := match res with
          | .ok got => if got == spec || i.earliest then "" else
              s!" MODEL-SPEC-MISMATCH spec={fmtList (spec.map fmtMat)}"
          | .error _ => ""
        fmtExcept (fun l => fmtList (l.map fmtMat)) res ++ chk
    | "ovl" =>
      match (r.bytes? "hay").bind (mkInput r) with
      | none => "bad-request:input"
      | some i =>
        let n := r.natD "n" 1
        match gate i.anch with
        | .error e => fmtList [e.name]
        | .ok () =>
          let outs := ovlCalls m.A none i n OState.start
          let strs := outs.map fun o => match o with
            | .ok none => "-"
            | .ok (some x) => fmtMat x
            | .error e => e.name
          let spec := overlapSpec m.P (drvSpecHay m i.hay) i.s i.e i.anch
          let got := outs.filterMap fun o => match o with | .ok (some x) => some x | _ => none
          let chk := if m.kind == .std && (A_ok outs) && got != spec.take got.length then
              s!" MODEL-SPEC-MISMATCH spec={fmtList (spec.map fmtMat)}" else ""
          fmtList strs ++ chk
    | "ovliter" =>
      match (r.bytes? "hay").bind (mkInput r) with
      | none => "bad-request:input"
      | some i =>
        let res : Except MatchErr (List Mat) := do
          gate i.anch
          if m.kind != .std then throw .unsupportedOverlapping
          if i.anch then throw .invalidInputAnchored
          match m.A.start i.anch with
          | none => throw (if i.anch then .invalidInputAnchored else .invalidInputUnanchored)
          | some _ => pure ()
          pure (ovlIterAux m.A none i ((i.e + 2 - i.s) * (m.P.length + 1)) OState.start)
        let spec := overlapSpec m.P (drvSpecHay m i.hay) i.s i.e i.anch
        let chk := match res with
          | .ok got => if got == spec then "" else
              s!" MODEL-SPEC-MISMATCH spec={fmtList (spec.map fmtMat)}"
          | .error _ => ""
        fmtExcept (fun l => fmtList (l.map fmtMat)) res ++ chk
    | "replace" =>
      match r.bytes? "hay", r.list? "repl" with
      | some hay, some repl =>
        let variant := r.getD "variant" "bytes"
        let stop := r.nat? "stop"
        let whole : Input UInt8 := { hay := hay, s := 0, e := hay.length, valid := ⟨Nat.le_refl _, Nat.zero_le _⟩ }
        let res : Except MatchErr (List Mat) := do
          gate false
          findIter m.A none whole
        match res with
        | .error e => e.name
        | .ok ms =>
          let fmtLog := fun (log : List (Mat × Bytes)) => fmtList (log.map fun (x, b) => s!"{fmtMat x}/{hex b}")
          match variant with
          | "bytes" =>
            if repl.length != m.P.length then "panic"
            else hex (replaceBytes hay ms (fun x => repl.getD x.pid []) none).1
          | "withbytes" =>
            let (o, log) := replaceBytes hay ms (fun x => repl.getD (x.pid % (max repl.length 1)) []) stop
            s!"{hex o} {fmtLog log}"
          | "str" =>
            if repl.length != m.P.length then "panic"
            else s!"{hex (replaceStr hay ms (fun x => repl.getD x.pid []) none).1} utf8=1"
          | "withstr" =>
            let (o, log) := replaceStr hay ms (fun x => repl.getD (x.pid % (max repl.length 1)) []) stop
            s!"{hex o} utf8=1 {fmtLog log}"
          | _ => "bad-variant"
      | _, _ => "bad-request:input"
    | "stream" | "streamrep" | "streamrepwith" =>
      match r.bytes? "hay", r.nums? "sched" with
      | some data, some sched =>
        let rdr : Reader UInt8 := { data := data, sched := sched, failAt := r.nat? "rfail" }
        -- the capacity: an explicit spare room, else the OBSERVED capacity of the real `Buffer::new`
        -- (`cap=`, Tie C by observation), else the formula with the extracted constants
        let spare := match r.nat? "spare", r.nat? "cap" with
          | some sp, _ => some sp
          | none, some cap => some (cap - max 1 m.A.maxLen)
          | none, none => none
        match gate false with
        | .error e => s!"{e.name} emptyreads=0"
        | .ok () =>
          if r.op == "stream" && r.flag "resume" then
            -- the caller keeps pulling after the error item of a transient read fault (`StreamResume.lean`)
            match streamFindT m.A rdr spare (constsOf r).bufferMinFactor (constsOf r).bufferDefaultCap with
            | .error e => s!"{e.name} emptyreads=0"
            | .ok (items, er) =>
              s!"{fmtList (items.map fun | some x => fmtMat x | none => "io-err")} emptyreads={er}"
          else if r.op == "stream" then
            match streamFind m.A rdr spare (constsOf r).bufferMinFactor (constsOf r).bufferDefaultCap with
            | .error e => s!"{e.name} emptyreads=0"
            | .ok (ms, err, er) =>
              s!"{fmtList (ms.map fmtMat ++ (if err then ["io-err"] else []))} emptyreads={er}"
          else
            match r.list? "repl" with
            | none => "bad-request:repl"
            | some repl =>
              let w : Writer UInt8 := { limit := r.nat? "wlimit" }
              if r.op == "streamrep" && repl.length != m.P.length then "panic emptyreads=0"
              else
                let f := fun (x : Mat) => repl.getD (x.pid % (max repl.length 1)) []
                match streamReplaceWith m.A rdr spare w f (constsOf r).bufferMinFactor (constsOf r).bufferDefaultCap with
                | .error e => s!"{e.name} emptyreads=0"
                | .ok (w', log, ok, er) =>
                  let res := if ok then "ok" else "io-err"
                  if r.op == "streamrep" then s!"{hex w'.out} {res} emptyreads={er}"
                  else
                    let l := fmtList (log.map fun (x, b) => s!"{fmtMat x}/{hex b}")
                    s!"{hex w'.out} {res} {l} emptyreads={er}"
      | _, _ => "bad-request:input"
    | "streamself" =>
      -- stream = in-memory on the same searcher: C07_stream_eq_iter / C08_replace_eq, whose only side
      -- condition (capacity > longest pattern) is what `bufcap` observes; a searcher the stream API rejects
      -- (start kind, match kind, empty pattern) answers with that error
      match gate false with
      | .error e => e.name
      | .ok () =>
        match ChunkIter.new m.A ({ data := [], sched := [] } : Reader UInt8) none with
        | .error e => e.name
        | .ok _ => "same"
    | "recipe" =>
      match r.bytes? "hay" with
      | none => "bad-request:input"
      | some hay => if c.isTop then "n/a" else fmtExcept fmtOpt (recipe m.A hay)
    | _ => "unsupported-op"
where
  A_ok (outs : List (Except MatchErr (Option Mat))) : Bool :=
    outs.all fun o => match o with | .ok _ => true | .error _ => false

/-- `gate api=<rust method name>`: ok / err-* / panic, as the harness classifies -/
def answerGate (r : Req) (c : Cfg) : String :=
  let name := r.getD "api" ""
  let (isTry, base) := if name.startsWith "try_" then (true, (name.drop 4).toString) else (false, name)
  let api? : Option Api := match base with
    | "find" => some .find | "is_match" => some .isMatch
    | "find_overlapping" => some .findOverlapping | "find_iter" => some .findIter
    | "find_overlapping_iter" => some .findOverlappingIter
    | "replace_all" => some .replaceAll | "replace_all_bytes" => some .replaceAllBytes
    | "replace_all_with" => some .replaceAllWith | "replace_all_with_bytes" => some .replaceAllWithBytes
    | "stream_find_iter" => some .streamFindIter | "stream_replace_all" => some .streamReplaceAll
    | "stream_replace_all_with" => some .streamReplaceAllWith
    | _ => none
  match api?, MatchKind.parse (r.getD "mk" "std"), r.list? "pats" with
  | some api, some mk, some P =>
    let hasEmpty := P.any (·.isEmpty)
    let anch := r.flag "anch"
    if c.isTop then
      -- `is_match` has no `try_` twin; the stream replace routines have no infallible twin
      if (api == .isMatch && isTry) || ((api == .streamReplaceAll || api == .streamReplaceAllWith) && !isTry) then "bad-api"
      else match gate api mk c.sk anch hasEmpty with
        | none => "ok"
        | some e => if isTry then e.name else "panic"
    else
      let supported := isTry && (api == .find || api == .findOverlapping || api == .findIter ||
        api == .findOverlappingIter || api == .replaceAllBytes || api == .replaceAll ||
        api == .streamFindIter || api == .streamReplaceAll)
      if !supported then "n/a"
      else match gateAut api mk c.autStartKind anch hasEmpty with
        | none => "ok"
        | some e => e.name
  | _, _, _ => "bad-request:gate"

/-- the prefilter of the searcher described by the request, if the request
carries the frequency table (`freq=`) -/
def prefilterOf (r : Req) : Option (Option PreChoice) := do
  let freqBytes ← r.bytes? "freq"
  let pats ← r.list? "pats"
  let k ← MatchKind.parse (r.getD "mk" "std")
  let freq := fun (b : UInt8) => (freqBytes.getD b.toNat 0).toNat
  pure (buildPrefilter (constsOf r) k (r.flag "fold") freq pats
    (r.getD "avx2" "1" == "1") (r.getD "ssse3" "1" == "1"))

def fmtCand : Cand → String
  | .none => "cnone"
  | .mtch m => s!"cmatch:{fmtMat m}"
  | .pos i => s!"cpos:{i}"

/-- `pre`: which prefilter the searcher carries and its candidate for a span -/
def answerPre (r : Req) (c : Cfg) : String :=
  if c.isTop then "n/a"
  else if !c.pf then "nopre"
  else match prefilterOf r, r.bytes? "hay" with
    | some none, _ => "nopre"
    | some (some ch), some hay =>
      let s := r.natD "s" 0
      let e := r.natD "e" hay.length
      s!"{ch.name} {fmtCand (ch.findIn hay s e)}"
    | _, _ => "bad-request:pre"

/-- `cost api=find`: the search result with the number of `next_state` calls and
failure-link traversals (C19) -/
def answerCost (r : Req) (c : Cfg) : String :=
  match r.list? "pats", MatchKind.parse (r.getD "mk" "std"), (r.bytes? "hay").bind (mkInput r) with
  | some P0, some k, some i =>
    let fold := r.flag "fold"
    let P := if fold then P0.map (·.map foldByte) else P0
    let g : UInt8 → UInt8 := if fold then foldByte else id
    let Q := patSet k P
    let preC : Option PreChoice := if c.pf then (prefilterOf r).join else none
    let hasPre := preC.isSome
    let A0 : Aut (St UInt8) UInt8 := ideal k P (if c.isTop then c.sk else c.autStartKind) hasPre
    let A := if fold then A0.comap foldByte else A0
    let K := constsOf r
    let isDfa := c.kind == "dfa" || c.kind == "tdfa" ||
      (c.kind == "auto" && c.sk != StartKind.both && P.length ≤ K.autoDfaLimit)
    let gate : Except MatchErr Unit := if c.isTop then enforceAnchored c.sk i.anch else .ok ()
    if r.getD "api" "find" == "stream" then
      -- a whole stream search: the matches and the number of bytes fed to the automaton
      match r.bytes? "hay", r.nums? "sched" with
      | some data, some sched =>
        let rdr : Reader UInt8 := { data := data, sched := sched }
        let spare := match r.nat? "spare", r.nat? "cap" with
          | some sp, _ => some sp
          | none, some cap => some (cap - max 1 A.maxLen)
          | none, none => none
        match gate with
        | .error e => s!"{e.name} t=0"
        | .ok () =>
          match streamFind A rdr spare K.bufferMinFactor K.bufferDefaultCap,
                streamTransitions A rdr spare K.bufferMinFactor K.bufferDefaultCap with
          | .ok (ms, err, _), .ok t => s!"{fmtList (ms.map fmtMat ++ (if err then ["io-err"] else []))} t={t}"
          | .error e, _ => s!"{e.name} t=0"
          | _, .error e => s!"{e.name} t=0"
      | _, _ => "bad-request:input"
    else
    if r.getD "api" "find" != "find" then
      -- one overlapping call sequence: the counters of each call (`CostP.ovlCallsCost`)
      match gate with
      | .error e => fmtList [e.name]
      | .ok () =>
        let pre : Option (Prefilter UInt8) := preC.map (·.findIn)
        let calls := CostP.ovlCallsCost k Q A g pre i (r.natD "n" 1) OState.start
        let scans := ovlCallsScan A pre i (r.natD "n" 1) OState.start
        fmtList ((calls.zip (scans ++ List.replicate calls.length 0)).map fun
          | (.error e, _) => e.name
          | (.ok c, p) => s!"{c.transitions}/{if isDfa then 0 else c.fails}/{p}")
    else
    -- the haystack extent the prefilter answers of this search account for (`findScan`)
    let scan : Nat := match gate with
      | .error _ => 0
      | .ok () => findScan A (preC.map (·.findIn)) i
    (fun (core : String) => s!"{core} p={scan}") <|
    match gate with
    | .error e => s!"{e.name} t=0 f=0"
    | .ok () =>
      if i.isDone then
        match A.start i.anch with
        | none => if i.anch then "err-anchored t=0 f=0" else "err-unanchored t=0 f=0"
        | some _ => "none t=0 f=0"
      else
        let earliest := k == .std || i.earliest
        match A.start i.anch with
        | none => if i.anch then "err-anchored t=0 f=0" else "err-unanchored t=0 f=0"
        | some sid =>
          let mat0 := if A.isMatch sid then some (getMatch A sid 0 i.s) else none
          let fin := fun (res : Option Mat × Cost) =>
            s!"{fmtOpt res.1} t={res.2.transitions} f={if isDfa then 0 else res.2.fails}"
          if A.isMatch sid && earliest then fin (mat0, {})
          else
            let pre : Option (Prefilter UInt8) := if i.anch then none else preC.map (·.findIn)
            match pre with
            | some p =>
              match p i.hay i.s i.e with
              | .none => fin (none, {})
              | .mtch m => fin (some m, {})
              | .pos j => fin (findCost k Q A g i.hay i.s i.e i.valid.1 pre i.anch earliest sid j mat0 {})
            | none => fin (findCost k Q A g i.hay i.s i.e i.valid.1 none i.anch earliest sid i.s mat0 {})
  | _, _, _ => "bad-request:cost"

/-- `meta`: what the searcher reports about itself (C20) -/
def answerMeta (r : Req) (c : Cfg) : String :=
  match r.list? "pats", MatchKind.parse (r.getD "mk" "std") with
  | some P, some k =>
    let A : Aut (St UInt8) UInt8 := ideal k P c.sk false
    let mk := r.getD "mk" "std"
    let nums := fun (l : List Nat) => if l.isEmpty then "." else ",".intercalate (l.map toString)
    if c.isTop then
      let K := constsOf r
      let kind := match c.kind with
        | "tnc" => "nc" | "tc" => "c" | "tdfa" => "dfa"
        | _ => if c.sk != StartKind.both && P.length ≤ K.autoDfaLimit then "dfa" else "c"
      let sk := match c.sk with | .unanchored => "u" | .anchored => "a" | .both => "b"
      s!"n={A.patternsLen} min={A.minLen} max={A.maxLen} mk={mk} sk={sk} kind={kind}"
    else
      let pre := if !c.pf then "0" else match prefilterOf r with
        | some (some _) => "1" | some none => "0" | none => "?"
      s!"n={A.patternsLen} min={A.minLen} max={A.maxLen} mk={mk} plens={nums (P.map List.length)} pre={pre}"
  | _, _ => "bad-request:meta"

/-- `topfind` / `topiter` / `topismatch` / `topovl`: the capstone model itself (`TopLevel.lean`): the transcribed
`AhoCorasickBuilder::build` with the real limit checks (`acBuild` / `acBuildP`), then the public method as
`enforce_anchored_consistency` + engine on the built automaton (noncontiguous NFA through its dense rows,
contiguous NFA words, DFA table) – what `Top_capstone` / `TopB_capstone` are about – for top-level
configurations; the harness answers with the corresponding real `AhoCorasick` method -/
def answerTop (r : Req) (c : Cfg) : String :=
  match r.list? "pats", MatchKind.parse (r.getD "mk" "std"), (r.bytes? "hay").bind (mkInput r) with
  | some P, some k, some i =>
    if !c.isTop then "n/a"
    else
      let kind : Option AcKind := match c.kind with
        | "tnc" => some .noncontiguous | "tc" => some .contiguous | "tdfa" => some .dfa | _ => none
      let cfgB : BuildCfg := { matchKind := k, fold := r.flag "fold", startKind := c.sk, kind := kind,
                               nncDenseDepth := c.dd.getD 3, contigDenseDepth := c.dd.getD 2, byteClasses := c.bc }
      let built : Except BuildErr Searcher :=
        if c.pf then
          match r.bytes? "freq" with
          | some fb =>
            acBuildP {} (constsOf r) cfgB (fun b => (fb.getD b.toNat 0).toNat)
              (r.getD "avx2" "1" == "1") (r.getD "ssse3" "1" == "1") P
          | none => acBuild {} cfgB none P
        else acBuild {} cfgB none P
      match built with
      | .error _ => "build-error"
      | .ok s =>
        match r.op with
        | "topfind" => fmtExcept fmtOpt (topFind s i)
        | "topismatch" =>
          -- the infallible `is_match` panics (`expect`) where `try_find` returns an error
          match topIsMatch s i with
          | .ok b => toString b
          | .error _ => "panic"
        | "topiter" => fmtExcept (fun l => fmtList (l.map fmtMat)) (topFindIter s i)
        | "topovl" =>
          fmtList ((topOverlapping s i (r.natD "n" 1)).map fun o => match o with
            | .ok none => "-"
            | .ok (some x) => fmtMat x
            | .error e => e.name)
        | "topstream" | "topstreamrep" | "topstreamrepwith" =>
          -- the stream methods of the capstone model (TopLevel / TopLevel2), in the format of `stream*`
          match r.nums? "sched" with
          | none => "bad-request:input"
          | some sched =>
            let rdr : Reader UInt8 := { data := i.hay, sched := sched, failAt := r.nat? "rfail" }
            let spare := match r.nat? "spare", r.nat? "cap" with
              | some sp, _ => some sp
              | none, some cap => some (cap - max 1 s.aut.maxLen)
              | none, none => none
            let K := constsOf r
            if r.op == "topstream" then
              match topStreamFind s rdr spare K.bufferMinFactor K.bufferDefaultCap with
              | .error e => s!"{e.name} emptyreads=0"
              | .ok (ms, err, er) =>
                s!"{fmtList (ms.map fmtMat ++ (if err then ["io-err"] else []))} emptyreads={er}"
            else
              match r.list? "repl" with
              | none => "bad-request:repl"
              | some repl =>
                let w : Writer UInt8 := { limit := r.nat? "wlimit" }
                if r.op == "topstreamrep" then
                  match topStreamReplaceAll s rdr spare w repl K.bufferMinFactor K.bufferDefaultCap with
                  | .error e => s!"{e.name} emptyreads=0"
                  | .ok .panic => "panic emptyreads=0"
                  | .ok (.ret (w', ok, er)) =>
                    s!"{hex w'.out} {if ok then "ok" else "io-err"} emptyreads={er}"
                else
                  let f := fun (x : Mat) => repl.getD (x.pid % (max repl.length 1)) []
                  match topStreamReplaceAllWith s rdr spare w f K.bufferMinFactor K.bufferDefaultCap with
                  | .error e => s!"{e.name} emptyreads=0"
                  | .ok (w', log, ok, er) =>
                    let l := fmtList (log.map fun (x, b) => s!"{fmtMat x}/{hex b}")
                    s!"{hex w'.out} {if ok then "ok" else "io-err"} {l} emptyreads={er}"
        | _ => "bad-request:top"
  | _, _, _ => "bad-request:top"

/-- `rawnnfa`: the raw vectors of the noncontiguous NFA just before `shuffle` (`MemNfa.compile`), in the format of the
`verif::take_preshuffle` hook: `states` as `sparse:matches:fail:depth`, `sparse` as `byte:next:link`, `matches` as
`pid:link` -/
def answerRawNnfa (r : Req) : String :=
  match r.list? "pats", MatchKind.parse (r.getD "mk" "std") with
  | some P, some k =>
    let m := MemNfa.compile k (r.flag "fold") P
    let st := m.states.toList.map fun s => s!"{s.sparse}:{s.matches_}:{s.fail}:{s.depth}"
    let sp := m.sparse.toList.map fun t => s!"{t.byte.toNat}:{t.next}:{t.link}"
    let ma := m.matches_.toList.map fun x => s!"{x.pid}:{x.link}"
    s!"states={",".intercalate st} sparse={",".intercalate sp} matches={",".intercalate ma}"
  | _, _ => "bad-request:rawnnfa"

/-- `memusage`: `Automaton::memory_usage()` of a low-level automaton built without a prefilter -/
def answerMemUsage (r : Req) (c : Cfg) : String :=
  match r.list? "pats", MatchKind.parse (r.getD "mk" "std") with
  | some P, some k =>
    let fold := r.flag "fold"
    if c.pf then "n/a"
    else match c.kind with
      | "nc" => s!"mem={nncMemoryUsage k fold (c.dd.getD 3) P}"
      | "c" => s!"mem={contigMemoryUsage k fold (c.dd.getD 2) c.bc P}"
      | "dfa" => s!"mem={dfaMemoryUsage k fold c.sk c.bc P}"
      | _ => "n/a"
  | _, _ => "bad-request:memusage"

/-- `presound cand=<candidate as printed by the harness>`: is this candidate acceptable for the
span, i.e. does it satisfy the soundness contract the engine relies on (C05)?  `cnone`: no
occurrence in the span; `cpos:i`: inside the span and no occurrence starts before `i`;
`cmatch:m`: `m` is THE answer of the search on the span. -/
def answerPreSound (r : Req) : String :=
  match r.list? "pats", MatchKind.parse (r.getD "mk" "std"), r.bytes? "hay" with
  | some P0, some k, some hay0 =>
    let fold := r.flag "fold"
    let P := if fold then P0.map (·.map foldByte) else P0
    let hay := if fold then hay0.map foldByte else hay0
    let s := r.natD "s" 0
    let e := r.natD "e" hay.length
    let occs := occList P hay s e false
    let cand := r.getD "cand" ""
    if cand == "cnone" then (if occs.isEmpty then "sound" else "unsound:match-dropped")
    else if cand.startsWith "cpos:" then
      match (cand.drop 5).toString.toNat? with
      | some i => if s ≤ i && occs.all (fun m => decide (i ≤ m.start)) then "sound" else "unsound:skips-past-a-match-or-leaves-span"
      | none => "bad-request:cand"
    else if cand.startsWith "cmatch:" then
      let want := findSpec k P hay s e false
      if some (cand.drop 7).toString == want.map fmtMat then "sound" else "unsound:confirmed-match-is-not-the-answer"
    else "bad-request:cand"
  | _, _, _ => "bad-request:presound"

/-- `packed … pcfg=v1;v2`: one answer per packed configuration -/
def answerPacked (r : Req) (variant : String) : String :=
  match r.list? "pats", r.bytes? "hay" with
  | some pats, some hay =>
    let kind : PKind := if r.getD "mk" "lf" == "ll" then .ll else .lf
    let avx2 := r.getD "avx2" "1" == "1"
    let ssse3 := r.getD "ssse3" "1" == "1"
    let patlimit := !(r.flag "nolimits")
    let s? : Option (Option PackedSearcher) := match variant with
      | "default" => some (packedBuild (constsOf r) kind pats none none none patlimit avx2 ssse3)
      | "rk" => some (packedBuild (constsOf r) kind pats (some false) none none patlimit avx2 ssse3)
      | "teddy" => some (packedBuild (constsOf r) kind pats (some true) none none patlimit avx2 ssse3)
      | "slim128" => some (packedBuild (constsOf r) kind pats (some true) (some false) (some false) patlimit avx2 ssse3)
      | "slim256" => some (packedBuild (constsOf r) kind pats (some true) (some true) (some false) patlimit avx2 ssse3)
      | "fat" => some (packedBuild (constsOf r) kind pats (some true) (some true) (some true) patlimit avx2 ssse3)
      | _ => none
    match s? with
    | none => "bad-request:variant"
    | some none => "unavailable"
    | some (some s) =>
      let st := r.natD "s" 0
      let en := r.natD "e" hay.length
      if !(st ≤ en && en ≤ hay.length) then "bad-request:span"
      else match r.getD "api" "find" with
        | "find" =>
          -- the vector-level transcription answers; the lane-level model (about which C06 is proved) must agree
          let v := s.findInV hay st en
          let l := s.findIn hay st en
          fmtOpt v ++ (if v == l then "" else s!" MODEL-SPEC-MISMATCH lane-model={fmtOpt l}")
        | "iter" => fmtList ((s.iter hay (hay.length + 2) 0).map fmtMat)
        | "minlen" => toString s.minimumLen
        | _ => "bad-api"
  | _, _ => "bad-request:packed"

def cfgsOf (r : Req) : List Cfg :=
  ((r.getD "cfgs" "nc.d.1.0.b").splitOn ";").filterMap Cfg.parse

/-! ## Certificates -/

def parseRle (s : String) : Option (Array Nat) := do
  let parts := s.splitOn ","
  let mut out : Array Nat := #[]
  for p in parts do
    match p.splitOn "*" with
    | [v, n] =>
      let v ← v.toNat?
      let n ← n.toNat?
      out := out ++ Array.replicate n v
    | _ => none
  pure out

def parseTState (s : String) : Option TState := do
  match s.splitOn "/" with
  | [flags, pats, tn, ty, fl] =>
    let fs := flags.toList
    let bit := fun (i : Nat) => fs.getD i '0' == '1'
    let pats ← parseNums pats
    let tNo ← parseRle tn
    let tYes ← if ty == "=" then some tNo else parseRle ty
    let fails ← parseRle fl
    pure { special := bit 0, dead := bit 1, isMatch := bit 2, isStart := bit 3,
           pats := pats, tNo := tNo, tYes := tYes, fails := fails }
  | _ => none

/-- parse the `dump ...` response of the harness (given as request fields) -/
def parseTable (r : Req) (k : MatchKind) : Option Table := do
  let states ← ((← r.get? "states").splitOn ";").mapM parseTState
  let optNat := fun (s : String) => if s == "-" then some none else s.toNat?.map some
  let startNo ← optNat (← r.get? "startno")
  let startYes ← optNat (← r.get? "startyes")
  let plens ← r.nums? "plens"
  pure { states := states.toArray, startNo := startNo, startYes := startYes,
         patLens := plens.toArray, npat := r.natD "npat" 0, minLen := r.natD "min" 0,
         maxLen := r.natD "max" 0, kind := k, hasPre := r.flag "pre" }

/-- untrusted worklist computing the candidate simulation `f` -/
partial def buildSim {σ : Type} [DecidableEq σ] (A : Aut σ UInt8) (B : Aut Nat UInt8) (n : Nat)
    (anch : Bool) : Array (Option σ) :=
  match A.start anch, B.start anch with
  | some a0, some b0 =>
    let rec go (f : Array (Option σ)) (work : List (σ × Nat)) : Array (Option σ) :=
      match work with
      | [] => f
      | (a, b) :: rest =>
        let (f, work) := allBytes.foldl (fun (acc : Array (Option σ) × List (σ × Nat)) c =>
          let (f, work) := acc
          let b' := B.next anch b c
          if b' < n then
            match f[b']? with
            | some none =>
              let a' := A.next anch a c
              (f.set! b' (some a'), (a', b') :: work)
            | _ => (f, work)
          else (f, work)) (f, rest)
        go f work
    if b0 < n then go ((Array.replicate n none).set! b0 (some a0)) [(a0, b0)]
    else Array.replicate n none
  | _, _ => Array.replicate n none

/-- untrusted: a shortest byte string leading the dumped automaton from its start state to `target` -/
partial def pathTo (B : Aut Nat UInt8) (n : Nat) (anch : Bool) (target : Nat) : List UInt8 :=
  match B.start anch with
  | none => []
  | some b0 =>
    let rec go (seen : Array Bool) (frontier : List (Nat × List UInt8)) : List UInt8 :=
      match frontier with
      | [] => []
      | _ =>
        match frontier.find? (·.1 == target) with
        | some (_, w) => w.reverse
        | none =>
          let (seen, next) := frontier.foldl (fun (acc : Array Bool × List (Nat × List UInt8)) (q, w) =>
            allBytes.foldl (fun (acc : Array Bool × List (Nat × List UInt8)) c =>
              let (seen, next) := acc
              let q' := B.next anch q c
              if q' < n && !(seen.getD q' true) then (seen.set! q' true, (q', c :: w) :: next) else (seen, next)) acc)
            (seen, [])
          if next.isEmpty then [] else go seen next.reverse
    if b0 < n then go ((Array.replicate n false).set! b0 true) [(b0, [])] else []

/-- first failing (state, byte) of a certificate, for the replay file -/
def certDiag {σ : Type} [DecidableEq σ] (A : Aut σ UInt8) (B : Aut Nat UInt8) (n : Nat)
    (anch first : Bool) (f : Array (Option σ)) (show_ : σ → String) : String :=
  match A.start anch, B.start anch with
  | none, none => "ok"
  | some _, none => "start:model-supports-anchoring-impl-does-not"
  | none, some _ => "start:impl-supports-anchoring-model-does-not"
  | some _, some _ =>
    let bad := (List.range n).findSome? fun b =>
      match f[b]? with
      | some (some a) =>
        if A.obs first a != B.obs first b then
          some s!"obs state={b} path={hex (pathTo B n anch b)} model={show_ a} modelobs={repr (A.obs first a)} implobs={repr (B.obs first b)}"
        else
          allBytes.findSome? fun c =>
            if f[B.next anch b c]? == some (some (A.next anch a c)) then none
            else some s!"step state={b} path={hex (pathTo B n anch b ++ [c])} model={show_ a} byte={c.toNat} modelnext={show_ (A.next anch a c)} implnext={B.next anch b c}"
      | _ => none
    bad.getD "unknown"

/-- untrusted diagnosis of a failed `contractOk`: the first dumped state that violates a local
contract clause, with a byte string that reaches it (a concrete witness for the replay file) -/
def contractDiag (T : Table) : String :=
  let B := T.toAut
  let n := T.states.size
  let bad := (List.range n).findSome? fun q =>
    match T.states[q]? with
    | none => none
    | some st =>
      let why : Option String :=
        if (st.dead || st.isMatch) && !st.special then some "dead-or-match-state-not-special"
        else if st.special && !(st.dead || st.isMatch || st.isStart) then some "special-state-neither-dead-match-nor-start"
        else if st.dead && st.isMatch then some "dead-state-is-match"
        else if st.isMatch != !st.pats.isEmpty then some "match-flag-vs-empty-match-list"
        else if st.pats.any (fun p => decide (p ≥ T.npat)) then some "invalid-pattern-id"
        else if st.dead && !(st.tNo.all (fun t => T.flag (·.dead) t) && st.tYes.all (fun t => T.flag (·.dead) t)) then some "dead-state-not-absorbing"
        else if !(st.tNo.all (fun t => decide (t < n)) && st.tYes.all (fun t => decide (t < n))) then some "successor-not-a-state"
        else none
      why.map fun w =>
        let viaNo := pathTo B n false q
        let viaYes := pathTo B n true q
        let reachNo := T.startNo == some q || !viaNo.isEmpty
        let path := if reachNo then s!"anch=0 path={hex viaNo}" else s!"anch=1 path={hex viaYes}"
        s!"contract-violation:{w} state={q} {path}"
  bad.getD "contract-violation:table-shape"

def showSt : St UInt8 → String
  | .dead => "DEAD"
  | .at u => "at:" ++ hex u

/-- `certl1`: certificate of a dumped automaton against the ideal automaton.
Fields: mk fold pats + the dump fields; `first=1` compares only the first
listed pattern of match states. -/
def answerCert (r : Req) : String :=
  match MatchKind.parse (r.getD "mk" "std") with
  | none => "bad-request:mk"
  | some k =>
    match parseTable r k with
    | none => "bad-request:dump"
    | some T =>
      let B := T.toAut
      let n := T.states.size
      let first := r.flag "first"
      let contract := T.contractOk
      let sk : StartKind := match T.startNo, T.startYes with
        | some _, some _ => .both
        | some _, none => .unanchored
        | none, some _ => .anchored
        | none, none => .both
      let mk := fun (hasPre : Bool) => (mkModel r sk).map fun m =>
        let A0 := m.A
        let A1 : Aut (St UInt8) UInt8 := { A0 with
          hasPre := hasPre
          isSpecial := fun q => A0.isDead q || A0.isMatch q || (hasPre && A0.isStart q) }
        ({ m with A := A1 } : Model)
      match mk T.hasPre with
      | none => "bad-request:model"
      | some m =>
        let modes := r.getD "modes" "01"
        let res := ([false, true].filter fun a => modes.contains (if a then '1' else '0')).map fun anch =>
          let f := buildSim m.A B n anch
          let ok := certOk m.A B n anch first f allBytes
          (anch, ok, if ok then "ok" else certDiag m.A B n anch first f showSt)
        -- C19: failure-link traversals of every (state, byte) next_state call equal the model's chain length
        let failsOk : Bool :=
          if r.getD "failsmode" "" != "model" then true
          else
            let f := buildSim m.A B n false
            let Q := patSet m.kind m.P
            let g : UInt8 → UInt8 := if m.fold then foldByte else id
            (List.range n).all fun b =>
              match f[b]?, T.states[b]? with
              | some (some a), some st =>
                allBytes.all fun c => st.fails.getD c.toNat 0 == Ideal.hops m.kind Q false a (g c)
              | _, _ => true
        let allOk := contract && failsOk && res.all (·.2.1)
        let meta_ok := B.patternsLen == m.A.patternsLen &&
          (List.range B.patternsLen).all (fun p => B.patLen p == m.A.patLen p)
        if allOk && meta_ok then s!"cert-ok states={n} contract=1"
        else
          let diags := res.filterMap fun (anch, ok, d) =>
            if ok then none else some s!"anch={if anch then 1 else 0}:{d}"
          s!"cert-fail contract={if contract then 1 else 0} meta={if meta_ok then 1 else 0} fails={if failsOk then 1 else 0} " ++
            (if contract then "" else contractDiag T ++ " | ") ++ " | ".intercalate diags

/-- `certl1c`: certificate of a dumped noncontiguous NFA against the transcription of its
compiler (L1c): whole match lists, both anchorings, and the number of failure links followed by
every (state, byte) `next_state` call. -/
def answerCertL1c (r : Req) : String :=
  match MatchKind.parse (r.getD "mk" "std"), r.list? "pats" with
  | some k, some P =>
    match parseTable r k with
    | none => "bad-request:dump"
    | some T =>
      let B := T.toAut
      let n := T.states.size
      let fold := r.flag "fold"
      let N := CNfa.compile k fold P
      -- transitions are read through `follow_transition` (dense rows for states above the dense depth)
      let rows := denseRows N (r.natD "dd" 3)
      let A0 := N.toAut k P T.hasPre
      let A : Aut Nat UInt8 := { A0 with next := fun anch sid b => (nextStateD N rows anch (N.size + 1) sid b 0).1 }
      let first := r.flag "first"
      let modes := r.getD "modes" "01"
      let res := ([false, true].filter fun a => modes.contains (if a then '1' else '0')).map fun anch =>
        let f := buildSim A B n anch
        let ok := certOk A B n anch first f allBytes
        (anch, ok, if ok then "ok" else certDiag A B n anch first f toString)
      let f := buildSim A B n false
      let failsOk := r.getD "failsmode" "" != "model" || (List.range n).all fun b =>
        match f[b]?, T.states[b]? with
        | some (some a), some st =>
          allBytes.all fun c => st.fails.getD c.toNat 0 == (nextStateD N rows false (N.size + 1) a c 0).2
        | _, _ => true
      if T.contractOk && failsOk && res.all (·.2.1) then s!"cert-ok states={n} l1c_states={N.size}"
      else
        let diags := res.filterMap fun (anch, ok, d) =>
          if ok then none else some s!"anch={if anch then 1 else 0}:{d}"
        s!"cert-fail contract={if T.contractOk then 1 else 0} fails={if failsOk then 1 else 0} " ++ " | ".intercalate diags
  | _, _ => "bad-request:certl1c"

/-- `certnci`: the same certificate against the id-level transcription of the noncontiguous NFA
(`buildNfaIds`: `shuffle`d ids, flags by the id ranges of `Special`, stored dense rows) -/
def answerCertNcIds (r : Req) : String :=
  match MatchKind.parse (r.getD "mk" "std"), r.list? "pats" with
  | some k, some P =>
    match parseTable r k with
    | none => "bad-request:dump"
    | some T =>
      let B := T.toAut
      let n := T.states.size
      let fold := r.flag "fold"
      let N := CNfa.compile k fold P
      let M := buildNfaIds N T.hasPre
      let rows := buildDenseIds N (r.natD "dd" 3)
      let classOf := classOfMarks (marksOf (trieBytes N))
      let A : Aut Nat UInt8 := M.toAutD classOf rows k P T.hasPre
      let first := r.flag "first"
      let modes := r.getD "modes" "01"
      let res := ([false, true].filter fun a => modes.contains (if a then '1' else '0')).map fun anch =>
        let f := buildSim A B n anch
        let ok := certOk A B n anch first f allBytes
        (anch, ok, if ok then "ok" else certDiag A B n anch first f toString)
      let f := buildSim A B n false
      let failsOk := r.getD "failsmode" "" != "model" || (List.range n).all fun b =>
        match f[b]?, T.states[b]? with
        | some (some a), some st =>
          allBytes.all fun c => st.fails.getD c.toNat 0 == (M.nextStateD classOf rows false (M.states.size + 1) a c 0).2
        | _, _ => true
      if T.contractOk && failsOk && res.all (·.2.1) then s!"cert-ok states={n} l1cids_states={M.states.size} max_match={M.maxMatchId} max_special={M.maxSpecialId}"
      else
        let diags := res.filterMap fun (anch, ok, d) =>
          if ok then none else some s!"anch={if anch then 1 else 0}:{d}"
        s!"cert-fail contract={if T.contractOk then 1 else 0} fails={if failsOk then 1 else 0} " ++ " | ".intercalate diags
  | _, _ => "bad-request:certnci"

/-- `certdfa`: certificate of a dumped DFA against the transcription of the DFA builder
(L1d) applied to the transcribed compiler's NFA: whole match lists, every supported anchoring. -/
def answerCertDfa (r : Req) : String :=
  match MatchKind.parse (r.getD "mk" "std"), r.list? "pats" with
  | some k, some P =>
    match parseTable r k with
    | none => "bad-request:dump"
    | some T =>
      let B := T.toAut
      let n := T.states.size
      let sk : StartKind := match T.startNo, T.startYes with
        | some _, some _ => .both
        | some _, none => .unanchored
        | none, some _ => .anchored
        | none, none => .both
      let N := CNfa.compile k (r.flag "fold") P
      let D := buildDfa N sk (r.flag "bc")
      let A := D.toAut k P T.hasPre
      let first := r.flag "first"
      let modes := r.getD "modes" "01"
      let res := ([false, true].filter fun a => modes.contains (if a then '1' else '0')).map fun anch =>
        if (A.start anch).isNone && (B.start anch).isNone then (anch, true, "unsupported-by-both")
        else
          let f := buildSim A B n anch
          let ok := certOk A B n anch first f allBytes
          (anch, ok, if ok then "ok" else certDiag A B n anch first f toString)
      if res.all (·.2.1) then s!"cert-ok states={n} l1d_states={D.rows.size}"
      else
        let diags := res.filterMap fun (anch, ok, d) =>
          if ok then none else some s!"anch={if anch then 1 else 0}:{d}"
        s!"cert-fail " ++ " | ".intercalate diags
  | _, _ => "bad-request:certdfa"

/-- `certdfai`: the same certificate against the id-level transcription (`buildDfaIds`: shuffled ids
premultiplied by the stride, flat transition table, `matches` indexed by `(sid >> stride2) - 2`, flags by the id
ranges of `Special`) -/
def answerCertDfaIds (r : Req) : String :=
  match MatchKind.parse (r.getD "mk" "std"), r.list? "pats" with
  | some k, some P =>
    match parseTable r k with
    | none => "bad-request:dump"
    | some T =>
      let B := T.toAut
      let n := T.states.size
      let sk : StartKind := match T.startNo, T.startYes with
        | some _, some _ => .both
        | some _, none => .unanchored
        | none, some _ => .anchored
        | none, none => .both
      let N := CNfa.compile k (r.flag "fold") P
      let D := buildDfaIds N sk (r.flag "bc") T.hasPre
      let A := D.toAut k P T.hasPre
      let first := r.flag "first"
      let modes := r.getD "modes" "01"
      let res := ([false, true].filter fun a => modes.contains (if a then '1' else '0')).map fun anch =>
        if (A.start anch).isNone && (B.start anch).isNone then (anch, true, "unsupported-by-both")
        else
          let f := buildSim A B n anch
          let ok := certOk A B n anch first f allBytes
          (anch, ok, if ok then "ok" else certDiag A B n anch first f toString)
      if res.all (·.2.1) then s!"cert-ok states={n} l1dids_table={D.trans.size} stride2={D.stride2}"
      else
        let diags := res.filterMap fun (anch, ok, d) =>
          if ok then none else some s!"anch={if anch then 1 else 0}:{d}"
        s!"cert-fail " ++ " | ".intercalate diags
  | _, _ => "bad-request:certdfai"

/-- `certcontig`: certificate of a dumped contiguous NFA against the word-level transcription
of its encoder (L1e) applied to the transcribed compiler's NFA: match lists, both anchorings,
failure hop counts. -/
def answerCertContig (r : Req) : String :=
  match MatchKind.parse (r.getD "mk" "std"), r.list? "pats" with
  | some k, some P =>
    match parseTable r k with
    | none => "bad-request:dump"
    | some T =>
      let B := T.toAut
      let n := T.states.size
      let N := CNfa.compile k (r.flag "fold") P
      let M := buildContig N (r.natD "dd" 2) (r.flag "bc") T.hasPre
      let A := M.toAut k P T.hasPre
      let first := r.flag "first"
      let modes := r.getD "modes" "01"
      let res := ([false, true].filter fun a => modes.contains (if a then '1' else '0')).map fun anch =>
        let f := buildSim A B n anch
        let ok := certOk A B n anch first f allBytes
        (anch, ok, if ok then "ok" else certDiag A B n anch first f toString)
      let f := buildSim A B n false
      let failsOk := r.getD "failsmode" "" == "off" || (List.range n).all fun b =>
        match f[b]?, T.states[b]? with
        | some (some a), some st =>
          allBytes.all fun c => st.fails.getD c.toNat 0 == (M.nextState false (M.repr.size + 1) a c (0, 0)).2
        | _, _ => true
      if failsOk && res.all (·.2.1) then s!"cert-ok states={n} l1e_words={M.repr.size}"
      else
        let diags := res.filterMap fun (anch, ok, d) =>
          if ok then none else some s!"anch={if anch then 1 else 0}:{d}"
        s!"cert-fail fails={if failsOk then 1 else 0} " ++ " | ".intercalate diags
  | _, _ => "bad-request:certcontig"

/-- `certpair`: certificate of one dump (prefix `b_`) against another (prefix `a_`),
full match lists, both anchorings. -/
def answerCertPair (r : Req) : String :=
  let sub : String → Req := fun pfx =>
    { op := "dump", kv := r.kv.filterMap fun (k, v) =>
        if k.startsWith pfx then some ((k.drop pfx.length).toString, v) else none }
  match MatchKind.parse (r.getD "mk" "std") with
  | none => "bad-request:mk"
  | some k =>
    match parseTable (sub "a_") k, parseTable (sub "b_") k with
    | some TA, some TB =>
      let A := TA.toAut
      let B := TB.toAut
      let n := TB.states.size
      let first := r.flag "first"
      let modes := r.getD "modes" "01"
      let res := ([false, true].filter fun a => modes.contains (if a then '1' else '0')).map fun anch =>
        -- a mode unsupported by either side is skipped: start kinds may differ by configuration
        if (A.start anch).isNone || (B.start anch).isNone then (anch, true, "skipped")
        else
          let f := buildSim A B n anch
          let ok := certOk A B n anch first f allBytes
          (anch, ok, if ok then "ok" else certDiag A B n anch first f toString)
      let failsOk : Bool := match r.getD "failsmode" "" with
        | "zero" => TB.states.all fun st => st.fails.all (· == 0)
        | "same" =>
          let f := buildSim A B n false
          (List.range n).all fun b =>
            match f[b]?, TB.states[b]? with
            | some (some a), some st =>
              match TA.states[a]? with
              | some sa => st.fails == sa.fails
              | none => false
            | _, _ => true
        | _ => true
      if TB.contractOk && failsOk && res.all (·.2.1) then s!"cert-ok states={n}"
      else
        let diags := res.filterMap fun (anch, ok, d) =>
          if ok then none else some s!"anch={if anch then 1 else 0}:{d}"
        s!"cert-fail contract={if TB.contractOk then 1 else 0} fails={if failsOk then 1 else 0} " ++
          (if TB.contractOk then "" else contractDiag TB ++ " | ") ++ " | ".intercalate diags
    | _, _ => "bad-request:dump"

/-- all response lines for one request line -/
def respond (lineNo : Nat) (line : String) : List String :=
  match Req.parse line with
  | none => []
  | some r =>
    if r.op.startsWith "#" then [] else
    match r.op with
    | "certl1" => [s!"{lineNo} - {answerCert r}"]
    | "bufcap" =>
      -- `Buffer::new`: `(max 1 min, capacity)`, through the very definition the stream model uses
      match r.nums? "mins" with
      | none => [s!"{lineNo} - bad-request:mins"]
      | some mins =>
        let c := constsOf r
        let caps := mins.map fun m =>
          let b : Buffer UInt8 := Buffer.new m none c.bufferMinFactor c.bufferDefaultCap
          s!"{b.min}/{b.cap}"
        [s!"{lineNo} - caps={",".intercalate caps}"]
    | "hcap" =>
      -- decides the hypothesis `hcap` of the stream theorems (`min < cap`, with `min = max 1 maxLen`) for every
      -- observed `maxLen/min/cap` triple of the real `Buffer::new`
      let items := (r.getD "obs" "").splitOn ","
      let bad := items.filterMap fun it =>
        match it.splitOn "/" with
        | [a, b, c] =>
          match a.toNat?, b.toNat?, c.toNat? with
          | some ml, some mn, some cap =>
            if mn == max 1 ml && decide (mn < cap) then none else some s!"maxlen={ml} min={mn} cap={cap}"
          | _, _, _ => some s!"unparsable={it}"
        | _ => some s!"unparsable={it}"
      [if bad.isEmpty then s!"{lineNo} - ok n={items.length}" else s!"{lineNo} - hcap-fails {" ".intercalate (bad.take 6)}"]
    | "certpair" => [s!"{lineNo} - {answerCertPair r}"]
    | "certl1c" => [s!"{lineNo} - {answerCertL1c r}"]
    | "certnci" => [s!"{lineNo} - {answerCertNcIds r}"]
    | "certdfa" => [s!"{lineNo} - {answerCertDfa r}"]
    | "certdfai" => [s!"{lineNo} - {answerCertDfaIds r}"]
    | "certcontig" => [s!"{lineNo} - {answerCertContig r}"]
    | "presound" => [s!"{lineNo} - {answerPreSound r}"]
    | "packed" => ((r.getD "pcfg" "default").splitOn ";").map fun v => s!"{lineNo} {v} {answerPacked r v}"
    | "pre" => (cfgsOf r).map fun c => s!"{lineNo} {c.name} {answerPre r c}"
    | "meta" => (cfgsOf r).map fun c => s!"{lineNo} {c.name} {answerMeta r c}"
    | "memusage" => (cfgsOf r).map fun c => s!"{lineNo} {c.name} {answerMemUsage r c}"
    | "rawnnfa" => [s!"{lineNo} - {answerRawNnfa r}"]
    | "topfind" | "topiter" | "topismatch" | "topovl" | "topstream" | "topstreamrep" | "topstreamrepwith" => (cfgsOf r).map fun c => s!"{lineNo} {c.name} {answerTop r c}"
    | "threads" => (cfgsOf r).map fun c =>
        let hays := (r.getD "hays" "_").splitOn "|"
        let finds := hays.map fun h =>
          let sub : Req := { op := "find", kv := ("hay", h) :: r.kv.filter (fun kv => kv.1 != "hay" && kv.1 != "s" && kv.1 != "e") }
          -- the cross-check suffix (if any) is kept: it marks a model/spec disagreement
          answer sub c
        s!"{lineNo} {c.name} seq=[{";".intercalate finds}] conc=ok"
    | "cost" => (cfgsOf r).map fun c => s!"{lineNo} {c.name} {answerCost r c}"
    | "selfcheck" => (cfgsOf r).map fun c => s!"{lineNo} {c.name} ok"
    | "gate" => (cfgsOf r).map fun c => s!"{lineNo} {c.name} {answerGate r c}"
    | _ => (cfgsOf r).map fun c => s!"{lineNo} {c.name} {answer r c}"

end AcVerif
