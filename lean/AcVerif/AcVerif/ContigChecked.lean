import AcVerif.ContigModel
/-!
# L1e, bounds-checked: the `Automaton` methods of the contiguous NFA with every slice index checked

`ContigM.nextState` / `ContigM.matchList` (ContigModel.lean) read `repr` with the totalised
`getD i 0`.  The Rust code (`nfa/contiguous.rs`) indexes the `Vec<u32>` (`repr[o]`,
`repr[o + 2..][..classes_len]`, `state[start]`, …) and PANICS when an index is out of range.
The functions below redo the same computations with every read of `repr` done through
`m.repr[i]?`; they return `none` as soon as a read (or a slice bound) is out of range.
`AcVerif/Theorems/L1eSafe.lean` proves that on every reachable state they return `some` of what
the totalised functions return – i.e. that no index used by the Rust code is ever out of range.

Correspondence with `contiguous.rs` (`impl Automaton for NFA`, `fn next_state`):

| Rust index expression                                   | checked read here                         |
|----------------------------------------------------------|-------------------------------------------|
| `repr[o] & 0xFF`                                         | `m.repr[sid]?` (→ `w0`, `kind`)           |
| dense: `repr[o + 2 + usize::from(class)]`                | `m.repr[sid + 2 + cls]?`                  |
| one: `repr[o].low_u16().high_u8()`                       | `w0` again (same index as the first read) |
| one: `repr[o + 2]` (only if the class matches)           | `m.repr[sid + 2]?`                        |
| sparse: `repr[o + 2..][..classes_len]` (slice)           | `sid + 2 + classesLen ≤ m.repr.size`      |
| sparse: `chunk` = element `i` of that slice              | `m.repr[sid + 2 + i]?` in `scanGo?`       |
| sparse: `repr[trans_offset + i * 4 + j]`, `j = 0..3`     | `m.repr[transOffset + i * 4 + j]?`        |
| `repr[o + 1]` (failure link; unanchored, nothing found)  | `m.repr[sid + 1]?`                        |

(The slice `repr[o + 2..][..classes_len]` panics iff `o + 2 > len` or `classes_len > len - (o+2)`,
i.e. iff `o + 2 + classes_len > len`; it is taken *before* the loop, so it is checked even when
the loop would return in its first iteration.)

`match_len` / `match_pattern` (`State::match_len`, `State::match_pattern` applied to
`&self.repr[sid..]`):

| Rust                                                     | here                                      |
|----------------------------------------------------------|-------------------------------------------|
| `&self.repr[sid.as_usize()..]`                           | `sid ≤ m.repr.size`                       |
| `state[State::KIND] & 0xFF` (`State::kind`, `sparse_trans_len`) | `m.repr[sid]?`                     |
| `state[start]` with `start = 2 + alphabet_len` / `2 + classes_len + trans_len` | `m.repr[start]?` with `start = sid + …` |
| `state[start + 1 + index]`, `index < match_len`          | `m.repr[start + 1 + i]?`, `i < packed`    |
| `packed & (1 << 31) != 0` ⇒ one pattern `packed & !(1 << 31)` | `packed ≥ 2^31` ⇒ `[packed - 2^31]`  |
-/
namespace AcVerif

/-- the loop `for (i, &chunk) in repr[o + 2..][..classes_len].iter().enumerate()` of `next_state`:
outer `none` = an index was out of range (panic), `some none` = no class matched,
`some (some t)` = `return t` -/
def ContigM.scanGo? (m : ContigM) (cls base toff : Nat) : List Nat → Option (Option Nat)
  | [] => some none
  | i :: rest =>
    match m.repr[base + i]? with
    | none => none
    | some chunk =>
      if chunk % 256 == cls then (m.repr[toff + i * 4]?).map some
      else if (chunk / 256) % 256 == cls then (m.repr[toff + i * 4 + 1]?).map some
      else if (chunk / 65536) % 256 == cls then (m.repr[toff + i * 4 + 2]?).map some
      else if (chunk / 16777216) % 256 == cls then (m.repr[toff + i * 4 + 3]?).map some
      else m.scanGo? cls base toff rest

/-- the transition lookup of one iteration of the `loop` of `next_state`, all reads checked:
outer `none` = panic, `some none` = fall through to the failure link (or `DEAD` when anchored) -/
def ContigM.found? (m : ContigM) (cls sid : Nat) : Option (Option Nat) :=
  match m.repr[sid]? with                                     -- `repr[o]`
  | none => none
  | some w0 =>
    let kind := w0 % 256
    if kind == KIND_DENSE then
      match m.repr[sid + 2 + cls]? with                       -- `repr[o + 2 + usize::from(class)]`
      | none => none
      | some next => if next != CNfa.FAIL then some (some next) else some none
    else if kind == KIND_ONE then
      if cls == (w0 / 256) % 256 then                         -- `repr[o].low_u16().high_u8()`
        (m.repr[sid + 2]?).map some                           -- `repr[o + 2]`
      else some none
    else
      let transLen := kind
      let classesLen := u32Len transLen
      let transOffset := sid + 2 + classesLen
      if sid + 2 + classesLen ≤ m.repr.size then              -- `repr[o + 2..][..classes_len]`
        m.scanGo? cls (sid + 2) transOffset (List.range classesLen)
      else none

/-- `NFA::next_state` of the contiguous NFA with every index checked; `none` = some index was out
of range (the Rust code would panic) or the fuel ran out (`L1eSafe_next`: fuel `repr.size + 1`
suffices) -/
def ContigM.nextState? (m : ContigM) (anch : Bool) : Nat → Nat → UInt8 → Option Nat
  | 0, _, _ => none
  | fuel + 1, sid, byte =>
    match m.found? (m.classOf byte) sid with
    | none => none
    | some (some next) => some next
    | some none =>
      if anch then some CNfa.DEAD
      else
        match m.repr[sid + 1]? with                           -- `repr[o + 1]`
        | none => none
        | some f => m.nextState? anch fuel f byte

/-- `match_len` and then `match_pattern` for every index below it, all reads checked -/
def ContigM.matchList? (m : ContigM) (sid : Nat) : Option (List Nat) :=
  if sid ≤ m.repr.size then                                   -- `&self.repr[sid.as_usize()..]`
    match m.repr[sid]? with                                   -- `state[State::KIND]`
    | none => none
    | some w0 =>
      let kind := w0 % 256
      let start := if kind == KIND_DENSE then sid + 2 + m.alphabetLen
        else sid + 2 + u32Len kind + kind
      match m.repr[start]? with                               -- `state[start]`
      | none => none
      | some packed =>
        if packed ≥ 2147483648 then some [packed - 2147483648]  -- `packed & (1 << 31) != 0`
        else (List.range packed).mapM fun i => m.repr[start + 1 + i]?  -- `state[start + 1 + index]`
  else none

end AcVerif
