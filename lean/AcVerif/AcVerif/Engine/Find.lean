import AcVerif.Aut
/-!
# L2: the generic search loops of `src/automaton.rs`, transcribed

`tryFindFwd` / `findImp` follow `try_find_fwd` / `try_find_fwd_imp` branch for
branch: the `is_done` early return, the `earliest` flag, the initial match
check on the start state, the prefilter call before the loop, the
`is_special` gate, dead / match / start-state-with-prefilter branches, and the
anchored filter `m.start() > input.start()`.

`&mut` state becomes arguments; the `while at < end` loop is well-founded
recursion on `e - at`.  Every haystack access carries its bounds proof, so the
loop can only be *defined* because `at < e ≤ hay.length` (C15).
-/
namespace AcVerif
variable {σ α : Type}

/-- `Candidate` in `util/prefilter.rs` -/
inductive Cand where
  | none
  | mtch (m : Mat)
  | pos (i : Nat)
deriving DecidableEq, Repr

def Cand.intoOption : Cand → Option Nat
  | .none => Option.none
  | .mtch m => some m.start
  | .pos i => some i

/-- `Prefilter::find_in(haystack, span)` as a function -/
abbrev Prefilter (α : Type) := List α → Nat → Nat → Cand

/-- `Input` -/
structure Input (α : Type) where
  hay : List α
  s : Nat
  e : Nat
  anch : Bool := false
  earliest : Bool := false
  /-- `Input::span` asserts this -/
  valid : e ≤ hay.length ∧ s ≤ e + 1

def Input.isDone (i : Input α) : Bool := i.s > i.e

/-- `get_match(aut, sid, index, at)` -/
def getMatch (A : Aut σ α) (sid : σ) (idx : Nat) (at_ : Nat) : Mat :=
  let pid := (A.mpats sid).getD idx 0
  { pid := pid, start := at_ - A.patLen pid, stop := at_ }

/-- the `while at < input.end()` loop of `try_find_fwd_imp` -/
def findLoop (A : Aut σ α) (hay : List α) (s e : Nat) (he : e ≤ hay.length)
    (pre : Option (Prefilter α)) (anch earliest : Bool)
    (sid : σ) (at_ : Nat) (mat : Option Mat) : Option Mat :=
  if h : at_ < e then
    let sid := A.next anch sid (hay[at_]'(Nat.lt_of_lt_of_le h he))
    if A.isSpecial sid then
      if A.isDead sid then mat
      else if A.isMatch sid then
        let m := getMatch A sid 0 (at_ + 1)
        if !(anch && decide (m.start > s)) then
          if earliest then some m
          else findLoop A hay s e he pre anch earliest sid (at_ + 1) (some m)
        else findLoop A hay s e he pre anch earliest sid (at_ + 1) mat
      else
        match pre with
        | some p =>
          match (p hay at_ e).intoOption with
          | Option.none => Option.none
          | some i =>
            if i > at_ then findLoop A hay s e he pre anch earliest sid i mat
            else findLoop A hay s e he pre anch earliest sid (at_ + 1) mat
        | Option.none => findLoop A hay s e he pre anch earliest sid (at_ + 1) mat
    else findLoop A hay s e he pre anch earliest sid (at_ + 1) mat
  else mat
termination_by e - at_
decreasing_by all_goals omega

/-- `try_find_fwd_imp` -/
def findImp (A : Aut σ α) (i : Input α) (pre : Option (Prefilter α)) (anch earliest : Bool) :
    Except MatchErr (Option Mat) :=
  match A.start i.anch with
  | Option.none =>
    .error (if i.anch then .invalidInputAnchored else .invalidInputUnanchored)
  | some sid =>
    let mat0 := if A.isMatch sid then some (getMatch A sid 0 i.s) else Option.none
    if A.isMatch sid && earliest then .ok mat0
    else
      match pre with
      | some p =>
        match p i.hay i.s i.e with
        | .none => .ok Option.none
        | .mtch m => .ok (some m)
        | .pos j => .ok (findLoop A i.hay i.s i.e i.valid.1 pre anch earliest sid j mat0)
      | Option.none => .ok (findLoop A i.hay i.s i.e i.valid.1 pre anch earliest sid i.s mat0)

/-- `try_find_fwd`: the prefilter is only used for unanchored searches -/
def tryFindFwd (A : Aut σ α) (pre : Option (Prefilter α)) (i : Input α) :
    Except MatchErr (Option Mat) :=
  if i.isDone then
    -- `aut.start_state(input.get_anchored())?; return Ok(None)`: rejection must not depend on the span
    match A.start i.anch with
    | Option.none => .error (if i.anch then .invalidInputAnchored else .invalidInputUnanchored)
    | some _ => .ok Option.none
  else
    let earliest := A.kind == .std || i.earliest
    if i.anch then findImp A i Option.none true earliest
    else findImp A i pre false earliest

end AcVerif
