import AcVerif.Spec
import AcVerif.Engine.Find
/-!
# L2: `FindIter` (non-overlapping iterator)

`FindIter::next` is `search`, `handle_overlapping_empty_match`, then
`set_start(m.end())`.  That is literally `iterSpecAux` over the search
function "search the same input with its start moved", so the iterator model
*is* the specification's iterator instantiated with the engine's search.
-/
namespace AcVerif
variable {σ α : Type}

/-- `self.input.set_start(start); self.search()` -/
def findAt (A : Aut σ α) (pre : Option (Prefilter α)) (i : Input α) (start : Nat) : Option Mat :=
  if h : start ≤ i.e + 1 then
    match tryFindFwd A pre { i with s := start, valid := ⟨i.valid.1, h⟩ } with
    | .ok r => r
    | .error _ => Option.none
  else Option.none

/-- `FindIter::new` + draining it -/
def findIter (A : Aut σ α) (pre : Option (Prefilter α)) (i : Input α) :
    Except MatchErr (List Mat) :=
  match A.start i.anch with
  | Option.none => .error (if i.anch then .invalidInputAnchored else .invalidInputUnanchored)
  | some _ => .ok (iterSpec (findAt A pre i) i.s i.e)

end AcVerif
