import AcVerif.Engine.Find
/-!
# The caller-written search loop from the `Automaton` trait documentation (C16)
-/
namespace AcVerif
variable {σ α : Type}

def recipeLoop (A : Aut σ α) (std : Bool) (sid : σ) (at_ : Nat) (mat : Option Mat) :
    List α → Option Mat
  | [] => mat
  | c :: rest =>
    let sid := A.next false sid c
    if A.isSpecial sid then
      if A.isDead sid then mat
      else if A.isMatch sid then
        let m := getMatch A sid 0 (at_ + 1)
        if std then some m else recipeLoop A std sid (at_ + 1) (some m) rest
      else recipeLoop A std sid (at_ + 1) mat rest
    else recipeLoop A std sid (at_ + 1) mat rest

/-- `fn find<A: Automaton>(aut, haystack)` of the documentation example -/
def recipe (A : Aut σ α) (hay : List α) : Except MatchErr (Option Mat) :=
  match A.start false with
  | Option.none => .error .invalidInputUnanchored
  | some sid =>
    let std := A.kind == .std
    if A.isMatch sid then
      let m := getMatch A sid 0 0
      if std then .ok (some m) else .ok (recipeLoop A std sid 0 (some m) hay)
    else .ok (recipeLoop A std sid 0 Option.none hay)

end AcVerif
