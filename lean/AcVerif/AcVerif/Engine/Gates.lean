import AcVerif.Basic
/-!
# L2: which search requests are accepted (C13)

Transcription of the gates in `src/ahocorasick.rs` and `src/automaton.rs`:
`enforce_anchored_consistency`, `start_state` of the underlying automaton,
the match-kind checks of the overlapping and stream entry points, the
anchored check of `try_find_overlapping_iter`, and the empty-pattern check of
`StreamChunkIter::new`, in the order in which the code performs them.
-/
namespace AcVerif

/-- the public search entry points of `AhoCorasick` (the `try_` ones; each
infallible method panics exactly when its `try_` twin returns an error) -/
inductive Api where
  | find | isMatch | findOverlapping | findIter | findOverlappingIter
  | replaceAll | replaceAllBytes | replaceAllWith | replaceAllWithBytes
  | streamFindIter | streamReplaceAll | streamReplaceAllWith
deriving DecidableEq, Repr, Inhabited

/-- does the entry point take an `Input` (and hence an anchoring mode)?  The
replace and stream routines always search unanchored. -/
def Api.takesInput : Api → Bool
  | .find | .isMatch | .findOverlapping | .findIter | .findOverlappingIter => true
  | _ => false

def Api.isOverlapping : Api → Bool
  | .findOverlapping | .findOverlappingIter => true
  | _ => false

def Api.isStream : Api → Bool
  | .streamFindIter | .streamReplaceAll | .streamReplaceAllWith => true
  | _ => false

/-- `enforce_anchored_consistency(have, want)`; also what `start_state` of an
automaton supporting exactly `have` answers -/
def anchoredGate (have_ : StartKind) (want : Bool) : Option MatchErr :=
  match have_, want with
  | .both, _ => none
  | .unanchored, false => none
  | .unanchored, true => some .invalidInputAnchored
  | .anchored, true => none
  | .anchored, false => some .invalidInputUnanchored

/-- Verdict of a request made directly on an automaton (`Automaton` trait
methods): `none` = accepted, `some e` = rejected with `e`.  `sk` is what
`start_state` supports (both modes for the NFAs, the start kind for the DFA),
`anch` the requested anchoring (ignored by entry points that take no `Input`),
`hasEmpty` whether the pattern list contains the empty pattern.  The checks
are in the order the code performs them. -/
def gateAut (api : Api) (mk : MatchKind) (sk : StartKind) (anch : Bool) (hasEmpty : Bool) :
    Option MatchErr :=
  let want := api.takesInput && anch
  if api.isOverlapping && mk != .std then some .unsupportedOverlapping
  else if api == .findOverlappingIter && want then some .invalidInputAnchored
  else if api.isStream && mk != .std then some .unsupportedStream
  else if api.isStream && hasEmpty then some .unsupportedEmpty
  else anchoredGate sk want

/-- Verdict of a request made on the top-level `AhoCorasick`:
`enforce_anchored_consistency` with the configured start kind first, then the
automaton's own gates (the automaton supports at least the configured kind). -/
def gate (api : Api) (mk : MatchKind) (sk : StartKind) (anch : Bool) (hasEmpty : Bool) :
    Option MatchErr :=
  match anchoredGate sk (api.takesInput && anch) with
  | some e => some e
  | none => gateAut api mk sk anch hasEmpty

end AcVerif
