import AcVerif.Engine.Find
import AcVerif.Engine.Overlap
/-!
# Histories of operations on one searcher (C17)

The searcher is a value (`A`, `pre`); a search is a function of it and of the
input.  The only state in the API is owned by the caller: an
`OverlappingState` (or an iterator) per handle.  A history is a sequence of
operations issued – by any number of logical threads, in any interleaving –
against one searcher: plain searches, and stepwise overlapping calls on
caller-owned handles.
-/
namespace AcVerif
variable {σ α : Type}

inductive Op (α : Type) where
  | find (i : Input α)
  | ovl (handle : Nat) (i : Input α)

inductive Res where
  | found (r : Except MatchErr (Option Mat))
  | stepped (r : Except MatchErr (Option Mat))

/-- one operation: the searcher is not part of the state -/
def stepOp (A : Aut σ α) (pre : Option (Prefilter α)) (st : Nat → OState σ) :
    Op α → (Nat → OState σ) × Res
  | .find i => (st, .found (tryFindFwd A pre i))
  | .ovl h i =>
    match tryFindOverlappingFwd A pre i (st h) with
    | .ok s' => (fun k => if k = h then s' else st k, .stepped (.ok s'.mat))
    | .error e => (st, .stepped (.error e))

def runHist (A : Aut σ α) (pre : Option (Prefilter α)) :
    (Nat → OState σ) → List (Op α) → List Res
  | _, [] => []
  | st, op :: ops => (stepOp A pre st op).2 :: runHist A pre (stepOp A pre st op).1 ops

/-- the operations of a history that touch handle `h` -/
def onHandle (h : Nat) : List (Op α) → List (Op α)
  | [] => []
  | .ovl k i :: ops => if k = h then .ovl k i :: onHandle h ops else onHandle h ops
  | .find _ :: ops => onHandle h ops

/-- results of the operations on handle `h`, in order -/
def resultsOn (A : Aut σ α) (pre : Option (Prefilter α)) (h : Nat) :
    (Nat → OState σ) → List (Op α) → List Res
  | _, [] => []
  | st, .ovl k i :: ops =>
    if k = h then (stepOp A pre st (.ovl k i)).2 :: resultsOn A pre h (stepOp A pre st (.ovl k i)).1 ops
    else resultsOn A pre h (stepOp A pre st (.ovl k i)).1 ops
  | st, .find i :: ops => resultsOn A pre h (stepOp A pre st (.find i)).1 ops

end AcVerif
