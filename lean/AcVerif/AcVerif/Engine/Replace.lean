import AcVerif.Engine.Iter
/-!
# L2: the in-memory replace routines (`try_replace_all*`)

`try_replace_all_with_bytes` / `try_replace_all_with` transcribed: iterate the
non-overlapping matches, copy `haystack[last_match..m.start()]`, let the
closure append, stop when it returns `false`, finally copy
`haystack[last_match..]`.  The `&str` variant skips matches whose bounds are
not character boundaries.  The closure is modelled by what it appends
(`repl m`) and by the index `stop` of the call at which it returns `false`.
-/
namespace AcVerif

/-- `str::is_char_boundary` on the UTF-8 bytes of the string -/
def isCharBoundary (hay : List UInt8) (i : Nat) : Bool :=
  if i = 0 then true
  else match hay[i]? with
    | none => i == hay.length
    | some b => b < 128 || b ≥ 192      -- `(b as i8) >= -0x40`

variable {α : Type}

/-- the loop body over the iterator's matches.  `k` counts closure calls,
`last` is `last_match`, `dst` the output so far; also returns the closure log. -/
def spliceLoop (hay : List α) (repl : Mat → List α) (stop : Option Nat) (keep : Mat → Bool) :
    Nat → Nat → List Mat → List α → List (Mat × List α) → List α × List (Mat × List α)
  | _, last, [], dst, log => (dst ++ hay.drop last, log.reverse)
  | k, last, m :: ms, dst, log =>
    if !keep m then spliceLoop hay repl stop keep k last ms dst log
    else
      let dst := dst ++ (hay.take m.start).drop last ++ repl m
      let log := (m, (hay.take m.stop).drop m.start) :: log
      if stop == some k then (dst ++ hay.drop m.stop, log.reverse)
      else spliceLoop hay repl stop keep (k + 1) m.stop ms dst log

/-- `try_replace_all_with_bytes` given the iterator's matches -/
def replaceBytes (hay : List α) (ms : List Mat) (repl : Mat → List α) (stop : Option Nat) :
    List α × List (Mat × List α) :=
  spliceLoop hay repl stop (fun _ => true) 0 0 ms [] []

/-- `try_replace_all_with` (string haystack as UTF-8 bytes) -/
def replaceStr (hay : List UInt8) (ms : List Mat) (repl : Mat → List UInt8) (stop : Option Nat) :
    List UInt8 × List (Mat × List UInt8) :=
  spliceLoop hay repl stop (fun m => isCharBoundary hay m.start && isCharBoundary hay m.stop) 0 0 ms [] []

end AcVerif
