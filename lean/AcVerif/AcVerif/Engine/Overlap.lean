import AcVerif.Engine.Find
/-!
# L2: stepwise overlapping search (`try_find_overlapping_fwd(_imp)`)

`OverlappingState` is a record; one call maps a state to a state.  The
transcription follows the tree after the `fix:` commits for F3/F5 (DESIGN.md
section 8): the non-standard match kind is rejected, and an anchored search
skips matches that begin after the search start.
-/
namespace AcVerif
variable {σ α : Type}

/-- `OverlappingState` -/
structure OState (σ : Type) where
  mat : Option Mat := none
  id : Option σ := none
  at_ : Nat := 0
  nextIdx : Option Nat := none

def OState.start : OState σ := {}

/-- the `while state.at < input.end()` loop.  On entry `state.mat` and
`state.next_match_index` are `None` at all three call sites, and on every exit
`state.id` is the current state, so the loop is a function of `(sid, at)`. -/
def ovlLoop (A : Aut σ α) (hay : List α) (s e : Nat) (he : e ≤ hay.length)
    (pre : Option (Prefilter α)) (anch : Bool) (sid : σ) (at_ : Nat) : OState σ :=
  if h : at_ < e then
    let sid := A.next anch sid (hay[at_]'(Nat.lt_of_lt_of_le h he))
    if A.isSpecial sid then
      if A.isDead sid then { mat := Option.none, id := some sid, at_ := at_, nextIdx := Option.none }
      else if A.isMatch sid then
        let m := getMatch A sid 0 (at_ + 1)
        if !(anch && decide (m.start > s)) then
          { mat := some m, id := some sid, at_ := at_, nextIdx := some 1 }
        else ovlLoop A hay s e he pre anch sid (at_ + 1)
      else
        match pre with
        | some p =>
          match (p hay at_ e).intoOption with
          | Option.none => { mat := Option.none, id := some sid, at_ := at_, nextIdx := Option.none }
          | some i =>
            if i > at_ then ovlLoop A hay s e he pre anch sid i
            else ovlLoop A hay s e he pre anch sid (at_ + 1)
        | Option.none => ovlLoop A hay s e he pre anch sid (at_ + 1)
    else ovlLoop A hay s e he pre anch sid (at_ + 1)
  else { mat := Option.none, id := some sid, at_ := at_, nextIdx := Option.none }
termination_by e - at_
decreasing_by all_goals omega

/-- `try_find_overlapping_fwd_imp` -/
def ovlImp (A : Aut σ α) (i : Input α) (pre : Option (Prefilter α)) (st : OState σ) :
    Except MatchErr (OState σ) :=
  match st.id with
  | Option.none =>
    match A.start i.anch with
    | Option.none => .error (if i.anch then .invalidInputAnchored else .invalidInputUnanchored)
    | some sid =>
      let idx := st.nextIdx.getD 0
      if A.isMatch sid && decide (idx < (A.mpats sid).length) then
        .ok { st with nextIdx := some (idx + 1), mat := some (getMatch A sid idx i.s) }
      else
        .ok (ovlLoop A i.hay i.s i.e i.valid.1 pre i.anch sid i.s)
  | some sid =>
    match st.nextIdx with
    | some idx =>
      let m := getMatch A sid idx (st.at_ + 1)
      if decide (idx < (A.mpats sid).length) && !(i.anch && decide (m.start > i.s)) then
        .ok { st with nextIdx := some (idx + 1), mat := some m }
      else
        .ok (ovlLoop A i.hay i.s i.e i.valid.1 pre i.anch sid (st.at_ + 1))
    | Option.none => .ok (ovlLoop A i.hay i.s i.e i.valid.1 pre i.anch sid st.at_)

/-- `try_find_overlapping_fwd` -/
def tryFindOverlappingFwd (A : Aut σ α) (pre : Option (Prefilter α)) (i : Input α)
    (st : OState σ) : Except MatchErr (OState σ) :=
  let st := { st with mat := Option.none }
  if A.kind != .std then .error .unsupportedOverlapping
  else if i.isDone then
    match A.start i.anch with
    | Option.none => .error (if i.anch then .invalidInputAnchored else .invalidInputUnanchored)
    | some _ => .ok st
  else if i.anch then ovlImp A i Option.none st else ovlImp A i pre st

/-- `n` successive calls on one state: the reported match (or none) of each
call, stopping at the first error. -/
def ovlCalls (A : Aut σ α) (pre : Option (Prefilter α)) (i : Input α) :
    Nat → OState σ → List (Except MatchErr (Option Mat))
  | 0, _ => []
  | n + 1, st =>
    match tryFindOverlappingFwd A pre i st with
    | .error e => [.error e]
    | .ok st' => .ok st'.mat :: ovlCalls A pre i n st'

/-- `FindOverlappingIter`: call until a call reports nothing.  At most one
match per (offset, pattern) exists, which bounds the number of calls. -/
def ovlIterAux (A : Aut σ α) (pre : Option (Prefilter α)) (i : Input α) :
    Nat → OState σ → List Mat
  | 0, _ => []
  | n + 1, st =>
    match tryFindOverlappingFwd A pre i st with
    | .error _ => []
    | .ok st' =>
      match st'.mat with
      | Option.none => []
      | some m => m :: ovlIterAux A pre i n st'

end AcVerif
