import AcVerif.Engine.Find
/-!
# L2: stream search – `util/buffer.rs` and `StreamChunkIter` transcribed

The reader is a *schedule*: a list of requested read sizes (one per `read`
call; a missing entry means "as much as fits") and an optional index of the
`read` call that fails.  The stream is `data`.  The writer accepts bytes up to
an optional limit and then fails.  The roll buffer's capacity is
`min + spare` (the real default `max(8·min, 64 KiB)` is one value of `spare`).
-/
namespace AcVerif
variable {σ α : Type}

structure Reader (α : Type) where
  data : List α
  pos : Nat := 0
  sched : List Nat := []
  calls : Nat := 0
  failAt : Option Nat := none
  /-- number of `read` calls made with an empty buffer (indistinguishable from end of stream) -/
  emptyReads : Nat := 0

/-- one `read(buf)` call with `room = buf.len()` -/
def Reader.read (r : Reader α) (room : Nat) : Except Unit (List α × Reader α) :=
  if r.failAt == some r.calls then .error ()
  else
    let want := match r.sched[r.calls]? with | some w => w | none => room
    let n := min (min want room) (r.data.length - r.pos)
    .ok ((r.data.drop r.pos).take n,
      { r with pos := r.pos + n, calls := r.calls + 1,
               emptyReads := r.emptyReads + (if room = 0 then 1 else 0) })

/-- `Buffer` -/
structure Buffer (α : Type) where
  buf : List α      -- `self.buf[..self.end]`
  min : Nat
  cap : Nat

/-- `Buffer::new(min_buffer_len)`; `spare = none` is the production default -/
def Buffer.new (minBufferLen : Nat) (spare : Option Nat) (minFactor : Nat := 8)
    (defaultCap : Nat := 64 * 1024) : Buffer α :=
  let min := max 1 minBufferLen
  let cap := match spare with
    | some sp => min + max 1 sp
    | none => max (min * minFactor) defaultCap
  { buf := [], min := min, cap := cap }

/-- `Buffer::fill`: read until the buffer holds at least `min` bytes or the
reader reports end of stream.  `fuel` bounds the loop (each iteration that
continues has read at least one byte). -/
def Buffer.fill (b : Buffer α) (r : Reader α) (readany : Bool) :
    Nat → Except Unit (Bool × Buffer α × Reader α)
  | 0 => .ok (readany, b, r)
  | fuel + 1 =>
    match r.read (b.cap - b.buf.length) with
    | .error () => .error ()
    | .ok (bytes, r') =>
      if bytes.length = 0 then .ok (readany, b, r')
      else
        let b' := { b with buf := b.buf ++ bytes }
        if b'.buf.length ≥ b'.min then .ok (true, b', r')
        else Buffer.fill b' r' true fuel

/-- `Buffer::roll`: keep the last `min` bytes -/
def Buffer.roll (b : Buffer α) : Buffer α :=
  { b with buf := b.buf.drop (b.buf.length - b.min) }

inductive Chunk (α : Type) where
  | nonMatch (bytes : List α)
  | mtch (bytes : List α) (m : Mat)

/-- `StreamChunkIter` -/
structure ChunkIter (σ α : Type) where
  rdr : Reader α
  buf : Buffer α
  start : σ
  sid : σ
  absPos : Nat := 0
  bufPos : Nat := 0
  reported : Nat := 0

/-- the scan loop: feed bytes until a match state is entered -/
def scanBytes (A : Aut σ α) (sid : σ) (n : Nat) : List α → σ × Nat
  | [] => (sid, n)
  | c :: rest =>
    let sid := A.next false sid c
    if A.isMatch sid then (sid, n + 1) else scanBytes A sid (n + 1) rest

inductive NextResult (σ α : Type) where
  | done
  | ioErr
  | chunk (c : Chunk α)

/-- `StreamChunkIter::next` (one call).  `fuel` bounds the `loop`. -/
def ChunkIter.next (A : Aut σ α) (it : ChunkIter σ α) : Nat → NextResult σ α × ChunkIter σ α
  | 0 => (.done, it)
  | fuel + 1 =>
    if A.isMatch it.sid then
      let mat := getMatch A it.sid 0 it.absPos
      let len := mat.stop - mat.start
      let bufMatStart := it.bufPos - len
      if bufMatStart > it.reported then
        -- get_non_match_chunk
        let bytes := (it.buf.buf.take bufMatStart).drop it.reported
        (.chunk (.nonMatch bytes), { it with reported := it.reported + (bufMatStart - it.reported) })
      else
        let bytes := (it.buf.buf.take it.bufPos).drop bufMatStart
        (.chunk (.mtch bytes mat),
          { it with sid := it.start, reported := it.reported + (it.bufPos - bufMatStart) })
    else if it.bufPos ≥ it.buf.buf.length then
      let preEnd := it.buf.buf.length - it.buf.min
      if it.reported < preEnd then
        -- get_pre_roll_non_match_chunk
        let bytes := (it.buf.buf.take preEnd).drop it.reported
        (.chunk (.nonMatch bytes), { it with reported := it.reported + (preEnd - it.reported) })
      else
        let it :=
          if it.buf.buf.length ≥ it.buf.min then
            { it with bufPos := it.buf.min,
                      reported := it.reported - (it.buf.buf.length - it.buf.min),
                      buf := it.buf.roll }
          else it
        match it.buf.fill it.rdr false (it.rdr.data.length - it.rdr.pos + 1) with
        | .error () => (.ioErr, it)
        | .ok (false, b, r) =>
          let it := { it with buf := b, rdr := r }
          if it.reported < it.buf.buf.length then
            let bytes := it.buf.buf.drop it.reported
            (.chunk (.nonMatch bytes), { it with reported := it.buf.buf.length })
          else (.done, it)
        | .ok (true, b, r) =>
          let it := { it with buf := b, rdr := r }
          let (sid, n) := scanBytes A it.sid 0 (it.buf.buf.drop it.bufPos)
          ChunkIter.next A { it with sid := sid, absPos := it.absPos + n, bufPos := it.bufPos + n } fuel
    else
      let (sid, n) := scanBytes A it.sid 0 (it.buf.buf.drop it.bufPos)
      ChunkIter.next A { it with sid := sid, absPos := it.absPos + n, bufPos := it.bufPos + n } fuel

/-- `StreamChunkIter::new` -/
def ChunkIter.new (A : Aut σ α) (rdr : Reader α) (spare : Option Nat)
    (minFactor : Nat := 8) (defaultCap : Nat := 64 * 1024) :
    Except MatchErr (ChunkIter σ α) :=
  if A.kind != .std then .error .unsupportedStream
  else if A.minLen == 0 then .error .unsupportedEmpty
  else match A.start false with
    | none => .error .invalidInputUnanchored
    | some st =>
      .ok { rdr := rdr, buf := Buffer.new A.maxLen spare minFactor defaultCap, start := st, sid := st }

/-- enough for any `next` call: every loop iteration that does not return
consumes stream or buffer bytes -/
def nextFuel (it : ChunkIter σ α) : Nat := it.rdr.data.length + it.buf.cap + 4

/-- all chunks until end of stream or the first I/O error (`true` = error) -/
def ChunkIter.drain (A : Aut σ α) : Nat → ChunkIter σ α → List (Chunk α) × Bool × Nat
  | 0, it => ([], false, it.rdr.emptyReads)
  | n + 1, it =>
    match ChunkIter.next A it (nextFuel it) with
    | (.done, it') => ([], false, it'.rdr.emptyReads)
    | (.ioErr, it') => ([], true, it'.rdr.emptyReads)
    | (.chunk c, it') =>
      let (cs, err, er) := ChunkIter.drain A n it'
      (c :: cs, err, er)

/-- bound on the number of chunks: every chunk is non-empty except that a
match chunk may be preceded by a non-match chunk -/
def drainFuel (data : List α) : Nat := 2 * data.length + 4

/-- `StreamFindIter`: the matches, then whether an I/O error ended it -/
def streamFind (A : Aut σ α) (rdr : Reader α) (spare : Option Nat)
    (minFactor : Nat := 8) (defaultCap : Nat := 64 * 1024) :
    Except MatchErr (List Mat × Bool × Nat) :=
  match ChunkIter.new A rdr spare minFactor defaultCap with
  | .error e => .error e
  | .ok it =>
    let (cs, err, er) := ChunkIter.drain A (drainFuel rdr.data) it
    .ok (cs.filterMap (fun c => match c with | .mtch _ m => some m | _ => none), err, er)

/-- a writer accepting at most `limit` bytes in total -/
structure Writer (α : Type) where
  out : List α := []
  limit : Option Nat := none

/-- `write_all` -/
def Writer.writeAll (w : Writer α) (bytes : List α) : Writer α × Bool :=
  match w.limit with
  | none => ({ w with out := w.out ++ bytes }, true)
  | some l =>
    let room := l - w.out.length
    if bytes.length ≤ room then ({ w with out := w.out ++ bytes }, true)
    else ({ w with out := w.out ++ bytes.take room }, false)

/-- `try_stream_replace_all_with`, with the closure writing `repl m` and
logging its arguments.  Result: writer, log, and `ok` / I/O error. -/
def streamReplaceWith (A : Aut σ α) (rdr : Reader α) (spare : Option Nat) (w : Writer α)
    (repl : Mat → List α) (minFactor : Nat := 8) (defaultCap : Nat := 64 * 1024) :
    Except MatchErr (Writer α × List (Mat × List α) × Bool × Nat) :=
  match ChunkIter.new A rdr spare minFactor defaultCap with
  | .error e => .error e
  | .ok it =>
    let rec go : Nat → ChunkIter σ α → Writer α → List (Mat × List α) →
        Writer α × List (Mat × List α) × Bool × Nat
      | 0, it, w, log => (w, log.reverse, true, it.rdr.emptyReads)
      | n + 1, it, w, log =>
        match ChunkIter.next A it (nextFuel it) with
        | (.done, it') => (w, log.reverse, true, it'.rdr.emptyReads)
        | (.ioErr, it') => (w, log.reverse, false, it'.rdr.emptyReads)
        | (.chunk (.nonMatch bytes), it') =>
          match w.writeAll bytes with
          | (w', true) => go n it' w' log
          | (w', false) => (w', log.reverse, false, it'.rdr.emptyReads)
        | (.chunk (.mtch bytes m), it') =>
          match w.writeAll (repl m) with
          | (w', true) => go n it' w' ((m, bytes) :: log)
          | (w', false) => (w', ((m, bytes) :: log).reverse, false, it'.rdr.emptyReads)
    .ok (go (drainFuel rdr.data) it w [])

end AcVerif
