import AcVerif.Basic
/-!
# Line protocol codec (requests are `<op> key=value ...`)
-/
namespace AcVerif

abbrev Bytes := List UInt8

def hexDigit (c : Char) : Option Nat :=
  if '0' ≤ c ∧ c ≤ '9' then some (c.toNat - '0'.toNat)
  else if 'a' ≤ c ∧ c ≤ 'f' then some (c.toNat - 'a'.toNat + 10)
  else if 'A' ≤ c ∧ c ≤ 'F' then some (c.toNat - 'A'.toNat + 10)
  else none

def unhexChars : List Char → Option Bytes
  | [] => some []
  | [_] => none
  | a :: b :: rest => do
    let x ← hexDigit a
    let y ← hexDigit b
    let r ← unhexChars rest
    pure ((x * 16 + y).toUInt8 :: r)

def unhex (s : String) : Option Bytes :=
  if s == "_" || s == "" then some [] else unhexChars s.toList

def hexNib (n : Nat) : Char :=
  if n < 10 then Char.ofNat ('0'.toNat + n) else Char.ofNat ('a'.toNat + n - 10)

def hex (b : Bytes) : String :=
  if b.isEmpty then "_" else
    String.ofList (b.flatMap fun x => [hexNib (x.toNat / 16), hexNib (x.toNat % 16)])

def unhexList (s : String) : Option (List Bytes) :=
  if s == "." then some [] else (s.splitOn ",").mapM unhex

def parseNums (s : String) : Option (List Nat) :=
  if s == "." then some [] else (s.splitOn ",").mapM String.toNat?

structure Req where
  op : String
  kv : List (String × String)

def Req.parse (line : String) : Option Req :=
  match (line.trimAscii.toString.splitOn " ").filter (· ≠ "") with
  | [] => none
  | op :: toks =>
    let kv := toks.filterMap fun t =>
      match t.splitOn "=" with
      | k :: rest => if rest.isEmpty then none else some (k, "=".intercalate rest)
      | _ => none
    some { op := op, kv := kv }

def Req.get? (r : Req) (k : String) : Option String := (r.kv.find? (·.1 == k)).map (·.2)
def Req.getD (r : Req) (k : String) (d : String) : String := (r.get? k).getD d
def Req.nat? (r : Req) (k : String) : Option Nat := (r.get? k).bind String.toNat?
def Req.natD (r : Req) (k : String) (d : Nat) : Nat := (r.nat? k).getD d
def Req.flag (r : Req) (k : String) : Bool := r.get? k == some "1"
def Req.bytes? (r : Req) (k : String) : Option Bytes := (r.get? k).bind unhex
def Req.list? (r : Req) (k : String) : Option (List Bytes) := (r.get? k).bind unhexList
def Req.nums? (r : Req) (k : String) : Option (List Nat) := (r.get? k).bind parseNums

def fmtMat (m : Mat) : String := s!"{m.pid}:{m.start}:{m.stop}"
def fmtOpt : Option Mat → String
  | none => "none"
  | some m => fmtMat m
def fmtList (l : List String) : String := "[" ++ ",".intercalate l ++ "]"

def MatchKind.parse : String → Option MatchKind
  | "std" => some .std
  | "lf" => some .lf
  | "ll" => some .ll
  | _ => none

/-- a builder configuration as named in the request (`kind.dd.bc.pf.sk`) -/
structure Cfg where
  name : String
  kind : String
  dd : Option Nat
  bc : Bool
  pf : Bool
  sk : StartKind

def Cfg.parse (s : String) : Option Cfg :=
  match s.splitOn "." with
  | [k, dd, bc, pf, sk] =>
    let sk? : Option StartKind := match sk with
      | "u" => some .unanchored | "a" => some .anchored | "b" => some .both | _ => none
    sk?.map fun sk =>
      { name := s, kind := k, dd := dd.toNat?, bc := bc == "1", pf := pf == "1", sk := sk }
  | _ => none

def Cfg.isTop (c : Cfg) : Bool := c.kind == "tnc" || c.kind == "tc" || c.kind == "tdfa" || c.kind == "auto"

/-- the anchoring modes the *automaton* supports: the NFAs always support
both; the DFA supports what its start kind says -/
def Cfg.autStartKind (c : Cfg) : StartKind :=
  if c.kind == "nc" || c.kind == "c" || c.kind == "tnc" || c.kind == "tc" then .both else c.sk

end AcVerif
