import AcVerif.Aut
import AcVerif.Fold
/-!
# L1c: the noncontiguous NFA compiler (`nfa/noncontiguous.rs`), transcribed

`build_trie`, `set_anchored_start_state`, `add_unanchored_start_state_loop`,
`fill_failure_transitions` (breadth-first, with its queue and – for case
insensitivity – its `seen` set), `copy_matches`, and
`close_start_state_loop_for_leftmost`, in the order `Compiler::compile` runs
them, followed by `NFA::next_state` (failure-link chasing).  State ids are the
*pre-shuffle* ids (0 dead, 1 fail, 2 unanchored start, 3 anchored start, then
trie nodes in allocation order); `shuffle`, `densify` and byte classes only
renumber / re-encode and are not modelled (a dump is compared up to the
simulation the certificate finds).
-/
namespace AcVerif

structure CState where
  /-- sparse transitions, sorted by byte (`add_transition` keeps them sorted) -/
  trans : List (UInt8 × Nat) := []
  fail : Nat := 2
  matches_ : List Nat := []
deriving Repr, Inhabited

abbrev CNfa := Array CState

namespace CNfa
def DEAD : Nat := 0
def FAIL : Nat := 1
def SU : Nat := 2     -- start_unanchored_id (pre-shuffle)
def SA : Nat := 3     -- start_anchored_id (pre-shuffle)

/-- `follow_transition` -/
def follow (n : CNfa) (sid : Nat) (b : UInt8) : Nat :=
  match (n.getD sid {}).trans.find? (·.1 == b) with
  | some t => t.2
  | none => FAIL

/-- `add_transition`: sorted insert, overwriting an existing entry -/
def insertTrans (b : UInt8) (next : Nat) : List (UInt8 × Nat) → List (UInt8 × Nat)
  | [] => [(b, next)]
  | (c, t) :: rest =>
    if b < c then (b, next) :: (c, t) :: rest
    else if b == c then (b, next) :: rest
    else (c, t) :: insertTrans b next rest

def addTransition (n : CNfa) (prev : Nat) (b : UInt8) (next : Nat) : CNfa :=
  n.modify prev fun st => { st with trans := insertTrans b next st.trans }

/-- `init_full_state(prev, next)` -/
def fullTrans (next : Nat) : List (UInt8 × Nat) := (List.range 256).map fun i => (i.toUInt8, next)

def isMatch (n : CNfa) (sid : Nat) : Bool := !(n.getD sid {}).matches_.isEmpty

/-- `copy_matches(src, dst)`: append `src`'s matches to `dst`'s -/
def copyMatches (n : CNfa) (src dst : Nat) : CNfa :=
  let ms := (n.getD src {}).matches_
  n.modify dst fun st => { st with matches_ := st.matches_ ++ ms }

/-- the states after the preamble of `compile`: dead (all transitions to
itself), fail, the two start states with all transitions to FAIL -/
def init : CNfa :=
  #[{ trans := fullTrans DEAD, fail := SU }, { fail := SU },
    { trans := fullTrans FAIL, fail := SU }, { trans := fullTrans FAIL, fail := SU }]

/-- the inner `for (depth, &b) in pat.iter().enumerate()` loop of `build_trie`;
returns `none` when the pattern is skipped (leftmost-first, a match was seen) -/
def addPattern (lf fold : Bool) : CNfa → Nat → Bool → List UInt8 → Option (CNfa × Nat)
  | n, prev, _, [] => some (n, prev)
  | n, prev, sawMatch, b :: rest =>
    let sawMatch := sawMatch || isMatch n prev
    if lf && sawMatch then none
    else
      let next := follow n prev b
      if next != FAIL then addPattern lf fold n next sawMatch rest
      else
        let next := n.size
        let n := n.push { fail := SU }
        let n := addTransition n prev b next
        let n := if fold then addTransition n prev (oppositeAsciiCase b) next else n
        addPattern lf fold n next sawMatch rest

/-- `build_trie` -/
def buildTrie (k : MatchKind) (fold : Bool) (P : List (List UInt8)) : CNfa :=
  (P.zipIdx.foldl (fun n (pat, pid) =>
    match addPattern (k == .lf) fold n SU false pat with
    | none => n
    | some (n, last) => n.modify last fun st => { st with matches_ := st.matches_ ++ [pid] }) init)

/-- `set_anchored_start_state` -/
def setAnchoredStart (n : CNfa) : CNfa :=
  let su := n.getD SU {}
  (copyMatches (n.modify SA fun st => { st with trans := su.trans, fail := DEAD })) SU SA

/-- `add_unanchored_start_state_loop` -/
def addStartLoop (n : CNfa) : CNfa :=
  n.modify SU fun st => { st with trans := st.trans.map fun (b, t) => (b, if t == FAIL then SU else t) }

/-- the failure target computation: `while follow(fail, b) == FAIL { fail = states[fail].fail }` -/
def chaseFail (n : CNfa) (b : UInt8) : Nat → Nat → Nat
  | 0, fail => fail
  | fuel + 1, fail => if follow n fail b == FAIL then chaseFail n b fuel (n.getD fail {}).fail else fail

/-- processing the transitions of one dequeued state (the inner `while let Some(link)` loop) -/
def fillState (lm startIsMatch useSeen : Bool) (id : Nat) :
    List (UInt8 × Nat) → CNfa × List Nat × List Nat → CNfa × List Nat × List Nat
  | [], acc => acc
  | (b, next) :: rest, (n, queue, seen) =>
    if useSeen && seen.contains next then fillState lm startIsMatch useSeen id rest (n, queue, seen)
    else
      let queue := queue ++ [next]
      let seen := if useSeen then next :: seen else seen
      if lm && (startIsMatch || isMatch n next) then
        fillState lm startIsMatch useSeen id rest
          (n.modify next fun st => { st with fail := DEAD }, queue, seen)
      else
        let f0 := (n.getD id {}).fail
        let f := chaseFail n b n.size f0
        let f := follow n f b
        let n := n.modify next fun st => { st with fail := f }
        let n := copyMatches n f next
        fillState lm startIsMatch useSeen id rest (n, queue, seen)

/-- the first loop of `fill_failure_transitions`, over the start state's transitions -/
def fillStart (lm startIsMatch : Bool) :
    List (UInt8 × Nat) → CNfa × List Nat × List Nat → CNfa × List Nat × List Nat
  | [], acc => acc
  | (_, next) :: rest, (n, queue, seen) =>
    if next == SU || seen.contains next then fillStart lm startIsMatch rest (n, queue, seen)
    else
      let queue := queue ++ [next]
      let seen := next :: seen
      let n := if lm && (startIsMatch || isMatch n next)
        then n.modify next fun st => { st with fail := DEAD } else n
      let n := if !lm then copyMatches n SU next else n
      fillStart lm startIsMatch rest (n, queue, seen)

/-- the breadth-first loop; `fuel` bounds the number of dequeued states -/
def bfs (lm startIsMatch useSeen : Bool) : Nat → CNfa × List Nat × List Nat → CNfa
  | 0, (n, _, _) => n
  | fuel + 1, (n, queue, seen) =>
    match queue with
    | [] => n
    | id :: queue =>
      bfs lm startIsMatch useSeen fuel
        (fillState lm startIsMatch useSeen id (n.getD id {}).trans (n, queue, seen))

/-- `fill_failure_transitions` -/
def fillFailure (k : MatchKind) (fold : Bool) (n : CNfa) : CNfa :=
  let lm := k.isLeftmost
  let startIsMatch := isMatch n SU
  -- in the first loop the `seen` set is consulted unconditionally; with an inert set
  -- (`fold = false`) `contains` is always false, but then no two start transitions
  -- lead to the same non-start state, so consulting a real set changes nothing
  let (n, queue, seen) := fillStart lm startIsMatch (n.getD SU {}).trans (n, [], [])
  bfs lm startIsMatch fold n.size (n, queue, if fold then seen else [])

/-- `close_start_state_loop_for_leftmost` -/
def closeStartLoop (k : MatchKind) (n : CNfa) : CNfa :=
  if k.isLeftmost && isMatch n SU then
    n.modify SU fun st => { st with trans := st.trans.map fun (b, t) => (b, if t == SU then DEAD else t) }
  else n

/-- `Compiler::compile` (without shuffle / densify / prefilter) -/
def compile (k : MatchKind) (fold : Bool) (P : List (List UInt8)) : CNfa :=
  closeStartLoop k (fillFailure k fold (addStartLoop (setAnchoredStart (buildTrie k fold P))))

/-- `NFA::next_state`, with the number of failure links followed -/
def nextState (n : CNfa) (anch : Bool) : Nat → Nat → UInt8 → Nat → Nat × Nat
  | 0, sid, _, hops => (sid, hops)
  | fuel + 1, sid, b, hops =>
    let next := follow n sid b
    if next != FAIL then (next, hops)
    else if anch then (DEAD, hops)
    else nextState n anch fuel (n.getD sid {}).fail b (hops + 1)

end CNfa

/-- the compiled NFA as an automaton record -/
def CNfa.toAut (n : CNfa) (k : MatchKind) (P : List (List UInt8)) (hasPre : Bool) : Aut Nat UInt8 where
  start := fun anch => some (if anch then CNfa.SA else CNfa.SU)
  next := fun anch sid b => (CNfa.nextState n anch (n.size + 1) sid b 0).1
  isDead := fun q => q == CNfa.DEAD
  isMatch := fun q => q != CNfa.DEAD && CNfa.isMatch n q
  isStart := fun q => q == CNfa.SU || q == CNfa.SA
  isSpecial := fun q => q == CNfa.DEAD || CNfa.isMatch n q || (hasPre && (q == CNfa.SU || q == CNfa.SA))
  mpats := fun q => (n.getD q {}).matches_
  patLen := fun pid => (P.getD pid []).length
  patternsLen := P.length
  minLen := (P.map List.length).foldl min 18446744073709551615
  maxLen := (P.map List.length).foldl max 0
  kind := k
  hasPre := hasPre

end AcVerif
