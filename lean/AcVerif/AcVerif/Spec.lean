import AcVerif.Basic
/-!
# L0: the specification

The literal reading of properties C01/C02/C03/C09/C10: occurrences of patterns
inside a span, the three ways of choosing one, the order of the overlapping
enumeration, and the iterator with its empty-match rule.

Everything is generic in the alphabet `α`.  ASCII case folding is handled by
mapping both the patterns and the haystack through the fold (see `Fold.lean`).

Two forms are given:
* declarative (`IsOcc`, `IsFind`, …) – the statement language of the theorems;
* executable (`occList`, `findSpec`, …) – the naive quadratic oracle used by
  the driver to cross-check the models and to confirm counterexamples.
-/
namespace AcVerif
variable {α : Type} [DecidableEq α]

/-- `m` is an occurrence of pattern `P[m.pid]` inside the span `[s, e]` of
`hay`: it starts at or after `s`, ends at or before `e`, and the haystack
bytes in `[m.start, m.stop)` are the pattern.  (The span is assumed valid,
`e ≤ hay.length`; searching a span is by definition searching the sub-slice.) -/
def IsOcc (P : List (List α)) (hay : List α) (s e : Nat) (m : Mat) : Prop :=
  ∃ p, P[m.pid]? = some p ∧ s ≤ m.start ∧ m.stop = m.start + p.length ∧
    m.stop ≤ e ∧ p <+: hay.drop m.start

/-- Occurrence admissible for the given anchoring: anchored searches only
admit occurrences that begin at the span start. -/
def IsOccA (P : List (List α)) (hay : List α) (s e : Nat) (anch : Bool) (m : Mat) : Prop :=
  IsOcc P hay s e m ∧ (anch = true → m.start = s)

/-- leftmost-first preference: smaller start, then earlier supplied. -/
def betterLF (a b : Mat) : Prop :=
  a.start < b.start ∨ (a.start = b.start ∧ a.pid ≤ b.pid)

/-- leftmost-longest preference: smaller start, then longer, then earlier supplied. -/
def betterLL (a b : Mat) : Prop :=
  a.start < b.start ∨ (a.start = b.start ∧
    (b.stop < a.stop ∨ (a.stop = b.stop ∧ a.pid ≤ b.pid)))

/-- standard preference: smaller end, then longer (= smaller start), then earlier supplied. -/
def betterStd (a b : Mat) : Prop :=
  a.stop < b.stop ∨ (a.stop = b.stop ∧
    (a.start < b.start ∨ (a.start = b.start ∧ a.pid ≤ b.pid)))

def better : MatchKind → Mat → Mat → Prop
  | .std => betterStd
  | .lf => betterLF
  | .ll => betterLL

instance (k : MatchKind) (a b : Mat) : Decidable (better k a b) := by
  cases k <;> simp only [better, betterStd, betterLF, betterLL] <;> exact inferInstance

/-- `r` is *the* answer of a non-overlapping search under semantics `k`:
`none` iff there is no admissible occurrence, otherwise an admissible
occurrence preferred to every other one. -/
def IsFind (k : MatchKind) (P : List (List α)) (hay : List α) (s e : Nat) (anch : Bool) :
    Option Mat → Prop
  | none => ∀ m, ¬ IsOccA P hay s e anch m
  | some m => IsOccA P hay s e anch m ∧ ∀ m', IsOccA P hay s e anch m' → better k m m'

/-- Order of the overlapping enumeration: by end, then longer first, then
supply order.  (Strict version of `betterStd`.) -/
def ovlBefore (a b : Mat) : Prop :=
  a.stop < b.stop ∨ (a.stop = b.stop ∧
    (a.start < b.start ∨ (a.start = b.start ∧ a.pid < b.pid)))

instance (a b : Mat) : Decidable (ovlBefore a b) := by
  simp only [ovlBefore]; exact inferInstance

/-- `l` is *the* overlapping enumeration: strictly increasing in `ovlBefore`
(hence duplicate free) and containing exactly the admissible occurrences. -/
def IsOverlapList (P : List (List α)) (hay : List α) (s e : Nat) (anch : Bool)
    (l : List Mat) : Prop :=
  l.Pairwise ovlBefore ∧ ∀ m, m ∈ l ↔ IsOccA P hay s e anch m

/-! ## Executable oracle -/

/-- does `p` occur in `hay` at offset `i`? -/
def occursAtB (p hay : List α) (i : Nat) : Bool := p.isPrefixOf (hay.drop i)

/-- every occurrence in the span, enumerated by start and then by id -/
def occList (P : List (List α)) (hay : List α) (s e : Nat) (anch : Bool) : List Mat :=
  let starts := if anch then [s] else (List.range (e + 1 - s)).map (· + s)
  starts.flatMap fun st =>
    (List.range P.length).filterMap fun pid =>
      match P[pid]? with
      | none => none
      | some p =>
        if st + p.length ≤ e ∧ occursAtB p hay st then some ⟨pid, st, st + p.length⟩ else none

/-- the most preferred element of a list -/
def bestOf (k : MatchKind) : List Mat → Option Mat
  | [] => none
  | m :: ms =>
    match bestOf k ms with
    | none => some m
    | some b => if better k m b then some m else some b

def findSpec (k : MatchKind) (P : List (List α)) (hay : List α) (s e : Nat) (anch : Bool) :
    Option Mat :=
  if s > e then none else bestOf k (occList P hay s e anch)

/-- insertion into a list sorted by `ovlBefore` -/
def insertOvl (m : Mat) : List Mat → List Mat
  | [] => [m]
  | x :: xs => if ovlBefore m x then m :: x :: xs else x :: insertOvl m xs

def overlapSpec (P : List (List α)) (hay : List α) (s e : Nat) (anch : Bool) : List Mat :=
  if s > e then [] else (occList P hay s e anch).foldr insertOvl []

/-- The non-overlapping iterator, over an arbitrary search function
`F start = result of the search on the span [start, e]`:
repeat the search from the end of the previous match, except that an empty
match found at the previous match's end is replaced by the search from one
position later.  `fuel` bounds the number of yielded matches. -/
def iterSpecAux (F : Nat → Option Mat) : Nat → Nat → Option Nat → List Mat
  | 0, _, _ => []
  | fuel + 1, start, last =>
    match F start with
    | none => []
    | some m =>
      if m.start = m.stop ∧ last = some m.stop then
        match F (start + 1) with
        | none => []
        | some m' => m' :: iterSpecAux F fuel m'.stop (some m'.stop)
      else m :: iterSpecAux F fuel m.stop (some m.stop)

/-- at most `e - s + 2` matches can be yielded on the span `[s, e]` -/
def iterSpec (F : Nat → Option Mat) (s e : Nat) : List Mat :=
  iterSpecAux F (e + 2 - s) s none

end AcVerif
