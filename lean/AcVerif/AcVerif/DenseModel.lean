import AcVerif.ContigModel
/-!
# The dense transition rows of the noncontiguous NFA (`densify`, `follow_transition`)

States whose stored depth is below `dense_depth` get a row indexed by byte
*class* (`alloc_dense_state`, filled from the sparse transitions, `FAIL`
elsewhere); `follow_transition` reads the row when a state has one and scans
the sparse list otherwise; `add_transition` and
`close_start_state_loop_for_leftmost` keep both representations in sync.  The
noncontiguous NFA always uses the byte classes computed from the trie.
-/
namespace AcVerif
open CNfa

/-- the dense rows after `compile`: `none` = sparse state -/
def denseRows (n : CNfa) (denseDepth : Nat) : Array (Option (Array Nat)) :=
  let classOf := classOfMarks (marksOf (trieBytes n))
  let nclasses := classOf 255 + 1
  let depths := storedDepths n
  (Array.range n.size).map fun sid =>
    if sid == DEAD || sid == FAIL then none
    else if depths.getD sid 0 < denseDepth then
      some ((n.getD sid {}).trans.foldl (fun (row : Array Nat) (b, t) => row.set! (classOf b) t)
        (Array.replicate nclasses FAIL))
    else none

/-- `follow_transition` -/
def followD (n : CNfa) (rows : Array (Option (Array Nat))) (sid : Nat) (b : UInt8) : Nat :=
  match rows.getD sid none with
  | none => follow n sid b
  | some row => row.getD (classOfMarks (marksOf (trieBytes n)) b) FAIL

/-- `NFA::next_state` reading through `follow_transition` -/
def nextStateD (n : CNfa) (rows : Array (Option (Array Nat))) (anch : Bool) :
    Nat → Nat → UInt8 → Nat → Nat × Nat
  | 0, sid, _, hops => (sid, hops)
  | fuel + 1, sid, b, hops =>
    let next := followD n rows sid b
    if next != FAIL then (next, hops)
    else if anch then (DEAD, hops)
    else nextStateD n rows anch fuel (n.getD sid {}).fail b (hops + 1)

end AcVerif
