import AcVerif.Basic
/-!
# The abstract automaton record (the `Automaton` trait as data)

Exactly the observations the crate's generic search code makes of an
automaton: `start_state`, `next_state`, the four state predicates, the match
list of a state (`match_len` / `match_pattern` collapsed into a list), pattern
lengths and the match kind.  Both the ideal Aho-Corasick automaton (L1) and a
dumped real automaton (`Table`) are instances.
-/
namespace AcVerif

structure Aut (σ : Type) (α : Type) where
  /-- `start_state(anchored)`; `none` = the anchoring mode is not supported -/
  start : Bool → Option σ
  /-- `next_state(anchored, sid, byte)` -/
  next : Bool → σ → α → σ
  isSpecial : σ → Bool
  isDead : σ → Bool
  isMatch : σ → Bool
  isStart : σ → Bool
  /-- `[match_pattern(sid, i) | i < match_len(sid)]` -/
  mpats : σ → List Nat
  /-- `pattern_len(pid)` -/
  patLen : Nat → Nat
  patternsLen : Nat
  minLen : Nat
  maxLen : Nat
  kind : MatchKind
  /-- whether `prefilter()` is `Some` -/
  hasPre : Bool

variable {σ α : Type}

/-- run from a given state -/
def Aut.runFrom (A : Aut σ α) (anch : Bool) (q : σ) : List α → σ
  | [] => q
  | c :: w => A.runFrom anch (A.next anch q c) w

theorem Aut.runFrom_append (A : Aut σ α) (anch : Bool) (q : σ) (u v : List α) :
    A.runFrom anch q (u ++ v) = A.runFrom anch (A.runFrom anch q u) v := by
  induction u generalizing q with
  | nil => rfl
  | cons c u ih => simp [Aut.runFrom, ih]

/-- What a search loop can observe of a state: the three predicates it
branches on and the match list.  (`is_start` is only read by a
`debug_assert!`; a state that is special but neither dead nor match is
*treated as* a start state by the loops.)  `first` selects the strength: with
`first = true` only the first listed pattern of a match state is compared (all
that the non-overlapping searches read), otherwise the whole ordered list. -/
structure Obs where
  special : Bool
  dead : Bool
  isMatch : Bool
  pats : List Nat
deriving DecidableEq, Repr

def Aut.obs (A : Aut σ α) (first : Bool) (q : σ) : Obs :=
  { special := A.isSpecial q, dead := A.isDead q, isMatch := A.isMatch q,
    pats := if first then (A.mpats q).take 1 else A.mpats q }

end AcVerif
