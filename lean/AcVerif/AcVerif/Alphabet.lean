import AcVerif.Compiler
/-!
# L1-alphabet: `util/alphabet.rs`, transcribed

`DfaModel.lean` describes byte classes abstractly (`trieBytes`, `marksOf`, `classOfMarks`).  This
file transcribes the code that really computes them:

* `BitSet([u128; 2])` / `ByteSet`: `add` and `contains` with their `byte / 128`, `byte % 128`,
  `1 << bit`, `|=`, `&` arithmetic on two 128-bit words (`BitVec 128`, so a shift or an or that
  left the word would be visible);
* `ByteClassSet`: `empty`, `set_range(start, end)` (`if start > 0 { add(start - 1) }; add(end)`),
  and `byte_classes()`, the loop `class = 0; b = 0; loop { set(b, class); if b == 255 { break };
  if contains(b) { class = class.checked_add(1).unwrap() }; b = b.checked_add(1).unwrap() }`
  (both `unwrap`s are `Option`s here: `none` = panic);
* `ByteClasses([u8; 256])`: `empty`, `singletons`, `set`, `get`, `alphabet_len`, `stride2`
  (`alphabet_len().next_power_of_two().trailing_zeros()` with the `core` definitions of
  `next_power_of_two` – `one_less_than_next_power_of_two() + 1` via `leading_zeros` – and of
  `trailing_zeros`, on a 64-bit `usize`), `stride`, `is_singleton`, `elements`;
* the only caller of `set_range`: the inner loop of `noncontiguous::Compiler::build_trie`
  (`self.byteset.set_range(b, b)` and, when `ascii_case_insensitive`, the same for
  `opposite_ascii_case(b)`, *after* the leftmost-first `continue 'PATTERNS` test and *before*
  the edge is followed or created), and `self.nfa.byte_classes = self.byteset.byte_classes()`
  right after `build_trie`.  `init_full_state`, `init_unanchored_start_state`,
  `add_dead_state_loop`, `set_anchored_start_state`, `add_unanchored_start_state_loop` and
  `densify` never touch the byte set.

Also here: the seeded variant of `set_range` (`start > 1`), for the `decide`d witness.
-/
namespace AcVerif.Alphabet
open AcVerif AcVerif.CNfa

/-! ## `BitSet`, `ByteSet` -/

/-- `struct BitSet([u128; 2])` -/
structure BitSet where
  w0 : BitVec 128
  w1 : BitVec 128
deriving DecidableEq

/-- `self.0[usize::from(bucket)]` (`bucket = byte / 128` is 0 or 1, `bucket_lt_two`) -/
def BitSet.word (s : BitSet) (bucket : Nat) : BitVec 128 := if bucket = 0 then s.w0 else s.w1

/-- `self.0[usize::from(bucket)] = w` -/
def BitSet.setWord (s : BitSet) (bucket : Nat) (w : BitVec 128) : BitSet :=
  if bucket = 0 then { s with w0 := w } else { s with w1 := w }

/-- `struct ByteSet { bits: BitSet }` -/
structure ByteSet where
  bits : BitSet
deriving DecidableEq

/-- `ByteSet::empty` -/
def ByteSet.empty : ByteSet := { bits := { w0 := 0, w1 := 0 } }

/-- `ByteSet::add`: `self.bits.0[usize::from(byte / 128)] |= 1 << (byte % 128)` -/
def ByteSet.add (s : ByteSet) (byte : UInt8) : ByteSet :=
  let bucket := byte / 128
  let bit := byte % 128
  { bits := s.bits.setWord bucket.toNat (s.bits.word bucket.toNat ||| ((1 : BitVec 128) <<< bit.toNat)) }

/-- `ByteSet::contains`: `self.bits.0[usize::from(byte / 128)] & (1 << (byte % 128)) > 0` -/
def ByteSet.contains (s : ByteSet) (byte : UInt8) : Bool :=
  let bucket := byte / 128
  let bit := byte % 128
  decide (s.bits.word bucket.toNat &&& ((1 : BitVec 128) <<< bit.toNat) > 0)

/-! ## `ByteClasses` -/

/-- `struct ByteClasses([u8; 256])` -/
structure ByteClasses where
  arr : Array UInt8

/-- `ByteClasses::empty` -/
def ByteClasses.empty : ByteClasses := { arr := Array.replicate 256 0 }

/-- `ByteClasses::set` -/
def ByteClasses.set (c : ByteClasses) (byte cls : UInt8) : ByteClasses :=
  { arr := c.arr.set! byte.toNat cls }

/-- `ByteClasses::get` -/
def ByteClasses.get (c : ByteClasses) (byte : UInt8) : UInt8 := c.arr.getD byte.toNat 0

/-- `ByteClasses::singletons`: `for b in 0..=255 { classes.set(b, b) }` -/
def ByteClasses.singletons : ByteClasses :=
  (List.range 256).foldl (fun classes b => classes.set b.toUInt8 b.toUInt8) ByteClasses.empty

/-- `ByteClasses::alphabet_len`: `usize::from(self.0[255]) + 1` -/
def ByteClasses.alphabetLen (c : ByteClasses) : Nat := (c.get 255).toNat + 1

/-- `usize::leading_zeros` (64-bit) -/
def leadingZeros64 (x : Nat) : Nat := if x = 0 then 64 else 63 - x.log2

/-- `usize::one_less_than_next_power_of_two`:
`if self <= 1 { return 0 }; let p = self - 1; let z = p.leading_zeros(); usize::MAX >> z` -/
def oneLessThanNextPowerOfTwo (x : Nat) : Nat :=
  if x ≤ 1 then 0 else (2 ^ 64 - 1) >>> leadingZeros64 (x - 1)

/-- `usize::next_power_of_two`: `self.one_less_than_next_power_of_two() + 1` (overflow panics in
debug builds and wraps to 0 in release builds; `none` here) -/
def nextPowerOfTwo (x : Nat) : Option Nat :=
  let r := oneLessThanNextPowerOfTwo x + 1
  if r < 2 ^ 64 then some r else none

/-- `usize::trailing_zeros` (64-bit): the index of the lowest set bit, 64 for 0 -/
def trailingZeros64 (x : Nat) : Nat :=
  ((List.range 64).find? fun i => x.testBit i).getD 64

/-- `ByteClasses::stride2`: `self.alphabet_len().next_power_of_two().trailing_zeros()`
(the `usize::try_from(zeros).unwrap()` cannot fail: `zeros ≤ 64`) -/
def ByteClasses.stride2 (c : ByteClasses) : Option Nat :=
  (nextPowerOfTwo c.alphabetLen).map trailingZeros64

/-- `ByteClasses::stride`: `1 << self.stride2()` -/
def ByteClasses.stride (c : ByteClasses) : Option Nat := c.stride2.map fun s => 1 <<< s

/-- `ByteClasses::is_singleton` -/
def ByteClasses.isSingleton (c : ByteClasses) : Bool := c.alphabetLen == 256

/-- `ByteClasses::elements(class)`, collected: the bytes `0..=255` whose class is `class` -/
def ByteClasses.elements (c : ByteClasses) (cls : UInt8) : List UInt8 :=
  ((List.range 256).map Nat.toUInt8).filter fun b => cls == c.get b

/-! ## `ByteClassSet` -/

/-- `struct ByteClassSet(ByteSet)` -/
structure ByteClassSet where
  set : ByteSet
deriving DecidableEq

/-- `ByteClassSet::empty` -/
def ByteClassSet.empty : ByteClassSet := { set := ByteSet.empty }

/-- `ByteClassSet::set_range`: `if start > 0 { self.0.add(start - 1) }; self.0.add(end)` -/
def ByteClassSet.setRange (s : ByteClassSet) (start end_ : UInt8) : ByteClassSet :=
  let s0 := if start > 0 then s.set.add (start - 1) else s.set
  { set := s0.add end_ }

/-- the seeded defect: `if start > 1 { … }` -/
def ByteClassSet.setRangeSeeded (s : ByteClassSet) (start end_ : UInt8) : ByteClassSet :=
  let s0 := if start > 1 then s.set.add (start - 1) else s.set
  { set := s0.add end_ }

/-- `u8::checked_add` -/
def checkedAdd (a b : UInt8) : Option UInt8 :=
  if a.toNat + b.toNat < 256 then some (a + b) else none

/-- the `loop` of `ByteClassSet::byte_classes`, from the state `(classes, class, b)`.
`none`: one of the two `unwrap`s panicked, or the fuel ran out (with 256 units of fuel neither
happens, `byteClasses_eq`). -/
def byteClassesLoop (s : ByteSet) : Nat → ByteClasses → UInt8 → UInt8 → Option ByteClasses
  | 0, _, _, _ => none
  | fuel + 1, classes, cls, b =>
    let classes := classes.set b cls
    if b == 255 then some classes
    else
      match (if s.contains b then checkedAdd cls 1 else some cls) with
      | none => none
      | some cls =>
        match checkedAdd b 1 with
        | none => none
        | some b => byteClassesLoop s fuel classes cls b

/-- `ByteClassSet::byte_classes` -/
def ByteClassSet.byteClasses (s : ByteClassSet) : Option ByteClasses :=
  byteClassesLoop s.set 256 ByteClasses.empty 0 0

/-- `set_range(b, b)` for every byte of a list, in list order -/
def ByteClassSet.feed (s : ByteClassSet) (bytes : List UInt8) : ByteClassSet :=
  bytes.foldl (fun s b => s.setRange b b) s

/-- the same with the seeded `set_range` (the `byte_classes` loop is unchanged; the defect only
changes the set) -/
def ByteClassSet.feedSeeded (s : ByteClassSet) (bytes : List UInt8) : ByteClassSet :=
  bytes.foldl (fun s b => s.setRangeSeeded b b) s

/-! ## `build_trie` with the byte set it fills -/

/-- the two `set_range` calls of one step of `build_trie`'s inner loop -/
def markByte (fold : Bool) (S : ByteClassSet) (b : UInt8) : ByteClassSet :=
  let S := S.setRange b b
  if fold then S.setRange (oppositeAsciiCase b) (oppositeAsciiCase b) else S

/-- `CNfa.addPattern` together with `self.byteset`.  The marks made before a leftmost-first skip
(`continue 'PATTERNS`) stay in the set, so the set is returned in that case too. -/
def addPatternBS (lf fold : Bool) :
    CNfa → ByteClassSet → Nat → Bool → List UInt8 → Option (CNfa × Nat) × ByteClassSet
  | n, S, prev, _, [] => (some (n, prev), S)
  | n, S, prev, sawMatch, b :: rest =>
    let sawMatch := sawMatch || isMatch n prev
    if lf && sawMatch then (none, S)
    else
      let S := markByte fold S b
      let next := follow n prev b
      if next != FAIL then addPatternBS lf fold n S next sawMatch rest
      else
        let next := n.size
        let n := n.push { fail := SU }
        let n := addTransition n prev b next
        let n := if fold then addTransition n prev (oppositeAsciiCase b) next else n
        addPatternBS lf fold n S next sawMatch rest

/-- `CNfa.buildTrie` together with `self.byteset` -/
def buildTrieBS (k : MatchKind) (fold : Bool) (P : List (List UInt8)) : CNfa × ByteClassSet :=
  P.zipIdx.foldl (fun (acc : CNfa × ByteClassSet) (pp : List UInt8 × Nat) =>
    match addPatternBS (k == .lf) fold acc.1 acc.2 SU false pp.1 with
    | (none, S) => (acc.1, S)
    | (some (n, last), S) =>
      (n.modify last fun st => { st with matches_ := st.matches_ ++ [pp.2] }, S))
    (init, ByteClassSet.empty)

/-- `self.nfa.byte_classes = self.byteset.byte_classes()`: the classes of the noncontiguous NFA,
which `dfa::Builder` and `contiguous::Builder` clone when `byte_classes` is enabled -/
def nfaByteClasses (k : MatchKind) (fold : Bool) (P : List (List UInt8)) : Option ByteClasses :=
  (buildTrieBS k fold P).2.byteClasses

end AcVerif.Alphabet
