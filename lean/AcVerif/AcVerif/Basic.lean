/-!
# Basic vocabulary shared by the specification, the models and the driver.
No imports outside core: everything here must link into `acdrv`.
-/
namespace AcVerif

/-- A reported match: pattern id (0-based position in the supplied pattern
list) and the half-open byte range `[start, stop)`. -/
structure Mat where
  pid : Nat
  start : Nat
  stop : Nat
deriving DecidableEq, Repr, Inhabited

/-- Match semantics (`MatchKind` in the crate). -/
inductive MatchKind where
  | std | lf | ll
deriving DecidableEq, Repr, Inhabited

def MatchKind.isLeftmost : MatchKind → Bool
  | .std => false
  | _ => true

/-- `StartKind` in the crate. -/
inductive StartKind where
  | unanchored | anchored | both
deriving DecidableEq, Repr, Inhabited

/-- The error values a search can return (`MatchErrorKind`). -/
inductive MatchErr where
  | invalidInputAnchored      -- anchored search on a searcher without anchored support
  | invalidInputUnanchored    -- unanchored search on a searcher without unanchored support
  | unsupportedStream
  | unsupportedOverlapping
  | unsupportedEmpty
deriving DecidableEq, Repr, Inhabited

def MatchErr.name : MatchErr → String
  | .invalidInputAnchored => "err-anchored"
  | .invalidInputUnanchored => "err-unanchored"
  | .unsupportedStream => "err-stream"
  | .unsupportedOverlapping => "err-overlapping"
  | .unsupportedEmpty => "err-empty"

end AcVerif
