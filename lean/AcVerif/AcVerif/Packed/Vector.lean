import AcVerif.Packed.Model
/-!
# L3v: Teddy at the level of the vector operations (`packed/vector.rs`, `teddy/generic.rs`)

Vectors are lists of 16 or 32 bytes.  Each `Vector` / `FatVector` method is
defined by the documented semantics of the intrinsic it wraps
(`_mm_shuffle_epi8`, `_mm_alignr_epi8`, `_mm_srli_epi16`, `_mm256_permute2x128_si256`,
`_mm256_permute4x64_epi64`, `_mm256_unpack{lo,hi}_epi8`, `_mm256_broadcastsi128_si256`,
`_mm256_extract_epi64`), and `Slim<V, N>` / `Fat<V, N>` (`members1..4`,
`candidate`, `find_one`, `find`, `Teddy::verify`, `verify64`, `verify_bucket`,
`SlimMaskBuilder` / `FatMaskBuilder`) are transcribed on top of them.  The
semantics of the intrinsics themselves are the trusted part.
-/
namespace AcVerif
abbrev Vec8 := List UInt8

namespace V
def splat (w : Nat) (b : UInt8) : Vec8 := List.replicate w b
def and (a b : Vec8) : Vec8 := List.zipWith (· &&& ·) a b
def isZero (a : Vec8) : Bool := a.all (· == 0)

/-- `_mm_shuffle_epi8` / `_mm256_shuffle_epi8`: per 128-bit lane, byte `i` of the result is
`self[lane + (idx & 15)]`, or 0 when the index byte has its top bit set -/
def shuffleBytes (self indices : Vec8) : Vec8 :=
  (List.range indices.length).map fun i =>
    let idx := indices.getD i 0
    if idx &&& 0x80 != 0 then 0 else self.getD ((i / 16) * 16 + (idx &&& 0x0F).toNat) 0

/-- `_mm_srli_epi16::<4>` followed by `and(splat 0xF)`: shift each 16-bit lane right by 4 -/
def shift8bitLaneRight4 (a : Vec8) : Vec8 :=
  let srli := (List.range a.length).map fun i =>
    if i % 2 == 0 then ((a.getD i 0) >>> 4) ||| ((a.getD (i + 1) 0) <<< 4) else (a.getD i 0) >>> 4
  and srli (splat a.length 0xF)

/-- `_mm_alignr_epi8(a, b, n)` on one 128-bit lane: bytes `n..n+16` of `b ++ a` -/
def alignr16 (a b : Vec8) (n : Nat) : Vec8 := ((b ++ a).drop n).take 16

/-- `shift_in_k_bytes` for `__m128i` (k = 1,2,3: `alignr(self, vector2, 16 - k)`) -/
def shiftIn128 (k : Nat) (self v2 : Vec8) : Vec8 := alignr16 self v2 (16 - k)

/-- `shift_in_k_bytes` for `__m256i`: `v = permute2x128(vector2, self, 0x21)` = `[vector2.hi, self.lo]`,
then `alignr` per 128-bit lane -/
def shiftIn256 (k : Nat) (self v2 : Vec8) : Vec8 :=
  let v := v2.drop 16 ++ self.take 16
  alignr16 (self.take 16) (v.take 16) (16 - k) ++ alignr16 (self.drop 16) (v.drop 16) (16 - k)

/-- `half_shift_in_k_bytes` (fat): `alignr` per 128-bit lane with `vector2`'s own lanes -/
def halfShiftIn (k : Nat) (self v2 : Vec8) : Vec8 :=
  alignr16 (self.take 16) (v2.take 16) (16 - k) ++ alignr16 (self.drop 16) (v2.drop 16) (16 - k)

/-- `load_half_unaligned`: 16 bytes broadcast to both halves -/
def loadHalf (chunk : Vec8) : Vec8 := chunk ++ chunk

/-- `_mm256_permute4x64_epi64(self, 0x4E)` -/
def swapHalves (a : Vec8) : Vec8 := a.drop 16 ++ a.take 16

def interleave8 (a b : Vec8) : Vec8 := (List.zip a b).flatMap fun (x, y) => [x, y]

/-- `_mm256_unpacklo_epi8`: per 128-bit lane, interleave the low 8 bytes -/
def unpackLo (a b : Vec8) : Vec8 :=
  interleave8 (a.take 8) (b.take 8) ++ interleave8 ((a.drop 16).take 8) ((b.drop 16).take 8)

/-- `_mm256_unpackhi_epi8`: per 128-bit lane, interleave the high 8 bytes -/
def unpackHi (a b : Vec8) : Vec8 :=
  interleave8 ((a.drop 8).take 8) ((b.drop 8).take 8) ++ interleave8 ((a.drop 24).take 8) ((b.drop 24).take 8)

/-- little-endian 64-bit lane `i` -/
def lane64 (a : Vec8) (i : Nat) : Nat :=
  ((a.drop (8 * i)).take 8).foldr (fun b acc => b.toNat + 256 * acc) 0
end V

/-- `SlimMaskBuilder` / `FatMaskBuilder`: the 32-byte `lo` and `hi` tables for byte index `i` -/
def maskTables (t : Teddy) (fat : Bool) (i : Nat) : Vec8 × Vec8 :=
  let upd := fun (tbl : Vec8) (idx : Nat) (bit : UInt8) => tbl.set idx ((tbl.getD idx 0) ||| bit)
  (List.range t.nBuckets).foldl (fun (acc : Vec8 × Vec8) b =>
    (t.buckets.getD b []).foldl (fun (acc : Vec8 × Vec8) pid =>
      let byte := (t.pats.get pid).getD i 0
      let lo := (byte &&& 0xF).toNat
      let hi := ((byte >>> 4) &&& 0xF).toNat
      let (l, h) := acc
      if !fat then
        let bit : UInt8 := (1 : UInt8) <<< b.toUInt8
        (upd (upd l lo bit) (lo + 16) bit, upd (upd h hi bit) (hi + 16) bit)
      else if b < 8 then
        let bit : UInt8 := (1 : UInt8) <<< b.toUInt8
        (upd l lo bit, upd h hi bit)
      else
        let bit : UInt8 := (1 : UInt8) <<< (b % 8).toUInt8
        (upd l (lo + 16) bit, upd h (hi + 16) bit)) acc)
    (List.replicate 32 0, List.replicate 32 0)

/-- `Mask::members1..4`: for each mask index the AND of the two table shuffles -/
def membersV (t : Teddy) (fat : Bool) (w : Nat) (chunk : Vec8) : List Vec8 :=
  let lomask := V.splat w 0xF
  let hlo := V.and chunk lomask
  let hhi := V.and (V.shift8bitLaneRight4 chunk) lomask
  (List.range t.maskLen).map fun i =>
    let (lo, hi) := maskTables t fat i
    -- `Mask::build` loads the first `V::BYTES` bytes of each table
    V.and (V.shuffleBytes (lo.take w) hlo) (V.shuffleBytes (hi.take w) hhi)

/-- `candidate(cur, prevs)` on vectors; `w` = vector width in bytes (16 / 32), fat uses `w = 32`
with a broadcast 16-byte chunk -/
def candidateV (t : Teddy) (fat : Bool) (w : Nat) (chunk : Vec8) (prevs : List Vec8) :
    Vec8 × List Vec8 :=
  let n := t.maskLen
  let res := membersV t fat w chunk
  let shift := fun (k : Nat) (cur prev : Vec8) =>
    if fat then V.halfShiftIn k cur prev else if w == 16 then V.shiftIn128 k cur prev else V.shiftIn256 k cur prev
  let shifted := (List.range n).map fun i =>
    if i + 1 < n then shift (n - 1 - i) (res.getD i []) (prevs.getD i []) else res.getD i []
  (shifted.foldl V.and (V.splat w 0xFF), res.take (n - 1))

/-- `verify64`: lowest set bit first; `bit / BUCKETS` is the byte offset, `bit % BUCKETS` the bucket -/
def verify64 (t : Teddy) (hay : PBytes) (base : Nat) (chunk : Nat) : Option Mat :=
  (List.range 64).findSome? fun bit =>
    if chunk.testBit bit then
      let pos := base + bit / t.nBuckets
      (t.buckets.getD (bit % t.nBuckets) []).findSome? fun pid =>
        if isPrefixAt (t.pats.get pid) hay pos then
          some ({ pid := pid, start := pos, stop := pos + (t.pats.get pid).length } : Mat)
        else none
    else none

/-- `Teddy<8>::verify` / `Teddy<16>::verify` -/
def verifyV (t : Teddy) (fat : Bool) (w : Nat) (hay : PBytes) (base : Nat) (cand : Vec8) : Option Mat :=
  if !fat then
    (List.range (w / 8)).findSome? fun i => verify64 t hay (base + 8 * i) (V.lane64 cand i)
  else
    let swapped := V.swapHalves cand
    let r1 := V.unpackLo cand swapped
    let r2 := V.unpackHi cand swapped
    [(0, V.lane64 r1 0), (1, V.lane64 r1 1), (2, V.lane64 r2 0), (3, V.lane64 r2 1)].findSome? fun (i, lane) =>
      verify64 t hay (base + 4 * i) lane

/-- main loop of `Slim<V,N>::find` / `Fat<V,N>::find`; `stride` = bytes consumed per window
(`V::BYTES`, or `V::Half::BYTES = 16` for fat) -/
def mainLoopV (t : Teddy) (fat : Bool) (w stride : Nat) (hay : PBytes) :
    Nat → Nat → List Vec8 → Option Mat × Nat
  | 0, cur, _ => (none, cur)
  | fuel + 1, cur, prevs =>
    if cur + stride ≤ hay.length then
      let chunk := (hay.drop cur).take stride
      let (cand, prevs') := candidateV t fat w (if fat then V.loadHalf chunk else chunk) prevs
      match (if V.isZero cand then none else verifyV t fat w hay (cur - (t.maskLen - 1)) cand) with
      | some m => (some m, cur)
      | none => mainLoopV t fat w stride hay fuel (cur + stride) prevs'
    else (none, cur)

def findV (t : Teddy) (fat : Bool) (w : Nat) (hay : PBytes) (start : Nat) : Option Mat :=
  let n := t.maskLen
  let stride := if fat then 16 else w
  let init := List.replicate (n - 1) (V.splat w 0xFF)
  match mainLoopV t fat w stride hay (hay.length / stride + 2) (start + (n - 1)) init with
  | (some m, _) => some m
  | (none, cur) =>
    if cur < hay.length then
      let cur := hay.length - stride
      let chunk := (hay.drop cur).take stride
      let (cand, _) := candidateV t fat w (if fat then V.loadHalf chunk else chunk) init
      if V.isZero cand then none else verifyV t fat w hay (cur - (n - 1)) cand
    else none

/-- `Searcher::find_in` with Teddy run at the vector level -/
def PackedSearcher.findInV (s : PackedSearcher) (hay : PBytes) (st en : Nat) : Option Mat :=
  let h := hay.take en
  match s.teddy with
  | none => s.rk.findAt h st
  | some (v, t8, t16) =>
    if en - st < s.minimumLen then s.rk.findAt h st
    else match v with
      | .slim128 => findV t8 false 16 h st
      | .slim256 => if en - st < 32 + (t8.maskLen - 1) then findV t8 false 16 h st else findV t8 false 32 h st
      | .fat256 => findV t16 true 32 h st

end AcVerif
