import AcVerif.Basic
/-!
# L3: the packed searchers (`src/packed`) as functional models

* `PPatterns` – `packed::pattern::Patterns`: patterns by id and the semantic
  `order` (leftmost-first: by id; leftmost-longest: stable sort by descending
  length).
* `RabinKarp` – `rabinkarp.rs` with `usize` arithmetic as `UInt64` (wrapping).
* `Teddy` – `teddy/generic.rs`: bucket assignment by low-nybble fingerprint,
  per-byte-index nybble masks, the candidate computation of a window lane by
  lane (vectors are lists of per-lane bucket bit sets; `shift_in_k_bytes` is a
  list shift with the previous window's lanes as carry-in, initialised to all
  ones), the window schedule (stride = window width, final overlapped window
  with the carry reset), and verification in lane order, bucket order and then
  the bucket's pattern order.  The SIMD instructions themselves are *modelled*
  by these lane-wise definitions (trusted base).
* `packedFind` – `packed::Searcher::find_in`, including the fallback to
  Rabin-Karp for haystacks shorter than Teddy's minimum and the 128-bit
  fallback of the 256-bit slim variant.
-/
namespace AcVerif
abbrev PBytes := List UInt8

/-- `packed::MatchKind` -/
inductive PKind where
  | lf | ll
deriving DecidableEq, Repr, Inhabited

structure PPatterns where
  byId : List PBytes
  order : List Nat
  minLen : Nat
deriving Repr

/-- stable insertion by descending length (`sort_by` is a stable sort) -/
def insertByLenDesc (byId : List PBytes) (id : Nat) : List Nat → List Nat
  | [] => [id]
  | x :: xs =>
    if (byId.getD x []).length < (byId.getD id []).length then id :: x :: xs
    else x :: insertByLenDesc byId id xs

def PPatterns.new (kind : PKind) (pats : List PBytes) : PPatterns :=
  let ids := List.range pats.length
  let order := match kind with
    | .lf => ids
    | .ll => ids.foldl (fun acc id => insertByLenDesc pats id acc) []
  { byId := pats, order := order,
    minLen := (pats.map List.length).foldl min 18446744073709551615 }

def PPatterns.get (p : PPatterns) (id : Nat) : PBytes := p.byId.getD id []

/-- `Pattern::is_prefix(haystack[at..])` with the haystack already cut at the span end -/
def isPrefixAt (pat hay : PBytes) (at_ : Nat) : Bool := pat.isPrefixOf (hay.drop at_)

/-! ## Rabin-Karp -/

structure RabinKarp where
  pats : PPatterns
  buckets : List (List (UInt64 × Nat))   -- 64 buckets of (hash, pid) in `order`
  hashLen : Nat
  hash2pow : UInt64

def rkHash (bytes : PBytes) : UInt64 := bytes.foldl (fun h b => (h <<< 1) + b.toUInt64) 0

def rkUpdate (h2p prev : UInt64) (old new : UInt8) : UInt64 :=
  ((prev - old.toUInt64 * h2p) <<< 1) + new.toUInt64

def RabinKarp.new (p : PPatterns) : RabinKarp :=
  let hashLen := p.minLen
  let h2p := (List.range (hashLen - 1)).foldl (fun (h : UInt64) _ => h <<< 1) 1
  let empty : List (List (UInt64 × Nat)) := List.replicate 64 []
  let buckets := p.order.foldl (fun bs id =>
    let h := rkHash ((p.get id).take hashLen)
    let b := (h % 64).toNat
    bs.modify b (· ++ [(h, id)])) empty
  { pats := p, buckets := buckets, hashLen := hashLen, hash2pow := h2p }

/-- the `loop` of `find_at`; `hay` is `haystack[..span.end]` -/
def RabinKarp.loop (rk : RabinKarp) (hay : PBytes) : Nat → Nat → UInt64 → Option Mat
  | 0, _, _ => none
  | fuel + 1, at_, hash =>
    let bucket := rk.buckets.getD (hash % 64).toNat []
    match bucket.findSome? fun (ph, pid) =>
        if ph == hash && isPrefixAt (rk.pats.get pid) hay at_ then
          some ({ pid := pid, start := at_, stop := at_ + (rk.pats.get pid).length } : Mat)
        else none with
    | some m => some m
    | none =>
      if at_ + rk.hashLen ≥ hay.length then none
      else
        let hash := rkUpdate rk.hash2pow hash (hay.getD at_ 0) (hay.getD (at_ + rk.hashLen) 0)
        rk.loop hay fuel (at_ + 1) hash

def RabinKarp.findAt (rk : RabinKarp) (hay : PBytes) (at_ : Nat) : Option Mat :=
  if at_ + rk.hashLen > hay.length then none
  else rk.loop hay (hay.length + 1 - at_) at_ (rkHash ((hay.drop at_).take rk.hashLen))

/-! ## Teddy -/

structure Teddy where
  pats : PPatterns
  nBuckets : Nat                 -- 8 (slim) or 16 (fat)
  maskLen : Nat                  -- N = min 4 minimum_len
  buckets : List (List Nat)      -- pattern ids per bucket, in `order`
deriving Repr

/-- `Teddy::new`: a pattern joins the bucket of the first earlier pattern with
the same low-nybble fingerprint, else bucket `(B-1) - id % B` -/
def Teddy.new (p : PPatterns) (nBuckets : Nat) : Teddy :=
  let n := min 4 p.minLen
  let empty : List (List Nat) := List.replicate nBuckets []
  let (buckets, _) := p.order.foldl (fun (acc : List (List Nat) × List (PBytes × Nat)) id =>
    let (bs, map) := acc
    let key := ((p.get id).take n).map (· &&& 0xF)
    match map.find? (·.1 == key) with
    | some (_, b) => (bs.modify b (· ++ [id]), map)
    | none =>
      let b := (nBuckets - 1) - (id % nBuckets)
      (bs.modify b (· ++ [id]), map ++ [(key, b)])) (empty, [])
  { pats := p, nBuckets := nBuckets, maskLen := n, buckets := buckets }

/-- bit set of buckets holding a pattern whose `i`-th byte has the given low nybble (`Mask.lo`) -/
def Teddy.maskLo (t : Teddy) (i : Nat) (nyb : UInt8) : Nat :=
  (List.range t.nBuckets).foldl (fun acc b =>
    if (t.buckets.getD b []).any (fun id => ((t.pats.get id).getD i 0) &&& 0xF == nyb)
    then acc ||| (1 <<< b) else acc) 0

def Teddy.maskHi (t : Teddy) (i : Nat) (nyb : UInt8) : Nat :=
  (List.range t.nBuckets).foldl (fun acc b =>
    if (t.buckets.getD b []).any (fun id => ((t.pats.get id).getD i 0) >>> 4 == nyb)
    then acc ||| (1 <<< b) else acc) 0

/-- `Mask::membersN`, lane value for haystack byte `c` and mask index `i` -/
def Teddy.member (t : Teddy) (i : Nat) (c : UInt8) : Nat :=
  t.maskLo i (c &&& 0xF) &&& t.maskHi i (c >>> 4)

/-- `x.shift_in_k_bytes(prev)`: lanes move up by `k`, the top `k` lanes of `prev` come in -/
def shiftIn (k : Nat) (cur prev : List Nat) : List Nat :=
  (prev.drop (prev.length - k)) ++ cur.take (cur.length - k)

def allOnes (nBuckets w : Nat) : List Nat := List.replicate w ((1 <<< nBuckets) - 1)

/-- `candidate(cur, prevs)`: returns the candidate lanes and the new carries.
`chunk` = the `w` haystack bytes at `cur`. -/
def Teddy.candidate (t : Teddy) (chunk : PBytes) (prevs : List (List Nat)) :
    List Nat × List (List Nat) :=
  let n := t.maskLen
  let res := (List.range n).map fun i => chunk.map (t.member i)
  let shifted := (List.range n).map fun i =>
    if i + 1 < n then shiftIn (n - 1 - i) (res.getD i []) (prevs.getD i []) else res.getD i []
  let cand := shifted.foldl (fun acc v => List.zipWith (· &&& ·) acc v)
    (allOnes t.nBuckets chunk.length)
  (cand, res.take (n - 1))

/-- `verify`: lanes ascending, buckets ascending, patterns in bucket order;
`base` is the haystack position of lane 0 -/
def Teddy.verify (t : Teddy) (hay : PBytes) (base : Nat) (cand : List Nat) : Option Mat :=
  (List.range cand.length).findSome? fun j =>
    (List.range t.nBuckets).findSome? fun b =>
      if (cand.getD j 0) &&& (1 <<< b) != 0 then
        (t.buckets.getD b []).findSome? fun pid =>
          if isPrefixAt (t.pats.get pid) hay (base + j) then
            some ({ pid := pid, start := base + j, stop := base + j + (t.pats.get pid).length } : Mat)
          else none
      else none

/-- the main loop `while cur <= end - W`; `hay` is `haystack[..end]`.  Also
returns the positions `cur` at which a `w`-byte vector was loaded (C15). -/
def Teddy.mainLoop (t : Teddy) (hay : PBytes) (w : Nat) :
    Nat → Nat → List (List Nat) → List Nat → Option Mat × Nat × List Nat
  | 0, cur, _, loads => (none, cur, loads)
  | fuel + 1, cur, prevs, loads =>
    if cur + w ≤ hay.length then
      let (cand, prevs') := t.candidate ((hay.drop cur).take w) prevs
      match (if cand.all (· == 0) then none else t.verify hay (cur - (t.maskLen - 1)) cand) with
      | some m => (some m, cur, loads ++ [cur])
      | none => t.mainLoop hay w fuel (cur + w) prevs' (loads ++ [cur])
    else (none, cur, loads)

/-- `Slim<V, N>::find` / `Fat<V, N>::find` with window width `w`, with the list of load positions -/
def Teddy.findT (t : Teddy) (hay : PBytes) (start : Nat) (w : Nat) : Option Mat × List Nat :=
  let n := t.maskLen
  let init := List.replicate (n - 1) (allOnes t.nBuckets w)
  match t.mainLoop hay w (hay.length / w + 2) (start + (n - 1)) init [] with
  | (some m, _, loads) => (some m, loads)
  | (none, cur, loads) =>
    if cur < hay.length then
      let cur := hay.length - w
      let (cand, _) := t.candidate ((hay.drop cur).take w) init
      (if cand.all (· == 0) then none else t.verify hay (cur - (n - 1)) cand, loads ++ [cur])
    else (none, loads)

def Teddy.find (t : Teddy) (hay : PBytes) (start : Nat) (w : Nat) : Option Mat :=
  (t.findT hay start w).1

/-- the Teddy variants `teddy::Builder` can select on x86_64 -/
inductive TeddyVariant where
  | slim128 | slim256 | fat256
deriving DecidableEq, Repr

structure PackedSearcher where
  pats : PPatterns
  rk : RabinKarp
  /-- `none` = forced Rabin-Karp -/
  teddy : Option (TeddyVariant × Teddy × Teddy)   -- (variant, 8-bucket teddy, 16-bucket teddy)

/-- `Searcher::minimum_len` -/
def PackedSearcher.minimumLen (s : PackedSearcher) : Nat :=
  match s.teddy with
  | none => 0
  | some (_, t, _) => 16 + (t.maskLen - 1)     -- slim128 / slim256 (via its 128-bit half) / fat: V::Half = 16

/-- `Searcher::find_in(haystack, span)` -/
def PackedSearcher.findIn (s : PackedSearcher) (hay : PBytes) (st en : Nat) : Option Mat :=
  let h := hay.take en
  match s.teddy with
  | none => s.rk.findAt h st
  | some (v, t8, t16) =>
    if en - st < s.minimumLen then s.rk.findAt h st
    else match v with
      | .slim128 => t8.find h st 16
      | .slim256 => if en - st < 32 + (t8.maskLen - 1) then t8.find h st 16 else t8.find h st 32
      | .fat256 => t16.find h st 16

def PackedSearcher.new (kind : PKind) (pats : List PBytes) (variant : Option TeddyVariant) :
    PackedSearcher :=
  let p := PPatterns.new kind pats
  { pats := p, rk := RabinKarp.new p,
    teddy := variant.map fun v => (v, Teddy.new p 8, Teddy.new p 16) }

/-- `packed::FindIter` over the whole haystack -/
def PackedSearcher.iter (s : PackedSearcher) (hay : PBytes) : Nat → Nat → List Mat
  | 0, _ => []
  | fuel + 1, st =>
    if st > hay.length then []
    else match s.findIn hay st hay.length with
      | none => []
      | some m => m :: s.iter hay fuel m.stop

end AcVerif

namespace AcVerif

/-- Decision constants of the builders, extracted from the source on every run
(Tie C) and handed to the model, so that a retuned heuristic changes the model
in step with the code.  Defaults are the values of the pinned tree. -/
structure Consts where
  patternLimit : Nat := 128          -- packed/api.rs PATTERN_LIMIT
  teddyPatternLimit : Nat := 64      -- teddy/builder.rs: patlimit && patterns.len() > 64
  teddyMask1Limit : Nat := 16        -- mask_len == 1 && patterns.len() > 16
  teddyBeefy : Nat := 32             -- beefy = patterns.len() > 32
  prePackedPatlen : Nat := 16        -- prefilter.rs: patlen <= 16
  preRankSlack : Nat := 50           -- rank_sum + 50
  bufferDefaultCap : Nat := 64 * 1024
  bufferMinFactor : Nat := 8
  autoDfaLimit : Nat := 100
deriving Repr, Inhabited

/-- `teddy::Builder::build_imp` on x86_64: which variant is built, if any -/
def teddyChoice (k : Consts) (only256 onlyFat : Option Bool) (patlimit : Bool) (npat minLen : Nat)
    (avx2 ssse3 : Bool) : Option TeddyVariant :=
  if patlimit && npat > k.teddyPatternLimit then none
  else
    let maskLen := min 4 minLen
    let beefy := npat > k.teddyBeefy
    let hasSsse3 := avx2 || ssse3
    let useAvx2? : Option Bool :=
      match only256 with
      | some true => if !avx2 then none else some true
      | some false => if !hasSsse3 then none else some false
      | none => if !hasSsse3 && !avx2 then none else some avx2
    match useAvx2? with
    | none => none
    | some useAvx2 =>
      let fat? : Option Bool :=
        match onlyFat with
        | none => some (useAvx2 && beefy)
        | some false => some false
        | some true => if !useAvx2 then none else some true
      match fat? with
      | none => none
      | some fat =>
        if patlimit && maskLen == 1 && npat > k.teddyMask1Limit then none
        else if maskLen == 0 then none
        else if !useAvx2 then some .slim128
        else if fat then some .fat256 else some .slim256

/-- `packed::Builder::{add*, build}`: `none` = no searcher.  `force`:
`some true` = only Teddy, `some false` = only Rabin-Karp, `none` = default. -/
def packedBuild (k : Consts) (kind : PKind) (pats : List PBytes) (force : Option Bool)
    (only256 onlyFat : Option Bool) (patlimit avx2 ssse3 : Bool) : Option PackedSearcher :=
  -- the builder goes inert when a pattern is added beyond the limit, or at an empty pattern
  if pats.length > k.patternLimit || pats.any (·.isEmpty) || pats.isEmpty then none
  else
    match force with
    | some false => some (PackedSearcher.new kind pats none)
    | _ =>
      let minLen := (pats.map List.length).foldl min 18446744073709551615
      match teddyChoice k only256 onlyFat patlimit pats.length minLen avx2 ssse3 with
      | none => none
      | some v => some (PackedSearcher.new kind pats (some v))

end AcVerif
