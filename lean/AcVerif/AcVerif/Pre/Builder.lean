import AcVerif.Engine.Find
import AcVerif.Fold
import AcVerif.Packed.Model
/-!
# L3: prefilters (`src/util/prefilter.rs`)

`prefilter::Builder::{new, ascii_case_insensitive, add, build}` with its four
sub-builders (memmem, start bytes, rare bytes, packed) and the `find_in` of
each resulting prefilter.  The byte frequency table is a parameter (`freq`,
extracted from `util/byte_frequencies.rs` on every run), so are the CPU
features that decide whether a packed searcher can be built.
`memchr{,2,3}` are specified as "least index of any of the bytes" and
`memmem` as "first occurrence" (external crate, trusted).
-/
namespace AcVerif

/-- least position `p` in `[s, e)` with `pred hay[p]` (`memchr*` on `haystack[span]`) -/
def memchrIn (pred : UInt8 → Bool) (hay : List UInt8) (s e : Nat) : Option Nat :=
  ((List.range (e - s)).map (· + s)).find? fun p => match hay[p]? with | some b => pred b | none => false

/-- least position `p ≥ s` with `needle` at `hay[p..]` and `p + |needle| ≤ e` (`memmem` on `haystack[span]`) -/
def memmemIn (needle hay : List UInt8) (s e : Nat) : Option Nat :=
  ((List.range (e + 1 - s)).map (· + s)).find? fun p =>
    decide (p + needle.length ≤ e) && needle.isPrefixOf (hay.drop p)

structure StartBytesB where
  fold : Bool
  set : List UInt8 := []      -- members, in insertion order
  count : Nat := 0
  rankSum : Nat := 0

def StartBytesB.addOne (freq : UInt8 → Nat) (b : StartBytesB) (x : UInt8) : StartBytesB :=
  if b.set.contains x then b
  else { b with set := b.set ++ [x], count := b.count + 1, rankSum := b.rankSum + freq x }

def StartBytesB.add (freq : UInt8 → Nat) (b : StartBytesB) (bytes : List UInt8) : StartBytesB :=
  if b.count > 3 then b
  else match bytes with
    | [] => b
    | x :: _ =>
      let b := b.addOne freq x
      if b.fold then b.addOne freq (oppositeAsciiCase x) else b

/-- the bytes of the set in ascending order (`for b in 0..256`) -/
def sortedBytes (set : List UInt8) : List UInt8 :=
  ((List.range 256).map (·.toUInt8)).filter set.contains

/-- `StartBytesBuilder::build`: the bytes searched for, if the prefilter exists -/
def StartBytesB.build (b : StartBytesB) : Option (List UInt8) :=
  if b.count > 3 then none
  else
    let bytes := sortedBytes b.set
    if bytes.any (· > 0x7F) then none
    else if bytes.isEmpty then none else some bytes

structure RareBytesB where
  fold : Bool
  rareSet : List UInt8 := []
  offsets : UInt8 → Nat := fun _ => 0
  available : Bool := true
  count : Nat := 0
  rankSum : Nat := 0

def RareBytesB.setOffset (b : RareBytesB) (pos : Nat) (x : UInt8) : RareBytesB :=
  let upd := fun (f : UInt8 → Nat) (y : UInt8) => fun z => if z == y then max (f z) pos else f z
  let o := upd b.offsets x
  { b with offsets := if b.fold then upd o (oppositeAsciiCase x) else o }

def RareBytesB.addOneRare (freq : UInt8 → Nat) (b : RareBytesB) (x : UInt8) : RareBytesB :=
  if b.rareSet.contains x then b
  else { b with rareSet := b.rareSet ++ [x], count := b.count + 1, rankSum := b.rankSum + freq x }

/-- the `for (pos, &b) in bytes.iter().enumerate()` loop -/
def RareBytesB.scan (freq : UInt8 → Nat) :
    RareBytesB → Nat → Bool → UInt8 × Nat → List UInt8 → RareBytesB × Bool × (UInt8 × Nat)
  | b, _, found, rarest, [] => (b, found, rarest)
  | b, pos, found, rarest, x :: rest =>
    let b := b.setOffset pos x
    if found then RareBytesB.scan freq b (pos + 1) found rarest rest
    else if b.rareSet.contains x then RareBytesB.scan freq b (pos + 1) true rarest rest
    else
      let rarest := if freq x < rarest.2 then (x, freq x) else rarest
      RareBytesB.scan freq b (pos + 1) false rarest rest

def RareBytesB.add (freq : UInt8 → Nat) (b : RareBytesB) (bytes : List UInt8) : RareBytesB :=
  if !b.available then b
  else if b.count > 3 then { b with available := false }
  else if bytes.length ≥ 256 then { b with available := false }
  else match bytes with
    | [] => b
    | x :: _ =>
      let (b, found, rarest) := RareBytesB.scan freq b 0 false (x, freq x) bytes
      if found then b
      else
        let b := b.addOneRare freq rarest.1
        if b.fold then b.addOneRare freq (oppositeAsciiCase rarest.1) else b

def RareBytesB.build (b : RareBytesB) : Option (List UInt8) :=
  if !b.available || b.count > 3 then none
  else
    let bytes := sortedBytes b.rareSet
    if bytes.isEmpty then none else some bytes

/-- `prefilter::Builder` -/
structure PreBuilder where
  kind : MatchKind
  fold : Bool
  count : Nat := 0
  enabled : Bool := true
  start : StartBytesB
  rare : RareBytesB
  memCount : Nat := 0
  memOne : Option (List UInt8) := none
  /-- patterns handed to the packed builder (`none` once it is inert) -/
  packed : Option (List (List UInt8)) := some []

def PreBuilder.new (kind : MatchKind) (fold : Bool) : PreBuilder :=
  { kind := kind, fold := fold, start := { fold := fold }, rare := { fold := fold } }

def PreBuilder.add (k : Consts) (freq : UInt8 → Nat) (b : PreBuilder) (bytes : List UInt8) : PreBuilder :=
  let b := if bytes.isEmpty then { b with enabled := false } else b
  if !b.enabled then b
  else
    { b with
      count := b.count + 1
      start := b.start.add freq bytes
      rare := b.rare.add freq bytes
      memCount := b.memCount + 1
      memOne := if b.memCount + 1 == 1 then some bytes else none
      packed := match b.packed with
        | none => none
        | some ps => if ps.length ≥ k.patternLimit then none else some (ps ++ [bytes]) }

/-- which prefilter `build` returns -/
inductive PreChoice where
  | memmem (needle : List UInt8)
  | startBytes (bytes : List UInt8)
  | rareBytes (bytes : List UInt8) (offsets : UInt8 → Nat)
  | packed (s : PackedSearcher)

def PreChoice.name : PreChoice → String
  | .memmem _ => "memmem"
  | .startBytes bs => s!"start{bs.length}"
  | .rareBytes bs _ => s!"rare{bs.length}"
  | .packed _ => "packed"

/-- `prefilter::Builder::build` -/
def PreBuilder.build (k : Consts) (b : PreBuilder) (avx2 ssse3 : Bool) : Option PreChoice :=
  if !b.enabled then none
  else
    match (if !b.fold then b.memOne else none) with
    | some needle => some (.memmem needle)
    | none =>
      -- (packed, patlen, minlen)
      let pk : Option PKind := match b.kind with | .std => none | .lf => some .lf | .ll => some .ll
      let pl := k.prePackedPatlen
      let (packed, patlen, minlen) : Option PreChoice × Nat × Nat :=
        if b.fold then (none, 18446744073709551615, 0)
        else match pk with
          | none => (none, 18446744073709551615, 0)
          | some pkind =>
            match b.packed with
            | none => (none, 0, 18446744073709551615)       -- inert builder: patterns were reset
            | some ps =>
              ((packedBuild k pkind ps none none none true avx2 ssse3).map PreChoice.packed, ps.length,
                (ps.map List.length).foldl min 18446744073709551615)
      match b.start.build, b.rare.build with
      | some sb, some rb =>
        if patlen ≤ pl && minlen ≥ 2 && b.start.count ≥ 3 && b.rare.count ≥ 3 then packed
        else if b.start.count < b.rare.count then some (.startBytes sb)
        else if b.start.rankSum ≤ b.rare.rankSum + k.preRankSlack then some (.startBytes sb)
        else some (.rareBytes rb b.rare.offsets)
      | some sb, none =>
        if patlen ≤ pl && minlen ≥ 2 && b.start.count ≥ 3 then packed else some (.startBytes sb)
      | none, some rb =>
        if patlen ≤ pl && minlen ≥ 2 && b.rare.count ≥ 3 then packed
        else some (.rareBytes rb b.rare.offsets)
      | none, none => if b.fold then none else packed

/-- `Prefilter::find_in` of each prefilter -/
def PreChoice.findIn (c : PreChoice) : Prefilter UInt8 := fun hay s e =>
  match c with
  | .memmem needle =>
    match memmemIn needle hay s e with
    | none => .none
    | some p => .mtch { pid := 0, start := p, stop := p + needle.length }
  | .startBytes bs =>
    match memchrIn bs.contains hay s e with
    | none => .none
    | some p => .pos p
  | .rareBytes bs offsets =>
    match memchrIn bs.contains hay s e with
    | none => .none
    | some p =>
      -- RareBytesOne uses the offset of its single byte, which is `hay[p]`
      let off := offsets (hay.getD p 0)
      .pos (max s (p - off))
  | .packed srch =>
    match srch.findIn hay s e with
    | none => .none
    | some m => .mtch m

/-- the prefilter a searcher built from `pats` carries -/
def buildPrefilter (k : Consts) (kind : MatchKind) (fold : Bool) (freq : UInt8 → Nat)
    (pats : List (List UInt8)) (avx2 ssse3 : Bool) : Option PreChoice :=
  (pats.foldl (PreBuilder.add k freq) (PreBuilder.new kind fold)).build k avx2 ssse3

end AcVerif
