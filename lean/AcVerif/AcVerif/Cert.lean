import AcVerif.Aut
/-!
# Tie A: the bisimulation certificate checker and its soundness proof

`certOk A B n anch first f alphabet` checks a *candidate* functional
simulation `f` from the states `0..n-1` of a dumped automaton `B` to the states
of a reference automaton `A` (the ideal automaton, or another dump):

* the start states correspond (or neither automaton supports the anchoring);
* whenever `f b = some a`, the observations of `a` and `b` agree, and for
  every symbol `c` of the alphabet `f (B.next b c) = some (A.next a c)`.

`f` is computed by an untrusted worklist in the driver; only this checker is
trusted, and `certOk_sound` proves that a passing check implies equal
observations after **every** input word – i.e. for haystacks of every length.
-/
namespace AcVerif
variable {σ α : Type} [DecidableEq σ]

def certOk (A : Aut σ α) (B : Aut Nat α) (n : Nat) (anch first : Bool)
    (f : Array (Option σ)) (alphabet : List α) : Bool :=
  match A.start anch, B.start anch with
  | Option.none, Option.none => true
  | some a0, some b0 =>
    f.size == n && f[b0]? == some (some a0) &&
    (List.range n).all fun b =>
      match f[b]? with
      | some (some a) =>
        decide (A.obs first a = B.obs first b) &&
        alphabet.all fun c => f[B.next anch b c]? == some (some (A.next anch a c))
      | _ => true
  | _, _ => false

/-- the invariant the check establishes -/
private def Rel (f : Array (Option σ)) (a : σ) (b : Nat) : Prop := f[b]? = some (some a)

theorem certOk_step {A : Aut σ α} {B : Aut Nat α} {n : Nat} {anch first : Bool}
    {f : Array (Option σ)} {alphabet : List α} {a0 : σ} {b0 : Nat}
    (ha : A.start anch = some a0) (hb : B.start anch = some b0)
    (h : certOk A B n anch first f alphabet = true) (hal : ∀ c : α, c ∈ alphabet) :
    f[b0]? = some (some a0) ∧
    ∀ a b, f[b]? = some (some a) →
      A.obs first a = B.obs first b ∧
      ∀ c, f[B.next anch b c]? = some (some (A.next anch a c)) := by
  unfold certOk at h
  rw [ha, hb] at h
  simp only [Bool.and_eq_true, beq_iff_eq, List.all_eq_true, List.mem_range] at h
  obtain ⟨⟨hsz, h0⟩, hall⟩ := h
  refine ⟨h0, ?_⟩
  intro a b hab
  have hb_lt : b < n := by
    have : b < f.size := by
      rcases Nat.lt_or_ge b f.size with h | h
      · exact h
      · rw [Array.getElem?_eq_none (by omega)] at hab; cases hab
    omega
  have := hall b hb_lt
  rw [hab] at this
  simp only [Bool.and_eq_true, decide_eq_true_eq, List.all_eq_true, beq_iff_eq] at this
  exact ⟨this.1, fun c => this.2 c (hal c)⟩

/-- **Soundness of the certificate check.**  If the check passes for an
alphabet that contains every symbol, the two automata make identical
observations after every input word. -/
theorem certOk_sound {A : Aut σ α} {B : Aut Nat α} {n : Nat} {anch first : Bool}
    {f : Array (Option σ)} {alphabet : List α} {a0 : σ} {b0 : Nat}
    (ha : A.start anch = some a0) (hb : B.start anch = some b0)
    (h : certOk A B n anch first f alphabet = true) (hal : ∀ c : α, c ∈ alphabet)
    (w : List α) :
    A.obs first (A.runFrom anch a0 w) = B.obs first (B.runFrom anch b0 w) := by
  obtain ⟨h0, hstep⟩ := certOk_step ha hb h hal
  suffices ∀ (w : List α) a b, f[b]? = some (some a) →
      A.obs first (A.runFrom anch a w) = B.obs first (B.runFrom anch b w) from this w a0 b0 h0
  intro w
  induction w with
  | nil => intro a b hab; exact (hstep a b hab).1
  | cons c w ih => intro a b hab; exact ih _ _ ((hstep a b hab).2 c)

/-- the check also decides whether both automata support the anchoring mode -/
theorem certOk_start {A : Aut σ α} {B : Aut Nat α} {n : Nat} {anch first : Bool}
    {f : Array (Option σ)} {alphabet : List α}
    (h : certOk A B n anch first f alphabet = true) :
    (A.start anch).isSome = (B.start anch).isSome := by
  unfold certOk at h
  cases hA : A.start anch <;> cases hB : B.start anch <;> simp_all

end AcVerif
