import AcVerif.BuildChecked
import AcVerif.Fold
import AcVerif.Engine.Gates
import AcVerif.Engine.Iter
import AcVerif.Engine.Overlap
import AcVerif.Engine.Replace
import AcVerif.Engine.Stream
import AcVerif.Pre.Builder
/-!
# The top level: `AhoCorasick::builder()…build(patterns)` and the public search methods

`buildChecked` (`BuildChecked.lean`) transcribes `AhoCorasickBuilder::build`; the files in
`Engine/` transcribe the generic search code of `src/automaton.rs`; `Engine/Gates.lean`
transcribes `enforce_anchored_consistency`.  This file composes them the way
`src/ahocorasick.rs` does:

* `Built.toAut`: the `Automaton` implementation of the searcher behind `Arc<dyn AcAutomaton>`
  (the noncontiguous NFA reading through its dense rows, the contiguous NFA, or the DFA);
* `Searcher`: the `AhoCorasick` value (`aut`, `kind`, `start_kind`), `acBuild`: the builder for a
  given prefilter (or none), `acBuildP`: the builder with the prefilter `prefilter::Builder` chooses;
* `topFind` (`try_find`, ahocorasick.rs:1024-1031), `topIsMatch` (`is_match`, :311-319),
  `topFindIter` (`try_find_iter`, :1278-1285), `topOvlCall` / `topOverlapping`
  (`try_find_overlapping`, :1187-1195, called repeatedly on one `OverlappingState`),
  `topOverlappingIter` (`try_find_overlapping_iter`, :1353-1360),
  `topReplaceAllWithBytes` / `topReplaceAllBytes` (`try_replace_all_with_bytes`, :1603-1614,
  `try_replace_all_bytes`, :1450-1460), `topStreamFind` (`try_stream_find_iter`, :1680-1686):
  each is `enforce_anchored_consistency(self.start_kind, …)?` followed by the method of the
  `Automaton` trait, which consults `self.aut.prefilter()`.

The specification vocabulary for case-insensitive searchers (`specPats`, `specHay`) is here too:
with `ascii_case_insensitive(true)` an occurrence is read on the lower-cased patterns and the
lower-cased haystack (C11); with `false` both maps are the identity.
-/
namespace AcVerif

/-! ## specification vocabulary -/

/-- the patterns as the specification reads them: lower-cased iff `ascii_case_insensitive` -/
def specPats : Bool → List (List UInt8) → List (List UInt8)
  | false, P => P
  | true, P => P.map (·.map foldByte)

/-- the haystack as the specification reads it: lower-cased iff `ascii_case_insensitive` -/
def specHay : Bool → List UInt8 → List UInt8
  | false, hay => hay
  | true, hay => hay.map foldByte

/-- `Input::new(haystack)`: the whole haystack, `Anchored::No`, `earliest(false)` -/
def Input.whole (hay : List UInt8) : Input UInt8 :=
  { hay := hay, s := 0, e := hay.length, anch := false, earliest := false,
    valid := ⟨Nat.le_refl _, Nat.zero_le _⟩ }

/-- `max_pattern_len()`: what `Buffer::new` is given as the minimum buffer length -/
abbrev maxPatLen (P : List (List UInt8)) : Nat := (P.map List.length).foldl max 0

/-- the error of `enforce_anchored_consistency` for a requested mode: it names the mode asked for -/
abbrev anchErr (a : Bool) : MatchErr :=
  if a then .invalidInputAnchored else .invalidInputUnanchored

/-! ## the searcher -/

/-- `noncontiguous::NFA::byte_classes` (noncontiguous.rs:196): the `ByteClassSet` filled by
`build_trie` (`set_range(b, b)` for every trie byte, :1089-1101), frozen at :1010.  `Built.nnc`
keeps the states and the dense rows but not this field; it is a function of the patterns (the same
expression `buildContig` / `buildDfaIds` use for their classes; `L1Alphabet` ties it to the
`ByteClassSet` bit set). -/
def nncClasses (k : MatchKind) (fold : Bool) (P : List (List UInt8)) : UInt8 → Nat :=
  classOfMarks (marksOf (trieBytes (CNfa.compile k fold P)))

/-- The `Automaton` implementation of the built searcher.  `match_kind`, `pattern_lens`,
`min_pattern_len`, `max_pattern_len` and whether a prefilter is attached are copied from the
builder's inputs by all three builders (they are fields of every `toAut`); the noncontiguous NFA
reads its transitions through the stored dense rows (`follow_transition`). -/
def Built.toAut (b : Built) (cfg : BuildCfg) (P : List (List UInt8)) : Aut Nat UInt8 :=
  match b with
  | .nnc m rows =>
    m.toAutD (nncClasses cfg.matchKind cfg.fold P) rows cfg.matchKind P cfg.hasPre
  | .contig m => m.toAut cfg.matchKind P cfg.hasPre
  | .dfa d => d.toAut cfg.matchKind P cfg.hasPre

/-- `AhoCorasick { aut, kind, start_kind }` (ahocorasick.rs:180-202).  `cfg` holds `start_kind` and
the settings the automaton copied; `pats` the pattern list (read only through pattern lengths);
`pre` is `self.aut.prefilter()` as a function. -/
structure Searcher where
  cfg : BuildCfg
  pats : List (List UInt8)
  built : Built
  pre : Option (Prefilter UInt8)

def Searcher.aut (s : Searcher) : Aut Nat UInt8 := s.built.toAut s.cfg s.pats

/-- `AhoCorasick::kind()` -/
def Searcher.kind (s : Searcher) : AcKind := s.built.kind

/-- `AhoCorasickBuilder::build(patterns)`.  `pre` is what `prefilter::Builder::build` returned
(`none` also models `.prefilter(false)`); the flag `hasPre` of the configuration is set
accordingly, so it need not be supplied. -/
def acBuild (L : Limits) (cfg : BuildCfg) (pre : Option (Prefilter UInt8))
    (P : List (List UInt8)) : Except BuildErr Searcher :=
  match buildChecked L { cfg with hasPre := pre.isSome } P with
  | .error e => .error e
  | .ok b => .ok { cfg := { cfg with hasPre := pre.isSome }, pats := P, built := b, pre := pre }

/-- `AhoCorasickBuilder::build(patterns)` with `.prefilter(true)` (the default): the prefilter is
what `prefilter::Builder::build` returns after every pattern was `add`ed to it
(noncontiguous.rs:1097-1099, :1031; model `buildPrefilter`, `Pre/Builder.lean`), as a function
(`Prefilter::find_in`).  `K`: the decision constants of the heuristics, `freq`: the byte frequency
table, `avx2` / `ssse3`: the CPU features that decide whether a packed searcher exists. -/
def acBuildP (L : Limits) (K : Consts) (cfg : BuildCfg) (freq : UInt8 → Nat) (avx2 ssse3 : Bool)
    (P : List (List UInt8)) : Except BuildErr Searcher :=
  acBuild L cfg
    ((buildPrefilter K cfg.matchKind cfg.fold freq P avx2 ssse3).map PreChoice.findIn) P

/-! ## the public search methods -/

/-- `AhoCorasick::try_find` -/
def topFind (s : Searcher) (i : Input UInt8) : Except MatchErr (Option Mat) :=
  match anchoredGate s.cfg.startKind i.anch with
  | some e => .error e
  | none => tryFindFwd s.aut s.pre i

/-- `AhoCorasick::is_match`: `try_find(&input.earliest(true))…is_some()`; an `error` is a panic
(`expect`) of the real method -/
def topIsMatch (s : Searcher) (i : Input UInt8) : Except MatchErr Bool :=
  match anchoredGate s.cfg.startKind i.anch with
  | some e => .error e
  | none =>
    match tryFindFwd s.aut s.pre { i with earliest := true } with
    | .error e => .error e
    | .ok r => .ok r.isSome

/-- `AhoCorasick::try_find_iter`, drained -/
def topFindIter (s : Searcher) (i : Input UInt8) : Except MatchErr (List Mat) :=
  match anchoredGate s.cfg.startKind i.anch with
  | some e => .error e
  | none => findIter s.aut s.pre i

/-- one call of `AhoCorasick::try_find_overlapping` -/
def topOvlCall (s : Searcher) (i : Input UInt8) (st : OState Nat) :
    Except MatchErr (OState Nat) :=
  match anchoredGate s.cfg.startKind i.anch with
  | some e => .error e
  | none => tryFindOverlappingFwd s.aut s.pre i st

/-- `n` successive calls of `try_find_overlapping` on one `OverlappingState`: what each call
reports (`state.get_match()`), stopping at the first error -/
def topOvlCalls (s : Searcher) (i : Input UInt8) :
    Nat → OState Nat → List (Except MatchErr (Option Mat))
  | 0, _ => []
  | n + 1, st =>
    match topOvlCall s i st with
    | .error e => [.error e]
    | .ok st' => .ok st'.mat :: topOvlCalls s i n st'

/-- … starting from `OverlappingState::start()` -/
def topOverlapping (s : Searcher) (i : Input UInt8) (n : Nat) :
    List (Except MatchErr (Option Mat)) :=
  topOvlCalls s i n OState.start

/-- `AhoCorasick::try_find_overlapping_iter`, drained with `fuel` calls: after the gate,
`Automaton::try_find_overlapping_iter` (automaton.rs:397-423) rejects non-standard match kinds and anchored
inputs; `next` calls `try_find_overlapping_fwd` until it reports nothing -/
def topOverlappingIter (s : Searcher) (i : Input UInt8) (fuel : Nat) :
    Except MatchErr (List Mat) :=
  match anchoredGate s.cfg.startKind i.anch with
  | some e => .error e
  | none =>
    if s.aut.kind != .std then .error .unsupportedOverlapping
    else if i.anch then .error .invalidInputAnchored
    else
      match s.aut.start i.anch with
      | none => .error .invalidInputUnanchored
      | some _ => .ok (ovlIterAux s.aut s.pre i fuel OState.start)

/-- `AhoCorasick::try_replace_all_with_bytes`: the closure appends `repl m` and returns `false` at
its `stop`-th call; result: `dst` and the log of the closure's arguments -/
def topReplaceAllWithBytes (s : Searcher) (hay : List UInt8) (repl : Mat → List UInt8)
    (stop : Option Nat) : Except MatchErr (List UInt8 × List (Mat × List UInt8)) :=
  match anchoredGate s.cfg.startKind false with
  | some e => .error e
  | none =>
    match findIter s.aut s.pre (Input.whole hay) with
    | .error e => .error e
    | .ok ms => .ok (replaceBytes hay ms repl stop)

/-- `AhoCorasick::try_replace_all_bytes(haystack, replace_with)`: the closure appends
`replace_with[mat.pattern()]` and never stops.  (The real method first asserts
`replace_with.len() == patterns_len()`.) -/
def topReplaceAllBytes (s : Searcher) (hay : List UInt8) (replaceWith : List (List UInt8)) :
    Except MatchErr (List UInt8) :=
  match topReplaceAllWithBytes s hay (fun m => replaceWith.getD m.pid []) none with
  | .error e => .error e
  | .ok r => .ok r.1

/-- `AhoCorasick::try_stream_find_iter`, drained: the matches, whether an I/O error ended the
iteration, and the number of `read` calls made with an empty buffer -/
def topStreamFind (s : Searcher) (rdr : Reader UInt8) (spare : Option Nat)
    (minFactor : Nat := 8) (defaultCap : Nat := 64 * 1024) :
    Except MatchErr (List Mat × Bool × Nat) :=
  match anchoredGate s.cfg.startKind false with
  | some e => .error e
  | none => streamFind s.aut rdr spare minFactor defaultCap

end AcVerif
