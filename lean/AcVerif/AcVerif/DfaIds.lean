import AcVerif.ContigModel
/-!
# L1d-ids: the DFA as it is stored (`dfa.rs`): premultiplied ids, the flat table, `Special`

`DfaModel.lean` numbers the DFA states abstractly and reads the flags off the NFA states.  The
real `dfa::DFA` is built from the *shuffled* noncontiguous NFA (`shuffleOrder`: dead, fail, the
match states, the two start states, everything else) and stores

* `trans`: one flat `Vec` of length `state_len << stride2`, initialised to `DEAD = 0`; the state
  with index `i` has the id `i << stride2` and owns the entries `[i << stride2, (i+1) << stride2)`,
  of which the first `alphabet_len` are written (`stride2` = exponent of the least power of two
  `≥ alphabet_len`); targets are ids, so `next_state(sid, b) = trans[sid + class(b)]`;
* `matches`: `num_match_states` lists, indexed by `(sid >> stride2) - 2`;
* `special`: `max_special_id`, `max_match_id`, `start_unanchored_id`, `start_anchored_id`
  (`DEAD` = unsupported), obtained from the NFA's `Special` through `old2new` (one start kind) or
  `remap_anchored` / `remap_unanchored` (both); the flags are id-range tests.

`finish_build_one_start`: `old2new(o) = o << stride2` on shuffled NFA ids.
`finish_build_both_starts`: ids are handed out consecutively (`+ stride`) in shuffled-NFA order,
one for `DEAD`, `FAIL` and each start state, two (unanchored, then anchored) for every other
state; rows are first written with NFA ids and then remapped with the table of their kind.

Transcription conventions.  The rows are computed with `dfaRow` / `sparseIter` / `resolveFail` of
`DfaModel.lean` on *pre-shuffle* ids (`order[i]` is the pre-shuffle id of the state at shuffled
position `i`, `pos` its inverse) and the targets translated (`old2new (pos t)`, resp. the remap
tables composed with `pos`); the write-then-remap of `finish_build_both_starts` is composed into
one step.  The flat table is described entry by entry (`flatTable`): entry `j` belongs to row
`j / stride`, column `j % stride`; columns `≥ alphabet_len` keep their initial `DEAD`.
`matches` is described entry by entry as well (entry `j` = the match list of the state with index
`j + 2`, empty for a non-match state); the two `unwrap`/index panics of `set_matches` (a match
state with index `< 2` or `≥ num_match_states + 2`) are not represented here and are proved
impossible in `Theorems/L1dIds.lean` (`L1dIds_setMatches_ok`).
-/
namespace AcVerif
open CNfa

/-- `ByteClasses::stride2`: `alphabet_len.next_power_of_two().trailing_zeros()`, the least `k`
with `alphabet_len ≤ 2^k` (`alphabet_len ≤ 256`) -/
def stride2Of (alen : Nat) : Nat :=
  ((List.range 9).find? fun k => decide (alen ≤ 2 ^ k)).getD 8

structure DfaI where
  /-- the flat transition table, `state_len << stride2` premultiplied ids -/
  trans : Array Nat
  stride2 : Nat
  alphabetLen : Nat
  classOf : UInt8 → Nat
  /-- indexed by `(sid >> stride2) - 2` -/
  matches_ : Array (List Nat)
  stateLen : Nat
  maxSpecialId : Nat
  maxMatchId : Nat
  /-- `0` (= `DEAD`): unanchored searches are not supported -/
  startU : Nat
  /-- `0` (= `DEAD`): anchored searches are not supported -/
  startA : Nat

/-- old id → shuffled position (the inverse of `order`) -/
def shufflePos (n : CNfa) (order : Array Nat) : Array Nat :=
  (List.range n.size).foldl (fun (p : Array Nat) i => p.set! (order.getD i 0) i)
    (Array.replicate n.size 0)

/-- the flat table: `state_len << stride2` entries, entry `j` is column `j % stride` of row
`j / stride`; what a row does not write stays `DEAD` -/
def flatTable (rows : Array (Array Nat)) (stateLen s2 : Nat) : Array Nat :=
  (Array.range (stateLen <<< s2)).map fun j =>
    (rows.getD (j / (1 <<< s2)) #[]).getD (j % (1 <<< s2)) 0

/-- `matches`: `num` lists, the list with index `j` belongs to the state with index `j + 2` -/
def matchTable (ms : Array (List Nat)) (num : Nat) : Array (List Nat) :=
  (Array.range num).map fun j => ms.getD (j + 2) []

/-- `special.max_match_id` of the shuffled NFA (a position) -/
def nfaMaxMatch (n : CNfa) (na : Nat) : Nat := if CNfa.isMatch n SA then na - 1 else na - 3

/-- `special.max_special_id` of the shuffled NFA (a position) -/
def nfaMaxSpecial (n : CNfa) (na : Nat) (hasPre : Bool) : Nat :=
  if hasPre then na - 1 else nfaMaxMatch n na

/-- `finish_build_one_start` -/
def idsOne (n : CNfa) (classOf : UInt8 → Nat) (nc : Nat) (anch hasPre : Bool) : DfaI :=
  let s2 := stride2Of nc
  let so := shuffleOrder n
  let order := so.1
  let na := so.2
  let pos := shufflePos n order
  -- `old2new` on shuffled ids, composed with `pos`
  let newOf := fun (t : Nat) => pos.getD t 0 <<< s2
  -- (the row of `FAIL` stays `DEAD`: in the crate the `FAIL` state is allocated before
  -- `start_unanchored_id` is set, so its failure link is `DEAD` and every entry resolves to `DEAD`;
  -- `CNfa.init` gives it the link `SU`, which no search can observe)
  let rows : Array (Array Nat) := (Array.range n.size).map fun i =>
    if i == FAIL then Array.replicate nc 0
    else (dfaRow n classOf nc anch (order.getD i 0)).map newOf
  let ms : Array (List Nat) := (Array.range n.size).map fun i => (n.getD (order.getD i 0) {}).matches_
  { trans := flatTable rows n.size s2
    stride2 := s2
    alphabetLen := nc
    classOf := classOf
    matches_ := matchTable ms (nfaMaxMatch n na - 1)
    stateLen := n.size
    maxSpecialId := nfaMaxSpecial n na hasPre <<< s2
    maxMatchId := nfaMaxMatch n na <<< s2
    startU := if anch then 0 else (na - 2) <<< s2
    startA := if anch then (na - 1) <<< s2 else 0 }

/-- the first loop of `finish_build_both_starts`, ids only: `remap_unanchored`, `remap_anchored`
(indexed by shuffled position) and the next free id -/
def idsRemStep (na stride : Nat) (acc : Array Nat × Array Nat × Nat) (i : Nat) :
    Array Nat × Array Nat × Nat :=
  if i == DEAD || i == FAIL then (acc.1.push acc.2.2, acc.2.1.push acc.2.2, acc.2.2 + stride)
  else if i == na - 2 then (acc.1.push acc.2.2, acc.2.1.push 0, acc.2.2 + stride)
  else if i == na - 1 then (acc.1.push 0, acc.2.1.push acc.2.2, acc.2.2 + stride)
  else (acc.1.push acc.2.2, acc.2.1.push (acc.2.2 + stride), acc.2.2 + 2 * stride)

/-- the (remapped) row of a start state: explicit targets, `FAIL` becomes dead -/
def idsStartRow (n : CNfa) (classOf : UInt8 → Nat) (nc : Nat) (rem : Nat → Nat) (sid : Nat) :
    Array Nat :=
  (sparseIter (n.getD sid {}).trans classOf).foldl (fun row (_, cls, next) =>
    row.set! cls (if next == FAIL then 0 else rem next)) (Array.replicate nc 0)

/-- the (remapped) anchored row of a trie node: only explicit transitions -/
def idsARow (n : CNfa) (classOf : UInt8 → Nat) (nc : Nat) (remA : Nat → Nat) (sid : Nat) :
    Array Nat :=
  (sparseIter (n.getD sid {}).trans classOf).foldl (fun row (_, cls, next) =>
    if next == FAIL then row else row.set! cls (remA next)) (Array.replicate nc 0)

/-- the (remapped) unanchored row of a trie node -/
def idsURow (n : CNfa) (classOf : UInt8 → Nat) (nc : Nat) (remU : Nat → Nat) (sid : Nat) :
    Array Nat :=
  (dfaRow n classOf nc false sid).map remU

/-- the first loop of `finish_build_both_starts`, rows and match lists per DFA state index -/
def idsRowsStep (n : CNfa) (classOf : UInt8 → Nat) (nc na : Nat) (order : Array Nat)
    (remU remA : Nat → Nat) (acc : Array (Array Nat) × Array (List Nat)) (i : Nat) :
    Array (Array Nat) × Array (List Nat) :=
  let old := order.getD i 0
  let m := (n.getD old {}).matches_
  if i == DEAD || i == FAIL then (acc.1.push (Array.replicate nc 0), acc.2.push [])
  else if i == na - 2 || i == na - 1 then
    (acc.1.push (idsStartRow n classOf nc (if i == na - 2 then remU else remA) old), acc.2.push m)
  else
    ((acc.1.push (idsURow n classOf nc remU old)).push (idsARow n classOf nc remA old),
      (acc.2.push m).push m)

/-- `finish_build_both_starts` -/
def idsBoth (n : CNfa) (classOf : UInt8 → Nat) (nc : Nat) (hasPre : Bool) : DfaI :=
  let s2 := stride2Of nc
  let stride := 1 <<< s2
  let so := shuffleOrder n
  let order := so.1
  let na := so.2
  let pos := shufflePos n order
  let rem := (List.range n.size).foldl (idsRemStep na stride) (#[], #[], 0)
  let remUp := rem.1
  let remAp := rem.2.1
  -- the remap tables composed with `pos`
  let remU := fun (t : Nat) => remUp.getD (pos.getD t 0) 0
  let remA := fun (t : Nat) => remAp.getD (pos.getD t 0) 0
  let rm := (List.range n.size).foldl (idsRowsStep n classOf nc na order remU remA) (#[], #[])
  let stateLen := 2 * n.size - 4
  { trans := flatTable rm.1 stateLen s2
    stride2 := s2
    alphabetLen := nc
    classOf := classOf
    matches_ := matchTable rm.2 ((nfaMaxMatch n na - 1) * 2)
    stateLen := stateLen
    maxSpecialId := remAp.getD (nfaMaxSpecial n na hasPre) 0
    maxMatchId := remAp.getD (nfaMaxMatch n na) 0
    startU := remUp.getD (na - 2) 0
    startA := remAp.getD (na - 1) 0 }

/-- `dfa::Builder::build_from_noncontiguous` on the shuffled NFA, as stored -/
def buildDfaIds (n : CNfa) (sk : StartKind) (byteClasses hasPre : Bool) : DfaI :=
  let marks := marksOf (trieBytes n)
  let classOf : UInt8 → Nat := if byteClasses then classOfMarks marks else fun b => b.toNat
  let nclasses := classOf 255 + 1
  match sk with
  | .unanchored => idsOne n classOf nclasses false hasPre
  | .anchored => idsOne n classOf nclasses true hasPre
  | .both => idsBoth n classOf nclasses hasPre

/-! ## the `Automaton` methods -/

/-- `next_state`, bounds-checked: `trans[sid + class]` -/
def DfaI.next? (d : DfaI) (sid : Nat) (b : UInt8) : Option Nat := d.trans[sid + d.classOf b]?

def DfaI.next (d : DfaI) (sid : Nat) (b : UInt8) : Nat := d.trans.getD (sid + d.classOf b) 0

def DfaI.isSpecial (d : DfaI) (sid : Nat) : Bool := decide (sid ≤ d.maxSpecialId)

def DfaI.isDead (_d : DfaI) (sid : Nat) : Bool := sid == 0

def DfaI.isMatch (d : DfaI) (sid : Nat) : Bool := sid != 0 && decide (sid ≤ d.maxMatchId)

def DfaI.isStart (d : DfaI) (sid : Nat) : Bool := sid == d.startU || sid == d.startA

/-- `matches[(sid >> stride2) - 2]`, with the `checked_sub` and the index check -/
def DfaI.matchList? (d : DfaI) (sid : Nat) : Option (List Nat) :=
  if sid >>> d.stride2 < 2 then none else d.matches_[(sid >>> d.stride2) - 2]?

def DfaI.matchList (d : DfaI) (sid : Nat) : List Nat := d.matches_.getD ((sid >>> d.stride2) - 2) []

def DfaI.toAut (d : DfaI) (k : MatchKind) (P : List (List UInt8)) (hasPre : Bool) : Aut Nat UInt8 where
  start := fun anch =>
    let s := if anch then d.startA else d.startU
    if s == 0 then none else some s
  next := fun _ sid b => d.next sid b
  isDead := d.isDead
  isMatch := d.isMatch
  isStart := d.isStart
  isSpecial := d.isSpecial
  mpats := fun q => if d.isMatch q then d.matchList q else []
  patLen := fun pid => (P.getD pid []).length
  patternsLen := P.length
  minLen := (P.map List.length).foldl min 18446744073709551615
  maxLen := (P.map List.length).foldl max 0
  kind := k
  hasPre := hasPre

end AcVerif
