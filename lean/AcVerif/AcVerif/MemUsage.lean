import AcVerif.BuildChecked
/-!
# `memory_usage()` of the three automata, from the size counters of the transcriptions

The sizes that the checked builders (`BuildChecked.lean`) test against the identifier limits –
number of states, length of the `sparse` / `matches` / `dense` side vectors, `repr.len()`, the DFA
table – are exactly what `Automaton::memory_usage` adds up (times the element sizes of the Rust
structs on this target).  The driver reports them and the harness reports the real
`memory_usage()` (without a prefilter); equality on every run ties every one of those counters to
the real code.
-/
namespace AcVerif
open CNfa

/-- `size_of::<State>() = 20`, `Transition = 9` (packed), `Match = 8`, `StateID = SmallIndex = 4` -/
def nncMemoryUsage (k : MatchKind) (fold : Bool) (dd : Nat) (P : List (List UInt8)) : Nat :=
  let n := compile k fold P
  let dense := 1 + denseCount n dd * nncAlphabetLen n
  20 * n.size + 9 * sparseLen (buildTrie k fold P) + 8 * matchesLen n + 4 * dense + 4 * P.length

def contigMemoryUsage (k : MatchKind) (fold : Bool) (dd : Nat) (bc : Bool) (P : List (List UInt8)) : Nat :=
  4 * (buildContig (compile k fold P) dd bc false).repr.size + 4 * P.length

/-- `trans` (u32) + one `Vec` header (24 bytes) per match slot + the pattern ids + `pattern_lens` -/
def dfaMemoryUsage (k : MatchKind) (fold : Bool) (sk : StartKind) (bc : Bool) (P : List (List UInt8)) : Nat :=
  let d := buildDfaIds (compile k fold P) sk bc false
  4 * (d.stateLen <<< d.stride2) + 24 * d.matches_.size + 4 * (d.matches_.toList.map List.length).sum + 4 * P.length

end AcVerif
