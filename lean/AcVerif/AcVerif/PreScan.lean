import AcVerif.Engine.Find
import AcVerif.Engine.Overlap
/-!
# Prefilter work (C19)

A search may call its prefilter many times: once before the loop and again whenever the automaton
is back in its start state.  Each answer accounts for a stretch of the haystack, from the start of
the span the prefilter was given to the position it reports (the end of the span when it reports
nothing).  `findScan` is `tryFindFwd` returning the total of those stretches; the instrumented real
code reports the same quantity (`verif::prescan`).  Because every in-loop call is given the span
`at..end` and the search resumes at the reported position, the stretches do not overlap
(`C19_prescan_le`): the prefilter work is linear in the span, like the automaton work.
-/
namespace AcVerif
variable {σ α : Type}

/-- the stretch of the span `s..e` an answer accounts for -/
def Cand.extent (c : Cand) (s e : Nat) : Nat :=
  match c with
  | .none => e - s
  | .mtch m => m.stop - s
  | .pos i => i - s

/-- `findLoop`, accumulating the extents of the in-loop prefilter calls -/
def scanLoop (A : Aut σ α) (hay : List α) (s e : Nat) (he : e ≤ hay.length)
    (pre : Option (Prefilter α)) (anch earliest : Bool)
    (sid : σ) (at_ : Nat) (acc : Nat) : Nat :=
  if h : at_ < e then
    let sid := A.next anch sid (hay[at_]'(Nat.lt_of_lt_of_le h he))
    if A.isSpecial sid then
      if A.isDead sid then acc
      else if A.isMatch sid then
        let m := getMatch A sid 0 (at_ + 1)
        if !(anch && decide (m.start > s)) then
          if earliest then acc
          else scanLoop A hay s e he pre anch earliest sid (at_ + 1) acc
        else scanLoop A hay s e he pre anch earliest sid (at_ + 1) acc
      else
        match pre with
        | some p =>
          let c := p hay at_ e
          let acc := acc + c.extent at_ e
          match c.intoOption with
          | Option.none => acc
          | some i =>
            if i > at_ then scanLoop A hay s e he pre anch earliest sid i acc
            else scanLoop A hay s e he pre anch earliest sid (at_ + 1) acc
        | Option.none => scanLoop A hay s e he pre anch earliest sid (at_ + 1) acc
    else scanLoop A hay s e he pre anch earliest sid (at_ + 1) acc
  else acc
termination_by e - at_
decreasing_by all_goals omega

/-- `try_find_fwd_imp`, prefilter extents only -/
def scanImp (A : Aut σ α) (i : Input α) (pre : Option (Prefilter α)) (anch earliest : Bool) : Nat :=
  match A.start i.anch with
  | Option.none => 0
  | some sid =>
    if A.isMatch sid && earliest then 0
    else
      match pre with
      | some p =>
        let c := p i.hay i.s i.e
        match c with
        | .none => c.extent i.s i.e
        | .mtch _ => c.extent i.s i.e
        | .pos j => scanLoop A i.hay i.s i.e i.valid.1 pre anch earliest sid j (c.extent i.s i.e)
      | Option.none => 0

/-- `try_find_fwd`, prefilter extents only -/
def findScan (A : Aut σ α) (pre : Option (Prefilter α)) (i : Input α) : Nat :=
  if i.isDone then 0
  else
    let earliest := A.kind == .std || i.earliest
    if i.anch then 0 else scanImp A i pre false earliest

end AcVerif

/-! ## the stepwise overlapping search -/
namespace AcVerif
variable {σ α : Type}

/-- `ovlLoop`, accumulating the extents of the in-loop prefilter calls of one call -/
def ovlScanLoop (A : Aut σ α) (hay : List α) (s e : Nat) (he : e ≤ hay.length)
    (pre : Option (Prefilter α)) (anch : Bool) (sid : σ) (at_ : Nat) (acc : Nat) : Nat :=
  if h : at_ < e then
    let sid := A.next anch sid (hay[at_]'(Nat.lt_of_lt_of_le h he))
    if A.isSpecial sid then
      if A.isDead sid then acc
      else if A.isMatch sid then
        let m := getMatch A sid 0 (at_ + 1)
        if !(anch && decide (m.start > s)) then acc
        else ovlScanLoop A hay s e he pre anch sid (at_ + 1) acc
      else
        match pre with
        | some p =>
          let c := p hay at_ e
          let acc := acc + c.extent at_ e
          match c.intoOption with
          | Option.none => acc
          | some i =>
            if i > at_ then ovlScanLoop A hay s e he pre anch sid i acc
            else ovlScanLoop A hay s e he pre anch sid (at_ + 1) acc
        | Option.none => ovlScanLoop A hay s e he pre anch sid (at_ + 1) acc
    else ovlScanLoop A hay s e he pre anch sid (at_ + 1) acc
  else acc
termination_by e - at_
decreasing_by all_goals omega

/-- one call of `try_find_overlapping_fwd`: the prefilter extent of this call (the state transformer is
`tryFindOverlappingFwd`) -/
def tryOvlScan (A : Aut σ α) (pre : Option (Prefilter α)) (i : Input α) (st : OState σ) : Nat :=
  if A.kind != .std then 0
  else if i.isDone then 0
  else
    let pre := if i.anch then Option.none else pre
    match st.id with
    | Option.none =>
      match A.start i.anch with
      | Option.none => 0
      | some sid =>
        let idx := st.nextIdx.getD 0
        if A.isMatch sid && decide (idx < (A.mpats sid).length) then 0
        else ovlScanLoop A i.hay i.s i.e i.valid.1 pre i.anch sid i.s 0
    | some sid =>
      match st.nextIdx with
      | some idx =>
        let m := getMatch A sid idx (st.at_ + 1)
        if decide (idx < (A.mpats sid).length) && !(i.anch && decide (m.start > i.s)) then 0
        else ovlScanLoop A i.hay i.s i.e i.valid.1 pre i.anch sid (st.at_ + 1) 0
      | Option.none => ovlScanLoop A i.hay i.s i.e i.valid.1 pre i.anch sid st.at_ 0

/-- the prefilter extents of `n` successive calls, stopping at the first error -/
def ovlCallsScan (A : Aut σ α) (pre : Option (Prefilter α)) (i : Input α) : Nat → OState σ → List Nat
  | 0, _ => []
  | n + 1, st =>
    match tryFindOverlappingFwd A pre i st with
    | .error _ => []
    | .ok st' => tryOvlScan A pre i { st with mat := Option.none } :: ovlCallsScan A pre i n st'

end AcVerif
