import AcVerif.NfaMem
import AcVerif.Fold
/-!
# L1c-mem, assembly: `Compiler::compile` over the linked-list memory

`AcVerif/NfaMem.lean` transcribes the storage layer of the noncontiguous NFA
(`src/nfa/noncontiguous.rs`) and the single operations on it.  This file
transcribes the *phases* of `Compiler::compile` (lines 965-1053) that call
them, in the order of the crate:

| Rust | here |
|---|---|
| two dummy pushes, four `alloc_state(0)` (972-987) | first lines of `compile?` |
| `init_unanchored_start_state` (1560-1566) | `initUnanchoredStartState` |
| `add_dead_state_loop` (1654-1657) | `addDeadStateLoop` |
| `build_trie` (1064-1152) | `addPattern`, `buildTrie` |
| `set_anchored_start_state` (1572-1597) | `MemNfa.setAnchoredStartState` (NfaMem.lean) |
| `add_unanchored_start_state_loop` (1608-1617) | `MemNfa.addUnanchoredStartStateLoop` (NfaMem.lean) |
| `fill_failure_transitions` (1277-1385) | `forTrans`, `fillStartBody`, `fillStateBody`, `chaseFail`, `bfs`, `fillFailureTransitions` |
| `close_start_state_loop_for_leftmost` (1631-1649) | `MemNfa.closeStartStateLoopForLeftmost` (NfaMem.lean) |

The functions are kept parallel to `AcVerif/Compiler.lean` (`CNfa.addPattern`,
`CNfa.buildTrie`, `CNfa.chaseFail`, `CNfa.fillState`, `CNfa.fillStart`,
`CNfa.bfs`, `CNfa.fillFailure`, `CNfa.compile`): same loops, same fuel (the
number of states for the failure chase and for the breadth-first loop).  Where
the crate does something the abstract transcription short-cuts, this file
follows the crate:

* the transition lists are walked cell by cell with `next_link`, reading
  `self.nfa.sparse[link]` *during* the loop (`forTrans`); `Compiler.lean` takes a
  snapshot of the list first;
* `continue 'PATTERNS` (leftmost-first, a match was seen) keeps the automaton as it
  is at that point (`addPattern` returns the memory together with `none`);
  `CNfa.addPattern` returns `none` and `CNfa.buildTrie` falls back to the automaton
  it had before the pattern;
* `alloc_state(depth)` stores the depth (`CState` has no depth);
* `QueuedSet` is inert unless `ascii_case_insensitive` (lines 1545-1551), also in the
  first loop of `fill_failure_transitions`; `CNfa.fillStart` always consults a real set.

The refinement theorem (`AcVerif/Theorems/L1cMemCompile.lean`) shows that none of
this is visible in the result.

Not modelled, as in `Compiler.lean`: `densify` (so `follow_transition`, lines
339-360, is `follow_transition_sparse`: every `dense` is zero), `shuffle`, the
prefilter and byte-class bookkeeping (`byteset.set_range`), `min/max_pattern_len`,
`pattern_lens`, and the `BuildError`s (ids are `Nat`; see `BuildChecked.lean`).
-/
namespace AcVerif
namespace MemNfa

/-- `init_unanchored_start_state` (lines 1560-1566) -/
def initUnanchoredStartState (m : MemNfa) (startUid startAid : Nat) : MemNfa :=
  let m := m.initFullState startUid FAIL                                     -- 1563
  m.initFullState startAid FAIL                                              -- 1564

/-- `add_dead_state_loop` (lines 1654-1657) -/
def addDeadStateLoop (m : MemNfa) : MemNfa := m.initFullState DEAD DEAD      -- 1655

/-! ## `build_trie` -/

/-- the inner `for (depth, &b) in pat.iter().enumerate()` loop of `build_trie` (lines
1102-1146; `prev` and `saw_match` are initialised at 1100-1101).  Loop variables: the memory, `prev`, `saw_match`, `depth`.  The result is the
memory and `some prev` when the loop ran to its end, `none` when it left with
`continue 'PATTERNS` (line 1115). -/
def addPattern (lf fold : Bool) (startUid : Nat) :
    MemNfa → Nat → Bool → Nat → List UInt8 → MemNfa × Option Nat
  | m, prev, _, _, [] => (m, some prev)
  | m, prev, sawMatch, depth, b :: rest =>
    let sawMatch := sawMatch || m.isMatch prev                               -- 1111
    if lf && sawMatch then (m, none)                                         -- 1112-1116
    else
      let next := m.followTransitionSparse prev b                            -- 1134 (`dense == 0`)
      if next != FAIL then                                                   -- 1135
        addPattern lf fold startUid m next sawMatch (depth + 1) rest         -- 1136
      else
        let (m, next) := m.allocState depth startUid                         -- 1138
        let m := m.addTransition prev b next                                 -- 1139
        let m :=                                                             -- 1140-1143
          if fold then m.addTransition prev (oppositeAsciiCase b) next else m
        addPattern lf fold startUid m next sawMatch (depth + 1) rest         -- 1144

/-- `build_trie` (lines 1059-1152): the `'PATTERNS` loop -/
def buildTrie (k : MatchKind) (fold : Bool) (startUid : Nat) (m : MemNfa)
    (P : List (List UInt8)) : MemNfa :=
  P.zipIdx.foldl (fun m (x : List UInt8 × Nat) =>
    match addPattern (k == .lf) fold startUid m startUid false 0 x.1 with    -- 1100-1146
    | (m, none) => m                                                         -- `continue 'PATTERNS`
    | (m, some last) => m.addMatch last x.2) m                               -- 1149

/-! ## `fill_failure_transitions` -/

/-- `let mut prev_link = None; while let Some(link) = self.nfa.next_link(sid, prev_link)
{ prev_link = Some(link); let t = self.nfa.sparse[link]; body }` (lines 1293-1296 and
1330-1333).  `σ` is everything the body may change (the automaton, the queue, the set);
`nfa` projects the automaton, which is read afresh in every round. -/
def forTrans {σ : Type} (nfa : σ → MemNfa) (sid : Nat) (body : σ → MTrans → σ) :
    Nat → σ → Option Nat → σ
  | 0, s, _ => s
  | fuel + 1, s, prevLink =>
    match (nfa s).nextLink sid prevLink with
    | none => s
    | some link => forTrans nfa sid body fuel (body s ((nfa s).tr link)) (some link)

/-- `while self.nfa.follow_transition(fail, t.byte) == NFA::FAIL { fail =
self.nfa.states[fail].fail; }` (lines 1376-1378) -/
def chaseFail (m : MemNfa) (b : UInt8) : Nat → Nat → Nat
  | 0, fail => fail
  | fuel + 1, fail =>
    if m.followTransitionSparse fail b == FAIL then chaseFail m b fuel (m.st fail).fail else fail

/-- the body of the first loop (lines 1298-1327).  `useSeen` says whether the `QueuedSet` is
active (lines 1545-1551, 1668-1700: an inert set stores nothing and contains nothing). -/
def fillStartBody (lm startIsMatch useSeen : Bool) (startUid : Nat)
    (acc : MemNfa × List Nat × List Nat) (t : MTrans) : MemNfa × List Nat × List Nat :=
  let (m, queue, seen) := acc
  if startUid == t.next || (useSeen && seen.contains t.next) then (m, queue, seen)  -- 1300-1302
  else
    let queue := queue ++ [t.next]                                           -- 1303
    let seen := if useSeen then t.next :: seen else seen                     -- 1304
    let m :=                                                                 -- 1313-1317
      if lm && (startIsMatch || m.isMatch t.next) then m.setFail t.next DEAD else m
    let m := if !lm then m.copyMatches startUid t.next else m                -- 1325-1327
    (m, queue, seen)

/-- the body of the inner loop of the second phase (lines 1335-1381) for the dequeued state
`id` -/
def fillStateBody (lm startIsMatch useSeen : Bool) (id : Nat)
    (acc : MemNfa × List Nat × List Nat) (t : MTrans) : MemNfa × List Nat × List Nat :=
  let (m, queue, seen) := acc
  if useSeen && seen.contains t.next then (m, queue, seen)                   -- 1335-1343
  else
    let queue := queue ++ [t.next]                                           -- 1344
    let seen := if useSeen then t.next :: seen else seen                     -- 1345
    if lm && (startIsMatch || m.isMatch t.next) then                         -- 1368-1371
      (m.setFail t.next DEAD, queue, seen)                                   -- 1372-1373
    else
      let fail := (m.st id).fail                                             -- 1375
      let fail := m.chaseFail t.byte m.states.size fail                      -- 1376-1378
      let fail := m.followTransitionSparse fail t.byte                       -- 1379
      let m := m.setFail t.next fail                                         -- 1380
      let m := m.copyMatches fail t.next                                     -- 1381
      (m, queue, seen)

/-- `while let Some(id) = queue.pop_front() { … }` (lines 1329-1383); `fuel` bounds the number
of dequeued states -/
def bfs (lm startIsMatch useSeen : Bool) : Nat → MemNfa × List Nat × List Nat → MemNfa
  | 0, (m, _, _) => m
  | fuel + 1, (m, queue, seen) =>
    match queue with
    | [] => m
    | id :: queue =>
      bfs lm startIsMatch useSeen fuel
        (forTrans (·.1) id (fillStateBody lm startIsMatch useSeen id) (m.sparse.size + 1)
          (m, queue, seen) none)

/-- `fill_failure_transitions` (lines 1277-1385) -/
def fillFailureTransitions (m : MemNfa) (k : MatchKind) (fold : Bool) (startUid : Nat) : MemNfa :=
  let lm := k.isLeftmost                                                     -- 1278
  let startIsMatch := m.isMatch startUid                                     -- 1286
  let acc := forTrans (·.1) startUid (fillStartBody lm startIsMatch fold startUid)
    (m.sparse.size + 1) (m, [], []) none                                     -- 1291-1328
  bfs lm startIsMatch fold acc.1.states.size acc                             -- 1329-1383

/-! ## `Compiler::compile` -/

/-- `Compiler::new(builder)?.compile(patterns)` (lines 941-1053) without `densify`, `shuffle`
and the prefilter; `none` is the `unreachable!()` of `set_anchored_start_state` (line 1582) -/
def compile? (k : MatchKind) (fold : Bool) (P : List (List UInt8)) : Option MemNfa :=
  let m := empty                                                             -- 948-960, 972-973
  let (m, _) := m.allocState 0 0                                             -- 979 DEAD
  let (m, _) := m.allocState 0 0                                             -- 981 FAIL
  let (m, startUid) := m.allocState 0 0                                      -- 984
  let (m, startAid) := m.allocState 0 startUid                               -- 987
  let m := m.initUnanchoredStartState startUid startAid                      -- 990
  let m := m.addDeadStateLoop                                                -- 994
  let m := m.buildTrie k fold startUid P                                     -- 996
  match m.setAnchoredStartState startUid startAid with                       -- 1008
  | none => none
  | some m =>
    let m := m.addUnanchoredStartStateLoop startUid                          -- 1011
    let m := m.fillFailureTransitions k fold startUid                        -- 1022
    some (m.closeStartStateLoopForLeftmost startUid k.isLeftmost)            -- 1025

/-- the compiled automaton (the `unreachable!()` is never reached:
`L1cMem_compile_some`) -/
def compile (k : MatchKind) (fold : Bool) (P : List (List UInt8)) : MemNfa :=
  (compile? k fold P).getD empty

end MemNfa
end AcVerif
