#!/usr/bin/env python3
"""Regenerates /verif/MANIFEST.json from the table below (kept valid at all times)."""
import json, os
V = os.path.dirname(os.path.dirname(os.path.abspath(__file__)))
NOTE = ("Trusted: Lean 4.33 kernel (axioms per theorem audited, allowed propext/Classical.choice/Quot.sound), "
        "Lean runtime executing the model and the proved certificate checker, the Rust harness (dump walker, codec), "
        "the Python orchestrator.  Pattern lists/configurations are generated, not universal.")
CHECKS = {
 "C04": ("translation_validation",
         "Per pattern list: every build (noncontiguous/contiguous/DFA x start kind x dense depth x byte classes) is dumped "
         "through the public Automaton trait and certified bisimilar to the noncontiguous NFA by a checker whose soundness "
         "is a Lean theorem (certOk_sound): equal observations after every byte string, i.e. for haystacks of every length. "
         "Top-level vs low-level agreement is differential.", "5 C04",
         "Lean-proved bisimulation certificate checker over dumped automata + differential lines"),
}
def main():
    m = {"version": 1, "setup_cmd": "./setup.sh",
         "hooks": {"guard": "aho_corasick_verif",
                   "enable": "rustflags = [\"--cfg\", \"aho_corasick_verif\"] in /verif/harness/.cargo/config.toml",
                   "baseline_off_cmd": "cd /repo && cargo test --workspace --no-fail-fast --offline",
                   "source_commits": json.load(open(os.path.join(V, "hooks.json")))["commits"],
                   "add_only": True},
         "engines": [{"name": "acverif", "path": "/verif/check",
                      "serves_properties": sorted(CHECKS),
                      "kind_free_text": "Lean 4 model + theorems (lean/AcVerif), Rust correspondence harness (harness/), Python orchestrator"}],
         "checks": [], "not_applicable": []}
    props = [json.loads(l)["id"] for l in open(os.path.join(V, "properties.jsonl"))]
    for p in props:
        if p in CHECKS:
            cat, text, ref, tech = CHECKS[p]
            m["checks"].append({"property_id": p, "quick_cmd": "./check %s --tier quick" % p,
                                "thorough_cmd": "./check %s --tier thorough" % p,
                                "evidence_file": "/verif/evidence/%s.json" % p,
                                "replay_cmd_template": "./check %s --replay {path}" % p,
                                "engine": "acverif",
                                "level_claimed": {"category": cat, "text": text, "design_ref": ref},
                                "level_note": NOTE, "technique": tech})
        else:
            m["not_applicable"].append({"property_id": p, "reason": "check not built yet (work in progress; see DESIGN.md section 11 build order)"})
    json.dump(m, open(os.path.join(V, "MANIFEST.json"), "w"), indent=1)
if __name__ == "__main__":
    main()
