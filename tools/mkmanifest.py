#!/usr/bin/env python3
"""Regenerates /verif/MANIFEST.json from the table below (kept valid at all times)."""
import json, os
V = os.path.dirname(os.path.dirname(os.path.abspath(__file__)))
NOTE = ("Trusted: Lean 4.33 kernel (axioms per theorem audited, allowed propext/Classical.choice/Quot.sound), "
        "Lean runtime executing the model and the proved certificate checker, the Rust harness (dump walker, codec), "
        "the Python orchestrator.  Pattern lists/configurations are generated, not universal.")
CORR = ("Correspondence: Tie A certificates (every reachable state x 256 bytes x both anchorings of every real build, checked by the "
        "Lean-proved certOk against the ideal automaton / the noncontiguous NFA) and Tie B differential lines (harness vs acdrv).")
CHECKS = {
 "C05": ("proof",
         "C05_transparent(_fold): for every pattern list without the empty pattern, every SOUND prefilter function (None => no occurrence "
         "in the span; PossibleStartOfMatch(i) => no occurrence starts before i; Match(m) => m is THE answer) and every input (non-"
         "earliest, or standard kind) the engine with the prefilter returns exactly what the engine without it returns - proved through "
         "the specification by a restart argument, not by state equivalence. C05_{memmem,start,rare}_sound(_fold), C05_packed_sound, "
         "C05_builder_sound: the models of the real prefilters (builder add/build decision tree for ANY byte-frequency table, "
         "memchr/memmem as least index) are sound, including the case-insensitive ones; C05_builder_gates. Tie: the real prefilters are "
         "queried through Automaton::prefilter().find_in and compared (variant chosen + candidate) with the model on every span; "
         "prefilter(true) vs the prefilter-free model end to end; constants and BYTE_FREQUENCIES extracted from the source on every run. "
         "Resumed searches (Theorems/C05Resumed.lean): C05_iter_transparent (the non-overlapping iterator), C05_overlap_transparent / "
         "C05_overlap_iter_transparent (every prefix of the stepwise overlapping call history) under PrefilterSoundOvl, which "
         "C05_builder_sound_ovl proves for the prefilter the builder chooses under standard semantics; "
         "C05_overlap_needs_start_soundness is the formal counterexample showing the extra hypothesis cannot be dropped.",
         "5 C05", "Lean proof of prefilter transparency + soundness of each modelled prefilter + differential on candidates and searches"),
 "C19": ("proof",
         "C19_transitions (at most one next_state call per byte of the span, whatever the prefilter does), C19_step_potential / "
         "hops_potential (every failure hop is paid by a decrease of trie depth), C19_fails_le / C19_search (failure-link traversals "
         "<= transitions <= span length, for every pattern list, haystack, match kind, prefilter and with case folding), C19_anchored "
         "(none when anchored), C19_hops_sound (the hop counter and the closed-form next state describe the same failure chain), "
         "C19_result (the counters do not influence the result), C19_overlap_* for the overlapping loop (C19_overlap_call_result: the "
         "per-call counters of the driver are ghost state of try_find_overlapping_fwd; C19_overlap_cost: per call at most "
         "at' + 1 - at transitions; C19_overlap_calls_total: over n calls at most (e-s)+(n-1) transitions, failure hops <= transitions; "
         "C19_overlap_iter_total). Prefilter work: findScan (PreScan.lean) = haystack extent the prefilter answers of a search account "
         "for, compared exactly with a third cfg-guarded counter in Prefilter::find_in; C19_builder_prescan_le: at most span length for "
         "every prefilter the builder can choose; C19_builder_ovl_prescan_tied: one overlapping call's extent <= span on the real "
         "(tied) automata; C19_stream_transitions: a stream search feeds each byte exactly once. Tie: cfg-guarded counters in the "
         "real search loops and in both NFA next_state loops; per search the two real counters must EQUAL the model's (DFA: 0 fails), and "
         "every call of an overlapping call sequence (anchored or not) likewise; the dump walk records the failure traversals of every (state, byte) next_state call, compared with the model's chain length by "
         "the certificate step (contiguous NFA against noncontiguous, DFA against zero).", "5 C19",
         "Lean potential-function proof on the ideal automaton with explicit failure links + exact counter equality against instrumented code"),
 "C06": ("proof",
         "C06_rabinkarp, C06_teddy, C06_packed, C06_iter: for every non-empty pattern list without empty patterns, both packed match "
         "kinds, every variant (Rabin-Karp; slim Teddy 128/256-bit incl. the 128-bit fallback; fat Teddy; 1-4 byte fingerprints), every "
         "haystack and span, the functional model of src/packed returns THE leftmost-first / leftmost-longest occurrence (IsFind) and its "
         "iterator the specification's iterator. Proved: pattern order, rolling-hash identity mod 2^64, hash/fingerprint bucket sharing of "
         "co-located patterns, nybble-mask soundness, lane algebra with carries, window schedule coverage incl. the overlapped final "
         "window, verification order. PARTIAL with respect to the code in one respect: the SSSE3/AVX2 instructions are modelled lane-wise "
         "(C06Vector: a transcription at the level of the Vector/FatVector methods, each defined by the semantics of the intrinsic it "
         "wraps, is proved equal to the lane model; the intrinsic semantics are the trusted part). Differential against packed::Searcher for every "
         "Config the CPU supports, haystack lengths around 16/32/48, matches at every offset modulo the vector width.", "5 C06",
         "Lean proof on a lane-level functional model of Teddy / Rabin-Karp + differential against every packed variant"),
 "C17": ("other",
         "PARTIAL. Model: the searcher is an immutable value; C17_handles_independent proves that what a caller observes on its own "
         "OverlappingState handle in ANY interleaved history equals running its own operations alone, and C17_finds_in_history that "
         "every plain search returns its stand-alone answer. Code: (i) a source audit - no Cell/RefCell/UnsafeCell/atomics/locks/"
         "static mut/thread_local/raw-pointer writes in /repo/src outside the cfg-guarded hooks, and the searcher traits still "
         "require Send + Sync (syntactic sufficient condition for no hidden state); (ii) one searcher shared by 8 threads (and clones), "
         "seeded mixed operations, each result compared with the sequential result before and after, and with the model. A data race is "
         "a property of the compiled program's memory model that no executable model can exhibit.", "5 C17",
         "Lean theorem on histories + source audit + concurrent differential run"),
 "C15": ("other",
         "PARTIAL. Proved on the model: every haystack access of the search loops carries its bounds proof (by construction, from "
         "Input.valid), the Teddy window schedule only loads inside the span (C15_teddy_loads, once C06 proofs land), and every "
         "reported match satisfies start <= end <= haystack length, pid < pattern count, inside the span (C15_*_wf). The table indexing "
         "of the three automata never goes out of range on a reachable state, for all pattern lists: L1dIds_inbounds (DFA: sid+class "
         "< trans.len, (sid>>stride2)-2 < matches.len, set_matches cannot panic), L1eSafe_* (contiguous NFA: bounds-CHECKED "
         "transcription of next_state / match_len / match_pattern succeeds and agrees with the totalised one), L1cIds_inbounds "
         "(noncontiguous NFA); these models are certified against every real automaton dump. Observed, not "
         "proved: the loads of the compiled unsafe SIMD / raw-pointer code - every haystack length 0..104 (72 quick) with arbitrary "
         "bytes is searched in a child process flush against PROT_NONE pages on the right and on the left, for every packed variant "
         "the CPU has and for searchers with prefilters; a SIGSEGV, abort or panic is a violation; results are compared with the model.",
         "5 C15", "Lean proof of index arithmetic / match well-formedness on the model + guard-page exploration of the real code"),
 "C07": ("proof",
         "C07_stream_eq_iter / C07_stream_spec: for every non-empty pattern list without the empty pattern, every stream, every "
         "schedule of read sizes (entries >= 1) and EVERY buffer capacity with one byte of room beyond the longest pattern (hypothesis "
         "hcap; corollaries _default, _factor, _spare), "
         "the transcription of Buffer{new,fill,roll} + StreamChunkIter::next on the ideal standard automaton yields exactly the matches "
         "of the in-memory iterator = the specification's iterator, reports no I/O error and never calls read with an empty buffer. "
         "Proved by an invariant over (buffer = last bytes read, absolute_pos, buffer_pos, reported_pos, automaton state = scan from the "
         "last match end). Differential: schedule-driven reader against the real stream_find_iter under the cfg-guarded capacity hook "
         "(all compositions of short streams, random schedules, production 64 KiB boundary). The capacity the real Buffer::new chooses "
         "is OBSERVED through a hook for a sweep of longest-pattern lengths (up to 2^21 / 2^23), hcap is decided for each observation by "
         "the Lean driver, production-capacity requests carry the observed capacity, and stream-vs-in-memory self-comparison of the "
         "real searcher runs with synthetic 9 KB - 600 KB patterns. C07_stream_transfer + L1{c,cDense,d,dIds,e}_stream: the same "
         "statement for the transcribed noncontiguous NFA, DFA (abstract and id-level) and contiguous NFA, for all pattern lists (and "
         "C07Fold for case-insensitive searchers). The property is also checked as stated on the real code alone: stream search vs "
         "in-memory search of the SAME searcher with the default prefilters, on generated lists and schedules.", "5 C07",
         "Lean invariant proof of the stream state machine + schedule-enumerating differential under the capacity hook"),
 "C08": ("proof",
         "C08_chunks_concat: the chunks concatenate to the stream and each match chunk carries exactly the matched bytes; "
         "C08_replace_eq: stream replace output and closure log equal replaceBytes (in-memory replace, C12) on the whole stream, for "
         "every schedule and capacity. Differential on try_stream_replace_all(_with) with a collecting writer.", "5 C08",
         "Lean proof (chunk specification + fold over chunks) + differential under the capacity hook"),
 "C18": ("proof",
         "C18_read_fault: with a read failure injected at any call index the yielded matches are a prefix of the fault-free sequence "
         "(equal if no error surfaced), nothing panics (total model; roll's checked_sub is covered by the C07 invariant); "
         "C18_write_fault: with a writer failing after l bytes the accepted bytes are a prefix of the fault-free output. "
         "Fault-enumeration differential: every read-failure index and write limit on short streams x schedules x capacities.", "5 C18",
         "Lean proof over the same stream invariant + fault-enumerating differential"),
 "C11": ("proof",
         "Finite facts over all 256 bytes by complete kernel evaluation (C11_fold_*, C11_opp_*: exactly A-Z/a-z fold, everything else "
         "fixed); tryFindFwd_comap: the case-insensitive searcher (automaton of folded patterns fed folded bytes) equals the search of "
         "the folded haystack, hence C11_find_{std,ll,lf} / C11_overlap_std: it returns the specification's answer with 'occurrence' "
         "read after folding both sides; C11_ids: ids and lengths are those of the supplied patterns. The transcribed builders with "
         "ascii_case_insensitive are equivalent to that searcher for ALL pattern lists: L1cFold (noncontiguous compiler: both-case "
         "edges, seen set), L1dFold / L1dIdsFold (DFA, abstract and id-level), L1eFold (contiguous NFA), L1cIdsFold. " + CORR +
         " Certificates are run with ascii_case_insensitive on all 256 bytes incl. '@[`{' and bytes >= 0x80.", "5 C11",
         "Lean proof (complete byte table + comap lemma + C01/C02/C03 theorems) + certified bisimulation with case folding + differential"),
 "C12": ("proof",
         "C12_bytes / C12_with_stop / C12_log / C12_str: the transcription of try_replace_all_with(_bytes) equals the splice "
         "specification (copy up to each match, append replacement, remainder verbatim; early stop; the closure receives exactly the "
         "match and matched bytes; the str variant replaces exactly the matches with character-boundary bounds); C12_identity: untouched "
         "bytes are preserved in order; C12_str_slices_ok: every &str slice index is a character boundary and indices never decrease "
         "(no slice panic). UTF-8 validity of the result String is Rust's type invariant (trusted). Differential on the replace "
         "routines incl. byte patterns splitting multi-byte characters, empty pattern, closure stop, wrong table length.", "5 C12",
         "Lean proof of the splice loop against its specification + differential lines"),
 "C20": ("other",
         "PARTIAL. Proved (C20_*): the model's patterns_len, pattern_len, min/max length, match kind and supported start kinds "
         "mirror the input, ids are list positions (all result theorems are stated with P[pid]). Explored, not proved: building never "
         "panics - shape-diverse collections (no patterns, empty patterns, duplicates, all 256 byte values, long patterns, up to "
         "5000 patterns x 300 bytes in the thorough tier) x option combinations are built under catch_unwind, metadata compared with "
         "the model, and sampled patterns searched for (also after a partial occurrence broken by 0xFF). Build totality on the model "
         "(Theorems/C20Build.lean): checked transcriptions of the three builders and of build_auto's fallback chain with the real "
         "limit checks (PatternID / SmallIndex / StateID, dense table, repr.len(), state_len << stride2) in the real order; exact "
         "success and failure characterisations per error kind, explicit sufficient conditions (C20_build_ok_default: at most 1000 "
         "patterns and 10^6 bytes always build), C20_build_auto_total, shuffle's unwraps unreachable. Tie for the size counters: "
         "memory_usage() of every low-level automaton equals the model's counters on every run. Still PARTIAL: allocation failure and "
         "the error paths themselves (>= 2^31 states) are outside what can be run.", "5 C20",
         "Lean proof of metadata and of build success under explicit size bounds + differential/exploration of builds + memory_usage tie"),
 "C01": ("proof",
         "C01_find_ll / C01_find_lf: for every pattern list (duplicates, nested patterns, the empty pattern), haystack and span, the "
         "search engine (transcription of try_find_fwd) on the ideal leftmost automaton returns THE leftmost-longest / leftmost-first "
         "occurrence of the specification (IsFind), and none iff no pattern occurs; the iterator is the specification's iterator over "
         "that search. " + CORR + " Certificates use the first-pattern observation strength.", "5 C01",
         "Lean proof by loop invariant over the closed-form leftmost automaton + certified bisimulation of real tables + differential lines"),
 "C02": ("proof",
         "C02_find: for every pattern list, haystack, span and anchoring the engine on the ideal standard automaton returns the "
         "earliest-ending occurrence (then longest, then first supplied) of the specification. " + CORR, "5 C02",
         "Lean proof (run = longest-suffix-prefix, output = suffix patterns) + certified bisimulation + differential lines"),
 "C03": ("proof",
         "C03_calls / C03_iter: every prefix of the call history on one OverlappingState yields the corresponding prefix of THE "
         "overlapping enumeration (every occurrence once, sorted by end, longer first, then supply order) and then none forever. "
         + CORR + " Certificates compare whole ordered match lists.", "5 C03",
         "Lean proof of the overlapping state machine against the sorted occurrence list + certified bisimulation + differential lines"),
 "C09": ("proof",
         "C09_find_{std,ll,lf}, C09_overlap, C09_starts_at_span_start: anchored searches return the specification's answer "
         "restricted to occurrences beginning at the span start, for single search and stepwise overlapping search. " + CORR, "5 C09",
         "Lean proof (anchored run = trie walk, engine filter) + certified bisimulation of the anchored transition functions + differential"),
 "C14": ("proof",
         "C14_earliest: in earliest mode a leftmost searcher returns a genuine admissible occurrence, one exists iff the normal "
         "search finds one, and it never ends later; C14_is_match_*: is_match is true iff some admissible occurrence exists. "
         "Differential on is_match / earliest for every kind, anchoring and prefilter setting.", "5 C14",
         "Lean proof on the engine model + differential lines"),
 "C04": ("translation_validation",
         "Per pattern list: every build (noncontiguous/contiguous/DFA x start kind x dense depth x byte classes) is dumped "
         "through the public Automaton trait and certified bisimilar to the noncontiguous NFA by a checker whose soundness "
         "is a Lean theorem (C04_cert_all_haystacks): equal observations after every byte string; C04_*_transfer prove that "
         "every engine function (find, iterator, stepwise overlapping) then returns identical results for every haystack, span, "
         "anchoring and prefilter function. Beyond per-instance validation: transcriptions of the three builders (noncontiguous "
         "compiler L1c, DFA builder L1d incl. byte classes and the Both-start interleaving, contiguous encoder L1e down to its u32 words) "
         "are PROVED observationally equivalent to the ideal automaton for ALL pattern lists (C04_kinds_*, L1d_*, L1e_*), and every real "
         "dump is certified against the matching transcription (certl1c / certdfa / certcontig). Top-level vs low-level agreement is "
         "differential.", "5 C04, 12.6",
         "Lean-proved bisimulation certificate checker over dumped automata + engine transfer theorems + differential lines"),
 "C10": ("proof",
         "Lean theorems on the specification: occurrences/answers on a span equal those on the sub-slice shifted (C10_find_slice, "
         "C10_overlap_slice), depend only on the bytes inside the span (C10_*_frame), lie inside the span, and start=end+1 yields "
         "nothing for every automaton (C10_done). The engine is tied to the specification by the C01/C02/C03 theorems; the code is "
         "compared with the model on (span, sub-slice, outside-bytes-changed) request triples, and impl-vs-impl on the triples.", "5 C10",
         "Lean proof of slice/frame invariance of the specification + differential triples"),
 "C13": ("proof",
         "The gate model (enforce_anchored_consistency, start_state, match-kind / anchored / empty-pattern checks, in code order) "
         "is a total function of (API, match kind, start kind, anchoring, has-empty-pattern); C13_rejected_iff proves rejected <-> "
         "(a)|(b)|(c)|(d) for top-level and low-level orders. Correspondence is exhaustive over all 21 entry points x 3 match kinds "
         "x 3 start kinds x 2 anchorings x 4 automaton kinds x {with, without empty pattern}, run under catch_unwind.", "5 C13",
         "Lean case-analysis theorem over the finite gate table + exhaustive differential of all entry points"),
 "C16": ("translation_validation",
         "contractOk is checked on the exhaustive dump (all reachable states x 256 bytes x both anchoring arguments) of every build; "
         "C16_contract_reachable / C16_dead_absorbing lift the local check to every reachable state and word; C16_recipe_eq_find "
         "proves the documented caller-written loop equals the built-in search for every automaton record; the recipe is also run in "
         "Rust on the real automata and compared with the model. For the transcribed builders the contract is a theorem for ALL "
         "pattern lists: L1dIds_special_contract / L1cIds_special_contract (the id-range predicates of Special: is_special <-> dead or "
         "match or (prefilter and start), dead absorbing, is_match <-> non-empty match list), L1d/L1e/L1dIds/L1cIds_startEquiv; "
         "every real dump is additionally certified against these id-level models (certdfai, certnci, certcontig).", "5 C16",
         "Lean-proved contract checker on exhaustive automaton dumps + proof of recipe equivalence + differential"),
}
def main():
    m = {"version": 1, "setup_cmd": "./setup.sh",
         "hooks": {"guard": "aho_corasick_verif",
                   "enable": "rustflags = [\"--cfg\", \"aho_corasick_verif\"] in /verif/harness/.cargo/config.toml",
                   "baseline_off_cmd": "cd /repo && cargo test --workspace --no-fail-fast --offline",
                   "source_commits": json.load(open(os.path.join(V, "hooks.json")))["commits"],
                   "add_only": True},
         "engines": [{"name": "acverif", "path": "/verif/check",
                      "serves_properties": sorted(CHECKS),
                      "kind_free_text": "Lean 4 model + theorems (lean/AcVerif), Rust correspondence harness (harness/), Python orchestrator"}],
         "checks": [], "not_applicable": []}
    props = [json.loads(l)["id"] for l in open(os.path.join(V, "properties.jsonl"))]
    for p in props:
        if p in CHECKS:
            cat, text, ref, tech = CHECKS[p]
            m["checks"].append({"property_id": p, "quick_cmd": "./check %s --tier quick" % p,
                                "thorough_cmd": "./check %s --tier thorough" % p,
                                "evidence_file": "/verif/evidence/%s.json" % p,
                                "replay_cmd_template": "./check %s --replay {path}" % p,
                                "engine": "acverif",
                                "level_claimed": {"category": cat, "text": text, "design_ref": ref},
                                "level_note": NOTE, "technique": tech})
        else:
            m["not_applicable"].append({"property_id": p, "reason": "check not built yet (work in progress; see DESIGN.md section 11 build order)"})
    json.dump(m, open(os.path.join(V, "MANIFEST.json"), "w"), indent=1)
if __name__ == "__main__":
    main()
