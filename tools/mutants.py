#!/usr/bin/env python3
"""Mechanical mutation campaign (development aid, not a registered check).

stage 1  `mutants.py gen N SEED`      enumerate single-token mutants of /repo/src (outside tests, comments, asserts and
                                       the cfg-guarded hooks), sample N of them            -> /tmp/mut/list.json
stage 2  `mutants.py test WORKERS`    each worker owns a scratch copy /tmp/mut/w<i> of /repo: apply, build, run the
                                       crate's unit tests, then its doc tests               -> /tmp/mut/survivors.json
stage 3  `mutants.py check`           serially, in /repo itself: apply a surviving mutant, run the quick checks mapped
                                       to its file (dev flags), undo                        -> /tmp/mut/results.json
The scratch copies live under /tmp and are removed by `mutants.py clean`.  Nothing registered in MANIFEST.json uses this.
"""
import json, os, random, re, subprocess, sys, shutil, time
from concurrent.futures import ThreadPoolExecutor

REPO = "/repo"
MUT = "/tmp/mut"
FILES = ["src/ahocorasick.rs", "src/automaton.rs", "src/dfa.rs", "src/nfa/noncontiguous.rs", "src/nfa/contiguous.rs",
         "src/packed/api.rs", "src/packed/pattern.rs", "src/packed/rabinkarp.rs", "src/packed/teddy/builder.rs",
         "src/packed/teddy/generic.rs", "src/util/alphabet.rs", "src/util/buffer.rs", "src/util/prefilter.rs",
         "src/util/remapper.rs", "src/util/search.rs", "src/util/special.rs"]
# which quick checks look at which file
CHECKS = {
    "src/ahocorasick.rs": ["C13", "C12", "C02", "C08", "C14", "C20", "C17"],
    "src/automaton.rs": ["C02", "C01", "C03", "C05", "C07", "C08", "C09", "C10", "C14", "C18", "C19", "C16"],
    "src/dfa.rs": ["C04", "C01", "C03", "C09", "C16", "C20", "C11"],
    "src/nfa/noncontiguous.rs": ["C04", "C01", "C02", "C03", "C09", "C11", "C16", "C19", "C20"],
    "src/nfa/contiguous.rs": ["C04", "C01", "C03", "C09", "C16", "C11", "C20", "C19"],
    "src/packed/api.rs": ["C06", "C05", "C10", "C15"],
    "src/packed/pattern.rs": ["C06", "C05", "C01", "C15"],
    "src/packed/rabinkarp.rs": ["C06", "C05", "C14", "C15"],
    "src/packed/teddy/builder.rs": ["C06", "C05", "C15"],
    "src/packed/teddy/generic.rs": ["C06", "C05", "C15"],
    "src/util/alphabet.rs": ["C04", "C16", "C20", "C01"],
    "src/util/buffer.rs": ["C07", "C08", "C18", "C17"],
    "src/util/prefilter.rs": ["C05", "C11", "C10", "C19", "C14"],
    "src/util/remapper.rs": ["C04", "C01", "C03", "C16"],
    "src/util/search.rs": ["C10", "C02", "C13", "C12"],
    "src/util/special.rs": ["C04", "C16", "C01", "C03"],
}
OPS = [
    (r"(?<![<>=!\-])<=(?![=>])", "<"), (r"(?<![<>=!\-])<(?![<=])(?= )", "<="),
    (r"(?<![<>=!\-])>=(?![=>])", ">"), (r"(?<![<>=!\-=])>(?![>=])(?= )", ">="),
    (r"==", "!="), (r"!=", "=="), (r"&&", "||"), (r"\|\|", "&&"),
    (r" \+ 1\b", ""), (r" - 1\b", ""), (r" \+ 1\b", " + 2"), (r" - 1\b", " - 2"),
    (r" \+ ", " - "), (r"\b0\.\.", "1.."), (r"\.\.=", ".."),
    (r"\.saturating_sub\(", ".wrapping_sub("), (r"\bmin\(", "max("), (r"\bmax\(", "min("),
    (r"\.min\(", ".max("), (r"\.max\(", ".min("), (r"\btrue\b", "false"), (r"\bfalse\b", "true"),
    (r"\bcontinue;", "break;"), (r"\bbreak;", "continue;"), (r"!self\.", "self."), (r"\bif !", "if "),
    (r" << ", " >> "), (r" >> ", " << "), (r" & ", " | "), (r" \| ", " & "),
]


def sh(cmd, cwd=None, timeout=1800):
    return subprocess.run(cmd, shell=True, cwd=cwd, capture_output=True, text=True, timeout=timeout)


def candidate_lines(path):
    lines = open(os.path.join(REPO, path)).read().split("\n")
    out = []
    in_test = False
    depth_at = None
    skip_cfg = 0
    for i, l in enumerate(lines):
        st = l.strip()
        if st.startswith("#[cfg(test)]") or st.startswith("#[cfg(all(test"):
            in_test = True
        if in_test:
            # everything after the first test module marker in these files is test code
            continue
        if "aho_corasick_verif" in l:
            skip_cfg = 12
        if skip_cfg > 0:
            skip_cfg -= 1
            continue
        if st.startswith("//") or st.startswith("#[") or st.startswith("///") or st.startswith("//!"):
            continue
        if re.search(r"\b(debug_assert|assert|assert_eq|assert_ne|unreachable|panic|write|writeln|format|debug|trace|log)!", l):
            continue
        if "fn fmt" in l or "f.debug" in l or "DebugByte" in l:
            continue
        code = l.split("//")[0]
        out.append((i, code))
    return lines, out


def gen(n, seed):
    rng = random.Random(seed)
    muts = []
    for f in FILES:
        lines, cands = candidate_lines(f)
        for i, code in cands:
            for pat, rep in OPS:
                for m in re.finditer(pat, code):
                    new = code[:m.start()] + rep + code[m.end():] + lines[i][len(code):]
                    if new != lines[i]:
                        muts.append({"file": f, "line": i + 1, "old": lines[i], "new": new, "op": pat + " -> " + rep})
    rng.shuffle(muts)
    # spread over files: at most n, round-robin by file
    byf = {}
    for m in muts:
        byf.setdefault(m["file"], []).append(m)
    pick = []
    while len(pick) < n and any(byf.values()):
        for f in FILES:
            if byf.get(f) and len(pick) < n:
                pick.append(byf[f].pop())
    for k, m in enumerate(pick):
        m["id"] = "M%04d" % k
    os.makedirs(MUT, exist_ok=True)
    json.dump(pick, open(MUT + "/list.json", "w"), indent=1)
    print("candidates", len(muts), "picked", len(pick))


def apply(root, m):
    p = os.path.join(root, m["file"])
    lines = open(p).read().split("\n")
    assert lines[m["line"] - 1] == m["old"], (m["id"], "source drifted")
    lines[m["line"] - 1] = m["new"]
    open(p, "w").write("\n".join(lines))


def undo(root, m):
    p = os.path.join(root, m["file"])
    lines = open(p).read().split("\n")
    lines[m["line"] - 1] = m["old"]
    open(p, "w").write("\n".join(lines))


def worker(wid, todo, out):
    root = "%s/w%d" % (MUT, wid)
    if not os.path.exists(root):
        sh("mkdir -p %s && cd %s && git archive HEAD | tar -x -C %s" % (root, REPO, root))
        sh("cargo test --offline --no-run", cwd=root)
    for m in todo:
        apply(root, m)
        try:
            t0 = time.time()
            r = sh("cargo test --offline --lib 2>&1 | tail -5", cwd=root, timeout=600)
            txt = r.stdout
            if "test result: ok" not in txt:
                res = "killed-unit" if "test result" in txt else "no-compile"
            else:
                r = sh("cargo test --offline --doc 2>&1 | tail -5", cwd=root, timeout=900)
                res = "survived" if "test result: ok" in r.stdout else "killed-doc"
        except subprocess.TimeoutExpired:
            res = "timeout"
        undo(root, m)
        m["stage1"] = res
        m["secs"] = round(time.time() - t0, 1)
        out.append(m)
        json.dump(out, open(MUT + "/stage1.json", "w"), indent=1)
        print(m["id"], m["file"], m["line"], res, flush=True)


def test(workers):
    lst = json.load(open(MUT + "/list.json"))
    done = {m["id"]: m for m in (json.load(open(MUT + "/stage1.json")) if os.path.exists(MUT + "/stage1.json") else [])}
    todo = [m for m in lst if m["id"] not in done]
    out = list(done.values())
    with ThreadPoolExecutor(workers) as ex:
        for w in range(workers):
            ex.submit(worker, w, todo[w::workers], out)
    surv = [m for m in out if m.get("stage1") == "survived"]
    json.dump(surv, open(MUT + "/survivors.json", "w"), indent=1)
    hist = {}
    for m in out:
        hist[m["stage1"]] = hist.get(m["stage1"], 0) + 1
    print(hist)


def check():
    surv = [m for m in json.load(open(MUT + "/stage1.json")) if m.get("stage1") == "survived"]
    resf = MUT + "/results.json"
    res = json.load(open(resf)) if os.path.exists(resf) else []
    done = {m["id"] for m in res}
    env = "VERIF_DEV_SKIP_PROOF=1 VERIF_FAST=1"
    if sh("git -C /repo status --short").stdout.strip():
        print("/repo is not clean"); sys.exit(1)
    shutil.rmtree("/tmp/mut_evidence_backup", ignore_errors=True)
    shutil.copytree("/verif/evidence", "/tmp/mut_evidence_backup")
    try:
        for m in surv:
            if m["id"] in done:
                continue
            while os.path.exists(MUT + "/PAUSE"):
                time.sleep(5)
            apply(REPO, m)
            caught = {}
            try:
                for c in CHECKS[m["file"]]:
                    try:
                        r = sh("cd /verif && %s ./check %s --tier quick 2>&1 | grep '^VIOLATION'" % (env, c), timeout=900)
                    except subprocess.TimeoutExpired:
                        sh("pkill -f acharness; pkill -f acdrv")
                        caught[c] = ["timeout", 0]
                        continue
                    n = r.stdout.count("VIOLATION")
                    conc = sum(1 for l in r.stdout.split("\n") if l.startswith("VIOLATION") and "no-failing-input-found" not in l)
                    if n:
                        caught[c] = [n, conc]
                        if conc:
                            break
            finally:
                sh("git -C /repo checkout -- .")
                sh("find /verif/replays -name '*.json' -delete")
            m["caught"] = caught
            res.append(m)
            json.dump(res, open(resf, "w"), indent=1)
            print(m["id"], m["file"], m["line"], m["op"], "->", caught or "NOT CAUGHT", flush=True)
    finally:
        shutil.rmtree("/verif/evidence", ignore_errors=True)
        shutil.move("/tmp/mut_evidence_backup", "/verif/evidence")


if __name__ == "__main__":
    a = sys.argv[1]
    if a == "gen":
        gen(int(sys.argv[2]), int(sys.argv[3]))
    elif a == "test":
        test(int(sys.argv[2]))
    elif a == "check":
        check()
    elif a == "clean":
        shutil.rmtree(MUT, ignore_errors=True)
