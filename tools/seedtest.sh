#!/bin/bash
# usage: seedtest.sh <seed-id> <worktree> <prop> [more props...]
# Confirms an independently written breaking change (tests pass, demo fails with / passes without),
# stores it under /verif/seeded/<seed-id>/, then runs the given checks against /repo with the patch applied.
set -u
ID=$1; WT=$2; shift 2; PROPS="$@"
D=/verif/seeded/$ID
mkdir -p $D
cp $WT/patch.diff $D/patch.diff
rm -rf $D/demo; mkdir -p $D/demo/src; cp $WT/demo/Cargo.toml $D/demo/; cp $WT/demo/src/main.rs $D/demo/src/
cp $WT/meta.txt $D/meta.txt 2>/dev/null
export CARGO_NET_OFFLINE=true
export VERIF_DEV_SKIP_PROOF=${SEED_SKIP_PROOF:-0}
cd $WT
T=$(cargo test --offline 2>&1 | grep -E "^test result" | tr '\n' ' ')
echo "tests-with-change: $T"
(cd demo && cargo run --offline >/tmp/seed_demo_with.txt 2>&1); W=$?
# (no `git stash`: the stash is shared by all worktrees of the repository)
git diff -- src > /tmp/seed_patch_tmp.diff
git checkout -- src
(cd demo && cargo run --offline >/tmp/seed_demo_without.txt 2>&1); WO=$?
git apply /tmp/seed_patch_tmp.diff
echo "demo with change: exit $W ; without: exit $WO"
cd /repo
git apply $D/patch.diff || { echo "patch does not apply to /repo"; exit 1; }
# evidence files describe the unchanged tree: keep them out of the seeded runs
rm -rf /tmp/seed_evidence_backup; cp -r /verif/evidence /tmp/seed_evidence_backup
RES=""
for p in $PROPS; do
  OUT=$(cd /verif && ./check $p --tier quick 2>&1 | grep -E "^VIOLATION|^KNOWN" | head -3)
  N=$(echo "$OUT" | grep -c VIOLATION)
  echo "check $p: $N violation line(s)"; echo "$OUT" | head -2
  RES="$RES $p:$N"
  F=$(echo "$OUT" | grep VIOLATION | head -1 | sed 's/.*replay=\([^ ]*\).*/\1/')
  if [ -n "$F" ] && [ -f "$F" ]; then python3 -c "
import json; d=json.load(open('$F')); print('   replay:', d.get('kind','')[:60], '|', str(d.get('request',''))[:260], '|', d.get('cfg'), '| impl', str(d.get('impl'))[:80], '| expected', str(d.get('expected'))[:80])" 2>/dev/null | sed 's/freq=[0-9a-f]*/freq=.../'; fi
done
git -C /repo checkout -- .
rm -rf /verif/evidence; mv /tmp/seed_evidence_backup /verif/evidence
find /verif/replays -name '*.json' -delete
python3 - "$ID" "$T" "$W" "$WO" "$RES" <<'PY'
import json,sys,os
i,t,w,wo,res=sys.argv[1:6]
d='/verif/seeded/'+i
meta={"id":i,"tests_with_change":t.strip(),"demo_exit_with_change":int(w),"demo_exit_without_change":int(wo),
      "checks_run":{x.split(':')[0]:int(x.split(':')[1]) for x in res.split()},
      "description":open(d+'/meta.txt').read() if os.path.exists(d+'/meta.txt') else ""}
json.dump(meta,open(d+'/meta.json','w'),indent=1)
PY
echo "stored in $D"
