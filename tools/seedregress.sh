#!/bin/bash
# Re-applies every stored seeded change to /repo and re-runs the checks that caught it when it was recorded
# (meta.json checks_run with >0 violation lines); prints one line per (seed, check).  Dev tool: uses the
# skip-proof flag, restores the evidence directory and /repo afterwards.  Never run concurrently with another check.
set -u
cd /verif
git -C /repo status --short | grep -q . && { echo "/repo is not clean"; exit 1; }
rm -rf /tmp/seed_evidence_backup; cp -r /verif/evidence /tmp/seed_evidence_backup
export VERIF_DEV_SKIP_PROOF=1
export VERIF_FAST=1
for D in /verif/seeded/${1:-S}*/; do
  ID=$(basename $D)
  PROPS=$(python3 -c "
import json,sys
m=json.load(open('$D/meta.json')); print(' '.join(k for k,v in m.get('checks_run',{}).items() if v>0))")
  [ -z "$PROPS" ] && { echo "$ID: no catching check recorded"; continue; }
  git -C /repo apply $D/patch.diff 2>/dev/null || git -C /repo apply -C1 $D/patch.diff || { echo "$ID: patch does not apply"; continue; }
  for p in $PROPS; do
    OUT=$(./check $p --tier quick 2>&1 | grep "^VIOLATION")
    N=$(echo "$OUT" | grep -c "^VIOLATION")
    C=$(echo "$OUT" | grep "^VIOLATION" | grep -vc "no-failing-input-found")
    echo "$ID $p violations=$N concrete=$C"
  done
  git -C /repo checkout -- .
done
rm -rf /verif/evidence; mv /tmp/seed_evidence_backup /verif/evidence
find /verif/replays -name '*.json' -delete
