#!/bin/bash
# applies every /verif/harmless/*.diff to /repo in turn and runs all quick checks (dev flags; evidence restored)
cd /verif
git -C /repo status --short | grep -q . && { echo "/repo is not clean"; exit 1; }
rm -rf /tmp/harm_evidence_backup; cp -r /verif/evidence /tmp/harm_evidence_backup
export VERIF_DEV_SKIP_PROOF=1 VERIF_FAST=1
for D in /verif/harmless/${1:-H}*.diff; do
  ID=$(basename $D .diff)
  git -C /repo apply $D || { echo "$ID: patch does not apply"; continue; }
  T=$(cd /repo && cargo test --offline 2>&1 | grep -E "^test result" | grep -c "0 failed")
  RES=""
  for i in 01 02 03 04 05 06 07 08 09 10 11 12 13 14 15 16 17 18 19 20; do
    OUT=$(./check C$i --tier quick 2>&1 | grep "^VIOLATION")
    N=$(echo "$OUT" | grep -c "^VIOLATION"); C=$(echo "$OUT" | grep "^VIOLATION" | grep -vc "no-failing-input-found")
    [ "$N" != "0" ] && RES="$RES C$i:$N(concrete=$C)"
  done
  echo "$ID tests-ok=$T alarms:${RES:- none}"
  git -C /repo checkout -- .
done
rm -rf /verif/evidence; mv /tmp/harm_evidence_backup /verif/evidence
find /verif/replays -name '*.json' -delete
