"""Shared machinery of ./check: building, running both sides of the line
protocol, diffing, shrinking, replay files, known findings, evidence."""
import hashlib, json, os, re, subprocess, sys, time

VERIF = os.path.dirname(os.path.dirname(os.path.abspath(__file__)))
LEAN = os.path.join(VERIF, "lean", "AcVerif")
HARNESS_DIR = os.path.join(VERIF, "harness")
HARNESS = os.path.join(VERIF, ".build", "cargo", "release", "acharness")
ACDRV = os.path.join(LEAN, ".lake", "build", "bin", "acdrv")
WORK = os.path.join(VERIF, "work")
ALLOWED_AXIOMS = {"propext", "Classical.choice", "Quot.sound"}
TRUSTED_BASE = [
    "Lean 4.33 kernel (axioms per theorem audited by #print axioms; allowed: propext, Classical.choice, Quot.sound)",
    "Lean compiler/runtime executing the model and the proved certificate checker in acdrv",
    "harness: request codec, Automaton-trait dump walker, schedule reader / limit writer (/verif/harness)",
    "orchestrator diff (/verif/tools), constant extractor",
    "rustc/LLVM, memchr crate, SIMD intrinsics (modelled lane-wise), std::io (modelled as schedules)",
]


def env():
    e = dict(os.environ)
    e["CARGO_NET_OFFLINE"] = "true"
    # per-request limit of the harness watchdog (a request that never returns aborts the harness process)
    e.setdefault("ACHARNESS_REQ_TIMEOUT_S", "40" if os.environ.get("VERIF_TIER", "quick") == "quick" else "600")
    return e


def run(cmd, cwd=None, stdin=None, timeout=None, check=False):
    p = subprocess.run(cmd, cwd=cwd, input=stdin, capture_output=True, text=True,
                       timeout=timeout, env=env())
    if check and p.returncode != 0:
        raise RuntimeError("command failed: %s\n%s\n%s" % (cmd, p.stdout[-3000:], p.stderr[-3000:]))
    return p


def build_harness():
    """Rebuild the harness against /repo's current working tree (path dep)."""
    os.makedirs(WORK, exist_ok=True)
    lock = os.path.join(HARNESS_DIR, "Cargo.lock")
    if not os.path.exists(lock):
        import shutil
        shutil.copy("/repo/Cargo.lock", lock)
    p = run(["cargo", "build", "--release", "--offline"], cwd=HARNESS_DIR)
    if p.returncode != 0:
        return False, p.stderr[-4000:]
    return True, ""


def build_lean(targets):
    p = run(["lake", "build"] + targets, cwd=LEAN)
    out = "\n".join(l for l in (p.stdout + p.stderr).splitlines() if "conda" not in l)
    return p.returncode == 0, out


FORBIDDEN = re.compile(r"\b(sorry|admit|native_decide|bv_decide|implemented_by|unsafe)\b|^axiom |maxHeartbeats 0")


def strip_comments(src):
    # remove /- ... -/ (nested not handled beyond one level) and -- comments
    out, i, depth = [], 0, 0
    while i < len(src):
        if src.startswith("/-", i):
            depth += 1; i += 2; continue
        if src.startswith("-/", i) and depth > 0:
            depth -= 1; i += 2; continue
        if depth == 0:
            if src.startswith("--", i):
                j = src.find("\n", i)
                i = len(src) if j < 0 else j
                continue
            out.append(src[i])
        i += 1
    return "".join(out)


def source_audit():
    """grep the Lean sources for forbidden constructs outside comments"""
    hits = []
    for root, _, files in os.walk(os.path.join(LEAN)):
        if ".lake" in root:
            continue
        for f in files:
            if not f.endswith(".lean"):
                continue
            path = os.path.join(root, f)
            code = strip_comments(open(path).read())
            for n, line in enumerate(code.splitlines(), 1):
                if FORBIDDEN.search(line):
                    hits.append("%s: %s" % (os.path.relpath(path, LEAN), line.strip()))
    return hits


def theorem_names(module_file):
    src = strip_comments(open(module_file).read())
    return re.findall(r"^\s*theorem\s+([A-Za-z0-9_.'?!]+)", src, flags=re.M)


def leanchecker(mods):
    """independent re-check of the compiled theorem modules (thorough tier)"""
    bad = []
    for m in mods:
        p = run(["lake", "env", "leanchecker", m], cwd=LEAN)
        if p.returncode != 0:
            bad.append("%s: %s" % (m, (p.stdout + p.stderr)[-300:]))
    return bad


# theorem files that serve several properties: the correctness of the (transcribed) noncontiguous
# compiler turns Tie A's per-instance validation of that automaton into a theorem for all pattern lists
EXTRA_THEOREMS = {  "C01": [   "L1c.lean",   "L1cDense.lean",   "L1cMem.lean",   "L1cMemCompile.lean",   "TopLevel.lean"  ],  "C02": [   "L1c.lean",   "L1cDense.lean",   "L1cMem.lean",   "L1cMemCompile.lean",   "TopLevel.lean"  ],  "C03": [   "L1c.lean",   "L1cMem.lean",   "L1cMemCompile.lean",   "TopLevel.lean"  ],  "C04": [   "L1d.lean",   "L1e.lean",   "L1dIds.lean",   "L1Alphabet.lean"  ],  "C05": [   "TopLevel.lean",   "TopLevelPre.lean"  ],  "C07": [   "TopLevel.lean"  ],  "C08": [   "C07Transfer.lean",   "C07Fold.lean",   "TopLevel.lean",   "TopLevel2.lean"  ],  "C09": [   "TopLevel.lean"  ],  "C10": [   "TopLevel.lean",   "TopLevel2.lean",   "C06.lean"  ],  "C11": [   "L1cFold.lean",   "L1dFold.lean",   "L1eFold.lean",   "L1dIdsFold.lean",   "C07Fold.lean"  ],  "C12": [   "TopLevel.lean"  ],  "C13": [   "TopLevel.lean",   "TopLevel2.lean"  ],  "C14": [   "TopLevel.lean",   "TopLevel2.lean"  ],  "C15": [   "C06.lean",   "L1dIds.lean",   "L1eSafe.lean",   "L1cIds.lean"  ],  "C16": [   "L1d.lean",   "L1e.lean",   "L1dIds.lean",   "L1cIds.lean"  ],  "C17": [   "TopLevel.lean",   "TopLevel2.lean"  ],  "C18": [   "C07Transfer.lean",   "C07Fold.lean",   "TopLevel.lean",   "TopLevel2.lean",   "C18Resume.lean"  ],  "C19": [   "L1c.lean",   "L1e.lean"  ],  "C20": [   "TopLevel.lean"  ] }


def audit_theorems(prop, recheck=False):
    """Builds AcVerif.Theorems.<prop>, lists its theorems and checks the axioms
    of each.  Returns dict(obligations, discharged, theorems, failures, log)."""
    tdir = os.path.join(LEAN, "AcVerif", "Theorems")
    files = sorted(f for f in os.listdir(tdir) if f.endswith(".lean") and re.match(r"^%s([A-Z][A-Za-z]*)?\.lean$" % prop, f))
    files += [f for f in EXTRA_THEOREMS.get(prop, []) if os.path.exists(os.path.join(tdir, f))]
    res = {"obligations": 0, "discharged": 0, "theorems": [], "failures": [], "log": ""}
    if not files:
        res["failures"].append("missing theorem file for " + prop)
        return res
    mods = ["AcVerif.Theorems.%s" % f[:-5] for f in files]
    mod = " ".join(mods)
    ok, out = build_lean(mods)
    names = []
    for f in files:
        names += theorem_names(os.path.join(tdir, f))
    res["obligations"] = len(names)
    if not ok:
        res["failures"].append("lake build %s failed" % mod)
        res["log"] = out[-4000:]
        return res
    if recheck:
        bad = leanchecker(mods)
        res["leanchecker"] = "ok" if not bad else bad
        if bad:
            res["failures"].append("leanchecker rejected: " + "; ".join(bad)[:500])
            return res
    hits = source_audit()
    if hits:
        res["failures"].append("forbidden constructs: " + "; ".join(hits[:5]))
        return res
    os.makedirs(WORK, exist_ok=True)
    aud = os.path.join(WORK, "Audit_%s.lean" % prop)
    with open(aud, "w") as f:
        f.write("".join("import %s\n" % m for m in mods) + "open AcVerif\n")
        for n in names:
            f.write("#print axioms %s\n" % n)
    p = run(["lake", "env", "lean", aud], cwd=LEAN)
    txt = p.stdout + p.stderr
    res["log"] = txt[-4000:]
    # parse: "'name' depends on axioms: [a, b]" / "'name' does not depend on any axioms"
    blocks = re.findall(r"'([^\s]+)' (does not depend on any axioms|depends on axioms: \[([^\]]*)\])", txt)
    seen = {}
    for name, _, axs in blocks:
        ax = set(a.strip() for a in axs.replace("\n", " ").split(",") if a.strip())
        seen[name.split(".")[-1]] = ax
    for n in names:
        short = n.split(".")[-1]
        if short not in seen:
            res["failures"].append("no axiom report for %s" % n)
            continue
        extra = seen[short] - ALLOWED_AXIOMS
        res["theorems"].append({"name": n, "axioms": sorted(seen[short])})
        if extra:
            res["failures"].append("%s uses disallowed axioms %s" % (n, sorted(extra)))
        else:
            res["discharged"] += 1
    return res


# ---------------------------------------------------------------------
# running the two sides

HARNESS_DEATHS = []   # (request line, reason) of requests on which the harness process died or hung


def _impl_timeout(tag):
    if tag in ("shrink", "directed", "bufcapdemo"):
        return 120
    return 600 if os.environ.get("VERIF_TIER", "quick") == "quick" else 7200


def run_impl(lines, tag, sub="exec"):
    """Runs the harness on the request lines.  The real code may abort, exhaust its (capped) address space or never
    return on a request: the harness flushes after every request, so the first unanswered request is the one that
    killed it; that request is answered `harness-died:<reason>` for each of its configurations, recorded in
    HARNESS_DEATHS, and the run continues after it (at most three times)."""
    os.makedirs(WORK, exist_ok=True)
    out_all, last_p = [], None
    offset, rest = 0, list(lines)
    for attempt in range(4):
        rf = os.path.join(WORK, "req_%s.txt" % tag)
        with open(rf, "w") as f:
            f.write("\n".join(rest) + "\n")
        reason = None
        try:
            p = subprocess.run([HARNESS, sub, rf], capture_output=True, text=True, timeout=_impl_timeout(tag), env=env())
            stdout, last_p = p.stdout, p
            if p.returncode != 0:
                reason = "exit-%d" % p.returncode
        except subprocess.TimeoutExpired as e:
            stdout = e.stdout.decode("utf-8", "replace") if isinstance(e.stdout, bytes) else (e.stdout or "")
            reason = "timeout"
        got = stdout.splitlines()
        if reason and got and not got[-1].split(" ", 1)[0].isdigit():
            got = got[:-1]                                   # a torn last line
        seen = -1
        for l in got:
            parts = l.split(" ", 2)
            if len(parts) == 3 and parts[0].isdigit():
                seen = max(seen, int(parts[0]))
                out_all.append("%d %s %s" % (int(parts[0]) + offset, parts[1], parts[2]))
        if reason is None or sub != "exec":
            break
        # the killer: the first non-empty request after the last answered one
        k = seen + 1
        while k < len(rest) and (not rest[k].strip() or rest[k].startswith("#")):
            k += 1
        if k >= len(rest):
            break
        HARNESS_DEATHS.append((rest[k], reason))
        op, kv = parse_req(rest[k])
        for c in (kv.get("pcfg") if op == "packed" else kv.get("cfgs", "-")).split(";"):
            out_all.append("%d %s harness-died:%s" % (k + offset, c, reason))
        offset, rest = offset + k + 1, rest[k + 1:]
        if not rest or attempt == 3:
            break
    return out_all, last_p


def run_model(lines):
    """The driver answers each line independently: large batches are split over the cores (answers renumbered)."""
    njobs = min(os.cpu_count() or 1, 16, max(1, len(lines) // 24))
    if njobs <= 1:
        p = run([ACDRV], stdin="\n".join(lines) + "\n")
        if p.returncode != 0:
            raise RuntimeError("acdrv failed: " + p.stderr[-2000:])
        return p.stdout.splitlines()
    # interleaved assignment balances cheap and expensive request families
    parts = [list(range(j, len(lines), njobs)) for j in range(njobs)]
    procs = []
    for idxs in parts:
        pr = subprocess.Popen([ACDRV], stdin=subprocess.PIPE, stdout=subprocess.PIPE, stderr=subprocess.PIPE, text=True, env=env())
        procs.append((pr, idxs))
    import threading
    outs = [None] * njobs

    def feed(j):
        pr, idxs = procs[j]
        outs[j] = pr.communicate("\n".join(lines[i] for i in idxs) + "\n")
    ths = [threading.Thread(target=feed, args=(j,)) for j in range(njobs)]
    for t in ths:
        t.start()
    for t in ths:
        t.join()
    res = []
    for j, (pr, idxs) in enumerate(procs):
        if pr.returncode != 0:
            raise RuntimeError("acdrv failed: " + (outs[j][1] or "")[-2000:])
        for l in outs[j][0].splitlines():
            parts_ = l.split(" ", 1)
            if len(parts_) == 2 and parts_[0].isdigit() and int(parts_[0]) < len(idxs):
                res.append("%d %s" % (idxs[int(parts_[0])], parts_[1]))
            else:
                res.append(l)
    res.sort(key=lambda l: int(l.split(" ", 1)[0]) if l.split(" ", 1)[0].isdigit() else 1 << 60)
    return res


def index_resp(lines):
    """'<lineno> <cfg> <resp...>' -> {(lineno, cfg): resp}"""
    d = {}
    for l in lines:
        parts = l.split(" ", 2)
        if len(parts) < 3:
            continue
        try:
            d[(int(parts[0]), parts[1])] = parts[2]
        except ValueError:
            pass
    return d


def diff(reqs, tag):
    """Runs both sides; returns (impl, model, mismatches) where mismatches is
    a list of dict(req, cfg, impl, model)."""
    impl_lines, _ = run_impl(reqs, tag)
    model_lines = run_model(reqs)
    impl = index_resp(impl_lines)
    model = index_resp(model_lines)
    mism = []
    if REF_CFG is not None:
        # pairwise mode: each configuration against the reference configuration of the real code
        for (ln, cfg) in sorted(impl):
            ref = impl.get((ln, REF_CFG))
            a = impl[(ln, cfg)]
            if ref is None or cfg == REF_CFG or a in ANCH_ERRS or ref in ANCH_ERRS:
                continue
            if a != ref:
                mism.append({"req": reqs[ln], "cfg": cfg, "impl": a, "model": ref, "line": ln})
        return impl, model, mism
    # after the harness died more often than run_impl retries, the requests behind the last death have no answer at
    # all: they were not compared (the deaths themselves are answered `harness-died:…` and do mismatch)
    dead_from = None
    if len(HARNESS_DEATHS) >= 4:
        answered = [k[0] for k in impl]
        dead_from = (max(answered) + 1) if answered else 0
    for k in sorted(set(impl) | set(model)):
        a, b = impl.get(k), model.get(k)
        if a is None and dead_from is not None and k[0] >= dead_from:
            continue
        if a != b:
            mism.append({"req": reqs[k[0]], "cfg": k[1], "impl": a, "model": b, "line": k[0]})
    return impl, model, mism


# ---------------------------------------------------------------------
# requests as dicts

def parse_req(line):
    toks = line.split()
    return toks[0], dict(t.split("=", 1) for t in toks[1:])


def fmt_req(op, kv):
    return op + " " + " ".join("%s=%s" % (k, v) for k, v in kv.items())


def hx(b):
    return b.hex() if b else "_"


def hxlist(l):
    return ",".join(hx(p) for p in l) if l else "."


def unhx(s):
    return b"" if s in ("_", "") else bytes.fromhex(s)


def unhxlist(s):
    return [] if s == "." else [unhx(x) for x in s.split(",")]


REF_CFG = None  # pairwise mode (C04): compare a configuration with this reference configuration
ANCH_ERRS = ("err-anchored", "err-unanchored")


STILL_PRED = None  # optional extra predicate (line, cfg, impl, model) a shrunk case must keep


def still_fails(line, cfg):
    r = _still_fails(line, cfg)
    if r and STILL_PRED is not None and not STILL_PRED(line, cfg, r[0], r[1]):
        return None
    return r


def _still_fails(line, cfg):
    op, kv = parse_req(line)
    if REF_CFG is not None:
        kv["cfgs"] = cfg + ";" + REF_CFG
        l = fmt_req(op, kv)
        impl = index_resp(run_impl([l], "shrink")[0])
        a, b = impl.get((0, cfg)), impl.get((0, REF_CFG))
        if a is None or b is None or "bad-request" in (a + b) or a in ANCH_ERRS or b in ANCH_ERRS:
            return None
        return (a, b) if a != b else None
    kv["pcfg" if op == "packed" else "cfgs"] = cfg
    l = fmt_req(op, kv)
    impl = index_resp(run_impl([l], "shrink")[0])
    model = index_resp(run_model([l]))
    a, b = impl.get((0, cfg)), model.get((0, cfg))
    if a is None or b is None or "bad-request" in (a + b) or "bad-utf8" in (a + b) or "MODEL-SPEC-MISMATCH" in b:
        return None
    return (a, b) if a != b else None


def shrink(line, cfg, budget=150):
    """Greedy shrink of a failing request: drop patterns, shorten patterns,
    shorten the haystack, keeping a disagreement between impl and model."""
    op, kv = parse_req(line)
    kv["pcfg" if op == "packed" else "cfgs"] = cfg
    best = fmt_req(op, kv)
    steps = 0

    def attempt(newkv):
        nonlocal best, kv, steps
        steps += 1
        cand = fmt_req(op, newkv)
        if still_fails(cand, cfg):
            best, kv = cand, newkv
            return True
        return False

    changed = True
    while changed and steps < budget:
        changed = False
        if "pats" in kv:
            pats = unhxlist(kv["pats"])
            # dropping a pattern renumbers ids; only the disagreement matters
            for i in range(len(pats)):
                if len(pats) <= 1:
                    break
                np = pats[:i] + pats[i + 1:]
                nk = dict(kv); nk["pats"] = hxlist(np)
                if "repl" in nk:
                    rl = unhxlist(nk["repl"]); nk["repl"] = hxlist(rl[:i] + rl[i + 1:])
                if attempt(nk):
                    changed = True; break
            if changed:
                continue
            for i, p in enumerate(pats):
                for np in (p[1:], p[:-1]):
                    if len(np) < len(p):
                        nps = list(pats); nps[i] = np
                        nk = dict(kv); nk["pats"] = hxlist(nps)
                        if attempt(nk):
                            changed = True; break
                if changed:
                    break
            if changed:
                continue
        if "hay" in kv and "s" not in kv and "e" not in kv and "sched" not in kv:
            h = unhx(kv["hay"])
            for nh in (h[1:], h[:-1]):
                if len(nh) < len(h):
                    nk = dict(kv); nk["hay"] = hx(nh)
                    if attempt(nk):
                        changed = True; break
    return best


# ---------------------------------------------------------------------
# known findings, replay files, evidence

def load_known():
    p = os.path.join(VERIF, "known_findings.json")
    if not os.path.exists(p):
        return []
    return json.load(open(p)).get("findings", [])


def canonical(line):
    op, kv = parse_req(line)
    return fmt_req(op, dict(sorted(kv.items())))


def match_known(prop, line, cfg, impl, model):
    """A violation is a known finding iff an entry of kind 'known' for this
    property has the same canonical minimal request (configuration aside)."""
    op, kv = parse_req(line)
    kv.pop("cfgs", None)
    canon = fmt_req(op, dict(sorted(kv.items())))
    for f in load_known():
        if f.get("kind") == "known" and f.get("property") == prop and f.get("signature") == canon:
            return f
    return None


def write_replay(prop, payload):
    os.makedirs(os.path.join(VERIF, "replays"), exist_ok=True)
    h = hashlib.sha1(json.dumps(payload, sort_keys=True).encode()).hexdigest()[:12]
    path = os.path.join(VERIF, "replays", "%s-%s.json" % (prop, h))
    payload = dict(payload)
    payload["property"] = prop
    payload["how_to_replay"] = "./check %s --replay %s" % (prop, path)
    with open(path, "w") as f:
        json.dump(payload, f, indent=1)
    return path


def write_evidence(prop, tier, seed, level, coverage, assumptions, wall, violations):
    os.makedirs(os.path.join(VERIF, "evidence"), exist_ok=True)
    ev = {"property_id": prop, "tier": tier, "seed": seed, "level": level,
          "coverage": coverage, "assumptions": assumptions, "wall_s": round(wall, 2),
          "violations": violations}
    with open(os.path.join(VERIF, "evidence", "%s.json" % prop), "w") as f:
        json.dump(ev, f, indent=1)
    return ev
