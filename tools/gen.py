"""Structured generators for pattern lists, haystacks, spans, schedules.
Every random choice comes from one random.Random(seed)."""
import itertools, random
from vlib import hx, hxlist, fmt_req

CFG_LOW = ["nc.d.1.0.b", "nc.0.1.0.b", "c.d.1.0.b", "c.0.0.0.b", "c.2.1.0.b", "c.9.0.0.b",
           "dfa.d.1.0.b", "dfa.d.0.0.b", "dfa.d.1.0.u"]
CFG_TOP = ["tnc.d.1.0.b", "tc.d.1.0.u", "tdfa.d.1.0.u", "auto.d.1.0.u", "auto.d.1.0.b"]
CFG_ANCH = ["nc.d.1.0.b", "c.d.1.0.b", "c.0.0.0.b", "dfa.d.1.0.b", "dfa.d.0.0.a", "tnc.d.1.0.b",
            "tc.d.1.0.a", "tdfa.d.1.0.a", "tdfa.d.1.0.b", "auto.d.1.0.a", "auto.d.1.0.b"]
CFG_PRE = ["nc.d.1.1.b", "c.d.1.1.b", "dfa.d.1.1.u", "dfa.d.1.1.b", "auto.d.1.1.u", "tc.d.1.1.b"]


def cfgs(l):
    return ";".join(l)


class Gen:
    def __init__(self, seed):
        self.rng = random.Random(seed)
        self.shape_hist = {}

    def note(self, shape):
        self.shape_hist[shape] = self.shape_hist.get(shape, 0) + 1

    # ---------------- pattern lists ----------------
    def word(self, alpha, lo, hi):
        n = self.rng.randint(lo, hi)
        return bytes(self.rng.choice(alpha) for _ in range(n))

    def tiny(self, alpha=b"ab", maxn=4, maxlen=4, empty=True):
        self.note("tiny")
        n = self.rng.randint(1, maxn)
        return [self.word(alpha, 0 if empty and self.rng.random() < 0.25 else 1, maxlen) for _ in range(n)]

    def nest(self, empty=True):
        """prefixes / suffixes / infixes of a seed word, shuffled, with duplicates"""
        self.note("nest")
        alpha = self.rng.choice([b"ab", b"abc", b"abcd"])
        w = self.word(alpha, 3, 7)
        subs = set()
        for i in range(len(w) + 1):
            for j in range(i, len(w) + 1):
                subs.add(w[i:j])
        subs = sorted(subs)
        if not empty:
            subs = [s for s in subs if s]
        k = self.rng.randint(2, min(7, len(subs)))
        ps = self.rng.sample(subs, k)
        if self.rng.random() < 0.3:
            ps.append(self.rng.choice(ps))
        self.rng.shuffle(ps)
        return ps

    def dups3(self):
        """one word supplied 3..5 times (in different letter cases half of the time), interleaved with a suffix, a prefix
        and an unrelated word: match lists of length >= 3 owned by one state"""
        self.note("dups3")
        w = self.word(b"abc", 1, 3)
        n = self.rng.randint(3, 5)
        cased = self.rng.random() < 0.5
        reps = [bytes((b ^ 0x20) if cased and self.rng.random() < 0.5 else b for b in w) for _ in range(n)]
        extra = [w[1:] or b"b", w[:-1] or b"a", self.word(b"xyz", 1, 2)]
        self.rng.shuffle(extra)
        ps = []
        for r in reps:
            ps.append(r)
            if extra and self.rng.random() < 0.6:
                ps.append(extra.pop())
        return ps

    def branchy(self):
        """a run c^k that branches: c^i d (several i, distinct d) and sometimes c^j itself - the node c^i has two or
        more children, one of them c again, and the siblings' failure links climb to different depths; no 1-byte pattern,
        so that every kind of search walks deep into the run"""
        self.note("branchy")
        c = self.rng.choice(b"ab")
        ds = [d for d in b"abcde" if d != c]
        self.rng.shuffle(ds)
        ks = sorted(self.rng.sample(range(1, 6), self.rng.randint(2, 3)))
        ps = [bytes([c]) * k + bytes([ds[i % len(ds)]]) + (self.word(b"abc", 0, 2) if self.rng.random() < 0.3 else b"")
              for i, k in enumerate(ks)]
        if self.rng.random() < 0.3:
            ps.append(bytes([c]) * self.rng.randint(2, 6))
        if self.rng.random() < 0.3:
            ps.append(bytes([ds[0]]) + bytes([c]) * self.rng.randint(1, 3) + bytes([ds[1]]))
        self.rng.shuffle(ps)
        return ps

    def akb(self):
        self.note("akb")
        k = self.rng.randint(2, 6)
        ps = [b"a" * i + b"b" for i in range(1, k + 1)]
        if self.rng.random() < 0.5:
            ps += [b"a" * i for i in range(1, k)]
        self.rng.shuffle(ps)
        return ps[: self.rng.randint(2, len(ps))]

    def suffix_chain(self):
        self.note("suffix_chain")
        w = self.word(b"abc", 4, 8)
        ps = [w[i:] for i in range(len(w))]
        self.rng.shuffle(ps)
        return ps[: self.rng.randint(2, len(ps))]

    def fanout(self, width=None):
        """one prefix followed by many distinct next bytes"""
        self.note("fanout")
        width = width or self.rng.choice([2, 3, 4, 5, 8, 9, 20, 127, 128, 200, 253, 254, 255, 256])
        pre = self.word(b"xy", 0, 3)
        nexts = self.rng.sample(range(256), width)
        if self.rng.random() < 0.5:
            for b in (0, 255):
                if b not in nexts:
                    nexts[self.rng.randrange(len(nexts))] = b
        nexts = list(dict.fromkeys(nexts))
        return [pre + bytes([b]) + self.word(b"xy", 0, 1) for b in nexts]

    def failchain(self):
        """multi-hop failure chains through interior (non-match) nodes: a long pattern whose proper suffixes are only
        PREFIXES of other patterns, ending in a short pattern; first bytes both above and below each other"""
        self.note("failchain")
        alpha = self.rng.choice([b"abc", b"azm", b"zab", b"bca"])
        core = self.word(alpha, 2, 4)
        lead = bytes([self.rng.choice(b"azmq")])
        ps = [lead + core + bytes([self.rng.choice(b"xq")])]
        for i in range(1, len(core)):
            if self.rng.random() < 0.7:
                ps.append(core[i:] + bytes([self.rng.choice(b"qyw")]) * self.rng.randint(1, 2))
        ps.append(core[-1:])
        if self.rng.random() < 0.4:
            ps.append(core[-2:])
        if self.rng.random() < 0.2:
            ps.append(b"")
        self.rng.shuffle(ps)
        return ps

    def periodic(self):
        """patterns with nested borders before a differing byte ((ab)^k c d): failure chains of several hops through
        non-match nodes, plus short patterns reached only at the end of the chain"""
        self.note("periodic")
        unit = self.word(b"ab", 1, 2) if self.rng.random() < 0.7 else self.word(b"abc", 2, 3)
        k = self.rng.randint(2, 4)
        tail = bytes([self.rng.choice(b"cdx")]) + self.word(b"dxy", 0, 2)
        ps = [unit * k + tail]
        if self.rng.random() < 0.7:
            ps.append(tail[:1] + self.word(b"xyq", 1, 2))
        if self.rng.random() < 0.5:
            ps.append(self.word(b"zq", 1, 2))
        if self.rng.random() < 0.4:
            ps.append(unit + tail[:1])
        self.rng.shuffle(ps)
        return ps

    def casey(self):
        self.note("casey")
        alpha = b"aAbBzZ@[`{" + bytes([0xC1, 0xE1])
        return [self.word(alpha, 1, 4) for _ in range(self.rng.randint(1, 4))]

    def random_bytes(self):
        self.note("random_bytes")
        return [bytes(self.rng.randrange(256) for _ in range(self.rng.randint(1, 5)))
                for _ in range(self.rng.randint(1, 6))]

    def pats(self, empty=True, kinds=None):
        kinds = kinds or ["tiny", "tiny3", "nest", "akb", "suffix_chain", "failchain", "failchain", "periodic", "periodic",
                          "fanout_small", "casey", "random_bytes", "dups3", "branchy", "branchy"]
        k = self.rng.choice(kinds)
        if k == "branchy":
            return self.branchy()
        if k == "dups3":
            ps = self.dups3()
            return ps if empty else ([p for p in ps if p] or [b"ab"])
        if k == "tiny":
            return self.tiny(b"ab", 4, 4, empty)
        if k == "tiny3":
            return self.tiny(b"abc", 5, 3, empty)
        if k == "nest":
            return self.nest(empty)
        if k == "akb":
            return self.akb()
        if k == "suffix_chain":
            return self.suffix_chain()
        if k == "periodic":
            return self.periodic()
        if k == "failchain":
            ps = self.failchain()
            return ps if empty else ([p for p in ps if p] or [b"ab"])
        if k == "fanout_small":
            return self.fanout(self.rng.choice([2, 3, 4, 5, 8, 9]))
        if k == "fanout":
            return self.fanout()
        if k == "casey":
            return self.casey()
        return self.random_bytes()

    # ---------------- haystacks ----------------
    def alphabet(self, pats, fold=False):
        s = set()
        for p in pats:
            s.update(p)
        if fold:
            for b in list(s):
                if 65 <= b <= 90:
                    s.add(b + 32)
                if 97 <= b <= 122:
                    s.add(b - 32)
        s = sorted(s)
        foreign = next(b for b in [120, 0, 255, 33] + list(range(256)) if b not in s)
        return bytes(s), foreign

    def hay(self, pats, maxlen=12, fold=False):
        alpha, foreign = self.alphabet(pats, fold)
        r = self.rng.random()
        n = self.rng.randint(0, maxlen)
        if r < 0.3 and pats and len(set(p[:1] for p in pats if p)) <= 2 and max(len(p) for p in pats) >= 3 and self.rng.random() < 0.5:
            # a run of the first byte of a pattern that is LONGER than the pattern's own run, then the rest of the pattern
            p = self.rng.choice([q for q in pats if q])
            run = 0
            while run < len(p) and p[run] == p[0]:
                run += 1
            out = bytes([foreign]) * self.rng.randint(0, 1) + p[:1] * (run + self.rng.randint(1, 3)) + p[run:] + bytes([foreign]) * self.rng.randint(0, 1)
            return out
        if r < 0.15 and pats:
            # a long pattern cut just before its end, then a foreign byte, then whole patterns (exercises long failure chains)
            p = max(pats, key=len)
            out = p[:-1] + bytes([foreign]) + b"".join(self.rng.choice(pats) for _ in range(2))
            return (bytes([foreign]) * self.rng.randint(0, 2) + out)[: maxlen + 8]
        if r < 0.4 or not pats:
            pool = alpha + bytes([foreign])
            return bytes(self.rng.choice(pool) for _ in range(n))
        # splice patterns and fragments
        out = b""
        while len(out) < n:
            p = self.rng.choice(pats)
            c = self.rng.random()
            if c < 0.5:
                out += p
            elif c < 0.7 and p:
                out += p[: self.rng.randint(0, len(p))]
            elif c < 0.85:
                out += bytes([foreign])
            else:
                out += bytes([self.rng.choice(alpha)]) if alpha else b""
            if not p and c < 0.7:
                out += bytes([foreign])
        if fold:
            out = bytes((b ^ 0x20) if (65 <= b <= 90 or 97 <= b <= 122) and self.rng.random() < 0.5 else b
                        for b in out)
        return out[: maxlen + 4]

    def span(self, n):
        r = self.rng.random()
        if r < 0.5:
            return 0, n
        s = self.rng.randint(0, n)
        e = self.rng.randint(s, n)
        if r > 0.97 and s > 0:
            return s, s - 1  # start = end + 1
        return s, e


def enum_words(alpha, maxlen, empty=True):
    out = [b""] if empty else []
    for n in range(1, maxlen + 1):
        for t in itertools.product(alpha, repeat=n):
            out.append(bytes(t))
    return out
