#!/usr/bin/env python3
"""Tie C: constants the model's decisions depend on, extracted from /repo/src on every run.
A constant that can no longer be found is a broken tie (reported by the caller)."""
import re, os, json

SRC = "/repo/src"


def read(rel):
    return open(os.path.join(SRC, rel)).read()


def extract():
    out, missing = {}, []
    # BYTE_FREQUENCIES[256]
    try:
        s = read("util/byte_frequencies.rs")
        body = s[s.index("BYTE_FREQUENCIES"):]
        body = body[body.index("=") + 1:]
        body = body[body.index("[") + 1: body.index("];")]
        body = re.sub(r"//[^\n]*", "", body)
        vals = [int(x) for x in re.findall(r"\b(\d+)\s*,", body)]
        if len(vals) != 256 or any(v > 255 for v in vals):
            missing.append("BYTE_FREQUENCIES (parsed %d entries)" % len(vals))
        else:
            out["freq"] = bytes(vals).hex()
    except Exception as e:
        missing.append("BYTE_FREQUENCIES: %s" % e)

    def const(rel, pattern, name, conv=int):
        try:
            m = re.search(pattern, read(rel))
            if not m:
                missing.append(name); return
            out[name] = conv(m.group(1))
        except Exception as e:
            missing.append("%s: %s" % (name, e))

    const("packed/api.rs", r"const PATTERN_LIMIT: usize = (\d+);", "PATTERN_LIMIT")
    const("packed/rabinkarp.rs", r"const NUM_BUCKETS: usize = (\d+);", "NUM_BUCKETS")
    const("util/buffer.rs", r"const DEFAULT_BUFFER_CAPACITY: usize = (\d+) \* \(1 << 10\);", "DEFAULT_BUFFER_CAPACITY_KB")
    const("util/buffer.rs", r"core::cmp::max\(min \* (\d+), DEFAULT_BUFFER_CAPACITY\)", "BUFFER_MIN_FACTOR")
    const("nfa/contiguous.rs", r"const MAX_SPARSE_TRANSITIONS: usize = (\d+);", "MAX_SPARSE_TRANSITIONS")
    const("ahocorasick.rs", r"patterns_len\(\) <= (\d+)", "AUTO_DFA_LIMIT")
    const("packed/teddy/builder.rs", r"patlimit && patterns\.len\(\) > (\d+)", "TEDDY_PATTERN_LIMIT")
    const("packed/teddy/builder.rs", r"mask_len == 1 && patterns\.len\(\) > (\d+)", "TEDDY_MASK1_LIMIT")
    const("packed/teddy/builder.rs", r"let beefy = patterns\.len\(\) > (\d+);", "TEDDY_BEEFY")
    const("util/prefilter.rs", r"if patlen <= (\d+)", "PREFILTER_PACKED_PATLEN")
    const("util/prefilter.rs", r"self\.rare_bytes\.rank_sum \+ (\d+)", "PREFILTER_RANK_SLACK")
    return out, missing


EXPECTED = {"PATTERN_LIMIT": 128, "NUM_BUCKETS": 64, "DEFAULT_BUFFER_CAPACITY_KB": 64, "BUFFER_MIN_FACTOR": 8,
            "MAX_SPARSE_TRANSITIONS": 127, "AUTO_DFA_LIMIT": 100, "TEDDY_PATTERN_LIMIT": 64, "TEDDY_MASK1_LIMIT": 16,
            "TEDDY_BEEFY": 32, "PREFILTER_PACKED_PATLEN": 16, "PREFILTER_RANK_SLACK": 50}

if __name__ == "__main__":
    o, m = extract()
    print(json.dumps({k: (v if k != "freq" else v[:16] + "...") for k, v in o.items()}, indent=1)); print("missing:", m)
