"""Per-property request generation.  Each generator returns a dict:
  reqs   : differential request lines (executed by harness and by acdrv)
  certs  : certificate request lines (harness dumps, acdrv checks)
  notes  : free-form distribution info for the evidence file
"""
import itertools
from gen import Gen, cfgs, CFG_LOW, CFG_TOP, CFG_ANCH, CFG_PRE, enum_words
from vlib import hx, hxlist, fmt_req


import os
THOROUGH_SCALE = int(os.environ.get("VERIF_THOROUGH_SCALE", "4"))


def qn(q, quick, thorough):
    """request counts: the thorough tier is scaled (default x4) so that a thorough run takes minutes, not seconds"""
    return quick if q else thorough * THOROUGH_SCALE


def _find_like(g, n, mks, ops, cfgl, anch=False, fold=False, empty=True, spans=True,
               earliest=False, maxhay=12, pat_kinds=None):
    reqs = []
    for _ in range(n):
        pats = g.pats(empty=empty, kinds=pat_kinds)
        mk = g.rng.choice(mks)
        f = fold if isinstance(fold, bool) else g.rng.random() < fold
        for _ in range(3):
            hay = g.hay(pats, maxhay, f)
            s, e = g.span(len(hay)) if spans else (0, len(hay))
            op = g.rng.choice(ops)
            kv = {"mk": mk, "pats": hxlist(pats), "hay": hx(hay), "s": s, "e": e}
            if f:
                kv["fold"] = 1
            if anch:
                kv["anch"] = 1
            if earliest:
                kv["earliest"] = 1
            if op == "ovl":
                kv["n"] = g.rng.randint(1, 6) + 2 * len(hay)
            kv["cfgs"] = cfgs(cfgl)
            reqs.append(fmt_req(op, kv))
    return reqs


def _enum_small(mks, ops, cfgl, alpha=b"ab", maxp=2, maxplen=2, maxhay=4, anch=False, stride=1, empty=True):
    """complete enumeration: all lists of <= maxp patterns of length <= maxplen
    over alpha (with the empty pattern), all haystacks <= maxhay, full span"""
    words = enum_words(alpha, maxplen, empty)
    hays = enum_words(alpha, maxhay)
    reqs = []
    k = 0
    for n in range(1, maxp + 1):
        for pats in itertools.product(words, repeat=n):
            for mk in mks:
                for hay in hays:
                    k += 1
                    if k % stride:
                        continue
                    for op in ops:
                        kv = {"mk": mk, "pats": hxlist(list(pats)), "hay": hx(hay)}
                        if anch:
                            kv["anch"] = 1
                        if op == "ovl":
                            kv["n"] = 3 + 3 * len(hay)
                        kv["cfgs"] = cfgs(cfgl)
                        reqs.append(fmt_req(op, kv))
    return reqs


def _certs(g, n, mks, fold=0.0, empty=True, pat_kinds=None, cfgl=None):
    cfgl = cfgl or ["nc.d.1.0.b", "nc.0.1.0.b", "c.d.1.0.b", "c.0.0.0.b", "c.1.1.0.b", "c.9.0.0.b",
                    "dfa.d.1.0.b", "dfa.d.0.0.b", "dfa.d.1.0.u", "dfa.d.0.0.a"]
    out = []
    for _ in range(n):
        pats = g.pats(empty=empty, kinds=pat_kinds)
        mk = g.rng.choice(mks)
        kv = {"mk": mk, "pats": hxlist(pats)}
        if g.rng.random() < fold:
            kv["fold"] = 1
        kv["cfgs"] = cfgs(cfgl)
        out.append(fmt_req("cert", kv))
    return out


def fanout_exact(g, width, prefix_len, with_prefix_pattern=False):
    """exactly `width` distinct next bytes under one prefix (the encodings of a state switch at fixed fan-outs:
    1 / 2..127 / 128.. for the contiguous NFA, and the sentinel kinds sit just below 256)"""
    pre = bytes(g.rng.choice(b"xyz") for _ in range(prefix_len))
    nexts = g.rng.sample(range(256), width)
    ps = [pre + bytes([b]) for b in nexts]
    if with_prefix_pattern and pre:
        ps.insert(g.rng.randrange(len(ps)), pre)
    return ps


FANOUT_EDGE_WIDTHS = [1, 2, 126, 127, 128, 129, 252, 253, 254, 255, 256]


def _fixed_certs(mks, lists, cfgl=None, fold=False):
    cfgl = cfgl or ["nc.d.1.0.b", "c.d.1.0.b", "c.0.0.0.b", "dfa.d.1.0.b", "dfa.d.0.0.u"]
    out = []
    for pats in lists:
        for mk in mks:
            kv = {"mk": mk, "pats": hxlist(pats)}
            if fold:
                kv["fold"] = 1
            kv["cfgs"] = cfgs(cfgl)
            out.append(fmt_req("cert", kv))
    return out


CORPUS_LISTS = [
    [b"zabx", b"abq", b"b"], [b"abcx", b"bcq", b"c", b"bc"], [b"mzab", b"zaq", b"ab", b"b"],
    [b"abc", b""], [b"ab", b""], [b"", b"ab"], [b"", b"b", b"abb"], [b"abc", b"bc", b"c"],
    [b"a", b"ab", b"abc"], [b"abc", b"ab", b"a"], [b"ab", b"ab"], [b"abcd", b"bc", b"cd", b"d"],
    [b"aab", b"ab", b"b", b"aa"], [b"ba", b"a", b""], [b"samwise", b"sam"], [b"a", b"a", b""],
    # one pattern supplied three and more times (a state that OWNS a match list of length >= 3, built by repeated
    # add_match; with case folding also "Ab" / "aB" / "AB"), interleaved with others
    [b"ab", b"ab", b"xab", b"ab", b"b", b"ab"], [b"a", b"a", b"a"], [b"Ab", b"aB", b"AB", b"ab", b"b"], [b"", b"", b"", b"a"],
]


TOP_CFGS = ["tnc.d.1.0.b", "tnc.0.1.0.u", "tc.d.1.0.u", "tc.0.0.0.b", "tc.3.1.0.a", "tdfa.d.1.0.u", "tdfa.d.0.0.a", "tdfa.d.1.0.b",
            "auto.d.1.0.u", "auto.d.1.0.b", "auto.d.0.0.a", "auto.d.1.1.u", "tc.d.1.1.b", "tdfa.d.1.1.u"]


def _top_reqs(g, n, mks, ops, earliest=0):
    """The capstone model itself (TopLevel.lean: checked transcription of AhoCorasickBuilder::build + the public method
    on the built automaton) against the real AhoCorasick methods, for every top-level configuration"""
    out = []
    for _ in range(n):
        pats = g.pats() if g.rng.random() < 0.7 else pre_pats(g)
        mk = g.rng.choice(mks)
        hay = g.hay(pats, 14)
        s0, e0 = g.span(len(hay))
        op = g.rng.choice(ops)
        kv = {"mk": mk, "pats": hxlist(pats), "hay": hx(hay), "s": s0, "e": e0}
        if g.rng.random() < 0.3:
            kv["anch"] = 1
        if g.rng.random() < 0.2:
            kv["fold"] = 1
        if earliest and op == "topfind" and g.rng.random() < earliest:
            kv["earliest"] = 1
        if op == "topovl":
            kv["n"] = 3 + (len(pats) + 1) * (len(hay) + 1) if g.rng.random() < 0.5 else g.rng.randint(1, 6)
        kv["cfgs"] = cfgs(TOP_CFGS)
        out.append(fmt_req(op, kv))
    return out


def _rawnnfa_reqs(g, n, mks):
    """Tie for the memory-level transcription of the compiler (L1cMemCompile): the raw `states` / `sparse` / `matches`
    vectors of the real noncontiguous NFA just before `shuffle` (hook H5) against `MemNfa.compile`, cell for cell"""
    out = []
    for pats in CORPUS_LISTS[:8]:
        for mk in mks:
            out.append(fmt_req("rawnnfa", {"mk": mk, "pats": hxlist(pats)}))
    for _ in range(n):
        pats = g.pats(kinds=["tiny", "tiny3", "nest", "akb", "suffix_chain", "failchain", "periodic", "fanout_small", "casey", "random_bytes"])
        kv = {"mk": g.rng.choice(mks), "pats": hxlist(pats)}
        if g.rng.random() < 0.3:
            kv["fold"] = 1
        out.append(fmt_req("rawnnfa", kv))
    return out


def _many_dup_packed(g, n, cf, mks=("ll", "lf", "ll")):
    """21..60 patterns of mixed lengths for which the builder picks the packed prefilter, several of them supplied two
    or three times at scattered positions (a confirming prefilter must report the copy supplied FIRST: the packed
    searcher's own ordering of equal-length patterns decides), on long (Teddy) and short (Rabin-Karp) haystacks"""
    out = []
    for _ in range(n):
        k = g.rng.choice([21, 22, 25, 30, 40, 60])
        seen, pats = set(), []
        while len(pats) < k:
            w = g.word(b"abcdefghijklmnop", 2, 6)
            if w not in seen:
                seen.add(w); pats.append(w)
        dups = g.rng.sample(pats, g.rng.randint(2, 6))
        for d in dups:
            for _ in range(g.rng.choice([1, 1, 2])):
                pats.insert(g.rng.randrange(len(pats) + 1), d)
        if g.rng.random() < 0.4:
            # bytes in the upper half (the high-nybble tables of slim AND fat Teddy: 33..64 patterns select the fat one)
            tr = {c: g.rng.choice([c, c | 0x80, c ^ 0xF0]) for c in b"abcdefghijklmnopz"}
            if len(set(tr.values())) == len(tr):
                pats = [bytes(tr.get(c, c) for c in p0) for p0 in pats]
                dups = [bytes(tr.get(c, c) for c in p0) for p0 in dups]
        mk = g.rng.choice(list(mks))
        for _ in range(2):
            picks = [g.rng.choice(dups) for _ in range(3)]
            pad = b"z" * g.rng.choice([0, 2, 19, 40])
            hay = pad + pad.join(picks) + b"z" * g.rng.choice([0, 1, 30])
            out.append(fmt_req(g.rng.choice(["find", "iter", "iter"]), {"mk": mk, "pats": hxlist(pats), "hay": hx(hay), "cfgs": cfgs(cf)}))
    return out


def gen_C01(tier, seed):
    g = Gen(seed)
    q = tier == "quick"
    cf = CFG_LOW + CFG_TOP
    reqs = _rawnnfa_reqs(g, qn(q, 40, 400), ["lf", "ll"]) + _top_reqs(g, qn(q, 60, 600), ["lf", "ll"], ["topfind", "topiter"])
    for pats in CORPUS_LISTS:
        for mk in ("lf", "ll"):
            for hay in (b"abx", b"aab", b"abcabc", b"xabcd", b"aabab", b"samwise"):
                for op in ("find", "iter"):
                    reqs.append(fmt_req(op, {"mk": mk, "pats": hxlist(pats), "hay": hx(hay), "cfgs": cfgs(cf)}))
    reqs += _enum_small(["lf", "ll"], ["find", "iter"], ["nc.d.1.0.b", "c.0.0.0.b", "dfa.d.1.0.u"],
                        maxp=2, maxplen=2, maxhay=(3 if q else 5), stride=1)
    if not q:
        reqs += _enum_small(["lf", "ll"], ["find", "iter"], ["nc.d.1.0.b", "dfa.d.1.0.u"],
                            maxp=3, maxplen=2, maxhay=4, stride=3)
    reqs += _find_like(g, qn(q, 250, 2500), ["lf", "ll"], ["find", "iter"], cf)
    # the default builder enables prefilters: lists every prefilter variant accepts, with a pattern shadowed by an
    # earlier prefix in the middle (pattern ids reported through a confirming prefilter), against the same definition
    for _ in range(qn(q, 60, 600)):
        pats = pre_pats(g)
        if len(pats) >= 2 and g.rng.random() < 0.7:
            i = g.rng.randrange(len(pats))
            pats = pats[:i + 1] + [pats[i] + g.word(b"abcdefgh", 1, 3)] + pats[i + 1:]
        mk = g.rng.choice(["lf", "ll"])
        for _ in range(2):
            hay = pre_hay(g, pats)
            reqs.append(fmt_req(g.rng.choice(["find", "iter"]), {"mk": mk, "pats": hxlist(pats), "hay": hx(hay),
                                                                "cfgs": cfgs(CFG_PRE + ["auto.d.1.1.b"])}))
    reqs += _many_dup_packed(g, qn(q, 30, 300), CFG_PRE + ["auto.d.1.1.b"])
    certs = _fixed_certs(["lf", "ll"], CORPUS_LISTS) + _certs(g, qn(q, 150, 600), ["lf", "ll"])
    return {"reqs": reqs, "certs": certs, "first": True, "gen": g, "modes": "0", "l1c": True, "needs_cpu": True}


def gen_C02(tier, seed):
    g = Gen(seed)
    q = tier == "quick"
    cf = CFG_LOW + CFG_TOP
    reqs = _rawnnfa_reqs(g, qn(q, 40, 400), ["std"]) + _top_reqs(g, qn(q, 60, 600), ["std"], ["topfind", "topiter"])
    for pats in CORPUS_LISTS:
        for hay in (b"abx", b"aab", b"abcabc", b"xabcd", b"aabab"):
            for op in ("find", "iter"):
                reqs.append(fmt_req(op, {"mk": "std", "pats": hxlist(pats), "hay": hx(hay), "cfgs": cfgs(cf)}))
    reqs += _enum_small(["std"], ["find", "iter"], ["nc.d.1.0.b", "c.0.0.0.b", "dfa.d.1.0.u"],
                        maxp=2, maxplen=2, maxhay=(3 if q else 5))
    reqs += _find_like(g, qn(q, 250, 2500), ["std"], ["find", "iter"], cf)
    # the default builder enables prefilters (standard semantics: memmem / start bytes / rare bytes): every iterator step
    # after the first is a search from a non-zero span start
    for _ in range(qn(q, 80, 800)):
        pats = pre_pats(g)
        for _ in range(2):
            hay = pre_hay(g, pats)
            kv = {"mk": "std", "pats": hxlist(pats), "hay": hx(hay), "cfgs": cfgs(CFG_PRE + ["auto.d.1.1.b"])}
            op = g.rng.choice(["find", "iter", "iter"])
            if op == "find" and len(hay) > 2:
                kv["s"] = g.rng.randint(1, len(hay) - 1); kv["e"] = g.rng.randint(kv["s"], len(hay))
            reqs.append(fmt_req(op, kv))
    certs = _fixed_certs(["std"], CORPUS_LISTS) + _certs(g, qn(q, 150, 600), ["std"])
    return {"reqs": reqs, "certs": certs, "first": True, "gen": g, "modes": "0", "l1c": True}


def gen_C03(tier, seed):
    g = Gen(seed)
    q = tier == "quick"
    cf = CFG_LOW + ["tnc.d.1.0.b", "tdfa.d.1.0.u", "auto.d.1.0.u"]
    reqs = _rawnnfa_reqs(g, qn(q, 30, 300), ["std"]) + _top_reqs(g, qn(q, 60, 600), ["std", "std", "std", "lf"], ["topovl"])
    for pats in CORPUS_LISTS:
        for hay in (b"ab", b"abx", b"aab", b"abcabc", b"xabcd", b"aabab"):
            reqs.append(fmt_req("ovl", {"mk": "std", "pats": hxlist(pats), "hay": hx(hay),
                                        "n": 4 + (len(pats) + 1) * (len(hay) + 1), "cfgs": cfgs(cf)}))
            reqs.append(fmt_req("ovliter", {"mk": "std", "pats": hxlist(pats), "hay": hx(hay), "cfgs": cfgs(cf)}))
    reqs += _enum_small(["std"], ["ovl", "ovliter"], ["nc.d.1.0.b", "c.0.0.0.b", "dfa.d.1.0.u"],
                        maxp=2, maxplen=2, maxhay=(3 if q else 4))
    reqs += _find_like(g, qn(q, 250, 2500), ["std"], ["ovl", "ovliter"], cf, fold=0.25)
    # "each occurrence once ... then keeps reporting nothing" must also hold when a prefilter drives the loop
    reqs += _resume_after_none(g, qn(q, 40, 400), ["nc.d.1.1.b", "c.d.1.1.b", "dfa.d.1.1.u", "auto.d.1.1.u", "nc.d.1.0.b"])
    certs = _fixed_certs(["std"], CORPUS_LISTS) + _fixed_certs(["std"], CORPUS_LISTS[:6], fold=True) + \
        _certs(g, qn(q, 40, 400), ["std"], fold=0.3)
    return {"reqs": reqs, "certs": certs, "first": False, "gen": g, "modes": "0", "l1c": True}


def gen_C04(tier, seed):
    g = Gen(seed)
    q = tier == "quick"
    cf = CFG_LOW + CFG_TOP
    reqs = _find_like(g, qn(q, 150, 1500), ["std", "lf", "ll"], ["find", "iter"], cf, fold=0.2)
    reqs += _find_like(g, qn(q, 60, 600), ["std"], ["ovl", "ovliter"], cf, fold=0.2)
    reqs += _find_like(g, qn(q, 60, 600), ["std", "lf", "ll"], ["find", "iter"], CFG_ANCH, anch=True)
    allc = ["nc.d.1.0.b", "nc.0.1.0.b", "nc.9.1.0.b", "c.d.1.0.b", "c.0.0.0.b", "c.0.1.0.b", "c.1.0.0.b",
            "c.2.1.0.b", "c.3.0.0.b", "c.9.1.0.b", "c.9.0.0.b",
            "dfa.d.1.0.b", "dfa.d.0.0.b", "dfa.d.1.0.u", "dfa.d.0.0.u", "dfa.d.1.0.a", "dfa.d.0.0.a"]
    kinds = ["tiny", "tiny3", "nest", "akb", "suffix_chain", "fanout", "fanout", "casey", "random_bytes"]
    certs = _certs(g, qn(q, 60, 600), ["std", "lf", "ll"], fold=0.25, pat_kinds=kinds, cfgl=allc)
    edge = [fanout_exact(g, w, pl, wp) for w in (FANOUT_EDGE_WIDTHS if not q else [127, 128, 253, 254, 255, 256])
            for (pl, wp) in ((1, False), (3, True))]
    certs += _fixed_certs(["std", "ll"] if q else ["std", "lf", "ll"], edge, cfgl=allc)
    # C04 compares configurations with each other (reference: the noncontiguous NFA), never with the model:
    # a behaviour shared by all kinds is not a C04 matter.
    for i, r in enumerate(reqs):
        if "cfgs=nc.d.1.0.b" not in r:
            reqs[i] = r.replace("cfgs=", "cfgs=nc.d.1.0.b;")
    return {"reqs": reqs, "certs": certs, "first": False, "pair_only": True, "gen": g, "ref_cfg": "nc.d.1.0.b"}


def gen_C09(tier, seed):
    g = Gen(seed)
    q = tier == "quick"
    reqs = []
    for pats in CORPUS_LISTS:
        for mk in ("std", "lf", "ll"):
            for hay, s in ((b"abc", 0), (b"xabc", 1), (b"abcabc", 0), (b"aab", 1), (b"ab", 0)):
                for op in ("find", "iter"):
                    reqs.append(fmt_req(op, {"mk": mk, "pats": hxlist(pats), "hay": hx(hay), "s": s,
                                             "anch": 1, "cfgs": cfgs(CFG_ANCH)}))
                if mk == "std":
                    reqs.append(fmt_req("ovl", {"mk": mk, "pats": hxlist(pats), "hay": hx(hay), "s": s,
                                                "anch": 1, "n": 4 + (len(pats) + 1) * (len(hay) + 1),
                                                "cfgs": cfgs(CFG_ANCH)}))
    reqs += _enum_small(["std", "lf", "ll"], ["find", "iter"], ["nc.d.1.0.b", "c.0.0.0.b", "dfa.d.1.0.a"],
                        maxp=2, maxplen=2, maxhay=(3 if q else 4), anch=True)
    reqs += _enum_small(["std"], ["ovl"], ["nc.d.1.0.b", "c.0.0.0.b", "dfa.d.1.0.a"],
                        maxp=2, maxplen=2, maxhay=3, anch=True)
    reqs += _find_like(g, qn(q, 200, 2000), ["std", "lf", "ll"], ["find", "iter"], CFG_ANCH, anch=True)
    reqs += _find_like(g, qn(q, 100, 1000), ["std"], ["ovl"], CFG_ANCH, anch=True)
    # anchored AND case-insensitive: the anchored start state needs the transitions of both letter cases; an occurrence
    # spelt in the other case begins exactly at the search start (every span start, `iter` continuing after it)
    for _ in range(qn(q, 80, 800)):
        pats = g.casey() if g.rng.random() < 0.6 else [p for p in g.pats() if p] or [b"ab"]
        pre = bytes(g.rng.choice(b"xyz") for _ in range(g.rng.randint(0, 3)))
        body = b"".join(bytes((c ^ 0x20) if (65 <= c <= 90 or 97 <= c <= 122) and g.rng.random() < 0.7 else c for c in g.rng.choice(pats))
                        for _ in range(g.rng.randint(1, 3)))
        hay = pre + body + bytes(g.rng.choice(b"xyz") for _ in range(g.rng.randint(0, 2)))
        mk = g.rng.choice(["std", "lf", "ll"])
        op = g.rng.choice(["find", "iter", "ovl"] if mk == "std" else ["find", "iter"])
        kv = {"mk": mk, "pats": hxlist(pats), "hay": hx(hay), "s": len(pre), "anch": 1, "fold": 1, "cfgs": cfgs(CFG_ANCH)}
        if op == "ovl":
            kv["n"] = 4 + (len(pats) + 1) * (len(hay) + 1)
        reqs.append(fmt_req(op, kv))
    certs = _fixed_certs(["std", "lf", "ll"], CORPUS_LISTS,
                         cfgl=["nc.d.1.0.b", "c.0.0.0.b", "dfa.d.1.0.b", "dfa.d.0.0.a"])
    certs += _certs(g, qn(q, 30, 300), ["std", "lf", "ll"], fold=0.3,
                    cfgl=["nc.d.1.0.b", "c.d.1.0.b", "c.0.0.0.b", "dfa.d.1.0.b", "dfa.d.0.0.a"])
    return {"reqs": reqs, "certs": certs, "first": "bykind", "gen": g, "modes": "1"}


def gen_C11(tier, seed):
    g = Gen(seed)
    q = tier == "quick"
    cf = CFG_LOW + CFG_TOP + CFG_PRE
    kinds = ["casey", "casey", "tiny", "dups3"]
    reqs = []
    # "patterns differing only in case stay distinct patterns": three and more spellings of one word, every one reported
    # with its own id by the overlapping search
    for _ in range(qn(q, 40, 400)):
        pats = g.dups3()
        hay = g.hay(pats, 10, True)
        reqs.append(fmt_req(g.rng.choice(["ovl", "ovliter"]), {"mk": "std", "pats": hxlist(pats), "hay": hx(hay), "fold": 1,
                                                               "n": 4 + (len(pats) + 1) * (len(hay) + 1), "cfgs": cfgs(CFG_LOW + ["auto.d.1.1.u"])}))
    # case-insensitive searchers with each prefilter variant (start / rare bytes get both cases)
    for _ in range(qn(q, 150, 1500)):
        pats = pre_pats(g)
        mk = g.rng.choice(["std", "lf", "ll"])
        for _ in range(2):
            hay = pre_hay(g, pats, True)
            s0, e0 = g.span(len(hay))
            reqs.append(fmt_req(g.rng.choice(["find", "iter"]), {"mk": mk, "pats": hxlist(pats), "hay": hx(hay), "s": s0, "e": e0,
                                                              "fold": 1, "cfgs": cfgs(CFG_PRE + ["nc.d.1.0.b"])}))
    # every byte value against every boundary pattern byte
    for pb in (0x40, 0x41, 0x5A, 0x5B, 0x60, 0x61, 0x7A, 0x7B, 0xC1, 0xE1, 0x30):
        for hb in range(256):
            reqs.append(fmt_req("find", {"mk": "std", "pats": hx(bytes([pb])), "hay": hx(bytes([hb])),
                                         "fold": 1, "cfgs": cfgs(["nc.d.1.0.b", "c.d.1.0.b", "dfa.d.1.0.u"])}))
    reqs += _find_like(g, qn(q, 200, 2000), ["std", "lf", "ll"], ["find", "iter"], cf, fold=True,
                       pat_kinds=kinds)
    reqs += _find_like(g, qn(q, 60, 600), ["std"], ["ovl", "ovliter"], cf, fold=True, pat_kinds=kinds)
    reqs += _find_like(g, qn(q, 60, 600), ["std", "lf", "ll"], ["find", "iter"], CFG_ANCH, anch=True,
                       fold=True, pat_kinds=kinds)
    fixed = [[b"aB", b"Ab"], [b"A"], [b"a@", b"`A"], [b"[z", b"{Z"], [bytes([0xC1]), bytes([0xE1])], [b"Az", b"aZ", b"AZ"],
             [b"ab", b"AB", b"Ab", b"aB", b"b"]]
    certs = _fixed_certs(["std", "lf", "ll"], fixed, fold=True)
    certs += _certs(g, qn(q, 30, 300), ["std", "lf", "ll"], fold=1.0, pat_kinds=kinds)
    return {"reqs": reqs, "certs": certs, "first": "bykind", "gen": g}


def gen_C14(tier, seed):
    g = Gen(seed)
    q = tier == "quick"
    cf = CFG_LOW + CFG_TOP + CFG_PRE
    reqs = _find_like(g, qn(q, 200, 2000), ["std", "lf", "ll"], ["ismatch"], cf)
    reqs += _top_reqs(g, qn(q, 60, 600), ["std", "lf", "ll"], ["topismatch"])
    # `earliest(true)` on every kind of searcher, through the capstone model (TopLevel2: Top_find_earliest)
    reqs += _top_reqs(g, qn(q, 60, 600), ["std", "lf", "ll", "lf", "ll"], ["topfind"], earliest=0.8)
    # "true iff some pattern occurs" also with the default prefilters (a confirming prefilter must not invent a match)
    reqs += _near_miss_reqs(g, qn(q, 80, 800), ["ismatch", "find"], CFG_PRE + ["auto.d.1.1.b"])
    reqs += _find_like(g, qn(q, 100, 1000), ["std", "lf", "ll"], ["ismatch"], CFG_ANCH, anch=True)
    reqs += _find_like(g, qn(q, 200, 2000), ["lf", "ll", "std"], ["find"], cf, earliest=True)
    reqs += _find_like(g, qn(q, 100, 1000), ["lf", "ll"], ["find"], CFG_ANCH, anch=True, earliest=True)
    reqs += _enum_small(["lf", "ll"], ["ismatch"], ["nc.d.1.0.b", "dfa.d.1.0.u"], maxp=2, maxplen=2,
                        maxhay=(3 if q else 4))
    # is_match / earliest read the same tables as find: certify them too (first-pattern strength, both anchorings)
    certs = _fixed_certs(["std", "lf", "ll"], CORPUS_LISTS) + _certs(g, qn(q, 30, 300), ["std", "lf", "ll"], fold=0.2)
    return {"reqs": reqs, "certs": certs, "first": True, "gen": g}


def gen_C16(tier, seed):
    g = Gen(seed)
    q = tier == "quick"
    kinds = ["tiny", "tiny3", "nest", "akb", "suffix_chain", "fanout", "casey", "random_bytes"]
    allc = ["nc.d.1.0.b", "nc.0.1.1.b", "c.d.1.0.b", "c.0.0.1.b", "c.2.1.0.b", "c.9.0.0.b",
            "dfa.d.1.0.b", "dfa.d.0.1.b", "dfa.d.1.0.u", "dfa.d.0.0.a", "dfa.d.1.1.u"]
    certs = _fixed_certs(["std", "lf", "ll"], CORPUS_LISTS, cfgl=allc)
    certs += _certs(g, qn(q, 40, 400), ["std", "lf", "ll"], fold=0.2, pat_kinds=kinds, cfgl=allc)
    reqs = []
    for _ in range(qn(q, 150, 1500)):
        pats = g.pats()
        mk = g.rng.choice(["std", "lf", "ll"])
        hay = g.hay(pats, 12)
        reqs.append(fmt_req("recipe", {"mk": mk, "pats": hxlist(pats), "hay": hx(hay),
                                       "cfgs": cfgs(["nc.d.1.0.b", "c.d.1.0.b", "c.0.0.0.b", "dfa.d.1.0.u", "dfa.d.0.0.b"])}))
    # "... and matches the built-in search": the built-in search with the automaton's own prefilter (leftmost lists
    # every prefilter variant accepts, with a shadowed pattern in the middle) and the recipe on the same inputs
    for _ in range(qn(q, 90, 900)):
        pats = pre_pats(g) if g.rng.random() < 0.55 else packed_eligible(g)
        if len(pats) >= 2 and g.rng.random() < 0.7:
            i = g.rng.randrange(len(pats))
            pats = pats[:i + 1] + [pats[i] + g.word(b"abcdefgh", 1, 3)] + pats[i + 1:]
        if g.rng.random() < 0.3:
            pats = hi_translate(g, pats)
        mk = g.rng.choice(["lf", "ll", "std"])
        hay = pre_hay(g, pats)
        if len(hay) < 40 and g.rng.random() < 0.6:
            # long enough for every Teddy variant (minimum 16/32 + fingerprint bytes), a genuine occurrence near the end
            hay = hay + bytes([120]) * (40 - len(hay)) + g.rng.choice(pats) + b"x"
        lowpf = ["nc.d.1.1.b", "c.d.1.1.b", "dfa.d.1.1.u"]
        reqs.append(fmt_req("recipe", {"mk": mk, "pats": hxlist(pats), "hay": hx(hay), "cfgs": cfgs(lowpf)}))
        reqs.append(fmt_req("find", {"mk": mk, "pats": hxlist(pats), "hay": hx(hay), "cfgs": cfgs(lowpf)}))
    return {"reqs": reqs, "certs": certs, "first": False, "gen": g, "contract": True, "l1c": True, "needs_cpu": True}


STREAM_CFGS = ["nc.d.1.0.b", "c.d.1.0.b", "c.0.0.0.b", "dfa.d.1.0.u", "dfa.d.0.0.b", "tnc.d.1.0.u", "tdfa.d.1.0.u",
               "auto.d.1.0.u", "auto.d.1.1.b"]
STREAM_PATS = [[b"ab"], [b"a"], [b"aa"], [b"ab", b"b"], [b"abc", b"bc", b"c"], [b"aab", b"ab", b"b"], [b"ba", b"ab"],
               [b"abab", b"ba"], [b"a", b"b"], [b"abcab"], [b"bb", b"abb", b"b"], [b"aaa", b"aa"]]


STREAM_OPS = ["stream", "streamrep", "streamrepwith"]
# kinds of injected read failures: the stream API surfaces every error of the reader, whatever its kind
RKINDS = ["other", "other", "interrupted", "interrupted", "wouldblock", "eof"]


def compositions(n):
    """all ways to split n bytes into positive read sizes"""
    if n == 0:
        return [[]]
    out = []
    for mask in range(1 << (n - 1)):
        parts, cur = [], 1
        for i in range(n - 1):
            if mask >> i & 1:
                parts.append(cur); cur = 1
            else:
                cur += 1
        parts.append(cur)
        out.append(parts)
    return out


def _stream_reqs(g, tier, op, faults=False):
    q = tier == "quick"
    reqs = []

    def mk(pats, data, sched, spare, extra=None, mkind="std", cf=None):
        kv = {"mk": mkind, "pats": hxlist(pats), "hay": hx(data),
              "sched": ",".join(map(str, sched)) if sched else "."}
        if spare is not None:
            kv["spare"] = spare
        if op != "stream":
            r = [bytes([65 + i]) * g.rng.choice([0, 1, 3]) for i in range(len(pats))]
            kv["repl"] = hxlist(r)
        if extra:
            kv.update(extra)
        kv["cfgs"] = cfgs(cf or STREAM_CFGS)
        return fmt_req(op, kv)

    # complete enumeration of read schedules on short streams
    maxlen = (5 if q else 8)
    streams = enum_words(b"ab", maxlen, empty=True)
    for pats in STREAM_PATS[: 6 if q else len(STREAM_PATS)]:
        for data in streams:
            comps = compositions(len(data))
            if q and len(comps) > 4:
                comps = g.rng.sample(comps, 4)
            elif len(comps) > 24:
                comps = g.rng.sample(comps, 24)
            for sched in comps:
                spare = g.rng.choice([1, 1, 2, 3, max(len(p) for p in pats), 8 * max(len(p) for p in pats)])
                extra = None
                if faults:
                    if op == "stream" or g.rng.random() < 0.5:
                        extra = {"rfail": g.rng.randint(0, len(sched) + 1), "rkind": g.rng.choice(RKINDS)}
                        if op == "stream" and g.rng.random() < 0.5:
                            extra["resume"] = 1     # the caller keeps pulling after the error item
                    else:
                        extra = {"wlimit": g.rng.randint(0, len(data) + 2)}
                reqs.append(mk(pats, data, sched, spare, extra,
                               cf=["nc.d.1.0.b", "c.0.0.0.b", "dfa.d.1.0.u", "auto.d.1.0.u"]))
    # random schedules on longer streams
    for _ in range(qn(q, 150, 2000)):
        pats = g.pats(empty=False, kinds=["tiny", "tiny3", "nest", "akb", "suffix_chain"])
        pats = [p for p in pats if p] or [b"ab"]
        data = g.hay(pats, g.rng.choice([10, 30, 80, 200]))
        sched, left = [], len(data)
        while left > 0:
            n = g.rng.choice([1, 1, 2, 3, 5, 8, 64, 1000])
            sched.append(n); left -= n
        mx = max(len(p) for p in pats)
        spare = g.rng.choice([1, 1, 2, 3, mx, 7 * mx])
        extra = None
        if faults:
            if op == "stream" or g.rng.random() < 0.5:
                extra = {"rfail": g.rng.randint(0, len(sched) + 2), "rkind": g.rng.choice(RKINDS)}
                if op == "stream" and g.rng.random() < 0.5:
                    extra["resume"] = 1
            else:
                extra = {"wlimit": g.rng.randint(0, len(data) + 3)}
        if g.rng.random() < 0.2:
            # ASCII case-insensitive searcher: the chunks carry the RAW bytes of the stream
            extra = dict(extra or {}); extra["fold"] = 1
            pats = [bytes((b ^ 0x20) if 97 <= b <= 122 and g.rng.random() < 0.5 else b for b in p) for p in pats]
            data = bytes((b ^ 0x20) if 97 <= b <= 122 and g.rng.random() < 0.5 else b for b in data)
        reqs.append(mk(pats, data, sched, spare, extra))
    # production buffer size: match straddling the 64 KiB boundary at every alignment
    for k in range(0, (4 if q else 12)):
        pats = [b"abc", b"bcd"]
        data = bytearray(b"x" * (65536 + 20))
        pos = 65536 - 3 + k % 6
        data[pos:pos + 3] = b"abc"
        data[10:13] = b"bcd"
        sched = [65536] if k % 2 == 0 else [40000, 25536, 7, 1000]
        extra = ({"rfail": g.rng.randint(0, 3), "rkind": g.rng.choice(RKINDS)} if faults else None)
        reqs.append(mk(pats, bytes(data), sched, None, extra, cf=["nc.d.1.0.b", "dfa.d.1.0.u", "auto.d.1.0.u"]))
    # rejected configurations
    reqs.append(mk([b"ab", b""], b"xabx", [2, 2], 1))
    reqs.append(mk([b"ab"], b"xabx", [2, 2], 1, mkind="lf"))
    return reqs


def _streamself_reqs(g, tier, repl):
    """stream vs in-memory search of the same real searcher with a synthetic long pattern (the `min * factor`
    branch of the capacity, rolls of tens of kilobytes); the model's answer is `same` by C07/C08"""
    out = []
    for big in ([9000, 70000] if tier == "quick" else [9000, 70000, 300000, 600000]):
        for sched in ("4099", "1,65536,3,100000", "70001"):
            parts = ["7878", "B", "78786e6565646c65", "B", "7171", "6e6565646c65", "B"]
            g.rng.shuffle(parts)
            k = {"mk": "std", "pats": "6e6565646c65,6565", "big": big, "parts": ",".join(parts), "sched": sched,
                 "cfgs": "nc.d.1.0.b;tc.d.1.0.u"}
            if repl:
                k["repl"] = "41,_,4243"
            out.append(fmt_req("streamself", k))
    return out


def _streamself_small(g, n, repl):
    """the property as stated – stream search = in-memory search of the same searcher – on the real code itself, with the
    default prefilters (which only the in-memory search uses) on lists every prefilter variant accepts"""
    out = []
    for _ in range(n):
        pats = [p for p in pre_pats(g) if p] or [b"ab"]
        if g.rng.random() < 0.25:
            pats = hi_translate(g, pats)
        hay = pre_hay(g, pats)
        sched, left = [], len(hay)
        while left > 0:
            k = g.rng.choice([1, 2, 3, 7, 16, 64])
            sched.append(k); left -= k
        kv = {"mk": "std", "pats": hxlist(pats), "parts": hx(hay), "sched": ",".join(map(str, sched)) if sched else ".",
              "cfgs": cfgs(["auto.d.1.1.u", "tc.d.1.1.u", "tnc.d.1.1.b", "tdfa.d.1.1.u", "nc.d.1.1.b"])}
        if repl:
            kv["repl"] = hxlist([bytes([65 + i % 26]) * (i % 3) for i in range(len(pats))])
        out.append(fmt_req("streamself", kv))
    return out


STREAM_OPS_ALL = STREAM_OPS + ["top" + o for o in STREAM_OPS]


def _top_stream(g, reqs, n):
    """the same stream requests, answered by the capstone model (TopLevel / TopLevel2: the builder's record and the gates
    composed with the stream engine) and by the real methods of searchers built through every top-level configuration"""
    small = [r for r in reqs if len(r) < 2000 and r.split(" ", 1)[0] in STREAM_OPS]
    out = []
    for r in g.rng.sample(small, min(n, len(small))):
        head = r.split(" cfgs=")[0].replace(" resume=1", "")   # (resumption is modelled below the top level only)
        out.append("top" + head + " cfgs=" + cfgs(g.rng.sample(TOP_CFGS, 6)))
    return out


def gen_C07(tier, seed):
    g = Gen(seed)
    base = _stream_reqs(g, tier, "stream")
    return {"reqs": base + _streamself_reqs(g, tier, False) +
            _streamself_small(g, 120 if tier == "quick" else 1500, False) + _top_stream(g, base, 150 if tier == "quick" else 2000),
            "certs": [], "gen": g, "needs_consts": STREAM_OPS_ALL, "needs_cap": STREAM_OPS_ALL}


def gen_C08(tier, seed):
    g = Gen(seed)
    base = _stream_reqs(g, tier, "streamrep") + _stream_reqs(g, tier, "streamrepwith")
    return {"reqs": base +
            _streamself_reqs(g, tier, True) + _streamself_small(g, 120 if tier == "quick" else 1500, True) +
            _top_stream(g, base, 200 if tier == "quick" else 2500), "certs": [], "gen": g,
            "needs_consts": STREAM_OPS_ALL, "needs_cap": STREAM_OPS_ALL}


def gen_C18(tier, seed):
    g = Gen(seed)
    reqs = _stream_reqs(g, tier, "stream", faults=True) + _stream_reqs(g, tier, "streamrep", faults=True) + \
        _stream_reqs(g, tier, "streamrepwith", faults=True)
    reqs = reqs + _top_stream(g, reqs, 200 if tier == "quick" else 2500)
    return {"reqs": reqs, "certs": [], "gen": g, "needs_consts": STREAM_OPS_ALL, "needs_cap": STREAM_OPS_ALL}


# (continuation bytes at both ends of their range, 0x80 and 0xBF, in every position of 2-, 3- and 4-byte characters)
UTF8_CHARS = ["a", "b", "é", "ß", "€", "中", "😀", "x", "\u00bf", "\u0080", "\u00ff", "\u07ff", "\u0800", "\ufffd",
              "\ufeff", "\U00010000", "\U0010ffff", "\U0003ffff"]


def gen_C12(tier, seed):
    g = Gen(seed)
    q = tier == "quick"
    cf = ["nc.d.1.0.b", "c.d.1.0.b", "dfa.d.1.0.u", "tnc.d.1.0.u", "tdfa.d.1.0.u", "auto.d.1.1.u", "auto.d.1.0.b"]
    reqs = []
    for _ in range(qn(q, 300, 3000)):
        mk = g.rng.choice(["std", "lf", "ll"])
        variant = g.rng.choice(["bytes", "withbytes", "str", "withstr"])
        if variant in ("str", "withstr"):
            chars = [g.rng.choice(UTF8_CHARS) for _ in range(g.rng.randint(0, 8))]
            hay = "".join(chars).encode()
            # byte patterns that may split characters
            pats = []
            for _ in range(g.rng.randint(1, 4)):
                if hay and g.rng.random() < 0.8:
                    i = g.rng.randrange(len(hay)); j = g.rng.randint(i, min(len(hay), i + 4))
                    pats.append(hay[i:j])
                else:
                    pats.append(g.rng.choice(UTF8_CHARS).encode())
            if g.rng.random() < 0.15:
                pats.append(b"")
        else:
            pats = g.pats()
            hay = g.hay(pats, 14)
        repl = [g.rng.choice(["", "Z", "é€", "longer-replacement"]).encode() for _ in pats]
        kv = {"mk": mk, "pats": hxlist(pats), "hay": hx(hay), "variant": variant, "repl": hxlist(repl)}
        if variant.startswith("with") and g.rng.random() < 0.4:
            kv["stop"] = g.rng.randint(0, 3)
        if variant.startswith("with") and g.rng.random() < 0.5:
            # the caller's buffer is APPENDED to: already holds bytes and/or has spare capacity (more or less than the
            # haystack is long); the harness checks that what was there is still in front of the output
            kv["dstpre"] = hx(g.rng.choice(["", "log: ", "é|", "0123456789abcdef"]).encode())
            kv["dstcap"] = g.rng.choice([0, 1, len(hay), len(hay) + 1, len(hay) + 7, 64, 300])
        kv["cfgs"] = cfgs(cf)
        reqs.append(fmt_req("replace", kv))
    # replacement through the default prefilters (the iterator the splicing consumes is the prefiltered one): lists for which
    # the packed prefilter is built, haystack lengths around the vector widths, one occurrence near the end; dense haystacks
    reqs += _packed_tail_sweep(g, qn(q, 40, 400), ["replace"], ["auto.d.1.1.u", "tc.d.1.1.b", "tdfa.d.1.1.u", "nc.d.1.1.b"],
                               extra=lambda ps: {"variant": g.rng.choice(["bytes", "withbytes"]),
                                                 "repl": hxlist([b"<%d>" % i for i in range(len(ps))])})
    for _ in range(qn(q, 40, 400)):
        pats = [p for p in pre_pats(g) if p] or [b"ab"]
        hay = pre_hay(g, pats)
        reqs.append(fmt_req("replace", {"mk": g.rng.choice(["std", "lf", "ll"]), "pats": hxlist(pats), "hay": hx(hay),
                                        "variant": g.rng.choice(["bytes", "withbytes"]),
                                        "repl": hxlist([b"<%d>" % i for i in range(len(pats))]),
                                        "cfgs": cfgs(["auto.d.1.1.u", "tc.d.1.1.b", "tdfa.d.1.1.u", "nc.d.1.1.b"])}))
    # the empty pattern on the EMPTY haystack (one empty match at offset 0: the replacement appears exactly once) and on
    # one-byte haystacks, every variant and match kind (systematic: an input no random family may be trusted to produce)
    for pats in ([b""], [b"", b"a"], [b"a", b""], [b"ab", b"", b"b"]):
        for hay in (b"", b"a", b"x"):
            for mk in ("std", "lf", "ll"):
                for variant in ("bytes", "withbytes", "str", "withstr"):
                    reqs.append(fmt_req("replace", {"mk": mk, "pats": hxlist(pats), "hay": hx(hay), "variant": variant,
                                                    "repl": hxlist([b"<%d>" % i for i in range(len(pats))]), "cfgs": cfgs(cf)}))
    # wrong replacement table length: documented panic
    reqs.append(fmt_req("replace", {"mk": "std", "pats": hxlist([b"a", b"b"]), "hay": hx(b"ab"), "variant": "bytes",
                                    "repl": hxlist([b"x"]), "cfgs": cfgs(cf)}))
    return {"reqs": reqs, "certs": [], "gen": g}


def _shift(resp, d):
    """shift every pid:start:end in a response by d"""
    import re
    return re.sub(r"(\d+):(\d+):(\d+)", lambda m: "%s:%d:%d" % (m.group(1), int(m.group(2)) + d, int(m.group(3)) + d), resp)


def pre_pats(g):
    """pattern lists that activate each prefilter variant (DESIGN 4.3)"""
    k = g.rng.choice(["memmem", "start1", "start2", "start3", "rare", "rare", "rare3", "rare2ci", "packed", "packed",
                      "none_many", "hi_start", "mixed_hi", "mixed_hi", "start4plus"])
    g.note("pre:" + k)
    alpha = b"abcdefgh"
    if k == "memmem":
        return [g.word(alpha, 1, 6)]
    if k == "start4plus":
        # four to six distinct first bytes and many rare bytes: NO start-byte prefilter may be built (its three-byte scanner
        # cannot cover them), under standard semantics no packed one either
        firsts = g.rng.sample(list(b"abcdghxyz"), g.rng.randint(4, 6))
        return [bytes([f]) + g.word(alpha, 0, 3) for f in firsts] + [bytes([g.rng.choice(firsts)]) + g.word(alpha, 1, 3) for _ in range(g.rng.randint(0, 2))]
    if k.startswith("start"):
        n = int(k[-1])
        firsts = g.rng.sample(list(b"abcdxyz"), n)
        return [bytes([g.rng.choice(firsts)]) + g.word(alpha, 0, 4) for _ in range(g.rng.randint(n, n + 3))]
    if k == "rare":
        rare = g.rng.choice([b"z", b"Q", b"~", b"\x00"])
        out = []
        for _ in range(g.rng.randint(4, 8)):
            w = bytearray(g.word(b"etaoinshr", 2, 6))
            w.insert(g.rng.randint(0, len(w)), rare[0])
            out.append(bytes(w))
        return out
    if k == "rare3":
        # > 3 distinct start bytes, exactly three rare bytes at varying offsets, Teddy not preferred (a 1-byte pattern / > 16 patterns)
        rares = g.rng.sample(list(b"zQ~#"), 3)
        out = []
        for i in range(g.rng.randint(5, 9)):
            w = bytearray(g.word(b"etaoinshr", 2, 6))
            w.insert(g.rng.randint(0, len(w)), rares[i % 3])
            out.append(bytes(w))
        return out + ([bytes([rares[0]])] if g.rng.random() < 0.5 else [g.word(b"etaoinshr", 1, 3) + bytes([rares[1]]) for _ in range(12)])
    if k == "rare2ci":
        # meant to be used with case folding: one rare letter gives two rare bytes
        r = g.rng.choice(b"zqjx")
        out = []
        for _ in range(g.rng.randint(4, 7)):
            w = bytearray(g.word(b"etaoinshr-", 2, 6))
            w.insert(g.rng.randint(0, len(w)), r)
            out.append(bytes(w))
        return out
    if k == "packed":
        return [g.word(alpha, 2, 6) for _ in range(g.rng.randint(3, 16))]
    if k == "mixed_hi":
        # at most three distinct first bytes, one of them non-ASCII, and more than three rare bytes (or a 1-byte-spread of
        # rare letters) so that the start-byte prefilter would be the natural choice if the non-ASCII byte were ignored
        hi = g.rng.choice([0x80, 0xC3, 0xCE, 0xE2, 0xFF])
        firsts = g.rng.sample(list(b"abfx"), g.rng.randint(1, 2))
        out = []
        for i, r in enumerate(g.rng.sample(list(b"qzjxkvw"), g.rng.randint(4, 6))):
            out.append(bytes([firsts[i % len(firsts)], r]) + g.word(b"etao", 0, 2))
        out.insert(g.rng.randint(0, len(out)), bytes([hi]) + g.word(b"etaoqz", 1, 3))
        return out
    if k == "hi_start":
        return [bytes([g.rng.choice([0x80, 0xC3, 0xFF])]) + g.word(alpha, 1, 3) for _ in range(g.rng.randint(1, 3))]
    return [g.word(alpha, 1, 5) for _ in range(g.rng.randint(17, 40))]


def pre_hay(g, pats, fold=False):
    """haystacks with candidate bytes at every offset relative to true matches, long enough for vector code"""
    n = g.rng.choice([0, 3, 15, 16, 17, 31, 32, 33, 48, 64, 70, 130])
    alpha, foreign = g.alphabet(pats, fold)
    if g.rng.random() < 0.25:
        # dense: many complete occurrences one after the other with short, varied gaps (a resumed search starts the
        # prefilter at every kind of offset > 0; candidate bytes of OTHER patterns sit right before true matches)
        units = []
        for _ in range(g.rng.randint(2, 7)):
            units.append(g.rng.choice(pats))
            units.append(g.rng.choice([b"", bytes([foreign]), bytes([foreign]) * g.rng.randint(2, 9), alpha[:1],
                                       g.rng.choice(pats)[:1], g.rng.choice(pats)[-1:], bytes([foreign]) * 20]))
        out = bytearray(g.rng.choice([b"", bytes([foreign]) * g.rng.randint(1, 5)]) + b"".join(units))
        if fold:
            out = bytearray((b ^ 0x20) if (65 <= b <= 90 or 97 <= b <= 122) and g.rng.random() < 0.5 else b for b in out)
        return bytes(out)
    filler = bytes([foreign]) if g.rng.random() < 0.6 else alpha[:1]
    out = bytearray(filler * n)
    for _ in range(g.rng.randint(0, 4)):
        p = g.rng.choice(pats)
        if g.rng.random() < 0.3 and len(p) > 1:
            p = p[: g.rng.randint(1, len(p) - 1)]      # decoy: a proper prefix
        if len(out) >= len(p) and p:
            pos = g.rng.randint(0, len(out) - len(p))
            out[pos:pos + len(p)] = p
    if fold:
        out = bytearray((b ^ 0x20) if (65 <= b <= 90 or 97 <= b <= 122) and g.rng.random() < 0.5 else b for b in out)
    return bytes(out)


def packed_eligible(g, minlen=None):
    """lists for which the builder picks the PACKED prefilter (>= 4 distinct first bytes and > 3 rare bytes, no byte-set
    prefilter available), with the shortest pattern of an exact length 1..4 (= the Teddy fingerprint length, each with
    its own candidate code), often with byte values in the upper half"""
    minlen = minlen or g.rng.choice([1, 2, 3, 4])
    firsts = g.rng.sample(list(b"abcdefghij"), g.rng.randint(4, 7))
    pats = [bytes([f]) + g.word(b"klmnopqr", max(0, minlen - 1), minlen + 2)[: g.rng.randint(max(0, minlen - 1), minlen + 2)] for f in firsts]
    pats = [p for p in pats if len(p) >= minlen]
    pats.append(bytes([g.rng.choice(firsts)]) + g.word(b"klmnopqr", minlen, minlen)[: minlen - 1])
    if g.rng.random() < 0.45:
        pats = hi_translate(g, pats)
    g.rng.shuffle(pats)
    return pats


def _near_miss_reqs(g, n, ops, cf, mks=("lf", "ll")):
    """a confirming (packed) prefilter must not invent matches: packed-eligible lists (>= 4 distinct first bytes, lengths
    5..15, so that no byte-set prefilter is available) and haystacks holding a pattern with ONE byte altered, at every
    position of the pattern, short (Rabin-Karp path) and long (Teddy path), plus sometimes a genuine occurrence"""
    out = []
    for _ in range(n):
        firsts = g.rng.sample(list(b"abcdefghij"), g.rng.randint(4, 6))
        pats = [bytes([f]) + g.word(b"klmnopqr", g.rng.choice([4, 5, 6, 8, 9, 10, 12, 14]), 14)[: g.rng.choice([4, 5, 6, 8, 9, 10, 12, 14])]
                for f in firsts]
        p = g.rng.choice(pats)
        k = g.rng.randrange(len(p))
        miss = p[:k] + bytes([p[k] ^ g.rng.choice([1, 2, 0x10])]) + p[k + 1:]
        pad = g.rng.choice([0, 1, 3, 20, 40])
        hay = b"z" * pad + miss + b"z" * g.rng.choice([0, 2, 30])
        if g.rng.random() < 0.3:
            hay += g.rng.choice(pats) + b"z"
        kv = {"mk": g.rng.choice(list(mks)), "pats": hxlist(pats), "hay": hx(hay), "cfgs": cfgs(cf)}
        op = g.rng.choice(ops)
        if op == "find" and g.rng.random() < 0.3:
            kv["earliest"] = 1
        out.append(fmt_req(op, kv))
    return out


def _resume_after_none(g, n, cf):
    """stepwise overlapping search, standard semantics, prefilter active, polled PAST its end: a pattern and an extension
    of it (the automaton sits in a match state), then bytes that send it back to the start state, a partial candidate
    near the end so that the prefilter finally answers 'nothing', and the byte that would extend the old match"""
    out = []
    for _ in range(n):
        first = bytes([g.rng.choice(b"abq")])
        w = first + g.word(b"bcde", 1, 3)
        ext = bytes([g.rng.choice(b"cdez")])
        pats = [w, w + ext]
        if g.rng.random() < 0.4:
            pats.append(first + g.word(b"xyz", 1, 2))
        g.rng.shuffle(pats)
        junk = g.word(b"xyz", 1, 3)
        tail = g.rng.choice([first + ext, first + w[1:-1] + ext if len(w) > 2 else first + ext, ext, first])
        hay = g.rng.choice([b"", b"z"]) + w + junk + tail
        kv = {"mk": "std", "pats": hxlist(pats), "hay": hx(hay), "n": 4 + (len(pats) + 1) * (len(hay) + 1), "cfgs": cfgs(cf)}
        out.append(fmt_req("ovl", kv))
        kv2 = dict(kv); kv2.pop("n")
        out.append(fmt_req("ovliter", kv2))
    return out


def _packed_tail_sweep(g, n, ops, cf, extra=None):
    """packed-eligible lists (shortest pattern 1..4 bytes = each Teddy fingerprint length), haystack lengths k*V + r around
    the vector widths (16 / 32) and ONE occurrence at a chosen distance from the END (the final, overlapped window and
    its carried lanes) or from the start"""
    out = []
    for _ in range(n):
        minlen = g.rng.choice([1, 2, 3, 4, 4])
        pats = [p for p in packed_eligible(g, minlen) if p]
        alpha, foreign = g.alphabet(pats)
        V = g.rng.choice([16, 32])
        L = g.rng.choice([1, 2, 3]) * V + g.rng.choice([0, 1, 2, 3, 4, 5, V - 1, V - 2]) + g.rng.choice([0, V])
        p0 = g.rng.choice(pats)
        back = g.rng.choice([len(p0), len(p0) + 1, V - 1, V, V + 1, V + 2, V + 3, V + 4, 2 * V, 2 * V + 1])
        pos = L - back if g.rng.random() < 0.8 else g.rng.choice([0, 1, 2, V - 1, V, V + 1])
        if pos < 0 or pos + len(p0) > L:
            continue
        hay = bytearray(bytes([foreign]) * L)
        hay[pos:pos + len(p0)] = p0
        kv = {"mk": g.rng.choice(["lf", "ll"]), "pats": hxlist(pats), "hay": hx(bytes(hay)), "cfgs": cfgs(cf)}
        if extra:
            kv.update(extra(pats))
        out.append(fmt_req(g.rng.choice(ops), kv))
    return out


def gen_C05(tier, seed):
    """prefilter on (pf=1) against the model, which has no prefilter: transparency; plus the same request with pf=0"""
    g = Gen(seed)
    q = tier == "quick"
    cf = ["nc.d.1.1.b", "nc.d.1.0.b", "c.d.1.1.b", "dfa.d.1.1.u", "dfa.d.1.1.b", "dfa.d.1.0.u", "tnc.d.1.1.u",
          "tc.d.1.1.b", "tdfa.d.1.1.u", "auto.d.1.1.u", "auto.d.1.1.b", "auto.d.1.0.u"]
    reqs = []
    for _ in range(qn(q, 300, 4000)):
        pats = pre_pats(g) if g.rng.random() < 0.75 else packed_eligible(g)
        mk = g.rng.choice(["std", "lf", "ll", "lf", "ll"])
        fold = g.rng.random() < 0.25
        for _ in range(2):
            hay = pre_hay(g, pats, fold)
            s, e = g.span(len(hay))
            op = g.rng.choice(["find", "iter", "find", "iter", "ovl", "ovliter"] if mk == "std" else ["find", "iter"])
            kv = {"mk": mk, "pats": hxlist(pats), "hay": hx(hay), "s": s, "e": e}
            if fold:
                kv["fold"] = 1
            if op == "ovl":
                # sometimes the whole call history and beyond (calls after the search is exhausted must keep answering none)
                kv["n"] = g.rng.randint(1, 12) if g.rng.random() < 0.5 else 4 + min(60, (len(pats) + 1) * (e - s + 1 if e >= s else 1))
            if op == "find" and g.rng.random() < 0.2:
                kv["earliest"] = 1
            kv["cfgs"] = cfgs(cf)
            reqs.append(fmt_req(op, kv))
    reqs += _resume_after_none(g, qn(q, 60, 600), cf)
    reqs += _near_miss_reqs(g, qn(q, 80, 800), ["find", "iter", "ismatch"], cf)
    # around the packed builder's pattern limit (128) and Teddy's (64): many distinct patterns with many first bytes and
    # many rare bytes (no byte-set prefilter is available), so that whatever the packed builder does beyond its limit shows
    for n in ([65, 128, 129, 130, 140, 193] if q else [63, 64, 65, 127, 128, 129, 130, 131, 140, 160, 192, 193, 194, 258, 300]):
        seen = set()
        pats = []
        while len(pats) < n:
            w = g.word(b"abcdefghijkl", 3, 5)
            if w not in seen:
                seen.add(w); pats.append(w)
        for _ in range(2):
            picks = [pats[0], pats[n // 2], pats[-1], g.rng.choice(pats)]
            g.rng.shuffle(picks)
            hay = b"zz" + b"zzzzzzzzzzzzzzzzzzzzzzz".join(picks) + b"zz"
            mk = g.rng.choice(["lf", "ll"])
            reqs.append(fmt_req(g.rng.choice(["find", "iter"]), {"mk": mk, "pats": hxlist(pats), "hay": hx(hay), "cfgs": cfgs(cf)}))
            reqs.append(fmt_req("pre", {"mk": mk, "pats": hxlist(pats), "hay": hx(hay), "s": 0, "e": len(hay), "cfgs": cfgs(["nc.d.1.1.b"])}))
    # many fingerprints AND prefix pairs: 9..40 distinct patterns (more fingerprint groups than Teddy has buckets), shortest
    # pattern 1..3 bytes, with several (prefix, extension) pairs placed far apart in the list, in both orders; whichever
    # bucket each of them lands in, the confirmed match must be the one leftmost-first / leftmost-longest demands
    for _ in range(qn(q, 40, 400)):
        n = g.rng.choice([9, 10, 12, 16, 17, 18, 24, 33, 40])
        seen, pats = set(), []
        while len(pats) < n:
            w = g.word(b"abcdefghijklmnop", 2, 5)
            if w not in seen and not any(w.startswith(x) or x.startswith(w) for x in seen):
                seen.add(w); pats.append(w)
        pairs = []
        for _ in range(g.rng.randint(1, 4)):
            i = g.rng.randrange(len(pats))
            long = pats[i] + g.word(b"abcdefgh", 1, 3)
            short = pats[i][: g.rng.randint(1, min(3, len(pats[i])))]
            if long in seen or short in seen:
                continue
            seen.add(long); seen.add(short)
            pats[i] = long
            j = g.rng.choice([0, len(pats), g.rng.randrange(len(pats) + 1)])
            pats.insert(j, short)
            pairs.append(long)
        if not pairs:
            continue
        for _ in range(2):
            picks = [g.rng.choice(pairs), g.rng.choice(pairs), g.rng.choice(pats)]
            hay = b"z" * g.rng.choice([0, 1, 21]) + (b"z" * g.rng.choice([17, 23, 40])).join(picks) + b"z" * g.rng.choice([0, 20, 33])
            mk = g.rng.choice(["lf", "ll"])
            reqs.append(fmt_req(g.rng.choice(["find", "iter", "iter"]), {"mk": mk, "pats": hxlist(pats), "hay": hx(hay), "cfgs": cfgs(cf)}))
            reqs.append(fmt_req("pre", {"mk": mk, "pats": hxlist(pats), "hay": hx(hay), "s": 0, "e": len(hay), "cfgs": cfgs(["nc.d.1.1.b"])}))
    # bytes at the two ENDS of the byte range as the rare / start bytes a prefilter is built from (loops over 0..=255,
    # byte sets, rank tables): patterns made of 0xFF / 0x00 / 0xFE / 0x80 and very common letters, next to a pattern that
    # contributes an ordinary rare byte
    for _ in range(qn(q, 60, 600)):
        edge = g.rng.choice([0xFF, 0xFF, 0x00, 0xFE, 0x80, 0x01])
        e1 = bytes([edge])
        first = g.rng.choice([e1 * 2, e1 + b"e", e1 + b" t", e1 * 3, b"e" + e1, e1])
        second = g.rng.choice([b"zq", b"qj", b"e" + bytes([g.rng.choice(b"zqj~")]), bytes([g.rng.choice(b"zqj")]) + b"e", bytes([edge ^ 1]) + b"e"])
        pats = [first, second] + ([g.rng.choice([b"te", b"at" + e1, b"z" + e1])] if g.rng.random() < 0.3 else [])
        g.rng.shuffle(pats)
        filler = g.rng.choice([b"e", b" ", b"x"])
        units = [g.rng.choice(pats) for _ in range(g.rng.randint(1, 4))]
        hay = filler * g.rng.choice([0, 1, 17, 40]) + b"".join(u + filler * g.rng.choice([1, 3, 20]) for u in units)
        mk = g.rng.choice(["std", "lf", "ll"])
        kv = {"mk": mk, "pats": hxlist(pats), "hay": hx(hay), "cfgs": cfgs(cf)}
        reqs.append(fmt_req(g.rng.choice(["find", "iter", "iter"]), kv))
        kp = dict(kv); kp["s"] = 0; kp["e"] = len(hay); kp["cfgs"] = cfgs(["nc.d.1.1.b", "dfa.d.1.1.u"])
        reqs.append(fmt_req("pre", kp))
    reqs += _many_dup_packed(g, qn(q, 30, 300), cf)
    reqs += _packed_tail_sweep(g, qn(q, 50, 500), ["find", "iter"], cf)
    # case-insensitive searchers and the prefilters that compare bytes exactly (memmem for a single pattern; start bytes /
    # rare bytes with their case twins): 1..3 patterns in upper, lower and mixed case with digits / punctuation, haystacks
    # spelling them in every other case
    for _ in range(qn(q, 80, 800)):
        style = g.rng.choice(["upper", "lower", "mixed"])
        def word():
            w = g.word(b"abxyz", 1, 4) + g.rng.choice([b"", b"-", b"1", b"_d"])
            if style == "upper":
                return w.upper()
            if style == "mixed":
                return bytes((c ^ 0x20) if 97 <= c <= 122 and g.rng.random() < 0.5 else c for c in w)
            return w
        pats = list(dict.fromkeys(word() for _ in range(g.rng.choice([1, 1, 1, 2, 3]))))
        def respell(w):
            return bytes((c ^ 0x20) if (65 <= c <= 90 or 97 <= c <= 122) and g.rng.random() < 0.6 else c for c in w)
        units = [respell(g.rng.choice(pats)) for _ in range(g.rng.randint(1, 4))] + [g.rng.choice(pats)]
        g.rng.shuffle(units)
        hay = b"".join(u + b"." * g.rng.choice([0, 1, 3, 20]) for u in units)
        mk = g.rng.choice(["std", "lf", "ll"])
        kv = {"mk": mk, "pats": hxlist(pats), "hay": hx(hay), "cfgs": cfgs(cf)}
        if g.rng.random() < 0.8:
            kv["fold"] = 1
        reqs.append(fmt_req(g.rng.choice(["find", "iter", "iter"]), kv))
        kp = dict(kv); kp["s"] = 0; kp["e"] = len(hay); kp["cfgs"] = cfgs(["nc.d.1.1.b", "dfa.d.1.1.u"])
        reqs.append(fmt_req("pre", kp))
    # the prefilters themselves: variant chosen + candidate for a span, against the L3 model
    pcf = ["nc.d.1.1.b", "c.d.1.1.b", "dfa.d.1.1.u"]
    for _ in range(qn(q, 300, 4000)):
        pats = pre_pats(g)
        mk = g.rng.choice(["std", "lf", "ll"])
        fold = g.rng.random() < 0.3
        for _ in range(3):
            hay = pre_hay(g, pats, fold)
            s, e = g.span(len(hay))
            if s > e:
                s, e = e, e
            kv = {"mk": mk, "pats": hxlist(pats), "hay": hx(hay), "s": s, "e": e}
            if fold:
                kv["fold"] = 1
            kv["cfgs"] = cfgs(pcf)
            reqs.append(fmt_req("pre", kv))
    # builder gates: empty pattern, > 128 patterns, long patterns, non-ASCII start bytes
    special = [[b"ab", b""], [bytes([97 + i % 26, 97 + i // 26, 120]) for i in range(130)], [b"a" * 256, b"b" * 3],
               [bytes([0x80]) + b"a"], [b"a"], [b"ab", b"ac", b"ad", b"ae"], [b"xa", b"ya", b"za", b"wa"]]
    for pats in special:
        for mk in ("std", "lf"):
            for fold in (0, 1):
                kv = {"mk": mk, "pats": hxlist(pats), "hay": hx(b"xxabxx" + pats[0][:3]), "cfgs": cfgs(pcf)}
                if fold:
                    kv["fold"] = 1
                reqs.append(fmt_req("pre", kv))
    return {"reqs": reqs, "certs": [], "gen": g, "needs_consts": ["pre"], "needs_cpu": True}


def gen_C10(tier, seed):
    """triples: the span request, the sub-slice request, and the span request with every byte outside the
    span replaced by bytes from the pattern alphabet"""
    g = Gen(seed)
    q = tier == "quick"
    cf = ["nc.d.1.0.b", "c.0.0.0.b", "dfa.d.1.0.b", "nc.d.1.1.b", "dfa.d.1.1.b", "tc.d.1.1.b", "auto.d.1.1.b", "tdfa.d.1.0.b"]
    reqs, triples = [], []
    for _ in range(qn(q, 250, 3000)):
        if g.rng.random() < 0.4:
            pats = pre_pats(g)
            hay = pre_hay(g, pats)
        else:
            pats = g.pats()
            hay = g.hay(pats, 12)
        mk = g.rng.choice(["std", "lf", "ll"])
        n = len(hay)
        s = g.rng.randint(0, n); e = g.rng.randint(s, n)
        if g.rng.random() < 0.5:
            # a span that starts (or ends) strictly inside an occurrence, right after / before a candidate byte
            occs = [(i, p) for p in pats if len(p) > 1 for i in range(n) if hay[i:i + len(p)] == p]
            if occs:
                i, p = g.rng.choice(occs)
                if g.rng.random() < 0.7:
                    s = i + g.rng.randint(1, len(p) - 1); e = g.rng.randint(s, n)
                else:
                    e = i + g.rng.randint(1, len(p) - 1); s = g.rng.randint(0, e)
        fold10 = 1 if g.rng.random() < 0.25 else 0
        anch = 1 if g.rng.random() < 0.3 else 0
        op = g.rng.choice(["find", "iter"] + (["ovl"] if mk == "std" else []))
        alpha, foreign = g.alphabet(pats)
        pool = alpha or b"x"
        hay2 = bytes(g.rng.choice(pool) for _ in range(g.rng.randint(0, 3))) + hay[s:e]
        # different bytes (and possibly a different length) outside the span
        left = bytes(g.rng.choice(pool) for _ in range(s))
        right = bytes(g.rng.choice(pool) for _ in range(g.rng.randint(0, n - e + 2)))
        hay3 = left + hay[s:e] + right
        base = {"mk": mk, "pats": hxlist(pats)}
        if anch:
            base["anch"] = 1
        if fold10:
            base["fold"] = 1
        if op == "ovl":
            base["n"] = 2 * (e - s) + 4
        def mkreq(h, a, b):
            kv = dict(base); kv.update({"hay": hx(h), "s": a, "e": b, "cfgs": cfgs(cf)})
            return fmt_req(op, kv)
        i0 = len(reqs)
        reqs += [mkreq(hay, s, e), mkreq(hay[s:e], 0, e - s), mkreq(hay3, s, e)]
        triples.append((i0, s))
    # the END of the span with vector-code prefilters: an occurrence that crosses (or follows) span.end, with a span
    # long enough for Teddy (>= 16 + fingerprint bytes) and nothing matching before it
    for _ in range(qn(q, 60, 600)):
        pats = [g.word(b"abcdefgh", 2, 7) for _ in range(g.rng.randint(3, 12))] if g.rng.random() < 0.7 else pre_pats(g)
        pats = [p for p in pats if p] or [b"ab"]
        alpha, foreign = g.alphabet(pats)
        p0 = g.rng.choice(pats)
        lead = g.rng.randint(18, 70)
        hay = bytes([foreign]) * lead + p0 + bytes([foreign]) * g.rng.randint(0, 6) + g.rng.choice(pats)
        s = g.rng.randint(0, 3)
        e = lead + g.rng.randint(0, len(p0))           # inside or just before/after the occurrence
        e = min(e, len(hay))
        mk = g.rng.choice(["lf", "ll", "std"])
        op = g.rng.choice(["find", "iter"])
        hay3 = hay[:e] + bytes(g.rng.choice(alpha or b"x") for _ in range(g.rng.randint(0, 9)))
        base = {"mk": mk, "pats": hxlist(pats)}
        def mkreq2(h, a, b):
            kv = dict(base); kv.update({"hay": hx(h), "s": a, "e": b, "cfgs": cfgs(cf)})
            return fmt_req(op, kv)
        i0 = len(reqs)
        reqs += [mkreq2(hay, s, e), mkreq2(hay[s:e], 0, e - s), mkreq2(hay3, s, e)]
        triples.append((i0, s))
    # the empty pattern (the start state is a match state: the very first answer is positioned at the span start),
    # every operation, spans that start after 0
    for _ in range(qn(q, 45, 450)):
        pats = [p for p in g.pats() if p][:3] + [b""]
        g.rng.shuffle(pats)
        hay = g.hay(pats, 9)
        n = len(hay)
        s = g.rng.randint(1, n) if n else 0
        e = g.rng.randint(s, n)
        mk = g.rng.choice(["std", "std", "lf", "ll"])
        op = g.rng.choice(["find", "iter"] + (["ovl", "ovl", "ovliter"] if mk == "std" else []))
        base = {"mk": mk, "pats": hxlist(pats)}
        if g.rng.random() < 0.25:
            base["anch"] = 1
        if op == "ovl":
            base["n"] = 4 + (len(pats) + 1) * (e - s + 1)
        alpha, foreign = g.alphabet(pats)
        hay3 = bytes(g.rng.choice(alpha or b"x") for _ in range(s)) + hay[s:e] + bytes(g.rng.choice(alpha or b"x") for _ in range(g.rng.randint(0, 3)))
        def mkreq3(h, a, b):
            kv = dict(base); kv.update({"hay": hx(h), "s": a, "e": b, "cfgs": cfgs(cf)})
            return fmt_req(op, kv)
        i0 = len(reqs)
        reqs += [mkreq3(hay, s, e), mkreq3(hay[s:e], 0, e - s), mkreq3(hay3, s, e)]
        triples.append((i0, s))
    # start = end + 1
    for _ in range(20):
        pats = g.pats(); hay = g.hay(pats, 6)
        e = g.rng.randint(0, len(hay))
        for op in ("find", "iter", "ovl"):
            kv = {"mk": "std", "pats": hxlist(pats), "hay": hx(hay), "s": e + 1, "e": e, "cfgs": cfgs(cf)}
            if op == "ovl":
                kv["n"] = 3
            reqs.append(fmt_req(op, kv))

    def post(run, reqs_all, impl, model):
        """impl vs impl: span result = shifted slice result = result with other bytes outside the span"""
        off = len(reqs_all) - len(reqs)
        bad = []
        for i0, s in triples:
            for c in cf:
                a = impl.get((off + i0, c)); b = impl.get((off + i0 + 1, c)); d = impl.get((off + i0 + 2, c))
                if a is None or b is None or d is None:
                    continue
                if a != _shift(b, s):
                    bad.append({"req": reqs_all[off + i0], "cfg": c, "impl": a,
                                "model": model.get((off + i0, c)), "line": off + i0,
                                "note": "span result differs from shifted sub-slice result " + _shift(b, s)})
                elif a != d:
                    bad.append({"req": reqs_all[off + i0 + 2], "cfg": c, "impl": d,
                                "model": model.get((off + i0 + 2, c)), "line": off + i0 + 2,
                                "note": "bytes outside the span changed the result"})
        run.cov["span_triples_compared"] = len(triples) * len(cf)
        return [b for b in bad if b["impl"] == b["model"]]  # the rest is already reported by the model diff
    # (appended AFTER the triples, whose indices are relative to the start of `reqs`): spans through the capstone model
    # (TopLevel2: Top_find_span / Top_find_frame / Top_find_iter_span / Top_find_iter_frame)
    reqs += _top_reqs(g, qn(q, 80, 800), ["std", "lf", "ll"], ["topfind", "topiter"], earliest=0.2)
    # the packed searcher's own `find_in` (src/packed/api.rs slices per engine: Teddy by pointer pair, Rabin-Karp by
    # `haystack[..span.end]`): every engine variant, an occurrence that straddles or follows span.end, short and long spans
    for _ in range(qn(q, 120, 1200)):
        pats = [g.word(b"abcdefgh", 1, 6) for _ in range(g.rng.randint(1, 8))]
        pats = list(dict.fromkeys(p for p in pats if p)) or [b"ab"]
        alpha, foreign = g.alphabet(pats)
        p0 = g.rng.choice(pats)
        lead = g.rng.choice([0, 1, 2, 5, 18, 33, 70])
        hay = bytes([foreign]) * lead + p0 + bytes([foreign]) * g.rng.randint(0, 4) + g.rng.choice(pats) + bytes([foreign]) * g.rng.randint(0, 3)
        s0 = g.rng.randint(0, min(3, lead))
        e0 = min(len(hay), lead + g.rng.randint(0, len(p0) + 2))
        if s0 > e0:
            s0 = e0
        reqs.append(fmt_req("packed", {"mk": g.rng.choice(["lf", "ll"]), "pats": hxlist(pats), "hay": hx(hay), "s": s0, "e": e0,
                                       "api": "find", "pcfg": ";".join(PACKED_VARIANTS)}))
    return {"reqs": reqs, "certs": [], "gen": g, "post": post, "needs_cpu": True}


PACKED_VARIANTS = ["rk", "teddy", "slim128", "slim256", "fat", "default"]


def packed_pats(g):
    """packed stressors (DESIGN 4.3): shared fingerprints, many fingerprints, 1..128 patterns, minimum length 1..5"""
    k = g.rng.choice(["few", "few", "samefp", "manyfp", "many33", "many65", "min1", "nested", "dups", "long", "verylong",
                      "manydups", "manydups"])
    g.note("packed:" + k)
    a = b"abcdefghijklmnop"
    if k == "manydups":
        # 21..60 patterns, few distinct lengths, every word several times in rotated rounds: the order among equal
        # lengths (= the order supplied) decides the reported id
        stems = [g.word(a[:5], 2, 6) for _ in range(g.rng.randint(5, 9))]
        rounds = g.rng.randint(3, 6)
        out = []
        for r in range(rounds):
            out += stems[r % len(stems):] + stems[:r % len(stems)]
        return out[: max(21, min(60, len(out)))]
    if k == "few":
        return [g.word(a[:6], 1, 6) for _ in range(g.rng.randint(1, 8))]
    if k == "samefp":
        # equal low nybbles, different high nybbles: 0x61 'a' vs 0x41 'A' vs 0x31 '1' vs 0x71 'q'
        base = g.word(b"abc", 2, 4)
        out = [base]
        for _ in range(g.rng.randint(1, 6)):
            out.append(bytes((b & 0x0F) | g.rng.choice([0x30, 0x40, 0x60, 0x70]) for b in base) + g.word(b"ab", 0, 2))
        return out
    if k == "manyfp":
        n = g.rng.choice([9, 17, 20, 30])
        return [bytes([a[i % 16], a[(i * 7 + 3) % 16]]) + g.word(a[:4], 0, 3) for i in range(n)]
    if k == "many33":
        return [bytes([97 + i % 26, 97 + (i // 26)]) + g.word(a[:4], 0, 3) for i in range(g.rng.randint(33, 64))]
    if k == "many65":
        return [bytes([97 + i % 26, 97 + (i // 26)]) + g.word(a[:4], 0, 2) for i in range(g.rng.randint(65, 128))]
    if k == "min1":
        return [g.word(a[:5], 1, 1)] + [g.word(a[:5], 1, 5) for _ in range(g.rng.randint(0, 10))]
    if k == "nested":
        w = g.word(a[:3], 4, 8)
        ps = [w[:i] for i in range(1, len(w) + 1)] + [w[i:] for i in range(1, len(w))]
        g.rng.shuffle(ps)
        return ps[: g.rng.randint(2, len(ps))]
    if k == "dups":
        w = [g.word(a[:3], 1, 4) for _ in range(3)]
        return [g.rng.choice(w) for _ in range(g.rng.randint(2, 7))]
    if k == "verylong":
        # shortest pattern longer than a machine word has bits (the rolling hash drops its oldest byte entirely)
        return [g.word(a[:4], 65, 100) for _ in range(g.rng.randint(1, 3))]
    return [g.word(a[:4], 5, 40) for _ in range(g.rng.randint(1, 5))]


def hi_translate(g, pats):
    """the same list with a consistent random subset of its byte values moved to the upper half (bit 7 set): vector code
    that treats bytes as signed lanes or shuffle indices behaves differently there"""
    vals = sorted(set(b for p in pats for b in p))
    if not vals:
        return pats
    moved = set(g.rng.sample(vals, g.rng.randint(1, len(vals))))
    tr = {b: (b ^ 0x80) if b in moved else b for b in vals}
    # keep the translation injective
    if len(set(tr.values())) != len(vals):
        return pats
    return [bytes(tr[b] for b in p) for p in pats]


def packed_hay(g, pats):
    """every match offset modulo the vector width, lengths around 16/32/48(+N-1), matches straddling windows
    and in the final partial window, decoy prefixes"""
    n = g.rng.choice([0, 1, 5, 14, 15, 16, 17, 18, 19, 20, 30, 31, 32, 33, 34, 35, 36, 47, 48, 49, 50, 64, 67, 70, 100])
    if min(len(p) for p in pats) > 60:
        n = g.rng.choice([70, 100, 130, 200, 260])
    alpha, foreign = g.alphabet(pats)
    fill = bytes([foreign]) if g.rng.random() < 0.5 else bytes([g.rng.choice(alpha)])
    out = bytearray(fill * n)
    for _ in range(g.rng.randint(0, 3)):
        p = g.rng.choice(pats)
        if g.rng.random() < 0.3 and len(p) > 1:
            p = p[: g.rng.randint(1, len(p) - 1)]
        if len(out) >= len(p):
            pos = g.rng.choice([0, len(out) - len(p), g.rng.randint(0, len(out) - len(p))])
            out[pos:pos + len(p)] = p
    return bytes(out)


def gen_C06(tier, seed):
    g = Gen(seed)
    q = tier == "quick"
    reqs = []
    for _ in range(qn(q, 400, 6000)):
        pats = packed_pats(g)
        if g.rng.random() < 0.3:
            pats = hi_translate(g, pats)
        mk = g.rng.choice(["lf", "ll"])
        nolim = 1 if (len(pats) > 64 or g.rng.random() < 0.2) else 0
        for _ in range(2):
            hay = packed_hay(g, pats)
            kv = {"mk": mk, "pats": hxlist(pats), "hay": hx(hay)}
            api = g.rng.choice(["find", "find", "find", "iter"])
            kv["api"] = api
            if api == "find":
                s, e = g.span(len(hay))
                if s <= e:
                    kv["s"] = s; kv["e"] = e
            if nolim:
                kv["nolimits"] = 1
            kv["pcfg"] = ";".join(PACKED_VARIANTS)
            reqs.append(fmt_req("packed", kv))
    # systematic: a match at EVERY offset of haystacks of EVERY length (all positions modulo the vector
    # width, final overlapped window, carry lanes), for 1..4-byte fingerprints, all variants
    sets = [[b"abc", b"bcd"], [b"abcd", b"bcde"]] + ([] if q else [[b"ab", b"cd"], [b"ab", b"b"], [b"abcde", b"abc"]])
    for pats in sets:
        for n in range(0, (72 if q else 104)):
            for pos in range(0, max(1, n - len(pats[0]) + 1)):
                hay = bytearray(b"x" * n)
                hay[pos:pos + len(pats[0])] = pats[0][: max(0, n - pos)]
                kv = {"mk": "lf" if (n + pos) % 2 else "ll", "pats": hxlist(pats), "hay": hx(bytes(hay)),
                      "api": "find", "pcfg": ";".join(PACKED_VARIANTS)}
                if not q and pos % 3 == 0 and n > 3:
                    kv["s"] = min(pos, 1 + (pos * 7) % 3); kv["e"] = n
                reqs.append(fmt_req("packed", kv))
                if pos % 2 == 0 and pos + 1 <= n:
                    # the span starts one byte INSIDE the occurrence: nothing before the span may be reported (the first
                    # vector window's leading lanes stand for positions before the span)
                    kv2 = dict(kv); kv2["s"] = pos + 1; kv2["e"] = n
                    reqs.append(fmt_req("packed", kv2))
    # exactly at the builder's pattern limit (128 accepted, the 129th renders the builder inert: no searcher), every engine
    for n in (127, 128, 129, 130):
        seen, pats = set(), []
        while len(pats) < n:
            w = g.word(b"abcdefghijkl", 3, 5)
            if w not in seen:
                seen.add(w); pats.append(w)
        hay = b"zz" + pats[0] + b"zzzzzzzzzzzzzzzzzzzzzzzzz" + pats[-1] + b"zzz" + pats[n // 2]
        for mk in ("lf", "ll"):
            reqs.append(fmt_req("packed", {"mk": mk, "pats": hxlist(pats), "hay": hx(hay), "api": "iter", "pcfg": "rk;default;teddy"}))
    # the empty pattern anywhere in the list (and more patterns than the builder accepts): no searcher at all, never a
    # searcher of the remaining patterns
    for pats in ([b"ab", b""], [b"", b"ab"], [b"ab", b"", b"cd"], [b"", b"ab", b"cd", b"xab"], [b""], [b"a", b"b", b""]):
        for mk in ("lf", "ll"):
            reqs.append(fmt_req("packed", {"mk": mk, "pats": hxlist(pats), "hay": hx(b"xabcdxxxxxxxxxxxxxxxxxxxxxab"), "pcfg": "default;rk;teddy"}))
    return {"reqs": reqs, "certs": [], "gen": g, "needs_cpu": True}


def gen_C20(tier, seed):
    g = Gen(seed)
    q = tier == "quick"
    allc = ["nc.d.1.0.b", "nc.0.1.1.b", "nc.9.1.1.b", "c.d.1.1.b", "c.0.0.0.b", "c.9.1.1.b", "dfa.d.1.1.u", "dfa.d.0.0.a",
            "dfa.d.1.0.b", "tnc.d.1.1.u", "tc.3.0.1.a", "tdfa.d.1.1.b", "auto.d.1.1.u", "auto.d.1.1.a", "auto.d.1.1.b",
            "auto.d.0.0.u"]
    reqs = []
    shapes = [[], [b""], [b"", b""], [b"a", b"a", b"a"], [bytes(range(256))], [bytes([i]) for i in range(256)],
              [b"x" * 300], [b"ab" * 150, b"ab" * 149 + b"a"], [b"a" * k for k in range(1, 40)]]
    for pats in shapes:
        for mk in ("std", "lf", "ll"):
            for fold in (0, 1):
                kv = {"mk": mk, "pats": hxlist(pats), "cfgs": cfgs(allc)}
                if fold:
                    kv["fold"] = 1
                reqs.append(fmt_req("meta", kv))
                reqs.append(fmt_req("selfcheck", kv))
    for _ in range(qn(q, 60, 800)):
        pats = g.pats(kinds=["tiny", "tiny3", "nest", "akb", "suffix_chain", "fanout", "casey", "random_bytes"])
        kv = {"mk": g.rng.choice(["std", "lf", "ll"]), "pats": hxlist(pats), "cfgs": cfgs(allc)}
        if g.rng.random() < 0.3:
            kv["fold"] = 1
        reqs.append(fmt_req("meta", kv))
        reqs.append(fmt_req("selfcheck", kv))
    # memory_usage() against the sizes of the transcribed automata (states, sparse / matches / dense side vectors,
    # repr, DFA table): the counters the build-limit theorems (C20_build_*) are stated over
    memc = ["nc.d.1.0.b", "nc.0.1.0.b", "nc.1.1.0.b", "nc.9.1.0.b", "c.d.1.0.b", "c.0.0.0.b", "c.3.1.0.b", "c.9.0.0.b",
            "dfa.d.1.0.u", "dfa.d.0.0.a", "dfa.d.1.0.b", "dfa.d.0.0.b"]
    for _ in range(qn(q, 50, 600)):
        pats = g.pats(kinds=["tiny", "tiny3", "nest", "akb", "suffix_chain", "fanout_small", "casey", "random_bytes", "periodic"])
        kv = {"mk": g.rng.choice(["std", "lf", "ll"]), "pats": hxlist(pats), "cfgs": cfgs(memc)}
        if g.rng.random() < 0.3:
            kv["fold"] = 1
        reqs.append(fmt_req("memusage", kv))
    for pats in shapes[:6] + [fanout_exact(g, w, 2) for w in (127, 128, 254, 256)]:
        reqs.append(fmt_req("memusage", {"mk": "std", "pats": hxlist(pats), "cfgs": cfgs(memc)}))
    # fan-outs at which a state's encoding switches (every pattern must still be found with its own id)
    for w in FANOUT_EDGE_WIDTHS:
        for (pl, wp) in ((1, False), (3, True)):
            pats = fanout_exact(g, w, pl, wp)
            kv = {"mk": g.rng.choice(["std", "ll"]), "pats": hxlist(pats), "cfgs": cfgs(allc)}
            reqs.append(fmt_req("meta", kv))
            reqs.append(fmt_req("selfcheck", kv))
    # pattern ids through a confirming (packed) prefilter when leftmost-first drops patterns from the trie
    for _ in range(qn(q, 40, 400)):
        base = [g.word(b"abcdefgh", 2, 5) for _ in range(g.rng.randint(4, 10))]
        i = g.rng.randrange(len(base))
        pats = base[:i + 1] + [base[i] + g.word(b"xyz", 1, 3)] + base[i + 1:]
        kv = {"mk": "lf", "pats": hxlist(pats), "cfgs": cfgs(allc)}
        reqs.append(fmt_req("meta", kv))
        reqs.append(fmt_req("selfcheck", kv))
    # the automatic choice switches at 100 patterns
    for n in (99, 100, 101, 128, 129):
        pats = [bytes([97 + i % 26, 97 + i // 26, 33]) for i in range(n)]
        reqs.append(fmt_req("meta", {"mk": "lf", "pats": hxlist(pats), "cfgs": cfgs(allc)}))
    # large collections (exploration of build totality): up to thousands of patterns x hundreds of bytes
    sizes = [(300, 20), (1000, 8)] if q else [(300, 20), (1000, 8), (3000, 40), (5000, 300), (2000, 120)]
    for n, ln in sizes:
        pats = [bytes(g.rng.randrange(256) for _ in range(g.rng.randint(1, ln))) for _ in range(n)]
        for mk in ("std", "lf"):
            kv = {"mk": mk, "pats": hxlist(pats),
                  "cfgs": cfgs(["nc.d.1.1.b", "c.d.1.1.b", "c.0.0.0.b", "dfa.d.1.1.u", "auto.d.1.1.u", "auto.d.1.1.b"])}
            reqs.append(fmt_req("meta", kv))
            reqs.append(fmt_req("selfcheck", kv))
    return {"reqs": reqs, "certs": [], "gen": g, "needs_consts": ["meta"], "needs_cpu": True}


def gen_C19(tier, seed):
    g = Gen(seed)
    q = tier == "quick"
    cf = ["nc.d.1.0.b", "nc.0.1.0.b", "c.d.1.0.b", "c.0.0.0.b", "c.9.1.0.b", "dfa.d.1.0.b", "dfa.d.0.0.u",
          "tnc.d.1.0.b", "tc.d.1.0.u", "tdfa.d.1.0.u", "auto.d.1.0.u", "auto.d.1.0.b",
          "nc.d.1.1.b", "c.d.1.1.b", "dfa.d.1.1.u", "auto.d.1.1.u", "auto.d.1.1.b"]
    reqs = []

    def families():
        k = g.rng.choice(["akb", "akb_only", "sufchain", "casey", "nest", "tiny", "pre", "rep_inherit"])
        g.note("cost:" + k)
        if k == "rep_inherit":
            # x c^K y plus the single byte c: every state x c^j is a match state only through the inherited
            # suffix pattern c (work of anchored / resumed searches must not grow with K)
            c = bytes([g.rng.choice(b"bc")]); K = g.rng.randint(2, 24)
            ps = [b"x" + c * K + b"y", c]
            if g.rng.random() < 0.3:
                ps.append(c * 2)
            g.rng.shuffle(ps)
            return ps
        if k == "akb":
            return g.akb()
        if k == "akb_only":
            n = g.rng.randint(3, 12)
            return [b"a" * n + b"b"]
        if k == "sufchain":
            return g.suffix_chain()
        if k == "casey":
            return g.casey()
        if k == "nest":
            return g.nest()
        if k == "pre":
            return pre_pats(g)
        return g.tiny()

    for _ in range(qn(q, 300, 4000)):
        pats = families()
        mk = g.rng.choice(["std", "lf", "ll"])
        fold = g.rng.random() < 0.2
        for _ in range(2):
            r = g.rng.random()
            if any(p[:1] == b"x" and len(p) > 3 and p[-1:] == b"y" for p in pats) and r < 0.7:
                long = max(pats, key=len)
                hay = g.rng.choice([b"", b"z"]) + long[:g.rng.randint(2, len(long))] + g.rng.choice([b"", b"z", b"x"])
                s, e = (0, len(hay)) if hay[:1] == b"x" else (1, len(hay))
                kv = {"api": "ovl", "mk": "std", "pats": hxlist(pats), "hay": hx(hay), "s": s, "e": e,
                      "anch": 1, "n": 4 + len(hay), "cfgs": cfgs(cf)}
                reqs.append(fmt_req("cost", kv))
            if r < 0.4:
                # force the longest chains: a^n then a foreign byte, repeated
                n = g.rng.randint(1, 30)
                hay = (b"a" * n + g.rng.choice([b"c", b"b", b"x"])) * g.rng.randint(1, 3)
            elif r < 0.6:
                hay = pre_hay(g, pats, fold)
            else:
                hay = g.hay(pats, 30, fold)
            s, e = g.span(len(hay))
            kv = {"api": "find", "mk": mk, "pats": hxlist(pats), "hay": hx(hay), "s": s, "e": e}
            if fold:
                kv["fold"] = 1
            if g.rng.random() < 0.2:
                kv["anch"] = 1
            if g.rng.random() < 0.15:
                kv["earliest"] = 1
            kv["cfgs"] = cfgs(cf)
            reqs.append(fmt_req("cost", kv))
            if g.rng.random() < 0.35:
                # the stepwise overlapping search: counters of every call of one call sequence
                ko = dict(kv); ko["api"] = "ovl"; ko.pop("earliest", None)
                ko["mk"] = "std" if g.rng.random() < 0.9 else mk
                if g.rng.random() < 0.4:
                    ko["anch"] = 1
                ko["n"] = 2 + min(40, (len(pats) + 1) * (len(hay) + 1))
                reqs.append(fmt_req("cost", ko))
    # a span that ends long before the haystack does: no work counter may grow with what lies BEHIND the span
    for _ in range(qn(q, 60, 600)):
        if g.rng.random() < 0.6:
            # start-byte / rare-byte prefilter lists and a span full of FALSE candidates (a start byte followed by a
            # foreign byte): the search falls back into the start state inside the span and runs the prefilter again
            starts = g.rng.sample(list(b"abc"), g.rng.randint(1, 3))
            pats = [bytes([c]) + bytes(g.rng.choice(b"pq") for _ in range(g.rng.randint(1, 3))) for c in starts]
            head = b"".join(g.rng.choice([bytes([g.rng.choice(starts)]) + b"z", b"z", b"zz", bytes([g.rng.choice(starts)]) + b"pz"])
                            for _ in range(g.rng.randint(1, 8)))
        else:
            pats = pre_pats(g)
            head = pre_hay(g, pats)
        alpha, foreign = g.alphabet(pats)
        tail = bytes([foreign]) * g.rng.choice([100, 300, 1000]) + (g.rng.choice(pats) if g.rng.random() < 0.5 else b"")
        hay = head + tail
        s0 = g.rng.randint(0, len(head)); e0 = g.rng.randint(s0, len(head))
        kv = {"api": g.rng.choice(["find", "find", "ovl"]), "mk": g.rng.choice(["std", "lf", "ll"]), "pats": hxlist(pats), "hay": hx(hay),
              "s": s0, "e": e0, "cfgs": cfgs(cf)}
        if kv["api"] == "ovl":
            kv["mk"] = "std"; kv["n"] = 6
        reqs.append(fmt_req("cost", kv))
    # stream searches: the transitions of a whole search, for many refills (small reads, little spare room) and long
    # patterns (what a refill could re-scan is as long as the longest pattern)
    for _ in range(qn(q, 60, 600)):
        k = g.rng.randint(2, 30)
        pats = g.rng.choice([[b"a" * k + b"b", b"aab", b"cc"], [b"a" * k + b"b"], g.akb(), g.suffix_chain()])
        pats = [p for p in pats if p] or [b"ab"]
        data = b"".join(g.rng.choice([b"a" * g.rng.randint(1, k + 3), b"b", b"c", b"cc", b"x"]) for _ in range(g.rng.randint(3, 30)))
        sched, left = [], len(data)
        while left > 0:
            n = g.rng.choice([1, 1, 2, 3, 5, 7, 64])
            sched.append(n); left -= n
        kv = {"api": "stream", "mk": "std", "pats": hxlist(pats), "hay": hx(data),
              "sched": ",".join(map(str, sched)) if sched else ".", "spare": g.rng.choice([1, 1, 2, 5, 8 * max(len(p) for p in pats)]),
              "cfgs": cfgs(["nc.d.1.0.b", "c.d.1.0.b", "dfa.d.1.0.u", "auto.d.1.0.u", "tc.d.1.0.u"])}
        reqs.append(fmt_req("cost", kv))
    allc = ["nc.d.1.0.b", "nc.0.1.0.b", "c.d.1.0.b", "c.0.0.0.b", "c.2.1.0.b", "c.9.0.0.b", "dfa.d.1.0.b", "dfa.d.0.0.u"]
    certs = _fixed_certs(["std", "lf", "ll"], CORPUS_LISTS + [[b"a" * 8 + b"b"], [b"aaab", b"aab", b"ab", b"b"]], cfgl=allc)
    certs += _certs(g, qn(q, 40, 500), ["std", "lf", "ll"], fold=0.25,
                    pat_kinds=["tiny", "tiny3", "nest", "akb", "suffix_chain", "casey", "fanout_small"], cfgl=allc)
    return {"reqs": reqs, "certs": certs, "first": "bykind", "gen": g, "needs_consts": ["cost"], "needs_cpu": True,
            "failsmode": True, "modes": "0", "l1c": True}


TOP_APIS = ["is_match", "find", "find_overlapping", "find_iter", "find_overlapping_iter", "replace_all",
            "replace_all_bytes", "replace_all_with", "replace_all_with_bytes", "stream_find_iter",
            "try_find", "try_find_overlapping", "try_find_iter", "try_find_overlapping_iter", "try_replace_all",
            "try_replace_all_bytes", "try_replace_all_with", "try_replace_all_with_bytes", "try_stream_find_iter",
            "try_stream_replace_all", "try_stream_replace_all_with"]
LOW_APIS = ["try_find", "try_find_overlapping", "try_find_iter", "try_find_overlapping_iter",
            "try_replace_all_bytes", "try_replace_all", "try_stream_find_iter", "try_stream_replace_all"]


def gen_C13(tier, seed):
    """exhaustive: every entry point x match kind x start kind x anchoring x automaton kind x
    {empty pattern present, absent} x pattern lists x haystacks"""
    g = Gen(seed)
    q = tier == "quick"
    lists = [([b"ab", b"b"], [b"", b"ab"]), ([b"x"], [b"x", b""])] + ([] if q else [([b"abc", b"bc", b"c"], [b"", b"", b"a"])])
    # haystack + span: ordinary, empty, and a "done" input (start = end + 1)
    hays = [(b"xabx", None), (b"", None), (b"xabx", (3, 2))] + ([] if q else [(b"ab", None), (b"ab", (1, 0))])
    reqs = []
    for api in TOP_APIS:
        for mk in ("std", "lf", "ll"):
            for anch in (0, 1):
                for noempty, withempty in lists:
                    for pats in (noempty, withempty):
                        for hay, span in hays:
                            top = ["%s.d.1.0.%s" % (k, sk) for k in ("tnc", "tc", "tdfa", "auto") for sk in "uab"]
                            kv = {"api": api, "mk": mk, "pats": hxlist(pats), "hay": hx(hay), "cfgs": cfgs(top)}
                            if span:
                                kv["s"], kv["e"] = span
                            if anch:
                                kv["anch"] = 1
                            reqs.append(fmt_req("gate", kv))
    for api in LOW_APIS:
        for mk in ("std", "lf", "ll"):
            for anch in (0, 1):
                for noempty, withempty in lists:
                    for pats in (noempty, withempty):
                        # (also WITH a prefilter, and on haystacks where the prefilter finds no candidate / confirms a match by
                        # itself: whether a search is rejected must not depend on what a prefilter says about the input)
                        low = ["nc.d.1.0.b", "c.d.1.0.b", "dfa.d.1.0.u", "dfa.d.1.0.a", "dfa.d.1.0.b",
                               "dfa.d.1.1.u", "dfa.d.1.1.a", "dfa.d.1.1.b", "nc.d.1.1.b", "c.d.1.1.b"]
                        for hay, span in ((b"xabx", None), (b"xabx", (3, 2)), (b"zzzzzz", None), (b"", None), (b"zzzx", (0, 3))):
                            kv = {"api": api, "mk": mk, "pats": hxlist(pats), "hay": hx(hay), "cfgs": cfgs(low)}
                            if span:
                                kv["s"], kv["e"] = span
                            if anch:
                                kv["anch"] = 1
                            reqs.append(fmt_req("gate", kv))
    # the same table through the capstone model (TopLevel2: Top_rejection_iff): which error, if any, the real method returns
    for op in ("topfind", "topismatch", "topiter", "topovl", "topstream", "topstreamrep", "topstreamrepwith"):
        for mk in ("std", "lf", "ll"):
            for anch in ((0,) if op.startswith("topstream") else (0, 1)):
                for noempty, withempty in lists:
                    for pats in (noempty, withempty):
                        top = ["%s.d.1.0.%s" % (k, sk) for k in ("tnc", "tc", "tdfa", "auto") for sk in "uab"]
                        kv = {"mk": mk, "pats": hxlist(pats), "hay": hx(b"xabx"), "cfgs": cfgs(top)}
                        if anch:
                            kv["anch"] = 1
                        if op == "topovl":
                            kv["n"] = 3
                        if op.startswith("topstream"):
                            kv["sched"] = "3,1"; kv["spare"] = 1
                            if op != "topstream":
                                kv["repl"] = hxlist([b"R"] * len(pats))
                        reqs.append(fmt_req(op, kv))
    return {"reqs": reqs, "certs": [], "gen": g, "exhaustive": True}


def custom_C15(run, chk):
    """C15: proof stage (index arithmetic / well-formed matches on the model) + guard-page exploration of the real
    code: every request is executed in a child process with the haystack flush against a PROT_NONE page on the
    right and then on the left; a stray read is a SIGSEGV of the child; results are also compared with the model."""
    import subprocess, vlib, os
    a = chk.proof_stage(run)
    g = Gen(run.seed)
    q = run.tier == "quick"
    cpu = vlib.index_resp(vlib.run_impl(["cpu x=1"], "cpu")[0]).get((0, "-"), "avx2=0 ssse3=0")
    reqs = []
    lens = list(range(0, 3 * 32 + 9)) if not q else list(range(0, 72))
    variants = ";".join(PACKED_VARIANTS)
    acf = cfgs(["nc.d.1.1.b", "c.d.1.1.b", "dfa.d.1.1.u", "auto.d.1.1.u", "nc.d.1.0.b"])
    # systematic: an occurrence at every offset of haystacks of every length around the vector widths, for 3- and
    # 4-byte fingerprints, whole haystack and a span starting just inside the occurrence
    for pats in ([b"abc", b"bcd"], [b"abcd", b"bcde"]):
        for n in (range(16, 40) if q else range(4, 72)):
            for pos in range(0, n - len(pats[0]) + 1, (2 if q else 1)):
                hay = bytearray(b"x" * n)
                hay[pos:pos + len(pats[0])] = pats[0]
                for (s0, e0) in ((0, n), (min(pos + 1, n), n)):
                    kv = {"mk": "lf", "pats": hxlist(pats), "hay": hx(bytes(hay)), "s": s0, "e": e0, "api": "find", "pcfg": variants}
                    reqs.append(fmt_req("packed", kv) + " " + cpu)
    for n in lens:
        for _ in range(2 if q else 5):
            pats = packed_pats(g) if g.rng.random() < 0.6 else pre_pats(g)
            if g.rng.random() < 0.25:
                pats = hi_translate(g, pats)
            r = g.rng.random()
            if r < 0.4:
                hay = bytes(g.rng.randrange(256) for _ in range(n))          # arbitrary bytes
            else:
                alpha, foreign = g.alphabet(pats)
                hay = bytearray(bytes([foreign]) * n)
                for _ in range(g.rng.randint(0, 3)):
                    p = g.rng.choice(pats)
                    if len(hay) >= len(p) and p:
                        pos = g.rng.choice([0, len(hay) - len(p), g.rng.randint(0, len(hay) - len(p))])
                        hay[pos:pos + len(p)] = p
                hay = bytes(hay)
            s, e = g.span(len(hay))
            if s > e:
                s, e = e, e
            mk = g.rng.choice(["lf", "ll"])
            kv = {"mk": mk, "pats": hxlist(pats), "hay": hx(hay), "s": s, "e": e, "api": "find", "pcfg": variants}
            if len(pats) > 64:
                kv["nolimits"] = 1
            reqs.append(fmt_req("packed", kv) + " " + cpu)
            kv2 = {"mk": g.rng.choice(["std", "lf", "ll"]), "pats": hxlist(pats), "hay": hx(hay), "s": s, "e": e, "cfgs": acf}
            if g.rng.random() < 0.2:
                kv2["fold"] = 1
            reqs.append(fmt_req(g.rng.choice(["find", "iter"]), kv2))
    os.makedirs(vlib.WORK, exist_ok=True)
    rf = os.path.join(vlib.WORK, "req_C15.txt")
    open(rf, "w").write("\n".join(reqs) + "\n")
    p = subprocess.run([vlib.HARNESS, "guardchild", rf], capture_output=True, text=True, env=vlib.env())
    out = p.stdout.splitlines()
    crashed = p.returncode != 0
    last_begin = None
    impl = {}
    for l in out:
        if l.startswith("BEGIN "):
            last_begin = int(l.split()[1]); continue
        parts = l.split(" ", 2)
        if len(parts) == 3:
            impl[(int(parts[0]), parts[1])] = parts[2]
    if crashed:
        run.violation({"kind": "child process died (signal / abort) while searching a guard-page placed haystack",
                       "returncode": p.returncode, "request": reqs[last_begin] if last_begin is not None else None,
                       "cfg": "guardchild", "stderr": p.stderr[-500:]})
    model = vlib.index_resp(vlib.run_model(reqs))
    mism = []
    panics = 0
    for (ln, cfg), resp in sorted(impl.items()):
        base = cfg[:-1]
        exp = model.get((ln, base))
        if resp == "panic":
            panics += 1
        if exp is not None and resp != exp:
            r0 = reqs[ln]
            mism.append({"req": r0, "cfg": base, "impl": resp, "model": exp, "line": ln})
    run.cov.update({"evaluations": len(impl), "requests": len(reqs), "haystack_lengths": [lens[0], lens[-1]],
                    "placements": ["flush against PROT_NONE page on the right", "flush against PROT_NONE page on the left"],
                    "distinct_nontrivial": len(set(vlib.canonical(reqs[ln]) for (ln, c), r in impl.items()
                                                   if r not in ("none", "[]", "unavailable"))),
                    "panics": panics, "child_returncode": p.returncode, "cpu": cpu,
                    "rule": "one case = one search of the real code on a guard-page placed haystack (two placements); "
                            "non-trivial = the search reported at least one match; distinct by request text",
                    "pattern_shape_histogram": g.shape_hist, "exhaustive": False,
                    "explanation": "PARTIAL: Lean theorems cover the model's index arithmetic and match well-formedness; the loads "
                                   "of the compiled unsafe SIMD code are observed under guard pages, not proved"})
    run.samples += [r[:300] for r in reqs[:3]]
    chk.handle_mismatches(run, mism)
    if a["failures"] and not run.violations:
        run.violation({"kind": "proof obligation no longer checks", "failures": a["failures"], "log": a["log"][-2000:]},
                      "no-failing-input-found")
    run.finish(chk.level_of("C15"), chk.ASSUME + ["guard pages detect reads outside the haystack's pages only at page "
               "granularity on the far side; the two flush placements cover over-reads past the end and before the start"])


AUDIT_PATTERNS = [
    (r"\bCell\s*<|\bRefCell\b|\bUnsafeCell\b|\bOnceCell\b|\bOnceLock\b|\bLazyLock\b|\blazy_static\b", "interior mutability"),
    (r"\bAtomic(?:Bool|Usize|U8|U16|U32|U64|I\w+|Ptr)\b", "atomic"),
    (r"\bMutex\b|\bRwLock\b|\bCondvar\b", "lock"),
    (r"\bstatic\s+mut\b", "static mut"),
    (r"\bthread_local!", "thread local"),
    (r"\.write\(|\.write_unaligned\(|\.write_volatile\(|copy_nonoverlapping|ptr::write|\bas\s+\*mut\b|\*mut\s+u8", "raw write"),
]


def source_audit_C17():
    """syntactic sufficient condition for 'no hidden mutable state': none of the constructs above in /repo/src
    outside #[cfg(aho_corasick_verif)] items, tests and comments; searcher traits still require Send + Sync"""
    import re, os
    hits, files = [], 0
    for root, _, fs in os.walk("/repo/src"):
        for f in fs:
            if not f.endswith(".rs") or f in ("tests.rs", "verif.rs"):
                continue
            path = os.path.join(root, f)
            files += 1
            lines = open(path).read().split("\n")
            skip_next_item = False
            in_tests = False
            for n, line in enumerate(lines, 1):
                code = line.split("//")[0]
                if "#[cfg(test)]" in code or "mod tests" in code:
                    in_tests = True
                if in_tests:
                    continue
                if "cfg(aho_corasick_verif)" in code:
                    skip_next_item = 4      # the guarded statement / expression follows within a few lines
                    continue
                if skip_next_item:
                    skip_next_item -= 1
                    if "crate::verif::" in code or "stream_spare" in code or code.strip() in ("", "};", "}"):
                        continue
                for pat, what in AUDIT_PATTERNS:
                    if re.search(pat, code):
                        hits.append("%s:%d: %s: %s" % (os.path.relpath(path, "/repo"), n, what, line.strip()[:100]))
    src = lambda rel: open(os.path.join("/repo/src", rel)).read()
    bounds = []
    if not re.search(r"trait PrefilterI:\s*\n?\s*Send \+ Sync", src("util/prefilter.rs")):
        bounds.append("PrefilterI no longer requires Send + Sync")
    if not re.search(r"trait SearcherT:\s*\n?\s*Debug \+ Send \+ Sync", src("packed/teddy/builder.rs")):
        bounds.append("teddy SearcherT no longer requires Send + Sync")
    if not re.search(r"trait AcAutomaton:\s*\n?\s*Automaton \+ Debug \+ Send \+ Sync", src("ahocorasick.rs")):
        bounds.append("AcAutomaton no longer requires Send + Sync")
    return files, hits, bounds


def custom_C17(run, chk):
    import vlib
    a = chk.proof_stage(run)
    g = Gen(run.seed)
    q = run.tier == "quick"
    files, hits, bounds = source_audit_C17()
    run.cov["audit_files"] = files
    run.cov["audit_hits"] = hits
    for hmsg in hits[:5]:
        run.violation({"kind": "source audit: construct that can carry hidden mutable state outside the cfg-guarded hooks",
                       "where": hmsg}, "no-failing-input-found")
    for bmsg in bounds:
        run.violation({"kind": "source audit: thread-safety bound removed", "where": bmsg}, "no-failing-input-found")
    cf = ["nc.d.1.1.b", "c.d.1.1.b", "dfa.d.1.1.u", "tnc.d.1.1.u", "tc.d.1.0.u", "tdfa.d.1.1.u", "auto.d.1.1.u", "auto.d.1.1.b"]
    reqs = []
    for _ in range(qn(q, 25, 300)):
        pats = pre_pats(g) if g.rng.random() < 0.6 else g.pats()
        mk = g.rng.choice(["std", "lf", "ll"])
        hays = [pre_hay(g, pats) if g.rng.random() < 0.5 else g.hay(pats, 20) for _ in range(g.rng.randint(2, 5))]
        kv = {"mk": mk, "pats": hxlist(pats), "hays": "|".join(hx(h) for h in hays), "threads": 8,
              "reps": (10 if q else 40), "seed": g.rng.randint(1, 10 ** 6), "cfgs": cfgs(cf)}
        reqs.append(fmt_req("threads", kv))
    # history-sensitive family: a probe haystack searched on the fresh searcher (first in the list), then match-dense
    # haystacks (dozens of consecutive prefilter hits a few bytes apart) and a sparse one, then the probe again in the
    # "after" phase.  Leftmost kinds with a packed-prefilter-eligible list and a pattern nested inside a longer one, so
    # that earliest mode (third operation of each haystack) has two admissible answers and any adaptive per-searcher
    # state that switches search strategy becomes visible as before != after.
    for _ in range(qn(q, 12, 120)):
        alpha = b"abcdefgh"
        long = g.word(alpha, 4, 6)
        others = [bytes([c]) + g.word(alpha, 1, 3) for c in g.rng.sample(list(b"qrstuvwxy"), g.rng.randint(2, 4))]
        pats = [long, long[1:3]] + others
        g.rng.shuffle(pats)
        probe = b"zz" + long + b"zz"
        dense = b"".join(g.rng.choice(others + [long[1:3]]) for _ in range(g.rng.randint(45, 90)))
        sparse = b"z" * g.rng.randint(20, 40) + g.rng.choice(pats)
        hays = [probe, dense, sparse, dense[: len(dense) // 2]]
        kv = {"mk": g.rng.choice(["lf", "ll"]), "pats": hxlist(pats), "hays": "|".join(hx(h) for h in hays), "threads": 8,
              "reps": (4 if q else 12), "seed": g.rng.randint(1, 10 ** 6), "cfgs": cfgs(["auto.d.1.1.u", "nc.d.1.1.b", "tdfa.d.1.1.u"])}
        reqs.append(fmt_req("threads", kv))
    # a Teddy bucket with three or more patterns that share their fingerprint (a word, a proper prefix of it, another
    # extension of the prefix): the probe holds the WORD, the history holds only the prefix / the other extension, each on a
    # haystack long enough for the vector code; any per-bucket memory of "what matched last" shows as before != after
    for _ in range(qn(q, 12, 120)):
        stem = g.word(b"abcdefgh", 2, 4)
        word = stem + g.word(b"abcdefgh", 2, 3)
        ext2 = stem + g.word(b"ijklmnop", 2, 3)
        others = [bytes([c]) + g.word(b"abcdefgh", len(stem), 4) for c in g.rng.sample(list(b"qrstuvwxy"), g.rng.randint(3, 5))]
        trio = [word, stem, ext2] if g.rng.random() < 0.5 else [stem, word, ext2]
        pats = trio + others
        if g.rng.random() < 0.3:
            g.rng.shuffle(pats)
        pad = b"-" * g.rng.choice([20, 40, 70])
        probe = pad + word + pad
        hays = [probe, pad + stem + b"-" + pad, pad + ext2 + pad, pad + stem + pad + ext2 + pad + stem, probe + word]
        kv = {"mk": g.rng.choice(["lf", "ll"]), "pats": hxlist(pats), "hays": "|".join(hx(h) for h in hays), "threads": 8,
              "reps": (4 if q else 12), "seed": g.rng.randint(1, 10 ** 6), "cfgs": cfgs(["auto.d.1.1.u", "nc.d.1.1.b", "tdfa.d.1.1.u", "tc.d.1.1.b"])}
        reqs.append(fmt_req("threads", kv))
    impl, model, mism = vlib.diff(reqs, "C17")
    run.cov.update({"evaluations": len(impl), "requests": len(reqs),
                    "distinct_nontrivial": len(set(r for r in impl.values() if ":" in r)),
                    "threads": 8, "operations_per_thread": "reps x 3 x |haystacks| (find, iter, overlapping / earliest), seeded order",
                    "rule": "one case = one searcher shared by 8 threads (odd threads on their own clone), each executing a seeded "
                            "sequence of mixed operations; every result compared with the same operation run alone before and after; "
                            "non-trivial = some operation reports a match",
                    "pattern_shape_histogram": g.shape_hist, "exhaustive": False,
                    "explanation": "PARTIAL: the model theorem (handles are independent, plain searches are pure functions) states "
                                   "what is compared; data-race freedom of the compiled code is a property of the memory model that "
                                   "no executable model exhibits - it is covered by the syntactic source audit (sufficient condition) "
                                   "and observed by the concurrent differential run"})
    run.samples += [r[:300] for r in reqs[:2]]
    chk.handle_mismatches(run, mism)
    if a["failures"] and not run.violations:
        run.violation({"kind": "proof obligation no longer checks", "failures": a["failures"], "log": a["log"][-2000:]},
                      "no-failing-input-found")
    run.finish(chk.level_of("C17"), chk.ASSUME)


CUSTOM = {"C15": custom_C15, "C17": custom_C17}
GENS = {"C13": gen_C13, "C19": gen_C19, "C20": gen_C20, "C06": gen_C06, "C05": gen_C05, "C10": gen_C10, "C07": gen_C07, "C08": gen_C08, "C18": gen_C18, "C12": gen_C12, "C01": gen_C01, "C02": gen_C02, "C03": gen_C03, "C04": gen_C04, "C09": gen_C09,
        "C11": gen_C11, "C14": gen_C14, "C16": gen_C16}
