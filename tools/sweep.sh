#!/bin/bash
# all quick checks on the current tree, WITH proofs; prints violations and any evidence file without discharged obligations
cd /verif
unset VERIF_DEV_SKIP_PROOF VERIF_FAST
git -C /repo status --short | grep -q . && echo "WARNING: /repo is not clean"
for i in 01 02 03 04 05 06 07 08 09 10 11 12 13 14 15 16 17 18 19 20; do
  /usr/bin/time -f "C$i %es" ./check C$i --tier ${1:-quick} 2>&1 | grep -v WARN | grep -E "VIOLATION|KNOWN|^C[0-9]+ "
done
python3 - <<'PY'
import json
bad=[]
for i in range(1,21):
    p='C%02d'%i
    d=json.load(open('/verif/evidence/%s.json'%p))
    c=d['coverage']
    if not c.get('obligations') or c.get('obligations')!=c.get('discharged') or d.get('violations'):
        bad.append((p,c.get('obligations'),c.get('discharged'),d.get('violations')))
print("evidence-problems:", bad)
PY
